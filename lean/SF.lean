import SF.Basic
import SF.Scalars
import SF.Model.Pure
import SF.Model.Window
import SF.Model.Ehlers
import SF.Expr
import SF.Spec
