import SF.Basic
import SF.Scalars
import SF.Model.Pure
import SF.Model.Window
import SF.Model.Ehlers
import SF.Expr
import SF.Spec
/-
  Line-protocol interpreter for the model (`VE` via `denote`) and the batch specs, at `Float` and `Rat`.

  C <id> <f|q> <view|spec> <sexpr>     start a case
  U <v>      update                    (prints nothing, or `P <kind>` on a modelled panic)
  L          last                      prints `N` | `S <v>` | `P <kind>`
  X <v>      update then last
  A          accessors                 prints `A <v> <v> …`
  K <k>      clone current view into slot k      prints `K ok` | `K noclone`
  W <k>      make slot k the current view
  Z          size                      prints `Z <scalars held in buffers>`
  E          end of case
  After a `P` line the rest of the case is skipped.  Scalars: f-mode 16 hex digits of the bits; q-mode `n/d`.
-/
open SF

inductive SX where
  | atom (s : String)
  | list (xs : List SX)
  deriving Inhabited

partial def parseSXList : List String → List SX → Option (List SX × List String)
  | [], _ => none
  | ")" :: rest, acc => some (acc.reverse, rest)
  | "(" :: rest, acc =>
    match parseSXList rest [] with
    | some (xs, rest') => parseSXList rest' (SX.list xs :: acc)
    | none => none
  | t :: rest, acc => parseSXList rest (SX.atom t :: acc)

def tokenize (s : String) : List String :=
  let s := (s.replace "(" " ( ").replace ")" " ) "
  (s.splitOn " ").filter (· ≠ "")

def parseSX (s : String) : Option SX :=
  match tokenize s with
  | "(" :: rest =>
    match parseSXList rest [] with
    | some (xs, []) => some (SX.list xs)
    | _ => none
  | _ => none

structure Scalar (α : Type) where
  parse : String → Option α
  render : α → String

def hexDigit (c : Char) : Option Nat :=
  if '0' ≤ c ∧ c ≤ '9' then some (c.toNat - '0'.toNat)
  else if 'a' ≤ c ∧ c ≤ 'f' then some (c.toNat - 'a'.toNat + 10)
  else none

def parseHex (s : String) : Option Nat :=
  s.toList.foldl (fun acc c => match acc, hexDigit c with
    | some a, some d => some (a * 16 + d)
    | _, _ => none) (some 0)

def toHex16 (n : Nat) : String :=
  let ds := (Nat.toDigits 16 n)
  String.ofList (List.replicate (16 - ds.length) '0' ++ ds)

def floatScalar : Scalar Float where
  parse s := (parseHex s).map fun n => Float.ofBits n.toUInt64
  render f := toHex16 f.toBits.toNat

def parseRat (s : String) : Option Rat :=
  match s.splitOn "/" with
  | [n] => n.toInt?.map fun i => (i : Rat)
  | [n, d] => match n.toInt?, d.toNat? with
    | some i, some k => if k = 0 then none else some (mkRat i k)
    | _, _ => none
  | _ => none

def ratScalar : Scalar Rat where
  parse := parseRat
  render r := if r.den = 1 then toString r.num else s!"{r.num}/{r.den}"

section generic
variable {α : Type} [Add α] [Sub α] [Mul α] [Div α] [Neg α] [NatCast α]
  [LT α] [DecidableLT α] [LE α] [DecidableLE α] [BEq α] [FloatLike α] [Transc α]

def errName : Err → String
  | .unwrapNone => "unwrap"
  | .indexOOB => "index"
  | .usizeUnderflow => "underflow"
  | .assertFailed => "assert"
  | .debugAssert => "debug"

/-- sexpr → VE -/
partial def toVE (sc : Scalar α) : SX → Option (VE α)
  | .list [.atom "echo"] => some .echo
  | .list [.atom "const", .atom c] => (sc.parse c).map .const
  | .list (.atom "probe" :: items) =>
    let vs := items.map fun
      | .atom "N" => some none
      | .atom s => (sc.parse s).map some
      | _ => none
    if vs.all Option.isSome then some (.probe (vs.map fun o => o.getD none)) else none
  | .list [.atom "add", a, b] => do some (.bin .add (← toVE sc a) (← toVE sc b))
  | .list [.atom "sub", a, b] => do some (.bin .sub (← toVE sc a) (← toVE sc b))
  | .list [.atom "mul", a, b] => do some (.bin .mul (← toVE sc a) (← toVE sc b))
  | .list [.atom "div", a, b] => do some (.bin .div (← toVE sc a) (← toVE sc b))
  | .list [.atom "tanh", a] => do some (.tanh (← toVE sc a))
  | .list [.atom "pfe", a, ma, .atom n] => do some (.un2 (.pfe (← n.toNat?)) (← toVE sc a) (← toVE sc ma))
  | .list [.atom "eft", a, ma, .atom n] => do some (.un2 (.eft (← n.toNat?)) (← toVE sc a) (← toVE sc ma))
  | .list (.atom name :: a :: ps) => do
    let A ← toVE sc a
    let strs ← ps.mapM fun | .atom s => some s | _ => none
    let k : UKind α ← match name, strs with
      | "gte", [c] => (sc.parse c).map .gte
      | "lte", [c] => (sc.parse c).map .lte
      | "drawdown", [] => some .drawdown
      | "lnret", [] => some .lnret
      | "wroll", [] => some .wroll
      -- the `Default`-constructed rolling views of the crate are the same views over Echo
      | "drawdown_d", [] => some .drawdown
      | "lnret_d", [] => some .lnret
      | "wroll_d", [] => some .wroll
      | "sma", [n] => n.toNat?.map .sma
      | "ema", [n] => n.toNat?.map .ema
      | "emaa", [n, a] => do some (.emaa (← n.toNat?) (← sc.parse a))
      | "alma", [n] => n.toNat?.map .alma
      | "almac", [n, s, o] => do some (.almac (← n.toNat?) (← sc.parse s) (← sc.parse o))
      | "cum", [n] => n.toNat?.map .cum
      | "min", [n] => n.toNat?.map .min
      | "max", [n] => n.toNat?.map .max
      | "roc", [n] => n.toNat?.map .roc
      | "rsi", [n] => n.toNat?.map .rsi
      | "myrsi", [n] => n.toNat?.map .myrsi
      | "wo", [n] => n.toNat?.map .wo
      | "vst", [n] => n.toNat?.map .vst
      | "vsct", [n] => n.toNat?.map .vsct
      | "hln", [n] => n.toNat?.map .hln
      | "bent", [n] => n.toNat?.map .bent
      | "cog", [n] => n.toNat?.map .cog
      | "cti", [n] => n.toNat?.map .cti
      | "net", [n] => n.toNat?.map .net
      | "ss", [n] => n.toNat?.map .ss
      | "roof", [n, m] => do some (.roof (← n.toNat?) (← m.toNat?))
      | "cc", [n] => n.toNat?.map .cc
      | "lagf", [g] => (sc.parse g).map .lagf
      | "lagrsi", [n] => n.toNat?.map .lagrsi
      | "tflex", [n] => n.toNat?.map .tflex
      | "rflex", [n] => n.toNat?.map .rflex
      | _, _ => none
    some (.un k A)
  | _ => none

/-- a batch spec as a "view": the state is the history, `last` evaluates the spec on it -/
def specView (f : List α → Option α) (acc : List α → List α := fun _ => []) : View α where
  σ := List α
  init := []
  upd h x := pure (h ++ [x])
  last h := pure (f h)
  size h := h.length
  acc := acc

/-- sexpr → batch function (for embedded moving averages inside pfe / eft specs) -/
partial def toSpecFn (sc : Scalar α) : SX → Option (List α → Option α)
  | .list (.atom name :: ps) => do
    match name, ps with
    | "pfe", [.atom n, ma] => do some (Spec.pfe (← n.toNat?) (← toSpecFn sc ma))
    | "eft", [.atom n, ma] => do some (Spec.fisher (← n.toNat?) (← toSpecFn sc ma))
    | _, _ =>
    let strs ← ps.mapM fun | .atom s => some s | _ => none
    match name, strs with
    | "echo", [] => some fun xs => xs.getLast?
    | "sma", [n] => n.toNat?.map fun n => Spec.sma n
    | "cum", [n] => n.toNat?.map fun n => Spec.cumulative n
    | "min", [n] => n.toNat?.map fun n => Spec.wmin n
    | "max", [n] => n.toNat?.map fun n => Spec.wmax n
    | "wo", [n] => n.toNat?.map fun n => Spec.welford n
    | "vst", [n] => n.toNat?.map fun n => Spec.vst n
    | "vsct", [n] => n.toNat?.map fun n => Spec.vsct n
    | "hln", [n] => n.toNat?.map fun n => Spec.hln n
    | "roc", [n] => n.toNat?.map fun n => Spec.roc n
    | "bent", [n] => n.toNat?.map fun n => Spec.entropy n
    | "ema", [n] => n.toNat?.map fun n => Spec.ema n (nat 2)
    | "emaa", [n, a] => do let a ← sc.parse a; let n ← n.toNat?; some (Spec.ema n a)
    | "alma", [n] => n.toNat?.map fun n => Spec.alma n (nat 6) (dec 85 100)
    | "almac", [n, s, o] => do some (Spec.alma (← n.toNat?) (← sc.parse s) (← sc.parse o))
    | "rsi", [n] => n.toNat?.map fun n => Spec.rsi n
    | "myrsi", [n] => n.toNat?.map fun n => Spec.myRsi n
    | "cti", [n] => n.toNat?.map fun n => Spec.cti n
    | "net", [n] => n.toNat?.map fun n => Spec.net n
    | "cog", [n] => n.toNat?.map fun n => Spec.cog n
    | "wroll", [] => some Spec.welfordRolling
    | "drawdown", [] => some fun xs => some (Spec.drawdown xs)
    | "lnret", [] => some Spec.lnReturn
    | "wroll_d", [] => some Spec.welfordRolling
    | "drawdown_d", [] => some fun xs => some (Spec.drawdown xs)
    | "lnret_d", [] => some Spec.lnReturn
    | "ss", [n] => n.toNat?.map fun n => Spec.superSmoother n
    | "roof", [n, m] => do some (Spec.roofing (← n.toNat?) (← m.toNat?))
    | "lagf", [g] => (sc.parse g).map fun g => Spec.laguerreFilter g
    | "lagrsi", [n] => n.toNat?.map fun n => Spec.laguerreRsi n
    | "cc", [n] => n.toNat?.map fun n => Spec.cyberCycle n
    | "tflex", [n] => n.toNat?.map fun n => Spec.trendFlexW n
    | "rflex", [n] => n.toNat?.map fun n => Spec.reFlexW n
    | _, _ => none
  | _ => none

def toSpecView (sc : Scalar α) (sx : SX) : Option (View α) :=
  match toSpecFn sc sx with
  | none => none
  | some f =>
  let acc : List α → List α := match sx with
    | .list [.atom "wo", .atom n] =>
      match n.toNat? with
      | some n => fun h => [Spec.welfordMean n h, Spec.sampleVar (Spec.lastN n h)]
      | none => fun _ => []
    | .list [.atom "wroll"] => fun h => [Spec.welfordRollingMean h, Spec.popVar h]
    | .list [.atom "wroll_d"] => fun h => [Spec.welfordRollingMean h, Spec.popVar h]
    | _ => fun _ => []
  some (specView f acc)

structure CaseState (σ : Type) where
  cur : σ
  slots : Array σ
  dead : Bool

partial def caseLoop (sc : Scalar α) (V : View α) (clonable : Bool) (inp out : IO.FS.Stream) : IO Unit := do
  let rec loop (st : CaseState V.σ) : IO Unit := do
    let line ← inp.getLine
    if line.isEmpty then return ()
    let toks := (line.trimAscii.toString.splitOn " ").filter (· ≠ "")
    match toks with
    | ["E"] => return ()
    | _ =>
    if st.dead then loop st else
    let doLast (s : V.σ) : IO Bool := do
      match V.last s with
      | .ok none => out.putStrLn "N"; pure true
      | .ok (some v) => out.putStrLn s!"S {sc.render v}"; pure true
      | .error e => out.putStrLn s!"P {errName e}"; pure false
    match toks with
    | ["U", v] =>
      match sc.parse v with
      | none => out.putStrLn "bad-op"; loop st
      | some x =>
        match V.upd st.cur x with
        | .ok s => loop { st with cur := s }
        | .error e => out.putStrLn s!"P {errName e}"; loop { st with dead := true }
    | ["X", v] =>
      match sc.parse v with
      | none => out.putStrLn "bad-op"; loop st
      | some x =>
        match V.upd st.cur x with
        | .ok s =>
          let ok ← doLast s
          loop { st with cur := s, dead := !ok }
        | .error e => out.putStrLn s!"P {errName e}"; loop { st with dead := true }
    | ["L"] =>
      let ok ← doLast st.cur
      loop { st with dead := !ok }
    | ["A"] =>
      out.putStrLn ("A" ++ String.join ((V.acc st.cur).map fun v => " " ++ sc.render v))
      loop st
    | ["Z"] =>
      out.putStrLn s!"Z {V.size st.cur}"
      loop st
    | ["K", k] =>
      match k.toNat? with
      | some k =>
        if !clonable then out.putStrLn "K noclone"; loop st
        else if k < st.slots.size then
          out.putStrLn "K ok"
          loop { st with slots := st.slots.set! k st.cur }
        else out.putStrLn "bad-op"; loop st
      | none => out.putStrLn "bad-op"; loop st
    | ["W", k] =>
      match k.toNat? with
      | some k =>
        if k < st.slots.size then
          -- swap: the current view is parked in the slot
          let s := st.slots.getD k st.cur
          loop { st with cur := s, slots := st.slots.set! k st.cur }
        else out.putStrLn "bad-op"; loop st
      | none => out.putStrLn "bad-op"; loop st
    | _ => out.putStrLn "bad-op"; loop st
  loop { cur := V.init, slots := Array.replicate 4 V.init, dead := false }

/-- skip to the end of the current case -/
partial def skipCase (inp : IO.FS.Stream) : IO Unit := do
  let line ← inp.getLine
  if line.isEmpty then return ()
  if line.trimAscii.toString == "E" then return () else skipCase inp

def startCase (sc : Scalar α) (target : String) (text : String) (inp out : IO.FS.Stream) : IO Unit := do
  match parseSX text with
  | none => out.putStrLn "bad-view"; skipCase inp
  | some sx =>
    if target == "spec" then
      match toSpecView sc sx with
      | none => out.putStrLn "bad-view"; skipCase inp
      | some V => caseLoop sc V true inp out
    else
      match toVE sc sx with
      | none => out.putStrLn "bad-view"; skipCase inp
      | some e =>
        match denote e with
        | .error err => out.putStrLn s!"P {errName err}"; skipCase inp
        | .ok V => caseLoop sc V e.clonable inp out

end generic

partial def mainLoop (inp out : IO.FS.Stream) : IO Unit := do
  let line ← inp.getLine
  if line.isEmpty then return ()
  let l := line.trimAscii.toString
  match l.splitOn " " with
  | "C" :: id :: mode :: target :: rest =>
    out.putStrLn s!"C {id}"
    let text := " ".intercalate rest
    if mode == "f" then startCase floatScalar target text inp out
    else if mode == "q" then startCase ratScalar target text inp out
    else out.putStrLn "bad-mode"; skipCase inp
    mainLoop inp out
  | _ => mainLoop inp out

def main : IO Unit := do
  let inp ← IO.getStdin
  let out ← IO.getStdout
  mainLoop inp out
