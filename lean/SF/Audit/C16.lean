import SF.Props.C16
#print axioms SF.C16.sma_no_drift
#print axioms SF.C16.welford_no_drift
#print axioms SF.C16.lastN_flat
#print axioms SF.C16.sma_flat
#print axioms SF.C16.sampleVar_flat
#print axioms SF.C16.welford_flat
#print axioms SF.C16.vst_flat
#print axioms SF.C16.vsct_flat
#print axioms SF.C16.ema_exact
#print axioms SF.C16.min_max_flat
#print axioms SF.C16.hln_flat
#print axioms SF.C16.cumulative_flat
#print axioms SF.C16.kendallNum_flat
#print axioms SF.C16.net_flat
#print axioms SF.C16.Real.cti_flat
