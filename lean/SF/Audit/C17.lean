import SF.Props.C17
#print axioms SF.C17.exec_main
#print axioms SF.C17.clone_continues
#print axioms SF.C17.trace_length
#print axioms SF.C17.last_after_exec
#print axioms SF.C17.all_trees
