import SF.Props.C09
#print axioms SF.C09.ema_bibo
#print axioms SF.C09.foldl_diff
#print axioms SF.C09.emaRec_diff_decay
#print axioms SF.C09.ema_contraction
#print axioms SF.C09.onePole_bibo
#print axioms SF.C09.onePole_decay
#print axioms SF.C09.Real.pole_radius
#print axioms SF.C09.Real.pole_product
#print axioms SF.C09.Real.superSmoother_bibo
#print axioms SF.C09.Real.superSmoother_view_bibo
#print axioms SF.C09.Real.flex_smoother_bibo
#print axioms SF.C09.Real.twoPole_bibo
#print axioms SF.C09.Real.superSmoother_fading
#print axioms SF.C09.Real.fading_dominates
#print axioms SF.C09.Real.contraction_factor
