import SF.Props.C09
#print axioms SF.C09.ema_bibo
#print axioms SF.C09.foldl_diff
#print axioms SF.C09.emaRec_diff_decay
#print axioms SF.C09.ema_contraction
#print axioms SF.C09.onePole_bibo
#print axioms SF.C09.onePole_decay
#print axioms SF.C09.Real.pole_radius
#print axioms SF.C09.Real.pole_product
