import SF.Props.C11
#print axioms SF.C11.superSmoother_eq
#print axioms SF.C11.laguerreFilter_eq
#print axioms SF.C11.cyberCycle_eq
#print axioms SF.C11.trendFlex_eq
#print axioms SF.C11.reFlex_eq
#print axioms SF.C11.laguerreRsi_eq
#print axioms SF.C11.laguerre_ladder_step
#print axioms SF.C11.roofing_eq
#print axioms SF.C11.roofing_hp_step
#print axioms SF.C11.smoothSeq_step
#print axioms SF.C11.prev_input
#print axioms SF.C11.coefficients
#print axioms SF.C11.model_coefficients
#print axioms SF.C11.Real.literal_close
