import SF.Props.C02
#print axioms SF.C02.sma_eq
#print axioms SF.C02.sma_spec
#print axioms SF.C02.sma_spec_none
#print axioms SF.C02.cumulative_eq
#print axioms SF.C02.min_eq
#print axioms SF.C02.max_eq
#print axioms SF.C02.wmin_spec
#print axioms SF.C02.wmax_spec
#print axioms SF.C02.hln_eq
#print axioms SF.C02.roc_eq
#print axioms SF.C02.roc_spec_step
#print axioms SF.C02.entropy_eq
#print axioms SF.C02.welford_state
#print axioms SF.C02.welford_last_eq
#print axioms SF.C02.vst_eq
#print axioms SF.C02.vsct_eq
#print axioms SF.C02.ctor_reject
