import SF.Props.C10
#print axioms SF.C10.lastN_lin
#print axioms SF.C10.sma_linear
#print axioms SF.C10.cumulative_linear
#print axioms SF.C10.emaRec_linear
#print axioms SF.C10.ema_linear
#print axioms SF.C10.sma_view_linear
#print axioms SF.C10.ema_view_linear
#print axioms SF.C10.cumulative_view_linear
#print axioms SF.C10.sma_dc
#print axioms SF.C10.ema_dc
#print axioms SF.C10.superSmoother_linear
#print axioms SF.C10.laguerre_linear
#print axioms SF.C10.roofing_linear
#print axioms SF.C10.superSmoother_view_linear
#print axioms SF.C10.laguerre_view_linear
#print axioms SF.C10.laguerre_dc
