import SF.Props.C04
#print axioms SF.C04.ema_eq
#print axioms SF.C04.emaRec_one
#print axioms SF.C04.emaRec_step
#print axioms SF.C04.default_weight
#print axioms SF.C04.sma_interval
#print axioms SF.C04.sma_const
#print axioms SF.C04.sma_mono
#print axioms SF.C04.sma_affine
#print axioms SF.C04.emaRec_interval
#print axioms SF.C04.ema_interval
#print axioms SF.C04.ema_const
#print axioms SF.C04.ema_affine
#print axioms SF.C04.ema_mono
