import SF.Props.C08
#print axioms SF.C08.sma_ready
#print axioms SF.C08.ema_ready
#print axioms SF.C08.cumulative_ready
#print axioms SF.C08.min_ready
#print axioms SF.C08.max_ready
#print axioms SF.C08.welford_ready
#print axioms SF.C08.vst_ready
#print axioms SF.C08.vsct_ready
#print axioms SF.C08.welfordRolling_ready
#print axioms SF.C08.lnReturn_ready
#print axioms SF.C08.sma_ready_stable
#print axioms SF.C08.wrap_idle
#print axioms SF.C08.binop_ready_iff
