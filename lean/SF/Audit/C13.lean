import SF.Props.C13
#print axioms SF.C13.welfordRolling_mean
#print axioms SF.C13.welfordRolling_variance
#print axioms SF.C13.welfordRolling_last
#print axioms SF.C13.drawdown_eq
#print axioms SF.C13.lnReturn_eq
#print axioms SF.C13.lnReturn_spec
