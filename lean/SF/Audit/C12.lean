import SF.Props.C12
#print axioms SF.C12.sma_scale
#print axioms SF.C12.ema_scale
#print axioms SF.C12.cumulative_scale
#print axioms SF.C12.minL_map_mono
#print axioms SF.C12.maxL_map_mono
#print axioms SF.C12.minL_map_anti
#print axioms SF.C12.maxL_map_anti
#print axioms SF.C12.min_scale
#print axioms SF.C12.max_scale
#print axioms SF.C12.min_neg
#print axioms SF.C12.max_neg
#print axioms SF.C12.lnReturn_scale
#print axioms SF.C12.drawdown_scale
