import SF.Props.C01
#print axioms SF.C01.wrap_trace
#print axioms SF.C01.wrap_trace_ok_inner
#print axioms SF.C01.wrap_run_fst
#print axioms SF.C01.mapV_run
#print axioms SF.C01.mapV_last_none
#print axioms SF.C01.mapV_last_some
#print axioms SF.C01.binop_run
#print axioms SF.C01.binop_last_none_left
#print axioms SF.C01.binop_last_none_right
#print axioms SF.C01.binop_last_some
#print axioms SF.C01.binop_last_isSome_iff
#print axioms SF.C01.denote_un
#print axioms SF.C01.denote_un2
#print axioms SF.C01.denote_bin
#print axioms SF.C01.denote_tanh
#print axioms SF.C01.C01_chain
