import SF.Props.C06
#print axioms SF.C06.cog_eq
#print axioms SF.C06.cti_eq_pearson
#print axioms SF.C06.net_eq_kendall
#print axioms SF.C06.net_loop_eq
#print axioms SF.C06.sgn0_neg
#print axioms SF.C06.sgn0_mono
#print axioms SF.C06.kendallNum_neg
#print axioms SF.C06.kendall_neg
#print axioms SF.C06.kendallNum_order_only
#print axioms SF.C06.kendall_order_only
#print axioms SF.C06.kendallNum_increasing
#print axioms SF.C06.kendall_increasing
#print axioms SF.C06.kendall_decreasing
#print axioms SF.C06.cog_const
#print axioms SF.C06.K1.cti_monotone_not_one
