import SF.Props.C18
#print axioms SF.C18.sma_bounded
#print axioms SF.C18.cum_bounded
#print axioms SF.C18.min_bounded
#print axioms SF.C18.max_bounded
#print axioms SF.C18.rsi_bounded
#print axioms SF.C18.hln_bounded
#print axioms SF.C18.laguerreRsi_bounded
#print axioms SF.C18.laguerre_bounded
#print axioms SF.C18.welford_bounded
#print axioms SF.C18.vst_bounded
#print axioms SF.C18.vsct_bounded
#print axioms SF.C18.bufferless
#print axioms SF.C18.wrap_size
#print axioms SF.C18.binop_size
#print axioms SF.C18.mapV_size
#print axioms SF.C18.chain_bounded
#print axioms SF.C18.sma_sma_bounded
