import SF.Props.C05
#print axioms SF.C05.rsi_eq
#print axioms SF.C05.myrsi_eq
#print axioms SF.C05.myrsi_hold_step
#print axioms SF.C05.changes_neg
#print axioms SF.C05.gains_neg
#print axioms SF.C05.losses_neg
#print axioms SF.C05.rsi_of_guard
#print axioms SF.C05.rsi_neg
#print axioms SF.C05.myrsi_ratio_neg
#print axioms SF.C05.rsi_no_decline
#print axioms SF.C05.rsi_no_advance
#print axioms SF.C05.rsi_formula
