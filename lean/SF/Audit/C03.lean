import SF.Props.C03
#print axioms SF.C03.window_eq
#print axioms SF.C03.getLast_eq
#print axioms SF.C03.sma_suffix
#print axioms SF.C03.cumulative_suffix
#print axioms SF.C03.min_suffix
#print axioms SF.C03.max_suffix
#print axioms SF.C03.hln_suffix
#print axioms SF.C03.cog_suffix
#print axioms SF.C03.welford_suffix
#print axioms SF.C03.vst_suffix
#print axioms SF.C03.vsct_suffix
#print axioms SF.C03.sma_forgets_prefix
