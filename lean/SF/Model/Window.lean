import SF.Basic
/-
  Models of the non-recursive windowed views in `src/sliding_windows/`.
  `VecDeque` is a `List`, oldest element first: `push_back x = q ++ [x]`, `pop_front = tail`
  (BinaryEntropy uses push_front/pop_back and is modelled newest first).
-/
namespace SF
variable {α : Type} [Add α] [Sub α] [Mul α] [Div α] [Neg α] [NatCast α]
  [LT α] [DecidableLT α] [LE α] [DecidableLE α] [BEq α] [FloatLike α] [Transc α]

/-! ### Sma (sma.rs) -/
structure SmaState (α : Type) where
  q : List α
  sum : α

def smaCore (N : Nat) : Core α where
  σ := SmaState α
  init := { q := [], sum := nat 0 }
  step s v := do
    let (q, sum) ← if N ≤ s.q.length then (do
        let (old, rest) ← popFront s.q
        pure (rest, s.sum - old)) else pure (s.q, s.sum)
    pure { q := q ++ [v], sum := sum + v }
  out s :=
    if s.q.length < N then pure none
    else do
      let r := s.sum / nat s.q.length
      assertFinite r
      pure (some r)
  size s := s.q.length

/-! ### Ema (ema.rs) -/
structure EmaState (α : Type) where
  lastEma : α
  out : α
  n : Nat

def emaCore (N : Nat) (alpha : α) : Core α where
  σ := EmaState α
  init := { lastEma := nat 0, out := nat 0, n := 0 }
  step s v :=
    let n := s.n + 1
    let weight := alpha / (nat 1 + nat N)
    if n = 1 then pure { lastEma := v, out := v, n := n }
    else
      let o := v * weight + s.lastEma * (nat 1 - weight)
      pure { lastEma := o, out := o, n := n }
  out s :=
    if s.n < N then pure none
    else do assertFinite s.out; pure (some s.out)
  size _ := 0

/-! ### Alma (alma.rs) -/
structure AlmaState (α : Type) where
  wtdSum : α
  cumWt : α
  qVals : List α
  qWtd : List α
  qOut : List α

/-- the Gaussian weight attached to a sample inserted when `count` samples are already in the window -/
def almaWeight (m s : α) (count : Nat) : α :=
  Transc.exp (-(sq ((nat count : α) - m)) / (nat 2 * s * s))

def almaCore (N : Nat) (sigma offset : α) : Core α :=
  let wl : α := nat N
  let m := offset * (wl + nat 1)
  let sd := wl / sigma
  { σ := AlmaState α
    init := { wtdSum := nat 0, cumWt := nat 0, qVals := [], qWtd := [], qOut := [] }
    step := fun s v => do
      let s ← if N ≤ s.qVals.length then (do
          let oldVal ← front s.qVals
          let oldWtd ← front s.qWtd
          pure { s with wtdSum := s.wtdSum - oldWtd * oldVal, cumWt := s.cumWt - oldWtd,
                        qVals := s.qVals.tail, qWtd := s.qWtd.tail, qOut := s.qOut.tail })
        else pure s
      let wtd := almaWeight m sd s.qVals.length
      let wtdSum := s.wtdSum + wtd * v
      let cumWt := s.cumWt + wtd
      let ala := wtdSum / cumWt
      assertFinite ala
      pure { wtdSum := wtdSum, cumWt := cumWt, qVals := s.qVals ++ [v], qWtd := s.qWtd ++ [wtd],
             qOut := s.qOut ++ [ala] }
    out := fun s => pure s.qOut.getLast?
    size := fun s => s.qVals.length + s.qWtd.length + s.qOut.length }

/-! ### Cumulative (cumulative.rs) -/
structure CumState (α : Type) where
  q : List α
  out : Option α

def cumCore (N : Nat) : Core α where
  σ := CumState α
  init := { q := [], out := none }
  step s v := do
    let out : Option α := if s.out.isNone then some (nat 0) else s.out
    let (q, out) ← if N ≤ s.q.length then (do
        let (old, rest) ← popFront s.q
        let o ← unwrap out
        pure (rest, some (o - old))) else pure (s.q, out)
    let o ← unwrap out
    let o := o + v
    assertFinite o
    pure { q := q ++ [v], out := some o }
  out s := pure s.out
  size s := s.q.length

/-! ### Min / Max (min.rs, max.rs) -/
structure ExtState (α : Type) where
  opt : Option α
  q : List α

/-- `iter().min_by(partial_cmp)`: the first minimal element -/
def listMin : List α → Option α
  | [] => none
  | x :: r => some (r.foldl (fun m y => if y < m then y else m) x)

/-- `iter().max_by(partial_cmp)`: the last maximal element -/
def listMax : List α → Option α
  | [] => none
  | x :: r => some (r.foldl (fun m y => if y < m then m else y) x)

def minCoreU (N : Nat) : Core α :=
  { σ := ExtState α
    init := { opt := none, q := [] }
    step := fun s v => do
      let (q, opt) ← if N ≤ s.q.length then (do
          let (popped, rest) ← popFront s.q
          let m ← unwrap s.opt
          pure (rest, if popped == m then listMin rest else s.opt)) else pure (s.q, s.opt)
      let opt := match opt with
        | some m => if v < m then some v else some m
        | none => some v
      pure { opt := opt, q := q ++ [v] }
    out := fun s => pure s.opt
    size := fun s => s.q.length }

def maxCoreU (N : Nat) : Core α :=
  { σ := ExtState α
    init := { opt := none, q := [] }
    step := fun s v => do
      let (q, opt) ← if N ≤ s.q.length then (do
          let (popped, rest) ← popFront s.q
          let m ← unwrap s.opt
          pure (rest, if popped == m then listMax rest else s.opt)) else pure (s.q, s.opt)
      let opt := match opt with
        | some m => if m < v then some v else some m
        | none => some v
      pure { opt := opt, q := q ++ [v] }
    out := fun s => pure s.opt
    size := fun s => s.q.length }

/-! ### Roc (roc.rs) -/
structure RocState (α : Type) where
  oldest : Option α
  q : List α
  out : Option α

def rocCore (N : Nat) : Core α where
  σ := RocState α
  init := { oldest := none, q := [], out := none }
  step s v := do
    let oldest := if s.q.isEmpty then some v else s.oldest
    let (oldest, q) ← if N ≤ s.q.length then (do
        let old ← front s.q
        pure (some old, s.q.tail)) else pure (oldest, s.q)
    let q := q ++ [v]
    match oldest with
    | none => pure { oldest := oldest, q := q, out := s.out }
    | some o =>
      if o == nat 0 then pure { oldest := oldest, q := q, out := s.out }
      else do
        let roc := ((v - o) / o) * nat 100
        assertFinite roc
        pure { oldest := oldest, q := q, out := some roc }
  out s := pure s.out
  size s := s.q.length

/-! ### Rsi (rsi.rs) -/
structure RsiState (α : Type) where
  avgGain : α
  avgLoss : α
  oldRef : α
  lastVal : α
  q : List α
  out : Option α

def rsiCore (N : Nat) : Core α where
  σ := RsiState α
  init := { avgGain := nat 0, avgLoss := nat 0, oldRef := nat 0, lastVal := nat 0, q := [], out := none }
  step s v := do
    let s := if s.q.isEmpty then { s with oldRef := v, lastVal := v } else s
    let wl : α := nat N
    let s ← if N ≤ s.q.length then (do
        let oldVal ← front s.q
        let change := oldVal - s.oldRef
        let s := { s with oldRef := oldVal, q := s.q.tail }
        pure (if nat 0 < change then { s with avgGain := maxv (s.avgGain - change / wl) (nat 0) }
              else { s with avgLoss := maxv (s.avgLoss - absv change / wl) (nat 0) })) else pure s
    let s := { s with q := s.q ++ [v] }
    let change := v - s.lastVal
    let s := { s with lastVal := v }
    let s := if nat 0 < change then { s with avgGain := s.avgGain + change / wl }
             else { s with avgLoss := s.avgLoss + absv change / wl }
    if s.q.length < N then pure s
    else
      let hundred : α := nat 100
      if s.avgLoss == nat 0 then pure { s with out := some hundred }
      else do
        let rs := s.avgGain / s.avgLoss
        let rsi := hundred - hundred / (nat 1 + rs)
        assertFinite rsi
        pure { s with out := some rsi }
  out s := pure s.out
  size s := s.q.length

/-! ### MyRSI (my_rsi.rs) -/
structure MyRsiState (α : Type) where
  cu : α
  cd : α
  out : α
  q : List α
  lastVal : α
  oldestVal : α

def myRsiCore (N : Nat) : Core α where
  σ := MyRsiState α
  init := { cu := nat 0, cd := nat 0, out := nat 0, q := [], lastVal := nat 0, oldestVal := nat 0 }
  step s v := do
    let s := if s.q.isEmpty then { s with oldestVal := v, lastVal := v } else s
    let s ← if N ≤ s.q.length then (do
        let (oldVal, rest) ← popFront s.q
        let s := { s with q := rest }
        let s := if s.oldestVal < oldVal then { s with cu := maxv (s.cu - (oldVal - s.oldestVal)) (nat 0) }
                 else { s with cd := maxv (s.cd - (s.oldestVal - oldVal)) (nat 0) }
        pure { s with oldestVal := oldVal }) else pure s
    let s := { s with q := s.q ++ [v] }
    let s := if s.lastVal < v then { s with cu := s.cu + v - s.lastVal }
             else { s with cd := s.cd + s.lastVal - v }
    let s := { s with lastVal := v }
    pure (if !(s.cu + s.cd == nat 0) then { s with out := (s.cu - s.cd) / (s.cu + s.cd) } else s)
  out s :=
    if s.q.length < N then pure none
    else do assertFinite s.out; pure (some s.out)
  size s := s.q.length

/-! ### WelfordOnline (welford_online.rs), Vst, Vsct -/
structure WelfordState (α : Type) where
  q : List α
  mean : α
  m2 : α
  count : Nat

namespace WelfordState
def add (s : WelfordState α) (x : α) : WelfordState α :=
  let delta := x - s.mean
  let mean := s.mean + delta / nat (s.count + 1)
  let m2 := s.m2 + delta * (x - mean)
  { s with mean := mean, m2 := m2, count := s.count + 1 }

def remove (s : WelfordState α) (old : α) : WelfordState α :=
  if s.count ≤ 1 then { s with mean := nat 0, m2 := nat 0, count := 0 }
  else
    let delta := old - s.mean
    let mean := s.mean - delta / nat (s.count - 1)
    let m2 := s.m2 - delta * (old - mean)
    { s with mean := mean, m2 := m2, count := s.count - 1 }

def variance (s : WelfordState α) : α :=
  if 1 < s.count then s.m2 / nat (s.count - 1) else nat 0
end WelfordState

def welfordStep (N : Nat) (s : WelfordState α) (v : α) : M (WelfordState α) := do
  let s := { s with q := s.q ++ [v] }
  let s ← if N < s.q.length then (do
      let (old, rest) ← popFront s.q
      pure ({ s with q := rest }.remove old)) else pure s
  pure (s.add v)

def welfordOut (N : Nat) (s : WelfordState α) : M (Option α) := do
  let nm1 ← usub N 1
  if s.count < nm1 then pure none
  else
    let var := s.variance
    if var ≤ nat 0 then pure (some (nat 0))
    else do
      let o := Transc.sqrt var
      assertFinite o
      pure (some o)

def welfordInit : WelfordState α := { q := [], mean := nat 0, m2 := nat 0, count := 0 }

def welfordCoreU (N : Nat) : Core α :=
  { σ := WelfordState α, init := welfordInit, step := welfordStep N, out := welfordOut N,
    size := fun s => s.q.length, acc := fun s => [s.mean, s.variance] }

structure VstState (α : Type) where
  last : α
  wo : WelfordState α

def vstCoreU (N : Nat) : Core α :=
  { σ := VstState α
    init := { last := nat 0, wo := welfordInit }
    step := fun s v => do
      let wo ← welfordStep N s.wo v
      pure { last := v, wo := wo }
    out := fun s => do
      match ← welfordOut N s.wo with
      | none => pure none
      | some sd =>
        if sd == nat 0 then pure (some s.last)
        else do
          let o := s.last / sd
          assertFinite o
          pure (some o)
    size := fun s => s.wo.q.length }

def vsctCoreU (N : Nat) : Core α :=
  { σ := VstState α
    init := { last := nat 0, wo := welfordInit }
    step := fun s v => do
      let wo ← welfordStep N s.wo v
      pure { last := v, wo := wo }
    out := fun s => do
      match ← welfordOut N s.wo with
      | none => pure none
      | some sd =>
        if sd == nat 0 then pure (some (nat 0))
        else do
          let o := (s.last - s.wo.mean) / sd
          assertFinite o
          pure (some o)
    size := fun s => s.wo.q.length }

/-! ### HLNormalizer (hl_normalizer.rs) -/
structure HlnState (α : Type) where
  q : List α
  min : α
  max : α
  last : α
  init : Bool

/-- `extent_queue` -/
def extentQueue (q : List α) : M (α × α) := do
  let f ← front q
  pure (q.foldl (fun (mm : α × α) v =>
    let mx := if mm.2 < v then v else mm.2
    let mn := if v < mm.1 then v else mm.1
    (mn, mx)) (f, f))

/-- the tail of `update`: push, widen max / min, remember the newest value -/
def hlnFinish (s : HlnState α) (v : α) : HlnState α :=
  let s := { s with q := s.q ++ [v] }
  let s := if s.max < v then { s with max := v } else s
  let s := if v < s.min then { s with min := v } else s
  { s with last := v }

def hlnCore (N : Nat) : Core α where
  σ := HlnState α
  init := { q := [], min := nat 0, max := nat 0, last := nat 0, init := true }
  step s v := do
    let s := if s.init then { s with init := false, min := v, max := v, last := v } else s
    let s ← if N ≤ s.q.length then (do
        let (old, rest) ← popFront s.q
        let s := { s with q := rest }
        if old ≤ s.min || s.max ≤ old then
          if rest.isEmpty then pure { s with min := v, max := v }
          else do
            let (mn, mx) ← extentQueue rest
            pure { s with min := mn, max := mx }
        else pure s) else pure s
    pure (hlnFinish s v)
  out s :=
    if s.last == s.min && s.last == s.max then pure (some (nat 0))
    else do
      let o := -(nat 1) + (((s.last - s.min) * nat 2) / (s.max - s.min))
      assertFinite o
      pure (some o)
  size s := s.q.length

/-! ### BinaryEntropy (binary_entropy.rs) — push_front / pop_back: newest first -/
structure BentState (α : Type) where
  q : List α
  p : Nat

def bentCore (N : Nat) : Core α where
  σ := BentState α
  init := { q := [], p := 0 }
  step s v := do
    let s ← if N ≤ s.q.length then (do
        let old ← back s.q
        let q := s.q.dropLast
        if nat 0 ≤ old then do
          let p ← usub s.p 1
          pure { q := q, p := p }
        else pure { s with q := q }) else pure s
    let p := if nat 0 ≤ v then s.p + 1 else s.p
    pure { q := v :: s.q, p := p }
  out s :=
    if s.q.isEmpty then pure none
    else
      let pt : α := nat s.p / nat s.q.length
      let pn := nat 1 - pt
      let value := pt * Transc.log2 pt + pn * Transc.log2 pn
      let value := if FloatLike.isNaN value then nat 0 else value
      pure (some (-value))
  size s := s.q.length

/-! ### CenterOfGravity (center_of_gravity.rs) -/
structure CogState (α : Type) where
  q : List α
  out : Option α

/-- the `for (i, val) in q.iter().enumerate()` loop: returns `(num, denom)` -/
def cogSums (q : List α) : α × α :=
  let n := q.length
  (q.zipIdx).foldl (fun (acc : α × α) (vi : α × Nat) =>
    let weight := n - vi.2
    (acc.1 + nat weight * vi.1, acc.2 + vi.1)) (nat 0, nat 0)

def cogCore (N : Nat) : Core α where
  σ := CogState α
  init := { q := [], out := none }
  step s v := do
    let q := if N ≤ s.q.length then s.q.tail else s.q
    let q := q ++ [v]
    let (num, denom) := cogSums q
    if !(denom == nat 0) then do
      let o := -num / denom + (nat q.length + nat 1) / nat 2
      assertFinite o
      pure { q := q, out := some o }
    else pure { q := q, out := some (nat 0) }
  out s := pure s.out
  size s := s.q.length

/-! ### CorrelationTrendIndicator (correlation_trend_indicator.rs) -/
structure CtiSums (α : Type) where
  sx : α
  sy : α
  sxx : α
  sxy : α
  syy : α

def ctiSums (q : List α) : CtiSums α :=
  (q.zipIdx).foldl (fun (a : CtiSums α) (vi : α × Nat) =>
    let count : α := nat vi.2
    { sx := a.sx + vi.1, sy := a.sy + count, sxx := a.sxx + sq vi.1,
      sxy := a.sxy + vi.1 * count, syy := a.syy + sq count })
    { sx := nat 0, sy := nat 0, sxx := nat 0, sxy := nat 0, syy := nat 0 }

def ctiCore (N : Nat) : Core α where
  σ := List α
  init := []
  step q v := do
    let q ← if N ≤ q.length then (do let (_, rest) ← popFront q; pure rest) else pure q
    pure (q ++ [v])
  out q :=
    let a := ctiSums q
    let wl : α := nat N
    if nat 0 < wl * a.sxx - sq a.sx && nat 0 < wl * a.syy - sq a.sy then do
      let o := (wl * a.sxy - a.sx * a.sy) / Transc.sqrt ((wl * a.sxx - sq a.sx) * (wl * a.syy - sq a.sy))
      assertFinite o
      pure (some o)
    else pure (some (nat 0))
  size q := q.length

/-! ### NoiseEliminationTechnology (noise_elimination_technology.rs) -/
structure NetState (α : Type) where
  out : Option α
  q : List α

/-- the double loop: `x[c] = q[len - c]` (1-based, `x[1]` newest);
`for count in 2..=len { for k in 1..count { num moves by 1 against the sign of x[count]-x[k] } }` -/
def netNum (q : List α) : M α :=
  let len := q.length
  forRange 2 (len + 1) (nat 0 : α) (fun num count =>
    forRange 1 count num (fun num k => do
      let xc ← getIdx q (len - count)
      let xk ← getIdx q (len - k)
      let diff := xc - xk
      pure (if nat 0 < diff then num - nat 1
            else if diff < nat 0 then num + nat 1 else num)))

def netCore (N : Nat) : Core α where
  σ := NetState α
  init := { out := none, q := [] }
  step s v := do
    let q := if N ≤ s.q.length then s.q.tail else s.q
    let q := q ++ [v]
    if q.length < 2 then pure { s with q := q }
    else do
      let num ← netNum q
      let n : α := nat q.length
      let denom := dec 5 10 * n * (n - nat 1)
      let o := num / denom
      assertFinite o
      pure { out := some o, q := q }
  out s := pure s.out
  size s := s.q.length

/-! ### constructors with their `assert!` -/
/-- `Alma::new_custom`: rejects kernels whose Gaussian weight underflows to zero at an end of the window (fix 5b7b627) -/
def almaCoreC (N : Nat) (sigma offset : α) : M (Core α) :=
  let wl : α := nat N
  let m := offset * (wl + nat 1)
  let sd := wl / sigma
  if nat 0 < almaWeight m sd 0 ∧ nat 0 < almaWeight m sd (N - 1) then pure (almaCore N sigma offset)
  else throw .assertFailed
def minCore (N : Nat) : M (Core α) := if N = 0 then throw .assertFailed else pure (minCoreU N)
def maxCore (N : Nat) : M (Core α) := if N = 0 then throw .assertFailed else pure (maxCoreU N)
def welfordCore (N : Nat) : M (Core α) := if N = 0 then throw .assertFailed else pure (welfordCoreU N)
def vstCore (N : Nat) : M (Core α) := if N = 0 then throw .assertFailed else pure (vstCoreU N)
def vsctCore (N : Nat) : M (Core α) := if N = 0 then throw .assertFailed else pure (vsctCoreU N)

end SF

