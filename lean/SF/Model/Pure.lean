import SF.Basic
/-
  Models of `src/pure_functions/*.rs` and `src/rolling/*.rs`.
  Each definition follows the Rust text line by line, keeping operand order and association.
-/
namespace SF
variable {α : Type} [Add α] [Sub α] [Mul α] [Div α] [Neg α] [NatCast α]
  [LT α] [DecidableLT α] [LE α] [DecidableLE α] [BEq α] [FloatLike α] [Transc α]

/-! ### leaves -/

/-- `Echo` -/
@[reducible] def echoV : View α where
  σ := Option α
  init := none
  upd _ x := do assertFinite x; pure (some x)
  last s := pure s
  size _ := 0

/-- a `Core` seen as a view over `Echo` -/
@[reducible] def overEcho (B : Core α) : View α := wrap echoV B

/-- `Constant` -/
@[reducible] def constV (c : α) : View α where
  σ := Unit
  init := ()
  upd _ _ := pure ()
  last _ := pure (some c)
  size _ := 0

/-- test-only leaf: `last()` follows a script indexed by the number of updates seen (sticks at its end) -/
def probeV (script : List (Option α)) : View α where
  σ := Nat
  init := 0
  upd n _ := pure (n + 1)
  last n := pure (if n = 0 then none else (script[min (n - 1) (script.length - 1)]?).join)
  size _ := 0

/-! ### binary combinators (`last()` bodies) -/

def addF (a b : α) : M α := pure (a + b)
def subF (a b : α) : M α := pure (a - b)
def mulF (a b : α) : M α := pure (a * b)
/-- `debug_assert_ne!(b, T::zero())` -/
def divF (a b : α) : M α := if b == nat 0 then throw .debugAssert else pure (a / b)

/-! ### GTE / LTE -/

def gteCore (clip : α) : Core α where
  σ := Option α
  init := none
  step _ v := pure (if clip ≤ v then some v else some clip)
  out s := pure s
  size _ := 0

def lteCore (clip : α) : Core α where
  σ := Option α
  init := none
  step _ v := pure (if v ≤ clip then some v else some clip)
  out s := pure s
  size _ := 0

/-! ### rolling -/

structure DrawdownState (α : Type) where
  maxDD : α
  peak : α
  minAfterPeak : α

def drawdownCore : Core α where
  σ := DrawdownState α
  init := { maxDD := nat 0, peak := FloatLike.minValue, minAfterPeak := FloatLike.maxValue }
  step s v :=
    let (peak, mn) := if s.peak < v then (v, v) else (s.peak, s.minAfterPeak)
    let mn := if v < mn then v else mn
    let dd := (peak - mn) / peak
    let mdd := if s.maxDD < dd then dd else s.maxDD
    pure { maxDD := mdd, peak := peak, minAfterPeak := mn }
  out s := do assertFinite s.maxDD; pure (some s.maxDD)
  size _ := 0

structure LnReturnState (α : Type) where
  lastVal : α
  currentVal : α

def lnReturnCore : Core α where
  σ := LnReturnState α
  init := { lastVal := nat 0, currentVal := nat 0 }
  step s v := pure { lastVal := s.currentVal, currentVal := v }
  out s :=
    if s.lastVal == nat 0 then pure none
    else do
      let o := Transc.ln (s.currentVal / s.lastVal)
      assertFinite o
      pure (some o)
  size _ := 0

structure WelfordRollingState (α : Type) where
  mean : α
  s : α
  n : Nat

def WelfordRollingState.variance (st : WelfordRollingState α) : α :=
  if 1 < st.n then st.s / nat st.n else nat 0

def welfordRollingCore : Core α where
  σ := WelfordRollingState α
  init := { mean := nat 0, s := nat 0, n := 0 }
  step st v :=
    let n := st.n + 1
    let oldMean := st.mean
    let mean := st.mean + (v - oldMean) / nat n
    let s := st.s + (v - oldMean) * (v - mean)
    pure { mean := mean, s := s, n := n }
  out st :=
    if st.n = 0 then pure none
    else do
      let o := Transc.sqrt st.variance
      assertFinite o
      pure (some o)
  size _ := 0
  acc st := [st.mean, st.variance]

end SF
