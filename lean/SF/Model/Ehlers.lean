import SF.Basic
import SF.Model.Pure
/-
  Models of the recursive / Ehlers-style views in `src/sliding_windows/`.
-/
namespace SF
variable {α : Type} [Add α] [Sub α] [Mul α] [Div α] [Neg α] [NatCast α]
  [LT α] [DecidableLT α] [LE α] [DecidableLE α] [BEq α] [FloatLike α] [Transc α]

/-- `std::f64::consts::PI` (shortest round-trip decimal of the double) -/
def piLit : α := dec 3141592653589793 1000000000000000

/-! ### SuperSmoother (super_smoother.rs) -/
structure SsState (α : Type) where
  i : Nat
  filt : α
  filt1 : α
  filt2 : α
  lastVal : α

structure SsCoef (α : Type) where
  c1 : α
  c2 : α
  c3 : α

def ssCoef (N : Nat) : SsCoef α :=
  let wl : α := nat N
  let a1 := Transc.exp (-(dec 1414 1000) * piLit / wl)
  let b1 := nat 2 * a1 * Transc.cos (dec 44422 10000 / wl)
  let c2 := b1
  let c3 := -a1 * a1
  { c1 := nat 1 - c2 - c3, c2 := c2, c3 := c3 }

def ssInit : SsState α := { i := 0, filt := nat 0, filt1 := nat 0, filt2 := nat 0, lastVal := nat 0 }

def ssStep (c : SsCoef α) (s : SsState α) (v : α) : SsState α :=
  let filt := c.c1 * (v + s.lastVal) / nat 2 + (c.c2 * s.filt1) + (c.c3 * s.filt2)
  { i := s.i + 1, filt := filt, filt1 := filt, filt2 := s.filt1, lastVal := v }

def ssOut (N : Nat) (s : SsState α) : M (Option α) :=
  if s.i < N then pure none
  else do assertFinite s.filt; pure (some s.filt)

def ssCore (N : Nat) : Core α where
  σ := SsState α
  init := ssInit
  step s v := pure (ssStep (ssCoef N) s v)
  out := ssOut N
  size _ := 0

/-! ### RoofingFilter (roofing_filter.rs) -/
structure RoofState (α : Type) where
  ss : SsState α
  i : Nat
  val1 : α
  val2 : α
  hp1 : α
  hp2 : α

def roofAlpha (N : Nat) : α :=
  let wl : α := nat N
  let f : α := dec 44422 10000
  (Transc.cos (f / wl) + Transc.sin (f / wl) - nat 1) / Transc.cos (f / wl)

def roofCoreU (N Mss : Nat) : Core α :=
  { σ := RoofState α
    init := { ss := ssInit, i := 0, val1 := nat 0, val2 := nat 0, hp1 := nat 0, hp2 := nat 0 }
    step := fun s v =>
      let a1 : α := roofAlpha N
      let two : α := nat 2
      let hp := sq (nat 1 - a1 / two) * (v - two * s.val1 + s.val2)
                + two * (nat 1 - a1) * s.hp1
                - sq (nat 1 - a1) * s.hp2
      let s' := { s with hp2 := s.hp1, hp1 := hp, val2 := s.val1, val1 := v }
      if N < s.i then do
        -- `self.super_smoother.update(hp)`: SuperSmoother over Echo, both assert finiteness of `hp`
        assertFinite hp
        pure { s' with ss := ssStep (ssCoef Mss) s.ss hp, i := s.i + 1 }
      else pure { s' with i := s.i + 1 }
    out := fun s => do
      match ← ssOut Mss s.ss with
      | none => pure none
      | some v => do assertFinite v; pure (some v)
    size := fun _ => 0 }

/-! ### CyberCycle (cyber_cycle.rs) -/
structure CcState (α : Type) where
  vals : List α
  out : List α
  smooth : List α

/-- the 4-tap smoothing of position i of the window: (v[i] + 2v[i−1] + 2v[i−2] + v[i−3]) / 6 -/
def ccTap (vals : List α) (i : Nat) : M α := do
  let v0 ← getIdx vals i
  let v1 ← getIdx vals (i - 1)
  let v2 ← getIdx vals (i - 2)
  let v3 ← getIdx vals (i - 3)
  pure ((v0 + nat 2 * v1 + nat 2 * v2 + v3) / nat 6)

/-- `for (i, v) in smooth.iter_mut().enumerate().take(vals.len()).skip(3)` -/
def ccSmooth (vals smooth : List α) : M (List α) :=
  forRange 3 (min vals.length smooth.length) smooth (fun sm i => do
    let t ← ccTap vals i
    pure (sm.set i t))

/-- the cycle value from the three newest smoothed values and the two previous outputs -/
def ccValue (N : Nat) (smooth out : List α) (last : Nat) : M α := do
  let alpha : α := nat 2 / (nat N + nat 1)
  let l1 ← usub last 1
  let l2 ← usub last 2
  let sm0 ← getIdx smooth last
  let sm1 ← getIdx smooth l1
  let sm2 ← getIdx smooth l2
  let o1 ← getIdx out l1
  let o2 ← getIdx out l2
  pure (sq (nat 1 - dec 5 10 * alpha) * (sm0 - nat 2 * sm1 + sm2) + nat 2 * (nat 1 - alpha) * o1 - sq (nat 1 - alpha) * o2)

def ccCoreU (N : Nat) : Core α :=
  { σ := CcState α
    init := { vals := [], out := [], smooth := List.replicate N (nat 0) }
    step := fun s v => do
      let out := if N ≤ s.vals.length then s.out.tail else s.out
      let vals := (if N ≤ s.vals.length then s.vals.tail else s.vals) ++ [v]
      if vals.length < N then pure { s with vals := vals, out := out ++ [nat 0] }
      else do
        let last ← usub vals.length 1
        let smooth ← ccSmooth vals s.smooth
        let cc ← ccValue N smooth out last
        assertFinite cc
        pure { vals := vals, out := out ++ [cc], smooth := smooth }
    out := fun s => pure s.out.getLast?
    size := fun s => s.vals.length + s.out.length + s.smooth.length }

/-! ### LaguerreFilter (laguerre_filter.rs) -/
structure LagfState (α : Type) where
  l0s : List α
  l1s : List α
  l2s : List α
  l3s : List α
  filts : List α

/-- `v[v.len() - k]` -/
def fromEnd (q : List α) (k : Nat) : M α := do
  let i ← usub q.length k
  getIdx q i

def lagfCore (gamma : α) : Core α where
  σ := LagfState α
  init := { l0s := [], l1s := [], l2s := [], l3s := [], filts := [] }
  step s v := do
    let two : α := nat 2
    if s.l0s.isEmpty then
      pure { l0s := [v], l1s := [v], l2s := [v], l3s := [v],
             filts := s.filts ++ [(v + two * v + two * v + v) / nat 6] }
    else do
      let l0p ← fromEnd s.l0s 1
      let l0s := s.l0s ++ [(nat 1 - gamma) * v + gamma * l0p]
      let a ← fromEnd l0s 1; let b ← fromEnd l0s 2; let c ← fromEnd s.l1s 1
      let l1s := s.l1s ++ [-gamma * a + b + gamma * c]
      let a ← fromEnd l1s 1; let b ← fromEnd l1s 2; let c ← fromEnd s.l2s 1
      let l2s := s.l2s ++ [-gamma * a + b + gamma * c]
      let a ← fromEnd l2s 1; let b ← fromEnd l2s 2; let c ← fromEnd s.l3s 1
      let l3s := s.l3s ++ [-gamma * a + b + gamma * c]
      let x0 ← fromEnd l0s 1; let x1 ← fromEnd l1s 1; let x2 ← fromEnd l2s 1; let x3 ← fromEnd l3s 1
      let o := (x0 + two * x1 + two * x2 + x3) / nat 6
      assertFinite o
      let filts := s.filts ++ [o]
      let trim := fun (l : List α) => if 2 < l.length then l.tail else l
      let filts := if 1 < filts.length then filts.tail else filts
      pure { l0s := trim l0s, l1s := trim l1s, l2s := trim l2s, l3s := trim l3s, filts := filts }
  out s := pure s.filts.getLast?
  size s := s.l0s.length + s.l1s.length + s.l2s.length + s.l3s.length + s.filts.length

/-! ### LaguerreRSI (laguerre_rsi.rs) -/
structure LagRsiState (α : Type) where
  value : Option α
  l0s : List α
  l1s : List α
  l2s : List α
  l3s : List α

/-- the four ladder deques keep at most three entries: drop the oldest when three are held -/
def lagRsiTrim (s : LagRsiState α) : LagRsiState α :=
  if 3 ≤ s.l0s.length then
    { s with l0s := s.l0s.tail, l1s := s.l1s.tail, l2s := s.l2s.tail, l3s := s.l3s.tail } else s

/-- the first two updates only push zeros -/
def lagRsiFill (s : LagRsiState α) : LagRsiState α :=
  { s with l0s := s.l0s ++ [nat 0], l1s := s.l1s ++ [nat 0], l2s := s.l2s ++ [nat 0], l3s := s.l3s ++ [nat 0] }

/-- one step of the four-stage ladder (indices `prev = len-1` before the push, `prev+1` the value just pushed) -/
def lagRsiPush (gamma : α) (s : LagRsiState α) (v : α) : M (LagRsiState α) := do
  let prev ← usub s.l0s.length 1
  let p0 ← getIdx s.l0s prev
  let l0s := s.l0s ++ [(nat 1 - gamma) * v + gamma * p0]
  let a ← getIdx l0s (prev + 1); let b ← getIdx l0s prev; let c ← getIdx s.l1s prev
  let l1s := s.l1s ++ [-gamma * a + b + gamma * c]
  let a ← getIdx l1s (prev + 1); let b ← getIdx l1s prev; let c ← getIdx s.l2s prev
  let l2s := s.l2s ++ [-gamma * a + b + gamma * c]
  let a ← getIdx l2s (prev + 1); let b ← getIdx l2s prev; let c ← getIdx s.l3s prev
  let l3s := s.l3s ++ [-gamma * a + b + gamma * c]
  pure { s with l0s := l0s, l1s := l1s, l2s := l2s, l3s := l3s }

/-- CU and CD over the three adjacent pairs of the newest ladder values -/
def lagRsiCuCd (x0 x1 x2 x3 : α) : α × α :=
  let c1 : α × α := if x1 ≤ x0 then (x0 - x1, nat 0) else (nat 0, x1 - x0)
  let c2 : α × α := if x2 ≤ x1 then (c1.1 + (x1 - x2), c1.2) else (c1.1, c1.2 + (x2 - x1))
  if x3 ≤ x2 then (c2.1 + (x2 - x3), c2.2) else (c2.1, c2.2 + (x3 - x2))

/-- `value = CU/(CU+CD)` unless CU+CD = 0 (then the previous value is kept) -/
def lagRsiEmit (s : LagRsiState α) : M (LagRsiState α) := do
  let last ← usub s.l0s.length 1
  let x0 ← getIdx s.l0s last; let x1 ← getIdx s.l1s last; let x2 ← getIdx s.l2s last; let x3 ← getIdx s.l3s last
  let c := lagRsiCuCd x0 x1 x2 x3
  if !(c.1 + c.2 == nat 0) then do
    let value := c.1 / (c.1 + c.2)
    assertFinite value
    pure { s with value := some value }
  else pure s

def lagRsiCore (N : Nat) : Core α where
  σ := LagRsiState α
  init := { value := none, l0s := [], l1s := [], l2s := [], l3s := [] }
  step s v :=
    let s := lagRsiTrim s
    if s.l0s.length < 2 then pure (lagRsiFill s)
    else lagRsiPush (nat 2 / (nat N + nat 1)) s v >>= lagRsiEmit
  out s := pure s.value
  size s := s.l0s.length + s.l1s.length + s.l2s.length + s.l3s.length

/-! ### TrendFlex / ReFlex (trend_flex.rs, re_flex.rs) -/
structure FlexState (α : Type) where
  lastVal : α
  lastM : α
  q : List α
  out : Option α

/-- the SuperSmoother step both views share; returns the new filter value -/
def flexFilt (N : Nat) (q : List α) (v lastVal : α) : M α := do
  let wl : α := nat N
  let two : α := nat 2
  let a1 := Transc.exp (-(dec 888442402435 100000000000) / wl)
  let b1 := two * a1 * Transc.cos (dec 444221201218 100000000000 / wl)
  let c3 := -a1 * a1
  let c1 := nat 1 - b1 - c3
  let l := q.length
  if l = 0 then pure (c1 * (v + lastVal) / two)
  else if l = 1 then do
    let f1 ← getIdx q (l - 1)
    pure (c1 * (v + lastVal) / two + b1 * f1)
  else do
    let f2 ← getIdx q (l - 2)
    let f1 ← getIdx q (l - 1)
    pure (c1 * (v + lastVal) / two + b1 * f1 + c3 * f2)

/-- TrendFlex: Σ_i (filt − q[len−1−i]) over the window of filter values, newest first -/
def tflexDsum (q : List α) (filt : α) : M α :=
  forRange 0 q.length (nat 0 : α) (fun d i => do
    let x ← getIdx q (q.length - 1 - i)
    pure (d + (filt - x)))

/-- ReFlex: the same sum against the line through the newest and the oldest filter value -/
def rflexDsum (q : List α) (filt slope : α) : M α :=
  forRange 0 q.length (nat 0 : α) (fun d i => do
    let x ← getIdx q (q.length - 1 - i)
    pure (d + ((filt + nat i * slope) - x)))

/-- mean deviation over N, leaky mean square, normalised output (or `dflt` when the mean square is not positive) -/
def flexEmit (N : Nat) (lastM : α) (v : α) (q : List α) (dsum : α) (dflt : Option α) : M (FlexState α) := do
  let dsum := dsum / nat N
  let ms0 := dec 4 100 * sq dsum + dec 96 100 * lastM
  if nat 0 < ms0 then do
    let o := dsum / Transc.sqrt ms0
    assertFinite o
    pure { lastVal := v, lastM := ms0, q := q, out := some o }
  else pure { lastVal := v, lastM := ms0, q := q, out := dflt }

def flexTrim (N : Nat) (q : List α) : List α := if N ≤ q.length then q.tail else q

def tflexCore (N : Nat) : Core α where
  σ := FlexState α
  init := { lastVal := nat 0, lastM := nat 0, q := [], out := none }
  step s v := do
    let lastVal := if s.q.isEmpty then v else s.lastVal
    let q := flexTrim N s.q
    let filt ← flexFilt N q v lastVal
    let q := q ++ [filt]
    let dsum ← tflexDsum q filt
    flexEmit N s.lastM v q dsum (some (nat 0))
  out s := pure s.out
  size s := s.q.length

def rflexCore (N : Nat) : Core α where
  σ := FlexState α
  init := { lastVal := nat 0, lastM := nat 0, q := [], out := none }
  step s v := do
    let lastVal := if s.q.isEmpty then v else s.lastVal
    let q := flexTrim N s.q
    let filt ← flexFilt N q v lastVal
    let q := q ++ [filt]
    let fr ← front q
    let slope := (fr - filt) / nat N
    let dsum ← rflexDsum q filt slope
    flexEmit N s.lastM v q dsum s.out
  out s := pure s.out
  size s := s.q.length

/-! ### PolarizedFractalEfficiency (polarized_fractal_efficiency.rs): two inner views -/
def pfeCoreU (N : Nat) (ma : View α) : Core α :=
  { σ := List α × ma.σ × Option α
    init := ([], ma.init, none)
    step := fun s v => do
      let q := if N ≤ s.1.length then s.1.tail else s.1
      let q := q ++ [v]
      let wlen : α := nat N
      if N ≤ q.length then do
        let wl ← usub N 1
        let n2 ← usub N 2
        let sm ← forRange 0 n2 (nat 0 : α) (fun acc i => do
          let i0 ← usub wl i
          let i1 ← usub i0 1
          let v0 ← getIdx q i0
          let v1 ← getIdx q i1
          pure (acc + Transc.sqrt (sq (v0 - v1) + nat 1)))
        let fr ← front q
        let p := Transc.sqrt (sq (v - fr) + sq wlen) / sm
        let prev ← getIdx q n2
        let p := if v < prev then -p else p
        let m ← ma.upd s.2.1 p
        let o ← ma.last m
        pure (q, m, o)
      else pure (q, s.2.1, s.2.2)
    out := fun s =>
      match s.2.2 with
      | none => pure none
      | some v => do assertFinite v; pure (some v)
    size := fun s => s.1.length + ma.size s.2.1 }

/-! ### EhlersFisherTransform (ehlers_fisher_transform.rs): two inner views -/
structure EftState (α : Type) (μ : Type) where
  q : List α
  ma : μ
  high : α
  low : α
  qOut : List α

/-- `iter().max_by(partial_cmp.unwrap_or(Equal))` : last maximal -/
def listMaxD (q : List α) (d : α) : α :=
  match q with
  | [] => d
  | x :: r => r.foldl (fun m y => if y < m then m else y) x

/-- `iter().min_by(..)` : first minimal -/
def listMinD (q : List α) (d : α) : α :=
  match q with
  | [] => d
  | x :: r => r.foldl (fun m y => if y < m then y else m) x

def clampv (x lo hi : α) : α := if x < lo then lo else if hi < x then hi else x

/-- the window part of `update`: on the first value both extrema are that value; evict the oldest when N values are held and
rescan the extremum that left (the rescan yields the new value on an emptied window); push; widen an extremum -/
def eftWindow (N : Nat) (q : List α) (high low v : α) : M (List α × α × α) := do
  let hl : α × α := if q.isEmpty then (v, v) else (high, low)
  let r ← if N ≤ q.length then (do
      let (old, rest) ← popFront q
      let high := if hl.1 ≤ old then listMaxD rest v else hl.1
      let low := if old ≤ hl.2 then listMinD rest v else hl.2
      pure (rest, high, low)) else pure (q, hl.1, hl.2)
  let q := r.1 ++ [v]
  let hl : α × α := if r.2.1 < v then (v, r.2.2) else if v < r.2.2 then (r.2.1, v) else (r.2.1, r.2.2)
  pure (q, hl.1, hl.2)

/-- the output part: normalise into [−1, 1], smooth with `ma`, clamp to ±0.99, Fisher recursion on the previous output -/
def eftEmit (ma : View α) (m : ma.σ) (qOut : List α) (high low v : α) : M (ma.σ × List α) :=
  if high == low then pure (m, qOut ++ [nat 0])
  else do
    let half : α := dec 5 10
    let nv := nat 2 * ((v - low) / (high - low) - half)
    let m ← ma.upd m nv
    match ← ma.last m with
    | none => pure (m, qOut)
    | some smoothed =>
      let smoothed := clampv smoothed (-(dec 99 100)) (dec 99 100)
      if qOut.isEmpty then pure (m, qOut ++ [nat 0])
      else do
        let b ← back qOut
        let fish := half * Transc.ln ((nat 1 + smoothed) / (nat 1 - smoothed)) + half * b
        assertFinite fish
        pure (m, qOut ++ [fish])

def eftCore (N : Nat) (ma : View α) : Core α where
  σ := EftState α ma.σ
  init := { q := [], ma := ma.init, high := nat 0, low := nat 0, qOut := [] }
  step s v := do
    let qOut := if 1 < s.qOut.length then s.qOut.tail else s.qOut
    let w ← eftWindow N s.q s.high s.low v
    let e ← eftEmit ma s.ma qOut w.2.1 w.2.2 v
    pure { q := w.1, ma := e.1, high := w.2.1, low := w.2.2, qOut := e.2 }
  out s := pure s.qOut.getLast?
  size s := s.q.length + s.qOut.length + ma.size s.ma

/-! ### constructors with their `assert!` -/
def roofCore (N Mss : Nat) : M (Core α) := if N < 2 then throw .assertFailed else pure (roofCoreU N Mss)
def ccCore (N : Nat) : M (Core α) := if N < 6 then throw .assertFailed else pure (ccCoreU N)
def pfeCore (N : Nat) (ma : View α) : M (Core α) := if N < 3 then throw .assertFailed else pure (pfeCoreU N ma)

end SF
