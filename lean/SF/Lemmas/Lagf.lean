import SF.Lemmas.Field
import SF.Model.Ehlers
/- LaguerreFilter: the (trimmed) per-stage vectors hold the current and previous ladder values; output = (L0+2L1+2L2+L3)/6. -/
namespace SF.Lagf
open SF SF.Spec
set_option linter.unusedSectionVars false
set_option linter.unusedSimpArgs false
variable {α : Type} [Field α] [LinearOrder α] [IsStrictOrderedRing α] [FloatLike α] [ExactScalar α]

theorem fromEnd_one (p : List α) (a : α) : fromEnd (p ++ [a]) 1 = .ok a := by
  simp [fromEnd, usub, getIdx, bind, Except.bind, pure, Except.pure]

theorem fromEnd_two (p : List α) (a b : α) : fromEnd (p ++ [a] ++ [b]) 2 = .ok a := by
  simp only [fromEnd, usub, List.length_append, List.length_singleton, bind, Except.bind, pure, Except.pure]
  have h : 2 ≤ p.length + 1 + 1 := by omega
  simp only [h, if_true, getIdx]
  have : p.length + 1 + 1 - 2 = p.length := by omega
  rw [this, List.append_assoc, List.getElem?_append_right (le_refl _)]
  simp; rfl

/-- a stage vector: a short prefix followed by the stage's current value -/
def Holds (l : List α) (v : α) : Prop := ∃ p : List α, l = p ++ [v] ∧ p.length ≤ 1

theorem trim_holds (p : List α) (hp : p.length ≤ 1) (a b : α) :
    Holds (if 2 < (p ++ [a] ++ [b]).length then (p ++ [a] ++ [b]).tail else (p ++ [a] ++ [b])) b := by
  cases p with
  | nil => exact ⟨[a], by simp, by simp⟩
  | cons c p' =>
    have : p' = [] := by cases p' with
      | nil => rfl
      | cons d p'' => simp at hp
    subst this
    exact ⟨[a], by simp, by simp⟩

structure Inv (g : α) (s : LagfState α) (xs : List α) : Prop where
  h0 : xs = [] → s.l0s = [] ∧ s.filts = []
  hne : ∀ x0 r, xs = x0 :: r →
    Holds s.l0s (lagLadder g (x0, x0, x0, x0) r).1 ∧ Holds s.l1s (lagLadder g (x0, x0, x0, x0) r).2.1 ∧
    Holds s.l2s (lagLadder g (x0, x0, x0, x0) r).2.2.1 ∧ Holds s.l3s (lagLadder g (x0, x0, x0, x0) r).2.2.2 ∧
    s.filts = [((lagLadder g (x0, x0, x0, x0) r).1 + 2 * (lagLadder g (x0, x0, x0, x0) r).2.1
                + 2 * (lagLadder g (x0, x0, x0, x0) r).2.2.1 + (lagLadder g (x0, x0, x0, x0) r).2.2.2) / 6]

theorem ladder_snoc (g : α) (init : α × α × α × α) (r : List α) (x : α) :
    lagLadder g init (r ++ [x]) =
      (let s := lagLadder g init r
       let n0 := (nat 1 - g) * x + g * s.1
       let n1 := -g * n0 + s.1 + g * s.2.1
       let n2 := -g * n1 + s.2.1 + g * s.2.2.1
       let n3 := -g * n2 + s.2.2.1 + g * s.2.2.2
       (n0, n1, n2, n3)) := by
  simp only [lagLadder, List.foldl_append, List.foldl_cons, List.foldl_nil]

theorem step_ok (g : α) (s : LagfState α) (xs : List α) (x : α) (h : Inv g s xs) :
    ∃ s', (lagfCore g).step s x = .ok s' ∧ Inv g s' (xs ++ [x]) := by
  obtain ⟨h0, hne⟩ := h
  by_cases hx : xs = []
  · subst hx
    obtain ⟨hl, hf⟩ := h0 rfl
    refine ⟨{ l0s := [x], l1s := [x], l2s := [x], l3s := [x], filts := [(x + 2 * x + 2 * x + x) / 6] }, ?_, ?_⟩
    · simp [lagfCore, hl, hf, pure, Except.pure]
    · refine ⟨fun h => by simp at h, fun x0 r he => ?_⟩
      simp at he; obtain ⟨rfl, rfl⟩ := he
      simp only [lagLadder, List.foldl_nil]
      refine ⟨⟨[], rfl, by simp⟩, ⟨[], rfl, by simp⟩, ⟨[], rfl, by simp⟩, ⟨[], rfl, by simp⟩, ?_⟩
      simp
  · obtain ⟨x0, r, rfl⟩ := List.exists_cons_of_ne_nil hx
    obtain ⟨⟨p0, e0, hp0⟩, ⟨p1, e1, hp1⟩, ⟨p2, e2, hp2⟩, ⟨p3, e3, hp3⟩, hf⟩ := hne x0 r rfl
    set L := lagLadder g (x0, x0, x0, x0) r with hL
    have hne0 : s.l0s.isEmpty = false := by rw [e0]; cases p0 <;> rfl
    -- new ladder values
    set n0 := (nat 1 - g) * x + g * L.1 with hn0
    set n1 := -g * n0 + L.1 + g * L.2.1 with hn1
    set n2 := -g * n1 + L.2.1 + g * L.2.2.1 with hn2
    set n3 := -g * n2 + L.2.2.1 + g * L.2.2.2 with hn3
    have hlad : lagLadder g (x0, x0, x0, x0) (r ++ [x]) = (n0, n1, n2, n3) := by rw [ladder_snoc]
    have hstep : (lagfCore g).step s x = .ok
        { l0s := (if 2 < (p0 ++ [L.1] ++ [n0]).length then (p0 ++ [L.1] ++ [n0]).tail else p0 ++ [L.1] ++ [n0]),
          l1s := (if 2 < (p1 ++ [L.2.1] ++ [n1]).length then (p1 ++ [L.2.1] ++ [n1]).tail else p1 ++ [L.2.1] ++ [n1]),
          l2s := (if 2 < (p2 ++ [L.2.2.1] ++ [n2]).length then (p2 ++ [L.2.2.1] ++ [n2]).tail else p2 ++ [L.2.2.1] ++ [n2]),
          l3s := (if 2 < (p3 ++ [L.2.2.2] ++ [n3]).length then (p3 ++ [L.2.2.2] ++ [n3]).tail else p3 ++ [L.2.2.2] ++ [n3]),
          filts := [(n0 + 2 * n1 + 2 * n2 + n3) / 6] } := by
      simp only [lagfCore, hne0, Bool.false_eq_true, if_false, e0, e1, e2, e3, fromEnd_one, fromEnd_two, bind, Except.bind,
        pure, Except.pure, assertFinite_exact, hf, nat_eq, Nat.cast_ofNat, Nat.cast_one]
      simp [hn0, hn1, hn2, hn3]
    refine ⟨_, hstep, fun h => by simp at h, fun y0 r' he => ?_⟩
    have hy : y0 = x0 ∧ r' = r ++ [x] := by simpa using he.symm
    obtain ⟨rfl, rfl⟩ := hy
    rw [hlad]
    exact ⟨trim_holds p0 hp0 _ _, trim_holds p1 hp1 _ _, trim_holds p2 hp2 _ _, trim_holds p3 hp3 _ _, rfl⟩

/-- **LaguerreFilter = the four-stage Laguerre ladder (all stages start at the first value), output (L0+2L1+2L2+L3)/6** -/
theorem outAfter_eq (g : α) (xs : List α) :
    (lagfCore (α := α) g).outAfter xs = .ok (Spec.laguerreFilter g xs) :=
  Core.outAfter_of_inv _ (Inv g) (Spec.laguerreFilter g)
    (Core.run_invariant_init (lagfCore g) (Inv g) ⟨fun _ => ⟨rfl, rfl⟩, fun x0 r h => by simp at h⟩
      (fun s pre x h => step_ok g s pre x h))
    (fun s xs h => by
      simp only [lagfCore, pure, Except.pure]
      cases xs with
      | nil => simp [(h.h0 rfl).2, Spec.laguerreFilter]
      | cons x0 r =>
        obtain ⟨_, _, _, _, hf⟩ := h.hne x0 r rfl
        rw [hf]; simp [Spec.laguerreFilter]) xs

/-- memory: never more than 2+2+2+2+1 scalars -/
theorem size_le (g : α) (xs : List α) (s : LagfState α)
    (h : (lagfCore (α := α) g).run (lagfCore (α := α) g).init xs = .ok s) : (lagfCore (α := α) g).size s ≤ 9 := by
  obtain ⟨s', hs, hi⟩ := Core.run_invariant_init (lagfCore g) (Inv g) ⟨fun _ => ⟨rfl, rfl⟩, fun x0 r h => by simp at h⟩
      (fun s pre x h => step_ok g s pre x h) xs
  rw [h] at hs; cases hs
  cases xs with
  | nil =>
    simp only [Core.run, pure, Except.pure] at h; cases h
    simp [lagfCore]
  | cons x0 r =>
    obtain ⟨⟨p0, e0, hp0⟩, ⟨p1, e1, hp1⟩, ⟨p2, e2, hp2⟩, ⟨p3, e3, hp3⟩, hf⟩ := hi.hne x0 r rfl
    show s.l0s.length + s.l1s.length + s.l2s.length + s.l3s.length + s.filts.length ≤ 9
    rw [e0, e1, e2, e3, hf]; simp; omega

end SF.Lagf
