import SF.Lemmas.Field
import SF.Model.Window
/- CenterOfGravity: the enumerate-loop computes Σ (n−i)·w_i and Σ w_i of the window; output = the CoG formula. -/
namespace SF.Cog
open SF SF.Spec
set_option linter.unusedSectionVars false
set_option linter.unusedSimpArgs false
variable {α : Type} [Field α] [LinearOrder α] [IsStrictOrderedRing α] [FloatLike α] [ExactScalar α]

/-- Σ (position-from-the-end weight)·value: the oldest of n values has weight n, the newest weight 1 -/
def wsum : List α → α
  | [] => 0
  | x :: r => ((r.length + 1 : Nat) : α) * x + wsum r

/-- the model's loop, started at index `k` inside a window of length `k + l.length` -/
theorem fold_eq (l : List α) (k : Nat) (a b : α) :
    (l.zipIdx k).foldl (fun (acc : α × α) (vi : α × Nat) =>
        (acc.1 + nat (k + l.length - vi.2) * vi.1, acc.2 + vi.1)) (a, b)
      = (a + wsum l, b + sumL l) := by
  induction l generalizing k a b with
  | nil => simp [wsum]
  | cons x r ih =>
    simp only [List.zipIdx_cons, List.foldl_cons, List.length_cons, Nat.add_sub_cancel_left]
    have e : ∀ vi : α × Nat, k + (r.length + 1) - vi.2 = (k + 1) + r.length - vi.2 := by intro vi; omega
    simp only [e]
    rw [ih (k + 1)]
    simp only [wsum, sumL_cons, nat_eq]
    congr 1 <;> ring

theorem cogSums_eq (q : List α) : cogSums q = (wsum q, sumL q) := by
  have := fold_eq q 0 (0 : α) 0
  simp only [Nat.zero_add, zero_add] at this
  simp only [cogSums, nat_eq, Nat.cast_zero]
  exact this

/-- the spec's numerator Σ_k k·x_(t−k+1) (k = 1 newest) is the same weighted sum -/
theorem spec_num_eq (w : List α) :
    sumL (w.reverse.zipIdx.map fun (x, k) => (nat (k + 1) : α) * x) = wsum w := by
  induction w with
  | nil => simp [wsum]
  | cons x r ih =>
    rw [List.reverse_cons, List.zipIdx_append, List.map_append, sumL_append, ih]
    simp [wsum, add_comm]

/-- the sliding-window push used by CoG / NET / PFE / TrendFlex: `if N ≤ len then tail else q` then push -/
theorem lastN_push (N : Nat) (hN : 0 < N) (xs : List α) (x : α) :
    (if N ≤ (lastN N xs).length then (lastN N xs).tail else lastN N xs) ++ [x] = lastN N (xs ++ [x]) := by
  by_cases h : N ≤ (lastN N xs).length
  · rw [if_pos h, lastN_snoc_full N xs x hN h]
  · rw [if_neg h, lastN_snoc_lt N xs x (by omega)]

def Inv (N : Nat) (s : CogState α) (xs : List α) : Prop :=
  s.q = lastN N xs ∧ s.out = Spec.cog N xs

theorem step_ok (N : Nat) (hN : 0 < N) (s : CogState α) (xs : List α) (x : α) (h : Inv N s xs) :
    ∃ s', (cogCore N).step s x = .ok s' ∧ Inv N s' (xs ++ [x]) := by
  obtain ⟨hq, _⟩ := h
  have hq' : (if N ≤ s.q.length then s.q.tail else s.q) ++ [x] = lastN N (xs ++ [x]) := by
    rw [hq]; exact lastN_push N hN xs x
  have hne : lastN N (xs ++ [x]) ≠ [] := by
    intro h0
    have := congrArg List.length h0; rw [lastN_length] at this; simp at this; omega
  simp only [cogCore, hq', cogSums_eq, nat_eq, Nat.cast_zero, Nat.cast_one, Nat.cast_ofNat]
  set w := lastN N (xs ++ [x]) with hw
  have hspec : Spec.cog N (xs ++ [x]) =
      some (if sumL w = 0 then 0 else ((w.length : α) + 1) / 2 - wsum w / sumL w) := by
    have hem : ¬ w.isEmpty := by simpa using hne
    have hnum := spec_num_eq w
    simp only [Spec.cog, ← hw, hem, if_false, Bool.false_eq_true, hnum]
    by_cases hz : sumL w = 0 <;> simp [hz]
  by_cases hz : sumL w = 0
  · refine ⟨{ q := w, out := some 0 }, by simp [hz, pure, Except.pure], rfl, ?_⟩
    rw [hspec]; simp [hz]
  · refine ⟨{ q := w, out := some (-(wsum w) / sumL w + ((w.length : α) + 1) / 2) }, ?_, rfl, ?_⟩
    · simp [hz, bind, Except.bind, pure, Except.pure]
    · rw [hspec]; simp only [hz, if_false]; congr 1; ring

theorem outAfter_eq (N : Nat) (hN : 0 < N) (xs : List α) :
    (cogCore (α := α) N).outAfter xs = .ok (Spec.cog N xs) :=
  Core.outAfter_of_inv _ (Inv N) (Spec.cog N)
    (Core.run_invariant_init (cogCore N) (Inv N) (by simp [Inv, cogCore, Spec.cog]) (fun s pre x h => step_ok N hN s pre x h))
    (fun s xs h => by simp [cogCore, h.2, pure, Except.pure]) xs

end SF.Cog
