import SF.Lemmas.Rsi
/- MyRSI: cu / cd are G and L over the N most recent changes; the output is (G−L)/(G+L), held while G+L = 0. -/
namespace SF.MyRsi
open SF SF.Spec SF.Rsi
set_option linter.unusedSectionVars false
set_option linter.unusedSimpArgs false
variable {α : Type} [Field α] [LinearOrder α] [IsStrictOrderedRing α] [FloatLike α] [ExactScalar α]

def gp (d : α) : α := if 0 < d then d else 0
def lp (d : α) : α := if 0 < d then 0 else -d

theorem gains_eq (N : Nat) (xs : List α) : Spec.gains N xs = sumL ((lastN N (changes xs)).map gp) := by
  simp only [Spec.gains, nat_eq, Nat.cast_zero]; rfl
theorem losses_eq (N : Nat) (xs : List α) : Spec.losses N xs = sumL ((lastN N (changes xs)).map lp) := by
  simp only [Spec.losses, nat_eq, Nat.cast_zero]; rfl

/-- the held output after appending one value -/
theorem myRsiHold_snoc (N : Nat) (xs : List α) (x : α) :
    Spec.myRsiHold N (xs ++ [x]) =
      (if Spec.gains N (xs ++ [x]) + Spec.losses N (xs ++ [x]) = 0 then Spec.myRsiHold N xs
       else (Spec.gains N (xs ++ [x]) - Spec.losses N (xs ++ [x])) / (Spec.gains N (xs ++ [x]) + Spec.losses N (xs ++ [x]))) := by
  simp only [Spec.myRsiHold, List.length_append, List.length_singleton, List.range_succ, List.foldl_append,
    List.foldl_cons, List.foldl_nil]
  have htake : (xs ++ [x]).take (xs.length + 1) = xs ++ [x] := by
    rw [List.take_of_length_le]; simp
  rw [htake]
  have hpre : (List.range xs.length).foldl (fun prev t =>
        if Spec.gains N ((xs ++ [x]).take (t + 1)) + Spec.losses N ((xs ++ [x]).take (t + 1)) == nat 0 then prev
        else (Spec.gains N ((xs ++ [x]).take (t + 1)) - Spec.losses N ((xs ++ [x]).take (t + 1))) /
             (Spec.gains N ((xs ++ [x]).take (t + 1)) + Spec.losses N ((xs ++ [x]).take (t + 1)))) (nat 0)
      = (List.range xs.length).foldl (fun prev t =>
        if Spec.gains N (xs.take (t + 1)) + Spec.losses N (xs.take (t + 1)) == nat 0 then prev
        else (Spec.gains N (xs.take (t + 1)) - Spec.losses N (xs.take (t + 1))) /
             (Spec.gains N (xs.take (t + 1)) + Spec.losses N (xs.take (t + 1)))) (nat 0) := by
    apply List.foldl_ext
    intro prev t ht
    have : t + 1 ≤ xs.length := by have := List.mem_range.mp ht; omega
    rw [List.take_append_of_le_length this]
  rw [hpre]
  by_cases h : Spec.gains N (xs ++ [x]) + Spec.losses N (xs ++ [x]) = 0 <;> simp [h]

structure PInv (N : Nat) (s : MyRsiState α) (xs : List α) : Prop where
  hq : s.q = lastN N xs
  hlast : s.lastVal = (xs.getLast?).getD 0
  hW : lastN N (changes xs) = diffs s.oldestVal s.q
  hcu : s.cu = sumL ((diffs s.oldestVal s.q).map gp)
  hcd : s.cd = sumL ((diffs s.oldestVal s.q).map lp)

structure Inv (N : Nat) (s : MyRsiState α) (xs : List α) : Prop extends PInv N s xs where
  hout : s.out = Spec.myRsiHold N xs

theorem init_inv (N : Nat) : Inv N (myRsiCore (α := α) N).init [] := by
  refine ⟨⟨by simp [myRsiCore], by simp [myRsiCore], by simp [myRsiCore, changes, diffs], by simp [myRsiCore, diffs],
    by simp [myRsiCore, diffs]⟩, by simp [myRsiCore, Spec.myRsiHold]⟩

/-! ### the update as a composition of pure stages -/
def reset (s : MyRsiState α) (v : α) : MyRsiState α :=
  if s.q.isEmpty then { s with oldestVal := v, lastVal := v } else s

def evict (s : MyRsiState α) : MyRsiState α :=
  match s.q with
  | [] => s
  | old :: rest =>
    if s.oldestVal < old then { s with q := rest, cu := s.cu - (old - s.oldestVal), oldestVal := old }
    else { s with q := rest, cd := s.cd - (s.oldestVal - old), oldestVal := old }

def push (s : MyRsiState α) (v : α) : MyRsiState α :=
  if s.lastVal < v then { s with q := s.q ++ [v], cu := s.cu + v - s.lastVal, lastVal := v }
  else { s with q := s.q ++ [v], cd := s.cd + s.lastVal - v, lastVal := v }

def emit (s : MyRsiState α) : MyRsiState α :=
  if s.cu + s.cd = 0 then s else { s with out := (s.cu - s.cd) / (s.cu + s.cd) }

theorem sum_gp_nonneg (W : List α) : 0 ≤ sumL (W.map gp) := by
  induction W with
  | nil => simp
  | cons d W ih => simp only [List.map_cons, sumL_cons, gp]; split <;> linarith

theorem sum_lp_nonneg (W : List α) : 0 ≤ sumL (W.map lp) := by
  induction W with
  | nil => simp
  | cons d W ih =>
    simp only [List.map_cons, sumL_cons, lp]
    split
    · linarith
    · rename_i h; have := not_lt.mp h; linarith

/-- the clamp `.max(0)` after a removal is the identity whenever the running sums stay non-negative — which the invariant
guarantees in exact arithmetic -/
theorem step_eq (N : Nat) (hN : 0 < N) (s : MyRsiState α) (v : α)
    (hnn : N ≤ (reset s v).q.length → 0 ≤ (evict (reset s v)).cu ∧ 0 ≤ (evict (reset s v)).cd) :
    (myRsiCore N).step s v = .ok (emit (push (if N ≤ (reset s v).q.length then evict (reset s v) else reset s v) v)) := by
  simp only [myRsiCore, nat_eq, Nat.cast_zero]
  have hr : (if s.q.isEmpty = true then ({ s with oldestVal := v, lastVal := v } : MyRsiState α) else s) = reset s v := rfl
  rw [hr]
  revert hnn
  generalize reset s v = s0
  intro hnn
  by_cases hfull : N ≤ s0.q.length
  · cases hq : s0.q with
    | nil => rw [hq] at hfull; simp at hfull; omega
    | cons old rest =>
      have hfull' : N ≤ rest.length + 1 := by rw [hq] at hfull; simpa using hfull
      have hn := hnn hfull
      simp only [evict, hq] at hn
      simp only [hq, List.length_cons, hfull', if_true, popFront, bind, Except.bind, pure, Except.pure]
      simp only [evict, hq, push, emit]
      by_cases h1 : s0.oldestVal < old
      · simp only [h1, if_true] at hn
        have hm := Rsi.maxv_of_nonneg _ hn.1
        simp only [nat_eq, Nat.cast_zero] at hm
        by_cases h2 : s0.lastVal < v <;>
          simp only [h1, h2, hm, if_true, if_false] <;> (split <;> simp_all)
      · simp only [h1, if_false] at hn
        have hm := Rsi.maxv_of_nonneg _ hn.2
        simp only [nat_eq, Nat.cast_zero] at hm
        by_cases h2 : s0.lastVal < v <;>
          simp only [h1, h2, hm, if_true, if_false] <;> (split <;> simp_all)
  · simp only [hfull, if_false, bind, Except.bind, pure, Except.pure]
    simp only [push, emit]
    by_cases h2 : s0.lastVal < v <;> simp only [h2, if_true, if_false] <;> (split <;> simp_all)

theorem push_pinv (N : Nat) (hN : 0 < N) (s : MyRsiState α) (xs : List α) (x : α) (h : PInv N s xs) :
    PInv N (push (if N ≤ (reset s x).q.length then evict (reset s x) else reset s x) x) (xs ++ [x]) := by
  obtain ⟨hq, hlast, hW, hg, hl⟩ := h
  by_cases h0 : xs = []
  · subst h0
    have hq0 : s.q = [] := by simpa using hq
    have hr : reset s x = { s with oldestVal := x, lastVal := x } := by simp [reset, hq0]
    have hnf : ¬ N ≤ (reset s x).q.length := by rw [hr]; simp [hq0]; omega
    rw [if_neg hnf, hr]
    have hg0 : s.cu = 0 := by rw [hg, hq0]; simp [diffs]
    have hl0 : s.cd = 0 := by rw [hl, hq0]; simp [diffs]
    simp only [push, lt_irrefl, if_false, hq0, List.nil_append]
    refine ⟨?_, by simp, ?_, ?_, ?_⟩
    · show [x] = lastN N ([] ++ [x])
      rw [lastN_of_le N _ (by simp; omega)]; rfl
    · show lastN N (changes ([] ++ [x])) = diffs x [x]
      have : changes ([] ++ [x]) = [(0 : α)] := by simp [changes]
      rw [this, lastN_of_le N _ (by simp; omega)]; simp [diffs]
    · simp [diffs, hg0, gp]
    · simp [diffs, hl0, lp]
  · have hqne : s.q ≠ [] := by
      intro h; rw [hq] at h
      have h1 := congrArg List.length h; rw [lastN_length] at h1
      have h2 : 0 < xs.length := List.length_pos_of_ne_nil h0
      have h3 : 0 < min N xs.length := Nat.lt_min.mpr ⟨hN, h2⟩
      rw [h1] at h3; simp at h3
    have hr : reset s x = s := by
      simp only [reset]; rw [if_neg]; simpa using hqne
    rw [hr]
    have hqlast : s.q.getLast? = xs.getLast? := by rw [hq, getLast_lastN N hN]
    have hchs : changes (xs ++ [x]) = changes xs ++ [x - s.lastVal] := by rw [changes_snoc xs x h0, hlast]
    have hWlen : (lastN N (changes xs)).length = s.q.length := by rw [hW]; simp
    by_cases hfull : N ≤ s.q.length
    · rw [if_pos hfull]
      cases hqe : s.q with
      | nil => exact absurd hqe hqne
      | cons old rest =>
        have hWe : lastN N (changes xs) = (old - s.oldestVal) :: diffs old rest := by rw [hW, hqe]; rfl
        have hW' : lastN N (changes (xs ++ [x])) = diffs old rest ++ [x - s.lastVal] := by
          rw [hchs, lastN_snoc_full N _ _ hN (by rw [hWlen]; exact hfull), hWe]; rfl
        have hlv : s.lastVal = (rest.getLast?).getD old := by
          rw [hlast, ← hqlast, hqe]
          cases rest with
          | nil => simp
          | cons r0 r' => simp [List.getLast?_cons_cons, List.getLast?_eq_getLast_of_ne_nil]
        have hd : diffs old (rest ++ [x]) = diffs old rest ++ [x - s.lastVal] := by rw [diffs_snoc, hlv]
        have hqx : lastN N (xs ++ [x]) = rest ++ [x] := by
          rw [lastN_snoc_full N xs x hN (by rw [← hq]; exact hfull), ← hq, hqe]; rfl
        have hgs : s.cu = gp (old - s.oldestVal) + sumL ((diffs old rest).map gp) := by
          rw [hg, hqe]; simp [diffs]
        have hls : s.cd = lp (old - s.oldestVal) + sumL ((diffs old rest).map lp) := by
          rw [hl, hqe]; simp [diffs]
        have hc_iff : (s.oldestVal < old) ↔ (0 < old - s.oldestVal) := by constructor <;> intro h <;> linarith
        have hc2_iff : (s.lastVal < x) ↔ (0 < x - s.lastVal) := by constructor <;> intro h <;> linarith
        simp only [evict, hqe]
        by_cases hc : s.oldestVal < old <;> by_cases hc2 : s.lastVal < x <;>
          simp only [push, hc, hc2, if_true, if_false] <;>
          refine ⟨by simp [hqx], by simp, by simp only []; rw [hW', hd], ?_, ?_⟩ <;>
          (simp only [hd, List.map_append, sumL_append, List.map_cons, List.map_nil, sumL_cons, sumL_nil, hgs, hls, gp, lp];
           simp only [← hc_iff, ← hc2_iff, hc, hc2, if_true, if_false]; ring)
    · rw [if_neg hfull]
      have hlt : s.q.length < N := by omega
      have hW' : lastN N (changes (xs ++ [x])) = diffs s.oldestVal s.q ++ [x - s.lastVal] := by
        rw [hchs, lastN_snoc_lt N _ _ (by rw [hWlen]; exact hlt), hW]
      have hlv : s.lastVal = (s.q.getLast?).getD s.oldestVal := by
        rw [hlast, hqlast]
        obtain ⟨a, l, rfl⟩ := List.exists_cons_of_ne_nil h0
        simp [List.getLast?_eq_getLast_of_ne_nil]
      have hd : diffs s.oldestVal (s.q ++ [x]) = diffs s.oldestVal s.q ++ [x - s.lastVal] := by rw [diffs_snoc, hlv]
      have hqx : lastN N (xs ++ [x]) = s.q ++ [x] := by
        rw [lastN_snoc_lt N xs x (by rw [← hq]; exact hlt), ← hq]
      have hc2_iff : (s.lastVal < x) ↔ (0 < x - s.lastVal) := by constructor <;> intro h <;> linarith
      by_cases hc2 : s.lastVal < x <;>
        simp only [push, hc2, if_true, if_false] <;>
        refine ⟨by simp [hqx], by simp, by simp only []; rw [hW', hd], ?_, ?_⟩ <;>
        (simp only [hd, List.map_append, sumL_append, List.map_cons, List.map_nil, sumL_cons, sumL_nil, hg, hl];
         simp only [gp, lp, ← hc2_iff, hc2, if_true, if_false]; ring)

theorem emit_inv (N : Nat) (t : MyRsiState α) (xs : List α) (x : α) (h : PInv N t (xs ++ [x]))
    (hout : t.out = Spec.myRsiHold N xs) : Inv N (emit t) (xs ++ [x]) := by
  have hG : t.cu = Spec.gains N (xs ++ [x]) := by rw [h.hcu, gains_eq, h.hW]
  have hL : t.cd = Spec.losses N (xs ++ [x]) := by rw [h.hcd, losses_eq, h.hW]
  by_cases hz : t.cu + t.cd = 0
  · have e : emit t = t := by simp [emit, hz]
    rw [e]
    refine ⟨h, ?_⟩
    rw [myRsiHold_snoc, ← hG, ← hL, if_pos hz, hout]
  · have e : emit t = { t with out := (t.cu - t.cd) / (t.cu + t.cd) } := by simp [emit, hz]
    rw [e]
    refine ⟨⟨h.hq, h.hlast, h.hW, h.hcu, h.hcd⟩, ?_⟩
    rw [myRsiHold_snoc, ← hG, ← hL, if_neg hz]

theorem step_ok (N : Nat) (hN : 0 < N) (s : MyRsiState α) (xs : List α) (x : α) (h : Inv N s xs) :
    ∃ s', (myRsiCore N).step s x = .ok s' ∧ Inv N s' (xs ++ [x]) := by
  refine ⟨_, step_eq N hN s x ?_, ?_⟩
  · intro hfull
    have hcu := h.hcu
    have hcd := h.hcd
    by_cases h0 : s.q = []
    · have : reset s x = { s with oldestVal := x, lastVal := x } := by simp [reset, h0]
      rw [this] at hfull; simp [h0] at hfull; omega
    · have hr : reset s x = s := by simp only [reset]; rw [if_neg]; simpa using h0
      rw [hr]
      obtain ⟨old, rest, hqe⟩ := List.exists_cons_of_ne_nil h0
      have hgs : s.cu = gp (old - s.oldestVal) + sumL ((diffs old rest).map gp) := by rw [hcu, hqe]; simp [diffs]
      have hls : s.cd = lp (old - s.oldestVal) + sumL ((diffs old rest).map lp) := by rw [hcd, hqe]; simp [diffs]
      have g0 := sum_gp_nonneg (diffs old rest)
      have l0 := sum_lp_nonneg (diffs old rest)
      simp only [evict, hqe]
      by_cases hc : s.oldestVal < old
      · have hc' : 0 < old - s.oldestVal := by linarith
        simp only [hc, if_true, hgs, hls, gp, lp, hc']
        constructor <;> linarith
      · have hc' : ¬ 0 < old - s.oldestVal := by intro h'; apply hc; linarith
        simp only [hc, if_false, hgs, hls, gp, lp, hc']
        constructor <;> linarith
  apply emit_inv N _ xs x (push_pinv N hN s xs x h.toPInv)
  have hout := h.hout
  have e : ∀ t : MyRsiState α, (push t x).out = t.out := by
    intro t; simp only [push]; split <;> rfl
  have e2 : ∀ t : MyRsiState α, (evict t).out = t.out := by
    intro t; simp only [evict]; split
    · rfl
    · split <;> rfl
  have e3 : (reset s x).out = s.out := by simp only [reset]; split <;> rfl
  rw [e]; split
  · rw [e2, e3, hout]
  · rw [e3, hout]

/-- **MyRSI = (G−L)/(G+L) over the N most recent changes, previous output kept while G+L = 0, from the N-th value on** -/
theorem outAfter_eq (N : Nat) (hN : 0 < N) (xs : List α) :
    (myRsiCore (α := α) N).outAfter xs = .ok (Spec.myRsi N xs) :=
  Core.outAfter_of_inv _ (Inv N) (Spec.myRsi N)
    (Core.run_invariant_init (myRsiCore N) (Inv N) (init_inv N) (fun s pre x h => step_ok N hN s pre x h))
    (fun s xs h => by
      have hlen : s.q.length = min N xs.length := by rw [h.hq, lastN_length]
      simp only [myRsiCore, Spec.myRsi]
      by_cases hlt : xs.length < N
      · have : s.q.length < N := by rw [hlen, Nat.min_eq_right (Nat.le_of_lt hlt)]; exact hlt
        simp [this, hlt]; rfl
      · have : ¬ s.q.length < N := by rw [hlen, Nat.min_eq_left (by omega)]; omega
        simp [this, hlt, h.hout, bind, Except.bind, pure, Except.pure]) xs

end SF.MyRsi
