import SF.Lemmas.Cog
/- Roc: 100(x_t − x_{t−N})/x_{t−N}; base = first value while fewer than N+1 values exist; output held when the base is 0. -/
namespace SF.Roc
open SF SF.Spec
set_option linter.unusedSectionVars false
set_option linter.unusedSimpArgs false
variable {α : Type} [Field α] [LinearOrder α] [IsStrictOrderedRing α] [FloatLike α] [ExactScalar α]

/-- the spec's fold step (x0 = very first value) -/
def stepR (N : Nat) (x0 : α) (acc : Option α × List α) (x : α) : Option α × List α :=
  let hist := acc.2 ++ [x]
  let t := hist.length - 1
  let base := if N ≤ t then hist[t - N]?.getD x0 else x0
  let o := if base == nat 0 then acc.1 else some (nat 100 * (x - base) / base)
  (o, hist)

theorem roc_eq_fold (N : Nat) (x0 : α) (r : List α) : Spec.roc N (x0 :: r) = ((x0 :: r).foldl (stepR N x0) (none, [])).1 := rfl

theorem fold_hist (N : Nat) (x0 : α) (xs : List α) (acc : Option α × List α) :
    (xs.foldl (stepR N x0) acc).2 = acc.2 ++ xs := by
  induction xs generalizing acc with
  | nil => simp
  | cons x xs ih => simp [List.foldl_cons, ih, stepR]

structure Inv (N : Nat) (s : RocState α) (xs : List α) : Prop where
  hq : s.q = lastN N xs
  h0 : xs = [] → s.oldest = none ∧ s.out = none
  hne : ∀ x0 r, xs = x0 :: r →
    s.out = (xs.foldl (stepR N x0) (none, [])).1 ∧
    s.oldest = some (if N ≤ xs.length - 1 then xs[xs.length - 1 - N]?.getD x0 else x0)

theorem front_lastN (N : Nat) (xs : List α) (h : N ≤ xs.length) (hN : 0 < N) (d : α) :
    front (lastN N xs) = .ok (xs[xs.length - N]?.getD d) := by
  simp only [lastN]
  have hlt : xs.length - N < xs.length := by omega
  rw [List.drop_eq_getElem_cons hlt]
  simp [front, List.getElem?_eq_getElem hlt]; rfl

theorem step_ok (N : Nat) (hN : 0 < N) (s : RocState α) (xs : List α) (x : α) (h : Inv N s xs) :
    ∃ s', (rocCore N).step s x = .ok s' ∧ Inv N s' (xs ++ [x]) := by
  obtain ⟨hq, h0, hne⟩ := h
  have hpush := Cog.lastN_push N hN xs x
  rw [← hq] at hpush
  have hlen : s.q.length = min N xs.length := by rw [hq, lastN_length]
  by_cases hx : xs = []
  · subst hx
    obtain ⟨ho, hout⟩ := h0 rfl
    have hq0 : s.q = [] := by simpa using hq
    have hnf : ¬ N ≤ s.q.length := by rw [hq0]; simp; omega
    rw [if_neg hnf] at hpush
    by_cases hz : x = 0
    · refine ⟨{ oldest := some x, q := s.q ++ [x], out := s.out }, ?_, hpush, fun h => by simp at h, ?_⟩
      · simp [rocCore, hq0, hN, hz, bind, Except.bind, pure, Except.pure]
        omega
      · intro x0 r he
        simp at he; obtain ⟨rfl, rfl⟩ := he
        simp [stepR, hz, hout]
    · refine ⟨{ oldest := some x, q := s.q ++ [x], out := some (((x - x) / x) * 100) }, ?_, hpush, fun h => by simp at h, ?_⟩
      · simp [rocCore, hq0, hz, bind, Except.bind, pure, Except.pure]
        omega
      · intro x0 r he
        simp at he; obtain ⟨rfl, rfl⟩ := he
        simp [stepR, hz]
  · obtain ⟨x0, r, rfl⟩ := List.exists_cons_of_ne_nil hx
    obtain ⟨hout, hold⟩ := hne x0 r rfl
    have hqne : s.q.isEmpty = false := by
      cases hs : s.q with
      | nil => rw [hs] at hlen; simp at hlen; omega
      | cons a l => rfl
    -- the base used for the new value
    set xs' := (x0 :: r) ++ [x] with hxs'
    have hfoldsnoc : xs'.foldl (stepR N x0) (none, []) = stepR N x0 ((x0 :: r).foldl (stepR N x0) (none, [])) x := by
      rw [hxs', List.foldl_append]; rfl
    have hhist : ((x0 :: r).foldl (stepR N x0) (none, [])).2 = x0 :: r := by rw [fold_hist]; simp
    have hbase : ∀ (b : α), (if N ≤ xs'.length - 1 then xs'[xs'.length - 1 - N]?.getD x0 else x0) = b →
        stepR N x0 ((x0 :: r).foldl (stepR N x0) (none, [])) x =
          ((if b == nat 0 then s.out else some (nat 100 * (x - b) / b)), xs') := by
      intro b hb
      simp only [stepR, hhist, ← hxs', hb, ← hout]
    by_cases hfull : N ≤ s.q.length
    · have hNle : N ≤ (x0 :: r).length := by rw [hlen] at hfull; exact le_trans hfull (Nat.min_le_right _ _)
      rw [if_pos hfull] at hpush
      have hfr := front_lastN N (x0 :: r) hNle hN x0
      rw [← hq] at hfr
      set b := (x0 :: r)[(x0 :: r).length - N]?.getD x0 with hb
      have hbeq : (if N ≤ xs'.length - 1 then xs'[xs'.length - 1 - N]?.getD x0 else x0) = b := by
        have h1 : xs'.length - 1 = (x0 :: r).length := by simp [hxs']
        rw [h1, if_pos hNle, hb, hxs', List.getElem?_append_left (by omega)]
      by_cases hz : b = 0
      · refine ⟨{ oldest := some b, q := s.q.tail ++ [x], out := s.out }, ?_, hpush, fun h => by simp [hxs'] at h, ?_⟩
        · simp [rocCore, hqne, hfull, hfr, hz, bind, Except.bind, pure, Except.pure]
        · intro y0 r' he
          have : y0 = x0 := by simp [hxs'] at he; exact he.1.symm
          subst this
          refine ⟨?_, by simp only [hbeq]⟩
          rw [hfoldsnoc, hbase b hbeq]; simp [hz]
      · refine ⟨{ oldest := some b, q := s.q.tail ++ [x], out := some (((x - b) / b) * 100) }, ?_, hpush, fun h => by simp [hxs'] at h, ?_⟩
        · simp [rocCore, hqne, hfull, hfr, hz, bind, Except.bind, pure, Except.pure]
        · intro y0 r' he
          have : y0 = x0 := by simp [hxs'] at he; exact he.1.symm
          subst this
          refine ⟨?_, by simp only [hbeq]⟩
          rw [hfoldsnoc, hbase b hbeq]; simp [hz]; ring
    · have hNgt : (x0 :: r).length < N := by
        rw [hlen] at hfull
        rcases Nat.lt_or_ge (x0 :: r).length N with h | h
        · exact h
        · rw [Nat.min_eq_left h] at hfull; omega
      rw [if_neg hfull] at hpush
      have hold' : s.oldest = some x0 := by
        have hno : ¬ N ≤ (x0 :: r).length - 1 := by omega
        rw [hold, if_neg hno]
      have hbeq : (if N ≤ xs'.length - 1 then xs'[xs'.length - 1 - N]?.getD x0 else x0) = x0 := by
        have h1 : xs'.length - 1 = (x0 :: r).length := by simp [hxs']
        rw [h1, if_neg (by omega)]
      by_cases hz : x0 = 0
      · refine ⟨{ oldest := some x0, q := s.q ++ [x], out := s.out }, ?_, hpush, fun h => by simp [hxs'] at h, ?_⟩
        · simp [rocCore, hqne, hfull, hold', hz, bind, Except.bind, pure, Except.pure]
        · intro y0 r' he
          have : y0 = x0 := by simp [hxs'] at he; exact he.1.symm
          subst this
          refine ⟨?_, by simp only [hbeq]⟩
          rw [hfoldsnoc, hbase y0 hbeq]; simp [hz]
      · refine ⟨{ oldest := some x0, q := s.q ++ [x], out := some (((x - x0) / x0) * 100) }, ?_, hpush, fun h => by simp [hxs'] at h, ?_⟩
        · simp [rocCore, hqne, hfull, hold', hz, bind, Except.bind, pure, Except.pure]
        · intro y0 r' he
          have : y0 = x0 := by simp [hxs'] at he; exact he.1.symm
          subst this
          refine ⟨?_, by simp only [hbeq]⟩
          rw [hfoldsnoc, hbase y0 hbeq]; simp [hz]; ring

/-- **Roc = 100(x_t − x_{t−N})/x_{t−N}, base = first value while fewer than N+1 values exist, previous output held when
the base is 0** -/
theorem outAfter_eq (N : Nat) (hN : 0 < N) (xs : List α) :
    (rocCore (α := α) N).outAfter xs = .ok (Spec.roc N xs) :=
  Core.outAfter_of_inv _ (Inv N) (Spec.roc N)
    (Core.run_invariant_init (rocCore N) (Inv N)
      ⟨by simp [rocCore], fun _ => ⟨rfl, rfl⟩, fun x0 r h => by simp at h⟩ (fun s pre x h => step_ok N hN s pre x h))
    (fun s xs h => by
      simp only [rocCore, pure, Except.pure]
      cases xs with
      | nil => simp [(h.h0 rfl).2, Spec.roc]
      | cons x0 r => rw [(h.hne x0 r rfl).1, roc_eq_fold]) xs
end SF.Roc
