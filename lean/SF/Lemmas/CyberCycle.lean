import SF.Lemmas.SuperSmoother
import SF.Lemmas.Cog
/- CyberCycle (N ≥ 6): `vals` and `out` hold the last min(t+1, N) inputs / outputs; the smoothing loop rewrites positions
   3..N−1 of `smooth` from the window at every full-window step; the recursion reads the three newest smoothed values and
   the two previous outputs. -/
namespace SF.CC
open SF SF.Spec
set_option linter.unusedSectionVars false
set_option linter.unusedSimpArgs false
variable {α : Type} [Field α] [LinearOrder α] [IsStrictOrderedRing α] [FloatLike α] [ExactScalar α] [Transc α]

/-- pure 4-tap value at position i (i ≥ 3, i < length) -/
def tapV (vals : List α) (i : Nat) : α :=
  ((vals[i]?.getD 0) + 2 * (vals[i - 1]?.getD 0) + 2 * (vals[i - 2]?.getD 0) + (vals[i - 3]?.getD 0)) / 6

theorem getIdx_ok (l : List α) (i : Nat) (h : i < l.length) : getIdx l i = .ok (l[i]?.getD 0) := by
  simp [getIdx, List.getElem?_eq_getElem h, pure, Except.pure]

theorem ccTap_ok (vals : List α) (i : Nat) (hi : i < vals.length) : ccTap vals i = .ok (tapV vals i) := by
  simp only [ccTap, getIdx_ok vals i hi, getIdx_ok vals (i - 1) (by omega), getIdx_ok vals (i - 2) (by omega),
    getIdx_ok vals (i - 3) (by omega), bind, Except.bind, pure, Except.pure, tapV, nat_eq]
  norm_num

/-- the smoothing loop over positions 3 .. 3+k−1 -/
theorem smooth_loop (vals : List α) (k : Nat) (sm : List α) (hk : 3 + k ≤ vals.length) (hs : 3 + k ≤ sm.length) :
    ∃ sm', (List.range' 3 k).foldlM (fun (sm : List α) i => do let t ← ccTap vals i; pure (sm.set i t)) sm = .ok sm' ∧
      sm'.length = sm.length ∧ (∀ i, 3 ≤ i → i < 3 + k → sm'[i]? = some (tapV vals i)) := by
  induction k with
  | zero => exact ⟨sm, rfl, rfl, fun i h1 h2 => by omega⟩
  | succ k ih =>
    obtain ⟨sm1, h1, hl1, hv1⟩ := ih (by omega) (by omega)
    refine ⟨sm1.set (3 + k) (tapV vals (3 + k)), ?_, by simp [hl1], ?_⟩
    · rw [List.range'_concat, List.foldlM_append, h1, Nat.one_mul]
      simp only [bind, Except.bind, List.foldlM_cons, List.foldlM_nil, ccTap_ok vals (3 + k) (by omega), pure, Except.pure]
    · intro i hi1 hi2
      by_cases he : i = 3 + k
      · subst he; simp [List.getElem?_set_self (by omega : 3 + k < sm1.length)]
      · rw [List.getElem?_set_ne (by omega)]; exact hv1 i hi1 (by omega)

theorem ccSmooth_ok (vals smooth : List α) (N : Nat) (hN : 3 ≤ N) (hv : vals.length = N) (hs : smooth.length = N) :
    ∃ sm', ccSmooth vals smooth = .ok sm' ∧ sm'.length = N ∧ (∀ i, 3 ≤ i → i < N → sm'[i]? = some (tapV vals i)) := by
  obtain ⟨sm', h, hl, hv'⟩ := smooth_loop vals (N - 3) smooth (by omega) (by omega)
  refine ⟨sm', ?_, by omega, fun i h1 h2 => hv' i h1 (by omega)⟩
  simp only [ccSmooth, forRange, hv, hs, Nat.min_self]
  exact h

/-! ### the spec, unfolded -/
def smS (xs : List α) (t : Int) : α :=
  (at' xs (nat 0) t + nat 2 * at' xs (nat 0) (t - 1) + nat 2 * at' xs (nat 0) (t - 2) + at' xs (nat 0) (t - 3)) / nat 6

def stepC (N : Nat) (xs : List α) (acc : List α) (t : Nat) : List α :=
  if t + 1 < N then (nat 0 : α) :: acc
  else
    (sq (nat 1 - dec 5 10 * (nat 2 / (nat N + nat 1))) * (smS xs (t : Int) - nat 2 * smS xs ((t : Int) - 1) + smS xs ((t : Int) - 2))
      + nat 2 * (nat 1 - (nat 2 / (nat N + nat 1))) * acc.headD (nat 0)
      - sq (nat 1 - (nat 2 / (nat N + nat 1))) * acc.tail.headD (nat 0)) :: acc

/-- the outputs c(n−1), …, c(0) after n steps, newest first -/
def C (N : Nat) (xs : List α) (n : Nat) : List α := (List.range n).foldl (stepC N xs) []

theorem cyberCycle_unfold (N : Nat) (xs : List α) :
    Spec.cyberCycle N xs = if xs.isEmpty then none else (C N xs xs.length).head? := rfl

theorem C_succ (N : Nat) (xs : List α) (n : Nat) : C N xs (n + 1) = stepC N xs (C N xs n) n := by
  simp only [C, List.range_succ, List.foldl_append, List.foldl_cons, List.foldl_nil]

theorem C_length (N : Nat) (xs : List α) (n : Nat) : (C N xs n).length = n := by
  induction n with
  | zero => rfl
  | succ n ih => rw [C_succ]; simp only [stepC]; split <;> simp [ih]

theorem at_append (xs : List α) (x : α) (t : Int) (h : t < xs.length) : at' (xs ++ [x]) (nat 0) t = at' xs (nat 0) t := by
  simp only [at']
  split
  · rfl
  · rename_i h0
    have : t.toNat < xs.length := by omega
    rw [List.getElem?_append_left this]

theorem smS_append (xs : List α) (x : α) (t : Int) (h : t < xs.length) : smS (xs ++ [x]) t = smS xs t := by
  simp only [smS, at_append xs x t h, at_append xs x (t - 1) (by omega), at_append xs x (t - 2) (by omega),
    at_append xs x (t - 3) (by omega)]

theorem C_append (N : Nat) (xs : List α) (x : α) (n : Nat) (h : n ≤ xs.length) : C N (xs ++ [x]) n = C N xs n := by
  induction n with
  | zero => rfl
  | succ n ih =>
    rw [C_succ, C_succ, ih (by omega)]
    simp only [stepC, smS_append xs x (n : Int) (by omega), smS_append xs x ((n : Int) - 1) (by omega),
      smS_append xs x ((n : Int) - 2) (by omega)]

/-- the spec's smoothed value at time t in terms of the window `w = lastN N xs` (|xs| = t+1+j ... ) -/
theorem at_window (N : Nat) (xs : List α) (j : Nat) (hj : j < N) (hx : N ≤ xs.length) :
    at' xs (nat 0) ((xs.length : Int) - 1 - j) = (lastN N xs)[N - 1 - j]?.getD 0 := by
  simp only [at']
  have h0 : ¬ ((xs.length : Int) - 1 - j < 0) := by omega
  rw [if_neg h0]
  have e : ((xs.length : Int) - 1 - j).toNat = xs.length - 1 - j := by omega
  rw [e]
  simp only [lastN, List.getElem?_drop, nat_eq, Nat.cast_zero]
  congr 2; omega

theorem smS_window (N : Nat) (hN : 6 ≤ N) (xs : List α) (hx : N ≤ xs.length) (k : Nat) (hk : k ≤ 2) :
    smS xs ((xs.length : Int) - 1 - k) = tapV (lastN N xs) (N - 1 - k) := by
  have a0 := at_window N xs k (by omega) hx
  have a1 := at_window N xs (k + 1) (by omega) hx
  have a2 := at_window N xs (k + 2) (by omega) hx
  have a3 := at_window N xs (k + 3) (by omega) hx
  have e1 : (xs.length : Int) - 1 - k - 1 = (xs.length : Int) - 1 - ((k + 1 : ℕ) : Int) := by push_cast; ring
  have e2 : (xs.length : Int) - 1 - k - 2 = (xs.length : Int) - 1 - ((k + 2 : ℕ) : Int) := by push_cast; ring
  have e3 : (xs.length : Int) - 1 - k - 3 = (xs.length : Int) - 1 - ((k + 3 : ℕ) : Int) := by push_cast; ring
  have i1 : N - 1 - k - 1 = N - 1 - (k + 1) := by omega
  have i2 : N - 1 - k - 2 = N - 1 - (k + 2) := by omega
  have i3 : N - 1 - k - 3 = N - 1 - (k + 3) := by omega
  simp only [smS, tapV]
  rw [e1, e2, e3, a0, a1, a2, a3, i1, i2, i3]
  simp only [nat_eq]; norm_num

structure Inv (N : Nat) (s : CcState α) (xs : List α) : Prop where
  hv : s.vals = lastN N xs
  ho : s.out = ((C N xs xs.length).take N).reverse
  hs : s.smooth.length = N

theorem take_rev_trim (N : Nat) (hN : 0 < N) (Rl : List α) :
    (if N ≤ ((Rl.take N).reverse).length then ((Rl.take N).reverse).tail else (Rl.take N).reverse) = (Rl.take (N - 1)).reverse := by
  simp only [List.length_reverse, List.length_take]
  by_cases h : N ≤ Rl.length
  · rw [if_pos (by omega)]
    simp only [List.tail_reverse]
    rw [List.dropLast_eq_take, List.take_take, List.length_take]
    congr 2; omega
  · rw [if_neg (by omega), List.take_of_length_le (by omega), List.take_of_length_le (by omega)]

theorem ccValue_ok (N : Nat) (hN : 6 ≤ N) (sm out : List α) (hsm : sm.length = N) (hout : out.length = N - 1) :
    ccValue N sm out (N - 1) = .ok
      (sq (nat 1 - dec 5 10 * (nat 2 / (nat N + nat 1))) * ((sm[N - 1]?.getD 0) - nat 2 * (sm[N - 2]?.getD 0) + (sm[N - 3]?.getD 0))
        + nat 2 * (nat 1 - (nat 2 / (nat N + nat 1))) * (out[N - 2]?.getD 0)
        - sq (nat 1 - (nat 2 / (nat N + nat 1))) * (out[N - 3]?.getD 0)) := by
  have u1 : usub (N - 1) 1 = .ok (N - 2) := by
    unfold usub; rw [if_pos (by omega)]; show Except.ok _ = _; congr 1
  have u2 : usub (N - 1) 2 = .ok (N - 3) := by
    unfold usub; rw [if_pos (by omega)]; show Except.ok _ = _; congr 1
  simp only [ccValue, u1, u2, bind, Except.bind, getIdx_ok sm (N - 1) (by omega), getIdx_ok sm (N - 2) (by omega),
    getIdx_ok sm (N - 3) (by omega), getIdx_ok out (N - 2) (by omega), getIdx_ok out (N - 3) (by omega), pure, Except.pure]

theorem rev_take_idx1 (L : List α) (N : Nat) (hN : 6 ≤ N) (hL : N - 1 ≤ L.length) :
    ((L.take (N - 1)).reverse)[N - 2]?.getD 0 = L.headD (nat 0) := by
  rw [List.getElem?_reverse (by rw [List.length_take]; omega)]
  have e : (L.take (N - 1)).length - 1 - (N - 2) = 0 := by rw [List.length_take]; omega
  rw [e, List.getElem?_take_of_lt (by omega)]
  cases L with
  | nil => simp at hL; omega
  | cons a r => simp

theorem rev_take_idx2 (L : List α) (N : Nat) (hN : 6 ≤ N) (hL : N - 1 ≤ L.length) :
    ((L.take (N - 1)).reverse)[N - 3]?.getD 0 = L.tail.headD (nat 0) := by
  rw [List.getElem?_reverse (by rw [List.length_take]; omega)]
  have e : (L.take (N - 1)).length - 1 - (N - 3) = 1 := by rw [List.length_take]; omega
  rw [e, List.getElem?_take_of_lt (by omega)]
  match L, hL with
  | [], hL => simp at hL; omega
  | [a], hL => simp at hL; omega
  | a :: b :: r, _ => simp

theorem step_ok (N : Nat) (hN : 6 ≤ N) (s : CcState α) (xs : List α) (x : α) (h : Inv N s xs) :
    ∃ s', (ccCoreU N).step s x = .ok s' ∧ Inv N s' (xs ++ [x]) := by
  obtain ⟨hv, ho, hs⟩ := h
  have hN0 : 0 < N := by omega
  set Cn := C N xs xs.length with hCn
  have hCl : Cn.length = xs.length := C_length N xs xs.length
  have hvl : s.vals.length = min N xs.length := by rw [hv, lastN_length]
  have hol : s.out.length = min N xs.length := by rw [ho]; simp [hCl]
  -- the trimmed deques
  have hvt : (if N ≤ s.vals.length then s.vals.tail else s.vals) ++ [x] = lastN N (xs ++ [x]) := by
    rw [hv]; exact Cog.lastN_push N hN0 xs x
  have hot : (if N ≤ s.vals.length then s.out.tail else s.out) = (Cn.take (N - 1)).reverse := by
    have := take_rev_trim N hN0 Cn
    rw [← ho] at this
    rw [← this]
    have e : (N ≤ s.vals.length) ↔ (N ≤ s.out.length) := by rw [hvl, hol]
    by_cases hc : N ≤ s.vals.length
    · rw [if_pos hc, if_pos (e.mp hc)]
    · rw [if_neg hc, if_neg (fun h => hc (e.mpr h))]
  have hCnew : C N (xs ++ [x]) (xs ++ [x]).length = stepC N (xs ++ [x]) Cn xs.length := by
    rw [show (xs ++ [x]).length = xs.length + 1 by simp, C_succ, C_append N xs x xs.length (le_refl _)]
  have hstep : (ccCoreU N).step s x =
      (if ((if N ≤ s.vals.length then s.vals.tail else s.vals) ++ [x]).length < N then
        pure { s with vals := (if N ≤ s.vals.length then s.vals.tail else s.vals) ++ [x],
                      out := (if N ≤ s.vals.length then s.out.tail else s.out) ++ [nat 0] }
       else do
        let last ← usub ((if N ≤ s.vals.length then s.vals.tail else s.vals) ++ [x]).length 1
        let smooth ← ccSmooth ((if N ≤ s.vals.length then s.vals.tail else s.vals) ++ [x]) s.smooth
        let cc ← ccValue N smooth (if N ≤ s.vals.length then s.out.tail else s.out) last
        assertFinite cc
        pure { vals := (if N ≤ s.vals.length then s.vals.tail else s.vals) ++ [x],
               out := (if N ≤ s.vals.length then s.out.tail else s.out) ++ [cc], smooth := smooth }) := rfl
  rw [hstep, hvt, hot]
  have hlen' : (lastN N (xs ++ [x])).length = min N (xs.length + 1) := by rw [lastN_length]; simp
  by_cases hlt : xs.length + 1 < N
  · -- still filling
    have : (lastN N (xs ++ [x])).length < N := by rw [hlen']; omega
    rw [if_pos this]
    refine ⟨_, rfl, rfl, ?_, hs⟩
    show (Cn.take (N - 1)).reverse ++ [nat 0] = _
    rw [hCnew]
    simp only [stepC, if_pos hlt]
    obtain ⟨k, rfl⟩ : ∃ k, N = k + 1 := ⟨N - 1, by omega⟩
    simp [List.take_succ_cons]
  · have hfull : (lastN N (xs ++ [x])).length = N := by rw [hlen']; omega
    have : ¬ (lastN N (xs ++ [x])).length < N := by omega
    rw [if_neg this, hfull]
    have u : usub N 1 = .ok (N - 1) := by simp [usub, pure, Except.pure]; omega
    obtain ⟨sm', hsm, hsml, hsmv⟩ := ccSmooth_ok (lastN N (xs ++ [x])) s.smooth N (by omega) hfull hs
    have houtl : ((Cn.take (N - 1)).reverse).length = N - 1 := by simp [hCl]; omega
    simp only [u, hsm, bind, Except.bind, ccValue_ok N hN sm' _ hsml houtl, assertFinite_exact]
    refine ⟨_, rfl, rfl, ?_, hsml⟩
    show (Cn.take (N - 1)).reverse ++ [_] = _
    rw [hCnew]
    simp only [stepC, if_neg hlt]
    -- the three smoothed values
    have hx' : N ≤ (xs ++ [x]).length := by simp; omega
    have hl : ((xs ++ [x]).length : Int) - 1 = (xs.length : Int) := by simp
    have s0 := smS_window N hN (xs ++ [x]) hx' 0 (by omega)
    have s1 := smS_window N hN (xs ++ [x]) hx' 1 (by omega)
    have s2 := smS_window N hN (xs ++ [x]) hx' 2 (by omega)
    rw [hl] at s0 s1 s2
    simp only [Nat.cast_zero, sub_zero, Nat.cast_one, Nat.cast_ofNat, Nat.sub_zero] at s0 s1 s2
    rw [s0, s1, s2, hsmv (N - 1) (by omega) (by omega), hsmv (N - 2) (by omega) (by omega), hsmv (N - 3) (by omega) (by omega)]
    -- the two previous outputs
    have hc1 := rev_take_idx1 Cn N hN (by omega)
    have hc2 := rev_take_idx2 Cn N hN (by omega)
    rw [hc1, hc2]
    obtain ⟨k, rfl⟩ : ∃ k, N = k + 1 := ⟨N - 1, by omega⟩
    simp [List.take_succ_cons]

theorem run_ok (N : Nat) (hN : 6 ≤ N) (xs : List α) :
    ∃ s, (ccCoreU (α := α) N).run (ccCoreU (α := α) N).init xs = .ok s ∧ Inv N s xs :=
  Core.run_invariant_init (ccCoreU N) (Inv N) ⟨by simp [ccCoreU], by simp [ccCoreU, C], by simp [ccCoreU]⟩
    (fun s pre x h => step_ok N hN s pre x h) xs

theorem out_eq (N : Nat) (hN : 6 ≤ N) (s : CcState α) (xs : List α) (h : Inv N s xs) :
    (ccCoreU N).out s = .ok (Spec.cyberCycle N xs) := by
  show pure s.out.getLast? = _
  rw [cyberCycle_unfold, h.ho, List.getLast?_reverse]
  cases xs with
  | nil => simp [C, pure, Except.pure]
  | cons a r =>
    simp only [List.isEmpty_cons, Bool.false_eq_true, if_false, pure, Except.pure]
    congr 1
    cases hC : C N (a :: r) (a :: r).length with
    | nil => simp
    | cons c cs =>
      obtain ⟨k, rfl⟩ : ∃ k, N = k + 1 := ⟨N - 1, by omega⟩
      simp [List.take_succ_cons]

/-- **CyberCycle equals the batch re-evaluation** (N ≥ 6, the least window the constructor accepts): c(t) = 0 for t < N−1,
then (1−α/2)²(s(t) − 2s(t−1) + s(t−2)) + 2(1−α)c(t−1) − (1−α)²c(t−2) on the 4-tap smoothed input, α = 2/(N+1) -/
theorem cyberCycle_eq (N : Nat) (hN : 6 ≤ N) (xs : List α) :
    (ccCoreU (α := α) N).outAfter xs = .ok (Spec.cyberCycle N xs) :=
  Core.outAfter_of_inv _ (Inv N) (Spec.cyberCycle N) (run_ok N hN) (fun s xs h => out_eq N hN s xs h) xs

theorem size_le (N : Nat) (hN : 6 ≤ N) (xs : List α) (s : CcState α)
    (h : (ccCoreU (α := α) N).run (ccCoreU (α := α) N).init xs = .ok s) : (ccCoreU (α := α) N).size s ≤ 3 * N := by
  obtain ⟨s', hs, hi⟩ := run_ok (α := α) N hN xs
  rw [h] at hs; cases hs
  show s.vals.length + s.out.length + s.smooth.length ≤ 3 * N
  have h1 : s.vals.length ≤ N := by rw [hi.hv]; exact lastN_length_le N xs
  have h2 : s.out.length ≤ N := by rw [hi.ho]; simp
  have h3 := hi.hs
  omega
end SF.CC
