import SF.Lemmas.Moments
/- WelfordOnline (windowed) and WelfordRolling: mean / m2 are the batch statistics of the window / the history. -/
namespace SF.Welford
open SF SF.Spec SF.Moments
set_option linter.unusedSectionVars false
set_option linter.unusedSimpArgs false
variable {α : Type} [Field α] [LinearOrder α] [IsStrictOrderedRing α] [FloatLike α] [ExactScalar α] [Transc α]

def Inv (N : Nat) (s : WelfordState α) (xs : List α) : Prop :=
  s.q = lastN N xs ∧ Agg s.count s.mean s.m2 s.q

theorem init_inv (N : Nat) : Inv N (welfordInit (α := α)) [] := by
  refine ⟨by simp [welfordInit], ?_⟩
  simpa [welfordInit] using (agg_nil (α := α))

theorem step_ok (N : Nat) (hN : 0 < N) (s : WelfordState α) (xs : List α) (x : α) (h : Inv N s xs) :
    ∃ s', welfordStep N s x = .ok s' ∧ Inv N s' (xs ++ [x]) := by
  obtain ⟨hq, hagg⟩ := h
  have hle : s.q.length ≤ N := by rw [hq]; exact lastN_length_le N xs
  by_cases hfull : N ≤ s.q.length
  · -- the push makes the deque N+1 long: evict, downdate, update
    cases hqe : s.q with
    | nil => rw [hqe] at hfull; simp at hfull; omega
    | cons old rest =>
      have hlen : N < (s.q ++ [x]).length := by simp; omega
      have hqx : lastN N (xs ++ [x]) = rest ++ [x] := by
        rw [lastN_snoc_full N xs x hN (by rw [← hq]; exact hfull), ← hq, hqe]; rfl
      rw [hqe] at hagg
      by_cases hc1 : s.count ≤ 1
      · -- N = 1: the window empties
        have hrest : rest = [] := by
          have := hagg.hc; simp at this
          exact List.eq_nil_of_length_eq_zero (by omega)
        subst hrest
        have hadd := agg_add 0 (0 : α) 0 [] x agg_nil
        refine ⟨(({ s with q := [x] } : WelfordState α).remove old).add x, ?_, ?_, ?_⟩
        · have hlen' : N < ([old] ++ [x]).length := by rw [hqe] at hlen; exact hlen
          simp only [welfordStep, hqe, bind, Except.bind, pure, Except.pure]
          rw [if_pos (by simpa using hlen')]
          simp [popFront, pure, Except.pure]
        · simp [WelfordState.add, WelfordState.remove, hc1, hqx]
        · simpa [WelfordState.add, WelfordState.remove, hc1] using hadd
      · have hrest : rest ≠ [] := by
          intro h; subst h; have := hagg.hc; simp at this; omega
        have hrem := agg_remove s.count s.mean s.m2 rest old hagg hrest
        have hadd := agg_add _ _ _ rest x hrem
        refine ⟨(({ s with q := rest ++ [x] } : WelfordState α).remove old).add x, ?_, ?_, ?_⟩
        · have hlen' : N < ((old :: rest) ++ [x]).length := by rw [hqe] at hlen; exact hlen
          simp only [welfordStep, hqe, bind, Except.bind, pure, Except.pure]
          rw [if_pos (by simpa using hlen')]
          simp [popFront, pure, Except.pure]
        · simp [WelfordState.add, WelfordState.remove, hc1, hqx]
        · simpa [WelfordState.add, WelfordState.remove, hc1] using hadd
  · have hlen : ¬ N < (s.q ++ [x]).length := by simp; omega
    have hadd := agg_add _ _ _ s.q x hagg
    refine ⟨({ s with q := s.q ++ [x] } : WelfordState α).add x, ?_, ?_, ?_⟩
    · simp only [welfordStep, hlen, if_false, bind, Except.bind, pure, Except.pure]
    · simp [WelfordState.add]
      rw [lastN_snoc_lt N xs x (by rw [← hq]; omega), ← hq]
    · simpa [WelfordState.add] using hadd

theorem run_ok (N : Nat) (hN : 0 < N) (xs : List α) :
    ∃ s, (welfordCoreU (α := α) N).run (welfordCoreU (α := α) N).init xs = .ok s ∧ Inv N s xs :=
  Core.run_invariant_init (welfordCoreU N) (Inv N) (init_inv N) (fun s pre x h => step_ok N hN s pre x h) xs

/-- `mean()` is the arithmetic mean of exactly the window -/
theorem mean_eq (N : Nat) (s : WelfordState α) (xs : List α) (h : Inv N s xs) :
    s.mean = Spec.welfordMean N xs := by
  obtain ⟨hq, hagg⟩ := h
  rw [hagg.hmean, hq]; rfl

/-- `variance()` is the sample variance of exactly the window -/
theorem variance_eq (N : Nat) (s : WelfordState α) (xs : List α) (h : Inv N s xs) :
    s.variance = Spec.sampleVar (lastN N xs) := by
  obtain ⟨hq, hagg⟩ := h
  rw [← hq]
  simp only [WelfordState.variance, Spec.sampleVar, hagg.hc]
  by_cases h1 : 1 < s.q.length
  · have hne : s.q ≠ [] := by intro h; rw [h] at h1; simp at h1
    have : ¬ s.q.length ≤ 1 := by omega
    simp only [h1, this, if_true, if_false, nat_eq]
    rw [sum_sq_dev_mean s.q hne, hagg.hm2]
  · have : s.q.length ≤ 1 := by omega
    simp [h1, this]

/-- `last()`: nothing before N-1 values, then the sample standard deviation of exactly the window -/
theorem out_eq (N : Nat) (hN : 0 < N) (s : WelfordState α) (xs : List α) (h : Inv N s xs) :
    welfordOut N s = .ok (Spec.welford N xs) := by
  have hv := variance_eq N s xs h
  obtain ⟨hq, hagg⟩ := h
  have hc : s.count = min N xs.length := by rw [hagg.hc, hq, lastN_length]
  have hmin : (xs.length < N ∧ min N xs.length = xs.length) ∨ (N ≤ xs.length ∧ min N xs.length = N) := by
    rcases Nat.lt_or_ge xs.length N with h | h
    · exact Or.inl ⟨h, Nat.min_eq_right (Nat.le_of_lt h)⟩
    · exact Or.inr ⟨h, Nat.min_eq_left h⟩
  have hu : usub N 1 = .ok (N - 1) := by unfold usub; rw [if_pos (by omega)]; rfl
  simp only [welfordOut, hu, bind, Except.bind, Spec.welford, Spec.stdOf]
  by_cases hlt : xs.length < N - 1
  · have : s.count < N - 1 := by omega
    simp [this, hlt]; rfl
  · have : ¬ s.count < N - 1 := by omega
    simp only [this, hlt, if_false, hv]
    split <;> simp [pure, Except.pure]

theorem outAfter_eq (N : Nat) (hN : 0 < N) (xs : List α) :
    (welfordCoreU (α := α) N).outAfter xs = .ok (Spec.welford N xs) :=
  Core.outAfter_of_inv _ (Inv N) (Spec.welford N) (run_ok N hN) (fun s xs h => out_eq N hN s xs h) xs

theorem size_le (N : Nat) (hN : 0 < N) (xs : List α) (s : WelfordState α)
    (h : (welfordCoreU (α := α) N).run (welfordCoreU (α := α) N).init xs = .ok s) : (welfordCoreU (α := α) N).size s ≤ N := by
  obtain ⟨s', hs, hi⟩ := run_ok (α := α) N hN xs
  rw [h] at hs; cases hs
  show s.q.length ≤ N
  rw [hi.1]; exact lastN_length_le N xs

/-! ### Vst / Vsct: the same windowed mean and std -/
def VInv (N : Nat) (s : VstState α) (xs : List α) : Prop :=
  Inv N s.wo xs ∧ s.last = (xs.getLast?).getD 0

theorem vst_step_ok (N : Nat) (hN : 0 < N) (s : VstState α) (xs : List α) (x : α) (h : VInv N s xs) :
    ∃ s', (vstCoreU N).step s x = .ok s' ∧ VInv N s' (xs ++ [x]) := by
  obtain ⟨hw, hl⟩ := h
  obtain ⟨w', hw', hi'⟩ := step_ok N hN s.wo xs x hw
  exact ⟨{ last := x, wo := w' }, by simp [vstCoreU, hw', bind, Except.bind, pure, Except.pure], hi', by simp⟩

theorem vsct_step_ok (N : Nat) (hN : 0 < N) (s : VstState α) (xs : List α) (x : α) (h : VInv N s xs) :
    ∃ s', (vsctCoreU N).step s x = .ok s' ∧ VInv N s' (xs ++ [x]) := by
  obtain ⟨hw, hl⟩ := h
  obtain ⟨w', hw', hi'⟩ := step_ok N hN s.wo xs x hw
  exact ⟨{ last := x, wo := w' }, by simp [vsctCoreU, hw', bind, Except.bind, pure, Except.pure], hi', by simp⟩

theorem vinit (N : Nat) : VInv N ({ last := nat 0, wo := welfordInit } : VstState α) [] :=
  ⟨init_inv N, by simp⟩

theorem vst_out_eq (N : Nat) (hN : 0 < N) (s : VstState α) (xs : List α) (h : VInv N s xs) :
    (vstCoreU N).out s = .ok (Spec.vst N xs) := by
  obtain ⟨hw, hl⟩ := h
  have ho := out_eq N hN s.wo xs hw
  simp only [vstCoreU, ho, bind, Except.bind, Spec.vst]
  cases hsp : Spec.welford N xs with
  | none => simp [pure, Except.pure]
  | some sd =>
    cases hg : xs.getLast? with
    | none =>
      simp only [hg] at hl; simp at hl
      by_cases h0 : sd == 0 <;> simp [h0, hl, pure, Except.pure, bind, Except.bind]
    | some v =>
      simp only [hg] at hl; simp at hl
      by_cases h0 : sd == 0 <;> simp [h0, hl, pure, Except.pure, bind, Except.bind]

theorem vsct_out_eq (N : Nat) (hN : 0 < N) (s : VstState α) (xs : List α) (h : VInv N s xs) :
    (vsctCoreU N).out s = .ok (Spec.vsct N xs) := by
  obtain ⟨hw, hl⟩ := h
  have ho := out_eq N hN s.wo xs hw
  have hm := mean_eq N s.wo xs hw
  simp only [vsctCoreU, ho, bind, Except.bind, Spec.vsct]
  cases hsp : Spec.welford N xs with
  | none => simp [pure, Except.pure]
  | some sd =>
    cases hg : xs.getLast? with
    | none =>
      simp only [hg] at hl; simp at hl
      by_cases h0 : sd == 0 <;> simp [h0, pure, Except.pure, bind, Except.bind]
      -- N = 1 and nothing delivered: `last` is still 0, the window is empty, mean 0
      have hx : xs = [] := by simpa using hg
      subst hx
      simp [hm, hl, Spec.welfordMean, Spec.mean]
    | some v =>
      simp only [hg] at hl; simp at hl
      by_cases h0 : sd == 0 <;> simp [h0, hl, hm, pure, Except.pure, bind, Except.bind]

theorem vst_outAfter_eq (N : Nat) (hN : 0 < N) (xs : List α) :
    (vstCoreU (α := α) N).outAfter xs = .ok (Spec.vst N xs) :=
  Core.outAfter_of_inv _ (VInv N) (Spec.vst N)
    (Core.run_invariant_init (vstCoreU N) (VInv N) (vinit N) (fun s pre x h => vst_step_ok N hN s pre x h))
    (fun s xs h => vst_out_eq N hN s xs h) xs

theorem vsct_outAfter_eq (N : Nat) (hN : 0 < N) (xs : List α) :
    (vsctCoreU (α := α) N).outAfter xs = .ok (Spec.vsct N xs) :=
  Core.outAfter_of_inv _ (VInv N) (Spec.vsct N)
    (Core.run_invariant_init (vsctCoreU N) (VInv N) (vinit N) (fun s pre x h => vsct_step_ok N hN s pre x h))
    (fun s xs h => vsct_out_eq N hN s xs h) xs

end SF.Welford
