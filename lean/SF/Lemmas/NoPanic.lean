import SF.Lemmas.Generic
/- Panic-freedom and readiness as predicates on cores / views, and their closure under wrap / mapV / binop. -/
namespace SF
variable {α : Type}

/-- a core never panics: every run from the initial state succeeds and `out` succeeds in the state reached -/
def Core.NoPanic (B : Core α) : Prop := ∀ ys : List α, ∃ s, B.run B.init ys = .ok s ∧ ∃ o, B.out s = .ok o

/-- a view never panics on finite input: `last()` succeeds initially and `update(x); last()` succeeds along every
finite input sequence (since `last` is pure this covers every interleaving of `update` and `last` calls) -/
def View.NoPanic [FloatLike α] (V : View α) : Prop :=
  (∃ o, V.last V.init = .ok o) ∧ ∀ xs : List α, AllFinite xs → ∃ os, V.trace V.init xs = .ok os

theorem Core.run_snoc (B : Core α) (s : B.σ) (ys : List α) (y : α) :
    B.run s (ys ++ [y]) = (B.run s ys >>= fun s' => B.step s' y) := by
  rw [Core.run_append]
  cases B.run s ys with
  | error e => rfl
  | ok s' =>
    simp only [bind, Except.bind, Core.run]
    cases B.step s' y <;> rfl

/-- feeding a panic-free core anything delivered by an inner view never panics -/
theorem Core.feed_ok [FloatLike α] (B : Core α) (hB : B.NoPanic) (pre : List α) (b : B.σ)
    (hb : B.run B.init pre = .ok b) (os : List (Option α)) (hfin : ∀ v, some v ∈ os → FloatLike.isFinite v = true) :
    ∃ r, B.feed b os = .ok r := by
  induction os generalizing pre b with
  | nil => exact ⟨[], rfl⟩
  | cons o os ih =>
    cases o with
    | none =>
      obtain ⟨s, hs, o', ho'⟩ := hB pre
      rw [hb] at hs; cases hs
      obtain ⟨r, hr⟩ := ih pre b hb (fun v hv => hfin v (by simp [hv]))
      exact ⟨o' :: r, by simp [Core.feed, ho', hr, bind, Except.bind, pure, Except.pure]⟩
    | some v =>
      obtain ⟨s, hs, o', ho'⟩ := hB (pre ++ [v])
      rw [Core.run_snoc, hb] at hs
      simp only [bind, Except.bind] at hs
      obtain ⟨r, hr⟩ := ih (pre ++ [v]) s (by rw [Core.run_snoc, hb]; exact hs) (fun v hv => hfin v (by simp [hv]))
      have hv := hfin v (by simp)
      exact ⟨o' :: r, by simp [Core.feed, assertFinite_ok hv, hs, ho', hr, bind, Except.bind, pure, Except.pure]⟩

/-- readiness never reverts: once `out` is `some`, it is not `none` after any further step -/
def Core.ReadyStable (B : Core α) : Prop :=
  ∀ s x s', (∃ v, B.out s = .ok (some v)) → B.step s x = .ok s' → B.out s' ≠ .ok none

/-- the answers of a fed core: once `some`, never `none` again -/
def StableList : List (Option α) → Prop
  | [] => True
  | none :: r => StableList r
  | some _ :: r => (∀ o ∈ r, o ≠ none) ∧ StableList r

theorem Core.feed_idle [FloatLike α] (B : Core α) (b : B.σ) (o : Option α) (h : B.out b = .ok o) (n : Nat) :
    B.feed b (List.replicate n none) = .ok (List.replicate n o) := by
  induction n with
  | zero => rfl
  | succ n ih => simp [List.replicate_succ, Core.feed, h, ih, bind, Except.bind, pure, Except.pure]


/-- wrapping a panic-free inner view with a panic-free core is panic-free (exact arithmetic: every value finite) -/
theorem wrap_noPanic [FloatLike α] (hfin : ∀ x : α, FloatLike.isFinite x = true) (A : View α) (B : Core α)
    (hA : A.NoPanic) (hB : B.NoPanic) : (wrap A B).NoPanic := by
  refine ⟨?_, fun xs hx => ?_⟩
  · obtain ⟨s, hs, o, ho⟩ := hB []
    simp only [Core.run, pure, Except.pure] at hs; cases hs
    exact ⟨o, ho⟩
  · obtain ⟨os, hos⟩ := hA.2 xs hx
    have hw : (wrap A B).trace (A.init, B.init) xs = B.feed B.init os := by
      -- `wrap_trace`, restated here to keep this file independent of SF.Props
      clear hA
      induction xs generalizing os with
      | nil => simp only [View.trace, pure, Except.pure] at hos ⊢; cases hos; rfl
      | cons x xs _ => exact (by
          have : ∀ (a : A.σ) (b : B.σ) (ys : List α) (os : List (Option α)), AllFinite ys → A.trace a ys = .ok os →
              (wrap A B).trace (a, b) ys = B.feed b os := by
            intro a b ys
            induction ys generalizing a b with
            | nil => intro os _ h; simp only [View.trace, pure, Except.pure] at h ⊢; cases h; rfl
            | cons y ys ih =>
              intro os hy h
              have hyf := hy.head
              rw [trace_cons] at h
              cases hu : A.upd a y with
              | error e => simp [hu, bind, Except.bind] at h
              | ok a' =>
                cases hl : A.last a' with
                | error e => simp [hu, hl, bind, Except.bind] at h
                | ok o =>
                  cases ht : A.trace a' ys with
                  | error e => simp [hu, hl, ht, bind, Except.bind] at h
                  | ok os' =>
                    simp only [hu, hl, ht, bind, Except.bind, pure, Except.pure] at h
                    cases h
                    have ih' := fun b => ih a' b os' hy.tail ht
                    rw [trace_cons]
                    cases o with
                    | none =>
                      rw [wrap_upd_none A B hyf hu hl]
                      simp only [bind, Except.bind, Core.feed, ih', pure, Except.pure]
                    | some v =>
                      rw [wrap_upd_some A B hyf hu hl]
                      simp only [Core.feed, bind, Except.bind]
                      cases assertFinite v with
                      | error e => rfl
                      | ok u =>
                        simp only []
                        cases B.step b v with
                        | error e => rfl
                        | ok b' => simp only [ih', pure, Except.pure]
          exact this A.init B.init (x :: xs) os hx hos)
    obtain ⟨r, hr⟩ := B.feed_ok hB [] B.init rfl os (fun v _ => hfin v)
    exact ⟨r, by rw [show (wrap A B).init = (A.init, B.init) from rfl, hw, hr]⟩

/-- `Tanh`-style mapping preserves panic-freedom -/
theorem mapV_noPanic [FloatLike α] (hfin : ∀ x : α, FloatLike.isFinite x = true) (f : α → α) (A : View α)
    (hA : A.NoPanic) : (mapV f A).NoPanic := by
  have hl : ∀ s, (∃ o, A.last s = .ok o) → ∃ o, (mapV f A).last s = .ok o := by
    intro s ⟨o, ho⟩
    cases o with
    | none => exact ⟨none, by simp [ho, bind, Except.bind, pure, Except.pure]⟩
    | some v => exact ⟨some (f v), by simp [ho, bind, Except.bind, pure, Except.pure, assertFinite_ok (hfin v)]⟩
  refine ⟨hl _ hA.1, fun xs hx => ?_⟩
  obtain ⟨os, hos⟩ := hA.2 xs hx
  have : ∀ (a : A.σ) (ys : List α) (os : List (Option α)), AllFinite ys → A.trace a ys = .ok os →
      ∃ r, (mapV f A).trace a ys = .ok r := by
    intro a ys
    induction ys generalizing a with
    | nil => intro os _ _; exact ⟨[], rfl⟩
    | cons y ys ih =>
      intro os hy h
      rw [trace_cons] at h
      cases hu : A.upd a y with
      | error e => simp [hu, bind, Except.bind] at h
      | ok a' =>
        cases hl' : A.last a' with
        | error e => simp [hu, hl', bind, Except.bind] at h
        | ok o =>
          cases ht : A.trace a' ys with
          | error e => simp [hu, hl', ht, bind, Except.bind] at h
          | ok os' =>
            obtain ⟨r, hr⟩ := ih a' os' hy.tail ht
            obtain ⟨o2, ho2⟩ := hl a' ⟨o, hl'⟩
            refine ⟨o2 :: r, ?_⟩
            rw [trace_cons]
            have hup : (mapV f A).upd a y = .ok a' := by
              simp [mapV, assertFinite_ok hy.head, hu, bind, Except.bind]
            rw [hup]
            show ((mapV f A).last a' >>= fun o => (mapV f A).trace a' ys >>= fun r => pure (o :: r)) = _
            rw [ho2]
            show ((mapV f A).trace a' ys >>= fun r => pure (o2 :: r)) = _
            rw [hr]; rfl
  exact this A.init xs os hx hos

/-- a combining node whose function is total on the values its children report (Add, Subtract, Multiply; Divide away from a
zero divisor) never panics when its children do not -/
theorem binop_noPanic [FloatLike α] (hfin : ∀ x : α, FloatLike.isFinite x = true) (f : α → α → M α)
    (hf : ∀ a b, ∃ r, f a b = .ok r) (A B : View α) (hA : A.NoPanic) (hB : B.NoPanic) : (binop f A B).NoPanic := by
  have hl : ∀ (a : A.σ) (b : B.σ), (∃ o, A.last a = .ok o) → (∃ o, B.last b = .ok o) →
      ∃ o, (binop f A B).last (a, b) = .ok o := by
    intro a b ⟨oa, hoa⟩ ⟨ob, hob⟩
    cases oa with
    | none => exact ⟨none, by cases ob <;> simp [hoa, hob, bind, Except.bind, pure, Except.pure]⟩
    | some va =>
      cases ob with
      | none => exact ⟨none, by simp [hoa, hob, bind, Except.bind, pure, Except.pure]⟩
      | some vb =>
        obtain ⟨r, hr⟩ := hf va vb
        exact ⟨some r, by simp [hoa, hob, bind, Except.bind, pure, Except.pure, assertFinite_ok (hfin va),
          assertFinite_ok (hfin vb), hr]⟩
  refine ⟨hl _ _ hA.1 hB.1, fun xs hx => ?_⟩
  obtain ⟨osa, hosa⟩ := hA.2 xs hx
  obtain ⟨osb, hosb⟩ := hB.2 xs hx
  have : ∀ (a : A.σ) (b : B.σ) (ys : List α) (osa osb : List (Option α)), AllFinite ys → A.trace a ys = .ok osa →
      B.trace b ys = .ok osb → ∃ r, (binop f A B).trace (a, b) ys = .ok r := by
    intro a b ys
    induction ys generalizing a b with
    | nil => intro _ _ _ _ _; exact ⟨[], rfl⟩
    | cons y ys ih =>
      intro osa osb hy ha hb
      rw [trace_cons] at ha hb
      cases hua : A.upd a y with
      | error e => simp [hua, bind, Except.bind] at ha
      | ok a' =>
        cases hub : B.upd b y with
        | error e => simp [hub, bind, Except.bind] at hb
        | ok b' =>
          cases hla : A.last a' with
          | error e => simp [hua, hla, bind, Except.bind] at ha
          | ok oa =>
            cases hlb : B.last b' with
            | error e => simp [hub, hlb, bind, Except.bind] at hb
            | ok ob =>
              cases hta : A.trace a' ys with
              | error e => simp [hua, hla, hta, bind, Except.bind] at ha
              | ok ra =>
                cases htb : B.trace b' ys with
                | error e => simp [hub, hlb, htb, bind, Except.bind] at hb
                | ok rb =>
                  obtain ⟨r, hr⟩ := ih a' b' ra rb hy.tail hta htb
                  obtain ⟨o2, ho2⟩ := hl a' b' ⟨oa, hla⟩ ⟨ob, hlb⟩
                  refine ⟨o2 :: r, ?_⟩
                  rw [trace_cons]
                  have hup : (binop f A B).upd (a, b) y = .ok (a', b') := by
                    simp [binop, assertFinite_ok hy.head, hua, hub, bind, Except.bind, pure, Except.pure]
                  rw [hup]
                  show ((binop f A B).last (a', b') >>= fun o => (binop f A B).trace (a', b') ys >>= fun r => pure (o :: r)) = _
                  rw [ho2]
                  show ((binop f A B).trace (a', b') ys >>= fun r => pure (o2 :: r)) = _
                  rw [hr]; rfl
  exact this A.init B.init xs osa osb hx hosa hosb

end SF
