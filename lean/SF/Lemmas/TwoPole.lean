import SF.Lemmas.Real
import SF.Lemmas.SuperSmoother
import Mathlib.Analysis.Complex.Basic
import Mathlib.Analysis.SpecialFunctions.Trigonometric.Basic
import Mathlib.Data.List.Induction
/- Two-pole section with complex-conjugate poles a·e^{±iθ}, 0 ≤ a < 1: bounded input ⇒ bounded output with a bound that
   does not depend on the stream length.  Applied to the SuperSmoother recursion. -/
namespace SF.TwoPole
open SF SF.Spec Complex ComplexConjugate

/-- one step of a real two-pole recursion written through the complex pole `p`:
`f' = (p + conj p)·f1 − (p·conj p)·f2 + u` (real numbers embedded in ℂ) -/
theorem step_bound (p : ℂ) (a G K U : ℝ) (ha : ‖p‖ ≤ a) (ha0 : 0 ≤ a)
    (f1 f2 u f' : ℝ) (hrec : (f' : ℂ) = (p + conj p) * f1 - (p * conj p) * f2 + u)
    (hg : ‖(f1 : ℂ) - conj p * f2‖ ≤ G) (hf1 : ‖(f1 : ℂ)‖ ≤ K) (hu : |u| ≤ U)
    (hG : a * G + U ≤ G) (hK : a * K + G ≤ K) :
    ‖(f' : ℂ) - conj p * f1‖ ≤ G ∧ ‖(f' : ℂ)‖ ≤ K := by
  have hcp : ‖conj p‖ ≤ a := by rw [Complex.norm_conj]; exact ha
  have e1 : (f' : ℂ) - conj p * f1 = p * ((f1 : ℂ) - conj p * f2) + u := by rw [hrec]; ring
  have hun : ‖(u : ℂ)‖ ≤ U := by rw [Complex.norm_real]; exact hu
  have h1 : ‖(f' : ℂ) - conj p * f1‖ ≤ G := by
    rw [e1]
    calc ‖p * ((f1 : ℂ) - conj p * f2) + u‖ ≤ ‖p * ((f1 : ℂ) - conj p * f2)‖ + ‖(u : ℂ)‖ := norm_add_le _ _
      _ ≤ a * G + U := by
        rw [norm_mul]
        exact add_le_add (mul_le_mul ha hg (norm_nonneg _) ha0) hun
      _ ≤ G := hG
  refine ⟨h1, ?_⟩
  have e2 : (f' : ℂ) = conj p * f1 + ((f' : ℂ) - conj p * f1) := by ring
  rw [e2]
  calc ‖conj p * f1 + ((f' : ℂ) - conj p * f1)‖ ≤ ‖conj p * (f1 : ℂ)‖ + ‖(f' : ℂ) - conj p * f1‖ := norm_add_le _ _
    _ ≤ a * K + G := by
      rw [norm_mul]
      exact add_le_add (mul_le_mul hcp hf1 (norm_nonneg _) ha0) h1
    _ ≤ K := hK

/-- the pole a·e^{iθ} of the smoother: p + conj p = 2a·cos θ, p·conj p = a², ‖p‖ = a -/
noncomputable def pole (a θ : ℝ) : ℂ := (a : ℂ) * Complex.exp (θ * I)

theorem pole_norm (a θ : ℝ) (ha : 0 ≤ a) : ‖pole a θ‖ = a := by
  simp [pole, Complex.norm_exp_ofReal_mul_I, abs_of_nonneg ha]

theorem pole_add_conj (a θ : ℝ) : pole a θ + conj (pole a θ) = ((2 * a * Real.cos θ : ℝ) : ℂ) := by
  simp only [pole, map_mul, Complex.conj_ofReal]
  rw [← Complex.exp_conj]
  simp only [map_mul, Complex.conj_ofReal, Complex.conj_I]
  have h1 : Complex.exp (θ * I) = Complex.cos θ + Complex.sin θ * I := by rw [Complex.exp_mul_I]
  have h2 : Complex.exp (θ * -I) = Complex.cos θ - Complex.sin θ * I := by
    rw [show (θ : ℂ) * -I = (-(θ : ℂ)) * I by ring, Complex.exp_mul_I, Complex.cos_neg, Complex.sin_neg]; ring
  rw [h1, h2]; push_cast; ring

theorem pole_mul_conj (a θ : ℝ) : pole a θ * conj (pole a θ) = ((a * a : ℝ) : ℂ) := by
  rw [Complex.mul_conj, Complex.normSq_eq_norm_sq]
  by_cases ha : 0 ≤ a
  · rw [pole_norm a θ ha]; push_cast; ring
  · have : pole a θ = pole (-a) (θ + Real.pi) := by
      simp only [pole]; push_cast
      rw [add_mul, Complex.exp_add, Complex.exp_pi_mul_I]; ring
    rw [this, pole_norm (-a) _ (by linarith)]; push_cast; ring

/-- **SuperSmoother-type recursion is BIBO stable with a length-independent bound.**  For coefficients
b1 = 2a·cos θ, c3 = −a² with 0 ≤ a < 1 and any c1: if every input satisfies |x| ≤ B (and the pad too), every value of
the filter sequence satisfies |f| ≤ |c1|·B/(1−a)², however long the stream. -/
theorem smoothSeq_bibo (c : Coef ℝ) (a θ : ℝ) (ha0 : 0 ≤ a) (ha1 : a < 1)
    (hb1 : c.b1 = 2 * a * Real.cos θ) (hc3 : c.c3 = -(a * a)) (B : ℝ) (pad : ℝ) (hpad : |pad| ≤ B)
    (xs : List ℝ) (hx : ∀ x ∈ xs, |x| ≤ B) :
    ∀ f ∈ smoothSeq c pad xs, |f| ≤ |c.c1| * B / (1 - a) ^ 2 := by
  have hB : 0 ≤ B := le_trans (abs_nonneg _) hpad
  have h1a : 0 < 1 - a := by linarith
  set U := |c.c1| * B with hU
  have hU0 : 0 ≤ U := mul_nonneg (abs_nonneg _) hB
  set G := U / (1 - a) with hG
  set K := G / (1 - a) with hK
  have hGe : a * G + U ≤ G := by
    have : a * G + U = G := by rw [hG]; field_simp; ring
    linarith
  have hKe : a * K + G ≤ K := by
    have : a * K + G = K := by rw [hK]; field_simp; ring
    linarith
  have hG0 : 0 ≤ G := div_nonneg hU0 h1a.le
  have hK0 : 0 ≤ K := div_nonneg hG0 h1a.le
  have hKeq : K = |c.c1| * B / (1 - a) ^ 2 := by rw [hK, hG, hU]; field_simp
  set p := pole a θ with hp
  -- invariant over the fold: all values bounded by K, the last "complex difference" by G, the previous input by B
  have key : ∀ xs : List ℝ, (∀ x ∈ xs, |x| ≤ B) →
      (∀ f ∈ (SS.foldState c pad xs).1, |f| ≤ K) ∧
      ‖(((SS.foldState c pad xs).1.headD 0 : ℝ) : ℂ) - conj p * (((SS.foldState c pad xs).1.tail.headD 0 : ℝ) : ℂ)‖ ≤ G ∧
      |(SS.foldState c pad xs).2| ≤ B := by
    intro xs
    induction xs using List.reverseRecOn with
    | nil => intro _; simp [SS.foldState, hG0, hpad]
    | append_singleton xs x ih =>
      intro hx
      obtain ⟨hall, hg, hprev⟩ := ih (fun y hy => hx y (by simp [hy]))
      have hxB : |x| ≤ B := hx x (by simp)
      rw [SS.foldState_snoc]
      set st := SS.foldState c pad xs with hst
      set f1 := st.1.headD 0 with hf1
      set f2 := st.1.tail.headD 0 with hf2
      set u := c.c1 * (x + st.2) / 2 with hu
      have hf1K : |f1| ≤ K := by
        rw [hf1]; cases hl : st.1 with
        | nil => simp [hK0]
        | cons y l => simp; exact hall y (by rw [hl]; simp)
      have huU : |u| ≤ U := by
        rw [hu, abs_div, abs_mul]
        have : |x + st.2| ≤ 2 * B := le_trans (abs_add_le _ _) (by linarith)
        rw [show |(2:ℝ)| = 2 by norm_num, hU]
        rw [div_le_iff₀ (by norm_num : (0:ℝ) < 2)]
        nlinarith [abs_nonneg c.c1]
      have hrec : (((u + c.b1 * f1 + c.c3 * f2 : ℝ)) : ℂ) = (p + conj p) * f1 - (p * conj p) * f2 + u := by
        rw [hp, pole_add_conj, pole_mul_conj, hb1, hc3]; push_cast; ring
      have hstep := step_bound p a G K U (by rw [hp, pole_norm a θ ha0]) ha0 f1 f2 u (u + c.b1 * f1 + c.c3 * f2) hrec
        hg (by rw [Complex.norm_real]; exact hf1K) huU hGe hKe
      simp only [nat_eq, Nat.cast_zero, Nat.cast_ofNat]
      refine ⟨?_, ?_, hxB⟩
      · intro f hf
        rcases List.mem_cons.mp hf with rfl | hf
        · have := hstep.2; rw [Complex.norm_real] at this; exact this
        · exact hall f hf
      · show ‖(((u + c.b1 * f1 + c.c3 * f2 : ℝ)) : ℂ) - conj p * ((f1 : ℝ) : ℂ)‖ ≤ G
        exact hstep.1
  intro f hf
  rw [← hKeq]
  exact (key xs hx).1 f (by rwa [SS.smoothSeq_eq] at hf)

/-- homogeneous step (no input): with ρ = (1+a)/2 and λ = 2a/(1−a) the functional V = ‖f‖ + λ‖f − conj p·f₋₁‖ contracts by ρ -/
theorem homogeneous_contraction (p : ℂ) (a : ℝ) (ha : ‖p‖ ≤ a) (ha0 : 0 ≤ a) (ha1 : a < 1)
    (f1 f2 f' : ℝ) (hrec : (f' : ℂ) = (p + conj p) * f1 - (p * conj p) * f2) :
    ‖(f' : ℂ)‖ + 2 * a / (1 - a) * ‖(f' : ℂ) - conj p * f1‖
      ≤ (1 + a) / 2 * (‖(f1 : ℂ)‖ + 2 * a / (1 - a) * ‖(f1 : ℂ) - conj p * f2‖) := by
  have h1a : 0 < 1 - a := by linarith
  have hcp : ‖conj p‖ ≤ a := by rw [Complex.norm_conj]; exact ha
  set g := ‖(f1 : ℂ) - conj p * f2‖ with hg
  set g' := ‖(f' : ℂ) - conj p * f1‖ with hg'
  have e1 : (f' : ℂ) - conj p * f1 = p * ((f1 : ℂ) - conj p * f2) := by rw [hrec]; ring
  have hg'le : g' ≤ a * g := by
    rw [hg', e1, norm_mul]; exact mul_le_mul_of_nonneg_right ha (norm_nonneg _)
  have e2 : (f' : ℂ) = conj p * f1 + ((f' : ℂ) - conj p * f1) := by ring
  have hf' : ‖(f' : ℂ)‖ ≤ a * ‖(f1 : ℂ)‖ + g' := by
    calc ‖(f' : ℂ)‖ = ‖conj p * f1 + ((f' : ℂ) - conj p * f1)‖ := by rw [← e2]
      _ ≤ ‖conj p * (f1 : ℂ)‖ + g' := norm_add_le _ _
      _ ≤ a * ‖(f1 : ℂ)‖ + g' := by rw [norm_mul]; gcongr
  have hg0 : 0 ≤ g := norm_nonneg _
  have hf0 : 0 ≤ ‖(f1 : ℂ)‖ := norm_nonneg _
  have hl0 : 0 ≤ 2 * a / (1 - a) := div_nonneg (by linarith) h1a.le
  -- a·‖f1‖ + (1+λ)·a·g ≤ ρ‖f1‖ + ρλ g
  have key : a * ‖(f1 : ℂ)‖ + (1 + 2 * a / (1 - a)) * (a * g) ≤ (1 + a) / 2 * (‖(f1 : ℂ)‖ + 2 * a / (1 - a) * g) := by
    have e : (1 + a) / 2 * (‖(f1 : ℂ)‖ + 2 * a / (1 - a) * g) - (a * ‖(f1 : ℂ)‖ + (1 + 2 * a / (1 - a)) * (a * g))
        = (1 - a) / 2 * ‖(f1 : ℂ)‖ := by field_simp; ring
    have : 0 ≤ (1 - a) / 2 * ‖(f1 : ℂ)‖ := mul_nonneg (by linarith) hf0
    linarith
  calc ‖(f' : ℂ)‖ + 2 * a / (1 - a) * g' ≤ a * ‖(f1 : ℂ)‖ + g' + 2 * a / (1 - a) * g' := by linarith
    _ = a * ‖(f1 : ℂ)‖ + (1 + 2 * a / (1 - a)) * g' := by ring
    _ ≤ a * ‖(f1 : ℂ)‖ + (1 + 2 * a / (1 - a)) * (a * g) := by
        have : 0 ≤ 1 + 2 * a / (1 - a) := by linarith
        gcongr
    _ ≤ _ := key

/-- the Lyapunov functional of a fold state -/
noncomputable def V (p : ℂ) (a : ℝ) (st : List ℝ × ℝ) : ℝ :=
  ‖((st.1.headD 0 : ℝ) : ℂ)‖ + 2 * a / (1 - a) * ‖((st.1.headD 0 : ℝ) : ℂ) - conj p * ((st.1.tail.headD 0 : ℝ) : ℂ)‖

/-- **fading memory of the two-pole smoother**: once the input has been 0 for one step, every further zero input
multiplies the functional V (which dominates |f|) by ρ = (1+a)/2 < 1 -/
theorem zero_tail_decay (c : Coef ℝ) (a θ : ℝ) (ha0 : 0 ≤ a) (ha1 : a < 1)
    (hb1 : c.b1 = 2 * a * Real.cos θ) (hc3 : c.c3 = -(a * a)) (pad : ℝ) (xs : List ℝ) (k : Nat) :
    V (pole a θ) a (SS.foldState c pad (xs ++ [0] ++ List.replicate k 0))
      ≤ ((1 + a) / 2) ^ k * V (pole a θ) a (SS.foldState c pad (xs ++ [0])) := by
  induction k with
  | zero => simp
  | succ k ih =>
    rw [List.replicate_succ', ← List.append_assoc, SS.foldState_snoc]
    set st := SS.foldState c pad (xs ++ [0] ++ List.replicate k 0) with hst
    have hprev : st.2 = 0 := by
      rw [hst]
      cases k with
      | zero => simp [SS.foldState_snoc]
      | succ k' => rw [List.replicate_succ', ← List.append_assoc, SS.foldState_snoc]
    have hrec : (((c.c1 * (0 + st.2) / 2 + c.b1 * st.1.headD 0 + c.c3 * st.1.tail.headD 0 : ℝ)) : ℂ)
        = (pole a θ + conj (pole a θ)) * ((st.1.headD 0 : ℝ) : ℂ) - (pole a θ * conj (pole a θ)) * ((st.1.tail.headD 0 : ℝ) : ℂ) := by
      rw [pole_add_conj, pole_mul_conj, hb1, hc3, hprev]; push_cast; ring
    have hc := homogeneous_contraction (pole a θ) a (by rw [pole_norm a θ ha0]) ha0 ha1 _ _ _ hrec
    have hρ : 0 ≤ (1 + a) / 2 := by linarith
    calc V (pole a θ) a _ ≤ (1 + a) / 2 * V (pole a θ) a st := by
          simp only [V, nat_eq, Nat.cast_zero, Nat.cast_ofNat, List.headD_cons, List.tail_cons]
          exact hc
      _ ≤ (1 + a) / 2 * (((1 + a) / 2) ^ k * V (pole a θ) a (SS.foldState c pad (xs ++ [0]))) := by gcongr
      _ = _ := by ring

theorem abs_head_le_V (p : ℂ) (a : ℝ) (ha0 : 0 ≤ a) (ha1 : a < 1) (st : List ℝ × ℝ) : |st.1.headD 0| ≤ V p a st := by
  have h1a : 0 < 1 - a := by linarith
  have : 0 ≤ 2 * a / (1 - a) * ‖((st.1.headD 0 : ℝ) : ℂ) - conj p * ((st.1.tail.headD 0 : ℝ) : ℂ)‖ :=
    mul_nonneg (div_nonneg (by linarith) h1a.le) (norm_nonneg _)
  simp only [V]; rw [Complex.norm_real, Real.norm_eq_abs]; linarith

end SF.TwoPole
