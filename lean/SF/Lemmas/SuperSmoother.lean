import SF.Lemmas.Field
import SF.Model.Ehlers
/- SuperSmoother: the three scalar registers are the plain delays f(t), f(t-1) of the paper's recursion. -/
namespace SF.SS
open SF SF.Spec
set_option linter.unusedSectionVars false
variable {α : Type} [Field α] [LinearOrder α] [IsStrictOrderedRing α] [FloatLike α] [ExactScalar α] [Transc α]

/-- the model's coefficients are the spec's (a1 = exp(−1.414·π/N), b1 = 2·a1·cos(4.4422/N), c3 = −a1², c1 = 1 − b1 − c3) -/
theorem coef_eq (N : Nat) : ((SF.ssCoef (α := α) N).c1, (SF.ssCoef (α := α) N).c2, (SF.ssCoef (α := α) N).c3)
    = ((Spec.ssCoef (α := α) N).c1, (Spec.ssCoef (α := α) N).b1, (Spec.ssCoef (α := α) N).c3) := by
  simp only [SF.ssCoef, Spec.ssCoef, piLit, neg_mul]

/-- fold state of the spec after a history: (f's newest first, previous x) -/
def foldState (c : Coef α) (pad : α) (xs : List α) : List α × α :=
  xs.foldl (fun (acc : List α × α) (x : α) =>
    let f1 := acc.1.headD (nat 0)
    let f2 := acc.1.tail.headD (nat 0)
    let f := c.c1 * (x + acc.2) / nat 2 + c.b1 * f1 + c.c3 * f2
    (f :: acc.1, x)) ([], pad)

theorem smoothSeq_eq (c : Coef α) (pad : α) (xs : List α) : smoothSeq c pad xs = (foldState c pad xs).1 := rfl

theorem foldState_snoc (c : Coef α) (pad : α) (xs : List α) (x : α) :
    foldState c pad (xs ++ [x]) =
      (let acc := foldState c pad xs
       ((c.c1 * (x + acc.2) / nat 2 + c.b1 * acc.1.headD (nat 0) + c.c3 * acc.1.tail.headD (nat 0)) :: acc.1, x)) := by
  simp only [foldState, List.foldl_append, List.foldl_cons, List.foldl_nil]

theorem foldState_length (c : Coef α) (pad : α) (xs : List α) : (foldState c pad xs).1.length = xs.length := by
  induction xs using List.reverseRecOn with
  | nil => simp [foldState]
  | append_singleton xs x ih => rw [foldState_snoc]; simp [ih]

def Inv (N : Nat) (s : SsState α) (xs : List α) : Prop :=
  let st := foldState (Spec.ssCoef N) (nat 0) xs
  s.i = xs.length ∧ s.filt1 = st.1.headD (nat 0) ∧ s.filt2 = st.1.tail.headD (nat 0) ∧ s.lastVal = st.2 ∧
    s.filt = s.filt1

theorem init_inv (N : Nat) : Inv N (ssInit (α := α)) [] := by
  simp [Inv, ssInit, foldState]

theorem step_inv (N : Nat) (s : SsState α) (xs : List α) (x : α) (h : Inv N s xs) :
    Inv N (ssStep (SF.ssCoef N) s x) (xs ++ [x]) := by
  obtain ⟨hi, h1, h2, hl, hf⟩ := h
  have hc := coef_eq (α := α) N
  simp only [Prod.mk.injEq] at hc
  obtain ⟨e1, e2, e3⟩ := hc
  simp only [Inv, foldState_snoc]
  refine ⟨by simp [ssStep, hi], ?_, ?_, by simp [ssStep], by simp [ssStep]⟩
  · simp only [ssStep, List.headD_cons, e1, e2, e3, h1, h2, hl]
  · simp only [ssStep, List.tail_cons, h1]

theorem run_ok (N : Nat) (xs : List α) :
    ∃ s, (ssCore (α := α) N).run (ssCore (α := α) N).init xs = .ok s ∧ Inv N s xs :=
  Core.run_invariant_init (ssCore N) (Inv N) (init_inv N)
    (fun s pre x h => ⟨ssStep (SF.ssCoef N) s x, rfl, step_inv N s pre x h⟩) xs

theorem out_eq (N : Nat) (hN : 0 < N) (s : SsState α) (xs : List α) (h : Inv N s xs) :
    (ssCore N).out s = .ok (Spec.superSmoother N xs) := by
  obtain ⟨hi, h1, h2, hl, hf⟩ := h
  simp only [ssCore, ssOut, Spec.superSmoother, hi]
  by_cases hlt : xs.length < N
  · simp [hlt]; rfl
  · simp only [hlt, if_false, bind, Except.bind, assertFinite_exact, pure, Except.pure, hf, h1, smoothSeq_eq]
    by_cases h0 : xs = []
    · subst h0; simp at hlt; omega
    · have hlen := foldState_length (Spec.ssCoef (α := α) N) (nat 0) xs
      cases hfs : (foldState (Spec.ssCoef (α := α) N) (nat 0) xs).1 with
      | nil => rw [hfs] at hlen; simp at hlen; exact absurd (List.eq_nil_of_length_eq_zero hlen.symm) h0
      | cons f r => simp

/-- **SuperSmoother equals the batch re-evaluation of its difference equation** -/
theorem outAfter_eq (N : Nat) (hN : 0 < N) (xs : List α) :
    (ssCore (α := α) N).outAfter xs = .ok (Spec.superSmoother N xs) :=
  Core.outAfter_of_inv _ (Inv N) (Spec.superSmoother N) (run_ok N) (fun s xs h => out_eq N hN s xs h) xs
end SF.SS
