import SF.Lemmas.SuperSmoother
import Mathlib.Data.List.Induction
/- RoofingFilter: two-pole high-pass over the whole history, then SuperSmoother over hp(N+1), hp(N+2), … -/
namespace SF.Roof
open SF SF.Spec
set_option linter.unusedSectionVars false
set_option linter.unusedSimpArgs false
variable {α : Type} [Field α] [LinearOrder α] [IsStrictOrderedRing α] [FloatLike α] [ExactScalar α] [Transc α]

/-- the spec's fold state: (hp values newest first, x(t−1), x(t−2)) -/
def hpFold (N : Nat) (xs : List α) : List α × α × α :=
  let th : α := dec 44422 10000 / nat N
  let al := (Transc.cos th + Transc.sin th - nat 1) / Transc.cos th
  xs.foldl (fun (acc : List α × α × α) (x : α) =>
    let h1 := acc.1.headD (nat 0)
    let h2 := acc.1.tail.headD (nat 0)
    let x1 := acc.2.1
    let x2 := acc.2.2
    let h := sq (nat 1 - al / nat 2) * (x - nat 2 * x1 + x2) + nat 2 * (nat 1 - al) * h1 - sq (nat 1 - al) * h2
    (h :: acc.1, x, x1)) ([], nat 0, nat 0)

theorem hpSeq_eq (N : Nat) (xs : List α) : hpSeq N xs = (hpFold N xs).1 := rfl

/-- the high-pass value appended when x arrives -/
def hpNext (N : Nat) (st : List α × α × α) (x : α) : α :=
  let a1 : α := roofAlpha N
  sq (nat 1 - a1 / nat 2) * (x - nat 2 * st.2.1 + st.2.2) + nat 2 * (nat 1 - a1) * st.1.headD (nat 0)
    - sq (nat 1 - a1) * st.1.tail.headD (nat 0)

theorem hpFold_snoc (N : Nat) (xs : List α) (x : α) :
    hpFold N (xs ++ [x]) = (hpNext N (hpFold N xs) x :: (hpFold N xs).1, x, (hpFold N xs).2.1) := by
  simp only [hpFold, List.foldl_append, List.foldl_cons, List.foldl_nil, hpNext, roofAlpha]

theorem hpFold_length (N : Nat) (xs : List α) : (hpFold N xs).1.length = xs.length := by
  induction xs using List.reverseRecOn with
  | nil => simp [hpFold]
  | append_singleton xs x ih => rw [hpFold_snoc]; simp [ih]

/-- the values handed to the embedded SuperSmoother so far (oldest first) -/
def fed (N : Nat) (xs : List α) : List α := (hpFold N xs).1.reverse.drop (N + 1)

theorem fed_snoc (N : Nat) (xs : List α) (x : α) :
    fed N (xs ++ [x]) = if N < xs.length then fed N xs ++ [hpNext N (hpFold N xs) x] else [] := by
  simp only [fed, hpFold_snoc, List.reverse_cons]
  have hl := hpFold_length N xs
  by_cases h : N < xs.length
  · rw [if_pos h, List.drop_append_of_le_length (by simp [hl]; omega)]
  · rw [if_neg h]
    apply List.drop_eq_nil_of_le
    simp [hl]; omega

theorem fed_nil_of_le (N : Nat) (xs : List α) (h : xs.length ≤ N + 1) : fed N xs = [] := by
  apply List.drop_eq_nil_of_le
  simp [hpFold_length]; exact h

structure Inv (N M' : Nat) (s : RoofState α) (xs : List α) : Prop where
  hi : s.i = xs.length
  hhp1 : s.hp1 = (hpFold N xs).1.headD (nat 0)
  hhp2 : s.hp2 = (hpFold N xs).1.tail.headD (nat 0)
  hv1 : s.val1 = (hpFold N xs).2.1
  hv2 : s.val2 = (hpFold N xs).2.2
  hss : SS.Inv M' s.ss (fed N xs)

theorem step_ok (N M' : Nat) (s : RoofState α) (xs : List α) (x : α) (h : Inv N M' s xs) :
    ∃ s', (roofCoreU N M').step s x = .ok s' ∧ Inv N M' s' (xs ++ [x]) := by
  obtain ⟨hi, h1, h2, hv1, hv2, hss⟩ := h
  have hhp : (sq (nat 1 - roofAlpha (α := α) N / nat 2) * (x - nat 2 * s.val1 + s.val2) + nat 2 * (nat 1 - roofAlpha N) * s.hp1
      - sq (nat 1 - roofAlpha N) * s.hp2) = hpNext N (hpFold N xs) x := by
    simp only [hpNext, h1, h2, hv1, hv2]
  by_cases hN : N < xs.length
  · refine ⟨{ ss := ssStep (SF.ssCoef M') s.ss (hpNext N (hpFold N xs) x), i := s.i + 1, val1 := x, val2 := s.val1,
              hp1 := hpNext N (hpFold N xs) x, hp2 := s.hp1 }, ?_, ?_⟩
    · simp only [roofCoreU, hi, hN, if_true, hhp, assertFinite_exact, bind, Except.bind, pure, Except.pure]
    · refine ⟨by simp [hi], ?_, ?_, ?_, ?_, ?_⟩
      · rw [hpFold_snoc]; simp
      · rw [hpFold_snoc]; simp [h1]
      · rw [hpFold_snoc]
      · rw [hpFold_snoc]; simp [hv1]
      · rw [fed_snoc, if_pos hN]; exact SS.step_inv M' s.ss _ _ hss
  · refine ⟨{ ss := s.ss, i := s.i + 1, val1 := x, val2 := s.val1, hp1 := hpNext N (hpFold N xs) x, hp2 := s.hp1 }, ?_, ?_⟩
    · simp only [roofCoreU, hi, hN, if_false, hhp, bind, Except.bind, pure, Except.pure]
    · refine ⟨by simp [hi], ?_, ?_, ?_, ?_, ?_⟩
      · rw [hpFold_snoc]; simp
      · rw [hpFold_snoc]; simp [h1]
      · rw [hpFold_snoc]
      · rw [hpFold_snoc]; simp [hv1]
      · rw [fed_snoc, if_neg hN]
        have : fed N xs = [] := fed_nil_of_le N xs (by omega)
        rw [this] at hss; exact hss

/-- **RoofingFilter(N, M) = SuperSmoother(M) over the (cos+sin−1)/cos two-pole high-pass values hp(N+1), hp(N+2), …** -/
theorem outAfter_eq (N M' : Nat) (hM : 0 < M') (xs : List α) :
    (roofCoreU (α := α) N M').outAfter xs = .ok (Spec.roofing N M' xs) :=
  Core.outAfter_of_inv _ (Inv N M') (Spec.roofing N M')
    (Core.run_invariant_init (roofCoreU N M') (Inv N M')
      ⟨rfl, by simp [roofCoreU, hpFold], by simp [roofCoreU, hpFold], by simp [roofCoreU, hpFold], by simp [roofCoreU, hpFold],
        by simpa [roofCoreU, fed, hpFold] using SS.init_inv (α := α) M'⟩
      (fun s pre x h => step_ok N M' s pre x h))
    (fun s xs h => by
      have := SS.out_eq M' hM s.ss (fed N xs) h.hss
      simp only [ssCore] at this
      simp only [roofCoreU, this, bind, Except.bind, Spec.roofing, hpSeq_eq, fed]
      cases Spec.superSmoother M' ((hpFold N xs).1.reverse.drop (N + 1)) <;> simp [pure, Except.pure]) xs

end SF.Roof
