import SF.Basic
import SF.Model.Pure
/-
  Generic facts about `run`, `trace`, `wrap`, `mapV`, `binop` — no algebra, any scalar type (so they hold of
  the `Float` instantiation too: "bit-identical" is meaningful).
-/
namespace SF
variable {α : Type}

/-- the scalar type's finiteness test accepts every element of the list -/
def AllFinite [FloatLike α] (xs : List α) : Prop := ∀ x ∈ xs, FloatLike.isFinite x = true

@[simp] theorem assertFinite_ok [FloatLike α] {x : α} (h : FloatLike.isFinite x = true) :
    assertFinite x = .ok () := by
  simp [assertFinite, h]; rfl

theorem AllFinite.head [FloatLike α] {x : α} {xs : List α} (h : AllFinite (x :: xs)) :
    FloatLike.isFinite x = true := h x (by simp)

theorem AllFinite.tail [FloatLike α] {x : α} {xs : List α} (h : AllFinite (x :: xs)) : AllFinite xs :=
  fun y hy => h y (by simp [hy])

section wrapLemmas
variable [FloatLike α] (A : View α) (B : Core α)

theorem wrap_last (s : A.σ × B.σ) : (wrap A B).last s = B.out s.2 := rfl

theorem wrap_upd_none {a a' : A.σ} {b : B.σ} {x : α} (hx : FloatLike.isFinite x = true)
    (hu : A.upd a x = .ok a') (hl : A.last a' = .ok none) :
    (wrap A B).upd (a, b) x = .ok (a', b) := by
  simp [wrap, assertFinite_ok hx, hu, hl, bind, Except.bind, pure, Except.pure]

theorem wrap_upd_some {a a' : A.σ} {b : B.σ} {x v : α} (hx : FloatLike.isFinite x = true)
    (hu : A.upd a x = .ok a') (hl : A.last a' = .ok (some v)) :
    (wrap A B).upd (a, b) x = (assertFinite v >>= fun _ => B.step b v) >>= fun b' => pure (a', b') := by
  simp only [wrap, assertFinite_ok hx, hu, hl, bind, Except.bind, pure, Except.pure]
  cases assertFinite v with
  | error e => rfl
  | ok u => cases B.step b v <;> rfl

theorem wrap_upd_err_upd {a : A.σ} {b : B.σ} {x : α} {e : Err} (hu : A.upd a x = .error e) :
    ∃ e', (wrap A B).upd (a, b) x = .error e' := by
  simp only [wrap, bind, Except.bind, hu]
  cases assertFinite x <;> simp

theorem wrap_upd_err_last {a a' : A.σ} {b : B.σ} {x : α} {e : Err} (hu : A.upd a x = .ok a')
    (hl : A.last a' = .error e) : ∃ e', (wrap A B).upd (a, b) x = .error e' := by
  simp only [wrap, bind, Except.bind, hu, hl]
  cases assertFinite x <;> simp

omit [FloatLike α] in
theorem trace_cons (V : View α) (s : V.σ) (x : α) (xs : List α) :
    V.trace s (x :: xs) = (V.upd s x >>= fun s' => V.last s' >>= fun o => V.trace s' xs >>= fun r => pure (o :: r)) := rfl

omit [FloatLike α] in
theorem run_cons (V : View α) (s : V.σ) (x : α) (xs : List α) :
    V.run s (x :: xs) = (V.upd s x >>= fun s' => V.run s' xs) := rfl
end wrapLemmas

/-- after any run of a chain, the inner component is the stand-alone inner view's state and the core component is
reachable by running the core alone on some list of values (the ones delivered) -/
theorem wrap_run_components [FloatLike α] (A : View α) (B : Core α) (a : A.σ) (b : B.σ) (xs : List α)
    (hx : AllFinite xs) (s : A.σ × B.σ) (h : (wrap A B).run (a, b) xs = .ok s) :
    A.run a xs = .ok s.1 ∧ ∃ ys, B.run b ys = .ok s.2 := by
  induction xs generalizing a b with
  | nil =>
    simp only [View.run, pure, Except.pure] at h ⊢; cases h
    exact ⟨rfl, [], rfl⟩
  | cons x xs ih =>
    have hxf := hx.head
    rw [run_cons] at h ⊢
    cases hu : A.upd a x with
    | error e =>
      obtain ⟨e', he⟩ := wrap_upd_err_upd A B (b := b) hu
      rw [he] at h; simp [bind, Except.bind] at h
    | ok a' =>
      cases hl : A.last a' with
      | error e =>
        obtain ⟨e', he⟩ := wrap_upd_err_last A B (b := b) hu hl
        rw [he] at h; simp [bind, Except.bind] at h
      | ok o =>
        cases o with
        | none =>
          rw [wrap_upd_none A B hxf hu hl] at h
          simp only [bind, Except.bind] at h ⊢
          exact ih a' b hx.tail h
        | some v =>
          rw [wrap_upd_some A B hxf hu hl] at h
          simp only [bind, Except.bind] at h ⊢
          cases hv : assertFinite v with
          | error e => simp [hv] at h
          | ok u2 =>
            cases hs : B.step b v with
            | error e => simp [hv, hs] at h
            | ok b' =>
              simp only [hv, hs, pure, Except.pure] at h
              obtain ⟨h1, ys, h2⟩ := ih a' b' hx.tail h
              exact ⟨h1, v :: ys, by simp [Core.run, hs, bind, Except.bind, h2]⟩

namespace Core
/-- feed a core the outputs delivered by an inner view: at a step where the inner view had an output the core
is stepped with it (after the finiteness assertion of the wrapper's head), otherwise it is left alone; the
core's answer is read after every step.  This is "B over Echo, updated only when A has an output". -/
def feed [FloatLike α] (B : Core α) (b : B.σ) : List (Option α) → M (List (Option α))
  | [] => pure []
  | none :: os => do
    let o ← B.out b
    let rest ← feed B b os
    pure (o :: rest)
  | some v :: os => do
    assertFinite v
    let b' ← B.step b v
    let o ← B.out b'
    let rest ← feed B b' os
    pure (o :: rest)

theorem run_append (B : Core α) (s : B.σ) (xs ys : List α) :
    B.run s (xs ++ ys) = (B.run s xs) >>= fun s' => B.run s' ys := by
  induction xs generalizing s with
  | nil => simp [run]
  | cons x xs ih =>
    simp only [List.cons_append, run]
    cases h : B.step s x with
    | error e => simp [bind, Except.bind]
    | ok s' => simp [bind, Except.bind, ih]
end Core

namespace View
theorem run_append (V : View α) (s : V.σ) (xs ys : List α) :
    V.run s (xs ++ ys) = (V.run s xs) >>= fun s' => V.run s' ys := by
  induction xs generalizing s with
  | nil => simp [run]
  | cons x xs ih =>
    simp only [List.cons_append, run]
    cases h : V.upd s x with
    | error e => simp [bind, Except.bind]
    | ok s' => simp [bind, Except.bind, ih]
end View

end SF
