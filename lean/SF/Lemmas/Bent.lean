import SF.Lemmas.Cog
/- BinaryEntropy: `p` counts the non-negative values among exactly the last N; output = Shannon entropy of p/n. -/
namespace SF.Bent
open SF SF.Spec
set_option linter.unusedSectionVars false
set_option linter.unusedSimpArgs false
variable {α : Type} [Field α] [LinearOrder α] [IsStrictOrderedRing α] [FloatLike α] [ExactScalar α] [Transc α]

def cnt (l : List α) : Nat := (l.filter fun x => nat 0 ≤ x).length

theorem cnt_cons (x : α) (l : List α) : cnt (x :: l) = cnt l + (if (0 : α) ≤ x then 1 else 0) := by
  simp only [cnt, List.filter_cons, nat_eq, Nat.cast_zero]
  by_cases h : (0 : α) ≤ x <;> simp [h]

theorem cnt_append (l r : List α) : cnt (l ++ r) = cnt l + cnt r := by simp [cnt]
theorem cnt_reverse (l : List α) : cnt l.reverse = cnt l := by simp [cnt, List.filter_reverse]

def Inv (N : Nat) (s : BentState α) (xs : List α) : Prop :=
  s.q = (lastN N xs).reverse ∧ s.p = cnt (lastN N xs)

theorem step_ok (N : Nat) (hN : 0 < N) (s : BentState α) (xs : List α) (x : α) (h : Inv N s xs) :
    ∃ s', (bentCore N).step s x = .ok s' ∧ Inv N s' (xs ++ [x]) := by
  obtain ⟨hq, hp⟩ := h
  have hpush := Cog.lastN_push N hN xs x
  have hlen : s.q.length = (lastN N xs).length := by rw [hq]; simp
  by_cases hfull : N ≤ s.q.length
  · rw [if_pos (by rw [← hlen]; exact hfull)] at hpush
    cases hw : lastN N xs with
    | nil => rw [hw] at hlen; simp only [List.length_nil] at hlen; rw [hlen] at hfull; omega
    | cons old rest =>
      rw [hw] at hq hp hpush
      simp only [List.tail_cons] at hpush
      have hback : back s.q = .ok old := by
        rw [hq]; simp [back, List.getLast?_eq_getLast_of_ne_nil]; rfl
      have hdrop : s.q.dropLast = rest.reverse := by rw [hq]; simp
      rw [cnt_cons] at hp
      by_cases hold : (0 : α) ≤ old
      · have hp1 : 1 ≤ s.p := by rw [hp]; simp [hold]
        refine ⟨{ q := x :: rest.reverse, p := (if (0 : α) ≤ x then s.p - 1 + 1 else s.p - 1) }, ?_, ?_, ?_⟩
        · simp only [bentCore, hfull, if_true, hback, hdrop, bind, Except.bind, pure, Except.pure, nat_eq, Nat.cast_zero,
            hold, usub, hp1]
        · show x :: rest.reverse = (lastN N (xs ++ [x])).reverse
          rw [← hpush]; simp
        · show (if (0 : α) ≤ x then s.p - 1 + 1 else s.p - 1) = cnt (lastN N (xs ++ [x]))
          rw [← hpush, cnt_append, hp]; simp [hold, cnt]
          by_cases hx : (0 : α) ≤ x <;> simp [hx]
      · refine ⟨{ q := x :: rest.reverse, p := (if (0 : α) ≤ x then s.p + 1 else s.p) }, ?_, ?_, ?_⟩
        · simp only [bentCore, hfull, if_true, hback, hdrop, bind, Except.bind, pure, Except.pure, nat_eq, Nat.cast_zero,
            hold, if_false]
        · show x :: rest.reverse = (lastN N (xs ++ [x])).reverse
          rw [← hpush]; simp
        · show (if (0 : α) ≤ x then s.p + 1 else s.p) = cnt (lastN N (xs ++ [x]))
          rw [← hpush, cnt_append, hp]; simp [hold, cnt]
          by_cases hx : (0 : α) ≤ x <;> simp [hx]
  · rw [if_neg (by rw [← hlen]; exact hfull)] at hpush
    refine ⟨{ q := x :: s.q, p := (if (0 : α) ≤ x then s.p + 1 else s.p) }, ?_, ?_, ?_⟩
    · simp only [bentCore, hfull, if_false, bind, Except.bind, pure, Except.pure, nat_eq, Nat.cast_zero]
    · show x :: s.q = (lastN N (xs ++ [x])).reverse
      rw [← hpush, hq]; simp
    · show (if (0 : α) ≤ x then s.p + 1 else s.p) = cnt (lastN N (xs ++ [x]))
      rw [← hpush, cnt_append, hp]; simp [cnt]
      by_cases hx : (0 : α) ≤ x <;> simp [hx]

theorem out_eq (N : Nat) (s : BentState α) (xs : List α) (h : Inv N s xs) :
    (bentCore N).out s = .ok (Spec.entropy N xs) := by
  obtain ⟨hq, hp⟩ := h
  have hlen : s.q.length = (lastN N xs).length := by rw [hq]; simp
  simp only [bentCore, Spec.entropy]
  by_cases he : lastN N xs = []
  · have : s.q = [] := by rw [hq, he]; rfl
    simp [this, he]; rfl
  · have hqe : s.q.isEmpty = false := by
      cases hs : s.q with
      | nil => rw [hs] at hlen; simp at hlen; exact absurd (List.eq_nil_of_length_eq_zero hlen.symm) he
      | cons a l => rfl
    have hwe : (lastN N xs).isEmpty = false := by
      cases hw : lastN N xs with
      | nil => exact absurd hw he
      | cons a l => rfl
    simp only [hqe, hwe, Bool.false_eq_true, if_false, ExactScalar.notNaN, hlen, hp, cnt, pure, Except.pure]
    congr 2
    set p : α := nat (List.filter (fun x => decide (nat 0 ≤ x)) (lastN N xs)).length / nat (lastN N xs).length
    have h1 : (if p == nat 0 then nat 0 else p * Transc.log2 p) = p * Transc.log2 p := by
      by_cases hz : p = 0
      · simp [hz]
      · simp [hz]
    have h2 : (if nat 1 - p == nat 0 then nat 0 else (nat 1 - p) * Transc.log2 (nat 1 - p)) = (nat 1 - p) * Transc.log2 (nat 1 - p) := by
      by_cases hz : nat 1 - p = 0
      · rw [hz]; simp
      · have : (nat 1 - p == nat 0) = false := by simpa using hz
        simp only [this, Bool.false_eq_true, if_false]
    rw [h1, h2]

/-- **BinaryEntropy = Shannon entropy in bits of the fraction of non-negative values among the last N** (0·log 0 = 0) -/
theorem outAfter_eq (N : Nat) (hN : 0 < N) (xs : List α) :
    (bentCore (α := α) N).outAfter xs = .ok (Spec.entropy N xs) :=
  Core.outAfter_of_inv _ (Inv N) (Spec.entropy N)
    (Core.run_invariant_init (bentCore N) (Inv N) (by simp [Inv, bentCore, cnt]) (fun s pre x h => step_ok N hN s pre x h))
    (out_eq N) xs
end SF.Bent
