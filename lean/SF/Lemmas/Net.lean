import SF.Lemmas.Cog
/- NoiseEliminationTechnology: the (1-based, EasyLanguage-style) double loop visits every one of the n(n−1)/2 pairs of the
   window exactly once and moves the numerator by sgn0(newer − older): the numerator is Kendall's. -/
namespace SF.Net
open SF SF.Spec
set_option linter.unusedSectionVars false
set_option linter.unusedSimpArgs false
variable {α : Type} [Field α] [LinearOrder α] [IsStrictOrderedRing α] [FloatLike α] [ExactScalar α]

/-- the body of the inner loop -/
def inner (q : List α) (count : Nat) (num : α) (k : Nat) : M α := do
  let xc ← getIdx q (q.length - count)
  let xk ← getIdx q (q.length - k)
  let diff := xc - xk
  pure (if nat 0 < diff then num - nat 1 else if diff < nat 0 then num + nat 1 else num)

theorem netNum_def (q : List α) :
    netNum q = forRange 2 (q.length + 1) (nat 0 : α) (fun num count => forRange 1 count num (inner q count)) := rfl

theorem step_val (a b num : α) :
    (if nat 0 < a - b then num - nat 1 else if a - b < nat 0 then num + nat 1 else num) = num + sgn0 (b - a) := by
  simp only [sgn0, nat_eq, Nat.cast_zero, Nat.cast_one]
  rcases lt_trichotomy a b with h | h | h
  · have h1 : ¬ 0 < a - b := by linarith
    have h2 : a - b < 0 := by linarith
    have h3 : 0 < b - a := by linarith
    simp [h1, h2, h3]
  · subst h; simp
  · have h1 : 0 < a - b := by linarith
    have h3 : ¬ 0 < b - a := by linarith
    have h4 : b - a < 0 := by linarith
    simp [h1, h3, h4]; ring

theorem getIdx_cons_succ (x : α) (r : List α) (n : Nat) : getIdx (x :: r) (n + 1) = getIdx r n := by
  simp [getIdx]

theorem foldlM_congr {β : Type} (l : List Nat) (f g : β → Nat → M β) (h : ∀ b, ∀ i ∈ l, f b i = g b i) (b : β) :
    l.foldlM f b = l.foldlM g b := by
  induction l generalizing b with
  | nil => rfl
  | cons i l ih =>
    simp only [List.foldlM_cons, h b i (by simp)]
    cases g b i with
    | error e => rfl
    | ok b' => exact ih (fun b j hj => h b j (by simp [hj])) b'

/-- inner loop against the oldest value `x` of `x :: rest`: adds sgn0(y − x) for the `m` newest values y of `rest` -/
theorem inner_last (x : α) (rest : List α) (m : Nat) (hm : m ≤ rest.length) (num : α) :
    (List.range' 1 m).foldlM (inner (x :: rest) (rest.length + 1)) num
      = .ok (num + sumL ((rest.drop (rest.length - m)).map fun y => sgn0 (y - x))) := by
  induction m generalizing num with
  | zero => simp [pure, Except.pure]
  | succ m ih =>
    have hm' : m ≤ rest.length := by omega
    have hi : rest.length - (m + 1) < rest.length := by omega
    rw [List.range'_concat, List.foldlM_append, ih hm', Nat.one_mul]
    have hidx : (x :: rest).length - (1 + m) = (rest.length - (m + 1)) + 1 := by simp; omega
    have hxk : getIdx (x :: rest) ((x :: rest).length - (1 + m)) = .ok rest[rest.length - (m + 1)] := by
      rw [hidx, getIdx_cons_succ]; simp [getIdx, List.getElem?_eq_getElem hi]; rfl
    have hxc : getIdx (x :: rest) ((x :: rest).length - (rest.length + 1)) = .ok x := by simp [getIdx]; rfl
    simp only [bind, Except.bind, List.foldlM_cons, List.foldlM_nil, inner, hxk, hxc, pure, Except.pure, step_val]
    congr 1
    have hd : rest.drop (rest.length - (m + 1)) = rest[rest.length - (m + 1)] :: rest.drop (rest.length - m) := by
      rw [List.drop_eq_getElem_cons hi]; congr 2; omega
    rw [hd]; simp only [List.map_cons, sumL_cons]; ring

/-- inner loop for a count that does not reach the oldest value: the same loop on the tail -/
theorem inner_tail (x : α) (rest : List α) (count : Nat) (hc : count ≤ rest.length) (num : α) :
    (List.range' 1 (count - 1)).foldlM (inner (x :: rest) count) num
      = (List.range' 1 (count - 1)).foldlM (inner rest count) num := by
  apply foldlM_congr
  intro b k hk
  have hk' := List.mem_range'_1.mp hk
  have e1 : (x :: rest).length - count = (rest.length - count) + 1 := by simp; omega
  have e2 : (x :: rest).length - k = (rest.length - k) + 1 := by simp; omega
  simp only [inner, e1, e2, getIdx_cons_succ]

theorem kendall_cons (x : α) (rest : List α) :
    kendallNum (x :: rest) = sumL (rest.map fun y => sgn0 (y - x)) + kendallNum rest := rfl

/-- **the double loop computes Kendall's numerator Σ_{i<j} sgn0(w_j − w_i) over all pairs** -/
theorem netNum_eq (q : List α) : netNum q = .ok (kendallNum q) := by
  induction q with
  | nil => simp [netNum_def, forRange, kendallNum, pure, Except.pure]
  | cons x rest ih =>
    rw [netNum_def] at ih ⊢
    simp only [forRange] at ih ⊢
    have hlen : (x :: rest).length + 1 - 2 = rest.length := by simp
    rw [hlen]
    by_cases h0 : rest = []
    · subst h0; simp [kendallNum, pure, Except.pure]
    · have hpos : 0 < rest.length := List.length_pos_of_ne_nil h0
      obtain ⟨n, hn⟩ : ∃ n, rest.length = n + 1 := ⟨rest.length - 1, by omega⟩
      rw [hn, List.range'_concat, List.foldlM_append, Nat.one_mul]
      -- the first n outer iterations only involve `rest`
      have hpre : (List.range' 2 n).foldlM (fun num count => (List.range' 1 (count - 1)).foldlM (inner (x :: rest) count) num) (nat 0 : α)
          = (List.range' 2 n).foldlM (fun num count => (List.range' 1 (count - 1)).foldlM (inner rest count) num) (nat 0 : α) := by
        apply foldlM_congr
        intro b c hc
        have hc' := List.mem_range'_1.mp hc
        exact inner_tail x rest c (by omega) b
      rw [hpre]
      have hrest : rest.length + 1 - 2 = n := by omega
      rw [hrest] at ih
      rw [ih]
      simp only [bind, Except.bind, List.foldlM_cons, List.foldlM_nil]
      have hlast : 2 + n - 1 = rest.length := by omega
      have hcount : 2 + n = rest.length + 1 := by omega
      rw [hlast, hcount, inner_last x rest rest.length (le_refl _)]
      simp only [Nat.sub_self, List.drop_zero, pure, Except.pure, kendall_cons]
      congr 1; ring

def Inv (N : Nat) (s : NetState α) (xs : List α) : Prop := s.q = lastN N xs ∧ s.out = Spec.net N xs

theorem step_ok (N : Nat) (hN : 0 < N) (s : NetState α) (xs : List α) (x : α) (h : Inv N s xs) :
    ∃ s', (netCore N).step s x = .ok s' ∧ Inv N s' (xs ++ [x]) := by
  obtain ⟨hq, hout⟩ := h
  have hq' : (if N ≤ s.q.length then s.q.tail else s.q) ++ [x] = lastN N (xs ++ [x]) := by
    rw [hq]; exact Cog.lastN_push N hN xs x
  set w := lastN N (xs ++ [x]) with hw
  by_cases h2 : w.length < 2
  · refine ⟨{ s with q := w }, by simp [netCore, hq', h2, pure, Except.pure], rfl, ?_⟩
    show s.out = Spec.net N (xs ++ [x])
    have hprev : (lastN N xs).length < 2 := by
      have h1 := lastN_length N (xs ++ [x]); rw [← hw] at h1
      have h3 := lastN_length N xs
      simp at h1; omega
    simp [hout, Spec.net, ← hw, h2, hprev]
  · have hn2 : 2 ≤ w.length := by omega
    refine ⟨{ out := some (kendallNum w / (dec 5 10 * (w.length : α) * ((w.length : α) - 1))), q := w }, ?_, rfl, ?_⟩
    · simp only [netCore, hq', h2, if_false, netNum_eq, bind, Except.bind, pure, Except.pure, assertFinite_exact, nat_eq,
        Nat.cast_one]
    · show some _ = Spec.net N (xs ++ [x])
      simp only [Spec.net, ← hw, h2, if_false, kendall, dec_eq, nat_eq, Option.some.injEq]
      congr 1
      have h1 : 1 ≤ w.length := by omega
      rw [Nat.cast_mul, Nat.cast_sub h1]; push_cast; ring

/-- **NoiseEliminationTechnology = Kendall's tau between values and time over all n(n−1)/2 pairs of the values currently in
its window, ties contributing 0** (reported from the second value on) -/
theorem outAfter_eq (N : Nat) (hN : 0 < N) (xs : List α) :
    (netCore (α := α) N).outAfter xs = .ok (Spec.net N xs) :=
  Core.outAfter_of_inv _ (Inv N) (Spec.net N)
    (Core.run_invariant_init (netCore N) (Inv N) (by simp [Inv, netCore, Spec.net]) (fun s pre x h => step_ok N hN s pre x h))
    (fun s xs h => by simp [netCore, h.2, pure, Except.pure]) xs

end SF.Net
