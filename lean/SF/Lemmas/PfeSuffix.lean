import SF.Lemmas.Pfe
import SF.Lemmas.Sma
/-
  PolarizedFractalEfficiency over an M-window moving average forgets everything older than N + M − 1 values:
  the last M ratios are exactly the ratios of the last N + M − 1 values.
-/
namespace SF.PfeSuffix
open SF SF.Spec SF.Pfe
set_option linter.unusedSectionVars false
set_option linter.unusedSimpArgs false
variable {α : Type} [Field α] [LinearOrder α] [IsStrictOrderedRing α] [FloatLike α] [ExactScalar α] [Transc α]

/-- the ratio sequence, indexed: entry j is the ratio at time j + N − 1 -/
theorem ratios_range (N : Nat) (hN : 1 ≤ N) (xs : List α) :
    pfeRatios N xs = (List.range (xs.length + 1 - N)).map fun j => ratioAt N xs (j + (N - 1)) := by
  induction xs using List.reverseRecOn with
  | nil =>
    have : 1 - N = 0 := by omega
    simp [pfeRatios_def, this]
  | append_singleton xs x ih =>
    rw [pfeRatios_snoc N hN, ih]
    by_cases hlt : xs.length + 1 < N
    · rw [if_pos hlt]
      have e1 : xs.length + 1 - N = 0 := by omega
      have e2 : (xs ++ [x]).length + 1 - N = 0 := by simp; omega
      rw [e1, e2]; simp
    · rw [if_neg hlt]
      have e2 : (xs ++ [x]).length + 1 - N = (xs.length + 1 - N) + 1 := by simp; omega
      rw [e2, List.range_succ, List.map_append]
      congr 1
      · apply List.map_congr_left
        intro j hj
        rw [List.mem_range] at hj
        rw [ratioAt_prefix N hN xs x _ (by omega)]
      · simp only [List.map_cons, List.map_nil]
        congr 2; omega

theorem ratios_length (N : Nat) (hN : 1 ≤ N) (xs : List α) : (pfeRatios N xs).length = xs.length + 1 - N := by
  rw [ratios_range N hN]; simp

/-- a ratio only reads the N values ending at its time: dropping an older prefix does not change it -/
theorem ratioAt_drop (N : Nat) (hN : 2 ≤ N) (xs : List α) (d t : Nat) (h : d + N ≤ t + 1) :
    ratioAt N xs t = ratioAt N (xs.drop d) (t - d) := by
  have e : ∀ i, d ≤ i → xs[i]? = (xs.drop d)[i - d]? := by
    intro i hi; rw [List.getElem?_drop]; congr 1; omega
  have hd : ((List.range (N - 2)).map fun i => Transc.sqrt (sq (xs[t - i]?.getD (nat 0) - xs[t - i - 1]?.getD (nat 0)) + nat 1))
      = (List.range (N - 2)).map fun i =>
          Transc.sqrt (sq ((xs.drop d)[t - d - i]?.getD (nat 0) - (xs.drop d)[t - d - i - 1]?.getD (nat 0)) + nat 1) := by
    apply List.map_congr_left
    intro i hi
    rw [List.mem_range] at hi
    rw [e (t - i) (by omega), e (t - i - 1) (by omega)]
    rw [show t - i - d = t - d - i by omega, show t - i - 1 - d = t - d - i - 1 by omega]
  simp only [ratioAt]
  rw [e t (by omega), e (t - 1) (by omega), e (t + 1 - N) (by omega), hd]
  rw [show t - 1 - d = t - d - 1 by omega, show t + 1 - N - d = t - d + 1 - N by omega]

/-- the last M ratios are the ratios of the last N + M − 1 values -/
theorem lastN_ratios (N M' : Nat) (hN : 2 ≤ N) (hM : 1 ≤ M') (xs : List α) (hK : N + M' - 1 ≤ xs.length) :
    lastN M' (pfeRatios N xs) = pfeRatios N (lastN (N + M' - 1) xs) := by
  have hl1 : (lastN (N + M' - 1) xs).length = N + M' - 1 := by rw [lastN_length]; omega
  apply List.ext_getElem?
  intro j
  simp only [lastN, ratios_length N (by omega), List.getElem?_drop]
  rw [ratios_range N (by omega), ratios_range N (by omega)]
  simp only [List.getElem?_map, List.length_drop]
  have hlen : xs.length - (xs.length - (N + M' - 1)) + 1 - N = M' := by omega
  rw [hlen]
  by_cases hj : j < M'
  · rw [List.getElem?_range (by omega), List.getElem?_range hj]
    simp only [Option.map_some]
    congr 1
    rw [ratioAt_drop N hN xs (xs.length - (N + M' - 1)) _ (by omega)]
    congr 1; omega
  · rw [List.getElem?_eq_none (by simp; omega), List.getElem?_eq_none (by simp; omega)]
    rfl

/-- **PFE over an M-window simple moving average is a function of the last N + M − 1 values** -/
theorem pfe_sma_suffix (N M' : Nat) (hN : 3 ≤ N) (hM : 1 ≤ M') (xs ys : List α)
    (hx : N + M' - 1 ≤ xs.length) (hy : N + M' - 1 ≤ ys.length) (h : lastN (N + M' - 1) xs = lastN (N + M' - 1) ys) :
    Spec.pfe N (Spec.sma M') xs = Spec.pfe N (Spec.sma M') ys := by
  have lx := ratios_length N (by omega) xs
  have ly := ratios_length N (by omega) ys
  have nx : (pfeRatios N xs).isEmpty = false := by
    cases hh : pfeRatios N xs with
    | nil => rw [hh] at lx; simp at lx; omega
    | cons a r => rfl
  have ny : (pfeRatios N ys).isEmpty = false := by
    cases hh : pfeRatios N ys with
    | nil => rw [hh] at ly; simp at ly; omega
    | cons a r => rfl
  simp only [Spec.pfe, nx, ny, Bool.false_eq_true, if_false, Spec.sma, lx, ly]
  rw [if_neg (by omega), if_neg (by omega)]
  rw [lastN_ratios N M' (by omega) hM xs hx, lastN_ratios N M' (by omega) hM ys hy, h]

end SF.PfeSuffix
