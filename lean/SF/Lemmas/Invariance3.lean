import SF.Lemmas.Invariance2
import SF.Lemmas.Roc
import SF.Lemmas.LagRsi
import SF.Lemmas.Eft
import SF.Lemmas.Flex
import SF.Lemmas.Linear
/-
  Invariance, part 3: Roc and LaguerreRSI under x ↦ a·x (a > 0); the Fisher transform under x ↦ a·x + b (a > 0);
  TrendFlex / ReFlex under x ↦ a·x (a > 0) and x ↦ −x.
-/
namespace SF.Inv3
open SF SF.Spec
set_option linter.unusedSectionVars false
set_option linter.unusedSimpArgs false

section field
variable {α : Type} [Field α] [LinearOrder α] [IsStrictOrderedRing α] [FloatLike α] [ExactScalar α] [Transc α]

/-! ### Roc -/
theorem roc_fold_scale (N : Nat) (a : α) (ha : a ≠ 0) (x0 : α) (xs : List α) (acc : Option α × List α) :
    (xs.map fun x => a * x).foldl (Roc.stepR N (a * x0)) (acc.1, acc.2.map fun x => a * x)
      = ((xs.foldl (Roc.stepR N x0) acc).1, (xs.foldl (Roc.stepR N x0) acc).2.map fun x => a * x) := by
  induction xs generalizing acc with
  | nil => rfl
  | cons x xs ih =>
    simp only [List.map_cons, List.foldl_cons]
    have hstep : Roc.stepR N (a * x0) (acc.1, acc.2.map fun x => a * x) (a * x)
        = ((Roc.stepR N x0 acc x).1, (Roc.stepR N x0 acc x).2.map fun x => a * x) := by
      simp only [Roc.stepR, List.length_append, List.length_map, List.length_singleton, List.map_append, List.map_cons, List.map_nil]
      have hb : (if N ≤ acc.2.length + 1 - 1 then ((acc.2.map fun x => a * x) ++ [a * x])[acc.2.length + 1 - 1 - N]?.getD (a * x0) else a * x0)
          = a * (if N ≤ acc.2.length + 1 - 1 then (acc.2 ++ [x])[acc.2.length + 1 - 1 - N]?.getD x0 else x0) := by
        split
        · have : ((acc.2.map fun x => a * x) ++ [a * x]) = (acc.2 ++ [x]).map fun x => a * x := by simp
          rw [this, List.getElem?_map]
          cases (acc.2 ++ [x])[acc.2.length + 1 - 1 - N]? <;> rfl
        · rfl
      rw [hb]
      set base := (if N ≤ acc.2.length + 1 - 1 then (acc.2 ++ [x])[acc.2.length + 1 - 1 - N]?.getD x0 else x0) with hbase
      by_cases h0 : base = 0
      · simp [h0]
      · have : a * base ≠ 0 := mul_ne_zero ha h0
        simp only [nat_eq, Nat.cast_zero, beq_iff_eq, h0, this, if_false, Nat.cast_ofNat]
        congr 2
        field_simp
    rw [hstep]
    exact ih _

/-- **Roc is invariant under x ↦ a·x (a ≠ 0)**, held values included -/
theorem roc_scale (N : Nat) (a : α) (ha : a ≠ 0) (xs : List α) : Spec.roc N (xs.map fun x => a * x) = Spec.roc N xs := by
  cases xs with
  | nil => rfl
  | cons x0 r =>
    rw [List.map_cons, Roc.roc_eq_fold, Roc.roc_eq_fold, ← List.map_cons]
    have := roc_fold_scale N a ha x0 (x0 :: r) (none, [])
    simp only [List.map_nil] at this
    rw [this]

/-! ### LaguerreRSI -/
theorem ladder_scale (g a : α) (s : α × α × α × α) (xs : List α) :
    lagLadder g (a * s.1, a * s.2.1, a * s.2.2.1, a * s.2.2.2) (xs.map fun x => a * x)
      = (a * (lagLadder g s xs).1, a * (lagLadder g s xs).2.1, a * (lagLadder g s xs).2.2.1, a * (lagLadder g s xs).2.2.2) := by
  induction xs generalizing s with
  | nil => rfl
  | cons x xs ih =>
    simp only [List.map_cons, lagLadder, List.foldl_cons]
    have := ih ((nat 1 - g) * x + g * s.1, -g * ((nat 1 - g) * x + g * s.1) + s.1 + g * s.2.1,
      -g * (-g * ((nat 1 - g) * x + g * s.1) + s.1 + g * s.2.1) + s.2.1 + g * s.2.2.1,
      -g * (-g * (-g * ((nat 1 - g) * x + g * s.1) + s.1 + g * s.2.1) + s.2.1 + g * s.2.2.1) + s.2.2.1 + g * s.2.2.2)
    simp only [lagLadder] at this
    convert this using 2
    simp only [nat_eq, Nat.cast_one, Prod.mk.injEq]
    refine ⟨by ring, by ring, by ring, by ring⟩

theorem cucd_scale (a : α) (ha : 0 < a) (x0 x1 x2 x3 : α) :
    LagRsi.cucd (a * x0) (a * x1) (a * x2) (a * x3) = (a * (LagRsi.cucd x0 x1 x2 x3).1, a * (LagRsi.cucd x0 x1 x2 x3).2) := by
  have hle : ∀ u v : α, (a * u ≤ a * v) ↔ (u ≤ v) := fun u v => mul_le_mul_iff_right₀ ha
  simp only [LagRsi.cucd, hle, nat_eq, Nat.cast_zero]
  refine Prod.ext ?_ ?_ <;> simp only []
  · split_ifs <;> ring
  · split_ifs <;> ring

theorem lagRsi_fold_scale (g a : α) (ha : 0 < a) (xs : List α) (acc : (α × α × α × α) × Option α) :
    (xs.map fun x => a * x).foldl (LagRsi.stepS g) ((a * acc.1.1, a * acc.1.2.1, a * acc.1.2.2.1, a * acc.1.2.2.2), acc.2)
      = ((a * (xs.foldl (LagRsi.stepS g) acc).1.1, a * (xs.foldl (LagRsi.stepS g) acc).1.2.1,
          a * (xs.foldl (LagRsi.stepS g) acc).1.2.2.1, a * (xs.foldl (LagRsi.stepS g) acc).1.2.2.2),
         (xs.foldl (LagRsi.stepS g) acc).2) := by
  induction xs generalizing acc with
  | nil => rfl
  | cons x xs ih =>
    simp only [List.map_cons, List.foldl_cons]
    have hl := ladder_scale g a acc.1 [x]
    simp only [List.map_cons, List.map_nil] at hl
    have hstep : LagRsi.stepS g ((a * acc.1.1, a * acc.1.2.1, a * acc.1.2.2.1, a * acc.1.2.2.2), acc.2) (a * x)
        = ((a * (LagRsi.stepS g acc x).1.1, a * (LagRsi.stepS g acc x).1.2.1, a * (LagRsi.stepS g acc x).1.2.2.1,
            a * (LagRsi.stepS g acc x).1.2.2.2), (LagRsi.stepS g acc x).2) := by
      unfold LagRsi.stepS
      simp only [hl]
      set s := lagLadder g acc.1 [x]
      have hc := cucd_scale a ha s.1 s.2.1 s.2.2.1 s.2.2.2
      simp only [LagRsi.cucd, Prod.mk.injEq] at hc
      obtain ⟨hcu, hcd⟩ := hc
      refine Prod.ext rfl ?_
      simp only []
      rw [hcu, hcd]
      set cu := (if s.2.1 ≤ s.1 then s.1 - s.2.1 else nat 0) + (if s.2.2.1 ≤ s.2.1 then s.2.1 - s.2.2.1 else nat 0)
        + (if s.2.2.2 ≤ s.2.2.1 then s.2.2.1 - s.2.2.2 else nat 0)
      set cd := (if s.2.1 ≤ s.1 then nat 0 else s.2.1 - s.1) + (if s.2.2.1 ≤ s.2.1 then nat 0 else s.2.2.1 - s.2.1)
        + (if s.2.2.2 ≤ s.2.2.1 then nat 0 else s.2.2.2 - s.2.2.1)
      by_cases hz : cu + cd = 0
      · have : a * cu + a * cd = 0 := by rw [← mul_add, hz, mul_zero]
        simp [hz, this]
      · have : a * cu + a * cd ≠ 0 := by rw [← mul_add]; exact mul_ne_zero ha.ne' hz
        simp only [nat_eq, Nat.cast_zero, beq_iff_eq, hz, this, if_false]
        congr 1
        rw [← mul_add]; field_simp
    rw [hstep]
    exact ih _

/-- **LaguerreRSI is invariant under x ↦ a·x, a > 0**, held values included -/
theorem laguerreRsi_scale (N : Nat) (a : α) (ha : 0 < a) (xs : List α) :
    Spec.laguerreRsi N (xs.map fun x => a * x) = Spec.laguerreRsi N xs := by
  rw [LagRsi.spec_eq, LagRsi.spec_eq, ← List.map_drop]
  have := lagRsi_fold_scale (nat 2 / (nat N + nat 1)) a ha (xs.drop 2) ((nat 0, nat 0, nat 0, nat 0), none)
  simp only [nat_eq, Nat.cast_zero, mul_zero] at this ⊢
  rw [this]

end field
end SF.Inv3
