import SF.Lemmas.Field
import SF.Model.Window
/- Sma: the incremental state is the batch statistic of exactly the last N values. -/
namespace SF.Sma
open SF SF.Spec
set_option linter.unusedSectionVars false
variable {α : Type} [Field α] [LinearOrder α] [IsStrictOrderedRing α] [FloatLike α] [ExactScalar α]

/-- state ↔ history: the deque is the window, the running sum is its sum -/
def Inv (N : Nat) (s : SmaState α) (xs : List α) : Prop :=
  s.q = lastN N xs ∧ s.sum = sumL s.q

theorem init_inv (N : Nat) : Inv N (smaCore (α := α) N).init [] := by
  simp [Inv, smaCore]

theorem step_ok (N : Nat) (hN : 0 < N) (s : SmaState α) (xs : List α) (x : α) (h : Inv N s xs) :
    ∃ s', (smaCore N).step s x = .ok s' ∧ Inv N s' (xs ++ [x]) := by
  obtain ⟨hq, hs⟩ := h
  by_cases hfull : N ≤ s.q.length
  · -- full window: evict the oldest
    cases hqe : s.q with
    | nil => rw [hqe] at hfull; simp at hfull; omega
    | cons old rest =>
      refine ⟨{ q := rest ++ [x], sum := s.sum - old + x }, ?_, ?_, ?_⟩
      · simp [smaCore, hqe, popFront, bind, Except.bind, pure, Except.pure]
        rw [hqe] at hfull; simpa using hfull
      · show rest ++ [x] = lastN N (xs ++ [x])
        rw [lastN_snoc_full N xs x hN (by rw [← hq]; exact hfull), ← hq, hqe]; rfl
      · show s.sum - old + x = sumL (rest ++ [x])
        rw [hs, hqe]; simp
  · refine ⟨{ q := s.q ++ [x], sum := s.sum + x }, ?_, ?_, ?_⟩
    · simp [smaCore, hfull, bind, Except.bind, pure, Except.pure]
    · show s.q ++ [x] = lastN N (xs ++ [x])
      rw [lastN_snoc_lt N xs x (by rw [← hq]; omega), ← hq]
    · show s.sum + x = sumL (s.q ++ [x])
      rw [hs]; simp

theorem out_eq (N : Nat) (s : SmaState α) (xs : List α) (h : Inv N s xs) :
    (smaCore N).out s = .ok (Spec.sma N xs) := by
  obtain ⟨hq, hs⟩ := h
  have hlen : s.q.length = min N xs.length := by rw [hq, lastN_length]
  simp only [smaCore, Spec.sma]
  by_cases hlt : xs.length < N
  · have : s.q.length < N := by omega
    simp [this, hlt]; rfl
  · have : ¬ s.q.length < N := by omega
    simp [this, hlt, bind, Except.bind, pure, Except.pure, hs, ← hq]

/-- every run succeeds (no panic) and ends in a state tied to the history -/
theorem run_ok (N : Nat) (hN : 0 < N) (xs : List α) :
    ∃ s, (smaCore (α := α) N).run (smaCore (α := α) N).init xs = .ok s ∧ Inv N s xs :=
  Core.run_invariant_init (smaCore N) (Inv N) (init_inv N) (fun s pre x h => step_ok N hN s pre x h) xs

/-- **characterisation**: for every window length and every history, the view reports the batch definition -/
theorem outAfter_eq (N : Nat) (hN : 0 < N) (xs : List α) :
    (smaCore (α := α) N).outAfter xs = .ok (Spec.sma N xs) :=
  Core.outAfter_of_inv _ (Inv N) (Spec.sma N) (run_ok N hN) (out_eq N) xs

theorem size_le (N : Nat) (hN : 0 < N) (xs : List α) (s : SmaState α)
    (h : (smaCore (α := α) N).run (smaCore (α := α) N).init xs = .ok s) : (smaCore (α := α) N).size s ≤ N := by
  obtain ⟨s', hs, hi⟩ := run_ok (α := α) N hN xs
  rw [h] at hs; cases hs
  show s.q.length ≤ N
  rw [hi.1]; exact lastN_length_le N xs

end SF.Sma
