import SF.Lemmas.Invariance2
/-
  CTI on an affine window: the Pearson correlation between the values a·k + b (k = 0 … n−1) and k is +1 for a > 0 and
  −1 for a < 0, for every window length n ≥ 2.  (On a monotone but non-affine window it is NOT ±1: see C06.K1.)
-/
namespace SF.CtiAffine
open SF SF.Spec SF.Inv2

noncomputable def ks (n : Nat) : List ℝ := (List.range n).map fun k => ((k : ℕ) : ℝ)

theorem sum_ks (n : Nat) : sumL (ks n) = (n : ℝ) * ((n : ℝ) - 1) / 2 := by
  induction n with
  | zero => simp [ks, sumL]
  | succ n ih =>
    simp only [ks] at ih ⊢
    rw [List.range_succ, List.map_append, sumL_append, ih]
    simp only [List.map_cons, List.map_nil, sumL_cons, sumL_nil, nat_eq, Nat.cast_zero, Nat.cast_succ]
    ring

theorem sum_ks_sq (n : Nat) : sumL ((ks n).map fun x => x * x) = ((n : ℝ) - 1) * (n : ℝ) * (2 * (n : ℝ) - 1) / 6 := by
  induction n with
  | zero => simp [ks, sumL]
  | succ n ih =>
    simp only [ks] at ih ⊢
    rw [List.range_succ, List.map_append, List.map_append, sumL_append, ih]
    simp only [List.map_cons, List.map_nil, sumL_cons, sumL_nil, nat_eq, Nat.cast_zero, Nat.cast_succ]
    ring

theorem zip_self (l : List ℝ) : sumL ((l.zip l).map fun (p : ℝ × ℝ) => p.1 * p.2) = sumL (l.map fun x => x * x) := by
  induction l with
  | nil => rfl
  | cons x r ih => simp only [List.zip_cons_cons, List.map_cons, sumL_cons, ih]

/-- the variance term of the time index is positive for n ≥ 2: n·Σk² − (Σk)² = n²(n²−1)/12 -/
theorem vy_pos (n : Nat) (hn : 2 ≤ n) :
    0 < (n : ℝ) * sumL ((ks n).map fun x => x * x) - sumL (ks n) * sumL (ks n) := by
  rw [sum_ks, sum_ks_sq]
  have h2 : (2 : ℝ) ≤ (n : ℝ) := by exact_mod_cast hn
  have e : (n : ℝ) * (((n : ℝ) - 1) * (n : ℝ) * (2 * (n : ℝ) - 1) / 6) - (n : ℝ) * ((n : ℝ) - 1) / 2 * ((n : ℝ) * ((n : ℝ) - 1) / 2)
      = (n : ℝ) * (n : ℝ) * ((n : ℝ) - 1) * ((n : ℝ) + 1) / 12 := by ring
  rw [e]
  have : 0 < (n : ℝ) * (n : ℝ) * ((n : ℝ) - 1) * ((n : ℝ) + 1) := by
    have h1 : 0 < (n : ℝ) := by linarith
    have h3 : 0 < (n : ℝ) - 1 := by linarith
    have h4 : 0 < (n : ℝ) + 1 := by linarith
    positivity
  linarith

/-- the index against itself: correlation 1 -/
theorem pearson_ks (n : Nat) (hn : 2 ≤ n) : pearsonIdx (ks n) = 1 := by
  rw [pearson_eq_pearF]
  have hl : (ks n).length = n := by simp [ks]
  rw [hl]
  show pearF (n : ℝ) (sumL (ks n)) (sumL (ks n)) (sumL ((ks n).map fun x => x * x)) (sumL ((ks n).map fun x => x * x))
      (sumL (((ks n).zip (ks n)).map fun (p : ℝ × ℝ) => p.1 * p.2)) = 1
  rw [zip_self]
  have hv := vy_pos n hn
  unfold pearF
  rw [if_pos ⟨hv, hv⟩, Real.sqrt_mul_self hv.le]
  exact div_self hv.ne'

/-- **an affine window a·k + b correlates perfectly with time**: +1 for a > 0, −1 for a < 0 -/
theorem pearson_affine_pos (n : Nat) (hn : 2 ≤ n) (a b : ℝ) (ha : 0 < a) :
    pearsonIdx ((ks n).map fun x => a * x + b) = 1 := by
  rw [pearson_affine a b ha, pearson_ks n hn]

theorem pearson_affine_neg (n : Nat) (hn : 2 ≤ n) (a b : ℝ) (ha : a < 0) :
    pearsonIdx ((ks n).map fun x => a * x + b) = -1 := by
  have e : ((ks n).map fun x => a * x + b) = ((ks n).map fun x => (-a) * x + (-b)).map fun x => -x := by
    rw [List.map_map]; apply List.map_congr_left; intro x _; simp only [Function.comp]; ring
  rw [e, pearson_neg, pearson_affine (-a) (-b) (by linarith), pearson_ks n hn]

/-- CTI after a history whose last N values are the affine ramp a·k + b -/
theorem cti_affine_window (N : Nat) (hN : 2 ≤ N) (a b : ℝ) (ha : a ≠ 0) (pre : List ℝ) :
    Spec.cti N (pre ++ (ks N).map fun x => a * x + b) = some (if 0 < a then 1 else -1) := by
  have hl : ((ks N).map fun x => a * x + b).length = N := by simp [ks]
  have hlast : lastN N (pre ++ (ks N).map fun x => a * x + b) = (ks N).map fun x => a * x + b := by
    simp only [lastN, List.length_append, hl]
    rw [show pre.length + N - N = pre.length by omega, List.drop_left']
    rfl
  simp only [Spec.cti, List.length_append, hl, hlast]
  rw [if_neg (by omega)]
  rcases lt_or_gt_of_ne ha with h | h
  · rw [pearson_affine_neg N hN a b h, if_neg (by linarith)]
  · rw [pearson_affine_pos N hN a b h, if_pos h]

end SF.CtiAffine
