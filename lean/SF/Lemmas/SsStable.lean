import SF.Lemmas.TwoPole
import SF.Lemmas.Linear
/- SuperSmoother and the TrendFlex/ReFlex smoother at ℝ: pole radius a1 = exp(−c/N) < 1 for every N ≥ 1, hence BIBO with a
   length-independent bound and geometric fading memory. -/
namespace SF.SsStable
open SF SF.Spec

noncomputable def ssA (N : Nat) : ℝ := Real.exp (-(1414 / 1000 : ℝ) * (3141592653589793 / 1000000000000000) / N)
noncomputable def flexA (N : Nat) : ℝ := Real.exp (-(888442402435 / 100000000000 : ℝ) / N)

theorem ssA_range (N : Nat) (hN : 0 < N) : 0 < ssA N ∧ ssA N < 1 := by
  have hNpos : (0 : ℝ) < N := by exact_mod_cast hN
  refine ⟨Real.exp_pos _, ?_⟩
  rw [ssA, Real.exp_lt_one_iff]
  apply div_neg_of_neg_of_pos _ hNpos
  norm_num

theorem flexA_range (N : Nat) (hN : 0 < N) : 0 < flexA N ∧ flexA N < 1 := by
  have hNpos : (0 : ℝ) < N := by exact_mod_cast hN
  refine ⟨Real.exp_pos _, ?_⟩
  rw [flexA, Real.exp_lt_one_iff]
  apply div_neg_of_neg_of_pos _ hNpos
  norm_num

theorem ssCoef_form (N : Nat) :
    (Spec.ssCoef (α := ℝ) N).b1 = 2 * ssA N * Real.cos (44422 / 10000 / N) ∧ (Spec.ssCoef (α := ℝ) N).c3 = -(ssA N * ssA N) := by
  simp [Spec.ssCoef, ssA]

theorem flexCoef_form (N : Nat) :
    (Spec.flexCoef (α := ℝ) N).b1 = 2 * flexA N * Real.cos (444221201218 / 100000000000 / N) ∧
    (Spec.flexCoef (α := ℝ) N).c3 = -(flexA N * flexA N) := by
  simp [Spec.flexCoef, flexA]

/-- **SuperSmoother: bounded input ⇒ bounded output, the bound independent of the stream length, for EVERY N ≥ 1** -/
theorem superSmoother_bibo (N : Nat) (hN : 0 < N) (B : ℝ) (xs : List ℝ) (hx : ∀ x ∈ xs, |x| ≤ B) (v : ℝ)
    (h : Spec.superSmoother N xs = some v) :
    |v| ≤ |(Spec.ssCoef (α := ℝ) N).c1| * B / (1 - ssA N) ^ 2 := by
  have hB : 0 ≤ B := by
    cases xs with
    | nil => simp [Spec.superSmoother] at h; omega
    | cons x r => exact le_trans (abs_nonneg _) (hx x (by simp))
  have ha := ssA_range N hN
  have hc := ssCoef_form N
  have := TwoPole.smoothSeq_bibo (Spec.ssCoef (α := ℝ) N) (ssA N) (44422 / 10000 / N) ha.1.le ha.2 hc.1 hc.2 B 0
    (by simpa using hB) xs hx
  simp only [Spec.superSmoother] at h
  split at h
  · simp at h
  · exact this v (List.mem_of_mem_head? (by simpa using h))

/-- the smoother inside TrendFlex / ReFlex (first-value initial condition) -/
theorem flex_smoother_bibo (N : Nat) (hN : 0 < N) (B : ℝ) (x0 : ℝ) (xs : List ℝ) (hx : ∀ x ∈ x0 :: xs, |x| ≤ B) :
    ∀ f ∈ smoothSeq (Spec.flexCoef (α := ℝ) N) x0 (x0 :: xs), |f| ≤ |(Spec.flexCoef (α := ℝ) N).c1| * B / (1 - flexA N) ^ 2 := by
  have ha := flexA_range N hN
  have hc := flexCoef_form N
  exact TwoPole.smoothSeq_bibo (Spec.flexCoef (α := ℝ) N) (flexA N) (444221201218 / 100000000000 / N) ha.1.le ha.2 hc.1 hc.2 B x0
    (hx x0 (by simp)) (x0 :: xs) hx

/-- **SuperSmoother: geometric fading memory.** Two histories of equal length that coincide on their last k+1 values:
the outputs differ by at most ρ^k·V₀ with ρ = (1 + a1)/2 < 1, V₀ the Lyapunov functional of the difference at the merge -/
theorem superSmoother_fading (N : Nat) (hN : 0 < N) (p1 p2 : List ℝ) (k : Nat) :
    let d := Linear.lin 1 (-1) p1 p2
    TwoPole.V (TwoPole.pole (ssA N) (44422 / 10000 / N)) (ssA N)
        (SS.foldState (Spec.ssCoef (α := ℝ) N) 0 (d ++ [0] ++ List.replicate k 0))
      ≤ ((1 + ssA N) / 2) ^ k *
        TwoPole.V (TwoPole.pole (ssA N) (44422 / 10000 / N)) (ssA N) (SS.foldState (Spec.ssCoef (α := ℝ) N) 0 (d ++ [0])) := by
  intro d
  have ha := ssA_range N hN
  have hc := ssCoef_form N
  exact TwoPole.zero_tail_decay _ (ssA N) _ ha.1.le ha.2 hc.1 hc.2 0 d k

/-- the difference of the two SuperSmoother runs IS the run on the difference stream (linearity), so the decay above is a
statement about |out(x) − out(y)| -/
theorem diff_is_run_on_diff (N : Nat) (xs ys : List ℝ) (h : xs.length = ys.length) :
    (SS.foldState (Spec.ssCoef (α := ℝ) N) 0 (Linear.lin 1 (-1) xs ys)).1 =
      Linear.lin 1 (-1) (SS.foldState (Spec.ssCoef (α := ℝ) N) 0 xs).1 (SS.foldState (Spec.ssCoef (α := ℝ) N) 0 ys).1 := by
  have := Linear.foldState_lin (Spec.ssCoef (α := ℝ) N) 1 (-1) 0 0 xs ys h
  simp only [mul_zero, add_zero] at this
  rw [this]

end SF.SsStable
