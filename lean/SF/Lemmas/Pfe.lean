import SF.Lemmas.Eft
import SF.Lemmas.Flex
/-
  PolarizedFractalEfficiency (N ≥ 3): from the N-th value on, the signed ratio of the straight-line length
  √((x(t) − x(t−N+1))² + N²) to the summed step lengths √(d² + 1) over the window's N−2 most recent steps (negative when the
  last step is down) is fed to the supplied moving average, whose answer is reported.
-/
namespace SF.Pfe
open SF SF.Spec
set_option linter.unusedSectionVars false
set_option linter.unusedSimpArgs false
variable {α : Type} [Field α] [LinearOrder α] [IsStrictOrderedRing α] [FloatLike α] [ExactScalar α] [Transc α]

/-- a counting loop whose body adds `h i` to the accumulator computes the sum of the `h i` -/
theorem foldlM_sum (k : Nat) (f : α → Nat → M α) (h : Nat → α) (hf : ∀ acc i, i < k → f acc i = .ok (acc + h i)) (a : α) :
    (List.range' 0 k).foldlM f a = .ok (a + sumL ((List.range k).map h)) := by
  induction k with
  | zero => simp [pure, Except.pure, sumL]
  | succ k ih =>
    rw [List.range'_concat, List.foldlM_append, ih (fun acc i hi => hf acc i (by omega)), Nat.one_mul, Nat.zero_add]
    simp only [bind, Except.bind, List.foldlM_cons, List.foldlM_nil, hf _ k (by omega), pure, Except.pure]
    rw [List.range_succ, List.map_append, sumL_append]
    simp only [List.map_cons, List.map_nil, sumL_cons, sumL_nil, nat_eq, Nat.cast_zero]
    congr 1; ring

/-- the signed ratio at time t (t ≥ N−1), read from the complete history -/
def ratioAt (N : Nat) (xs : List α) (t : Nat) : α :=
  let x := fun (i : Nat) => xs[i]?.getD (nat 0)
  let den := sumL ((List.range (N - 2)).map fun i => Transc.sqrt (sq (x (t - i) - x (t - i - 1)) + nat 1))
  let p := Transc.sqrt (sq (x t - x (t + 1 - N)) + sq (nat N)) / den
  if x t < x (t - 1) then -p else p

theorem pfeRatios_def (N : Nat) (xs : List α) :
    pfeRatios N xs = (List.range xs.length).filterMap fun t => if t + 1 < N then none else some (ratioAt N xs t) := rfl

theorem ratioAt_prefix (N : Nat) (hN : 1 ≤ N) (xs : List α) (x : α) (t : Nat) (ht : t < xs.length) :
    ratioAt N (xs ++ [x]) t = ratioAt N xs t := by
  have e : ∀ i, i ≤ t → (xs ++ [x])[i]? = xs[i]? := fun i hi => List.getElem?_append_left (by omega)
  have hd : ((List.range (N - 2)).map fun i =>
        Transc.sqrt (sq ((xs ++ [x])[t - i]?.getD (nat 0) - (xs ++ [x])[t - i - 1]?.getD (nat 0)) + nat 1))
      = (List.range (N - 2)).map fun i => Transc.sqrt (sq (xs[t - i]?.getD (nat 0) - xs[t - i - 1]?.getD (nat 0)) + nat 1) := by
    apply List.map_congr_left
    intro i _
    rw [e (t - i) (by omega), e (t - i - 1) (by omega)]
  simp only [ratioAt]
  rw [e t (le_refl _), e (t - 1) (by omega), e (t + 1 - N) (by omega), hd]

theorem pfeRatios_snoc (N : Nat) (hN : 1 ≤ N) (xs : List α) (x : α) :
    pfeRatios N (xs ++ [x]) = pfeRatios N xs ++ (if xs.length + 1 < N then [] else [ratioAt N (xs ++ [x]) xs.length]) := by
  rw [pfeRatios_def, pfeRatios_def]
  simp only [List.length_append, List.length_singleton, List.range_succ, List.filterMap_append, List.filterMap_cons,
    List.filterMap_nil]
  congr 1
  · apply List.filterMap_congr
    intro t ht
    rw [List.mem_range] at ht
    split
    · rfl
    · rw [ratioAt_prefix N hN xs x t ht]
  · by_cases hc : xs.length + 1 < N <;> simp [hc]

theorem lastN_getElem? (N : Nat) (xs : List α) (j : Nat) : (lastN N xs)[j]? = xs[xs.length - N + j]? := by
  simp only [lastN, List.getElem?_drop]

theorem getIdx_lastN (N : Nat) (xs : List α) (j : Nat) (hj : j < N) (hN : N ≤ xs.length) :
    getIdx (lastN N xs) j = .ok (xs[xs.length - N + j]?.getD (nat 0)) := by
  simp only [getIdx, lastN_getElem?]
  have : xs.length - N + j < xs.length := by omega
  simp [List.getElem?_eq_getElem this, pure, Except.pure]

/-- the loop over the window's N−2 most recent steps and the straight-line term give the spec's ratio -/
theorem ratio_ok (N : Nat) (hN : 3 ≤ N) (ys : List α) (hy : N ≤ ys.length) (v : α) (hv : ys.getLast? = some v) :
    (do
      let wl ← usub N 1
      let n2 ← usub N 2
      let sm ← forRange 0 n2 (nat 0 : α) (fun acc i => do
        let i0 ← usub wl i
        let i1 ← usub i0 1
        let v0 ← getIdx (lastN N ys) i0
        let v1 ← getIdx (lastN N ys) i1
        pure (acc + Transc.sqrt (sq (v0 - v1) + nat 1)))
      let fr ← front (lastN N ys)
      let p := Transc.sqrt (sq (v - fr) + sq (nat N : α)) / sm
      let prev ← getIdx (lastN N ys) n2
      pure (if v < prev then -p else p) : M α) = .ok (ratioAt N ys (ys.length - 1)) := by
  have hu1 : usub N 1 = .ok (N - 1) := by simp [usub, pure, Except.pure]; omega
  have hu2 : usub N 2 = .ok (N - 2) := by simp [usub, pure, Except.pure]; omega
  set t := ys.length - 1 with ht
  have hloop : forRange 0 (N - 2) (nat 0 : α) (fun acc i => do
        let i0 ← usub (N - 1) i
        let i1 ← usub i0 1
        let v0 ← getIdx (lastN N ys) i0
        let v1 ← getIdx (lastN N ys) i1
        pure (acc + Transc.sqrt (sq (v0 - v1) + nat 1)))
      = .ok (sumL ((List.range (N - 2)).map fun i =>
          Transc.sqrt (sq (ys[t - i]?.getD (nat 0) - ys[t - i - 1]?.getD (nat 0)) + nat 1))) := by
    simp only [forRange, Nat.sub_zero]
    rw [foldlM_sum (N - 2) _ (fun i => Transc.sqrt (sq (ys[t - i]?.getD (nat 0) - ys[t - i - 1]?.getD (nat 0)) + nat 1))]
    · simp [nat_eq]
    · intro acc i hi
      have h0 : usub (N - 1) i = .ok (N - 1 - i) := by simp [usub, pure, Except.pure]; omega
      have h1 : usub (N - 1 - i) 1 = .ok (N - 1 - i - 1) := by simp [usub, pure, Except.pure]; omega
      have g0 := getIdx_lastN N ys (N - 1 - i) (by omega) hy
      have g1 := getIdx_lastN N ys (N - 1 - i - 1) (by omega) hy
      have e0 : ys.length - N + (N - 1 - i) = t - i := by omega
      have e1 : ys.length - N + (N - 1 - i - 1) = t - i - 1 := by omega
      rw [e0] at g0; rw [e1] at g1
      simp only [h0, h1, g0, g1, bind, Except.bind, pure, Except.pure]
  have hfr : front (lastN N ys) = .ok (ys[t + 1 - N]?.getD (nat 0)) := by
    have g := getIdx_lastN N ys 0 (by omega) hy
    have e : ys.length - N + 0 = t + 1 - N := by omega
    rw [e] at g
    simp only [getIdx] at g
    cases hl : lastN N ys with
    | nil => rw [hl] at g; simp at g
    | cons a r => rw [hl] at g; simpa [front, pure, Except.pure] using g
  have hprev : getIdx (lastN N ys) (N - 2) = .ok (ys[t - 1]?.getD (nat 0)) := by
    have g := getIdx_lastN N ys (N - 2) (by omega) hy
    have e : ys.length - N + (N - 2) = t - 1 := by omega
    rwa [e] at g
  have hvt : ys[t]?.getD (nat 0) = v := by
    have : ys[t]? = ys.getLast? := by rw [List.getLast?_eq_getElem?]
    rw [this, hv]; rfl
  simp only [bind, Except.bind, pure, Except.pure] at hloop
  simp only [hu1, hu2, hloop, hfr, hprev, bind, Except.bind, pure, Except.pure, ratioAt, hvt, Nat.sub_zero]

/-! ### the invariant -/
structure Inv (N : Nat) (ma : View α) (maS : List α → Option α) (s : List α × ma.σ × Option α) (xs : List α) : Prop where
  hq : s.1 = lastN N xs
  hma : ma.run ma.init (pfeRatios N xs) = .ok s.2.1
  hout : s.2.2 = Spec.pfe N maS xs

theorem step_ok (N : Nat) (hN : 3 ≤ N) (ma : View α) (maS : List α → Option α) (hR : Eft.Realises ma maS)
    (s : List α × ma.σ × Option α) (xs : List α) (x : α) (h : Inv N ma maS s xs) :
    ∃ s', (pfeCoreU N ma).step s x = .ok s' ∧ Inv N ma maS s' (xs ++ [x]) := by
  obtain ⟨hq, hma, hout⟩ := h
  have hpush := Cog.lastN_push N (by omega) xs x
  rw [← hq] at hpush
  have hlen : (lastN N (xs ++ [x])).length = min N (xs.length + 1) := by rw [lastN_length]; simp
  by_cases hfull : N ≤ xs.length + 1
  · -- a ratio is produced
    have hlen' : N ≤ (lastN N (xs ++ [x])).length := by rw [hlen]; omega
    have hr := ratio_ok N hN (xs ++ [x]) (by simp; omega) x (by simp)
    simp only [List.length_append, List.length_singleton, Nat.add_sub_cancel] at hr
    obtain ⟨m', hu, hrun, hl⟩ := Eft.realises_upd ma maS hR (pfeRatios N xs) s.2.1 hma (ratioAt N (xs ++ [x]) xs.length)
    have hsn : pfeRatios N (xs ++ [x]) = pfeRatios N xs ++ [ratioAt N (xs ++ [x]) xs.length] := by
      rw [pfeRatios_snoc N (by omega)]; simp [show ¬ xs.length + 1 < N by omega]
    refine ⟨(lastN N (xs ++ [x]), m', maS (pfeRatios N (xs ++ [x]))), ?_, ⟨rfl, by rw [hsn]; exact hrun, ?_⟩⟩
    · simp only [pfeCoreU, hpush, hlen', if_true]
      simp only [bind, Except.bind] at hr ⊢
      revert hr
      cases usub N 1 with
      | error e => intro hr; simp at hr
      | ok wl =>
        simp only []
        cases usub N 2 with
        | error e => intro hr; simp at hr
        | ok n2 =>
          simp only []
          cases forRange 0 n2 (nat 0 : α) _ with
          | error e => intro hr; simp at hr
          | ok sm =>
            simp only []
            cases front (lastN N (xs ++ [x])) with
            | error e => intro hr; simp at hr
            | ok fr =>
              simp only []
              cases getIdx (lastN N (xs ++ [x])) n2 with
              | error e => intro hr; simp at hr
              | ok prev =>
                intro hr
                simp only [pure, Except.pure, Except.ok.injEq] at hr
                simp only [hr, hu, hl, hsn, pure, Except.pure]
    · simp only [Spec.pfe, hsn]; simp
  · have hlen' : ¬ N ≤ (lastN N (xs ++ [x])).length := by rw [hlen]; omega
    have hsn : pfeRatios N (xs ++ [x]) = pfeRatios N xs := by
      rw [pfeRatios_snoc N (by omega)]; simp [show xs.length + 1 < N by omega]
    refine ⟨(lastN N (xs ++ [x]), s.2.1, s.2.2), ?_, ⟨rfl, by rw [hsn]; exact hma, ?_⟩⟩
    · simp only [pfeCoreU, hpush, hlen', if_false, pure, Except.pure]
    · simp only [hout, Spec.pfe, hsn]

theorem init_inv (N : Nat) (ma : View α) (maS : List α → Option α) : Inv N ma maS (pfeCoreU N ma).init [] :=
  ⟨by simp [pfeCoreU], by simp [pfeCoreU, pfeRatios_def, View.run, pure, Except.pure], by simp [pfeCoreU, Spec.pfe, pfeRatios_def]⟩

theorem run_ok (N : Nat) (hN : 3 ≤ N) (ma : View α) (maS : List α → Option α) (hR : Eft.Realises ma maS) (xs : List α) :
    ∃ s, (pfeCoreU N ma).run (pfeCoreU N ma).init xs = .ok s ∧ Inv N ma maS s xs :=
  Core.run_invariant_init (pfeCoreU N ma) (Inv N ma maS) (init_inv N ma maS)
    (fun s pre x h => step_ok N hN ma maS hR s pre x h) xs

/-- **PolarizedFractalEfficiency equals the batch re-evaluation** for every N ≥ 3 (the constructor's minimum), every history
and every moving-average view that realises a batch function of what it was fed -/
theorem outAfter_eq (N : Nat) (hN : 3 ≤ N) (ma : View α) (maS : List α → Option α) (hR : Eft.Realises ma maS) (xs : List α) :
    (pfeCoreU N ma).outAfter xs = .ok (Spec.pfe N maS xs) :=
  Core.outAfter_of_inv _ (Inv N ma maS) (Spec.pfe N maS) (run_ok N hN ma maS hR)
    (fun s xs h => by
      simp only [pfeCoreU, h.hout]
      cases Spec.pfe N maS xs with
      | none => rfl
      | some v => simp [bind, Except.bind, pure, Except.pure]) xs

/-- the window deque never holds more than N values -/
theorem size_le (N : Nat) (hN : 3 ≤ N) (ma : View α) (maS : List α → Option α) (hR : Eft.Realises ma maS) (xs : List α)
    (s : List α × ma.σ × Option α) (h : (pfeCoreU N ma).run (pfeCoreU N ma).init xs = .ok s) : s.1.length ≤ N := by
  obtain ⟨s', hs, hi⟩ := run_ok N hN ma maS hR xs
  rw [h] at hs; cases hs
  rw [hi.hq]; exact lastN_length_le N xs

end SF.Pfe
