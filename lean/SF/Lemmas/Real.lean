import SF.Lemmas.Field
import Mathlib.Analysis.SpecialFunctions.Log.Base
import Mathlib.Analysis.SpecialFunctions.Trigonometric.Basic
import Mathlib.Analysis.SpecialFunctions.Trigonometric.DerivHyp
import Mathlib.Analysis.SpecialFunctions.Sqrt
/- The model at ℝ: `Transc` is interpreted by the real functions. -/
namespace SF
noncomputable instance : Transc ℝ where
  sqrt := Real.sqrt
  exp := Real.exp
  ln := Real.log
  log2 := Real.logb 2
  cos := Real.cos
  sin := Real.sin
  tanh := Real.tanh

/-- `T::min_value()` / `T::max_value()` are only used as sentinels below / above all inputs; at ℝ any negative /
positive number will do for the theorems (they assume `minValue < 0` only). -/
noncomputable instance : FloatLike ℝ where
  isFinite _ := true
  isNaN _ := false
  minValue := -1
  maxValue := 1

instance : ExactScalar ℝ := ⟨fun _ => rfl, fun _ => rfl⟩

@[simp] theorem transc_sqrt_real (x : ℝ) : Transc.sqrt x = Real.sqrt x := rfl
@[simp] theorem transc_tanh_real (x : ℝ) : Transc.tanh x = Real.tanh x := rfl
@[simp] theorem transc_ln_real (x : ℝ) : Transc.ln x = Real.log x := rfl
@[simp] theorem transc_exp_real (x : ℝ) : Transc.exp x = Real.exp x := rfl
@[simp] theorem transc_cos_real (x : ℝ) : Transc.cos x = Real.cos x := rfl
@[simp] theorem transc_sin_real (x : ℝ) : Transc.sin x = Real.sin x := rfl
theorem minValue_real_neg : (FloatLike.minValue : ℝ) < 0 := by norm_num [FloatLike.minValue]
end SF
