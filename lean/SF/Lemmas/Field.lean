import SF.Lemmas.Generic
import SF.Spec
import Mathlib.Algebra.Order.Field.Basic
import Mathlib.Tactic.Ring
import Mathlib.Tactic.FieldSimp
import Mathlib.Tactic.Linarith
import Mathlib.Tactic.Positivity
/-
  Common ground for the theorems about the model at a linearly ordered field ("real arithmetic").
-/
namespace SF

/-- exact arithmetic: every scalar is finite and none is NaN (true of any field; `Float` is NOT an instance). -/
class ExactScalar (α : Type) [FloatLike α] : Prop where
  finite : ∀ x : α, FloatLike.isFinite x = true
  notNaN : ∀ x : α, FloatLike.isNaN x = false

section
variable {α : Type} [FloatLike α] [ExactScalar α]

@[simp] theorem assertFinite_exact (x : α) : assertFinite x = .ok () :=
  assertFinite_ok (ExactScalar.finite x)

theorem allFinite_exact (xs : List α) : AllFinite xs := fun x _ => ExactScalar.finite x
end

section
variable {α : Type} [Field α]
@[simp] theorem nat_eq (n : Nat) : (nat n : α) = (n : α) := rfl
@[simp] theorem dec_eq (a b : Nat) : (dec a b : α) = (a : α) / (b : α) := rfl
@[simp] theorem sq_eq (x : α) : sq x = x * x := rfl
end

/-! ### generic invariant principle -/
section
variable {α : Type}

/-- If `Inv` holds initially and every step from a state satisfying `Inv s pre` succeeds and re-establishes
`Inv s' (pre ++ [x])`, then every run succeeds and ends in a state related to the whole history. -/
theorem Core.run_invariant (B : Core α) (Inv : B.σ → List α → Prop)
    (hstep : ∀ s pre x, Inv s pre → ∃ s', B.step s x = .ok s' ∧ Inv s' (pre ++ [x]))
    (s : B.σ) (pre : List α) (h : Inv s pre) (xs : List α) :
    ∃ s', B.run s xs = .ok s' ∧ Inv s' (pre ++ xs) := by
  induction xs generalizing s pre with
  | nil => exact ⟨s, rfl, by simpa using h⟩
  | cons x xs ih =>
    obtain ⟨s1, h1, hi1⟩ := hstep s pre x h
    obtain ⟨s2, h2, hi2⟩ := ih s1 (pre ++ [x]) hi1
    refine ⟨s2, ?_, by simpa using hi2⟩
    simp [Core.run, h1, bind, Except.bind, h2]

theorem Core.run_invariant_init (B : Core α) (Inv : B.σ → List α → Prop) (h0 : Inv B.init [])
    (hstep : ∀ s pre x, Inv s pre → ∃ s', B.step s x = .ok s' ∧ Inv s' (pre ++ [x])) (xs : List α) :
    ∃ s', B.run B.init xs = .ok s' ∧ Inv s' xs := by
  simpa using Core.run_invariant B Inv hstep B.init [] h0 xs
end

/-- what a core over Echo reports after the history `xs` (a panic anywhere is an error) -/
def Core.outAfter {α : Type} (B : Core α) (xs : List α) : M (Option α) := B.run B.init xs >>= B.out

theorem Core.outAfter_of_inv {α : Type} (B : Core α) (Inv : B.σ → List α → Prop) (spec : List α → Option α)
    (hrun : ∀ xs, ∃ s, B.run B.init xs = .ok s ∧ Inv s xs)
    (hout : ∀ s xs, Inv s xs → B.out s = .ok (spec xs)) (xs : List α) :
    B.outAfter xs = .ok (spec xs) := by
  obtain ⟨s, hs, hi⟩ := hrun xs
  simp [Core.outAfter, hs, bind, Except.bind, hout s xs hi]

/-! ### `lastN`, `sumL` -/
namespace Spec
section
variable {α : Type}

@[simp] theorem lastN_nil (n : Nat) : lastN n ([] : List α) = [] := by simp [lastN]

theorem lastN_length (n : Nat) (xs : List α) : (lastN n xs).length = min n xs.length := by
  simp [lastN]; omega

theorem lastN_length_le (n : Nat) (xs : List α) : (lastN n xs).length ≤ n := by
  rw [lastN_length]; omega

theorem lastN_of_le (n : Nat) (xs : List α) (h : xs.length ≤ n) : lastN n xs = xs := by
  simp [lastN, Nat.sub_eq_zero_of_le h]

/-- pushing onto a window that is not yet full -/
theorem lastN_snoc_lt (n : Nat) (xs : List α) (x : α) (h : (lastN n xs).length < n) :
    lastN n (xs ++ [x]) = lastN n xs ++ [x] := by
  have hl : xs.length < n := by rw [lastN_length] at h; omega
  rw [lastN_of_le n xs (by omega), lastN_of_le n (xs ++ [x]) (by simp; omega)]

/-- pushing onto a full window: the oldest element leaves -/
theorem lastN_snoc_full (n : Nat) (xs : List α) (x : α) (hn : 0 < n) (h : n ≤ (lastN n xs).length) :
    lastN n (xs ++ [x]) = (lastN n xs).tail ++ [x] := by
  have hl : n ≤ xs.length := by rw [lastN_length] at h; omega
  simp only [lastN, List.length_append, List.length_singleton]
  rw [show xs.length + 1 - n = (xs.length - n) + 1 by omega]
  rw [List.drop_append_of_le_length (by omega)]
  congr 1
  rw [List.tail_drop]

/-- a function of the window only is determined by any suffix that covers the window -/
theorem lastN_eq_of_suffix (n k : Nat) (xs ys : List α) (hk : n ≤ k) (h : lastN k xs = lastN k ys)
    (hx : k ≤ xs.length) (hy : k ≤ ys.length) : lastN n xs = lastN n ys := by
  have e : ∀ zs : List α, k ≤ zs.length → lastN n zs = lastN n (lastN k zs) := by
    intro zs hz
    simp only [lastN, List.length_drop, List.drop_drop]
    congr 1; omega
  rw [e xs hx, e ys hy, h]
end

section
variable {α : Type} [Field α]
@[simp] theorem sumL_nil : sumL ([] : List α) = 0 := by simp [sumL]
@[simp] theorem sumL_cons (x : α) (xs : List α) : sumL (x :: xs) = x + sumL xs := rfl
@[simp] theorem sumL_append (xs ys : List α) : sumL (xs ++ ys) = sumL xs + sumL ys := by
  induction xs with
  | nil => simp
  | cons x xs ih => simp [ih, add_assoc]
theorem sumL_tail (xs : List α) (x : α) (r : List α) (h : xs = x :: r) : sumL xs.tail = sumL xs - x := by
  subst h; simp
end
end Spec
end SF
