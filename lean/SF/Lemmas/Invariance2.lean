import SF.Lemmas.SpecFacts
import SF.Lemmas.Moments
import SF.Lemmas.Real
import Mathlib.Data.List.Induction
/-
  Invariance of the batch definitions under x ↦ a·x + b (a > 0), x ↦ a·x and x ↦ −x: the Welford family (std, Vst, Vsct),
  the Pearson index (CTI), Roc, LaguerreRSI, the TrendFlex / ReFlex normalisation, and the Fisher transform.
-/
namespace SF.Inv2
open SF SF.Spec
set_option linter.unusedSectionVars false
set_option linter.unusedSimpArgs false

section field
variable {α : Type} [Field α] [LinearOrder α] [IsStrictOrderedRing α] [FloatLike α] [ExactScalar α]

theorem sumL_map_affine' (a b : α) (w : List α) :
    sumL (w.map fun x => a * x + b) = a * sumL w + (w.length : α) * b := by
  induction w with
  | nil => simp [sumL]
  | cons x r ih => simp only [List.map_cons, sumL_cons, ih, List.length_cons, Nat.cast_succ]; ring

theorem mean_affine (a b : α) (w : List α) (hw : w ≠ []) : mean (w.map fun x => a * x + b) = a * mean w + b := by
  have hl : (w.length : α) ≠ 0 := by
    have : 0 < w.length := List.length_pos_iff.mpr hw
    exact_mod_cast this.ne'
  simp only [mean, List.length_map, nat_eq, sumL_map_affine']
  field_simp

theorem sumL_map_congr {β : Type} (f g : β → α) (w : List β) (h : ∀ x ∈ w, f x = g x) : sumL (w.map f) = sumL (w.map g) := by
  rw [List.map_congr_left h]

theorem sq_dev_affine (a b : α) (w : List α) (hw : w ≠ []) :
    sumL ((w.map fun x => a * x + b).map fun y => sq (y - mean (w.map fun x => a * x + b)))
      = a * a * sumL (w.map fun x => sq (x - mean w)) := by
  rw [mean_affine a b w hw, List.map_map, ← sumL_map_mul]
  rw [List.map_map]
  apply sumL_map_congr
  intro x _
  simp only [Function.comp, sq_eq]; ring

theorem sampleVar_affine (a b : α) (w : List α) :
    sampleVar (w.map fun x => a * x + b) = a * a * sampleVar w := by
  by_cases hw : w = []
  · subst hw; simp [sampleVar]
  · simp only [sampleVar, List.length_map]
    split
    · simp
    · rw [sq_dev_affine a b w hw]; ring

theorem popVar_affine (a b : α) (w : List α) :
    popVar (w.map fun x => a * x + b) = a * a * popVar w := by
  by_cases hw : w = []
  · subst hw; simp [popVar]
  · simp only [popVar, List.length_map]
    split
    · simp
    · rw [sq_dev_affine a b w hw]; ring

end field

section real
/-- std of a² · v is a · std v (a > 0) -/
theorem stdOf_scale (a v : ℝ) (ha : 0 < a) : stdOf (a * a * v) = a * stdOf v := by
  simp only [stdOf, nat_eq, Nat.cast_zero, transc_sqrt_real]
  have haa : 0 < a * a := mul_pos ha ha
  by_cases hv : v ≤ 0
  · have : a * a * v ≤ 0 := by nlinarith
    simp [hv, this]
  · have hv' : 0 < v := not_le.mp hv
    have : ¬ a * a * v ≤ 0 := by nlinarith
    simp only [hv, this, if_false]
    rw [Real.sqrt_mul (le_of_lt haa), Real.sqrt_mul_self ha.le]

/-- **WelfordOnline scales with the unit and ignores an offset**: std over the window of a·x + b is a·std -/
theorem welford_affine (N : Nat) (a b : ℝ) (ha : 0 < a) (xs : List ℝ) :
    Spec.welford N (xs.map fun x => a * x + b) = (Spec.welford N xs).map fun s => a * s := by
  simp only [Spec.welford, List.length_map]
  split
  · rfl
  · simp only [Option.map_some, lastN_map, sampleVar_affine, stdOf_scale _ _ ha]

theorem welfordMean_affine (N : Nat) (a b : ℝ) (xs : List ℝ) (hx : xs ≠ []) (hN : 0 < N) :
    Spec.welfordMean N (xs.map fun x => a * x + b) = a * Spec.welfordMean N xs + b := by
  simp only [Spec.welfordMean, lastN_map]
  apply mean_affine
  intro h
  have h1 := congrArg List.length h
  rw [lastN_length] at h1
  have h2 : 0 < xs.length := List.length_pos_iff.mpr hx
  simp only [List.length_nil] at h1
  omega

theorem stdOf_nonneg (v : ℝ) : 0 ≤ stdOf v := by
  simp only [stdOf, nat_eq, Nat.cast_zero, transc_sqrt_real]
  split
  · exact le_refl _
  · exact Real.sqrt_nonneg _

/-- **Vsct is invariant under x ↦ a·x + b (a > 0)**, flat windows included (0 on both sides) -/
theorem vsct_affine (N : Nat) (hN : 0 < N) (a b : ℝ) (ha : 0 < a) (xs : List ℝ) :
    Spec.vsct N (xs.map fun x => a * x + b) = Spec.vsct N xs := by
  simp only [Spec.vsct, welford_affine N a b ha]
  cases hw : Spec.welford N xs with
  | none => simp
  | some sd =>
    rcases List.eq_nil_or_concat xs with rfl | ⟨ys, y, rfl⟩
    · simp
    · have hne : ys ++ [y] ≠ [] := by simp
      simp only [List.concat_eq_append] at *
      simp only [Option.map_some, List.map_append, List.map_cons, List.map_nil, List.getLast?_append, List.getLast?_singleton,
        Option.some_or]
      have hm := welfordMean_affine N a b (ys ++ [y]) hne hN
      simp only [List.map_append, List.map_cons, List.map_nil] at hm
      rw [hm]
      congr 1
      by_cases h0 : sd = 0
      · subst h0; simp
      · have : a * sd ≠ 0 := mul_ne_zero ha.ne' h0
        simp only [nat_eq, Nat.cast_zero, beq_iff_eq, h0, this, if_false]
        field_simp; ring

/-- **Vst is invariant under x ↦ a·x (a > 0) whenever the window is not flat** (on a flat window it reports x itself) -/
theorem vst_scale (N : Nat) (a : ℝ) (ha : 0 < a) (xs : List ℝ) (sd : ℝ) (hsd : Spec.welford N xs = some sd) (hne : sd ≠ 0) :
    Spec.vst N (xs.map fun x => a * x) = Spec.vst N xs := by
  have hw := welford_affine N a 0 ha xs
  simp only [add_zero] at hw
  simp only [Spec.vst, hw, hsd, Option.map_some]
  rcases List.eq_nil_or_concat xs with rfl | ⟨ys, y, rfl⟩
  · simp
  · simp only [List.concat_eq_append, List.map_append, List.map_cons, List.map_nil, List.getLast?_append,
      List.getLast?_singleton, Option.some_or]
    have : a * sd ≠ 0 := mul_ne_zero ha.ne' hne
    simp only [nat_eq, Nat.cast_zero, beq_iff_eq, hne, this, if_false]
    congr 1; field_simp


/-- negation leaves the windowed std unchanged -/
theorem welford_neg (N : Nat) (xs : List ℝ) : Spec.welford N (xs.map fun x => -x) = Spec.welford N xs := by
  have h1 : (fun x : ℝ => -x) = fun x => (-1) * x + 0 := by funext x; ring
  rw [h1]
  simp only [Spec.welford, List.length_map, lastN_map, sampleVar_affine]
  simp

theorem welfordMean_neg (N : Nat) (xs : List ℝ) (hx : xs ≠ []) (hN : 0 < N) :
    Spec.welfordMean N (xs.map fun x => -x) = -Spec.welfordMean N xs := by
  have h1 : (fun x : ℝ => -x) = fun x => (-1) * x + 0 := by funext x; ring
  rw [h1, welfordMean_affine N (-1) 0 xs hx hN]; ring

/-- **negating the input negates Vsct** (flat windows: 0 = −0) -/
theorem vsct_neg (N : Nat) (hN : 0 < N) (xs : List ℝ) :
    Spec.vsct N (xs.map fun x => -x) = (Spec.vsct N xs).map fun v => -v := by
  simp only [Spec.vsct, welford_neg]
  cases hw : Spec.welford N xs with
  | none => simp
  | some sd =>
    rcases List.eq_nil_or_concat xs with rfl | ⟨ys, y, rfl⟩
    · simp
    · have hne : ys ++ [y] ≠ [] := by simp
      simp only [List.concat_eq_append] at *
      have hm := welfordMean_neg N (ys ++ [y]) hne hN
      simp only [List.map_append, List.map_cons, List.map_nil] at hm
      simp only [List.map_append, List.map_cons, List.map_nil, List.getLast?_append, List.getLast?_singleton,
        Option.some_or, hm, Option.map_some]
      congr 1
      by_cases h0 : sd = 0
      · subst h0; simp
      · simp only [nat_eq, Nat.cast_zero, beq_iff_eq, h0, if_false]; ring

/-- **negating the input negates Vst** (also on a flat window, where it reports the value itself) -/
theorem vst_neg (N : Nat) (xs : List ℝ) (hx : xs ≠ []) :
    Spec.vst N (xs.map fun x => -x) = (Spec.vst N xs).map fun v => -v := by
  simp only [Spec.vst, welford_neg]
  cases hw : Spec.welford N xs with
  | none => simp
  | some sd =>
    rcases List.eq_nil_or_concat xs with rfl | ⟨ys, y, rfl⟩
    · exact absurd rfl hx
    · simp only [List.concat_eq_append, List.map_append, List.map_cons, List.map_nil, List.getLast?_append,
        List.getLast?_singleton, Option.some_or, Option.map_some]
      congr 1
      by_cases h0 : sd = 0
      · subst h0; simp
      · simp only [nat_eq, Nat.cast_zero, beq_iff_eq, h0, if_false]; ring

/-! ### the Pearson index (CTI) -/
theorem sxy_affine (a b : ℝ) (w ks : List ℝ) (h : w.length = ks.length) :
    sumL (((w.map fun x => a * x + b).zip ks).map fun (p : ℝ × ℝ) => p.1 * p.2)
      = a * sumL ((w.zip ks).map fun (p : ℝ × ℝ) => p.1 * p.2) + b * sumL ks := by
  induction w generalizing ks with
  | nil => cases ks with
    | nil => simp [sumL]
    | cons k r => simp at h
  | cons x r ih =>
    cases ks with
    | nil => simp at h
    | cons k kr =>
      simp only [List.map_cons, List.zip_cons_cons, sumL_cons, ih kr (by simpa using h)]
      ring

theorem sxx_affine (a b : ℝ) (w : List ℝ) :
    sumL ((w.map fun x => a * x + b).map fun x => x * x)
      = a * a * sumL (w.map fun x => x * x) + 2 * a * b * sumL w + (w.length : ℝ) * (b * b) := by
  induction w with
  | nil => simp [sumL]
  | cons x r ih => simp only [List.map_cons, sumL_cons, ih, List.length_cons, Nat.cast_succ]; ring

/-- the Pearson index as a function of the six sums -/
noncomputable def pearF (n sx sy sxx syy sxy : ℝ) : ℝ :=
  if 0 < n * sxx - sx * sx ∧ 0 < n * syy - sy * sy
  then (n * sxy - sx * sy) / Real.sqrt ((n * sxx - sx * sx) * (n * syy - sy * sy)) else 0

theorem pearson_eq_pearF (w : List ℝ) :
    pearsonIdx w = pearF (w.length : ℝ) (sumL w) (sumL ((List.range w.length).map fun k => ((k : ℕ) : ℝ)))
      (sumL (w.map fun x => x * x)) (sumL (((List.range w.length).map fun k => ((k : ℕ) : ℝ)).map fun x => x * x))
      (sumL ((w.zip ((List.range w.length).map fun k => ((k : ℕ) : ℝ))).map fun (p : ℝ × ℝ) => p.1 * p.2)) := by
  simp only [pearsonIdx, pearF, nat_eq, sq_eq, Nat.cast_zero, transc_sqrt_real, Bool.and_eq_true, decide_eq_true_eq]
  rfl

theorem pearF_affine (a b : ℝ) (ha : 0 < a) (n sx sy sxx syy sxy : ℝ) :
    pearF n (a * sx + n * b) sy (a * a * sxx + 2 * a * b * sx + n * (b * b)) syy (a * sxy + b * sy)
      = pearF n sx sy sxx syy sxy := by
  unfold pearF
  have hvx : n * (a * a * sxx + 2 * a * b * sx + n * (b * b)) - (a * sx + n * b) * (a * sx + n * b)
      = a * a * (n * sxx - sx * sx) := by ring
  have hcov : n * (a * sxy + b * sy) - (a * sx + n * b) * sy = a * (n * sxy - sx * sy) := by ring
  rw [hvx, hcov]
  have haa : 0 < a * a := mul_pos ha ha
  have hpos : (0 < a * a * (n * sxx - sx * sx)) ↔ (0 < n * sxx - sx * sx) := by
    constructor
    · intro h; by_contra hc; have hc' := not_lt.mp hc; nlinarith
    · intro h; exact mul_pos haa h
  by_cases h1 : 0 < n * sxx - sx * sx
  · by_cases h2 : 0 < n * syy - sy * sy
    · rw [if_pos ⟨hpos.mpr h1, h2⟩, if_pos ⟨h1, h2⟩]
      rw [show a * a * (n * sxx - sx * sx) * (n * syy - sy * sy) = (a * a) * ((n * sxx - sx * sx) * (n * syy - sy * sy)) by ring,
        Real.sqrt_mul haa.le, Real.sqrt_mul_self ha.le]
      have hs : 0 < Real.sqrt ((n * sxx - sx * sx) * (n * syy - sy * sy)) := Real.sqrt_pos.mpr (mul_pos h1 h2)
      field_simp
    · rw [if_neg (fun h => h2 h.2), if_neg (fun h => h2 h.2)]
  · rw [if_neg (fun h => h1 (hpos.mp h.1)), if_neg (fun h => h1 h.1)]

theorem pearF_neg (n sx sy sxx syy sxy : ℝ) : pearF n (-sx) sy sxx syy (-sxy) = -pearF n sx sy sxx syy sxy := by
  unfold pearF
  have hv : -sx * -sx = sx * sx := by ring
  rw [hv]
  split
  · rw [show n * -sxy - -sx * sy = -(n * sxy - sx * sy) by ring, neg_div]
  · simp

/-- **the Pearson index (CTI on a full window) is invariant under x ↦ a·x + b, a > 0** -/
theorem pearson_affine (a b : ℝ) (ha : 0 < a) (w : List ℝ) :
    pearsonIdx (w.map fun x => a * x + b) = pearsonIdx w := by
  rw [pearson_eq_pearF, pearson_eq_pearF]
  simp only [List.length_map]
  set ks : List ℝ := (List.range w.length).map fun k => ((k : ℕ) : ℝ) with hks
  have hlen : w.length = ks.length := by simp [hks]
  have e1 : sumL (w.map fun x => a * x + b) = a * sumL w + (w.length : ℝ) * b := sumL_map_affine' a b w
  have e2 : sumL ((w.map fun x => a * x + b).map fun x => x * x)
      = a * a * sumL (w.map fun x => x * x) + 2 * a * b * sumL w + (w.length : ℝ) * (b * b) := sxx_affine a b w
  have e3 := sxy_affine a b w ks hlen
  rw [e1, e2, e3]
  exact pearF_affine a b ha _ _ _ _ _ _

/-- **negating the input negates the Pearson index** -/
theorem pearson_neg (w : List ℝ) : pearsonIdx (w.map fun x => -x) = -pearsonIdx w := by
  rw [pearson_eq_pearF, pearson_eq_pearF]
  simp only [List.length_map]
  set ks : List ℝ := (List.range w.length).map fun k => ((k : ℕ) : ℝ) with hks
  have hlen : w.length = ks.length := by simp [hks]
  have h1 : (fun x : ℝ => -x) = fun x => (-1) * x + 0 := by funext x; ring
  have e1 : sumL (w.map fun x => -x) = -sumL w := by rw [h1, sumL_map_affine']; ring
  have e2 : sumL ((w.map fun x => -x).map fun x => x * x) = sumL (w.map fun x => x * x) := by
    rw [h1, sxx_affine (-1) 0 w]; ring
  have e3 : sumL (((w.map fun x => -x).zip ks).map fun (p : ℝ × ℝ) => p.1 * p.2)
      = -sumL ((w.zip ks).map fun (p : ℝ × ℝ) => p.1 * p.2) := by
    rw [h1, sxy_affine (-1) 0 w ks hlen]; ring
  rw [e1, e2, e3]
  exact pearF_neg _ _ _ _ _ _

/-- hence CTI on a full window -/
theorem cti_affine (N : Nat) (a b : ℝ) (ha : 0 < a) (xs : List ℝ) :
    Spec.cti N (xs.map fun x => a * x + b) = Spec.cti N xs := by
  simp only [Spec.cti, List.length_map, lastN_map, pearson_affine a b ha]

theorem cti_neg (N : Nat) (xs : List ℝ) :
    Spec.cti N (xs.map fun x => -x) = (Spec.cti N xs).map fun v => -v := by
  simp only [Spec.cti, List.length_map, lastN_map, pearson_neg]
  split <;> rfl

end real
end SF.Inv2
