import SF.Lemmas.NoPanic
import SF.Lemmas.Field
import SF.Expr
/-
  Readiness never reverts, core by core: from ANY state in which `last()` reports a value, one more `update` leads to a
  state in which `last()` does not report `None`.  (A chain's readiness is its outermost core's, and that core is only
  stepped when the inner view delivers, so this carries over to every chain: `wrap_readyStable`.)
-/
namespace SF.Ready
open SF
set_option linter.unusedSectionVars false
set_option linter.unusedSimpArgs false
set_option linter.unusedVariables false
set_option linter.unusedTactic false
set_option linter.unreachableTactic false
variable {α : Type} [Field α] [LinearOrder α] [IsStrictOrderedRing α] [FloatLike α] [ExactScalar α] [Transc α]

theorem gte (c : α) : (gteCore c).ReadyStable := by
  intro s x s' _ hs h
  simp only [gteCore, pure, Except.pure] at hs h
  have hs := Except.ok.inj hs; have h := Except.ok.inj h
  subst hs; split at h <;> simp at h

theorem lte (c : α) : (lteCore c).ReadyStable := by
  intro s x s' _ hs h
  simp only [lteCore, pure, Except.pure] at hs h
  have hs := Except.ok.inj hs; have h := Except.ok.inj h
  subst hs; split at h <;> simp at h

theorem drawdown : (drawdownCore (α := α)).ReadyStable := by
  intro s x s' _ hs h
  simp [drawdownCore, bind, Except.bind, pure, Except.pure] at h

theorem welfordRolling : (welfordRollingCore (α := α)).ReadyStable := by
  intro s x s' _ hs h
  simp only [welfordRollingCore, pure, Except.pure] at hs
  have hs := Except.ok.inj hs
  subst hs
  simp [welfordRollingCore, bind, Except.bind, pure, Except.pure] at h

theorem ema (N : Nat) (a : α) : (emaCore N a).ReadyStable := by
  intro s x s' ⟨v, hv⟩ hs h
  simp only [emaCore] at hv hs h
  have hn : ¬ s.n < N := by
    intro hlt; simp [hlt, pure, Except.pure] at hv
  have hn' : s'.n = s.n + 1 := by
    split at hs <;> (simp only [pure, Except.pure] at hs; have hs := Except.ok.inj hs; subst hs; rfl)
  have : ¬ s'.n < N := by omega
  simp [this, bind, Except.bind, pure, Except.pure] at h

theorem sma (N : Nat) : (smaCore (α := α) N).ReadyStable := by
  intro s x s' ⟨v, hv⟩ hs h
  simp only [smaCore] at hv hs h
  have hn : ¬ s.q.length < N := by
    intro hlt; simp [hlt, pure, Except.pure] at hv
  have hfull : N ≤ s.q.length := by omega
  cases hq : s.q with
  | nil =>
    rw [hq] at hfull hs
    simp at hfull; subst hfull
    simp [popFront, bind, Except.bind] at hs
  | cons old rest =>
    rw [hq] at hfull
    simp only [hq, hfull, if_true, popFront, bind, Except.bind, pure, Except.pure] at hs
    have hs := Except.ok.inj hs
    subst hs
    have : ¬ (rest ++ [x]).length < N := by simp at hfull ⊢; omega
    simp only [this, if_false, bind, Except.bind, assertFinite_exact, pure, Except.pure] at h
    cases h

/-- helper: `last()` reads an `Option`-valued function `f` of the state, and a successful step either makes it `some`
or leaves it as it was -/
theorem of_keep (B : Core α) (f : B.σ → Option α) (hout : ∀ s, B.out s = .ok (f s))
    (h : ∀ s x s', B.step s x = .ok s' → (∃ o, f s' = some o) ∨ f s' = f s) : B.ReadyStable := by
  intro s x s' ⟨v, hv⟩ hs hn
  rw [hout] at hv hn
  have hv := Except.ok.inj hv
  have hn := Except.ok.inj hn
  rcases h s x s' hs with ⟨o, ho⟩ | he
  · rw [ho] at hn; cases hn
  · rw [he, hv] at hn; cases hn

/-- split a step all the way down; an erroring branch contradicts `= .ok s'`, a succeeding one exhibits the new state -/
macro "ready_split" hs:ident : tactic =>
  `(tactic| (repeat' split at $hs:ident) <;>
      first | (cases $hs:ident; done) | (cases $hs:ident; first | exact Or.inl ⟨_, rfl⟩ | exact Or.inr rfl))

theorem cum (N : Nat) : (cumCore (α := α) N).ReadyStable :=
  of_keep _ (fun s => s.out) (fun _ => rfl) (by
    intro s x s' hs
    simp only [cumCore, bind, Except.bind, pure, Except.pure, assertFinite_exact] at hs
    ready_split hs)

theorem min (N : Nat) : (minCoreU (α := α) N).ReadyStable :=
  of_keep _ (fun s => s.opt) (fun _ => rfl) (by
    intro s x s' hs
    simp only [minCoreU, bind, Except.bind, pure, Except.pure] at hs
    ready_split hs)

theorem max (N : Nat) : (maxCoreU (α := α) N).ReadyStable :=
  of_keep _ (fun s => s.opt) (fun _ => rfl) (by
    intro s x s' hs
    simp only [maxCoreU, bind, Except.bind, pure, Except.pure] at hs
    ready_split hs)

theorem roc (N : Nat) : (rocCore (α := α) N).ReadyStable :=
  of_keep _ (fun s => s.out) (fun _ => rfl) (by
    intro s x s' hs
    simp only [rocCore, bind, Except.bind, pure, Except.pure, assertFinite_exact] at hs
    ready_split hs)

/-- views whose `last()` never reports `None` (HLNormalizer, CTI, Drawdown): nothing to revert -/
theorem of_always (B : Core α) (h : ∀ s, B.out s ≠ .ok none) : B.ReadyStable :=
  fun _ _ s' _ _ hn => h s' hn

theorem hln (N : Nat) : (hlnCore (α := α) N).ReadyStable :=
  of_always _ (fun s => by
    simp only [hlnCore]
    split <;> simp [bind, Except.bind, pure, Except.pure])

theorem cti (N : Nat) : (ctiCore (α := α) N).ReadyStable :=
  of_always _ (fun s => by
    simp only [ctiCore]
    split <;> simp [bind, Except.bind, pure, Except.pure])

theorem cog (N : Nat) : (cogCore (α := α) N).ReadyStable :=
  of_keep _ (fun s => s.out) (fun _ => rfl) (by
    intro s x s' hs
    simp only [cogCore, bind, Except.bind, pure, Except.pure, assertFinite_exact] at hs
    ready_split hs)

theorem entropy (N : Nat) : (bentCore (α := α) N).ReadyStable := by
  intro s x s' _ hs hn
  have hq : s'.q ≠ [] := by
    simp only [bentCore, bind, Except.bind, pure, Except.pure] at hs
    repeat' split at hs
    all_goals first | (cases hs; done) | (cases hs; simp)
  simp only [bentCore] at hn
  have : s'.q.isEmpty = false := by simpa using hq
  simp [this, pure, Except.pure] at hn

theorem superSmoother (N : Nat) : (ssCore (α := α) N).ReadyStable := by
  intro s x s' ⟨v, hv⟩ hs hn
  simp only [ssCore, ssOut] at hv hs hn
  have h1 : ¬ s.i < N := by intro h; simp [h, pure, Except.pure] at hv
  have hs := Except.ok.inj hs
  subst hs
  have : ¬ (ssStep (ssCoef N) s x).i < N := by simp only [ssStep]; omega
  simp [this, bind, Except.bind, pure, Except.pure] at hn

/-- the same notion for complete views -/
def _root_.SF.View.ReadyStable (V : View α) : Prop :=
  ∀ s x s', (∃ v, V.last s = .ok (some v)) → V.upd s x = .ok s' → V.last s' ≠ .ok none



/-! ### EhlersFisherTransform: its output queue never empties again, whatever its moving average does -/
theorem eftEmit_len (ma : View α) (m : ma.σ) (qOut : List α) (high low v : α) (r : ma.σ × List α)
    (h : eftEmit ma m qOut high low v = .ok r) : qOut.length ≤ r.2.length := by
  unfold eftEmit at h
  split at h
  · simp only [pure, Except.pure] at h; cases h; simp
  · simp only [bind, Except.bind] at h
    split at h
    · cases h
    · split at h
      · cases h
      · rename_i o ho
        cases o with
        | none => simp only [pure, Except.pure] at h; cases h; simp
        | some sm =>
          simp only at h
          split at h
          · simp only [pure, Except.pure] at h; cases h; simp
          · simp only [bind, Except.bind, assertFinite_exact, pure, Except.pure] at h
            split at h
            · cases h
            · cases h; simp

theorem eft (N : Nat) (ma : View α) : (eftCore N ma).ReadyStable := by
  intro s x s' ⟨v, hv⟩ hs hn
  simp only [eftCore, pure, Except.pure] at hv hn
  have hv := Except.ok.inj hv
  have hn := Except.ok.inj hn
  have hne : s.qOut ≠ [] := by intro e; rw [e] at hv; simp at hv
  simp only [eftCore, bind, Except.bind] at hs
  split at hs
  · cases hs
  · split at hs
    · cases hs
    · rename_i w hw e he
      simp only [pure, Except.pure] at hs
      cases hs
      have hl := eftEmit_len ma s.ma _ _ _ _ e he
      simp only at hn
      have : e.2 = [] := by
        cases hq : e.2 with
        | nil => rfl
        | cons a r => rw [hq] at hn; simp at hn
      rw [this] at hl
      simp only [List.length_nil, Nat.le_zero_eq] at hl
      split at hl
      · rename_i h1; simp at hl; omega
      · exact hne (List.eq_nil_of_length_eq_zero hl)

/-! ### TrendFlex / ReFlex / NET: the emitted value is either new or the one held before -/
theorem flexEmit_keep (N : Nat) (lastM v : α) (q : List α) (dsum : α) (dflt : Option α) (s' : FlexState α)
    (h : flexEmit N lastM v q dsum dflt = .ok s') : (∃ o, s'.out = some o) ∨ s'.out = dflt := by
  simp only [flexEmit, bind, Except.bind, pure, Except.pure, assertFinite_exact] at h
  split at h
  · cases h; exact Or.inl ⟨_, rfl⟩
  · cases h; exact Or.inr rfl

theorem reFlex (N : Nat) : (rflexCore (α := α) N).ReadyStable :=
  of_keep _ (fun s => s.out) (fun _ => rfl) (by
    intro s x s' hs
    simp only [rflexCore, bind, Except.bind] at hs
    repeat' (split at hs <;> try (cases hs; done))
    all_goals exact flexEmit_keep _ _ _ _ _ _ _ hs)

theorem trendFlex (N : Nat) : (tflexCore (α := α) N).ReadyStable :=
  of_keep _ (fun s => s.out) (fun _ => rfl) (by
    intro s x s' hs
    simp only [tflexCore, bind, Except.bind] at hs
    repeat' (split at hs <;> try (cases hs; done))
    all_goals (rcases flexEmit_keep _ _ _ _ _ _ _ hs with h | h
               · exact Or.inl h
               · exact Or.inl ⟨_, h⟩))

theorem net (N : Nat) : (netCore (α := α) N).ReadyStable :=
  of_keep _ (fun s => s.out) (fun _ => rfl) (by
    intro s x s' hs
    simp only [netCore, bind, Except.bind, pure, Except.pure, assertFinite_exact] at hs
    repeat' (split at hs <;> try (cases hs; done))
    all_goals first | (cases hs; first | exact Or.inl ⟨_, rfl⟩ | exact Or.inr rfl) | skip)

/-- **a chain's readiness never reverts if its outermost core's does not** — whatever the inner view does (it may even relapse):
the core is stepped only when the inner view delivers, and `last()` of the chain is the core's -/
theorem wrap_readyStable (A : View α) (B : Core α) (hB : B.ReadyStable) : (wrap A B).ReadyStable := by
  intro s x s' hv hs
  simp only [wrap, bind, Except.bind, assertFinite_exact] at hs hv ⊢
  cases hu : A.upd s.1 x with
  | error e => rw [hu] at hs; cases hs
  | ok a' =>
    rw [hu] at hs
    simp only at hs
    cases hl : A.last a' with
    | error e => rw [hl] at hs; cases hs
    | ok o =>
      rw [hl] at hs
      cases o with
      | none =>
        simp only [pure, Except.pure] at hs
        cases hs
        obtain ⟨v, hv⟩ := hv
        simp only []
        rw [hv]; intro h; cases h
      | some w =>
        simp only [assertFinite_exact] at hs
        cases hb : B.step s.2 w with
        | error e => rw [hb] at hs; cases hs
        | ok b' =>
          rw [hb] at hs
          simp only [pure, Except.pure] at hs
          cases hs
          exact hB s.2 w b' hv hb

/-- Tanh keeps the readiness of its child -/
theorem mapV_readyStable (f : α → α) (A : View α) (hA : A.ReadyStable) : (mapV f A).ReadyStable := by
  intro s x s' ⟨v, hv⟩ hs hn
  simp only [mapV, bind, Except.bind, assertFinite_exact] at hs hv hn
  have h1 : ∃ w, A.last s = .ok (some w) := by
    cases hl : A.last s with
    | error e => rw [hl] at hv; cases hv
    | ok o =>
      cases o with
      | none => rw [hl] at hv; cases hv
      | some w => exact ⟨w, rfl⟩
  have h2 := hA s x s' h1 hs
  cases hl : A.last s' with
  | error e => rw [hl] at hn; cases hn
  | ok o =>
    cases o with
    | none => exact h2 hl
    | some w => rw [hl] at hn; simp [pure, Except.pure] at hn

end SF.Ready
