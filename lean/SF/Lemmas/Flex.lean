import SF.Lemmas.SuperSmoother
/- TrendFlex and ReFlex (N ≥ 3): the window holds the last min(t+1, N) values of the flex smoother (started with
   x(−1) = x(0)); the loop sums the deviations newest-first; leaky mean square; TrendFlex reports 0, ReFlex holds its
   previous output, while the mean square is 0. -/
namespace SF.Flex
open SF SF.Spec
set_option linter.unusedSectionVars false
set_option linter.unusedSimpArgs false
variable {α : Type} [Field α] [LinearOrder α] [IsStrictOrderedRing α] [FloatLike α] [ExactScalar α] [Transc α]

theorem sumL_reverse (l : List α) : sumL l.reverse = sumL l := by
  induction l with
  | nil => rfl
  | cons x r ih => simp [ih, add_comm]

/-- the loop adds `g i q[len−1−i]` for i = 0..len−1: the sum over the reversed window -/
theorem loop_eq (q : List α) (g : Nat → α → α) (k : Nat) (hk : k ≤ q.length) :
    (List.range' 0 k).foldlM (fun (d : α) i => do
        let x ← getIdx q (q.length - 1 - i)
        pure (d + g i x)) (nat 0 : α)
      = .ok (sumL ((q.reverse.take k).zipIdx.map fun (x, i) => g i x)) := by
  induction k with
  | zero => simp [pure, Except.pure, nat_eq]
  | succ k ih =>
    have hk' : k ≤ q.length := by omega
    have hlt : k < q.reverse.length := by simp; omega
    rw [List.range'_concat, List.foldlM_append, ih hk', Nat.one_mul, Nat.zero_add]
    have hx : getIdx q (q.length - 1 - k) = .ok (q.reverse[k]) := by
      simp only [getIdx]
      rw [List.getElem_reverse]
      have : q.length - 1 - k < q.length := by omega
      simp [List.getElem?_eq_getElem this, pure, Except.pure]
    simp only [bind, Except.bind, List.foldlM_cons, List.foldlM_nil, hx, pure, Except.pure]
    congr 1
    rw [List.take_add_one, List.getElem?_eq_getElem hlt]
    simp only [Option.toList_some, List.zipIdx_append, List.map_append, sumL_append, List.length_take, List.zipIdx_cons,
      List.zipIdx_nil, List.map_cons, List.map_nil, sumL_cons, sumL_nil, Nat.zero_add]
    have : min k q.reverse.length = k := Nat.min_eq_left (by omega)
    rw [this]; ring

theorem zipIdx_map_fst {β : Type} (h : α → β) (l : List α) (k : Nat) :
    ((l.zipIdx k).map fun (x, _) => h x) = l.map h := by
  induction l generalizing k with
  | nil => rfl
  | cons x r ih => simp [List.zipIdx_cons, ih (k + 1)]

theorem tflexDsum_eq (q : List α) (filt : α) : tflexDsum q filt = .ok (sumL (q.reverse.map fun x => filt - x)) := by
  have := loop_eq q (fun _ x => filt - x) q.length (le_refl _)
  simp only [tflexDsum, forRange, Nat.sub_zero]
  rw [this]
  congr 2
  rw [List.take_of_length_le (by simp)]
  exact zipIdx_map_fst _ _ 0

/-! ### the spec, unfolded -/
def D (N : Nat) (fs : List α) (t : Nat) : α :=
  sumL ((List.range (min t (N - 1) + 1)).map fun i => (fs[t]?.getD (nat 0)) - (fs[t - i]?.getD (nat 0))) / nat N

def normStep (hold : Bool) (acc : α × Option α) (d : α) : α × Option α :=
  (dec 4 100 * sq d + dec 96 100 * acc.1,
   if nat 0 < dec 4 100 * sq d + dec 96 100 * acc.1 then some (d / Transc.sqrt (dec 4 100 * sq d + dec 96 100 * acc.1))
   else if hold then acc.2 else some (nat 0))

def dsList (N : Nat) (fs : List α) : List α := (List.range fs.length).map (D N fs)

theorem trendFlex_cons (N : Nat) (x0 : α) (r : List α) :
    Spec.trendFlex N (x0 :: r) =
      ((dsList N (smoothSeq (flexCoef N) x0 (x0 :: r)).reverse).foldl (normStep false) (nat 0, none)).2 := rfl

theorem D_prefix (N : Nat) (fs : List α) (f : α) (t : Nat) (ht : t < fs.length) : D N (fs ++ [f]) t = D N fs t := by
  simp only [D]
  congr 2
  apply List.map_congr_left
  intro i _
  rw [List.getElem?_append_left ht, List.getElem?_append_left (by omega)]

theorem dsList_snoc (N : Nat) (fs : List α) (f : α) :
    dsList N (fs ++ [f]) = dsList N fs ++ [D N (fs ++ [f]) fs.length] := by
  simp only [dsList, List.length_append, List.length_singleton, List.range_succ, List.map_append, List.map_cons, List.map_nil]
  congr 1
  apply List.map_congr_left
  intro t ht
  exact D_prefix N fs f t (List.mem_range.mp ht)

theorem range_map_getElem (l : List α) (h : α → α) (k : Nat) (hk : k ≤ l.length) :
    (List.range k).map (fun i => h (l[i]?.getD (nat 0))) = (l.take k).map h := by
  induction k with
  | zero => simp
  | succ k ih =>
    have hlt : k < l.length := by omega
    rw [List.range_succ, List.map_append, ih (by omega), List.take_add_one, List.getElem?_eq_getElem hlt]
    simp only [List.map_cons, List.map_nil, Option.toList_some, List.map_append, List.getElem?_eq_getElem hlt, Option.getD_some]

/-- the newest deviation, in terms of the newest-first list R' = f :: R of filter values -/
theorem D_last (N : Nat) (hN : 0 < N) (R : List α) (f : α) :
    D N (f :: R).reverse R.length = sumL (((f :: R).take N).map fun x => f - x) / nat N := by
  simp only [D]
  congr 1
  have hlen : (f :: R).reverse.length = R.length + 1 := by simp
  have hft : (f :: R).reverse[R.length]?.getD (nat 0) = f := by
    rw [List.getElem?_reverse (by simp)]; simp
  rw [hft]
  have hi : ∀ i ∈ List.range (min R.length (N - 1) + 1),
      (f - ((f :: R).reverse[R.length - i]?.getD (nat 0))) = (fun x => f - x) ((f :: R)[i]?.getD (nat 0)) := by
    intro i hi
    have hi' : i ≤ R.length := by have := List.mem_range.mp hi; omega
    simp only
    rw [List.getElem?_reverse (by simp; omega)]
    congr 3
    simp; omega
  rw [List.map_congr_left hi, range_map_getElem (f :: R) (fun x => f - x) _ (by simp)]
  congr 2
  -- take (min |R| (N-1) + 1) = take N on a list of length |R|+1
  rcases Nat.lt_or_ge R.length (N - 1) with h | h
  · rw [Nat.min_eq_left (Nat.le_of_lt h), List.take_of_length_le (by simp), List.take_of_length_le (by simp; omega)]
  · rw [Nat.min_eq_right h]; congr 1; omega

/-! ### model = spec -/
/-- newest-first filter values after xs (pad = the first value) -/
def R (N : Nat) (xs : List α) : List α := (SS.foldState (flexCoef N) (xs.headD (nat 0)) xs).1

theorem prev_input (c : Coef α) (pad : α) (xs : List α) : (SS.foldState c pad xs).2 = (xs.getLast?).getD pad := by
  rcases List.eq_nil_or_concat xs with rfl | ⟨ys, y, rfl⟩
  · simp [SS.foldState]
  · simp only [List.concat_eq_append]; rw [SS.foldState_snoc]; simp

theorem R_snoc (N : Nat) (xs : List α) (x : α) :
    R N (xs ++ [x]) =
      ((flexCoef N).c1 * (x + (xs.getLast?).getD x) / nat 2 + (flexCoef N).b1 * (R N xs).headD (nat 0)
        + (flexCoef N).c3 * (R N xs).tail.headD (nat 0)) :: R N xs := by
  cases xs with
  | nil => simp [R, SS.foldState]
  | cons a r =>
    simp only [R, List.cons_append, List.headD_cons]
    rw [← List.cons_append, SS.foldState_snoc]
    simp only [prev_input]
    cases h : (a :: r).getLast? with
    | none => simp at h
    | some y => simp

theorem trim_eq (N : Nat) (hN : 0 < N) (Rl : List α) :
    flexTrim N ((Rl.take N).reverse) = (Rl.take (N - 1)).reverse := by
  simp only [flexTrim, List.length_reverse, List.length_take]
  by_cases h : N ≤ Rl.length
  · rw [if_pos (by omega)]
    obtain ⟨k, rfl⟩ : ∃ k, N = k + 1 := ⟨N - 1, by omega⟩
    simp only [List.tail_reverse, Nat.add_sub_cancel]
    rw [List.dropLast_eq_take, List.take_take, List.length_take]
    congr 2; omega
  · rw [if_neg (by omega), List.take_of_length_le (by omega), List.take_of_length_le (by omega)]

theorem coef_c3 (N : Nat) : (Spec.flexCoef (α := α) N).c3 =
    -Transc.exp (-(dec 888442402435 100000000000 : α) / nat N) * Transc.exp (-(dec 888442402435 100000000000 : α) / nat N) := by
  simp only [Spec.flexCoef]; ring

theorem filt_eq (N : Nat) (hN : 3 ≤ N) (Rl : List α) (v lv : α) :
    flexFilt N ((Rl.take (N - 1)).reverse) v lv =
      .ok ((flexCoef N).c1 * (v + lv) / nat 2 + (flexCoef N).b1 * Rl.headD (nat 0) + (flexCoef N).c3 * Rl.tail.headD (nat 0)) := by
  obtain ⟨k, rfl⟩ : ∃ k, N = k + 3 := ⟨N - 3, by omega⟩
  have hc3 := coef_c3 (α := α) (k + 3)
  match Rl with
  | [] => simp [flexFilt, Spec.flexCoef, pure, Except.pure, nat_eq]
  | [a] =>
    simp [flexFilt, Spec.flexCoef, pure, Except.pure, nat_eq, getIdx, bind, Except.bind]
  | a :: b :: R2 =>
    have e : ((a :: b :: R2).take (k + 3 - 1)).reverse = (R2.take k).reverse ++ [b, a] := by
      simp [show k + 3 - 1 = k + 2 by omega, List.take_succ_cons]
    rw [e]
    have hl : ((R2.take k).reverse ++ [b, a]).length = (R2.take k).length + 2 := by simp
    simp only [flexFilt, hl, getIdx, bind, Except.bind, pure, Except.pure]
    have h0 : ¬ ((R2.take k).length + 2 = 0) := by omega
    have h1 : ¬ ((R2.take k).length + 2 = 1) := by omega
    rw [if_neg h0, if_neg h1]
    have g2 : ((R2.take k).reverse ++ [b, a])[(R2.take k).length + 2 - 2]? = some b := by
      rw [List.getElem?_append_right (by simp)]; simp
    have g1 : ((R2.take k).reverse ++ [b, a])[(R2.take k).length + 2 - 1]? = some a := by
      rw [List.getElem?_append_right (by simp)]; simp
    rw [g2, g1]
    simp only [Spec.flexCoef, List.headD_cons, List.tail_cons, nat_eq]
    congr 1; ring

structure Inv (N : Nat) (s : FlexState α) (xs : List α) : Prop where
  hq : s.q = ((R N xs).take N).reverse
  hl : xs ≠ [] → s.lastVal = (xs.getLast?).getD (nat 0)
  hn : (s.lastM, s.out) = (dsList N (R N xs).reverse).foldl (normStep false) (nat 0, none)

theorem R_length (N : Nat) (xs : List α) : (R N xs).length = xs.length := SS.foldState_length _ _ xs

theorem emit_eq (N : Nat) (lastM v : α) (q : List α) (dsum : α) (dflt : Option α) :
    flexEmit N lastM v q dsum dflt = .ok
      { lastVal := v, lastM := dec 4 100 * sq (dsum / nat N) + dec 96 100 * lastM, q := q,
        out := if nat 0 < dec 4 100 * sq (dsum / nat N) + dec 96 100 * lastM
               then some (dsum / nat N / Transc.sqrt (dec 4 100 * sq (dsum / nat N) + dec 96 100 * lastM)) else dflt } := by
  simp only [flexEmit]
  split <;> simp [assertFinite_exact, bind, Except.bind, pure, Except.pure]

theorem step_ok (N : Nat) (hN : 3 ≤ N) (s : FlexState α) (xs : List α) (x : α) (h : Inv N s xs) :
    ∃ s', (tflexCore N).step s x = .ok s' ∧ Inv N s' (xs ++ [x]) := by
  obtain ⟨hq, hl, hn⟩ := h
  have hN0 : 0 < N := by omega
  -- the previous input the filter sees
  have hlv : (if s.q.isEmpty then x else s.lastVal) = (xs.getLast?).getD x := by
    cases xs with
    | nil => simp [hq, R, SS.foldState]
    | cons a r =>
      have hne : s.q ≠ [] := by
        rw [hq]; intro e
        have := congrArg List.length e
        simp [R_length] at this; omega
      have : s.q.isEmpty = false := by cases hs : s.q <;> simp_all
      rw [this, hl (by simp)]
      cases hg : (a :: r).getLast? with
      | none => simp at hg
      | some y => simp
  set f := (flexCoef N).c1 * (x + (xs.getLast?).getD x) / nat 2 + (flexCoef N).b1 * (R N xs).headD (nat 0)
        + (flexCoef N).c3 * (R N xs).tail.headD (nat 0) with hf
  have hR : R N (xs ++ [x]) = f :: R N xs := R_snoc N xs x
  have hqn : flexTrim N s.q ++ [f] = ((f :: R N xs).take N).reverse := by
    rw [hq, trim_eq N hN0]
    obtain ⟨k, rfl⟩ : ∃ k, N = k + 1 := ⟨N - 1, by omega⟩
    simp [List.take_succ_cons]
  have hstep : (tflexCore N).step s x =
      (flexFilt N (flexTrim N s.q) x (if s.q.isEmpty then x else s.lastVal) >>= fun filt =>
        tflexDsum (flexTrim N s.q ++ [filt]) filt >>= fun dsum =>
          flexEmit N s.lastM x (flexTrim N s.q ++ [filt]) dsum (some (nat 0))) := rfl
  rw [hstep, hlv, hq, trim_eq N hN0, filt_eq N hN, ← hf]
  simp only [bind, Except.bind]
  rw [← trim_eq N hN0, ← hq, hqn, tflexDsum_eq]
  simp only [List.reverse_reverse]
  rw [emit_eq]
  refine ⟨_, rfl, ?_, ?_, ?_⟩
  · rw [hR]
  · intro _; simp
  · rw [hR, List.reverse_cons, dsList_snoc, List.foldl_append, ← hn]
    have hlen : (R N xs).reverse.length = (R N xs).length := by simp
    rw [hlen, ← List.reverse_cons, D_last N hN0]
    simp only [List.foldl_cons, List.foldl_nil, normStep, Bool.false_eq_true, if_false]

theorem run_ok (N : Nat) (hN : 3 ≤ N) (xs : List α) :
    ∃ s, (tflexCore (α := α) N).run (tflexCore (α := α) N).init xs = .ok s ∧ Inv N s xs :=
  Core.run_invariant_init (tflexCore N) (Inv N)
    ⟨by simp [tflexCore, R, SS.foldState], fun h => absurd rfl h, by simp [tflexCore, R, SS.foldState, dsList]⟩
    (fun s pre x h => step_ok N hN s pre x h) xs

theorem out_eq (N : Nat) (s : FlexState α) (xs : List α) (h : Inv N s xs) :
    (tflexCore N).out s = .ok (Spec.trendFlex N xs) := by
  show pure s.out = _
  cases xs with
  | nil => have := h.hn; simp [R, SS.foldState, dsList] at this; simp [this.2, Spec.trendFlex, pure, Except.pure]
  | cons a r =>
    rw [trendFlex_cons]
    have := h.hn
    simp only [R, List.headD_cons] at this
    rw [SS.smoothSeq_eq, ← this]; rfl

/-- **TrendFlex equals the batch re-evaluation** (N ≥ 3): the flex smoother started with x(−1) = x(0), mean deviation of
the newest filter value from the last min(t+1, N) filter values divided by N, leaky 0.04/0.96 mean square, ratio -/
theorem trendFlex_eq (N : Nat) (hN : 3 ≤ N) (xs : List α) :
    (tflexCore (α := α) N).outAfter xs = .ok (Spec.trendFlex N xs) :=
  Core.outAfter_of_inv _ (Inv N) (Spec.trendFlex N) (run_ok N hN) (fun s xs h => out_eq N s xs h) xs

theorem size_le (N : Nat) (hN : 3 ≤ N) (xs : List α) (s : FlexState α)
    (h : (tflexCore (α := α) N).run (tflexCore (α := α) N).init xs = .ok s) : (tflexCore (α := α) N).size s ≤ N := by
  obtain ⟨s', hs, hi⟩ := run_ok (α := α) N hN xs
  rw [h] at hs; cases hs
  show s.q.length ≤ N
  rw [hi.hq]; simp
end SF.Flex

namespace SF.ReFlex
open SF SF.Spec SF.Flex
set_option linter.unusedSectionVars false
set_option linter.unusedSimpArgs false
variable {α : Type} [Field α] [LinearOrder α] [IsStrictOrderedRing α] [FloatLike α] [ExactScalar α] [Transc α]

theorem rflexDsum_eq (q : List α) (filt slope : α) :
    rflexDsum q filt slope = .ok (sumL (q.reverse.zipIdx.map fun (x, i) => (filt + nat i * slope) - x)) := by
  have := loop_eq q (fun i x => (filt + nat i * slope) - x) q.length (le_refl _)
  simp only [rflexDsum, forRange, Nat.sub_zero]
  rw [this, List.take_of_length_le (by simp)]

def D (N : Nat) (fs : List α) (t : Nat) : α :=
  sumL ((List.range (min t (N - 1) + 1)).map fun i =>
    ((fs[t]?.getD (nat 0)) + nat i * (((fs[t - min t (N - 1)]?.getD (nat 0)) - (fs[t]?.getD (nat 0))) / nat N))
      - (fs[t - i]?.getD (nat 0))) / nat N

def dsList (N : Nat) (fs : List α) : List α := (List.range fs.length).map (D N fs)

theorem reFlex_cons (N : Nat) (x0 : α) (r : List α) :
    Spec.reFlex N (x0 :: r) =
      ((dsList N (smoothSeq (flexCoef N) x0 (x0 :: r)).reverse).foldl (normStep true) (nat 0, none)).2 := rfl

theorem D_prefix (N : Nat) (fs : List α) (f : α) (t : Nat) (ht : t < fs.length) : D N (fs ++ [f]) t = D N fs t := by
  simp only [D]
  rw [List.getElem?_append_left ht, List.getElem?_append_left (by omega : t - min t (N - 1) < fs.length)]
  congr 2
  apply List.map_congr_left
  intro i _
  rw [List.getElem?_append_left (by omega : t - i < fs.length)]

theorem dsList_snoc (N : Nat) (fs : List α) (f : α) :
    dsList N (fs ++ [f]) = dsList N fs ++ [D N (fs ++ [f]) fs.length] := by
  simp only [dsList, List.length_append, List.length_singleton, List.range_succ, List.map_append, List.map_cons, List.map_nil]
  congr 1
  apply List.map_congr_left
  intro t ht
  exact D_prefix N fs f t (List.mem_range.mp ht)

theorem range_map_getElem_idx (l : List α) (h : Nat → α → α) (k : Nat) (hk : k ≤ l.length) :
    (List.range k).map (fun i => h i (l[i]?.getD (nat 0))) = (l.take k).zipIdx.map fun (x, i) => h i x := by
  induction k with
  | zero => simp
  | succ k ih =>
    have hlt : k < l.length := by omega
    rw [List.range_succ, List.map_append, ih (by omega), List.take_add_one, List.getElem?_eq_getElem hlt]
    simp only [List.map_cons, List.map_nil, Option.toList_some, List.zipIdx_append, List.map_append,
      List.getElem?_eq_getElem hlt, Option.getD_some, List.zipIdx_cons, List.zipIdx_nil, List.length_take, Nat.zero_add]
    rw [Nat.min_eq_left (by omega)]

/-- the newest deviation, in terms of the newest-first list f :: R of filter values -/
theorem D_last (N : Nat) (hN : 0 < N) (R : List α) (f : α) :
    D N (f :: R).reverse R.length =
      sumL (((f :: R).take N).zipIdx.map fun (x, i) =>
        (f + nat i * ((((f :: R).take N).getLast?.getD (nat 0) - f) / nat N)) - x) / nat N := by
  simp only [D]
  congr 1
  have hft : (f :: R).reverse[R.length]?.getD (nat 0) = f := by
    rw [List.getElem?_reverse (by simp)]; simp
  have hm : min R.length (N - 1) + 1 = ((f :: R).take N).length := by simp; omega
  have hfr : (f :: R).reverse[R.length - min R.length (N - 1)]?.getD (nat 0) = ((f :: R).take N).getLast?.getD (nat 0) := by
    rw [List.getElem?_reverse (by simp; omega)]
    rw [List.getLast?_eq_getElem?, List.getElem?_take_of_lt (by rw [← hm]; omega)]
    congr 2
    simp only [List.length_cons, List.length_take]; omega
  rw [hft, hfr]
  set sl := (((f :: R).take N).getLast?.getD (nat 0) - f) / nat N
  have hi : ∀ i ∈ List.range (min R.length (N - 1) + 1),
      ((f + nat i * sl) - ((f :: R).reverse[R.length - i]?.getD (nat 0))) =
        (fun i x => (f + nat i * sl) - x) i ((f :: R)[i]?.getD (nat 0)) := by
    intro i hi
    have hi' : i ≤ R.length := by have := List.mem_range.mp hi; omega
    simp only
    rw [List.getElem?_reverse (by simp; omega)]
    congr 3
    simp; omega
  rw [List.map_congr_left hi, range_map_getElem_idx (f :: R) (fun i x => (f + nat i * sl) - x) _ (by simp)]
  congr 3
  rcases Nat.lt_or_ge R.length (N - 1) with h | h
  · rw [Nat.min_eq_left (Nat.le_of_lt h), List.take_of_length_le (by simp), List.take_of_length_le (by simp; omega)]
  · rw [Nat.min_eq_right h]; congr 1; omega

theorem front_reverse (L : List α) (h : L ≠ []) : front L.reverse = .ok (L.getLast?.getD (nat 0)) := by
  cases hrev : L.reverse with
  | nil => simp at hrev; exact absurd hrev h
  | cons y ys =>
    have : L.getLast? = some y := by rw [← List.head?_reverse, hrev]; rfl
    simp [front, this, pure, Except.pure]

structure Inv (N : Nat) (s : FlexState α) (xs : List α) : Prop where
  hq : s.q = ((R N xs).take N).reverse
  hl : xs ≠ [] → s.lastVal = (xs.getLast?).getD (nat 0)
  hn : (s.lastM, s.out) = (dsList N (R N xs).reverse).foldl (normStep true) (nat 0, none)

theorem step_ok (N : Nat) (hN : 3 ≤ N) (s : FlexState α) (xs : List α) (x : α) (h : Inv N s xs) :
    ∃ s', (rflexCore N).step s x = .ok s' ∧ Inv N s' (xs ++ [x]) := by
  obtain ⟨hq, hl, hn⟩ := h
  have hN0 : 0 < N := by omega
  have hlv : (if s.q.isEmpty then x else s.lastVal) = (xs.getLast?).getD x := by
    cases xs with
    | nil => simp [hq, R, SS.foldState]
    | cons a r =>
      have hne : s.q ≠ [] := by
        rw [hq]; intro e
        have := congrArg List.length e
        simp [R_length] at this; omega
      have : s.q.isEmpty = false := by cases hs : s.q <;> simp_all
      rw [this, hl (by simp)]
      cases hg : (a :: r).getLast? with
      | none => simp at hg
      | some y => simp
  set f := (flexCoef N).c1 * (x + (xs.getLast?).getD x) / nat 2 + (flexCoef N).b1 * (R N xs).headD (nat 0)
        + (flexCoef N).c3 * (R N xs).tail.headD (nat 0) with hf
  have hR : R N (xs ++ [x]) = f :: R N xs := R_snoc N xs x
  have hqn : flexTrim N s.q ++ [f] = ((f :: R N xs).take N).reverse := by
    rw [hq, trim_eq N hN0]
    obtain ⟨k, rfl⟩ : ∃ k, N = k + 1 := ⟨N - 1, by omega⟩
    simp [List.take_succ_cons]
  have hstep : (rflexCore N).step s x =
      (flexFilt N (flexTrim N s.q) x (if s.q.isEmpty then x else s.lastVal) >>= fun filt =>
        front (flexTrim N s.q ++ [filt]) >>= fun fr =>
        rflexDsum (flexTrim N s.q ++ [filt]) filt ((fr - filt) / nat N) >>= fun dsum =>
          flexEmit N s.lastM x (flexTrim N s.q ++ [filt]) dsum s.out) := rfl
  have hfront : front (((f :: R N xs).take N).reverse) = .ok (((f :: R N xs).take N).getLast?.getD (nat 0)) :=
    front_reverse _ (by intro e; have := congrArg List.length e; simp at this; omega)
  rw [hstep, hlv, hq, trim_eq N hN0, filt_eq N hN, ← hf]
  simp only [bind, Except.bind]
  rw [← trim_eq N hN0, ← hq, hqn, hfront]
  simp only []
  rw [rflexDsum_eq]
  simp only [List.reverse_reverse]
  rw [emit_eq]
  refine ⟨_, rfl, ?_, ?_, ?_⟩
  · rw [hR]
  · intro _; simp
  · rw [hR, List.reverse_cons, dsList_snoc, List.foldl_append, ← hn]
    have hlen : (R N xs).reverse.length = (R N xs).length := by simp
    rw [hlen, ← List.reverse_cons, D_last N hN0]
    simp only [List.foldl_cons, List.foldl_nil, normStep, if_true]

theorem run_ok (N : Nat) (hN : 3 ≤ N) (xs : List α) :
    ∃ s, (rflexCore (α := α) N).run (rflexCore (α := α) N).init xs = .ok s ∧ Inv N s xs :=
  Core.run_invariant_init (rflexCore N) (Inv N)
    ⟨by simp [rflexCore, R, SS.foldState], fun h => absurd rfl h, by simp [rflexCore, R, SS.foldState, dsList]⟩
    (fun s pre x h => step_ok N hN s pre x h) xs

theorem out_eq (N : Nat) (s : FlexState α) (xs : List α) (h : Inv N s xs) :
    (rflexCore N).out s = .ok (Spec.reFlex N xs) := by
  show pure s.out = _
  cases xs with
  | nil => have := h.hn; simp [R, SS.foldState, dsList] at this; simp [this.2, Spec.reFlex, pure, Except.pure]
  | cons a r =>
    rw [reFlex_cons]
    have := h.hn
    simp only [R, List.headD_cons] at this
    rw [SS.smoothSeq_eq, ← this]; rfl

/-- **ReFlex equals the batch re-evaluation** (N ≥ 3): as TrendFlex, but the deviations are taken from the line through
the newest and the oldest filter value of the window, and the previous output is held while the mean square is 0 -/
theorem reFlex_eq (N : Nat) (hN : 3 ≤ N) (xs : List α) :
    (rflexCore (α := α) N).outAfter xs = .ok (Spec.reFlex N xs) :=
  Core.outAfter_of_inv _ (Inv N) (Spec.reFlex N) (run_ok N hN) (fun s xs h => out_eq N s xs h) xs

theorem size_le (N : Nat) (hN : 3 ≤ N) (xs : List α) (s : FlexState α)
    (h : (rflexCore (α := α) N).run (rflexCore (α := α) N).init xs = .ok s) : (rflexCore (α := α) N).size s ≤ N := by
  obtain ⟨s', hs, hi⟩ := run_ok (α := α) N hN xs
  rw [h] at hs; cases hs
  show s.q.length ≤ N
  rw [hi.hq]; simp
end SF.ReFlex
