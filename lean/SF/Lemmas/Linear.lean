import SF.Lemmas.Roof
import SF.Lemmas.Lagf
/- Linearity of the recursive specs (SuperSmoother sequence, Laguerre ladder, Roofing high-pass) in the input stream. -/
namespace SF.Linear
open SF SF.Spec
set_option linter.unusedSectionVars false
set_option linter.unusedSimpArgs false
variable {α : Type} [Field α] [LinearOrder α] [IsStrictOrderedRing α] [FloatLike α] [ExactScalar α] [Transc α]

def lin (a b : α) (xs ys : List α) : List α := List.zipWith (fun x y => a * x + b * y) xs ys

theorem lin_snoc (a b : α) (xs ys : List α) (x y : α) (h : xs.length = ys.length) :
    lin a b (xs ++ [x]) (ys ++ [y]) = lin a b xs ys ++ [a * x + b * y] := by
  simp only [lin]; rw [List.zipWith_append h]; simp

theorem headD_lin (a b : α) (l r : List α) (h : l.length = r.length) :
    (lin a b l r).headD 0 = a * l.headD 0 + b * r.headD 0 := by
  cases l <;> cases r <;> simp_all [lin]

theorem tail_lin (a b : α) (l r : List α) : (lin a b l r).tail = lin a b l.tail r.tail := by
  cases l <;> cases r <;> simp [lin]

/-- the SuperSmoother fold state is linear in (input stream, pad) -/
theorem foldState_lin (c : Coef α) (a b p q : α) (xs ys : List α) (h : xs.length = ys.length) :
    SS.foldState c (a * p + b * q) (lin a b xs ys) =
      (lin a b (SS.foldState c p xs).1 (SS.foldState c q ys).1, a * (SS.foldState c p xs).2 + b * (SS.foldState c q ys).2) := by
  induction xs using List.reverseRecOn generalizing ys with
  | nil =>
    have : ys = [] := by cases ys <;> simp_all
    subst this; simp [SS.foldState, lin]
  | append_singleton xs x ih =>
    rcases List.eq_nil_or_concat ys with rfl | ⟨ys', y, rfl⟩
    · simp at h
    · simp only [List.concat_eq_append] at h ⊢
      have hl : xs.length = ys'.length := by simpa using h
      rw [lin_snoc a b xs ys' x y hl, SS.foldState_snoc, SS.foldState_snoc, SS.foldState_snoc, ih ys' hl]
      have hlen : (SS.foldState c p xs).1.length = (SS.foldState c q ys').1.length := by
        rw [SS.foldState_length, SS.foldState_length, hl]
      have hlen2 : (SS.foldState c p xs).1.tail.length = (SS.foldState c q ys').1.tail.length := by simp [hlen]
      have e1 := headD_lin a b _ _ hlen
      have e2 : (lin a b (SS.foldState c p xs).1 (SS.foldState c q ys').1).tail.headD 0
          = a * (SS.foldState c p xs).1.tail.headD 0 + b * (SS.foldState c q ys').1.tail.headD 0 := by
        rw [tail_lin, headD_lin a b _ _ hlen2]
      simp only [nat_eq, Nat.cast_zero, Nat.cast_ofNat, e1, e2]
      have e3 : ∀ (u v : α) (l r : List α), lin a b (u :: l) (v :: r) = (a * u + b * v) :: lin a b l r := by
        intro u v l r; rfl
      rw [e3]
      congr 2
      ring

def olin (a b : α) : Option α → Option α → Option α
  | some u, some v => some (a * u + b * v)
  | _, _ => none

theorem head?_lin (a b : α) (l r : List α) (h : l.length = r.length) :
    (lin a b l r).head? = olin a b l.head? r.head? := by
  cases l <;> cases r <;> simp_all [lin, olin]

/-- **SuperSmoother obeys superposition** -/
theorem superSmoother_linear (N : Nat) (a b : α) (xs ys : List α) (h : xs.length = ys.length) :
    Spec.superSmoother N (lin a b xs ys) = olin a b (Spec.superSmoother N xs) (Spec.superSmoother N ys) := by
  have hl : (lin a b xs ys).length = xs.length := by simp [lin, h]
  simp only [Spec.superSmoother, hl]
  by_cases hx : xs.length < N
  · have hy : ys.length < N := by omega
    simp [hx, hy, olin]
  · have hy : ¬ ys.length < N := by omega
    simp only [hx, hy, if_false, SS.smoothSeq_eq]
    have := foldState_lin (Spec.ssCoef (α := α) N) a b 0 0 xs ys h
    simp only [mul_zero, add_zero, nat_eq, Nat.cast_zero] at this ⊢
    rw [this]
    exact head?_lin a b _ _ (by rw [SS.foldState_length, SS.foldState_length, h])

/-- the Laguerre ladder is linear in (initial state, input) -/
theorem ladder_lin (g a b : α) (i j : α × α × α × α) (xs ys : List α) (h : xs.length = ys.length) :
    lagLadder g (a * i.1 + b * j.1, a * i.2.1 + b * j.2.1, a * i.2.2.1 + b * j.2.2.1, a * i.2.2.2 + b * j.2.2.2) (lin a b xs ys)
      = (a * (lagLadder g i xs).1 + b * (lagLadder g j ys).1, a * (lagLadder g i xs).2.1 + b * (lagLadder g j ys).2.1,
         a * (lagLadder g i xs).2.2.1 + b * (lagLadder g j ys).2.2.1, a * (lagLadder g i xs).2.2.2 + b * (lagLadder g j ys).2.2.2) := by
  induction xs using List.reverseRecOn generalizing ys with
  | nil =>
    have : ys = [] := by cases ys <;> simp_all
    subst this; simp [lagLadder, lin]
  | append_singleton xs x ih =>
    rcases List.eq_nil_or_concat ys with rfl | ⟨ys', y, rfl⟩
    · simp at h
    · simp only [List.concat_eq_append] at h ⊢
      have hl : xs.length = ys'.length := by simpa using h
      rw [lin_snoc a b xs ys' x y hl, Lagf.ladder_snoc, Lagf.ladder_snoc, Lagf.ladder_snoc, ih ys' hl]
      simp only [nat_eq, Nat.cast_one, Prod.mk.injEq]
      refine ⟨by ring, by ring, by ring, by ring⟩

/-- **LaguerreFilter obeys superposition** -/
theorem laguerre_linear (g a b : α) (xs ys : List α) (h : xs.length = ys.length) :
    Spec.laguerreFilter g (lin a b xs ys) = olin a b (Spec.laguerreFilter g xs) (Spec.laguerreFilter g ys) := by
  cases xs with
  | nil =>
    have : ys = [] := by cases ys <;> simp_all
    subst this; simp [Spec.laguerreFilter, lin, olin]
  | cons x0 r =>
    cases ys with
    | nil => simp at h
    | cons y0 r' =>
      have hl : r.length = r'.length := by simpa using h
      have e : lin a b (x0 :: r) (y0 :: r') = (a * x0 + b * y0) :: lin a b r r' := by simp [lin]
      rw [e]
      have := ladder_lin g a b (x0, x0, x0, x0) (y0, y0, y0, y0) r r' hl
      simp only [Spec.laguerreFilter, olin, this, nat_eq, Nat.cast_ofNat, Option.some.injEq]
      ring

/-- LaguerreFilter maps a constant stream to the same constant from its first output -/
theorem laguerre_const (g c : α) (n : Nat) : Spec.laguerreFilter g (List.replicate (n + 1) c) = some c := by
  simp only [List.replicate_succ, Spec.laguerreFilter]
  have : lagLadder g (c, c, c, c) (List.replicate n c) = (c, c, c, c) := by
    induction n with
    | zero => simp [lagLadder]
    | succ n ih =>
      rw [List.replicate_succ', Lagf.ladder_snoc, ih]
      simp only [nat_eq, Nat.cast_one, Prod.mk.injEq]
      refine ⟨by ring, by ring, by ring, by ring⟩
  rw [this]; simp only [nat_eq, Nat.cast_ofNat, Option.some.injEq]; ring

/-- the Roofing high-pass fold state is linear in the input -/
theorem hpFold_lin (N : Nat) (a b : α) (xs ys : List α) (h : xs.length = ys.length) :
    Roof.hpFold N (lin a b xs ys) =
      (lin a b (Roof.hpFold N xs).1 (Roof.hpFold N ys).1, a * (Roof.hpFold N xs).2.1 + b * (Roof.hpFold N ys).2.1,
        a * (Roof.hpFold N xs).2.2 + b * (Roof.hpFold N ys).2.2) := by
  induction xs using List.reverseRecOn generalizing ys with
  | nil =>
    have : ys = [] := by cases ys <;> simp_all
    subst this; simp [Roof.hpFold, lin]
  | append_singleton xs x ih =>
    rcases List.eq_nil_or_concat ys with rfl | ⟨ys', y, rfl⟩
    · simp at h
    · simp only [List.concat_eq_append] at h ⊢
      have hl : xs.length = ys'.length := by simpa using h
      rw [lin_snoc a b xs ys' x y hl, Roof.hpFold_snoc, Roof.hpFold_snoc, Roof.hpFold_snoc, ih ys' hl]
      have hlen : (Roof.hpFold N xs).1.length = (Roof.hpFold N ys').1.length := by
        rw [Roof.hpFold_length, Roof.hpFold_length, hl]
      have hlen2 : (Roof.hpFold N xs).1.tail.length = (Roof.hpFold N ys').1.tail.length := by simp [hlen]
      have e1 := headD_lin a b _ _ hlen
      have e2 : (lin a b (Roof.hpFold N xs).1 (Roof.hpFold N ys').1).tail.headD 0
          = a * (Roof.hpFold N xs).1.tail.headD 0 + b * (Roof.hpFold N ys').1.tail.headD 0 := by
        rw [tail_lin, headD_lin a b _ _ hlen2]
      have e3 : ∀ (u v : α) (l r : List α), lin a b (u :: l) (v :: r) = (a * u + b * v) :: lin a b l r := by
        intro u v l r; rfl
      simp only [Roof.hpNext, nat_eq, Nat.cast_zero, Nat.cast_ofNat, Nat.cast_one, e1, e2]
      rw [e3]
      congr 2
      ring

theorem lin_reverse (a b : α) (l r : List α) (h : l.length = r.length) :
    (lin a b l r).reverse = lin a b l.reverse r.reverse := by
  simp only [lin]; rw [List.reverse_zipWith h]

theorem lin_drop (a b : α) (l r : List α) (n : Nat) : (lin a b l r).drop n = lin a b (l.drop n) (r.drop n) := by
  simp only [lin]; rw [List.drop_zipWith]

/-- **RoofingFilter obeys superposition** -/
theorem roofing_linear (N M' : Nat) (a b : α) (xs ys : List α) (h : xs.length = ys.length) :
    Spec.roofing N M' (lin a b xs ys) = olin a b (Spec.roofing N M' xs) (Spec.roofing N M' ys) := by
  simp only [Spec.roofing, Roof.hpSeq_eq, hpFold_lin N a b xs ys h]
  have hlen : (Roof.hpFold N xs).1.length = (Roof.hpFold N ys).1.length := by
    rw [Roof.hpFold_length, Roof.hpFold_length, h]
  rw [lin_reverse a b _ _ hlen, lin_drop]
  exact superSmoother_linear M' a b _ _ (by simp [hlen])

end SF.Linear
