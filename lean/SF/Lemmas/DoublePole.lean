import SF.Lemmas.Roof
import SF.Lemmas.CyberCycle
import SF.Lemmas.Real
import SF.Lemmas.SsStable
import Mathlib.Analysis.Real.Pi.Bounds
import Mathlib.Tactic.Ring
import Mathlib.Tactic.Linarith
import Mathlib.Tactic.FieldSimp
/-
  Two-pole sections with a DOUBLE REAL pole p, |p| ≤ ρ < 1:   h(t) = u(t) + 2p·h(t−1) − p²·h(t−2).
  Writing w(t) = h(t) − p·h(t−1) one gets w(t) = u(t) + p·w(t−1): two cascaded one-pole sections.  Hence
  |u| ≤ U for ever  ⇒  |w| ≤ U/(1−ρ) and |h| ≤ U/(1−ρ)² for ever, and with u ≡ 0 both decay geometrically.
  Instances: the high-pass of the RoofingFilter (p = 1 − α, α = (cos θ + sin θ − 1)/cos θ, θ = 4.4422/N) and CyberCycle
  (p = 1 − 2/(N+1)).
-/
namespace SF.DoublePole
open SF SF.Spec
set_option linter.unusedSectionVars false
set_option linter.unusedSimpArgs false

section field
variable {α : Type} [Field α] [LinearOrder α] [IsStrictOrderedRing α]

/-- one step of the double-pole recursion keeps both the "first-stage" bound W = U/(1−ρ) and the output bound W/(1−ρ) -/
theorem step (p ρ U u h1 h2 : α) (hρ0 : 0 ≤ ρ) (hρ1 : ρ < 1) (hp : |p| ≤ ρ) (hu : |u| ≤ U)
    (hw : |h1 - p * h2| ≤ U / (1 - ρ)) (hy : |h1| ≤ U / (1 - ρ) / (1 - ρ)) :
    |(u + 2 * p * h1 - p * p * h2) - p * h1| ≤ U / (1 - ρ) ∧ |u + 2 * p * h1 - p * p * h2| ≤ U / (1 - ρ) / (1 - ρ) := by
  have h1ρ : 0 < 1 - ρ := by linarith
  set W := U / (1 - ρ) with hW
  set Y := W / (1 - ρ) with hY
  have eW : ρ * W + U = W := by rw [hW]; field_simp; ring
  have eY : ρ * Y + W = Y := by rw [hY]; field_simp; ring
  have e1 : (u + 2 * p * h1 - p * p * h2) - p * h1 = p * (h1 - p * h2) + u := by ring
  have hw' : |(u + 2 * p * h1 - p * p * h2) - p * h1| ≤ W := by
    rw [e1]
    calc |p * (h1 - p * h2) + u| ≤ |p * (h1 - p * h2)| + |u| := abs_add_le _ _
      _ ≤ ρ * W + U := by
        rw [abs_mul]; exact add_le_add (mul_le_mul hp hw (abs_nonneg _) hρ0) hu
      _ = W := eW
  refine ⟨hw', ?_⟩
  have e2 : u + 2 * p * h1 - p * p * h2 = p * h1 + ((u + 2 * p * h1 - p * p * h2) - p * h1) := by ring
  rw [e2]
  calc |p * h1 + ((u + 2 * p * h1 - p * p * h2) - p * h1)| ≤ |p * h1| + |(u + 2 * p * h1 - p * p * h2) - p * h1| := abs_add_le _ _
    _ ≤ ρ * Y + W := by rw [abs_mul]; exact add_le_add (mul_le_mul hp hy (abs_nonneg _) hρ0) hw'
    _ = Y := eY

/-- the homogeneous step (u = 0): with V = |h1| + λ·|h1 − p·h2|, λ = 2ρ/(1−ρ)… a simpler pair of facts suffices:
the first stage contracts by ρ, and the output obeys |h'| ≤ ρ|h1| + |w'| -/
theorem step_zero (p ρ h1 h2 : α) (hρ0 : 0 ≤ ρ) (hp : |p| ≤ ρ) :
    |(2 * p * h1 - p * p * h2) - p * h1| ≤ ρ * |h1 - p * h2| ∧
    |2 * p * h1 - p * p * h2| ≤ ρ * |h1| + ρ * |h1 - p * h2| := by
  have e1 : (2 * p * h1 - p * p * h2) - p * h1 = p * (h1 - p * h2) := by ring
  have hw : |(2 * p * h1 - p * p * h2) - p * h1| ≤ ρ * |h1 - p * h2| := by
    rw [e1, abs_mul]; exact mul_le_mul_of_nonneg_right hp (abs_nonneg _)
  refine ⟨hw, ?_⟩
  have e2 : 2 * p * h1 - p * p * h2 = p * h1 + ((2 * p * h1 - p * p * h2) - p * h1) := by ring
  rw [e2]
  calc |p * h1 + ((2 * p * h1 - p * p * h2) - p * h1)| ≤ |p * h1| + |(2 * p * h1 - p * p * h2) - p * h1| := abs_add_le _ _
    _ ≤ ρ * |h1| + ρ * |h1 - p * h2| := by
      rw [abs_mul]; exact add_le_add (mul_le_mul_of_nonneg_right hp (abs_nonneg _)) hw


/-- **homogeneous contraction**: with no input, V = |h| + λ·|h − p·h₋₁|, λ = 2ρ/(1−ρ), shrinks by σ = (1+ρ)/2 < 1 per step -/
theorem contraction (p ρ h1 h2 : α) (hρ0 : 0 ≤ ρ) (hρ1 : ρ < 1) (hp : |p| ≤ ρ) :
    |2 * p * h1 - p * p * h2| + 2 * ρ / (1 - ρ) * |(2 * p * h1 - p * p * h2) - p * h1|
      ≤ (1 + ρ) / 2 * (|h1| + 2 * ρ / (1 - ρ) * |h1 - p * h2|) := by
  have h1ρ : 0 < 1 - ρ := by linarith
  obtain ⟨hw, hh⟩ := step_zero p ρ h1 h2 hρ0 hp
  set H := |h1| with hH
  set W := |h1 - p * h2| with hW
  have hH0 : 0 ≤ H := abs_nonneg _
  have hW0 : 0 ≤ W := abs_nonneg _
  set lam := 2 * ρ / (1 - ρ) with hlam
  have hlam0 : 0 ≤ lam := div_nonneg (by linarith) h1ρ.le
  have e : ρ * W + lam * (ρ * W) = (1 + ρ) / 2 * (lam * W) := by rw [hlam]; field_simp; ring
  calc |2 * p * h1 - p * p * h2| + lam * |(2 * p * h1 - p * p * h2) - p * h1|
      ≤ (ρ * H + ρ * W) + lam * (ρ * W) := add_le_add hh (mul_le_mul_of_nonneg_left hw hlam0)
    _ = ρ * H + (1 + ρ) / 2 * (lam * W) := by rw [← e]; ring
    _ ≤ (1 + ρ) / 2 * H + (1 + ρ) / 2 * (lam * W) := by
        have : ρ ≤ (1 + ρ) / 2 := by linarith
        exact add_le_add (mul_le_mul_of_nonneg_right this hH0) (le_refl _)
    _ = (1 + ρ) / 2 * (H + lam * W) := by ring

/-- |x − 2y + z| ≤ 4B for three values bounded by B -/
theorem second_diff_bound (x y z B : α) (hx : |x| ≤ B) (hy : |y| ≤ B) (hz : |z| ≤ B) : |x - 2 * y + z| ≤ 4 * B := by
  have h1 := abs_le.mp hx; have h2 := abs_le.mp hy; have h3 := abs_le.mp hz
  rw [abs_le]; constructor <;> linarith [h1.1, h1.2, h2.1, h2.2, h3.1, h3.2]

end field

/-! ### CyberCycle: |c(t)| ≤ (N+1)²·B for ever -/
section cc
variable {α : Type} [Field α] [LinearOrder α] [IsStrictOrderedRing α] [FloatLike α] [ExactScalar α] [Transc α]

theorem at_bound (xs : List α) (B : α) (hB : 0 ≤ B) (hx : ∀ x ∈ xs, |x| ≤ B) (t : Int) : |at' xs (nat 0) t| ≤ B := by
  unfold at'
  split
  · simpa using hB
  · cases h : xs[t.toNat]? with
    | none => simpa using hB
    | some v => simpa using hx v (List.mem_of_getElem? h)

/-- the 4-tap smoothing (x + 2x₁ + 2x₂ + x₃)/6 of values bounded by B is bounded by B -/
theorem smS_bound (xs : List α) (B : α) (hB : 0 ≤ B) (hx : ∀ x ∈ xs, |x| ≤ B) (t : Int) : |CC.smS xs t| ≤ B := by
  have h0 := abs_le.mp (at_bound xs B hB hx t)
  have h1 := abs_le.mp (at_bound xs B hB hx (t - 1))
  have h2 := abs_le.mp (at_bound xs B hB hx (t - 2))
  have h3 := abs_le.mp (at_bound xs B hB hx (t - 3))
  unfold CC.smS
  simp only [nat_eq, Nat.cast_ofNat] at h0 h1 h2 h3 ⊢
  rw [abs_le]; constructor
  · rw [le_div_iff₀ (by norm_num)]; linarith [h0.1, h1.1, h2.1, h3.1]
  · rw [div_le_iff₀ (by norm_num)]; linarith [h0.2, h1.2, h2.2, h3.2]

/-- the pole of CyberCycle: p = 1 − 2/(N+1) ∈ [0, 1) and 1 − p = 2/(N+1) -/
theorem cc_pole (N : Nat) (hN : 1 ≤ N) :
    0 ≤ 1 - (2 : α) / ((N : α) + 1) ∧ 1 - (2 : α) / ((N : α) + 1) < 1 := by
  have hN' : (1 : α) ≤ (N : α) := by exact_mod_cast hN
  have hpos : (0 : α) < (N : α) + 1 := by linarith
  constructor
  · rw [sub_nonneg, div_le_one hpos]; linarith
  · have : (0 : α) < 2 / ((N : α) + 1) := div_pos (by norm_num) hpos
    linarith

/-- the input gain (1 − α/2)² of CyberCycle is at most 1 -/
theorem cc_gain (N : Nat) (hN : 1 ≤ N) :
    0 ≤ (1 - (5 : α) / 10 * (2 / ((N : α) + 1))) * (1 - (5 : α) / 10 * (2 / ((N : α) + 1))) ∧
    (1 - (5 : α) / 10 * (2 / ((N : α) + 1))) * (1 - (5 : α) / 10 * (2 / ((N : α) + 1))) ≤ 1 := by
  have hN' : (1 : α) ≤ (N : α) := by exact_mod_cast hN
  have hpos : (0 : α) < (N : α) + 1 := by linarith
  have h1 : (0 : α) < 2 / ((N : α) + 1) := div_pos (by norm_num) hpos
  have h2 : (2 : α) / ((N : α) + 1) ≤ 1 := by rw [div_le_one hpos]; linarith
  constructor
  · exact mul_self_nonneg _
  · nlinarith

/-- **CyberCycle is BIBO stable with a length-independent bound**: every value of the output sequence satisfies
|c| ≤ 4B/α² = (N+1)²·B, α = 2/(N+1) -/
theorem C_bibo (N : Nat) (hN : 1 ≤ N) (B : α) (xs : List α) (hx : ∀ x ∈ xs, |x| ≤ B) (hB : 0 ≤ B) (n : Nat) :
    (∀ c ∈ CC.C N xs n, |c| ≤ 4 * B / (2 / ((N : α) + 1)) / (2 / ((N : α) + 1))) ∧
    |(CC.C N xs n).headD 0 - (1 - 2 / ((N : α) + 1)) * (CC.C N xs n).tail.headD 0| ≤ 4 * B / (2 / ((N : α) + 1)) ∧
    (n < N → ∀ c ∈ CC.C N xs n, c = 0) := by
  have hpole := cc_pole (α := α) N hN
  have hgain := cc_gain (α := α) N hN
  set p : α := 1 - 2 / ((N : α) + 1) with hp
  have e1p : 1 - p = 2 / ((N : α) + 1) := by rw [hp]; ring
  have hN' : (1 : α) ≤ (N : α) := by exact_mod_cast hN
  have hpos : (0 : α) < (N : α) + 1 := by linarith
  have hal : (0 : α) < 2 / ((N : α) + 1) := div_pos (by norm_num) hpos
  have hW0 : 0 ≤ 4 * B / (2 / ((N : α) + 1)) := div_nonneg (by linarith) hal.le
  have hY0 : 0 ≤ 4 * B / (2 / ((N : α) + 1)) / (2 / ((N : α) + 1)) := div_nonneg hW0 hal.le
  induction n with
  | zero => simp [CC.C, hW0]
  | succ n ih =>
    obtain ⟨hall, hw, hz⟩ := ih
    rw [CC.C_succ]
    set acc := CC.C N xs n with hacc
    have hh1 : |acc.headD 0| ≤ 4 * B / (2 / ((N : α) + 1)) / (2 / ((N : α) + 1)) := by
      cases hl : acc with
      | nil => simpa using hY0
      | cons y l => simp; exact hall y (by rw [hl]; simp)
    unfold CC.stepC
    split
    · -- start-up: c = 0, and every earlier value is 0 as well
      rename_i hlt
      have hz' := hz (by omega)
      have hh0 : acc.headD 0 = 0 := by
        cases hl : acc with
        | nil => simp
        | cons y l => simp; exact hz' y (by rw [hl]; simp)
      refine ⟨?_, ?_, ?_⟩
      · intro c hc
        rcases List.mem_cons.mp hc with rfl | hc
        · simpa using hY0
        · exact hall c hc
      · simp only [nat_eq, Nat.cast_zero, List.headD_cons, List.tail_cons, hh0, mul_zero, sub_zero, abs_zero]
        exact hW0
      · intro _ c hc
        rcases List.mem_cons.mp hc with rfl | hc
        · simp
        · exact hz' c hc
    · rename_i hge
      set s0 := CC.smS xs (n : Int) with hs0
      set s1 := CC.smS xs ((n : Int) - 1) with hs1
      set s2 := CC.smS xs ((n : Int) - 2) with hs2
      set g : α := (1 - 5 / 10 * (2 / ((N : α) + 1))) * (1 - 5 / 10 * (2 / ((N : α) + 1))) with hg
      have hu : |g * (s0 - 2 * s1 + s2)| ≤ 4 * B := by
        rw [abs_mul, abs_of_nonneg hgain.1]
        have h4 := second_diff_bound s0 s1 s2 B (smS_bound xs B hB hx _) (smS_bound xs B hB hx _) (smS_bound xs B hB hx _)
        calc g * |s0 - 2 * s1 + s2| ≤ 1 * |s0 - 2 * s1 + s2| := mul_le_mul_of_nonneg_right hgain.2 (abs_nonneg _)
          _ = |s0 - 2 * s1 + s2| := one_mul _
          _ ≤ 4 * B := h4
      have hst := step p p (4 * B) (g * (s0 - 2 * s1 + s2)) (acc.headD 0) (acc.tail.headD 0) hpole.1 hpole.2
        (by rw [abs_of_nonneg hpole.1]) hu (by rw [e1p]; exact hw) (by rw [e1p]; exact hh1)
      rw [e1p] at hst
      have eform : sq (nat 1 - dec 5 10 * (nat 2 / (nat N + nat 1))) * (s0 - nat 2 * s1 + s2)
          + nat 2 * (nat 1 - nat 2 / (nat N + nat 1)) * acc.headD (nat 0)
          - sq (nat 1 - nat 2 / (nat N + nat 1)) * acc.tail.headD (nat 0)
          = g * (s0 - 2 * s1 + s2) + 2 * p * acc.headD 0 - p * p * acc.tail.headD 0 := by
        simp only [nat_eq, dec_eq, sq_eq, Nat.cast_ofNat, Nat.cast_one, Nat.cast_zero, hg, hp]
      rw [eform]
      refine ⟨?_, ?_, ?_⟩
      · intro c hc
        rcases List.mem_cons.mp hc with rfl | hc
        · exact hst.2
        · exact hall c hc
      · simpa using hst.1
      · intro h; omega

/-- **CyberCycle: bounded input ⇒ |output| ≤ (N+1)²·B, for every N ≥ 1 and every stream length** -/
theorem cyberCycle_bibo (N : Nat) (hN : 1 ≤ N) (B : α) (xs : List α) (hx : ∀ x ∈ xs, |x| ≤ B) (v : α)
    (h : Spec.cyberCycle N xs = some v) : |v| ≤ ((N : α) + 1) * ((N : α) + 1) * B := by
  have hB : 0 ≤ B := by
    cases xs with
    | nil => simp [Spec.cyberCycle] at h
    | cons x r => exact le_trans (abs_nonneg _) (hx x (by simp))
  rw [CC.cyberCycle_unfold] at h
  split at h
  · simp at h
  · have := (C_bibo N hN B xs hx hB xs.length).1 v (List.mem_of_mem_head? (by simpa using h))
    have hN' : (1 : α) ≤ (N : α) := by exact_mod_cast hN
    have hpos : (0 : α) < (N : α) + 1 := by linarith
    have e : 4 * B / (2 / ((N : α) + 1)) / (2 / ((N : α) + 1)) = ((N : α) + 1) * ((N : α) + 1) * B := by
      field_simp; ring
    rwa [e] at this


/-! #### fading memory of CyberCycle -/

/-- the output at time n -/
def cAt (N : Nat) (xs : List α) (n : Nat) : α := (CC.C N xs (n + 1)).headD 0

theorem C_succ_cons (N : Nat) (xs : List α) (n : Nat) : ∃ v, CC.C N xs (n + 1) = v :: CC.C N xs n := by
  rw [CC.C_succ]; unfold CC.stepC; split <;> exact ⟨_, rfl⟩

theorem C_tail_head (N : Nat) (xs : List α) (n : Nat) : (CC.C N xs (n + 2)).tail.headD 0 = cAt N xs n := by
  obtain ⟨v, hv⟩ := C_succ_cons N xs (n + 1)
  rw [hv]; rfl

/-- past the start-up the outputs obey the recursion -/
theorem cAt_rec (N : Nat) (xs : List α) (n : Nat) (hn : N ≤ n + 3) :
    cAt N xs (n + 2) =
      (1 - 5 / 10 * (2 / ((N : α) + 1))) * (1 - 5 / 10 * (2 / ((N : α) + 1))) *
          (CC.smS xs ((n + 2 : Nat) : Int) - 2 * CC.smS xs (((n + 2 : Nat) : Int) - 1) + CC.smS xs (((n + 2 : Nat) : Int) - 2))
        + 2 * (1 - 2 / ((N : α) + 1)) * cAt N xs (n + 1)
        - (1 - 2 / ((N : α) + 1)) * (1 - 2 / ((N : α) + 1)) * cAt N xs n := by
  unfold cAt
  rw [CC.C_succ N xs (n + 2)]
  unfold CC.stepC
  rw [if_neg (by omega)]
  have h2 := C_tail_head N xs n
  unfold cAt at h2
  simp only [List.headD_cons, nat_eq, dec_eq, sq_eq, Nat.cast_ofNat, Nat.cast_one, Nat.cast_zero, h2]

theorem at_append_right (xs t : List α) (k : Int) (hk : (xs.length : Int) ≤ k) :
    at' (xs ++ t) (nat 0) k = at' t (nat 0) (k - xs.length) := by
  unfold at'
  have h0 : ¬ k < 0 := by omega
  have h1 : ¬ k - (xs.length : Int) < 0 := by omega
  rw [if_neg h0, if_neg h1]
  have e : k.toNat = xs.length + (k - (xs.length : Int)).toNat := by omega
  rw [e, List.getElem?_append_right (by omega)]
  congr 2; omega

theorem smS_common_tail (xs ys t : List α) (hl : xs.length = ys.length) (k : Int) (hk : (xs.length : Int) + 3 ≤ k) :
    CC.smS (xs ++ t) k = CC.smS (ys ++ t) k := by
  unfold CC.smS
  rw [at_append_right xs t k (by omega), at_append_right xs t (k - 1) (by omega), at_append_right xs t (k - 2) (by omega),
    at_append_right xs t (k - 3) (by omega), at_append_right ys t k (by omega), at_append_right ys t (k - 1) (by omega),
    at_append_right ys t (k - 2) (by omega), at_append_right ys t (k - 3) (by omega), hl]

/-- **fading memory of CyberCycle.**  Two histories `xs ++ t`, `ys ++ t` with |xs| = |ys|: from five steps after the merge
(and past the start-up) the difference d of the outputs obeys the homogeneous recursion, so the functional
V(n) = |d(n+1)| + (N−1)·|d(n+1) − p·d(n)| shrinks by the factor N/(N+1) at every step, and |d(n+1)| ≤ V(n): geometric
convergence, for every N ≥ 1. -/
theorem cc_fading (N : Nat) (hN : 1 ≤ N) (xs ys t : List α) (hl : xs.length = ys.length) (m k : Nat)
    (hm1 : xs.length + 5 ≤ m + 2) (hm2 : N ≤ m + 3) :
    let p : α := 1 - 2 / ((N : α) + 1)
    let d := fun n => cAt N (xs ++ t) n - cAt N (ys ++ t) n
    let V := fun n => |d (n + 1)| + 2 * p / (1 - p) * |d (n + 1) - p * d n|
    V (m + k) ≤ ((1 + p) / 2) ^ k * V m ∧ |d (m + k + 1)| ≤ V (m + k) := by
  intro p d V
  have hpole := cc_pole (α := α) N hN
  have hlam0 : 0 ≤ 2 * p / (1 - p) := div_nonneg (by linarith [hpole.1]) (by linarith [hpole.2])
  have hV : ∀ n, |d (n + 1)| ≤ V n := fun n => le_add_of_nonneg_right (mul_nonneg hlam0 (abs_nonneg _))
  refine ⟨?_, hV _⟩
  have hrec : ∀ n, m ≤ n → d (n + 2) = 2 * p * d (n + 1) - p * p * d n := by
    intro n hn
    show cAt N (xs ++ t) (n + 2) - cAt N (ys ++ t) (n + 2) = _
    rw [cAt_rec N (xs ++ t) n (by omega), cAt_rec N (ys ++ t) n (by omega)]
    rw [smS_common_tail xs ys t hl _ (by push_cast; omega), smS_common_tail xs ys t hl _ (by push_cast; omega),
      smS_common_tail xs ys t hl _ (by push_cast; omega)]
    show _ = 2 * p * (cAt N (xs ++ t) (n + 1) - cAt N (ys ++ t) (n + 1)) - p * p * (cAt N (xs ++ t) n - cAt N (ys ++ t) n)
    ring
  induction k with
  | zero => simp
  | succ k ih =>
    have hstep : V (m + k + 1) ≤ (1 + p) / 2 * V (m + k) := by
      show |d (m + k + 1 + 1)| + 2 * p / (1 - p) * |d (m + k + 1 + 1) - p * d (m + k + 1)|
        ≤ (1 + p) / 2 * (|d (m + k + 1)| + 2 * p / (1 - p) * |d (m + k + 1) - p * d (m + k)|)
      rw [show m + k + 1 + 1 = (m + k) + 2 by ring, hrec (m + k) (by omega)]
      exact contraction p p (d (m + k + 1)) (d (m + k)) hpole.1 hpole.2 (by rw [abs_of_nonneg hpole.1])
    have hσ0 : 0 ≤ (1 + p) / 2 := by linarith [hpole.1]
    calc V (m + (k + 1)) = V (m + k + 1) := by rw [Nat.add_assoc]
      _ ≤ (1 + p) / 2 * V (m + k) := hstep
      _ ≤ (1 + p) / 2 * (((1 + p) / 2) ^ k * V m) := mul_le_mul_of_nonneg_left ih hσ0
      _ = ((1 + p) / 2) ^ (k + 1) * V m := by ring

end cc

/-! ### RoofingFilter: the high-pass pole 1 − α lies strictly inside the unit circle for every N ≥ 2 -/
section roof
/-- θ = 4.4422/N and the pole p = 1 − α = (1 − sin θ)/cos θ -/
noncomputable def roofTheta (N : Nat) : ℝ := 44422 / 10000 / N
noncomputable def roofPole (N : Nat) : ℝ := 1 - roofAlpha (α := ℝ) N

theorem roofAlpha_real (N : Nat) : roofAlpha (α := ℝ) N =
    (Real.cos (roofTheta N) + Real.sin (roofTheta N) - 1) / Real.cos (roofTheta N) := by
  simp [roofAlpha, roofTheta]

theorem roofPole_form (N : Nat) (hc : Real.cos (roofTheta N) ≠ 0) :
    roofPole N = (1 - Real.sin (roofTheta N)) / Real.cos (roofTheta N) := by
  rw [roofPole, roofAlpha_real]; field_simp; ring

/-- N ≥ 3: θ ∈ (0, π/2), so 0 < p < 1 -/
theorem roofPole_range_ge3 (N : Nat) (hN : 3 ≤ N) : 0 < roofPole N ∧ roofPole N < 1 := by
  have hN' : (3 : ℝ) ≤ (N : ℝ) := by exact_mod_cast hN
  have hθ0 : 0 < roofTheta N := by unfold roofTheta; positivity
  have hθ1 : roofTheta N < Real.pi / 2 := by
    have h1 : roofTheta N ≤ 44422 / 10000 / 3 := by
      unfold roofTheta
      apply div_le_div_of_nonneg_left (by norm_num) (by norm_num) hN'
    have := Real.pi_gt_d2
    linarith
  have hs : 0 < Real.sin (roofTheta N) := Real.sin_pos_of_pos_of_lt_pi hθ0 (by linarith [Real.pi_pos])
  have hc : 0 < Real.cos (roofTheta N) := Real.cos_pos_of_mem_Ioo ⟨by linarith [Real.pi_pos], hθ1⟩
  have hsc := Real.sin_sq_add_cos_sq (roofTheta N)
  have hs1 : Real.sin (roofTheta N) < 1 := by nlinarith
  rw [roofPole_form N hc.ne']
  constructor
  · exact div_pos (by linarith) hc
  · rw [div_lt_one hc]; nlinarith

/-- N = 2: θ = 2.2211 ∈ (π/2, π), so −1 < p ≤ 0 -/
theorem roofPole_range_2 : -1 < roofPole 2 ∧ roofPole 2 ≤ 0 := by
  have hθ : roofTheta 2 = 22211 / 10000 := by unfold roofTheta; norm_num
  have h1 : Real.pi / 2 < roofTheta 2 := by rw [hθ]; have := Real.pi_lt_d2; linarith
  have h2 : roofTheta 2 < Real.pi := by rw [hθ]; have := Real.pi_gt_d2; linarith
  have hs : 0 < Real.sin (roofTheta 2) := Real.sin_pos_of_pos_of_lt_pi (by rw [hθ]; norm_num) h2
  have hc : Real.cos (roofTheta 2) < 0 := Real.cos_neg_of_pi_div_two_lt_of_lt h1 (by linarith [Real.pi_pos])
  have hsc := Real.sin_sq_add_cos_sq (roofTheta 2)
  have hs1 : Real.sin (roofTheta 2) ≤ 1 := Real.sin_le_one _
  rw [roofPole_form 2 hc.ne]
  constructor
  · rw [lt_div_iff_of_neg hc]; nlinarith
  · exact div_nonpos_of_nonneg_of_nonpos (by linarith) hc.le

/-- **for every window length the constructor accepts (N ≥ 2) the high-pass pole satisfies |1 − α| < 1** -/
theorem roofPole_abs_lt_one (N : Nat) (hN : 2 ≤ N) : |roofPole N| < 1 := by
  rcases Nat.lt_or_ge N 3 with h | h
  · have : N = 2 := by omega
    subst this
    have := roofPole_range_2
    rw [abs_lt]; constructor <;> linarith [this.1, this.2]
  · have := roofPole_range_ge3 N h
    rw [abs_lt]; constructor <;> linarith [this.1, this.2]

/-- the two-pole high-pass of the RoofingFilter is BIBO: |x| ≤ B for ever ⇒ |hp| ≤ g·4B/(1−ρ)² for ever,
g = (1 − α/2)², ρ = |1 − α| < 1 -/
theorem hpSeq_bibo (N : Nat) (hN : 2 ≤ N) (B : ℝ) (xs : List ℝ) (hx : ∀ x ∈ xs, |x| ≤ B) (hB : 0 ≤ B) :
    ∀ h ∈ hpSeq N xs,
      |h| ≤ (1 - roofAlpha (α := ℝ) N / 2) * (1 - roofAlpha (α := ℝ) N / 2) * (4 * B) / (1 - |roofPole N|) / (1 - |roofPole N|) := by
  set ρ := |roofPole N| with hρ
  have hρ1 : ρ < 1 := roofPole_abs_lt_one N hN
  have hρ0 : 0 ≤ ρ := abs_nonneg _
  set g : ℝ := (1 - roofAlpha (α := ℝ) N / 2) * (1 - roofAlpha (α := ℝ) N / 2) with hg
  have hg0 : 0 ≤ g := mul_self_nonneg _
  set U := g * (4 * B) with hU
  have hU0 : 0 ≤ U := mul_nonneg hg0 (by linarith)
  have h1ρ : 0 < 1 - ρ := by linarith
  have hW0 : 0 ≤ U / (1 - ρ) := div_nonneg hU0 h1ρ.le
  have hY0 : 0 ≤ U / (1 - ρ) / (1 - ρ) := div_nonneg hW0 h1ρ.le
  have key : ∀ xs : List ℝ, (∀ x ∈ xs, |x| ≤ B) →
      (∀ h ∈ (Roof.hpFold N xs).1, |h| ≤ U / (1 - ρ) / (1 - ρ)) ∧
      |(Roof.hpFold N xs).1.headD 0 - roofPole N * (Roof.hpFold N xs).1.tail.headD 0| ≤ U / (1 - ρ) ∧
      |(Roof.hpFold N xs).2.1| ≤ B ∧ |(Roof.hpFold N xs).2.2| ≤ B := by
    intro xs
    induction xs using List.reverseRecOn with
    | nil => intro _; simp [Roof.hpFold, hW0, hB]
    | append_singleton xs x ih =>
      intro hx
      obtain ⟨hall, hw, hx1, hx2⟩ := ih (fun y hy => hx y (by simp [hy]))
      have hxB : |x| ≤ B := hx x (by simp)
      rw [Roof.hpFold_snoc]
      set st := Roof.hpFold N xs with hst
      have hh1 : |st.1.headD 0| ≤ U / (1 - ρ) / (1 - ρ) := by
        cases hl : st.1 with
        | nil => simpa using hY0
        | cons y l => simp; exact hall y (by rw [hl]; simp)
      have hu : |g * (x - 2 * st.2.1 + st.2.2)| ≤ U := by
        rw [abs_mul, abs_of_nonneg hg0, hU]
        exact mul_le_mul_of_nonneg_left (second_diff_bound x st.2.1 st.2.2 B hxB hx1 hx2) hg0
      have hstep := step (roofPole N) ρ U (g * (x - 2 * st.2.1 + st.2.2)) (st.1.headD 0) (st.1.tail.headD 0) hρ0 hρ1
        (le_refl _) hu hw hh1
      have eform : Roof.hpNext N st x = g * (x - 2 * st.2.1 + st.2.2) + 2 * roofPole N * st.1.headD 0
          - roofPole N * roofPole N * st.1.tail.headD 0 := by
        simp only [Roof.hpNext, nat_eq, sq_eq, Nat.cast_ofNat, Nat.cast_one, Nat.cast_zero, hg, roofPole]
      rw [eform]
      refine ⟨?_, ?_, hxB, hx1⟩
      · intro h hh
        rcases List.mem_cons.mp hh with rfl | hh
        · exact hstep.2
        · exact hall h hh
      · simpa using hstep.1
  intro h hh
  rw [Roof.hpSeq_eq] at hh
  have := (key xs hx).1 h hh
  simpa [hU] using this

/-- **RoofingFilter(N, M) is BIBO stable for every N ≥ 2, M ≥ 1, with a bound that does not depend on the stream length** -/
theorem roofing_bibo (N M' : Nat) (hN : 2 ≤ N) (hM : 0 < M') (B : ℝ) (xs : List ℝ) (hx : ∀ x ∈ xs, |x| ≤ B) (v : ℝ)
    (h : Spec.roofing N M' xs = some v) :
    |v| ≤ |(Spec.ssCoef (α := ℝ) M').c1| *
        ((1 - roofAlpha (α := ℝ) N / 2) * (1 - roofAlpha (α := ℝ) N / 2) * (4 * B) / (1 - |roofPole N|) / (1 - |roofPole N|))
        / (1 - SsStable.ssA M') ^ 2 := by
  have hB : 0 ≤ B := by
    cases xs with
    | nil => simp [Spec.roofing, Spec.superSmoother, hpSeq] at h; omega
    | cons x r => exact le_trans (abs_nonneg _) (hx x (by simp))
  unfold Spec.roofing at h
  apply SsStable.superSmoother_bibo M' hM _ _ _ v h
  intro y hy
  exact hpSeq_bibo N hN B xs hx hB y (List.mem_reverse.mp (List.mem_of_mem_drop hy))

end roof
end SF.DoublePole
