import SF.Lemmas.SpecFacts
import SF.Lemmas.MyRsi
/- Helper lemmas about successive differences (`changes`), gains / losses and Kendall's numerator under suffixes,
   scaling and negation — used by C03 (finite memory) and C12 (invariances). -/
namespace SF.Invar
open SF SF.Spec
set_option linter.unusedSectionVars false
set_option linter.unusedSimpArgs false
variable {α : Type} [Field α] [LinearOrder α] [IsStrictOrderedRing α] [FloatLike α] [ExactScalar α]

/-- successive differences -/
def diffs (xs : List α) : List α := (xs.tail.zip xs).map fun (x, p) => x - p

theorem changes_eq (xs : List α) (h : xs ≠ []) : changes xs = nat 0 :: diffs xs := by
  cases xs with
  | nil => exact absurd rfl h
  | cons a r => rfl

theorem diffs_drop (k : Nat) (xs : List α) : diffs (xs.drop k) = (diffs xs).drop k := by
  simp only [diffs, List.zip_eq_zipWith, ← List.map_drop, List.drop_zipWith, List.tail_drop]
  congr 2
  rw [← List.drop_one, List.drop_drop, Nat.add_comm]

theorem lastN_changes (N : Nat) (xs : List α) (h : N + 1 ≤ xs.length) :
    lastN N (changes xs) = diffs (lastN (N + 1) xs) := by
  have hne : xs ≠ [] := by intro e; subst e; simp at h
  have hl : (changes xs).length = xs.length := by
    rw [changes_eq xs hne]; simp [diffs]; omega
  simp only [lastN, hl]
  rw [changes_eq xs hne, diffs_drop]
  have : xs.length - N = (xs.length - (N + 1)) + 1 := by omega
  rw [this, List.drop_succ_cons]

theorem gains_suffix (N : Nat) (xs ys : List α) (hx : N + 1 ≤ xs.length) (hy : N + 1 ≤ ys.length)
    (h : lastN (N + 1) xs = lastN (N + 1) ys) : gains N xs = gains N ys ∧ losses N xs = losses N ys := by
  simp only [gains, losses, lastN_changes N xs hx, lastN_changes N ys hy, h, and_self]

theorem sgn0_scale (a d : α) (ha : 0 < a) : sgn0 (a * d) = sgn0 d := by
  unfold sgn0; simp only [nat_eq, Nat.cast_zero]
  by_cases h1 : 0 < d
  · simp [h1, mul_pos ha h1]
  · by_cases h2 : d < 0
    · have : a * d < 0 := mul_neg_of_pos_of_neg ha h2
      simp [h1, h2, this, not_lt.mpr this.le]
    · have : d = 0 := le_antisymm (not_lt.mp h1) (not_lt.mp h2)
      simp [this]

theorem sgn0_neg (d : α) : sgn0 (-d) = -sgn0 d := by
  unfold sgn0; simp only [nat_eq, Nat.cast_zero, Nat.cast_one]
  by_cases h1 : 0 < d
  · have : ¬ (0 < -d) := by linarith
    simp [h1, this]
  · by_cases h2 : d < 0
    · have : 0 < -d := by linarith
      simp [h1, h2, this]
    · have : d = 0 := le_antisymm (not_lt.mp h1) (not_lt.mp h2)
      simp [this]

theorem kendallNum_affine (a b : α) (ha : 0 < a) (w : List α) :
    kendallNum (w.map fun x => a * x + b) = kendallNum w := by
  induction w with
  | nil => rfl
  | cons x r ih =>
    simp only [List.map_cons, kendallNum, ih, List.map_map]
    congr 2
    apply List.map_congr_left
    intro y _
    simp only [Function.comp]
    rw [show a * y + b - (a * x + b) = a * (y - x) by ring, sgn0_scale _ _ ha]

theorem kendallNum_neg (w : List α) : kendallNum (w.map fun x => -x) = -kendallNum w := by
  induction w with
  | nil => simp [kendallNum, nat_eq]
  | cons x r ih =>
    simp only [List.map_cons, kendallNum, ih, List.map_map]
    have : sumL (r.map ((fun y => sgn0 (y - -x)) ∘ fun x => -x)) = -sumL (r.map fun y => sgn0 (y - x)) := by
      have e := sumL_map_mul (-1 : α) (r.map fun y => sgn0 (y - x))
      rw [neg_one_mul] at e; rw [← e, List.map_map]
      congr 1; apply List.map_congr_left; intro y _
      simp only [Function.comp]
      rw [show -y - -x = -(y - x) by ring, sgn0_neg]; ring
    rw [this]; ring

theorem changes_scale (a : α) (xs : List α) : changes (xs.map fun x => a * x) = (changes xs).map fun d => a * d := by
  cases xs with
  | nil => simp [changes]
  | cons x0 r =>
    simp only [changes, List.map_cons, nat_eq, Nat.cast_zero, mul_zero, List.cons.injEq, true_and]
    have e : (a * x0 :: List.map (fun x => a * x) r) = List.map (fun x => a * x) (x0 :: r) := rfl
    rw [e, List.zip_map, List.map_map, List.map_map]
    apply List.map_congr_left
    intro ⟨p, q⟩ _
    simp only [Function.comp, Prod.map]; ring

theorem gains_scale (N : Nat) (a : α) (ha : 0 < a) (xs : List α) : gains N (xs.map fun x => a * x) = a * gains N xs := by
  simp only [gains, changes_scale, lastN_map, List.map_map, ← sumL_map_mul]
  congr 1; apply List.map_congr_left; intro d _
  simp only [Function.comp, nat_eq, Nat.cast_zero]
  by_cases h : 0 < d
  · simp [h, mul_pos ha h]
  · have : ¬ 0 < a * d := by intro h'; nlinarith
    simp [h, this]

theorem losses_scale (N : Nat) (a : α) (ha : 0 < a) (xs : List α) : losses N (xs.map fun x => a * x) = a * losses N xs := by
  simp only [losses, changes_scale, lastN_map, List.map_map, ← sumL_map_mul]
  congr 1; apply List.map_congr_left; intro d _
  simp only [Function.comp, nat_eq, Nat.cast_zero]
  by_cases h : 0 < d
  · simp [h, mul_pos ha h]
  · have : ¬ 0 < a * d := by intro h'; nlinarith
    simp [h, this]


end SF.Invar
