import SF.Lemmas.SpecFacts
import SF.Lemmas.Net
import SF.Lemmas.Cog
import SF.Lemmas.Cti
import SF.Lemmas.Bent
import SF.Lemmas.Welford
import SF.Lemmas.Real
import Mathlib.Analysis.SpecialFunctions.BinaryEntropy
/- Range bounds of C07 that need more than a line: NET (Kendall), CenterOfGravity, BinaryEntropy (ℝ), CTI (Cauchy–Schwarz, ℝ),
   Vsct (Samuelson's inequality, ℝ), the Fisher transform recursion (ℝ). -/
namespace SF.Bounds
open SF SF.Spec SF.Moments
set_option linter.unusedSectionVars false
set_option linter.unusedSimpArgs false
section
variable {α : Type} [Field α] [LinearOrder α] [IsStrictOrderedRing α] [FloatLike α] [ExactScalar α]


theorem sgn0_abs_le (d : α) : -1 ≤ sgn0 d ∧ sgn0 d ≤ 1 := by
  unfold sgn0
  simp only [nat_eq, Nat.cast_zero, Nat.cast_one]
  split
  · constructor <;> linarith
  · split
    · constructor <;> linarith
    · constructor <;> linarith

theorem kendallNum_bound (w : List α) :
    -((w.length * (w.length - 1) : ℕ) : α) ≤ 2 * kendallNum w ∧ 2 * kendallNum w ≤ ((w.length * (w.length - 1) : ℕ) : α) := by
  induction w with
  | nil => simp [kendallNum, nat_eq]
  | cons x r ih =>
    have h1 : sumL (r.map fun y => sgn0 (y - x)) ≤ ((r.map fun y => sgn0 (y - x)).length : α) * 1 :=
      sumL_le_of_forall_le 1 _ (by intro v hv; obtain ⟨y, _, rfl⟩ := List.mem_map.mp hv; exact (sgn0_abs_le _).2)
    have h2 : ((r.map fun y => sgn0 (y - x)).length : α) * (-1) ≤ sumL (r.map fun y => sgn0 (y - x)) :=
      sumL_ge_of_forall_ge (-1) _ (by intro v hv; obtain ⟨y, _, rfl⟩ := List.mem_map.mp hv; exact (sgn0_abs_le _).1)
    simp only [List.length_map, mul_one] at h1 h2
    have hn : (((r.length + 1) * (r.length + 1 - 1) : ℕ) : α) = 2 * (r.length : α) + ((r.length * (r.length - 1) : ℕ) : α) := by
      have : (r.length + 1) * (r.length + 1 - 1) = 2 * r.length + r.length * (r.length - 1) := by
        cases r.length with
        | zero => rfl
        | succ n => simp; ring
      rw [this]; push_cast; ring
    simp only [kendallNum, List.length_cons, hn]
    constructor <;> linarith [ih.1, ih.2]

/-- NoiseEliminationTechnology ∈ [−1, 1] for every history -/
theorem net_range (N : Nat) (xs : List α) (v : α) (h : Spec.net N xs = some v) : -1 ≤ v ∧ v ≤ 1 := by
  simp only [Spec.net] at h
  split at h
  · cases h
  · rename_i hlen
    cases h
    set w := lastN N xs
    have hb := kendallNum_bound w
    have hpos : (0 : α) < ((w.length * (w.length - 1) : ℕ) : α) := by
      have : 0 < w.length * (w.length - 1) := Nat.mul_pos (by omega) (by omega)
      exact_mod_cast this
    simp only [kendall, nat_eq, Nat.cast_ofNat]
    have hd : (0 : α) < ((w.length * (w.length - 1) : ℕ) : α) / 2 := by positivity
    constructor
    · rw [le_div_iff₀ hd]; linarith [hb.1]
    · rw [div_le_iff₀ hd]; linarith [hb.2]

theorem net_view_range (N : Nat) (hN : 0 < N) (xs : List α) (v : α)
    (h : (netCore (α := α) N).outAfter xs = .ok (some v)) : -1 ≤ v ∧ v ≤ 1 := by
  rw [Net.outAfter_eq N hN] at h
  exact net_range N xs v (by injection h)




theorem sumL_cons' (x : α) (l : List α) : sumL (x :: l) = x + sumL l := by
  simp [sumL]

theorem weighted_bounds (l : List α) (hpos : ∀ x ∈ l, 0 < x) (i : Nat) :
    ((i + 1 : ℕ) : α) * sumL l ≤ sumL ((l.zipIdx i).map fun (x, k) => nat (k + 1) * x) ∧
    sumL ((l.zipIdx i).map fun (x, k) => nat (k + 1) * x) ≤ ((i + l.length : ℕ) : α) * sumL l := by
  induction l generalizing i with
  | nil => simp [sumL]
  | cons x r ih =>
    have hx : 0 < x := hpos x (by simp)
    have hr : ∀ y ∈ r, 0 < y := fun y hy => hpos y (by simp [hy])
    have hs : 0 ≤ sumL r := by
      have := sumL_ge_of_forall_ge 0 r (fun y hy => (hr y hy).le); simpa using this
    obtain ⟨h1, h2⟩ := ih hr (i + 1)
    simp only [List.zipIdx_cons, List.map_cons, sumL_cons', List.length_cons, nat_eq] at h1 h2 ⊢
    push_cast at h1 h2 ⊢
    constructor
    · nlinarith
    · nlinarith [mul_nonneg (Nat.cast_nonneg (α := α) r.length) hx.le]

theorem sumL_reverse (l : List α) : sumL l.reverse = sumL l := by
  induction l with
  | nil => rfl
  | cons x r ih => simp [sumL_cons', ih, sumL, add_comm]

/-- |CenterOfGravity| ≤ (n−1)/2 ≤ (N−1)/2 for positive inputs -/
theorem cog_range (N : Nat) (hN : 0 < N) (xs : List α) (hpos : ∀ x ∈ xs, 0 < x) (v : α) (h : Spec.cog N xs = some v) :
    -(((N : α) - 1) / 2) ≤ v ∧ v ≤ ((N : α) - 1) / 2 := by
  simp only [Spec.cog] at h
  split at h
  · cases h
  · rename_i hne
    cases h
    set w := lastN N xs with hw
    have hwpos : ∀ x ∈ w, 0 < x := fun x hx => hpos x (List.mem_of_mem_drop hx)
    have hrpos : ∀ x ∈ w.reverse, 0 < x := fun x hx => hwpos x (List.mem_reverse.mp hx)
    have hwne : w ≠ [] := by simpa using hne
    have hb := weighted_bounds w.reverse hrpos 0
    generalize sumL ((w.reverse.zipIdx 0).map fun (x, k) => nat (k + 1) * x) = num at hb ⊢
    obtain ⟨h1, h2⟩ := hb
    simp only [List.length_reverse, Nat.zero_add, Nat.cast_one, one_mul, sumL_reverse] at h1 h2
    have hn1 : 1 ≤ w.length := List.length_pos_of_ne_nil hwne
    have hnN : (w.length : α) ≤ N := by exact_mod_cast lastN_length_le N xs
    have hden : 0 < sumL w := by
      obtain ⟨x, r, hxr⟩ := List.exists_cons_of_ne_nil hwne
      have hx : 0 < x := hwpos x (by rw [hxr]; simp)
      have : 0 ≤ sumL r := by
        have := sumL_ge_of_forall_ge 0 r (fun y hy => (hwpos y (by rw [hxr]; simp [hy])).le); simpa using this
      rw [hxr, sumL_cons']; linarith
    have hne0 : ¬ (sumL w == nat 0) = true := by simp [nat_eq]; exact hden.ne'
    rw [if_neg hne0]
    simp only [nat_eq, Nat.cast_ofNat, Nat.cast_one]
    have hq1 : 1 ≤ num / sumL w := by
      rw [le_div_iff₀ hden]; linarith
    have hq2 : num / sumL w ≤ (w.length : α) := by
      rw [div_le_iff₀ hden]; exact h2
    have hn1' : (1 : α) ≤ w.length := by exact_mod_cast hn1
    constructor <;> linarith

theorem cog_view_range (N : Nat) (hN : 0 < N) (xs : List α) (hpos : ∀ x ∈ xs, 0 < x) (v : α)
    (h : (cogCore (α := α) N).outAfter xs = .ok (some v)) : -(((N : α) - 1) / 2) ≤ v ∧ v ≤ ((N : α) - 1) / 2 := by
  rw [Cog.outAfter_eq N hN] at h
  exact cog_range N hN xs hpos v (by injection h)


end

section
variable {α : Type} [Field α] [LinearOrder α] [IsStrictOrderedRing α]

/-- n·Σz² − (Σz)² ≥ 0 -/
theorem nvar_nonneg (z : List α) : 0 ≤ (z.length : α) * S2 z - sumL z * sumL z := by
  by_cases hz : z = []
  · subst hz; simp
  · have hn : (0 : α) < z.length := by exact_mod_cast List.length_pos_of_ne_nil hz
    have h := sum_sq_dev_mean z hz
    have h0 : 0 ≤ sumL (z.map fun x => sq (x - mean z)) := by
      have := sumL_ge_of_forall_ge 0 (z.map fun x => sq (x - mean z)) (by
        intro v hv; obtain ⟨x, _, rfl⟩ := List.mem_map.mp hv; simp only [sq_eq]; exact mul_self_nonneg _)
      simpa using this
    rw [h] at h0
    have : (z.length : α) * (S2 z - sumL z * sumL z / (z.length : α)) = (z.length : α) * S2 z - sumL z * sumL z := by
      field_simp
    rw [← this]; exact mul_nonneg hn.le h0

/-- the list t·x − y -/
def comb (t : α) : List α → List α → List α
  | x :: r, y :: s => (t * x - y) :: comb t r s
  | _, _ => []

theorem comb_facts (t : α) (x y : List α) (h : x.length = y.length) :
    (comb t x y).length = x.length ∧ sumL (comb t x y) = t * sumL x - sumL y ∧
      S2 (comb t x y) = t * t * S2 x - 2 * t * Cti.xy x y + S2 y := by
  induction x generalizing y with
  | nil => cases y with
    | nil => simp [comb, Cti.xy]
    | cons b s => simp at h
  | cons a r ih => cases y with
    | nil => simp at h
    | cons b s =>
      obtain ⟨h1, h2, h3⟩ := ih s (by simpa using h)
      refine ⟨by simp [comb, h1], ?_, ?_⟩
      · simp only [comb, sumL_cons, h2]; ring
      · simp only [comb, S2_cons, h3, Cti.xy]; ring

/-- Cauchy–Schwarz for the centred sums: (nΣxy − ΣxΣy)² ≤ (nΣx² − (Σx)²)(nΣy² − (Σy)²) -/
theorem cov_sq_le (x y : List α) (h : x.length = y.length)
    (hA : 0 < (x.length : α) * S2 x - sumL x * sumL x) :
    ((x.length : α) * Cti.xy x y - sumL x * sumL y) * ((x.length : α) * Cti.xy x y - sumL x * sumL y) ≤
      ((x.length : α) * S2 x - sumL x * sumL x) * ((x.length : α) * S2 y - sumL y * sumL y) := by
  set n : α := (x.length : α) with hn
  set A := n * S2 x - sumL x * sumL x
  set B := n * S2 y - sumL y * sumL y with hB
  set C := n * Cti.xy x y - sumL x * sumL y
  have hq : ∀ t : α, 0 ≤ A * (t * t) - 2 * C * t + B := by
    intro t
    obtain ⟨h1, h2, h3⟩ := comb_facts t x y h
    have := nvar_nonneg (comb t x y)
    rw [h1, h2, h3] at this
    have e : A * (t * t) - 2 * C * t + B =
        (x.length : α) * (t * t * S2 x - 2 * t * Cti.xy x y + S2 y) - (t * sumL x - sumL y) * (t * sumL x - sumL y) := by
      simp only [A, B, C, n]; ring
    rw [e]; exact this
  have := hq (C / A)
  have hne : A ≠ 0 := hA.ne'
  have e2 : A * (C / A * (C / A)) - 2 * C * (C / A) + B = (A * B - C * C) / A := by field_simp; ring
  rw [e2] at this
  have := (div_nonneg_iff.mp this)
  rcases this with ⟨h1, _⟩ | ⟨_, h2⟩
  · linarith
  · exact absurd hA (not_lt.mpr h2)
end

/-- CorrelationTrendIndicator ∈ [−1, 1] (ℝ): the Pearson formula of any window -/
theorem pearson_range (w : List ℝ) : -1 ≤ pearsonIdx w ∧ pearsonIdx w ≤ 1 := by
  rw [Cti.pearson_eq]
  simp only [Cti.ctiSums_eq]
  set ks : List ℝ := Cti.idx 0 w.length
  have hlen : w.length = ks.length := by simp [ks, Cti.idx]
  by_cases hg : ((nat 0 : ℝ) < nat w.length * sumL (w.map sq) - sq (sumL w) &&
      (nat 0 : ℝ) < nat w.length * sumL (ks.map sq) - sq (sumL ks)) = true
  · rw [if_pos hg]
    simp only [Bool.and_eq_true, decide_eq_true_eq, nat_eq, Nat.cast_zero, sq_eq] at hg
    obtain ⟨hA, hB⟩ := hg
    have hS : ∀ l : List ℝ, sumL (l.map sq) = S2 l := by
      intro l; simp only [S2]; congr 1
    simp only [hS, nat_eq, sq_eq, transc_sqrt_real] at hA hB ⊢
    have hcs := cov_sq_le w ks hlen hA
    have hAB : 0 < ((w.length : ℝ) * S2 w - sumL w * sumL w) * ((w.length : ℝ) * S2 ks - sumL ks * sumL ks) := mul_pos hA hB
    have hs : 0 < Real.sqrt (((w.length : ℝ) * S2 w - sumL w * sumL w) * ((w.length : ℝ) * S2 ks - sumL ks * sumL ks)) :=
      Real.sqrt_pos.mpr hAB
    have habs : |(w.length : ℝ) * Cti.xy w ks - sumL w * sumL ks| ≤
        Real.sqrt (((w.length : ℝ) * S2 w - sumL w * sumL w) * ((w.length : ℝ) * S2 ks - sumL ks * sumL ks)) :=
      Real.abs_le_sqrt (by rw [pow_two]; exact hcs)
    rw [abs_le] at habs
    constructor
    · rw [le_div_iff₀ hs]; linarith [habs.1]
    · rw [div_le_iff₀ hs]; linarith [habs.2]
  · rw [if_neg hg]; simp [nat_eq]

theorem cti_range (N : Nat) (xs : List ℝ) (v : ℝ) (h : Spec.cti N xs = some v) : -1 ≤ v ∧ v ≤ 1 := by
  simp only [Spec.cti] at h
  split at h
  · cases h
  · cases h; exact pearson_range _

/-- every value CTI reports on a full window lies in [−1, 1] -/
theorem cti_view_range (N : Nat) (hN : 0 < N) (xs : List ℝ) (hx : N ≤ xs.length) (v : ℝ)
    (h : (ctiCore (α := ℝ) N).outAfter xs = .ok (some v)) : -1 ≤ v ∧ v ≤ 1 := by
  rw [Cti.outAfter_eq N hN xs hx] at h
  injection h with h; injection h with h; subst h
  exact pearson_range _



section
variable {α : Type} [Field α] [LinearOrder α] [IsStrictOrderedRing α]

theorem sumL_map_sub (m : α) (l : List α) : sumL (l.map fun x => x - m) = sumL l - (l.length : α) * m := by
  induction l with
  | nil => simp
  | cons a r ih => simp only [List.map_cons, sumL_cons, ih, List.length_cons]; push_cast; ring

/-- Samuelson's inequality in squared form: n·(x − m)² ≤ (n − 1)·Σ(x_i − m)², m the mean of `pre ++ [x]` -/
theorem samuelson_sq (pre : List α) (x : α) :
    let w := pre ++ [x]
    (w.length : α) * ((x - mean w) * (x - mean w)) ≤ ((w.length : α) - 1) * sumL (w.map fun y => sq (y - mean w)) := by
  intro w
  set m := mean w with hm
  set e := pre.map fun y => y - m with he
  have hn : (w.length : α) = (pre.length : α) + 1 := by simp [w]
  have hnpos : (0 : α) < (pre.length : α) + 1 := by positivity
  have hsum : sumL w = sumL pre + x := by simp [w]
  have hmean : ((pre.length : α) + 1) * m = sumL pre + x := by
    rw [hm, mean, nat_eq, hn, hsum]; field_simp
  have hse : sumL e = -(x - m) := by
    rw [he, sumL_map_sub]; linarith
  have hS : sumL (w.map fun y => sq (y - m)) = S2 e + (x - m) * (x - m) := by
    simp only [w, List.map_append, List.map_cons, List.map_nil, sumL_append, sumL_cons, sumL_nil, sq_eq, S2, he, List.map_map]
    simp [Function.comp_def]
  have hv := nvar_nonneg e
  have hel : (e.length : α) = pre.length := by simp [he]
  rw [hel, hse] at hv
  rw [hS, hn]
  nlinarith [hv, mul_self_nonneg (x - m)]
end

theorem getLast_lastN (N : Nat) (hN : 0 < N) (xs : List ℝ) (x : ℝ) (h : xs.getLast? = some x) :
    ∃ pre, lastN N xs = pre ++ [x] := by
  have hne : xs ≠ [] := by intro e; subst e; simp at h
  have hl : (lastN N xs).getLast? = some x := by
    simp only [lastN]; rw [List.getLast?_drop]
    have : ¬ xs.length ≤ xs.length - N := by
      have := List.length_pos_of_ne_nil hne; omega
    simp [this, h]
  have hne' : lastN N xs ≠ [] := by intro e; rw [e] at hl; simp at hl
  refine ⟨(lastN N xs).dropLast, ?_⟩
  have := List.dropLast_append_getLast hne'
  rw [List.getLast?_eq_some_getLast hne'] at hl
  injection hl with hl
  rw [hl] at this; exact this.symm

/-- |Vsct| ≤ (N−1)/√N (Samuelson's inequality), for every history, at ℝ; stated as v² ≤ (N−1)²/N and as |v| ≤ (N−1)/√N -/
theorem vsct_sq_bound (N : Nat) (hN : 0 < N) (xs : List ℝ) (v : ℝ) (h : Spec.vsct N xs = some v) :
    v * v ≤ ((N : ℝ) - 1) * ((N : ℝ) - 1) / N := by
  have hNr : (1 : ℝ) ≤ N := by exact_mod_cast hN
  have hrhs : 0 ≤ ((N : ℝ) - 1) * ((N : ℝ) - 1) / N := by positivity
  simp only [Spec.vsct] at h
  cases hw : Spec.welford N xs with
  | none => rw [hw] at h; simp at h
  | some sd =>
    cases hg : xs.getLast? with
    | none => rw [hw, hg] at h; simp at h; subst h; simpa [nat_eq] using hrhs
    | some x =>
      rw [hw, hg] at h
      simp only [Option.some.injEq] at h
      by_cases h0 : (sd == nat 0) = true
      · rw [if_pos h0] at h; subst h; simpa [nat_eq] using hrhs
      · rw [if_neg h0] at h; subst h
        have hsd0 : sd ≠ 0 := by simpa [nat_eq] using h0
        -- unfold the standard deviation
        simp only [Spec.welford] at hw
        split at hw
        · cases hw
        · injection hw with hw
          obtain ⟨pre, hpre⟩ := getLast_lastN N hN xs x hg
          set w := lastN N xs with hwdef
          simp only [Spec.stdOf, nat_eq, Nat.cast_zero] at hw
          split at hw
          · exact absurd hw.symm hsd0
          · rename_i hvar
            have hvpos : 0 < sampleVar w := not_le.mp hvar
            simp only [transc_sqrt_real] at hw
            have hsd2 : sd * sd = sampleVar w := by rw [← hw]; exact Real.mul_self_sqrt hvpos.le
            have hlen2 : ¬ w.length ≤ 1 := by
              intro hle; simp [sampleVar, hle, nat_eq] at hvpos
            have hvar_eq : sampleVar w = sumL (w.map fun y => sq (y - mean w)) / ((w.length : ℝ) - 1) := by
              simp only [sampleVar, hlen2, if_false, nat_eq]
              congr 1; rw [Nat.cast_sub (by omega)]; simp
            have hsam := samuelson_sq pre x
            simp only at hsam
            rw [← hpre] at hsam
            have hn2 : (2 : ℝ) ≤ w.length := by exact_mod_cast (by omega : 2 ≤ w.length)
            have hnN : (w.length : ℝ) ≤ N := by exact_mod_cast lastN_length_le N xs
            set n : ℝ := (w.length : ℝ)
            set Sg := sumL (w.map fun y => sq (y - mean w))
            have hSg : Sg = sd * sd * (n - 1) := by
              rw [hsd2, hvar_eq]; have : n - 1 ≠ 0 := by linarith
              field_simp
            set d := x - mean w
            have hwm : Spec.welfordMean N xs = mean w := rfl
            rw [hwm]
            have hsdpos : 0 < sd * sd := by rw [hsd2]; exact hvpos
            have e : (x - mean w) / sd * ((x - mean w) / sd) = d * d / (sd * sd) := by
              show d / sd * (d / sd) = _; field_simp
            rw [e, div_le_div_iff₀ hsdpos (by linarith)]
            -- n d² ≤ (n-1)² sd²  and (n−1)²/n ≤ (N−1)²/N
            have h1 : n * (d * d) ≤ (n - 1) * (n - 1) * (sd * sd) := by rw [hSg] at hsam; linarith
            have h2 : (n - 1) * (n - 1) * N ≤ ((N : ℝ) - 1) * ((N : ℝ) - 1) * n := by
              nlinarith [mul_nonneg (sub_nonneg.mpr hnN) (by nlinarith : (0:ℝ) ≤ N * n - 1)]
            have hd0 : 0 ≤ d * d := mul_self_nonneg d
            have hnpos : 0 < n := by linarith
            -- multiply h1 by N and use h2
            have h3 : n * (d * d * N) ≤ n * (((N : ℝ) - 1) * ((N : ℝ) - 1) * (sd * sd)) := by
              have := mul_le_mul_of_nonneg_right h1 (by linarith : (0 : ℝ) ≤ N)
              have h2' := mul_le_mul_of_nonneg_right h2 hsdpos.le
              nlinarith
            exact le_of_mul_le_mul_left h3 hnpos

theorem vsct_abs_bound (N : Nat) (hN : 0 < N) (xs : List ℝ) (v : ℝ) (h : Spec.vsct N xs = some v) :
    |v| ≤ ((N : ℝ) - 1) / Real.sqrt N := by
  have hb := vsct_sq_bound N hN xs v h
  have hNr : (1 : ℝ) ≤ N := by exact_mod_cast hN
  have : |v| ≤ Real.sqrt (((N : ℝ) - 1) * ((N : ℝ) - 1) / N) := Real.abs_le_sqrt (by rw [pow_two]; exact hb)
  rwa [Real.sqrt_div (mul_self_nonneg _), Real.sqrt_mul_self (by linarith)] at this

theorem vsct_view_bound (N : Nat) (hN : 0 < N) (xs : List ℝ) (v : ℝ)
    (h : (vsctCoreU (α := ℝ) N).outAfter xs = .ok (some v)) : |v| ≤ ((N : ℝ) - 1) / Real.sqrt N := by
  rw [Welford.vsct_outAfter_eq N hN] at h
  exact vsct_abs_bound N hN xs v (by injection h)




theorem entropy_term (p : ℝ) : (if p == nat 0 then (nat 0 : ℝ) else p * Transc.log2 p) = p * Real.log p / Real.log 2 := by
  by_cases h : p = 0
  · simp [h, nat_eq]
  · have : ¬ (p == (nat 0 : ℝ)) = true := by simp [nat_eq, h]
    rw [if_neg this]
    show p * Real.logb 2 p = _
    rw [Real.logb]; ring

/-- BinaryEntropy ∈ [0, 1]: it is the binary entropy function (in bits) of a fraction p ∈ [0,1] -/
theorem entropy_range (N : Nat) (xs : List ℝ) (v : ℝ) (h : Spec.entropy N xs = some v) : 0 ≤ v ∧ v ≤ 1 := by
  simp only [Spec.entropy] at h
  split at h
  · cases h
  · rename_i hne
    cases h
    set w := lastN N xs
    have hwne : w ≠ [] := by simpa using hne
    have hlen : (0 : ℝ) < w.length := by exact_mod_cast List.length_pos_of_ne_nil hwne
    set p : ℝ := nat (w.filter fun x => nat 0 ≤ x).length / nat w.length with hp
    have hp0 : 0 ≤ p := by rw [hp]; simp only [nat_eq]; positivity
    have hp1 : p ≤ 1 := by
      rw [hp]; simp only [nat_eq]
      rw [div_le_one hlen]
      exact_mod_cast List.length_filter_le _ w
    have e1 := entropy_term p
    have e2 := entropy_term (nat 1 - p)
    rw [e1, e2]
    have hb : -(p * Real.log p / Real.log 2 + (nat 1 - p) * Real.log (nat 1 - p) / Real.log 2) = Real.binEntropy p / Real.log 2 := by
      simp only [nat_eq, Nat.cast_one]
      rw [Real.binEntropy_eq_negMulLog_add_negMulLog_one_sub, Real.negMulLog, Real.negMulLog]; ring
    rw [hb]
    have hl2 : 0 < Real.log 2 := Real.log_pos (by norm_num)
    exact ⟨div_nonneg (Real.binEntropy_nonneg hp0 hp1) hl2.le, by rw [div_le_one hl2]; exact Real.binEntropy_le_log_two⟩

theorem entropy_view_range (N : Nat) (hN : 0 < N) (xs : List ℝ) (v : ℝ)
    (h : (bentCore (α := ℝ) N).outAfter xs = .ok (some v)) : 0 ≤ v ∧ v ≤ 1 := by
  rw [Bent.outAfter_eq N hN] at h
  exact entropy_range N xs v (by injection h)




theorem fisher_term_bound (s : ℝ) (h1 : -(99/100 : ℝ) ≤ s) (h2 : s ≤ 99/100) :
    |Real.log ((1 + s) / (1 - s))| ≤ Real.log 199 := by
  have hd : 0 < 1 - s := by linarith
  have hn : 0 < 1 + s := by linarith
  have hq : 0 < (1 + s) / (1 - s) := div_pos hn hd
  rw [abs_le]
  constructor
  · rw [← Real.log_inv]
    apply Real.log_le_log (by norm_num)
    rw [le_div_iff₀ hd]; linarith
  · apply Real.log_le_log hq
    rw [div_le_iff₀ hd]; linarith

theorem clamp_range (c sm : ℝ) (hc : 0 ≤ c) :
    -c ≤ (if sm < -c then -c else if c < sm then c else sm) ∧ (if sm < -c then -c else if c < sm then c else sm) ≤ c := by
  split
  · constructor <;> linarith
  · split
    · constructor <;> linarith
    · constructor <;> linarith

theorem dec99 : (dec 99 100 : ℝ) = 99 / 100 := by simp [dec_eq]

/-- |EhlersFisherTransform| ≤ ln 199, for every history and every smoothing average (spec level, ℝ) -/
theorem fisher_bound (N : Nat) (ma : List ℝ → Option ℝ) (xs : List ℝ) (v : ℝ) (h : Spec.fisher N ma xs = some v) :
    |v| ≤ Real.log 199 := by
  have hpos : 0 ≤ Real.log 199 := Real.log_nonneg (by norm_num)
  simp only [Spec.fisher] at h
  revert h
  generalize hstep : (fun (acc : List ℝ × Option ℝ × List ℝ) (x : ℝ) => _) = step
  suffices H : ∀ (l : List ℝ) (acc : List ℝ × Option ℝ × List ℝ), (∀ p, acc.2.1 = some p → |p| ≤ Real.log 199) →
      ∀ p, (l.foldl step acc).2.1 = some p → |p| ≤ Real.log 199 from
    fun h => H xs ([], none, []) (by intro p hp; cases hp) v h
  intro l
  induction l with
  | nil => intro acc ha p hp; exact ha p hp
  | cons x l ih =>
    intro acc ha p hp
    refine ih (step acc x) ?_ p hp
    intro q hq
    rw [← hstep] at hq
    simp only at hq
    split at hq
    · split at hq
      · simp only [Option.some.injEq] at hq; subst hq; simpa [nat_eq] using hpos
      · split at hq
        · exact ha q hq
        · rename_i sm _
          split at hq
          · simp only [Option.some.injEq] at hq; subst hq; simpa [nat_eq] using hpos
          · rename_i prev hprev
            simp only [Option.some.injEq] at hq
            have hp' := ha prev hprev
            obtain ⟨c1, c2⟩ := clamp_range (dec 99 100) sm (by rw [dec99]; norm_num)
            rw [dec99] at c1 c2
            have hb := fisher_term_bound _ c1 c2
            rw [← hq]
            simp only [dec_eq, nat_eq, transc_ln_real, Nat.cast_one] at hb ⊢
            have : (5 : ℝ) / 10 = 1 / 2 := by norm_num
            rw [abs_le] at hb hp' ⊢
            push_cast at hb ⊢
            constructor <;> nlinarith [hb.1, hb.2, hp'.1, hp'.2]
    · exact ha q hq


end SF.Bounds
