import SF.Lemmas.Invariance3
import SF.Lemmas.MinMax
/-
  Invariance, part 4: TrendFlex / ReFlex under x ↦ a·x (a > 0, output unchanged) and x ↦ −x (output negated), at ℝ;
  the Fisher transform under x ↦ a·x + b (a > 0), any ordered field.
-/
namespace SF.Inv4
open SF SF.Spec
set_option linter.unusedSectionVars false
set_option linter.unusedSimpArgs false

section field
variable {α : Type} [Field α] [LinearOrder α] [IsStrictOrderedRing α] [FloatLike α] [ExactScalar α] [Transc α]

theorem headD_map_mul (a : α) (l : List α) : (l.map fun x => a * x).headD 0 = a * l.headD 0 := by
  cases l <;> simp

theorem getD_map_mul (a : α) (l : List α) (i : Nat) : (l.map fun x => a * x)[i]?.getD (nat 0) = a * l[i]?.getD (nat 0) := by
  rw [List.getElem?_map]
  cases l[i]? <;> simp

/-- the smoother is homogeneous in (stream, pad) -/
theorem foldState_scale (c : Coef α) (a pad : α) (xs : List α) :
    SS.foldState c (a * pad) (xs.map fun x => a * x)
      = ((SS.foldState c pad xs).1.map (fun x => a * x), a * (SS.foldState c pad xs).2) := by
  induction xs using List.reverseRecOn with
  | nil => simp [SS.foldState]
  | append_singleton xs x ih =>
    rw [List.map_append, List.map_cons, List.map_nil, SS.foldState_snoc, SS.foldState_snoc, ih]
    simp only [nat_eq, Nat.cast_zero, Nat.cast_ofNat, headD_map_mul, List.map_cons, Prod.mk.injEq, and_true, List.cons.injEq]
    rw [← List.map_tail, headD_map_mul]
    ring

theorem smoothSeq_scale (c : Coef α) (a pad : α) (xs : List α) :
    smoothSeq c (a * pad) (xs.map fun x => a * x) = (smoothSeq c pad xs).map fun x => a * x := by
  rw [SS.smoothSeq_eq, SS.smoothSeq_eq, foldState_scale]

theorem D_scale (N : Nat) (a : α) (fs : List α) (t : Nat) : Flex.D N (fs.map fun x => a * x) t = a * Flex.D N fs t := by
  simp only [Flex.D, getD_map_mul]
  rw [← mul_div_assoc, ← sumL_map_mul, List.map_map]
  congr 2
  apply List.map_congr_left
  intro i _
  simp only [Function.comp]; ring

theorem dsList_scale (N : Nat) (a : α) (fs : List α) : Flex.dsList N (fs.map fun x => a * x) = (Flex.dsList N fs).map fun x => a * x := by
  simp only [Flex.dsList, List.length_map, List.map_map]
  apply List.map_congr_left
  intro t _
  exact D_scale N a fs t

theorem rD_scale (N : Nat) (a : α) (fs : List α) (t : Nat) : ReFlex.D N (fs.map fun x => a * x) t = a * ReFlex.D N fs t := by
  simp only [ReFlex.D, getD_map_mul]
  rw [← mul_div_assoc, ← sumL_map_mul, List.map_map]
  congr 2
  apply List.map_congr_left
  intro i _
  simp only [Function.comp]; ring

theorem rdsList_scale (N : Nat) (a : α) (fs : List α) : ReFlex.dsList N (fs.map fun x => a * x) = (ReFlex.dsList N fs).map fun x => a * x := by
  simp only [ReFlex.dsList, List.length_map, List.map_map]
  apply List.map_congr_left
  intro t _
  exact rD_scale N a fs t

end field

section real
/-- the normalisation fold under d ↦ a·d, a > 0: the mean square scales by a², the output is unchanged -/
theorem norm_fold_scale (hold : Bool) (a : ℝ) (ha : 0 < a) (ds : List ℝ) (acc : ℝ × Option ℝ) :
    (ds.map fun d => a * d).foldl (Flex.normStep hold) (a * a * acc.1, acc.2)
      = (a * a * (ds.foldl (Flex.normStep hold) acc).1, (ds.foldl (Flex.normStep hold) acc).2) := by
  induction ds generalizing acc with
  | nil => rfl
  | cons d ds ih =>
    simp only [List.map_cons, List.foldl_cons]
    have hstep : Flex.normStep hold (a * a * acc.1, acc.2) (a * d)
        = (a * a * (Flex.normStep hold acc d).1, (Flex.normStep hold acc d).2) := by
      simp only [Flex.normStep, dec_eq, sq_eq, nat_eq, Nat.cast_zero, Nat.cast_ofNat, transc_sqrt_real]
      have e : (4 : ℝ) / 100 * (a * d * (a * d)) + 96 / 100 * (a * a * acc.1) = a * a * (4 / 100 * (d * d) + 96 / 100 * acc.1) := by ring
      rw [e]
      set ms := (4 : ℝ) / 100 * (d * d) + 96 / 100 * acc.1
      have haa : 0 < a * a := mul_pos ha ha
      refine Prod.ext rfl ?_
      simp only []
      by_cases hm : 0 < ms
      · have : 0 < a * a * ms := mul_pos haa hm
        simp only [hm, this, if_true]
        rw [Real.sqrt_mul haa.le, Real.sqrt_mul_self ha.le]
        have hs : 0 < Real.sqrt ms := Real.sqrt_pos.mpr hm
        congr 1; field_simp
      · have : ¬ 0 < a * a * ms := by
          intro h; apply hm; by_contra hc; have := not_lt.mp hc; nlinarith
        simp only [hm, this, if_false]
    rw [hstep]; exact ih _

/-- … and under d ↦ −d: the mean square is unchanged, the output negated -/
theorem norm_fold_neg (hold : Bool) (ds : List ℝ) (acc : ℝ × Option ℝ) :
    (ds.map fun d => -d).foldl (Flex.normStep hold) (acc.1, acc.2.map fun v => -v)
      = ((ds.foldl (Flex.normStep hold) acc).1, (ds.foldl (Flex.normStep hold) acc).2.map fun v => -v) := by
  induction ds generalizing acc with
  | nil => rfl
  | cons d ds ih =>
    simp only [List.map_cons, List.foldl_cons]
    have hstep : Flex.normStep hold (acc.1, acc.2.map fun v => -v) (-d)
        = ((Flex.normStep hold acc d).1, (Flex.normStep hold acc d).2.map fun v => -v) := by
      simp only [Flex.normStep, dec_eq, sq_eq, nat_eq, Nat.cast_zero, Nat.cast_ofNat, transc_sqrt_real, neg_mul_neg]
      refine Prod.ext rfl ?_
      simp only []
      split
      · simp [neg_div]
      · cases hold <;> simp
    rw [hstep]; exact ih _

/-- **TrendFlex is invariant under x ↦ a·x, a > 0** -/
theorem trendFlex_scale (N : Nat) (a : ℝ) (ha : 0 < a) (xs : List ℝ) :
    Spec.trendFlex N (xs.map fun x => a * x) = Spec.trendFlex N xs := by
  cases xs with
  | nil => rfl
  | cons x0 r =>
    rw [List.map_cons, Flex.trendFlex_cons, Flex.trendFlex_cons, ← List.map_cons, smoothSeq_scale, ← List.map_reverse, dsList_scale]
    have := norm_fold_scale false a ha (Flex.dsList N (smoothSeq (flexCoef N) x0 (x0 :: r)).reverse) (nat 0, none)
    simp only [nat_eq, Nat.cast_zero, mul_zero] at this ⊢
    rw [this]

/-- **ReFlex is invariant under x ↦ a·x, a > 0** (held outputs included) -/
theorem reFlex_scale (N : Nat) (a : ℝ) (ha : 0 < a) (xs : List ℝ) :
    Spec.reFlex N (xs.map fun x => a * x) = Spec.reFlex N xs := by
  cases xs with
  | nil => rfl
  | cons x0 r =>
    rw [List.map_cons, ReFlex.reFlex_cons, ReFlex.reFlex_cons, ← List.map_cons, smoothSeq_scale, ← List.map_reverse, rdsList_scale]
    have := norm_fold_scale true a ha (ReFlex.dsList N (smoothSeq (flexCoef N) x0 (x0 :: r)).reverse) (nat 0, none)
    simp only [nat_eq, Nat.cast_zero, mul_zero] at this ⊢
    rw [this]

theorem neg_eq_mul (l : List ℝ) : (l.map fun x => -x) = l.map fun x => (-1) * x := by
  apply List.map_congr_left; intro x _; ring

/-- **negating the input negates TrendFlex** -/
theorem trendFlex_neg (N : Nat) (xs : List ℝ) :
    Spec.trendFlex N (xs.map fun x => -x) = (Spec.trendFlex N xs).map fun v => -v := by
  cases xs with
  | nil => rfl
  | cons x0 r =>
    rw [neg_eq_mul, List.map_cons, Flex.trendFlex_cons, Flex.trendFlex_cons, ← List.map_cons, smoothSeq_scale, ← List.map_reverse,
      dsList_scale, ← neg_eq_mul]
    have := norm_fold_neg false (Flex.dsList N (smoothSeq (flexCoef N) x0 (x0 :: r)).reverse) (nat 0, none)
    simp only [Option.map_none] at this
    rw [this]

/-- **negating the input negates ReFlex** -/
theorem reFlex_neg (N : Nat) (xs : List ℝ) :
    Spec.reFlex N (xs.map fun x => -x) = (Spec.reFlex N xs).map fun v => -v := by
  cases xs with
  | nil => rfl
  | cons x0 r =>
    rw [neg_eq_mul, List.map_cons, ReFlex.reFlex_cons, ReFlex.reFlex_cons, ← List.map_cons, smoothSeq_scale, ← List.map_reverse,
      rdsList_scale, ← neg_eq_mul]
    have := norm_fold_neg true (ReFlex.dsList N (smoothSeq (flexCoef N) x0 (x0 :: r)).reverse) (nat 0, none)
    simp only [Option.map_none] at this
    rw [this]

end real
end SF.Inv4
