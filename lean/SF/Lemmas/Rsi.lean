import SF.Lemmas.Field
import SF.Model.Window
/- Rsi: the incrementally maintained avg_gain / avg_loss are G/N and L/N over the N most recent changes. -/
namespace SF.Rsi
open SF SF.Spec
set_option linter.unusedSectionVars false
set_option linter.unusedSimpArgs false
variable {α : Type} [Field α] [LinearOrder α] [IsStrictOrderedRing α] [FloatLike α] [ExactScalar α]

/-- successive differences of a list, the first against `p` -/
def diffs (p : α) : List α → List α
  | [] => []
  | x :: r => (x - p) :: diffs x r

@[simp] theorem diffs_length (p : α) (l : List α) : (diffs p l).length = l.length := by
  induction l generalizing p with
  | nil => rfl
  | cons x r ih => simp [diffs, ih]

theorem diffs_snoc (p : α) (l : List α) (x : α) :
    diffs p (l ++ [x]) = diffs p l ++ [x - (l.getLast?).getD p] := by
  induction l generalizing p with
  | nil => simp [diffs]
  | cons y r ih =>
    simp only [List.cons_append, diffs, ih, List.cons.injEq, true_and]
    congr 2
    cases r with
    | nil => simp
    | cons z r' => simp [List.getLast?_cons_cons, List.getLast?_eq_getLast_of_ne_nil]

theorem changes_eq_diffs (x0 : α) (r : List α) : changes (x0 :: r) = diffs x0 (x0 :: r) := by
  simp only [changes, diffs, nat_eq, Nat.cast_zero, sub_self, List.cons.injEq, true_and]
  induction r generalizing x0 with
  | nil => simp [diffs]
  | cons y r ih => simp only [List.zip_cons_cons, List.map_cons, diffs, List.cons.injEq, true_and]; exact ih y

theorem changes_snoc (xs : List α) (x : α) (hne : xs ≠ []) :
    changes (xs ++ [x]) = changes xs ++ [x - (xs.getLast?).getD 0] := by
  obtain ⟨x0, r, rfl⟩ := List.exists_cons_of_ne_nil hne
  rw [show (x0 :: r) ++ [x] = x0 :: (r ++ [x]) from rfl, changes_eq_diffs, changes_eq_diffs]
  rw [show x0 :: (r ++ [x]) = (x0 :: r) ++ [x] from rfl, diffs_snoc]
  simp [List.getLast?_eq_getLast_of_ne_nil]

theorem changes_length (xs : List α) : (changes xs).length = xs.length := by
  cases xs with
  | nil => rfl
  | cons x0 r => rw [changes_eq_diffs]; simp

/-- per-change contributions -/
def gpart (N : Nat) (d : α) : α := if 0 < d then d / (N : α) else 0
def lpart (N : Nat) (d : α) : α := if 0 < d then 0 else absv d / (N : α)

theorem gsum (N : Nat) (W : List α) :
    sumL (W.map (gpart N)) = sumL (W.map fun d => if nat 0 < d then d else nat 0) / (N : α) := by
  induction W with
  | nil => simp
  | cons d W ih =>
    simp only [List.map_cons, sumL_cons, ih, gpart, nat_eq, Nat.cast_zero]
    split <;> ring

theorem lsum (N : Nat) (W : List α) :
    sumL (W.map (lpart N)) = sumL (W.map fun d => if nat 0 < d then nat 0 else -d) / (N : α) := by
  induction W with
  | nil => simp
  | cons d W ih =>
    simp only [List.map_cons, sumL_cons, ih, lpart, nat_eq, Nat.cast_zero, absv]
    by_cases h : 0 < d
    · simp [h]
    · have hle : d ≤ 0 := not_lt.mp h
      simp only [h, if_false]
      rcases lt_or_eq_of_le hle with h1 | h1
      · simp [h1]; ring
      · subst h1; simp

theorem gains_nonneg (N : Nat) (xs : List α) : 0 ≤ Spec.gains N xs := by
  simp only [Spec.gains]
  generalize lastN N (changes xs) = l
  induction l with
  | nil => simp
  | cons d l ih => simp only [List.map_cons, sumL_cons]; split <;> simp_all <;> linarith

theorem losses_nonneg (N : Nat) (xs : List α) : 0 ≤ Spec.losses N xs := by
  simp only [Spec.losses]
  generalize lastN N (changes xs) = l
  induction l with
  | nil => simp
  | cons d l ih =>
    simp only [List.map_cons, sumL_cons]
    split
    · simp_all
    · rename_i h; simp only [nat_eq, Nat.cast_zero, not_lt] at h; linarith

structure Inv (N : Nat) (s : RsiState α) (xs : List α) : Prop where
  hq : s.q = lastN N xs
  hlast : s.lastVal = (xs.getLast?).getD 0
  hW : lastN N (changes xs) = diffs s.oldRef s.q
  hg : s.avgGain = sumL ((diffs s.oldRef s.q).map (gpart N))
  hl : s.avgLoss = sumL ((diffs s.oldRef s.q).map (lpart N))
  hout : s.out = Spec.rsi N xs

theorem init_inv (N : Nat) : Inv N (rsiCore (α := α) N).init [] := by
  refine ⟨by simp [rsiCore], by simp [rsiCore], by simp [rsiCore, changes, diffs], by simp [rsiCore, diffs],
    by simp [rsiCore, diffs], by simp [rsiCore, Spec.rsi]⟩

/-- the output formula: 100 − 100/(1 + (G/N)/(L/N)) = 100·G/(G+L) -/
theorem rsi_formula (N : Nat) (hN : 0 < N) (G L : α) (hG : 0 ≤ G) (hL : 0 ≤ L) (hL0 : L ≠ 0) :
    (100 : α) - 100 / (1 + (G / (N : α)) / (L / (N : α))) = 100 * G / (G + L) := by
  have hN0 : (N : α) ≠ 0 := by exact_mod_cast hN.ne'
  have hLpos : 0 < L := lt_of_le_of_ne hL (Ne.symm hL0)
  have hs : G + L ≠ 0 := by
    have : 0 < G + L := by linarith
    exact this.ne'
  have h1 : (1 : α) + (G / (N : α)) / (L / (N : α)) ≠ 0 := by
    have : (G / (N : α)) / (L / (N : α)) = G / L := by field_simp
    rw [this]
    have : 0 ≤ G / L := div_nonneg hG hL
    intro h; linarith
  field_simp
  ring

/-! ### the update as a composition of pure stages -/
def reset (s : RsiState α) (v : α) : RsiState α :=
  if s.q.isEmpty then { s with oldRef := v, lastVal := v } else s

def evict (N : Nat) (s : RsiState α) : RsiState α :=
  match s.q with
  | [] => s
  | old :: rest =>
    let change := old - s.oldRef
    if 0 < change then { s with oldRef := old, q := rest, avgGain := s.avgGain - change / (N : α) }
    else { s with oldRef := old, q := rest, avgLoss := s.avgLoss - absv change / (N : α) }

def push (N : Nat) (s : RsiState α) (v : α) : RsiState α :=
  let change := v - s.lastVal
  if 0 < change then { s with q := s.q ++ [v], lastVal := v, avgGain := s.avgGain + change / (N : α) }
  else { s with q := s.q ++ [v], lastVal := v, avgLoss := s.avgLoss + absv change / (N : α) }

def emit (N : Nat) (s : RsiState α) : RsiState α :=
  if s.q.length < N then s
  else if s.avgLoss = 0 then { s with out := some 100 }
  else { s with out := some (100 - 100 / (1 + s.avgGain / s.avgLoss)) }

theorem step_eq (N : Nat) (hN : 0 < N) (s : RsiState α) (v : α) :
    (rsiCore N).step s v = .ok (emit N (push N (if N ≤ (reset s v).q.length then evict N (reset s v) else reset s v) v)) := by
  simp only [rsiCore, nat_eq, Nat.cast_zero, Nat.cast_one, Nat.cast_ofNat]
  have hr : (if s.q.isEmpty = true then ({ s with oldRef := v, lastVal := v } : RsiState α) else s) = reset s v := rfl
  rw [hr]
  generalize reset s v = s0
  by_cases hfull : N ≤ s0.q.length
  · cases hq : s0.q with
    | nil => rw [hq] at hfull; simp at hfull; omega
    | cons old rest =>
      have hfull' : N ≤ rest.length + 1 := by rw [hq] at hfull; simpa using hfull
      simp only [hq, List.length_cons, hfull', if_true, front, bind, Except.bind, pure, Except.pure, List.tail_cons]
      simp only [evict, hq, push, emit]
      by_cases h1 : 0 < old - s0.oldRef <;> by_cases h2 : 0 < v - s0.lastVal <;>
        simp only [h1, h2, if_true, if_false, List.length_append, List.length_singleton] <;>
        (split <;> [rfl; (split <;> simp_all [bind, Except.bind, pure, Except.pure])])
  · simp only [hfull, if_false, bind, Except.bind, pure, Except.pure]
    simp only [push, emit]
    by_cases h2 : 0 < v - s0.lastVal <;>
      simp only [h2, if_true, if_false, List.length_append, List.length_singleton] <;>
      (split <;> [rfl; (split <;> simp_all [bind, Except.bind, pure, Except.pure])])

end SF.Rsi
