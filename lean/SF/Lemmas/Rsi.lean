import SF.Lemmas.Field
import SF.Model.Window
/- Rsi: the incrementally maintained avg_gain / avg_loss are G/N and L/N over the N most recent changes. -/
namespace SF.Rsi
open SF SF.Spec
set_option linter.unusedSectionVars false
set_option linter.unusedSimpArgs false
variable {α : Type} [Field α] [LinearOrder α] [IsStrictOrderedRing α] [FloatLike α] [ExactScalar α]

/-- successive differences of a list, the first against `p` -/
def diffs (p : α) : List α → List α
  | [] => []
  | x :: r => (x - p) :: diffs x r

@[simp] theorem diffs_length (p : α) (l : List α) : (diffs p l).length = l.length := by
  induction l generalizing p with
  | nil => rfl
  | cons x r ih => simp [diffs, ih]

theorem diffs_snoc (p : α) (l : List α) (x : α) :
    diffs p (l ++ [x]) = diffs p l ++ [x - (l.getLast?).getD p] := by
  induction l generalizing p with
  | nil => simp [diffs]
  | cons y r ih =>
    simp only [List.cons_append, diffs, ih, List.cons.injEq, true_and]
    congr 2
    cases r with
    | nil => simp
    | cons z r' => simp [List.getLast?_cons_cons, List.getLast?_eq_getLast_of_ne_nil]

theorem changes_eq_diffs (x0 : α) (r : List α) : changes (x0 :: r) = diffs x0 (x0 :: r) := by
  simp only [changes, diffs, nat_eq, Nat.cast_zero, sub_self, List.cons.injEq, true_and]
  induction r generalizing x0 with
  | nil => simp [diffs]
  | cons y r ih => simp only [List.zip_cons_cons, List.map_cons, diffs, List.cons.injEq, true_and]; exact ih y

theorem changes_snoc (xs : List α) (x : α) (hne : xs ≠ []) :
    changes (xs ++ [x]) = changes xs ++ [x - (xs.getLast?).getD 0] := by
  obtain ⟨x0, r, rfl⟩ := List.exists_cons_of_ne_nil hne
  rw [show (x0 :: r) ++ [x] = x0 :: (r ++ [x]) from rfl, changes_eq_diffs, changes_eq_diffs]
  rw [show x0 :: (r ++ [x]) = (x0 :: r) ++ [x] from rfl, diffs_snoc]
  simp [List.getLast?_eq_getLast_of_ne_nil]

theorem changes_length (xs : List α) : (changes xs).length = xs.length := by
  cases xs with
  | nil => rfl
  | cons x0 r => rw [changes_eq_diffs]; simp

/-- per-change contributions -/
def gpart (N : Nat) (d : α) : α := if 0 < d then d / (N : α) else 0
def lpart (N : Nat) (d : α) : α := if 0 < d then 0 else absv d / (N : α)

theorem gsum (N : Nat) (W : List α) :
    sumL (W.map (gpart N)) = sumL (W.map fun d => if nat 0 < d then d else nat 0) / (N : α) := by
  induction W with
  | nil => simp
  | cons d W ih =>
    simp only [List.map_cons, sumL_cons, ih, gpart, nat_eq, Nat.cast_zero]
    split <;> ring

theorem lsum (N : Nat) (W : List α) :
    sumL (W.map (lpart N)) = sumL (W.map fun d => if nat 0 < d then nat 0 else -d) / (N : α) := by
  induction W with
  | nil => simp
  | cons d W ih =>
    simp only [List.map_cons, sumL_cons, ih, lpart, nat_eq, Nat.cast_zero, absv]
    by_cases h : 0 < d
    · simp [h]
    · have hle : d ≤ 0 := not_lt.mp h
      simp only [h, if_false]
      rcases lt_or_eq_of_le hle with h1 | h1
      · simp [h1]; ring
      · subst h1; simp

theorem gains_nonneg (N : Nat) (xs : List α) : 0 ≤ Spec.gains N xs := by
  simp only [Spec.gains]
  generalize lastN N (changes xs) = l
  induction l with
  | nil => simp
  | cons d l ih => simp only [List.map_cons, sumL_cons]; split <;> simp_all <;> linarith

theorem losses_nonneg (N : Nat) (xs : List α) : 0 ≤ Spec.losses N xs := by
  simp only [Spec.losses]
  generalize lastN N (changes xs) = l
  induction l with
  | nil => simp
  | cons d l ih =>
    simp only [List.map_cons, sumL_cons]
    split
    · simp_all
    · rename_i h; simp only [nat_eq, Nat.cast_zero, not_lt] at h; linarith

structure Inv (N : Nat) (s : RsiState α) (xs : List α) : Prop where
  hq : s.q = lastN N xs
  hlast : s.lastVal = (xs.getLast?).getD 0
  hW : lastN N (changes xs) = diffs s.oldRef s.q
  hg : s.avgGain = sumL ((diffs s.oldRef s.q).map (gpart N))
  hl : s.avgLoss = sumL ((diffs s.oldRef s.q).map (lpart N))
  hout : s.out = Spec.rsi N xs

theorem init_inv (N : Nat) : Inv N (rsiCore (α := α) N).init [] := by
  refine ⟨by simp [rsiCore], by simp [rsiCore], by simp [rsiCore, changes, diffs], by simp [rsiCore, diffs],
    by simp [rsiCore, diffs], by simp [rsiCore, Spec.rsi]⟩

/-- the output formula: 100 − 100/(1 + (G/N)/(L/N)) = 100·G/(G+L) -/
theorem rsi_formula (N : Nat) (hN : 0 < N) (G L : α) (hG : 0 ≤ G) (hL : 0 ≤ L) (hL0 : L ≠ 0) :
    (100 : α) - 100 / (1 + (G / (N : α)) / (L / (N : α))) = 100 * G / (G + L) := by
  have hN0 : (N : α) ≠ 0 := by exact_mod_cast hN.ne'
  have hLpos : 0 < L := lt_of_le_of_ne hL (Ne.symm hL0)
  have hs : G + L ≠ 0 := by
    have : 0 < G + L := by linarith
    exact this.ne'
  have h1 : (1 : α) + (G / (N : α)) / (L / (N : α)) ≠ 0 := by
    have : (G / (N : α)) / (L / (N : α)) = G / L := by field_simp
    rw [this]
    have : 0 ≤ G / L := div_nonneg hG hL
    intro h; linarith
  field_simp
  ring

/-! ### the update as a composition of pure stages -/
def reset (s : RsiState α) (v : α) : RsiState α :=
  if s.q.isEmpty then { s with oldRef := v, lastVal := v } else s

def evict (N : Nat) (s : RsiState α) : RsiState α :=
  match s.q with
  | [] => s
  | old :: rest =>
    let change := old - s.oldRef
    if 0 < change then { s with oldRef := old, q := rest, avgGain := s.avgGain - change / (N : α) }
    else { s with oldRef := old, q := rest, avgLoss := s.avgLoss - absv change / (N : α) }

def push (N : Nat) (s : RsiState α) (v : α) : RsiState α :=
  let change := v - s.lastVal
  if 0 < change then { s with q := s.q ++ [v], lastVal := v, avgGain := s.avgGain + change / (N : α) }
  else { s with q := s.q ++ [v], lastVal := v, avgLoss := s.avgLoss + absv change / (N : α) }

def emit (N : Nat) (s : RsiState α) : RsiState α :=
  if s.q.length < N then s
  else if s.avgLoss = 0 then { s with out := some 100 }
  else { s with out := some (100 - 100 / (1 + s.avgGain / s.avgLoss)) }

theorem maxv_of_nonneg (x : α) (h : 0 ≤ x) : maxv x (nat 0 : α) = x := by
  simp only [maxv, nat_eq, Nat.cast_zero, not_lt.mpr h, if_false]

theorem sum_gpart_nonneg (N : Nat) (W : List α) : 0 ≤ sumL (W.map (gpart N)) := by
  induction W with
  | nil => simp
  | cons d W ih =>
    simp only [List.map_cons, sumL_cons, gpart]
    split
    · rename_i h; have : 0 ≤ d / (N : α) := div_nonneg h.le (Nat.cast_nonneg N); linarith
    · linarith

theorem absv_nonneg (d : α) : 0 ≤ absv d := by
  simp only [absv, nat_eq, Nat.cast_zero]; split <;> linarith

theorem sum_lpart_nonneg (N : Nat) (W : List α) : 0 ≤ sumL (W.map (lpart N)) := by
  induction W with
  | nil => simp
  | cons d W ih =>
    simp only [List.map_cons, sumL_cons, lpart]
    split
    · linarith
    · have : 0 ≤ absv d / (N : α) := div_nonneg (absv_nonneg d) (Nat.cast_nonneg N); linarith

/-- the clamp `.max(0)` after a removal is the identity whenever the running averages stay non-negative — which the
invariant guarantees in exact arithmetic (it only matters for floating-point residue) -/
theorem step_eq (N : Nat) (hN : 0 < N) (s : RsiState α) (v : α)
    (hnn : N ≤ (reset s v).q.length → 0 ≤ (evict N (reset s v)).avgGain ∧ 0 ≤ (evict N (reset s v)).avgLoss) :
    (rsiCore N).step s v = .ok (emit N (push N (if N ≤ (reset s v).q.length then evict N (reset s v) else reset s v) v)) := by
  simp only [rsiCore, nat_eq, Nat.cast_zero, Nat.cast_one, Nat.cast_ofNat]
  have hr : (if s.q.isEmpty = true then ({ s with oldRef := v, lastVal := v } : RsiState α) else s) = reset s v := rfl
  rw [hr]
  revert hnn
  generalize reset s v = s0
  intro hnn
  by_cases hfull : N ≤ s0.q.length
  · cases hq : s0.q with
    | nil => rw [hq] at hfull; simp at hfull; omega
    | cons old rest =>
      have hfull' : N ≤ rest.length + 1 := by rw [hq] at hfull; simpa using hfull
      have hn := hnn hfull
      simp only [evict, hq] at hn
      simp only [hq, List.length_cons, hfull', if_true, front, bind, Except.bind, pure, Except.pure, List.tail_cons]
      simp only [evict, hq, push, emit]
      by_cases h1 : 0 < old - s0.oldRef
      · simp only [h1, if_true] at hn
        have hm := maxv_of_nonneg _ hn.1
        simp only [nat_eq, Nat.cast_zero] at hm
        by_cases h2 : 0 < v - s0.lastVal <;>
          simp only [h1, h2, hm, if_true, if_false, List.length_append, List.length_singleton] <;>
          (split <;> [rfl; (split <;> simp_all [bind, Except.bind, pure, Except.pure])])
      · simp only [h1, if_false] at hn
        have hm := maxv_of_nonneg _ hn.2
        simp only [nat_eq, Nat.cast_zero] at hm
        by_cases h2 : 0 < v - s0.lastVal <;>
          simp only [h1, h2, hm, if_true, if_false, List.length_append, List.length_singleton] <;>
          (split <;> [rfl; (split <;> simp_all [bind, Except.bind, pure, Except.pure])])
  · simp only [hfull, if_false, bind, Except.bind, pure, Except.pure]
    simp only [push, emit]
    by_cases h2 : 0 < v - s0.lastVal <;>
      simp only [h2, if_true, if_false, List.length_append, List.length_singleton] <;>
      (split <;> [rfl; (split <;> simp_all [bind, Except.bind, pure, Except.pure])])

/-- everything but the published output -/
structure PInv (N : Nat) (s : RsiState α) (xs : List α) : Prop where
  hq : s.q = lastN N xs
  hlast : s.lastVal = (xs.getLast?).getD 0
  hW : lastN N (changes xs) = diffs s.oldRef s.q
  hg : s.avgGain = sumL ((diffs s.oldRef s.q).map (gpart N))
  hl : s.avgLoss = sumL ((diffs s.oldRef s.q).map (lpart N))

theorem gpart_lpart_zero (N : Nat) : gpart (α := α) N 0 = 0 ∧ lpart (α := α) N 0 = 0 := by
  simp [gpart, lpart, absv]

theorem getLast_lastN (N : Nat) (hN : 0 < N) (xs : List α) : (lastN N xs).getLast? = xs.getLast? := by
  simp only [lastN]
  rw [List.getLast?_drop]
  split
  · rename_i h
    have : xs = [] := by
      cases xs with
      | nil => rfl
      | cons a l => simp at h; omega
    subst this; rfl
  · rfl

/-- reset / evict / push keep the accumulators equal to the per-change contributions of the change window -/
theorem push_pinv (N : Nat) (hN : 0 < N) (s : RsiState α) (xs : List α) (x : α) (h : Inv N s xs) :
    PInv N (push N (if N ≤ (reset s x).q.length then evict N (reset s x) else reset s x) x) (xs ++ [x]) := by
  obtain ⟨hq, hlast, hW, hg, hl, hout⟩ := h
  by_cases h0 : xs = []
  · -- very first value
    subst h0
    have hq0 : s.q = [] := by simpa using hq
    have hr : reset s x = { s with oldRef := x, lastVal := x } := by simp [reset, hq0]
    have hnf : ¬ N ≤ (reset s x).q.length := by rw [hr]; simp [hq0]; omega
    rw [if_neg hnf, hr]
    have hg0 : s.avgGain = 0 := by rw [hg, hq0]; simp [diffs]
    have hl0 : s.avgLoss = 0 := by rw [hl, hq0]; simp [diffs]
    simp only [push, sub_self, lt_irrefl, if_false, hq0, List.nil_append]
    refine ⟨?_, by simp, ?_, ?_, ?_⟩
    · show [x] = lastN N ([] ++ [x])
      rw [lastN_of_le N _ (by simp; omega)]; rfl
    · show lastN N (changes ([] ++ [x])) = diffs x [x]
      have : changes ([] ++ [x]) = [(0 : α)] := by simp [changes]
      rw [this, lastN_of_le N _ (by simp; omega)]; simp [diffs]
    · simp [diffs, hg0, (gpart_lpart_zero (α := α) N).1]
    · simp [diffs, hl0, (gpart_lpart_zero (α := α) N).2, absv]
  · have hqne : s.q ≠ [] := by
      intro h; rw [hq] at h
      have h1 := congrArg List.length h; rw [lastN_length] at h1
      have h2 : 0 < xs.length := List.length_pos_of_ne_nil h0
      have h3 : 0 < min N xs.length := Nat.lt_min.mpr ⟨hN, h2⟩
      rw [h1] at h3; simp at h3
    have hr : reset s x = s := by
      simp only [reset]; rw [if_neg]; simpa using hqne
    rw [hr]
    have hqlast : s.q.getLast? = xs.getLast? := by rw [hq, getLast_lastN N hN]
    have hchs : changes (xs ++ [x]) = changes xs ++ [x - s.lastVal] := by rw [changes_snoc xs x h0, hlast]
    have hWlen : (lastN N (changes xs)).length = s.q.length := by rw [hW]; simp
    by_cases hfull : N ≤ s.q.length
    · rw [if_pos hfull]
      cases hqe : s.q with
      | nil => exact absurd hqe hqne
      | cons old rest =>
        have hWe : lastN N (changes xs) = (old - s.oldRef) :: diffs old rest := by rw [hW, hqe]; rfl
        have hW' : lastN N (changes (xs ++ [x])) = diffs old rest ++ [x - s.lastVal] := by
          rw [hchs, lastN_snoc_full N _ _ hN (by rw [hWlen]; exact hfull), hWe]; rfl
        have hlv : s.lastVal = (rest.getLast?).getD old := by
          rw [hlast, ← hqlast, hqe]
          cases rest with
          | nil => simp
          | cons r0 r' => simp [List.getLast?_cons_cons, List.getLast?_eq_getLast_of_ne_nil]
        have hd : diffs old (rest ++ [x]) = diffs old rest ++ [x - s.lastVal] := by rw [diffs_snoc, hlv]
        have hqx : lastN N (xs ++ [x]) = rest ++ [x] := by
          rw [lastN_snoc_full N xs x hN (by rw [← hq]; exact hfull), ← hq, hqe]; rfl
        have hgs : s.avgGain = gpart N (old - s.oldRef) + sumL ((diffs old rest).map (gpart N)) := by
          rw [hg, hqe]; simp [diffs]
        have hls : s.avgLoss = lpart N (old - s.oldRef) + sumL ((diffs old rest).map (lpart N)) := by
          rw [hl, hqe]; simp [diffs]
        simp only [evict, hqe]
        by_cases hc : 0 < old - s.oldRef <;> by_cases hc2 : 0 < x - s.lastVal <;>
          simp only [push, hc, hc2, if_true, if_false] <;>
          refine ⟨by simp [hqx], by simp, by simp only []; rw [hW', hd], ?_, ?_⟩ <;>
          simp only [hd, List.map_append, sumL_append, List.map_cons, List.map_nil, sumL_cons, sumL_nil, hgs, hls,
            gpart, lpart, hc, hc2, if_true, if_false] <;> ring
    · rw [if_neg hfull]
      have hlt : s.q.length < N := by omega
      have hqxs : s.q = xs := by
        rw [hq]; apply lastN_of_le
        have := lastN_length N xs; rw [← hq] at this; omega
      have hW' : lastN N (changes (xs ++ [x])) = diffs s.oldRef s.q ++ [x - s.lastVal] := by
        rw [hchs, lastN_snoc_lt N _ _ (by rw [hWlen]; exact hlt), hW]
      have hlv : s.lastVal = (s.q.getLast?).getD s.oldRef := by
        rw [hlast, hqlast]
        obtain ⟨a, l, rfl⟩ := List.exists_cons_of_ne_nil h0
        simp [List.getLast?_eq_getLast_of_ne_nil]
      have hd : diffs s.oldRef (s.q ++ [x]) = diffs s.oldRef s.q ++ [x - s.lastVal] := by rw [diffs_snoc, hlv]
      have hqx : lastN N (xs ++ [x]) = s.q ++ [x] := by
        rw [lastN_snoc_lt N xs x (by rw [← hq]; exact hlt), ← hq]
      by_cases hc2 : 0 < x - s.lastVal <;>
        simp only [push, hc2, if_true, if_false] <;>
        refine ⟨by simp [hqx], by simp, by simp only []; rw [hW', hd], ?_, ?_⟩ <;>
        simp only [hd, List.map_append, sumL_append, List.map_cons, List.map_nil, sumL_cons, sumL_nil, hg, hl,
          gpart, lpart, hc2, if_true, if_false] <;> ring

theorem emit_inv (N : Nat) (hN : 0 < N) (t : RsiState α) (xs : List α) (x : α) (h : PInv N t (xs ++ [x]))
    (hout : t.out = Spec.rsi N xs) : Inv N (emit N t) (xs ++ [x]) := by
  obtain ⟨hq, hlast, hW, hg, hl⟩ := h
  have hN0 : (N : α) ≠ 0 := by exact_mod_cast hN.ne'
  have hlen : t.q.length = min N (xs.length + 1) := by rw [hq, lastN_length]; simp
  have hG : t.avgGain = Spec.gains N (xs ++ [x]) / (N : α) := by rw [hg, gsum, ← hW]; rfl
  have hL : t.avgLoss = Spec.losses N (xs ++ [x]) / (N : α) := by rw [hl, lsum, ← hW]; rfl
  by_cases hlt : t.q.length < N
  · have hx : xs.length + 1 < N := by
      rcases Nat.lt_or_ge (xs.length + 1) N with h | h
      · exact h
      · rw [Nat.min_eq_left h] at hlen; omega
    have e : emit N t = t := by simp [emit, hlt]
    rw [e]
    refine ⟨hq, hlast, hW, hg, hl, ?_⟩
    rw [hout]
    have h1 : xs.length < N := by omega
    simp [Spec.rsi, h1, hx]
  · have hx : N ≤ xs.length + 1 := by
      rcases Nat.lt_or_ge (xs.length + 1) N with h | h
      · rw [Nat.min_eq_right (Nat.le_of_lt h)] at hlen; omega
      · exact h
    have hguard : ¬ ((xs ++ [x]).length < N || (xs ++ [x]).isEmpty) := by simp; omega
    have hGn := gains_nonneg N (xs ++ [x])
    have hLn := losses_nonneg N (xs ++ [x])
    by_cases hz : t.avgLoss = 0
    · have hL0 : Spec.losses N (xs ++ [x]) = 0 := by
        rw [hL] at hz; exact (div_eq_zero_iff.mp hz).resolve_right hN0
      have e : emit N t = { t with out := some 100 } := by simp [emit, hlt, hz]
      rw [e]
      refine ⟨hq, hlast, hW, hg, hl, ?_⟩
      simp only [Spec.rsi, hguard, if_false, hL0]; simp
    · have hL0 : Spec.losses N (xs ++ [x]) ≠ 0 := by
        intro h0; apply hz; rw [hL, h0]; simp
      have e : emit N t = { t with out := some (100 - 100 / (1 + t.avgGain / t.avgLoss)) } := by simp [emit, hlt, hz]
      rw [e]
      refine ⟨hq, hlast, hW, hg, hl, ?_⟩
      have hLb : (Spec.losses N (xs ++ [x]) == nat 0) = false := by simpa using hL0
      simp only [Spec.rsi, hguard, if_false, hLb, Bool.false_eq_true, nat_eq, Nat.cast_ofNat, hG, hL]
      congr 1
      rw [rsi_formula N hN _ _ hGn hLn hL0]; simp [hL0]

theorem step_ok (N : Nat) (hN : 0 < N) (s : RsiState α) (xs : List α) (x : α) (h : Inv N s xs) :
    ∃ s', (rsiCore N).step s x = .ok s' ∧ Inv N s' (xs ++ [x]) := by
  refine ⟨_, step_eq N hN s x ?_, ?_⟩
  · -- the running averages stay non-negative through a removal
    intro hfull
    have hg := h.hg
    have hl := h.hl
    by_cases h0 : s.q = []
    · have : reset s x = { s with oldRef := x, lastVal := x } := by simp [reset, h0]
      rw [this] at hfull; simp [h0] at hfull; omega
    · have hr : reset s x = s := by simp only [reset]; rw [if_neg]; simpa using h0
      rw [hr]
      obtain ⟨old, rest, hqe⟩ := List.exists_cons_of_ne_nil h0
      have hgs : s.avgGain = gpart N (old - s.oldRef) + sumL ((diffs old rest).map (gpart N)) := by
        rw [hg, hqe]; simp [diffs]
      have hls : s.avgLoss = lpart N (old - s.oldRef) + sumL ((diffs old rest).map (lpart N)) := by
        rw [hl, hqe]; simp [diffs]
      have g0 := sum_gpart_nonneg N (diffs old rest)
      have l0 := sum_lpart_nonneg N (diffs old rest)
      simp only [evict, hqe]
      by_cases hc : 0 < old - s.oldRef
      · simp only [hc, if_true, hgs, hls, gpart, lpart]
        constructor <;> linarith
      · have ha : 0 ≤ absv (old - s.oldRef) / (N : α) := div_nonneg (absv_nonneg _) (Nat.cast_nonneg N)
        simp only [hc, if_false, hgs, hls, gpart, lpart]
        constructor <;> linarith
  apply emit_inv N hN _ xs x (push_pinv N hN s xs x h)
  -- the published output is untouched by reset / evict / push
  have hout := h.hout
  have e : ∀ t : RsiState α, (push N t x).out = t.out := by
    intro t; simp only [push]; split <;> rfl
  have e2 : ∀ t : RsiState α, (evict N t).out = t.out := by
    intro t; simp only [evict]; split
    · rfl
    · split <;> rfl
  have e3 : (reset s x).out = s.out := by simp only [reset]; split <;> rfl
  rw [e]; split
  · rw [e2, e3, hout]
  · rw [e3, hout]

/-- **Rsi = 100·G/(G+L) (100 when L = 0) over the N most recent changes, from the N-th value on** -/
theorem outAfter_eq (N : Nat) (hN : 0 < N) (xs : List α) :
    (rsiCore (α := α) N).outAfter xs = .ok (Spec.rsi N xs) :=
  Core.outAfter_of_inv _ (Inv N) (Spec.rsi N)
    (Core.run_invariant_init (rsiCore N) (Inv N) (init_inv N) (fun s pre x h => step_ok N hN s pre x h))
    (fun s xs h => by simp [rsiCore, h.hout, pure, Except.pure]) xs

theorem size_le (N : Nat) (hN : 0 < N) (xs : List α) (s : RsiState α)
    (h : (rsiCore (α := α) N).run (rsiCore (α := α) N).init xs = .ok s) : (rsiCore (α := α) N).size s ≤ N := by
  obtain ⟨s', hs, hi⟩ := Core.run_invariant_init (rsiCore N) (Inv N) (init_inv N) (fun s pre x h => step_ok N hN s pre x h) xs
  rw [h] at hs; cases hs
  show s.q.length ≤ N
  rw [hi.hq]; exact lastN_length_le N xs

end SF.Rsi
