import SF.Lemmas.MinMax
import SF.Lemmas.Cog
import SF.Model.Ehlers
/-
  EhlersFisherTransform: the cached high / low are the extrema of exactly the last N values (the rescan-on-eviction logic
  with its "emptied window" default), and the output deque's newest entry follows the Fisher recursion of the spec, for
  ANY smoothing view `ma` that itself realises a batch function `maS` of what it was fed.
-/
namespace SF.Eft
open SF SF.Spec SF.MinMax
set_option linter.unusedSectionVars false
set_option linter.unusedSimpArgs false
variable {α : Type} [Field α] [LinearOrder α] [IsStrictOrderedRing α] [FloatLike α] [ExactScalar α] [Transc α]

/-! ### the spec, unfolded -/
/-- what the spec does with a new value once the window extrema are known: (new output, values fed to ma) -/
def fishEmit (ma : List α → Option α) (prev : Option α) (fed : List α) (hi lo x : α) : Option α × List α :=
  if hi == lo then (some (nat 0), fed)
  else
    let v := nat 2 * ((x - lo) / (hi - lo) - dec 5 10)
    let fed' := fed ++ [v]
    match ma fed' with
    | none => (prev, fed')
    | some sm =>
      let s := if sm < -(dec 99 100) then -(dec 99 100) else if dec 99 100 < sm then dec 99 100 else sm
      match prev with
      | none => (some (nat 0), fed')
      | some p => (some (dec 5 10 * Transc.ln ((nat 1 + s) / (nat 1 - s)) + dec 5 10 * p), fed')

def fishStep (N : Nat) (ma : List α → Option α) (acc : List α × Option α × List α) (x : α) : List α × Option α × List α :=
  let hist := acc.1 ++ [x]
  match minL (lastN N hist), maxL (lastN N hist) with
  | some lo, some hi => (hist, (fishEmit ma acc.2.1 acc.2.2 hi lo x).1, (fishEmit ma acc.2.1 acc.2.2 hi lo x).2)
  | _, _ => (hist, acc.2.1, acc.2.2)

def fishFold (N : Nat) (ma : List α → Option α) (xs : List α) : List α × Option α × List α :=
  xs.foldl (fishStep N ma) ([], none, [])

theorem fisher_eq_fold (N : Nat) (ma : List α → Option α) (xs : List α) :
    Spec.fisher N ma xs = (fishFold N ma xs).2.1 := by
  simp only [Spec.fisher, fishFold]
  congr 3
  funext acc x
  simp only [fishStep, fishEmit]
  cases minL (lastN N (acc.1 ++ [x])) with
  | none => rfl
  | some lo =>
    cases maxL (lastN N (acc.1 ++ [x])) with
    | none => rfl
    | some hi =>
      simp only []
      by_cases hb : (hi == lo) = true
      · simp only [hb, if_true]
      · simp only [hb, if_false]
        cases ma (acc.2.2 ++ [nat 2 * ((x - lo) / (hi - lo) - dec 5 10)]) with
        | none => rfl
        | some sm =>
          simp only []
          cases acc.2.1 with
          | none => rfl
          | some prev => rfl

theorem fishFold_snoc (N : Nat) (ma : List α → Option α) (xs : List α) (x : α) :
    fishFold N ma (xs ++ [x]) = fishStep N ma (fishFold N ma xs) x := by
  simp only [fishFold, List.foldl_append, List.foldl_cons, List.foldl_nil]

theorem fishFold_hist (N : Nat) (ma : List α → Option α) (xs : List α) : (fishFold N ma xs).1 = xs := by
  induction xs using List.reverseRecOn with
  | nil => rfl
  | append_singleton xs x ih =>
    rw [fishFold_snoc]
    simp only [fishStep, ih]
    split <;> rfl

/-! ### the window part -/
theorem push_hl (q : List α) (hi lo v : α) (hh : IsGreatestL hi q) (hl : IsLeastL lo q) :
    IsGreatestL (if hi < v then (v, lo) else if v < lo then (hi, v) else (hi, lo)).1 (q ++ [v]) ∧
    IsLeastL (if hi < v then (v, lo) else if v < lo then (hi, v) else (hi, lo)).2 (q ++ [v]) := by
  have hlh : lo ≤ hi := hh.2 lo hl.1
  by_cases h1 : hi < v
  · simp only [h1, if_true]
    refine ⟨⟨by simp, fun x hx => ?_⟩, ⟨by simp [hl.1], fun x hx => ?_⟩⟩
    · rcases List.mem_append.mp hx with h | h
      · exact le_trans (hh.2 x h) h1.le
      · simp at h; rw [h]
    · rcases List.mem_append.mp hx with h | h
      · exact hl.2 x h
      · simp at h; rw [h]; exact le_trans hlh h1.le
  · simp only [h1, if_false]
    by_cases h2 : v < lo
    · simp only [h2, if_true]
      refine ⟨⟨by simp [hh.1], fun x hx => ?_⟩, ⟨by simp, fun x hx => ?_⟩⟩
      · rcases List.mem_append.mp hx with h | h
        · exact hh.2 x h
        · simp at h; rw [h]; exact not_lt.mp h1
      · rcases List.mem_append.mp hx with h | h
        · exact le_trans h2.le (hl.2 x h)
        · simp at h; rw [h]
    · simp only [h2, if_false]
      refine ⟨⟨by simp [hh.1], fun x hx => ?_⟩, ⟨by simp [hl.1], fun x hx => ?_⟩⟩
      · rcases List.mem_append.mp hx with h | h
        · exact hh.2 x h
        · simp at h; rw [h]; exact not_lt.mp h1
      · rcases List.mem_append.mp hx with h | h
        · exact hl.2 x h
        · simp at h; rw [h]; exact not_lt.mp h2

/-- after the window part the deque is exactly the last N values and high / low are its extrema -/
theorem window_ok (N : Nat) (hN : 0 < N) (q : List α) (hi lo v : α) (xs : List α) (hq : q = lastN N xs)
    (hne : xs ≠ [] → IsGreatestL hi q ∧ IsLeastL lo q) :
    ∃ hi' lo', eftWindow N q hi lo v = .ok (lastN N (xs ++ [v]), hi', lo') ∧
      IsGreatestL hi' (lastN N (xs ++ [v])) ∧ IsLeastL lo' (lastN N (xs ++ [v])) := by
  have hpush := Cog.lastN_push N hN xs v
  rw [← hq] at hpush
  by_cases hx : xs = []
  · subst hx
    have hq0 : q = [] := by simpa using hq
    subst hq0
    have hnf : ¬ N ≤ 0 := by omega
    have e : lastN N ([] ++ [v]) = [v] := by
      rw [← hpush]; simp [hnf]
    rw [e]
    refine ⟨v, v, ?_, ⟨by simp, by simp⟩, ⟨by simp, by simp⟩⟩
    simp only [eftWindow, List.isEmpty_nil, if_true, List.length_nil, hnf, if_false, bind, Except.bind, pure, Except.pure,
      List.nil_append, lt_irrefl]
  · obtain ⟨hh, hl⟩ := hne hx
    have hqne : q ≠ [] := by
      intro h; rw [h] at hh; exact absurd hh.1 (by simp)
    have hemp : q.isEmpty = false := by simpa using hqne
    by_cases hfull : N ≤ q.length
    · rw [if_pos hfull] at hpush
      cases hqe : q with
      | nil => exact absurd hqe hqne
      | cons old rest =>
        rw [hqe] at hh hl hpush hfull
        simp only [List.tail_cons] at hpush
        by_cases hre : rest = []
        · subst hre
          have e1 : hi = old := by have := hh.1; simpa using this
          have e2 : lo = old := by have := hl.1; simpa using this
          subst e1; subst e2
          refine ⟨v, v, ?_, ?_, ?_⟩
          · simp only [eftWindow, List.isEmpty_cons, Bool.false_eq_true, if_false, hfull, if_true, popFront, bind, Except.bind, pure,
              Except.pure, le_refl, listMaxD, listMinD, List.nil_append, lt_irrefl]
            rw [← hpush]; rfl
          · rw [← hpush]; exact ⟨by simp, by simp⟩
          · rw [← hpush]; exact ⟨by simp, by simp⟩
        · obtain ⟨f, r, rfl⟩ := List.exists_cons_of_ne_nil hre
          -- the extrema of the remaining values
          have hH : IsGreatestL (if hi ≤ old then listMaxD (f :: r) v else hi) (f :: r) := by
            by_cases hc : hi ≤ old
            · simp only [hc, if_true, listMaxD]; exact foldl_max_greatest r f
            · simp only [hc, if_false]
              refine ⟨?_, fun y hy => hh.2 y (by simp [hy])⟩
              rcases List.mem_cons.mp hh.1 with h | h
              · exact absurd (le_of_eq h) hc
              · exact h
          have hL : IsLeastL (if old ≤ lo then listMinD (f :: r) v else lo) (f :: r) := by
            by_cases hc : old ≤ lo
            · simp only [hc, if_true, listMinD]; exact foldl_min_least r f
            · simp only [hc, if_false]
              refine ⟨?_, fun y hy => hl.2 y (by simp [hy])⟩
              rcases List.mem_cons.mp hl.1 with h | h
              · exact absurd (le_of_eq h.symm) hc
              · exact h
          have hp := push_hl (f :: r) _ _ v hH hL
          refine ⟨_, _, ?_, by rw [← hpush]; exact hp.1, by rw [← hpush]; exact hp.2⟩
          simp only [eftWindow, List.isEmpty_cons, Bool.false_eq_true, if_false, hfull, if_true, popFront, bind, Except.bind, pure,
            Except.pure, hpush]
    · rw [if_neg hfull] at hpush
      have hp := push_hl q hi lo v hh hl
      refine ⟨_, _, ?_, by rw [← hpush]; exact hp.1, by rw [← hpush]; exact hp.2⟩
      simp only [eftWindow, hemp, Bool.false_eq_true, if_false, hfull, bind, Except.bind, pure, Except.pure, hpush]

/-! ### the smoothing view realises a batch function -/
/-- `ma` never panics and, after being fed `fed`, reports `maS fed` -/
def Realises (ma : View α) (maS : List α → Option α) : Prop :=
  ∀ fed : List α, ∃ m, ma.run ma.init fed = .ok m ∧ ma.last m = .ok (maS fed)

theorem realises_upd (ma : View α) (maS : List α → Option α) (h : Realises ma maS) (fed : List α) (m : ma.σ)
    (hm : ma.run ma.init fed = .ok m) (nv : α) :
    ∃ m', ma.upd m nv = .ok m' ∧ ma.run ma.init (fed ++ [nv]) = .ok m' ∧ ma.last m' = .ok (maS (fed ++ [nv])) := by
  obtain ⟨m', hr, hl⟩ := h (fed ++ [nv])
  rw [View.run_append, hm] at hr
  simp only [bind, Except.bind, View.run] at hr
  cases hu : ma.upd m nv with
  | error e => rw [hu] at hr; simp at hr
  | ok m2 =>
    rw [hu] at hr
    simp only [pure, Except.pure, Except.ok.injEq] at hr
    subst hr
    refine ⟨m2, rfl, ?_, hl⟩
    rw [View.run_append, hm]; simp [bind, Except.bind, View.run, hu, pure, Except.pure]

theorem getLast?_tail (l : List α) (h : 1 < l.length) : l.tail.getLast? = l.getLast? := by
  cases l with
  | nil => simp at h
  | cons a r =>
    cases r with
    | nil => simp at h
    | cons b r' => simp [List.getLast?_cons_cons]

/-- the output part follows the spec -/
theorem emit_ok (ma : View α) (maS : List α → Option α) (hma : Realises ma maS) (m : ma.σ) (fed : List α)
    (hm : ma.run ma.init fed = .ok m) (qOut : List α) (hi lo v : α) :
    ∃ m' qOut', eftEmit ma m qOut hi lo v = .ok (m', qOut') ∧
      ma.run ma.init (fishEmit maS qOut.getLast? fed hi lo v).2 = .ok m' ∧
      qOut'.getLast? = (fishEmit maS qOut.getLast? fed hi lo v).1 ∧ qOut'.length ≤ qOut.length + 1 := by
  unfold eftEmit fishEmit
  by_cases heq : hi = lo
  · have hb : (hi == lo) = true := by simpa using heq
    simp only [hb, if_true]
    exact ⟨m, qOut ++ [nat 0], rfl, hm, by simp, by simp⟩
  · have hb : (hi == lo) = false := by simpa using heq
    simp only [hb, Bool.false_eq_true, if_false]
    obtain ⟨m', hu, hr, hl⟩ := realises_upd ma maS hma fed m hm (nat 2 * ((v - lo) / (hi - lo) - dec 5 10))
    simp only [hu, bind, Except.bind, hl]
    cases hs : maS (fed ++ [nat 2 * ((v - lo) / (hi - lo) - dec 5 10)]) with
    | none => exact ⟨m', qOut, rfl, hr, rfl, by omega⟩
    | some sm =>
      simp only []
      cases hq : qOut.getLast? with
      | none =>
        have : qOut = [] := List.getLast?_eq_none_iff.mp hq
        subst this
        simp only [List.isEmpty_nil, if_true, pure, Except.pure]
        exact ⟨m', [] ++ [nat 0], rfl, hr, by simp, by simp⟩
      | some p =>
        have hne : qOut.isEmpty = false := by
          cases qOut with
          | nil => simp at hq
          | cons a r => rfl
        have hback : back qOut = .ok p := by simp [back, hq, pure, Except.pure]
        simp only [hne, Bool.false_eq_true, if_false, hback, assertFinite_exact, pure, Except.pure, clampv]
        exact ⟨m', _, rfl, hr, by simp, by simp⟩

/-! ### the invariant -/
structure Inv (N : Nat) (ma : View α) (maS : List α → Option α) (s : EftState α ma.σ) (xs : List α) : Prop where
  hq : s.q = lastN N xs
  hne : xs ≠ [] → IsGreatestL s.high s.q ∧ IsLeastL s.low s.q
  hma : ma.run ma.init (fishFold N maS xs).2.2 = .ok s.ma
  hout : s.qOut.getLast? = (fishFold N maS xs).2.1
  hlen : s.qOut.length ≤ 2

theorem step_ok (N : Nat) (hN : 0 < N) (ma : View α) (maS : List α → Option α) (hR : Realises ma maS)
    (s : EftState α ma.σ) (xs : List α) (x : α) (h : Inv N ma maS s xs) :
    ∃ s', (eftCore N ma).step s x = .ok s' ∧ Inv N ma maS s' (xs ++ [x]) := by
  obtain ⟨hq, hne, hma, hout, hlen⟩ := h
  obtain ⟨hi', lo', hw, hH, hL⟩ := window_ok N hN s.q s.high s.low x xs hq hne
  set qOut := (if 1 < s.qOut.length then s.qOut.tail else s.qOut) with hqOut
  have hqo : qOut.getLast? = (fishFold N maS xs).2.1 := by
    rw [hqOut, ← hout]; split
    · rename_i h1; exact getLast?_tail _ h1
    · rfl
  have hqol : qOut.length ≤ 1 := by
    rw [hqOut]; split
    · simp; omega
    · omega
  obtain ⟨m', qOut', he, hr, hl, hle⟩ := emit_ok ma maS hR s.ma (fishFold N maS xs).2.2 hma qOut hi' lo' x
  refine ⟨{ q := lastN N (xs ++ [x]), ma := m', high := hi', low := lo', qOut := qOut' }, ?_, ?_⟩
  · simp only [eftCore, hw, bind, Except.bind, ← hqOut, he, pure, Except.pure]
  · have hlo := minL_eq_of_least _ _ hL
    have hhi := maxL_eq_of_greatest _ _ hH
    have hfs : fishFold N maS (xs ++ [x]) =
        (xs ++ [x], (fishEmit maS (fishFold N maS xs).2.1 (fishFold N maS xs).2.2 hi' lo' x).1,
          (fishEmit maS (fishFold N maS xs).2.1 (fishFold N maS xs).2.2 hi' lo' x).2) := by
      rw [fishFold_snoc]
      simp only [fishStep, fishFold_hist, hlo, hhi]
    refine ⟨rfl, fun _ => ⟨hH, hL⟩, ?_, ?_, by simp only []; omega⟩
    · rw [hfs]; simp only []; rw [← hqo]; exact hr
    · rw [hfs]; simp only []; rw [← hqo]; exact hl

theorem init_inv (N : Nat) (ma : View α) (maS : List α → Option α) : Inv N ma maS (eftCore N ma).init [] :=
  ⟨by simp [eftCore], fun h => absurd rfl h, by simp [eftCore, fishFold, View.run, pure, Except.pure],
    by simp [eftCore, fishFold], by simp [eftCore]⟩

theorem run_ok (N : Nat) (hN : 0 < N) (ma : View α) (maS : List α → Option α) (hR : Realises ma maS) (xs : List α) :
    ∃ s, (eftCore N ma).run (eftCore N ma).init xs = .ok s ∧ Inv N ma maS s xs :=
  Core.run_invariant_init (eftCore N ma) (Inv N ma maS) (init_inv N ma maS)
    (fun s pre x h => step_ok N hN ma maS hR s pre x h) xs

/-- **EhlersFisherTransform equals the batch re-evaluation** for every N ≥ 1, every history and every smoothing view that
realises a batch function of what it was fed: window min-max normalisation into [−1, 1], smoothing, clamp to ±0.99,
0.5·ln((1+v)/(1−v)) + 0.5·previous; 0 on a flat window and for the first smoothed value -/
theorem outAfter_eq (N : Nat) (hN : 0 < N) (ma : View α) (maS : List α → Option α) (hR : Realises ma maS) (xs : List α) :
    (eftCore N ma).outAfter xs = .ok (Spec.fisher N maS xs) :=
  Core.outAfter_of_inv _ (Inv N ma maS) (Spec.fisher N maS) (run_ok N hN ma maS hR)
    (fun s xs h => by rw [fisher_eq_fold, ← h.hout]; rfl) xs

/-- the buffers hold at most N + 2 scalars plus what the smoothing view holds -/
theorem size_le (N : Nat) (hN : 0 < N) (ma : View α) (maS : List α → Option α) (hR : Realises ma maS) (xs : List α)
    (s : EftState α ma.σ) (h : (eftCore N ma).run (eftCore N ma).init xs = .ok s) :
    s.q.length + s.qOut.length ≤ N + 2 := by
  obtain ⟨s', hs, hi⟩ := run_ok N hN ma maS hR xs
  rw [h] at hs; cases hs
  have := hi.hlen
  rw [hi.hq]; have := lastN_length_le N xs; omega


/-! ### every characterised core, run over Echo, realises its spec -/
theorem overEcho_run (B : Core α) (xs : List α) (o : Option α) (b b' : B.σ) (h : B.run b xs = .ok b') :
    ∃ o', (overEcho B).run (o, b) xs = .ok (o', b') := by
  induction xs generalizing o b with
  | nil => simp only [Core.run, pure, Except.pure, Except.ok.injEq] at h; subst h; exact ⟨o, rfl⟩
  | cons x xs ih =>
    simp only [Core.run, bind, Except.bind] at h
    cases hs : B.step b x with
    | error e => rw [hs] at h; simp at h
    | ok b1 =>
      rw [hs] at h
      obtain ⟨o', ho⟩ := ih (some x) b1 h
      refine ⟨o', ?_⟩
      simp only [View.run, overEcho, wrap, echoV, bind, Except.bind, assertFinite_exact, pure, Except.pure, hs]
      exact ho

theorem realises_overEcho (B : Core α) (spec : List α → Option α) (h : ∀ xs, B.outAfter xs = .ok (spec xs)) :
    Realises (overEcho B) spec := by
  intro fed
  have := h fed
  simp only [Core.outAfter, bind, Except.bind] at this
  cases hr : B.run B.init fed with
  | error e => rw [hr] at this; simp at this
  | ok b' =>
    rw [hr] at this
    obtain ⟨o', ho⟩ := overEcho_run B fed none B.init b' hr
    exact ⟨(o', b'), ho, this⟩

end SF.Eft
