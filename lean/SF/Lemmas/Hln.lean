import SF.Lemmas.MinMax
import SF.Lemmas.Cog
/- HLNormalizer: cached min / max are the extrema of exactly the last N values; output = 2(x−min)/(max−min) − 1. -/
namespace SF.Hln
open SF SF.Spec SF.MinMax
set_option linter.unusedSectionVars false
set_option linter.unusedSimpArgs false
variable {α : Type} [Field α] [LinearOrder α] [IsStrictOrderedRing α] [FloatLike α] [ExactScalar α]

/-- the rescan loop of `extent_queue` -/
theorem extent_fold (l : List α) (mn mx : α) (pre : List α) (hmn : IsLeastL mn pre) (hmx : IsGreatestL mx pre) :
    IsLeastL (l.foldl (fun (mm : α × α) v => ((if v < mm.1 then v else mm.1), (if mm.2 < v then v else mm.2))) (mn, mx)).1 (pre ++ l) ∧
    IsGreatestL (l.foldl (fun (mm : α × α) v => ((if v < mm.1 then v else mm.1), (if mm.2 < v then v else mm.2))) (mn, mx)).2 (pre ++ l) := by
  induction l generalizing mn mx pre with
  | nil => simpa using ⟨hmn, hmx⟩
  | cons v l ih =>
    simp only [List.foldl_cons]
    have h1 : IsLeastL (if v < mn then v else mn) (pre ++ [v]) := by
      by_cases hc : v < mn
      · simp only [hc, if_true]
        exact ⟨by simp, fun x hx => by
          rcases List.mem_append.mp hx with h | h
          · exact le_trans (le_of_lt hc) (hmn.2 x h)
          · simp at h; rw [h]⟩
      · simp only [hc, if_false]
        exact ⟨by simp [hmn.1], fun x hx => by
          rcases List.mem_append.mp hx with h | h
          · exact hmn.2 x h
          · simp at h; rw [h]; exact not_lt.mp hc⟩
    have h2 : IsGreatestL (if mx < v then v else mx) (pre ++ [v]) := by
      by_cases hc : mx < v
      · simp only [hc, if_true]
        exact ⟨by simp, fun x hx => by
          rcases List.mem_append.mp hx with h | h
          · exact le_trans (hmx.2 x h) (le_of_lt hc)
          · simp at h; rw [h]⟩
      · simp only [hc, if_false]
        exact ⟨by simp [hmx.1], fun x hx => by
          rcases List.mem_append.mp hx with h | h
          · exact hmx.2 x h
          · simp at h; rw [h]; exact not_lt.mp hc⟩
    have := ih _ _ (pre ++ [v]) h1 h2
    simpa using this

theorem extentQueue_spec (f : α) (r : List α) :
    ∃ m M, extentQueue (f :: r) = .ok (m, M) ∧ IsLeastL m (f :: r) ∧ IsGreatestL M (f :: r) := by
  have h := extent_fold (f :: r) f f [f] ⟨by simp, by simp⟩ ⟨by simp, by simp⟩
  refine ⟨((f :: r).foldl (fun (mm : α × α) v => ((if v < mm.1 then v else mm.1), (if mm.2 < v then v else mm.2))) (f, f)).1,
    ((f :: r).foldl (fun (mm : α × α) v => ((if v < mm.1 then v else mm.1), (if mm.2 < v then v else mm.2))) (f, f)).2, ?_, ?_, ?_⟩
  · simp only [extentQueue, front, bind, Except.bind, pure, Except.pure]
  · obtain ⟨hm, hle⟩ := h.1
    refine ⟨?_, fun x hx => hle x (by simp at hx ⊢; tauto)⟩
    have := hm; simp at this ⊢; tauto
  · obtain ⟨hm, hle⟩ := h.2
    refine ⟨?_, fun x hx => hle x (by simp at hx ⊢; tauto)⟩
    have := hm; simp at this ⊢; tauto

structure Inv (N : Nat) (s : HlnState α) (xs : List α) : Prop where
  hq : s.q = lastN N xs
  hinit : s.init = xs.isEmpty
  hne : xs ≠ [] → IsLeastL s.min s.q ∧ IsGreatestL s.max s.q ∧ some s.last = xs.getLast?
  h0 : xs = [] → s.min = 0 ∧ s.max = 0 ∧ s.last = 0

theorem push_least (l : List α) (m v : α) (h : IsLeastL m l) : IsLeastL (if v < m then v else m) (l ++ [v]) := by
  by_cases hc : v < m
  · simp only [hc, if_true]
    exact ⟨by simp, fun x hx => by
      rcases List.mem_append.mp hx with h' | h'
      · exact le_trans (le_of_lt hc) (h.2 x h')
      · simp at h'; rw [h']⟩
  · simp only [hc, if_false]
    exact ⟨by simp [h.1], fun x hx => by
      rcases List.mem_append.mp hx with h' | h'
      · exact h.2 x h'
      · simp at h'; rw [h']; exact not_lt.mp hc⟩

theorem push_greatest (l : List α) (m v : α) (h : IsGreatestL m l) : IsGreatestL (if m < v then v else m) (l ++ [v]) := by
  by_cases hc : m < v
  · simp only [hc, if_true]
    exact ⟨by simp, fun x hx => by
      rcases List.mem_append.mp hx with h' | h'
      · exact le_trans (h.2 x h') (le_of_lt hc)
      · simp at h'; rw [h']⟩
  · simp only [hc, if_false]
    exact ⟨by simp [h.1], fun x hx => by
      rcases List.mem_append.mp hx with h' | h'
      · exact h.2 x h'
      · simp at h'; rw [h']; exact not_lt.mp hc⟩

/-- the tail of the update: push, widen max / min, remember the newest -/
def finish (s : HlnState α) (v : α) : HlnState α :=
  { q := s.q ++ [v], min := if v < s.min then v else s.min, max := if s.max < v then v else s.max, last := v, init := s.init }

theorem finish_eq (s : HlnState α) (v : α) : hlnFinish s v = finish s v := by
  simp only [hlnFinish, finish]
  by_cases h1 : s.max < v <;> by_cases h2 : v < s.min <;> simp [h1, h2]

theorem step_ok (N : Nat) (hN : 0 < N) (s : HlnState α) (xs : List α) (x : α) (h : Inv N s xs) :
    ∃ s', (hlnCore N).step s x = .ok s' ∧ Inv N s' (xs ++ [x]) := by
  obtain ⟨hq, hinit, hne, h0⟩ := h
  have hgl : (xs ++ [x]).getLast? = some x := by simp
  by_cases hx : xs = []
  · subst hx
    have hq0 : s.q = [] := by simpa using hq
    have hi : s.init = true := by simpa using hinit
    refine ⟨finish { s with init := false, min := x, max := x, last := x } x, ?_, ?_⟩
    · simp only [hlnCore, hi, if_true, hq0, List.length_nil, bind, Except.bind, pure, Except.pure]
      have : ¬ N ≤ 0 := by omega
      simp only [this, if_false]
      rw [finish_eq]
    · refine ⟨?_, by simp [finish], fun _ => ?_, fun h => by simp at h⟩
      · simp only [finish, hq0, List.nil_append]
        rw [lastN_of_le N _ (by simp; omega)]
      · simp only [finish, hq0, List.nil_append, lt_irrefl, if_false]
        exact ⟨⟨by simp, by simp⟩, ⟨by simp, by simp⟩, by simp⟩
  · obtain ⟨hmin, hmax, hlast⟩ := hne hx
    have hi : s.init = false := by rw [hinit]; simpa using hx
    have hqn := Cog.lastN_push N hN xs x
    rw [← hq] at hqn
    by_cases hfull : N ≤ s.q.length
    · rw [if_pos hfull] at hqn
      cases hqe : s.q with
      | nil => rw [hqe] at hfull; simp at hfull; omega
      | cons old rest =>
        have hfull' : N ≤ rest.length + 1 := by rw [hqe] at hfull; simpa using hfull
        rw [hqe] at hmin hmax hqn
        simp only [List.tail_cons] at hqn
        by_cases hext : old ≤ s.min ∨ s.max ≤ old
        · have hextb : (decide (old ≤ s.min) || decide (s.max ≤ old)) = true := by simpa using hext
          by_cases hre : rest = []
          · subst hre
            refine ⟨finish { s with q := [], min := x, max := x } x, ?_, ?_⟩
            · simp only [hlnCore, hi, hqe, List.length_cons, hfull', if_true, popFront, bind, Except.bind, pure,
                Except.pure, hextb, List.isEmpty_nil, Bool.false_eq_true, if_false]
              rw [finish_eq]
            · refine ⟨by simpa [finish] using hqn, by simp [finish, hi], fun _ => ?_, fun h => by simp at h⟩
              simp only [finish, List.nil_append, lt_irrefl, if_false]
              exact ⟨⟨by simp, by simp⟩, ⟨by simp, by simp⟩, by simp⟩
          · obtain ⟨f, r, rfl⟩ := List.exists_cons_of_ne_nil hre
            obtain ⟨m, M, he, hm, hM⟩ := extentQueue_spec f r
            have hfull'' : N ≤ r.length + 1 + 1 := by simpa using hfull'
            refine ⟨finish { s with q := f :: r, min := m, max := M } x, ?_, ?_⟩
            · simp only [hlnCore, hi, hqe, List.length_cons, hfull', if_true, popFront, bind, Except.bind, pure,
                Except.pure, hextb, List.isEmpty_cons, Bool.false_eq_true, if_false, he, hfull'']
              rw [finish_eq]
            · refine ⟨by simpa [finish] using hqn, by simp [finish, hi], fun _ => ?_, fun h => by simp at h⟩
              exact ⟨push_least _ m x hm, push_greatest _ M x hM, by simp [finish]⟩
        · have hextb : (decide (old ≤ s.min) || decide (s.max ≤ old)) = false := by simpa using hext
          rw [not_or, not_le, not_le] at hext
          have hm' : IsLeastL s.min rest := by
            refine ⟨?_, fun y hy => hmin.2 y (by simp [hy])⟩
            rcases List.mem_cons.mp hmin.1 with h | h
            · exact absurd h (ne_of_lt hext.1)
            · exact h
          have hM' : IsGreatestL s.max rest := by
            refine ⟨?_, fun y hy => hmax.2 y (by simp [hy])⟩
            rcases List.mem_cons.mp hmax.1 with h | h
            · exact absurd h.symm (ne_of_lt hext.2)
            · exact h
          refine ⟨finish { s with q := rest } x, ?_, ?_⟩
          · simp only [hlnCore, hi, hqe, List.length_cons, hfull', if_true, popFront, bind, Except.bind, pure,
              Except.pure, hextb, Bool.false_eq_true, if_false]
            rw [finish_eq]
          · refine ⟨by simpa [finish] using hqn, by simp [finish, hi], fun _ => ?_, fun h => by simp at h⟩
            exact ⟨push_least _ _ x hm', push_greatest _ _ x hM', by simp [finish]⟩
    · rw [if_neg hfull] at hqn
      refine ⟨finish s x, ?_, ?_⟩
      · simp only [hlnCore, hi, hfull, if_false, bind, Except.bind, pure, Except.pure, Bool.false_eq_true]
        rw [finish_eq]
      · refine ⟨by simpa [finish] using hqn, by simp [finish, hi], fun _ => ?_, fun h => by simp at h⟩
        exact ⟨push_least _ _ x hmin, push_greatest _ _ x hmax, by simp [finish]⟩

theorem out_eq (N : Nat) (hN : 0 < N) (s : HlnState α) (xs : List α) (h : Inv N s xs) :
    (hlnCore N).out s = .ok (Spec.hln N xs) := by
  obtain ⟨hq, hinit, hne, h0⟩ := h
  by_cases hx : xs = []
  · subst hx
    obtain ⟨h1, h2, h3⟩ := h0 rfl
    simp [hlnCore, Spec.hln, h1, h2, h3, minL, pure, Except.pure]
  · obtain ⟨hmin, hmax, hlast⟩ := hne hx
    have hlo : minL (lastN N xs) = some s.min := by rw [← hq]; exact minL_eq_of_least _ _ hmin
    have hhi : maxL (lastN N xs) = some s.max := by rw [← hq]; exact maxL_eq_of_greatest _ _ hmax
    -- the newest value is in the window
    have hmem : s.last ∈ s.q := by
      rw [hq]
      obtain ⟨ys, y, rfl⟩ : ∃ ys y, xs = ys ++ [y] := by
        rcases List.eq_nil_or_concat xs with h | ⟨ys, y, h⟩
        · exact absurd h hx
        · exact ⟨ys, y, by simpa using h⟩
      simp at hlast; subst hlast
      simp only [lastN, List.length_append, List.length_singleton]
      rw [List.drop_append_of_le_length (by omega)]
      simp
    have h1 := hmin.2 s.last hmem
    have h2 := hmax.2 s.last hmem
    simp only [hlnCore, Spec.hln, hlo, hhi, ← hlast, nat_eq, Nat.cast_zero, Nat.cast_one, Nat.cast_ofNat]
    by_cases heq : s.max = s.min
    · have e1 : s.last = s.min := le_antisymm (by rw [← heq]; exact h2) h1
      simp [heq, e1, pure, Except.pure]
    · have hne' : ¬ (s.last = s.min ∧ s.last = s.max) := by
        rintro ⟨a, b⟩; exact heq (by rw [← a, ← b])
      have hb : (s.last == s.min && s.last == s.max) = false := by simpa using hne'
      have hb2 : (s.max == s.min) = false := by simpa using heq
      simp only [hb, hb2, Bool.false_eq_true, if_false, bind, Except.bind, assertFinite_exact, pure, Except.pure]
      congr 2; ring

/-- **HLNormalizer = 2(x − min)/(max − min) − 1 (0 when max = min) over exactly the last N values** -/
theorem outAfter_eq (N : Nat) (hN : 0 < N) (xs : List α) :
    (hlnCore (α := α) N).outAfter xs = .ok (Spec.hln N xs) :=
  Core.outAfter_of_inv _ (Inv N) (Spec.hln N)
    (Core.run_invariant_init (hlnCore N) (Inv N)
      ⟨by simp [hlnCore], by simp [hlnCore], fun h => absurd rfl h, fun _ => by simp [hlnCore]⟩
      (fun s pre x h => step_ok N hN s pre x h))
    (fun s xs h => out_eq N hN s xs h) xs

theorem size_le (N : Nat) (hN : 0 < N) (xs : List α) (s : HlnState α)
    (h : (hlnCore (α := α) N).run (hlnCore (α := α) N).init xs = .ok s) : (hlnCore (α := α) N).size s ≤ N := by
  obtain ⟨s', hs, hi⟩ := Core.run_invariant_init (hlnCore N) (Inv N)
      ⟨by simp [hlnCore], by simp [hlnCore], fun h => absurd rfl h, fun _ => by simp [hlnCore]⟩
      (fun s pre x h => step_ok N hN s pre x h) xs
  rw [h] at hs; cases hs
  show s.q.length ≤ N
  rw [hi.hq]; exact lastN_length_le N xs

end SF.Hln
