import SF.Lemmas.Field
import SF.Model.Window
/- Cumulative: the running value is the sum of exactly the last N values. -/
namespace SF.Cum
open SF SF.Spec
set_option linter.unusedSectionVars false
variable {α : Type} [Field α] [LinearOrder α] [IsStrictOrderedRing α] [FloatLike α] [ExactScalar α]

def Inv (N : Nat) (s : CumState α) (xs : List α) : Prop :=
  s.q = lastN N xs ∧ s.out = (if xs = [] then none else some (sumL s.q))

theorem init_inv (N : Nat) : Inv N (cumCore (α := α) N).init [] := by simp [Inv, cumCore]

theorem step_ok (N : Nat) (hN : 0 < N) (s : CumState α) (xs : List α) (x : α) (h : Inv N s xs) :
    ∃ s', (cumCore N).step s x = .ok s' ∧ Inv N s' (xs ++ [x]) := by
  obtain ⟨hq, ho⟩ := h
  by_cases hfull : N ≤ s.q.length
  · have hne : xs ≠ [] := by
      intro h; subst h; simp at hq; rw [hq] at hfull; simp at hfull; omega
    cases hqe : s.q with
    | nil => rw [hqe] at hfull; simp at hfull; omega
    | cons old rest =>
      refine ⟨{ q := rest ++ [x], out := some (sumL s.q - old + x) }, ?_, ?_, ?_⟩
      · have hfull' : N ≤ rest.length + 1 := by rw [hqe] at hfull; simpa using hfull
        simp [cumCore, hqe, ho, hne, popFront, unwrap, hfull', bind, Except.bind, pure, Except.pure]
      · show rest ++ [x] = lastN N (xs ++ [x])
        rw [lastN_snoc_full N xs x hN (by rw [← hq]; exact hfull), ← hq, hqe]; rfl
      · show some (sumL s.q - old + x) = _
        simp [hqe]
  · refine ⟨{ q := s.q ++ [x], out := some (sumL s.q + x) }, ?_, ?_, ?_⟩
    · by_cases hne : xs = []
      · subst hne
        have hq0 : s.q = [] := by simpa using hq
        simp [cumCore, ho, hq0, hN, unwrap, bind, Except.bind, pure, Except.pure]
        omega
      · simp [cumCore, ho, hne, hfull, unwrap, bind, Except.bind, pure, Except.pure]
    · show s.q ++ [x] = lastN N (xs ++ [x])
      rw [lastN_snoc_lt N xs x (by rw [← hq]; omega), ← hq]
    · show some (sumL s.q + x) = _
      simp

theorem out_eq (N : Nat) (s : CumState α) (xs : List α) (h : Inv N s xs) :
    (cumCore N).out s = .ok (Spec.cumulative N xs) := by
  obtain ⟨hq, ho⟩ := h
  simp only [cumCore, Spec.cumulative, ho, hq]
  cases xs <;> simp [pure, Except.pure]

theorem run_ok (N : Nat) (hN : 0 < N) (xs : List α) :
    ∃ s, (cumCore (α := α) N).run (cumCore (α := α) N).init xs = .ok s ∧ Inv N s xs :=
  Core.run_invariant_init (cumCore N) (Inv N) (init_inv N) (fun s pre x h => step_ok N hN s pre x h) xs

theorem outAfter_eq (N : Nat) (hN : 0 < N) (xs : List α) :
    (cumCore (α := α) N).outAfter xs = .ok (Spec.cumulative N xs) :=
  Core.outAfter_of_inv _ (Inv N) (Spec.cumulative N) (run_ok N hN) (out_eq N) xs

theorem size_le (N : Nat) (hN : 0 < N) (xs : List α) (s : CumState α)
    (h : (cumCore (α := α) N).run (cumCore (α := α) N).init xs = .ok s) : (cumCore (α := α) N).size s ≤ N := by
  obtain ⟨s', hs, hi⟩ := run_ok (α := α) N hN xs
  rw [h] at hs; cases hs
  show s.q.length ≤ N
  rw [hi.1]; exact lastN_length_le N xs
end SF.Cum
