import SF.Lemmas.Field
import SF.Model.Pure
import SF.Model.Window
/- First and second moments of a list; the Welford add / remove steps keep (mean, m2) equal to the batch statistics. -/
namespace SF.Moments
open SF SF.Spec
set_option linter.unusedSectionVars false
variable {α : Type} [Field α] [LinearOrder α] [IsStrictOrderedRing α]

def S2 (l : List α) : α := sumL (l.map fun x => x * x)

@[simp] theorem S2_nil : S2 ([] : List α) = 0 := by simp [S2]
@[simp] theorem S2_cons (x : α) (l : List α) : S2 (x :: l) = x * x + S2 l := by simp [S2]
@[simp] theorem S2_append (l r : List α) : S2 (l ++ r) = S2 l + S2 r := by simp [S2]

/-- Σ (x - m)² = S2 - 2 m S1 + n m² -/
theorem sum_sq_dev (m : α) (l : List α) :
    sumL (l.map fun x => sq (x - m)) = S2 l - 2 * m * sumL l + (l.length : α) * m * m := by
  induction l with
  | nil => simp
  | cons x l ih =>
    simp only [List.map_cons, sumL_cons, S2_cons, List.length_cons, ih]
    push_cast; simp only [sq_eq]; ring

/-- Σ (x - mean)² = S2 - S1²/n -/
theorem sum_sq_dev_mean (l : List α) (hl : l ≠ []) :
    sumL (l.map fun x => sq (x - mean l)) = S2 l - sumL l * sumL l / (l.length : α) := by
  have hn : (l.length : α) ≠ 0 := by
    have : 0 < l.length := List.length_pos_of_ne_nil hl
    exact_mod_cast this.ne'
  rw [sum_sq_dev]; simp only [mean, nat_eq]; field_simp; ring

/-- aggregate invariant (total division: for `l = []` all three are 0, matching the initial / reset state) -/
structure Agg (count : Nat) (mean m2 : α) (l : List α) : Prop where
  hc : count = l.length
  hmean : mean = sumL l / (l.length : α)
  hm2 : m2 = S2 l - sumL l * sumL l / (l.length : α)

theorem agg_nil : Agg 0 (0 : α) 0 [] := ⟨rfl, by simp, by simp⟩

/-- the Welford "add" step -/
theorem agg_add (count : Nat) (mean m2 : α) (l : List α) (x : α) (h : Agg count mean m2 l) :
    Agg (count + 1) (mean + (x - mean) / ((count + 1 : Nat) : α))
        (m2 + (x - mean) * (x - (mean + (x - mean) / ((count + 1 : Nat) : α)))) (l ++ [x]) := by
  obtain ⟨hc, hm, hm2⟩ := h
  have hn : ((l.length : α) + 1) ≠ 0 := Nat.cast_add_one_ne_zero l.length
  refine ⟨by simp [hc], ?_, ?_⟩
  · simp only [hc, List.length_append, List.length_singleton, sumL_append, sumL_cons, sumL_nil, hm]
    push_cast
    rcases l with _ | ⟨a, l⟩
    · simp
    · have h0 : (((a :: l).length : Nat) : α) ≠ 0 := by simp; exact Nat.cast_add_one_ne_zero _
      field_simp; ring
  · simp only [hc, List.length_append, List.length_singleton, sumL_append, sumL_cons, sumL_nil, S2_append, S2_cons,
      S2_nil, hm, hm2]
    push_cast
    rcases l with _ | ⟨a, l⟩
    · simp
    · have h0 : (((a :: l).length : Nat) : α) ≠ 0 := by simp; exact Nat.cast_add_one_ne_zero _
      field_simp; ring

/-- the (fixed) Welford "remove" step, for a window that stays non-empty -/
theorem agg_remove (count : Nat) (mean m2 : α) (l : List α) (old : α) (h : Agg count mean m2 (old :: l))
    (hl : l ≠ []) :
    Agg (count - 1) (mean - (old - mean) / ((count - 1 : Nat) : α))
        (m2 - (old - mean) * (old - (mean - (old - mean) / ((count - 1 : Nat) : α)))) l := by
  obtain ⟨hc, hm, hm2⟩ := h
  simp only [List.length_cons] at hc
  have hpos : 0 < l.length := List.length_pos_of_ne_nil hl
  have hl0 : (l.length : α) ≠ 0 := by exact_mod_cast hpos.ne'
  have hl1 : ((l.length : α) + 1) ≠ 0 := Nat.cast_add_one_ne_zero l.length
  have hcm : ((count - 1 : Nat) : α) = l.length := by rw [hc]; simp
  refine ⟨by simp [hc], ?_, ?_⟩
  · simp only [hcm, hm, sumL_cons, List.length_cons]; push_cast; field_simp; ring
  · simp only [hcm, hm, hm2, sumL_cons, S2_cons, List.length_cons]; push_cast; field_simp; ring

end SF.Moments
