import SF.Lemmas.Cog
/- CorrelationTrendIndicator: the enumerate-loop computes the five sums of the Pearson formula over the window. -/
namespace SF.Cti
open SF SF.Spec
set_option linter.unusedSectionVars false
set_option linter.unusedSimpArgs false
variable {α : Type} [Field α] [LinearOrder α] [IsStrictOrderedRing α] [FloatLike α] [ExactScalar α] [Transc α]

/-- time indices k, k+1, …, k+n−1 as scalars -/
def idx (k n : Nat) : List α := (List.range' k n).map fun i => (nat i : α)

theorem idx_succ (k n : Nat) : idx (α := α) k (n + 1) = (nat k : α) :: idx (k + 1) n := by
  simp [idx, List.range'_succ]

def xy : List α → List α → α
  | x :: r, k :: s => x * k + xy r s
  | _, _ => 0

theorem fold_eq (l : List α) (k : Nat) (a : CtiSums α) :
    (l.zipIdx k).foldl (fun (a : CtiSums α) (vi : α × Nat) =>
        let count : α := nat vi.2
        { sx := a.sx + vi.1, sy := a.sy + count, sxx := a.sxx + sq vi.1, sxy := a.sxy + vi.1 * count,
          syy := a.syy + sq count }) a
      = { sx := a.sx + sumL l, sy := a.sy + sumL (idx k l.length), sxx := a.sxx + sumL (l.map sq),
          sxy := a.sxy + xy l (idx k l.length), syy := a.syy + sumL ((idx k l.length).map sq) } := by
  induction l generalizing k a with
  | nil => simp [idx, xy]
  | cons x r ih =>
    simp only [List.zipIdx_cons, List.foldl_cons, List.length_cons, idx_succ, ih (k + 1)]
    simp only [sumL_cons, List.map_cons, xy]
    congr 1 <;> ring

theorem ctiSums_eq (q : List α) :
    ctiSums q = { sx := sumL q, sy := sumL (idx 0 q.length), sxx := sumL (q.map sq), sxy := xy q (idx 0 q.length),
                  syy := sumL ((idx 0 q.length).map sq) } := by
  have := fold_eq q 0 ({ sx := 0, sy := 0, sxx := 0, sxy := 0, syy := 0 } : CtiSums α)
  simp only [zero_add] at this
  simp only [ctiSums, nat_eq, Nat.cast_zero]
  exact this

theorem xy_eq_zip (l s : List α) : xy l s = sumL ((l.zip s).map fun (x, k) => x * k) := by
  induction l generalizing s with
  | nil => simp [xy]
  | cons x r ih =>
    cases s with
    | nil => simp [xy]
    | cons k s => simp [xy, ih]

theorem idx_eq_range (n : Nat) : idx (α := α) 0 n = (List.range n).map fun k => (nat k : α) := by
  simp [idx, List.range_eq_range']

/-- the Pearson formula in terms of the model's sums -/
theorem pearson_eq (w : List α) :
    pearsonIdx w =
      (let a := ctiSums w
       let n : α := nat w.length
       if nat 0 < n * a.sxx - sq a.sx && nat 0 < n * a.syy - sq a.sy
       then (n * a.sxy - a.sx * a.sy) / Transc.sqrt ((n * a.sxx - sq a.sx) * (n * a.syy - sq a.sy)) else nat 0) := by
  simp only [pearsonIdx, ctiSums_eq, xy_eq_zip, idx_eq_range]

def Inv (N : Nat) (q : List α) (xs : List α) : Prop := q = lastN N xs

theorem step_ok (N : Nat) (hN : 0 < N) (q : List α) (xs : List α) (x : α) (h : Inv N q xs) :
    ∃ q', (ctiCore N).step q x = .ok q' ∧ Inv N q' (xs ++ [x]) := by
  have hq' := Cog.lastN_push N hN xs x
  rw [← h] at hq'
  by_cases hfull : N ≤ q.length
  · cases hqe : q with
    | nil => rw [hqe] at hfull; simp at hfull; omega
    | cons old rest =>
      have hfull' : N ≤ rest.length + 1 := by rw [hqe] at hfull; simpa using hfull
      refine ⟨rest ++ [x], by simp [ctiCore, hfull', popFront, bind, Except.bind, pure, Except.pure], ?_⟩
      rw [hqe, if_pos (by simpa using hfull')] at hq'
      exact hq'
  · refine ⟨q ++ [x], by simp [ctiCore, hfull, bind, Except.bind, pure, Except.pure], ?_⟩
    rw [if_neg hfull] at hq'
    exact hq'

/-- **on a full window CTI is the Pearson correlation between the N windowed values and their time index** (0 when
either variance is 0) -/
theorem outAfter_eq (N : Nat) (hN : 0 < N) (xs : List α) (hx : N ≤ xs.length) :
    (ctiCore (α := α) N).outAfter xs = .ok (some (pearsonIdx (lastN N xs))) := by
  obtain ⟨q, hq, hi⟩ := Core.run_invariant_init (ctiCore N) (Inv N) (by simp [Inv, ctiCore])
    (fun s pre x h => step_ok N hN s pre x h) xs
  have hlen : (lastN N xs).length = N := by rw [lastN_length, Nat.min_eq_left hx]
  rw [Core.outAfter, hq]
  show (ctiCore (α := α) N).out q = _
  rw [hi, pearson_eq]
  simp only [ctiCore, hlen]
  split
  · simp [bind, Except.bind, pure, Except.pure]
  · rfl

end SF.Cti
