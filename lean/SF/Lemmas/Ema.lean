import SF.Lemmas.Field
import SF.Model.Window
/- Ema: e_0 = x_0, e_t = w x_t + (1-w) e_{t-1}, w = alpha/(N+1); reported from the N-th value on. -/
namespace SF.Ema
open SF SF.Spec
set_option linter.unusedSectionVars false
variable {α : Type} [Field α] [LinearOrder α] [IsStrictOrderedRing α] [FloatLike α] [ExactScalar α]

def Inv (N : Nat) (alpha : α) (s : EmaState α) (xs : List α) : Prop :=
  s.n = xs.length ∧ s.lastEma = s.out ∧ (xs ≠ [] → some s.out = emaRec (alpha / ((N : α) + 1)) xs)

theorem init_inv (N : Nat) (alpha : α) : Inv N alpha (emaCore (α := α) N alpha).init [] := by
  simp [Inv, emaCore]

theorem emaRec_snoc (w : α) (xs : List α) (x e : α) (h : some e = emaRec w xs) :
    emaRec w (xs ++ [x]) = some (w * x + (1 - w) * e) := by
  cases xs with
  | nil => simp [emaRec] at h
  | cons x0 r =>
    simp only [emaRec, List.cons_append, List.foldl_append, List.foldl_cons, List.foldl_nil] at h ⊢
    cases h; simp

theorem step_ok (N : Nat) (alpha : α) (s : EmaState α) (xs : List α) (x : α) (h : Inv N alpha s xs) :
    ∃ s', (emaCore N alpha).step s x = .ok s' ∧ Inv N alpha s' (xs ++ [x]) := by
  obtain ⟨hn, hl, he⟩ := h
  by_cases h0 : xs = []
  · subst h0
    refine ⟨{ lastEma := x, out := x, n := 1 }, ?_, ?_⟩
    · simp at hn; simp [emaCore, hn, pure, Except.pure]
    · simp [Inv, emaRec]
  · have hn1 : s.n ≠ 0 := by
      have : 0 < xs.length := List.length_pos_of_ne_nil h0
      omega
    refine ⟨{ lastEma := x * (alpha / (1 + (N : α))) + s.lastEma * (1 - alpha / (1 + (N : α))),
              out := x * (alpha / (1 + (N : α))) + s.lastEma * (1 - alpha / (1 + (N : α))), n := s.n + 1 }, ?_, ?_⟩
    · simp [emaCore, hn1, pure, Except.pure]
    · refine ⟨by simp [hn], rfl, fun _ => ?_⟩
      rw [emaRec_snoc _ xs x s.out (he h0), hl]
      congr 1
      rw [add_comm (1 : α) (N : α)]; ring

theorem out_eq (N : Nat) (hN : 0 < N) (alpha : α) (s : EmaState α) (xs : List α) (h : Inv N alpha s xs) :
    (emaCore N alpha).out s = .ok (Spec.ema N alpha xs) := by
  obtain ⟨hn, hl, he⟩ := h
  simp only [emaCore, Spec.ema, hn]
  by_cases hlt : xs.length < N
  · simp [hlt]; rfl
  · simp only [hlt, if_false]
    by_cases h0 : xs = []
    · subst h0; simp at hlt; omega
    · simp [bind, Except.bind, pure, Except.pure, ← he h0]

theorem run_ok (N : Nat) (alpha : α) (xs : List α) :
    ∃ s, (emaCore (α := α) N alpha).run (emaCore (α := α) N alpha).init xs = .ok s ∧ Inv N alpha s xs :=
  Core.run_invariant_init (emaCore N alpha) (Inv N alpha) (init_inv N alpha) (fun s pre x h => step_ok N alpha s pre x h) xs

/-- **Ema follows its recursion for every input, including zeros and sign changes** -/
theorem outAfter_eq (N : Nat) (hN : 0 < N) (alpha : α) (xs : List α) :
    (emaCore (α := α) N alpha).outAfter xs = .ok (Spec.ema N alpha xs) :=
  Core.outAfter_of_inv _ (Inv N alpha) (Spec.ema N alpha) (run_ok N alpha) (out_eq N hN alpha) xs

end SF.Ema
