import SF.Lemmas.Generic
import SF.Lemmas.Field
/-
  What a chain's outer core is fed: exactly values that the stand-alone inner view reported after some non-empty prefix of
  the raw input.  Hence any predicate that holds of everything the inner view ever reports on a given input holds of
  everything the outer core is fed, and any guarantee of the outer core for such inputs carries over to the chain
  ("a chain built from stable views is stable").
-/
namespace SF.ChainBound
open SF
variable {α : Type} [FloatLike α]

/-- the values the inner view `A`, started in state `a`, reports after the non-empty prefixes of `xs` -/
def Reported (A : View α) (a : A.σ) (xs : List α) (y : α) : Prop :=
  ∃ pre, pre ≠ [] ∧ pre <+: xs ∧ ∃ a', A.run a pre = .ok a' ∧ A.last a' = .ok (some y)

theorem reported_cons (A : View α) (a a' : A.σ) (x : α) (xs : List α) (y : α) (hu : A.upd a x = .ok a')
    (h : Reported A a' xs y) : Reported A a (x :: xs) y := by
  obtain ⟨pre, _, hp, a'', hr, hl⟩ := h
  refine ⟨x :: pre, by simp, ?_, a'', ?_, hl⟩
  · obtain ⟨t, ht⟩ := hp
    exact ⟨t, by simp [← ht]⟩
  · rw [run_cons, hu]; simpa [bind, Except.bind] using hr

/-- after any run of a chain the core component is the core run alone on a list of values each of which the stand-alone
inner view reported after some prefix of the raw input -/
theorem wrap_run_delivered (A : View α) (B : Core α) (a : A.σ) (b : B.σ) (xs : List α)
    (hx : AllFinite xs) (s : A.σ × B.σ) (h : (wrap A B).run (a, b) xs = .ok s) :
    ∃ ys, B.run b ys = .ok s.2 ∧ ∀ y ∈ ys, Reported A a xs y := by
  induction xs generalizing a b with
  | nil =>
    simp only [View.run, pure, Except.pure] at h; cases h
    exact ⟨[], rfl, by simp⟩
  | cons x xs ih =>
    have hxf := hx.head
    rw [run_cons] at h
    cases hu : A.upd a x with
    | error e =>
      obtain ⟨e', he⟩ := wrap_upd_err_upd A B (b := b) hu
      rw [he] at h; simp [bind, Except.bind] at h
    | ok a' =>
      cases hl : A.last a' with
      | error e =>
        obtain ⟨e', he⟩ := wrap_upd_err_last A B (b := b) hu hl
        rw [he] at h; simp [bind, Except.bind] at h
      | ok o =>
        cases o with
        | none =>
          rw [wrap_upd_none A B hxf hu hl] at h
          simp only [bind, Except.bind] at h
          obtain ⟨ys, h1, h2⟩ := ih a' b hx.tail h
          exact ⟨ys, h1, fun y hy => reported_cons A a a' x xs y hu (h2 y hy)⟩
        | some v =>
          rw [wrap_upd_some A B hxf hu hl] at h
          simp only [bind, Except.bind] at h
          cases hv : assertFinite v with
          | error e => simp [hv] at h
          | ok u2 =>
            cases hs : B.step b v with
            | error e => simp [hv, hs] at h
            | ok b' =>
              simp only [hv, hs, pure, Except.pure] at h
              obtain ⟨ys, h1, h2⟩ := ih a' b' hx.tail h
              refine ⟨v :: ys, by simp [Core.run, hs, bind, Except.bind, h1], ?_⟩
              intro y hy
              rcases List.mem_cons.mp hy with rfl | hy
              · exact ⟨[x], by simp, ⟨xs, rfl⟩, a', by simp [View.run, hu, bind, Except.bind, pure, Except.pure], hl⟩
              · exact reported_cons A a a' x xs y hu (h2 y hy)

/-- **guarantees compose along a chain**: if every value the stand-alone inner view reports on (prefixes of) `xs` satisfies
`P`, and the outer core, fed any values satisfying `P`, only reports values satisfying `Q`, then the chain only reports
values satisfying `Q` on `xs` -/
theorem chain_guarantee (A : View α) (B : Core α) (P Q : α → Prop) (xs : List α) (hx : AllFinite xs)
    (hA : ∀ y, Reported A A.init xs y → P y)
    (hB : ∀ ys : List α, (∀ y ∈ ys, P y) → ∀ v, B.outAfter ys = .ok (some v) → Q v)
    (s : A.σ × B.σ) (hs : (wrap A B).run (A.init, B.init) xs = .ok s) (v : α) (hv : (wrap A B).last s = .ok (some v)) :
    Q v := by
  obtain ⟨ys, h1, h2⟩ := wrap_run_delivered A B A.init B.init xs hx s hs
  apply hB ys (fun y hy => hA y (h2 y hy)) v
  simp only [Core.outAfter, h1, bind, Except.bind]
  exact hv

end SF.ChainBound
