import SF.Lemmas.Moments
/- WelfordRolling, LnReturn, Drawdown: equal to their batch definition over the whole history. -/
namespace SF.Rolling
open SF SF.Spec SF.Moments
set_option linter.unusedSectionVars false
set_option linter.unusedSimpArgs false
variable {α : Type} [Field α] [LinearOrder α] [IsStrictOrderedRing α] [FloatLike α] [ExactScalar α] [Transc α]

/-! ### WelfordRolling -/
def WInv (s : WelfordRollingState α) (xs : List α) : Prop := Agg s.n s.mean s.s xs

theorem w_init : WInv (welfordRollingCore (α := α)).init [] := by
  simpa [WInv, welfordRollingCore] using (agg_nil (α := α))

theorem w_step_ok (s : WelfordRollingState α) (xs : List α) (x : α) (h : WInv s xs) :
    ∃ s', (welfordRollingCore (α := α)).step s x = .ok s' ∧ WInv s' (xs ++ [x]) := by
  have hadd := agg_add _ _ _ xs x h
  exact ⟨_, rfl, by simpa [WInv, welfordRollingCore] using hadd⟩

theorem w_mean_eq (s : WelfordRollingState α) (xs : List α) (h : WInv s xs) :
    s.mean = Spec.welfordRollingMean xs := by
  rw [h.hmean]
  cases xs <;> simp [Spec.welfordRollingMean, Spec.mean]

theorem w_var_eq (s : WelfordRollingState α) (xs : List α) (h : WInv s xs) :
    s.variance = Spec.popVar xs := by
  simp only [WelfordRollingState.variance, Spec.popVar, h.hc]
  by_cases h1 : 1 < xs.length
  · have hne : xs ≠ [] := by intro h; rw [h] at h1; simp at h1
    have : ¬ xs.length ≤ 1 := by omega
    simp only [h1, this, if_true, if_false, nat_eq]
    rw [sum_sq_dev_mean xs hne, h.hm2]
  · have : xs.length ≤ 1 := by omega
    simp [h1, this]

theorem w_out_eq (s : WelfordRollingState α) (xs : List α) (h : WInv s xs) :
    (welfordRollingCore (α := α)).out s = .ok (Spec.welfordRolling xs) := by
  have hv := w_var_eq s xs h
  simp only [welfordRollingCore, Spec.welfordRolling, h.hc]
  cases xs with
  | nil => simp; rfl
  | cons a l => simp [bind, Except.bind, pure, Except.pure, hv]

theorem w_outAfter_eq (xs : List α) :
    (welfordRollingCore (α := α)).outAfter xs = .ok (Spec.welfordRolling xs) :=
  Core.outAfter_of_inv _ WInv Spec.welfordRolling
    (Core.run_invariant_init welfordRollingCore WInv w_init (fun s pre x h => w_step_ok s pre x h)) w_out_eq xs

/-! ### LnReturn -/
def LInv (s : LnReturnState α) (xs : List α) : Prop :=
  s.currentVal = (xs.getLast?).getD 0 ∧ s.lastVal = (xs.dropLast.getLast?).getD 0

theorem l_step_ok (s : LnReturnState α) (xs : List α) (x : α) (h : LInv s xs) :
    ∃ s', (lnReturnCore (α := α)).step s x = .ok s' ∧ LInv s' (xs ++ [x]) := by
  refine ⟨{ lastVal := s.currentVal, currentVal := x }, rfl, by simp, ?_⟩
  simp [h.1]

/-- for a stream without zeros (positive prices), LnReturn is ln(x_t / x_{t-1}) from the 2nd value on -/
theorem l_out_eq (s : LnReturnState α) (xs : List α) (hx : ∀ x ∈ xs, x ≠ 0) (h : LInv s xs) :
    (lnReturnCore (α := α)).out s = .ok (Spec.lnReturn xs) := by
  obtain ⟨hc, hl⟩ := h
  simp only [lnReturnCore, Spec.lnReturn, hc, hl]
  rcases List.eq_nil_or_concat xs with rfl | ⟨ys, y, rfl⟩
  · simp; rfl
  · rcases List.eq_nil_or_concat ys with rfl | ⟨zs, z, rfl⟩
    · simp; rfl
    · have hz : z ≠ 0 := hx z (by simp)
      simp [hz, bind, Except.bind, pure, Except.pure]

theorem l_outAfter_eq (xs : List α) (hx : ∀ x ∈ xs, x ≠ 0) :
    (lnReturnCore (α := α)).outAfter xs = .ok (Spec.lnReturn xs) := by
  obtain ⟨s, hs, hi⟩ := Core.run_invariant_init lnReturnCore LInv (by simp [LInv, lnReturnCore])
    (fun s pre x h => l_step_ok s pre x h) xs
  simp [Core.outAfter, hs, bind, Except.bind, l_out_eq s xs hx hi]

end SF.Rolling

/-! ### Drawdown -/
namespace SF.Rolling
open SF SF.Spec
set_option linter.unusedSectionVars false
set_option linter.unusedSimpArgs false
variable {α : Type} [Field α] [LinearOrder α] [IsStrictOrderedRing α] [FloatLike α] [ExactScalar α]

/-- the spec's fold state after a history: (running peak, largest relative decline so far) -/
def ddFold (xs : List α) : Option α × α :=
  xs.foldl (fun (acc : Option α × α) (x : α) =>
    let peak := match acc.1 with
      | none => x
      | some p => if p < x then x else p
    let dd := (peak - x) / peak
    (some peak, if acc.2 < dd then dd else acc.2)) (none, nat 0)

theorem drawdown_eq_fold (xs : List α) : Spec.drawdown xs = (ddFold xs).2 := rfl

theorem ddFold_snoc (xs : List α) (x : α) :
    ddFold (xs ++ [x]) =
      (let acc := ddFold xs
       let peak := match acc.1 with
         | none => x
         | some p => if p < x then x else p
       let dd := (peak - x) / peak
       (some peak, if acc.2 < dd then dd else acc.2)) := by
  simp [ddFold, List.foldl_append]

/-- model state ↔ spec fold, for positive inputs -/
structure DInv (s : DrawdownState α) (xs : List α) : Prop where
  hdd : s.maxDD = (ddFold xs).2
  hnonneg : 0 ≤ s.maxDD
  hpeak : xs ≠ [] → (ddFold xs).1 = some s.peak ∧ 0 < s.peak ∧ 0 < s.minAfterPeak ∧ s.minAfterPeak ≤ s.peak ∧
    (s.peak - s.minAfterPeak) / s.peak ≤ s.maxDD
  hinit : xs = [] → s.peak = FloatLike.minValue ∧ (ddFold xs).1 = none

theorem d_init : DInv (drawdownCore (α := α)).init [] :=
  ⟨by simp [drawdownCore, ddFold], by simp [drawdownCore], fun h => absurd rfl h, fun _ => ⟨rfl, rfl⟩⟩

theorem d_step_ok (hmin : (FloatLike.minValue : α) < 0) (s : DrawdownState α) (xs : List α) (x : α) (hx : 0 < x)
    (h : DInv s xs) : ∃ s', (drawdownCore (α := α)).step s x = .ok s' ∧ DInv s' (xs ++ [x]) := by
  obtain ⟨hdd, hnn, hpk, hin⟩ := h
  by_cases h0 : xs = []
  · -- first value: becomes the peak
    obtain ⟨hp, hf⟩ := hin h0
    have hlt : s.peak < x := by rw [hp]; exact lt_trans hmin hx
    have hxx : ¬ x < x := lt_irrefl x
    have hx0 : x ≠ 0 := ne_of_gt hx
    refine ⟨{ maxDD := s.maxDD, peak := x, minAfterPeak := x }, ?_, ?_⟩
    · simp only [drawdownCore, hlt, if_true, hxx, if_false, sub_self, zero_div, pure, Except.pure]
      have : ¬ s.maxDD < 0 := not_lt.mpr hnn
      simp [this]
    · subst h0
      have e : ddFold ([] ++ [x]) = (some x, s.maxDD) := by
        rw [ddFold_snoc]; simp only [hf]; simp [hdd, ddFold]
      refine ⟨by rw [e], hnn, fun _ => ⟨by rw [e], hx, hx, le_refl x, by simpa using hnn⟩, fun h => by simp at h⟩
  · obtain ⟨hfp, hpos, hmpos, hmle, hbd⟩ := hpk h0
    by_cases hnew : s.peak < x
    · -- new peak
      have hxx : ¬ x < x := lt_irrefl x
      refine ⟨{ maxDD := s.maxDD, peak := x, minAfterPeak := x }, ?_, ?_⟩
      · simp only [drawdownCore, hnew, if_true, hxx, if_false, sub_self, zero_div, pure, Except.pure]
        have : ¬ s.maxDD < 0 := not_lt.mpr hnn
        simp [this]
      · have e : ddFold (xs ++ [x]) = (some x, s.maxDD) := by
          rw [ddFold_snoc]; simp only [hfp, hnew, if_true, sub_self, zero_div, ← hdd]
          have : ¬ s.maxDD < 0 := not_lt.mpr hnn
          simp [this]
        exact ⟨by rw [e], hnn, fun _ => ⟨by rw [e], hx, hx, le_refl x, by simpa using hnn⟩, fun h => by simp at h⟩
    · -- no new peak
      have hxle : x ≤ s.peak := not_lt.mp hnew
      have hsd : (ddFold (xs ++ [x])) =
          (some s.peak, if s.maxDD < (s.peak - x) / s.peak then (s.peak - x) / s.peak else s.maxDD) := by
        rw [ddFold_snoc]; simp only [hfp, hnew, if_false, ← hdd]
      by_cases hlow : x < s.minAfterPeak
      · refine ⟨{ maxDD := if s.maxDD < (s.peak - x) / s.peak then (s.peak - x) / s.peak else s.maxDD,
                  peak := s.peak, minAfterPeak := x }, ?_, ?_⟩
        · simp [drawdownCore, hnew, hlow, pure, Except.pure]
        · refine ⟨by rw [hsd], ?_, fun _ => ⟨by rw [hsd], hpos, hx, hxle, ?_⟩, fun h => by simp at h⟩
          · by_cases hc : s.maxDD < (s.peak - x) / s.peak
            · simp only [hc, if_true]; exact div_nonneg (by linarith) hpos.le
            · simp only [hc, if_false]; exact hnn
          · by_cases hc : s.maxDD < (s.peak - x) / s.peak
            · simp only [hc, if_true]; exact le_refl _
            · simp only [hc, if_false]; exact not_lt.mp hc
      · have hge : s.minAfterPeak ≤ x := not_lt.mp hlow
        have hle2 : (s.peak - x) / s.peak ≤ (s.peak - s.minAfterPeak) / s.peak :=
          div_le_div_of_nonneg_right (by linarith) hpos.le
        have hno : ¬ s.maxDD < (s.peak - x) / s.peak := not_lt.mpr (le_trans hle2 hbd)
        have hno2 : ¬ s.maxDD < (s.peak - s.minAfterPeak) / s.peak := not_lt.mpr hbd
        refine ⟨{ maxDD := s.maxDD, peak := s.peak, minAfterPeak := s.minAfterPeak }, ?_, ?_⟩
        · simp [drawdownCore, hnew, hlow, hno2, pure, Except.pure]
        · rw [if_neg hno] at hsd
          exact ⟨by rw [hsd], hnn, fun _ => ⟨by rw [hsd], hpos, hmpos, hmle, hbd⟩, fun h => by simp at h⟩

/-- **Drawdown** equals the largest relative decline from the running peak, for every positive stream -/
theorem d_outAfter_eq (hmin : (FloatLike.minValue : α) < 0) (xs : List α) (hx : ∀ x ∈ xs, 0 < x) :
    (drawdownCore (α := α)).outAfter xs = .ok (some (Spec.drawdown xs)) := by
  have key : ∀ (ys : List α) (s : DrawdownState α) (pre : List α), DInv s pre → (∀ y ∈ ys, 0 < y) →
      ∃ s', (drawdownCore (α := α)).run s ys = .ok s' ∧ DInv s' (pre ++ ys) := by
    intro ys
    induction ys with
    | nil => intro s pre h _; exact ⟨s, rfl, by simpa using h⟩
    | cons y ys ih =>
      intro s pre h hy
      obtain ⟨s1, h1, hi1⟩ := d_step_ok hmin s pre y (hy y (by simp)) h
      obtain ⟨s2, h2, hi2⟩ := ih s1 (pre ++ [y]) hi1 (fun z hz => hy z (by simp [hz]))
      exact ⟨s2, by simp [Core.run, h1, bind, Except.bind, h2], by simpa using hi2⟩
  obtain ⟨s, hs, hi⟩ := key xs (drawdownCore (α := α)).init [] d_init hx
  simp only [List.nil_append] at hi
  rw [Core.outAfter, hs, drawdown_eq_fold, ← hi.hdd]
  show (drawdownCore (α := α)).out s = _
  simp [drawdownCore, bind, Except.bind, pure, Except.pure]

end SF.Rolling
