import SF.Lemmas.Cog
import Mathlib.Data.List.Forall2
/- Alma: running weighted sums = Σ gᵢxᵢ and Σ gᵢ over exactly the window, the sample with absolute index i carrying the
   Gaussian weight of kernel position min(i, N−1). -/
namespace SF.Alma
open SF SF.Spec
set_option linter.unusedSectionVars false
set_option linter.unusedSimpArgs false
variable {α : Type} [Field α] [LinearOrder α] [IsStrictOrderedRing α] [FloatLike α] [ExactScalar α] [Transc α]

/-- weights of all samples so far (absolute index i ↦ g(min i (N−1))) -/
def W (N : Nat) (m s : α) (len : Nat) : List α := (List.range len).map fun i => gauss m s (min i (N - 1))

theorem W_succ (N : Nat) (m s : α) (len : Nat) : W N m s (len + 1) = W N m s len ++ [gauss m s (min len (N - 1))] := by
  simp [W, List.range_succ]

@[simp] theorem W_length (N : Nat) (m s : α) (len : Nat) : (W N m s len).length = len := by simp [W]

def dot : List α → List α → α
  | g :: gs, x :: xs => g * x + dot gs xs
  | _, _ => 0

theorem dot_snoc (gs xs : List α) (g x : α) (h : gs.length = xs.length) : dot (gs ++ [g]) (xs ++ [x]) = dot gs xs + g * x := by
  induction gs generalizing xs with
  | nil => cases xs <;> simp_all [dot]
  | cons a gs ih =>
    cases xs with
    | nil => simp at h
    | cons b xs => simp only [List.cons_append, dot, ih xs (by simpa using h)]; ring

theorem gauss_eq_weight (m s : α) (k : Nat) : almaWeight m s k = gauss m s k := rfl

structure Inv (N : Nat) (m sd : α) (s : AlmaState α) (xs : List α) : Prop where
  hq : s.qVals = lastN N xs
  hw : s.qWtd = lastN N (W N m sd xs.length)
  hsum : s.wtdSum = dot s.qWtd s.qVals
  hcum : s.cumWt = sumL s.qWtd
  hout : s.qOut.getLast? = if xs = [] then none else some (s.wtdSum / s.cumWt)

theorem step_ok (N : Nat) (hN : 0 < N) (sigma offset : α) (s : AlmaState α) (xs : List α) (x : α)
    (h : Inv N (offset * ((N : α) + 1)) ((N : α) / sigma) s xs) :
    ∃ s', (almaCore N sigma offset).step s x = .ok s' ∧ Inv N (offset * ((N : α) + 1)) ((N : α) / sigma) s' (xs ++ [x]) := by
  obtain ⟨hq, hw, hsum, hcum, hout⟩ := h
  set m := offset * ((N : α) + 1) with hm
  set sd := (N : α) / sigma with hsd
  have hlq : s.qVals.length = min N xs.length := by rw [hq, lastN_length]
  have hlw : s.qWtd.length = min N xs.length := by rw [hw, lastN_length]; simp
  have hpushq := Cog.lastN_push N hN xs x
  rw [← hq] at hpushq
  have hWs : W N m sd (xs ++ [x]).length = W N m sd xs.length ++ [gauss m sd (min xs.length (N - 1))] := by
    simp [W_succ]
  by_cases hfull : N ≤ s.qVals.length
  · have hNle : N ≤ xs.length := by rw [hlq] at hfull; exact le_trans hfull (Nat.min_le_right _ _)
    rw [if_pos hfull] at hpushq
    cases hqe : s.qVals with
    | nil => rw [hqe] at hfull; simp at hfull; omega
    | cons ov vrest =>
      cases hwe : s.qWtd with
      | nil => rw [hwe] at hlw; rw [hqe] at hlq; simp at hlw hlq; omega
      | cons ow wrest =>
        have hcount : vrest.length = N - 1 := by
          rw [hqe] at hlq; simp at hlq; rw [Nat.min_eq_left hNle] at hlq; omega
        have hwl : wrest.length = vrest.length := by
          rw [hwe] at hlw; rw [hqe] at hlq; simp at hlw hlq; omega
        have hmin : min xs.length (N - 1) = N - 1 := by omega
        have hpushw : wrest ++ [gauss m sd (N - 1)] = lastN N (W N m sd (xs ++ [x]).length) := by
          rw [hWs, hmin]
          have := Cog.lastN_push N hN (W N m sd xs.length) (gauss m sd (N - 1))
          rw [← hw, hwe] at this
          rw [if_pos (by simp; rw [hwl, hcount]; omega)] at this
          simpa using this
        rw [hqe] at hpushq; simp only [List.tail_cons] at hpushq
        set g := gauss m sd (N - 1) with hg
        refine ⟨{ wtdSum := s.wtdSum - ow * ov + g * x, cumWt := s.cumWt - ow + g, qVals := vrest ++ [x], qWtd := wrest ++ [g],
                  qOut := s.qOut.tail ++ [(s.wtdSum - ow * ov + g * x) / (s.cumWt - ow + g)] }, ?_, ?_⟩
        · have hfull' : N ≤ vrest.length + 1 := by rw [hqe] at hfull; simpa using hfull
          simp only [almaCore, nat_eq, Nat.cast_one, hqe, hwe, List.length_cons, hfull', if_true, front, bind, Except.bind, pure,
            Except.pure, List.tail_cons, gauss_eq_weight, hcount, assertFinite_exact, ← hm, ← hsd]
          rw [if_pos (by omega)]
        · refine ⟨hpushq, hpushw, ?_, ?_, by simp⟩
          · show s.wtdSum - ow * ov + g * x = dot (wrest ++ [g]) (vrest ++ [x])
            rw [dot_snoc _ _ _ _ hwl, hsum, hwe, hqe]; simp [dot]
          · show s.cumWt - ow + g = sumL (wrest ++ [g])
            rw [hcum, hwe]; simp
  · have hlt : xs.length < N := by
      rw [hlq] at hfull
      rcases Nat.lt_or_ge xs.length N with h | h
      · exact h
      · rw [Nat.min_eq_left h] at hfull; omega
    rw [if_neg hfull] at hpushq
    have hcount : s.qVals.length = xs.length := by rw [hlq]; omega
    have hmin : min xs.length (N - 1) = xs.length := by omega
    have hpushw : s.qWtd ++ [gauss m sd xs.length] = lastN N (W N m sd (xs ++ [x]).length) := by
      rw [hWs, hmin]
      have := Cog.lastN_push N hN (W N m sd xs.length) (gauss m sd xs.length)
      rw [← hw] at this
      rw [if_neg (by rw [hlw]; omega)] at this
      exact this
    have hwl : s.qWtd.length = s.qVals.length := by rw [hlw, hlq]
    set g := gauss m sd xs.length with hg
    refine ⟨{ wtdSum := s.wtdSum + g * x, cumWt := s.cumWt + g, qVals := s.qVals ++ [x], qWtd := s.qWtd ++ [g],
              qOut := s.qOut ++ [(s.wtdSum + g * x) / (s.cumWt + g)] }, ?_, ?_⟩
    · have hfull2 : ¬ N ≤ xs.length := by omega
      simp only [almaCore, nat_eq, Nat.cast_one, hfull, hfull2, if_false, bind, Except.bind, pure, Except.pure, gauss_eq_weight,
        hcount, assertFinite_exact, ← hm, ← hsd]
      rfl
    · refine ⟨hpushq, hpushw, ?_, ?_, by simp⟩
      · show s.wtdSum + g * x = dot (s.qWtd ++ [g]) (s.qVals ++ [x])
        rw [dot_snoc _ _ _ _ hwl, hsum]
      · show s.cumWt + g = sumL (s.qWtd ++ [g])
        rw [hcum]; simp

/-- the spec's weight/value pairs are the zipped windows -/
theorem zipIdx_map_eq (h : Nat → α) (l : List α) (k : Nat) :
    (l.zipIdx k).map (fun (x, j) => (h j, x)) = List.zip ((List.range' k l.length).map h) l := by
  induction l generalizing k with
  | nil => simp
  | cons x r ih => simp [List.zipIdx_cons, List.range'_succ, ih (k + 1)]

theorem dot_eq (gs xs : List α) : dot gs xs = sumL ((gs.zip xs).map fun (g, x) => g * x) := by
  induction gs generalizing xs with
  | nil => simp [dot]
  | cons g gs ih => cases xs <;> simp [dot, ih]

theorem sum_fst_zip (gs xs : List α) (h : gs.length = xs.length) : sumL ((gs.zip xs).map fun (g, _) => g) = sumL gs := by
  induction gs generalizing xs with
  | nil => simp
  | cons g gs ih =>
    cases xs with
    | nil => simp at h
    | cons x xs => simp [ih xs (by simpa using h)]

theorem lastN_W (N : Nat) (m sd : α) (len : Nat) :
    lastN N (W N m sd len) =
      (List.range' (len - min N len) (min N len)).map (fun i => gauss m sd (min i (N - 1))) := by
  simp only [lastN, W, W_length, List.length_map, List.length_range, ← List.map_drop]
  congr 1
  rw [List.range_eq_range', List.drop_range']
  congr 1 <;> omega

/-- **Alma = Σ gᵢxᵢ / Σ gᵢ over its window with gᵢ = exp(−(kᵢ − m)²/(2s²)), m = offset·(N+1), s = N/σ, kᵢ = min(i, N−1)** -/
theorem outAfter_eq (N : Nat) (hN : 0 < N) (sigma offset : α) (xs : List α) :
    (almaCore (α := α) N sigma offset).outAfter xs = .ok (Spec.alma N sigma offset xs) := by
  obtain ⟨s, hs, hi⟩ := Core.run_invariant_init (almaCore N sigma offset) (Inv N (offset * ((N : α) + 1)) ((N : α) / sigma))
    ⟨by simp [almaCore], by simp [almaCore, W], by simp [almaCore, dot], by simp [almaCore], by simp [almaCore]⟩
    (fun s pre x h => step_ok N hN sigma offset s pre x h) xs
  rw [Core.outAfter, hs]
  show (almaCore (α := α) N sigma offset).out s = _
  have hout : (almaCore (α := α) N sigma offset).out s = .ok s.qOut.getLast? := rfl
  rw [hout, hi.hout]
  by_cases hx : xs = []
  · subst hx; simp [Spec.alma]
  · have hxe : xs.isEmpty = false := by cases xs <;> simp_all
    simp only [hx, if_false, Spec.alma, hxe, Bool.false_eq_true, nat_eq, Nat.cast_one]
    congr 2
    have hlw : s.qWtd.length = s.qVals.length := by
      rw [hi.hw, hi.hq, lastN_length, lastN_length]; simp
    have hz : ((lastN N xs).zipIdx.map fun (x, j) => (gauss (offset * ((N : α) + 1)) ((N : α) / sigma)
          (min (xs.length - (lastN N xs).length + j) (N - 1)), x)) = List.zip s.qWtd s.qVals := by
      rw [zipIdx_map_eq (fun j => gauss (offset * ((N : α) + 1)) ((N : α) / sigma) (min (xs.length - (lastN N xs).length + j) (N - 1)))]
      rw [hi.hw, hi.hq, lastN_W, lastN_length]
      congr 1
      rw [List.range'_eq_map_range, List.range'_eq_map_range, List.map_map, List.map_map]
      apply List.map_congr_left
      intro j _
      simp only [Function.comp, Nat.zero_add]
    rw [hz, ← dot_eq, sum_fst_zip _ _ hlw, hi.hsum, hi.hcum]
end SF.Alma

/-! ### a normalised positive-weight mean is a genuine average -/
namespace SF.Alma
open SF SF.Spec
set_option linter.unusedSectionVars false
variable {α : Type} [Field α] [LinearOrder α] [IsStrictOrderedRing α]

def Pos (gs : List α) : Prop := ∀ g ∈ gs, 0 < g

theorem sumL_pos (gs : List α) (h : Pos gs) (hne : gs ≠ []) : 0 < sumL gs := by
  induction gs with
  | nil => exact absurd rfl hne
  | cons g gs ih =>
    have hg := h g (by simp)
    by_cases he : gs = []
    · subst he; simpa using hg
    · have := ih (fun x hx => h x (by simp [hx])) he
      simp; linarith

theorem dot_bounds (gs xs : List α) (hlen : gs.length = xs.length) (hp : Pos gs) (lo hi : α)
    (hlo : ∀ x ∈ xs, lo ≤ x) (hhi : ∀ x ∈ xs, x ≤ hi) : lo * sumL gs ≤ dot gs xs ∧ dot gs xs ≤ hi * sumL gs := by
  induction gs generalizing xs with
  | nil => cases xs <;> simp_all [dot]
  | cons g gs ih =>
    cases xs with
    | nil => simp at hlen
    | cons x xs =>
      have hg := hp g (by simp)
      have := ih xs (by simpa using hlen) (fun y hy => hp y (by simp [hy])) (fun y hy => hlo y (by simp [hy]))
        (fun y hy => hhi y (by simp [hy]))
      have h1 := hlo x (by simp); have h2 := hhi x (by simp)
      simp only [dot, sumL_cons]
      constructor <;> nlinarith

/-- interval: the weighted mean lies between any bounds of the values -/
theorem wmean_interval (gs xs : List α) (hlen : gs.length = xs.length) (hp : Pos gs) (hne : gs ≠ []) (lo hi : α)
    (hlo : ∀ x ∈ xs, lo ≤ x) (hhi : ∀ x ∈ xs, x ≤ hi) : lo ≤ dot gs xs / sumL gs ∧ dot gs xs / sumL gs ≤ hi := by
  have hs := sumL_pos gs hp hne
  have := dot_bounds gs xs hlen hp lo hi hlo hhi
  exact ⟨by rw [le_div_iff₀ hs]; exact this.1, by rw [div_le_iff₀ hs]; exact this.2⟩

theorem dot_const (gs : List α) (c : α) : dot gs (List.replicate gs.length c) = c * sumL gs := by
  induction gs with
  | nil => simp [dot]
  | cons g gs ih => simp [List.replicate_succ, dot, ih]; ring

/-- a constant window is reproduced exactly -/
theorem wmean_const (gs : List α) (hp : Pos gs) (hne : gs ≠ []) (c : α) :
    dot gs (List.replicate gs.length c) / sumL gs = c := by
  have hs := sumL_pos gs hp hne
  rw [dot_const]; field_simp

theorem dot_mono (gs xs ys : List α) (hp : Pos gs) (h : List.Forall₂ (· ≤ ·) xs ys) : dot gs xs ≤ dot gs ys := by
  induction h generalizing gs with
  | nil => cases gs <;> simp [dot]
  | @cons a b l r hab _ ih =>
    cases gs with
    | nil => simp [dot]
    | cons g gs =>
      have hg := hp g (by simp)
      have := ih gs (fun y hy => hp y (by simp [hy]))
      simp only [dot]; nlinarith

/-- monotone: raising any value never lowers the weighted mean -/
theorem wmean_mono (gs xs ys : List α) (hp : Pos gs) (hne : gs ≠ []) (h : List.Forall₂ (· ≤ ·) xs ys) :
    dot gs xs / sumL gs ≤ dot gs ys / sumL gs :=
  div_le_div_of_nonneg_right (dot_mono gs xs ys hp h) (sumL_pos gs hp hne).le

theorem dot_affine (gs xs : List α) (a b : α) (hlen : gs.length = xs.length) :
    dot gs (xs.map fun x => a * x + b) = a * dot gs xs + b * sumL gs := by
  induction gs generalizing xs with
  | nil => cases xs <;> simp_all [dot]
  | cons g gs ih =>
    cases xs with
    | nil => simp at hlen
    | cons x xs => simp only [List.map_cons, dot, sumL_cons, ih xs (by simpa using hlen)]; ring

/-- the weighted mean commutes with x ↦ a·x + b -/
theorem wmean_affine (gs xs : List α) (a b : α) (hlen : gs.length = xs.length) (hp : Pos gs) (hne : gs ≠ []) :
    dot gs (xs.map fun x => a * x + b) / sumL gs = a * (dot gs xs / sumL gs) + b := by
  have hs := sumL_pos gs hp hne
  rw [dot_affine gs xs a b hlen]; field_simp

end SF.Alma

/-! ### bounded memory: the three deques always have the same length, at most N -/
namespace SF.Alma
open SF SF.Spec
set_option linter.unusedSectionVars false
set_option linter.unusedSimpArgs false
variable {α : Type} [Field α] [LinearOrder α] [IsStrictOrderedRing α] [FloatLike α] [ExactScalar α] [Transc α]

theorem step_len (N : Nat) (sigma offset : α) (s s' : AlmaState α) (x : α)
    (h : (almaCore N sigma offset).step s x = .ok s') (hl : s.qOut.length = s.qVals.length) :
    s'.qOut.length = s'.qVals.length := by
  simp only [almaCore, bind, Except.bind, pure, Except.pure, assertFinite_exact] at h
  by_cases hf : N ≤ s.qVals.length
  · rw [if_pos hf] at h
    cases hv : s.qVals with
    | nil => simp [front, hv, pure, Except.pure, throw, throwThe, MonadExceptOf.throw] at h
    | cons a r =>
      cases hw : s.qWtd with
      | nil => simp [front, hv, hw, pure, Except.pure, throw, throwThe, MonadExceptOf.throw] at h
      | cons w rw' =>
        simp only [front, hv, hw, pure, Except.pure] at h
        cases h
        have : s.qOut.tail.length = r.length := by
          rw [List.length_tail, hl, hv]; simp
        simp [this]
  · rw [if_neg hf] at h
    cases h
    simp [hl]

theorem size_le (N : Nat) (hN : 0 < N) (sigma offset : α) (xs : List α) (s : AlmaState α)
    (h : (almaCore (α := α) N sigma offset).run (almaCore (α := α) N sigma offset).init xs = .ok s) :
    (almaCore (α := α) N sigma offset).size s ≤ 3 * N := by
  obtain ⟨s', hs, hi, hlen⟩ := Core.run_invariant_init (almaCore N sigma offset)
    (fun s xs => Inv N (offset * ((N : α) + 1)) ((N : α) / sigma) s xs ∧ s.qOut.length = s.qVals.length)
    ⟨⟨by simp [almaCore], by simp [almaCore, W], by simp [almaCore, dot], by simp [almaCore], by simp [almaCore]⟩, by simp [almaCore]⟩
    (fun s pre x h => by
      obtain ⟨s', hs', hi'⟩ := step_ok N hN sigma offset s pre x h.1
      exact ⟨s', hs', hi', step_len N sigma offset s s' x hs' h.2⟩) xs
  rw [h] at hs; cases hs
  show s.qVals.length + s.qWtd.length + s.qOut.length ≤ 3 * N
  have h1 : s.qVals.length ≤ N := by rw [hi.hq]; exact lastN_length_le N xs
  have h2 : s.qWtd.length ≤ N := by rw [hi.hw]; exact lastN_length_le N _
  omega
end SF.Alma
