import SF.Lemmas.Field
import SF.Model.Window
/- Min / Max: the cached extremum is the extremum of exactly the last N values. -/
namespace SF.MinMax
open SF SF.Spec
set_option linter.unusedSectionVars false
set_option linter.unusedSimpArgs false
variable {α : Type} [Field α] [LinearOrder α] [IsStrictOrderedRing α] [FloatLike α] [ExactScalar α]

def IsLeastL (m : α) (l : List α) : Prop := m ∈ l ∧ ∀ x ∈ l, m ≤ x
def IsGreatestL (m : α) (l : List α) : Prop := m ∈ l ∧ ∀ x ∈ l, x ≤ m

theorem least_unique {m m' : α} {l : List α} (h : IsLeastL m l) (h' : IsLeastL m' l) : m = m' :=
  le_antisymm (h.2 m' h'.1) (h'.2 m h.1)
theorem greatest_unique {m m' : α} {l : List α} (h : IsGreatestL m l) (h' : IsGreatestL m' l) : m = m' :=
  le_antisymm (h'.2 m h.1) (h.2 m' h'.1)

/-! #### the spec's minL / maxL -/
theorem minL_none (l : List α) : minL l = none ↔ l = [] := by
  cases l with
  | nil => simp [minL]
  | cons x r => simp only [minL]; cases minL r <;> simp

theorem minL_least (l : List α) (m : α) (h : minL l = some m) : IsLeastL m l := by
  induction l generalizing m with
  | nil => simp [minL] at h
  | cons x r ih =>
    simp only [minL] at h
    cases hr : minL r with
    | none =>
      rw [hr] at h; simp at h; subst h
      have : r = [] := (minL_none r).mp hr
      subst this; exact ⟨by simp, by simp⟩
    | some m' =>
      rw [hr] at h; simp at h
      obtain ⟨hm, hle⟩ := ih m' hr
      by_cases hc : m' < x
      · simp [hc] at h; subst h
        exact ⟨by simp [hm], fun y hy => by
          rcases List.mem_cons.mp hy with rfl | hy
          · exact le_of_lt hc
          · exact hle y hy⟩
      · simp [hc] at h; subst h
        exact ⟨by simp, fun y hy => by
          rcases List.mem_cons.mp hy with rfl | hy
          · exact le_refl _
          · exact le_trans (not_lt.mp hc) (hle y hy)⟩

theorem maxL_none (l : List α) : maxL l = none ↔ l = [] := by
  cases l with
  | nil => simp [maxL]
  | cons x r => simp only [maxL]; cases maxL r <;> simp

theorem maxL_greatest (l : List α) (m : α) (h : maxL l = some m) : IsGreatestL m l := by
  induction l generalizing m with
  | nil => simp [maxL] at h
  | cons x r ih =>
    simp only [maxL] at h
    cases hr : maxL r with
    | none =>
      rw [hr] at h; simp at h; subst h
      have : r = [] := (maxL_none r).mp hr
      subst this; exact ⟨by simp, by simp⟩
    | some m' =>
      rw [hr] at h; simp at h
      obtain ⟨hm, hle⟩ := ih m' hr
      by_cases hc : x < m'
      · simp [hc] at h; subst h
        exact ⟨by simp [hm], fun y hy => by
          rcases List.mem_cons.mp hy with rfl | hy
          · exact le_of_lt hc
          · exact hle y hy⟩
      · simp [hc] at h; subst h
        exact ⟨by simp, fun y hy => by
          rcases List.mem_cons.mp hy with rfl | hy
          · exact le_refl _
          · exact le_trans (hle y hy) (not_lt.mp hc)⟩

theorem minL_eq_of_least (l : List α) (m : α) (h : IsLeastL m l) : minL l = some m := by
  cases hm : minL l with
  | none => have := (minL_none l).mp hm; subst this; exact absurd h.1 (by simp)
  | some m' => rw [least_unique h (minL_least l m' hm)]

theorem maxL_eq_of_greatest (l : List α) (m : α) (h : IsGreatestL m l) : maxL l = some m := by
  cases hm : maxL l with
  | none => have := (maxL_none l).mp hm; subst this; exact absurd h.1 (by simp)
  | some m' => rw [greatest_unique h (maxL_greatest l m' hm)]

/-! #### the model's rescans -/
theorem foldl_min_least (r : List α) (x : α) :
    IsLeastL (r.foldl (fun m y => if y < m then y else m) x) (x :: r) := by
  induction r generalizing x with
  | nil => exact ⟨by simp, by simp⟩
  | cons y r ih =>
    simp only [List.foldl_cons]
    obtain ⟨hm, hle⟩ := ih (if y < x then y else x)
    refine ⟨?_, fun z hz => ?_⟩
    · rcases List.mem_cons.mp hm with h | h
      · rw [h]; by_cases hc : y < x <;> simp [hc]
      · simp [h]
    · rcases List.mem_cons.mp hz with rfl | hz
      · have := hle (if y < z then y else z) (by simp)
        split_ifs at this ⊢ with hc
        · exact le_trans this (le_of_lt hc)
        · exact this
      · rcases List.mem_cons.mp hz with rfl | hz
        · have := hle (if z < x then z else x) (by simp)
          split_ifs at this ⊢ with hc
          · exact this
          · exact le_trans this (not_lt.mp hc)
        · exact hle z (by simp [hz])

theorem listMin_eq (l : List α) : listMin l = minL l := by
  cases l with
  | nil => simp [listMin, minL]
  | cons x r => exact (minL_eq_of_least _ _ (foldl_min_least r x)).symm

theorem foldl_max_greatest (r : List α) (x : α) :
    IsGreatestL (r.foldl (fun m y => if y < m then m else y) x) (x :: r) := by
  induction r generalizing x with
  | nil => exact ⟨by simp, by simp⟩
  | cons y r ih =>
    simp only [List.foldl_cons]
    obtain ⟨hm, hle⟩ := ih (if y < x then x else y)
    refine ⟨?_, fun z hz => ?_⟩
    · rcases List.mem_cons.mp hm with h | h
      · rw [h]; by_cases hc : y < x <;> simp [hc]
      · simp [h]
    · rcases List.mem_cons.mp hz with rfl | hz
      · have := hle (if y < z then z else y) (by simp)
        split_ifs at this ⊢ with hc
        · exact this
        · exact le_trans (not_lt.mp hc) this
      · rcases List.mem_cons.mp hz with rfl | hz
        · have := hle (if z < x then x else z) (by simp)
          split_ifs at this ⊢ with hc
          · exact le_trans (le_of_lt hc) this
          · exact this
        · exact hle z (by simp [hz])

theorem listMax_eq (l : List α) : listMax l = maxL l := by
  cases l with
  | nil => simp [listMax, maxL]
  | cons x r => exact (maxL_eq_of_greatest _ _ (foldl_max_greatest r x)).symm

/-! #### appending the newest value -/
theorem minL_snoc (l : List α) (v : α) :
    minL (l ++ [v]) = some (match minL l with | some m => if v < m then v else m | none => v) := by
  cases hm : minL l with
  | none => have := (minL_none l).mp hm; subst this; simp [minL]
  | some m =>
    obtain ⟨hmem, hle⟩ := minL_least l m hm
    apply minL_eq_of_least
    by_cases hc : v < m
    · simp only [hc, if_true]
      exact ⟨by simp, fun x hx => by
        rcases List.mem_append.mp hx with h | h
        · exact le_trans (le_of_lt hc) (hle x h)
        · simp at h; rw [h]⟩
    · simp only [hc, if_false]
      exact ⟨by simp [hmem], fun x hx => by
        rcases List.mem_append.mp hx with h | h
        · exact hle x h
        · simp at h; rw [h]; exact not_lt.mp hc⟩

theorem maxL_snoc (l : List α) (v : α) :
    maxL (l ++ [v]) = some (match maxL l with | some m => if m < v then v else m | none => v) := by
  cases hm : maxL l with
  | none => have := (maxL_none l).mp hm; subst this; simp [maxL]
  | some m =>
    obtain ⟨hmem, hle⟩ := maxL_greatest l m hm
    apply maxL_eq_of_greatest
    by_cases hc : m < v
    · simp only [hc, if_true]
      exact ⟨by simp, fun x hx => by
        rcases List.mem_append.mp hx with h | h
        · exact le_trans (hle x h) (le_of_lt hc)
        · simp at h; rw [h]⟩
    · simp only [hc, if_false]
      exact ⟨by simp [hmem], fun x hx => by
        rcases List.mem_append.mp hx with h | h
        · exact hle x h
        · simp at h; rw [h]; exact not_lt.mp hc⟩

/-- dropping the oldest element: if it was not the extremum, the extremum survives -/
theorem minL_tail_of_ne (old : α) (rest : List α) (m : α) (h : minL (old :: rest) = some m) (hne : old ≠ m) :
    minL rest = some m := by
  obtain ⟨hmem, hle⟩ := minL_least _ m h
  apply minL_eq_of_least
  refine ⟨?_, fun x hx => hle x (by simp [hx])⟩
  rcases List.mem_cons.mp hmem with h | h
  · exact absurd h.symm hne
  · exact h

theorem maxL_tail_of_ne (old : α) (rest : List α) (m : α) (h : maxL (old :: rest) = some m) (hne : old ≠ m) :
    maxL rest = some m := by
  obtain ⟨hmem, hle⟩ := maxL_greatest _ m h
  apply maxL_eq_of_greatest
  refine ⟨?_, fun x hx => hle x (by simp [hx])⟩
  rcases List.mem_cons.mp hmem with h | h
  · exact absurd h.symm hne
  · exact h

/-! #### the state machines -/
def pushMin (o : Option α) (x : α) : Option α :=
  match o with
  | some m => if x < m then some x else some m
  | none => some x
def pushMax (o : Option α) (x : α) : Option α :=
  match o with
  | some m => if m < x then some x else some m
  | none => some x
theorem pushMin_eq (o : Option α) (x : α) :
    pushMin o x = some (match o with | some m => if x < m then x else m | none => x) := by
  cases o <;> simp [pushMin] <;> split <;> rfl
theorem pushMax_eq (o : Option α) (x : α) :
    pushMax o x = some (match o with | some m => if m < x then x else m | none => x) := by
  cases o <;> simp [pushMax] <;> split <;> rfl

def MinInv (N : Nat) (s : ExtState α) (xs : List α) : Prop := s.q = lastN N xs ∧ s.opt = minL s.q
def MaxInv (N : Nat) (s : ExtState α) (xs : List α) : Prop := s.q = lastN N xs ∧ s.opt = maxL s.q

theorem min_step_ok (N : Nat) (hN : 0 < N) (s : ExtState α) (xs : List α) (x : α) (h : MinInv N s xs) :
    ∃ s', (minCoreU N).step s x = .ok s' ∧ MinInv N s' (xs ++ [x]) := by
  obtain ⟨hq, ho⟩ := h
  by_cases hfull : N ≤ s.q.length
  · cases hqe : s.q with
    | nil => rw [hqe] at hfull; simp at hfull; omega
    | cons old rest =>
      have hfull' : N ≤ rest.length + 1 := by rw [hqe] at hfull; simpa using hfull
      rw [hqe] at ho
      cases hm : minL (old :: rest) with
      | none => exact absurd ((minL_none _).mp hm) (by simp)
      | some m =>
        rw [hm] at ho
        have hrest : (if old == m then listMin rest else some m) = minL rest := by
          by_cases hc : old = m
          · simp [hc, listMin_eq]
          · have : (old == m) = false := by simpa using hc
            simp only [this]; exact (minL_tail_of_ne old rest m hm hc).symm
        refine ⟨{ opt := some (match minL rest with | some m => if x < m then x else m | none => x), q := rest ++ [x] }, ?_, ?_, ?_⟩
        · have e : (minCoreU N).step s x = .ok { opt := pushMin (if old == m then listMin rest else some m) x, q := rest ++ [x] } := by
            simp only [minCoreU, hqe, List.length_cons, hfull', if_true, popFront, ho, unwrap, bind, Except.bind, pure,
              Except.pure, pushMin]
            rfl
          rw [e, hrest, pushMin_eq]
        · show rest ++ [x] = lastN N (xs ++ [x])
          rw [lastN_snoc_full N xs x hN (by rw [← hq]; exact hfull), ← hq, hqe]; rfl
        · exact (minL_snoc rest x).symm
  · refine ⟨{ opt := some (match minL s.q with | some m => if x < m then x else m | none => x), q := s.q ++ [x] }, ?_, ?_, ?_⟩
    · have e : (minCoreU N).step s x = .ok { opt := pushMin (minL s.q) x, q := s.q ++ [x] } := by
        simp only [minCoreU, hfull, if_false, ho, bind, Except.bind, pure, Except.pure, pushMin]
        rfl
      rw [e, pushMin_eq]
    · show s.q ++ [x] = lastN N (xs ++ [x])
      rw [lastN_snoc_lt N xs x (by rw [← hq]; omega), ← hq]
    · exact (minL_snoc s.q x).symm

theorem max_step_ok (N : Nat) (hN : 0 < N) (s : ExtState α) (xs : List α) (x : α) (h : MaxInv N s xs) :
    ∃ s', (maxCoreU N).step s x = .ok s' ∧ MaxInv N s' (xs ++ [x]) := by
  obtain ⟨hq, ho⟩ := h
  by_cases hfull : N ≤ s.q.length
  · cases hqe : s.q with
    | nil => rw [hqe] at hfull; simp at hfull; omega
    | cons old rest =>
      have hfull' : N ≤ rest.length + 1 := by rw [hqe] at hfull; simpa using hfull
      rw [hqe] at ho
      cases hm : maxL (old :: rest) with
      | none => exact absurd ((maxL_none _).mp hm) (by simp)
      | some m =>
        rw [hm] at ho
        have hrest : (if old == m then listMax rest else some m) = maxL rest := by
          by_cases hc : old = m
          · simp [hc, listMax_eq]
          · have : (old == m) = false := by simpa using hc
            simp only [this]; exact (maxL_tail_of_ne old rest m hm hc).symm
        refine ⟨{ opt := some (match maxL rest with | some m => if m < x then x else m | none => x), q := rest ++ [x] }, ?_, ?_, ?_⟩
        · have e : (maxCoreU N).step s x = .ok { opt := pushMax (if old == m then listMax rest else some m) x, q := rest ++ [x] } := by
            simp only [maxCoreU, hqe, List.length_cons, hfull', if_true, popFront, ho, unwrap, bind, Except.bind, pure,
              Except.pure, pushMax]
            rfl
          rw [e, hrest, pushMax_eq]
        · show rest ++ [x] = lastN N (xs ++ [x])
          rw [lastN_snoc_full N xs x hN (by rw [← hq]; exact hfull), ← hq, hqe]; rfl
        · exact (maxL_snoc rest x).symm
  · refine ⟨{ opt := some (match maxL s.q with | some m => if m < x then x else m | none => x), q := s.q ++ [x] }, ?_, ?_, ?_⟩
    · have e : (maxCoreU N).step s x = .ok { opt := pushMax (maxL s.q) x, q := s.q ++ [x] } := by
        simp only [maxCoreU, hfull, if_false, ho, bind, Except.bind, pure, Except.pure, pushMax]
        rfl
      rw [e, pushMax_eq]
    · show s.q ++ [x] = lastN N (xs ++ [x])
      rw [lastN_snoc_lt N xs x (by rw [← hq]; omega), ← hq]
    · exact (maxL_snoc s.q x).symm

theorem min_outAfter_eq (N : Nat) (hN : 0 < N) (xs : List α) :
    (minCoreU (α := α) N).outAfter xs = .ok (Spec.wmin N xs) :=
  Core.outAfter_of_inv _ (MinInv N) (Spec.wmin N)
    (Core.run_invariant_init (minCoreU N) (MinInv N) (by simp [MinInv, minCoreU, minL])
      (fun s pre x h => min_step_ok N hN s pre x h))
    (fun s xs h => by simp [minCoreU, Spec.wmin, h.2, h.1, pure, Except.pure]) xs

theorem max_outAfter_eq (N : Nat) (hN : 0 < N) (xs : List α) :
    (maxCoreU (α := α) N).outAfter xs = .ok (Spec.wmax N xs) :=
  Core.outAfter_of_inv _ (MaxInv N) (Spec.wmax N)
    (Core.run_invariant_init (maxCoreU N) (MaxInv N) (by simp [MaxInv, maxCoreU, maxL])
      (fun s pre x h => max_step_ok N hN s pre x h))
    (fun s xs h => by simp [maxCoreU, Spec.wmax, h.2, h.1, pure, Except.pure]) xs

end SF.MinMax
