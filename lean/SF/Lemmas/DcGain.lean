import SF.Lemmas.TwoPole
import SF.Lemmas.SsStable
import SF.Lemmas.DoublePole
/-
  Response of the two-pole sections to an input that has become constant, and cascades of two contracting sections.

  * `const_tail_decay`: a two-pole smoother with unit DC gain (c1 = 1 − b1 − c3) fed the constant c0: the deviation of the
    output from c0 obeys the homogeneous recursion, so the Lyapunov functional of the deviation shrinks by (1+a)/2 per step.
  * `inhomogeneous_step`: V(next) ≤ ρ·V + (1+λ)·|u| for an arbitrary input term u.
  * `cascade_step`: V' ≤ ρV + κU, U' ≤ σU  ⇒  V' + M·U' ≤ r·(V + M·U) for M = κ/(r − σ), ρ ≤ r, σ < r.
  * RoofingFilter: once three consecutive inputs are equal the high-pass obeys its homogeneous double-pole recursion
    (geometric decay), and the SuperSmoother fed by it follows: the joint functional contracts (`roofing_joint_decay`).
-/
namespace SF.DcGain
open SF SF.Spec Complex ComplexConjugate TwoPole

/-- Lyapunov functional of the deviation of a smoother state from the level c0 -/
noncomputable def Vc (p : ℂ) (a c0 : ℝ) (st : List ℝ × ℝ) : ℝ :=
  ‖((st.1.headD 0 - c0 : ℝ) : ℂ)‖
    + 2 * a / (1 - a) * ‖((st.1.headD 0 - c0 : ℝ) : ℂ) - conj p * ((st.1.tail.headD 0 - c0 : ℝ) : ℂ)‖

theorem abs_head_sub_le_Vc (p : ℂ) (a c0 : ℝ) (ha0 : 0 ≤ a) (ha1 : a < 1) (st : List ℝ × ℝ) :
    |st.1.headD 0 - c0| ≤ Vc p a c0 st := by
  have h1a : 0 < 1 - a := by linarith
  have : 0 ≤ 2 * a / (1 - a) * ‖((st.1.headD 0 - c0 : ℝ) : ℂ) - conj p * ((st.1.tail.headD 0 - c0 : ℝ) : ℂ)‖ :=
    mul_nonneg (div_nonneg (by linarith) h1a.le) (norm_nonneg _)
  simp only [Vc]; rw [Complex.norm_real, Real.norm_eq_abs]; linarith

theorem Vc_nonneg (p : ℂ) (a c0 : ℝ) (ha0 : 0 ≤ a) (ha1 : a < 1) (st : List ℝ × ℝ) : 0 ≤ Vc p a c0 st :=
  le_trans (abs_nonneg _) (abs_head_sub_le_Vc p a c0 ha0 ha1 st)

/-- **unit DC gain**: a two-pole smoother with c1 = 1 − b1 − c3 fed a constant converges to that constant geometrically:
once the input has been c0 for one step, every further c0 multiplies the functional of the deviation by ρ = (1+a)/2 < 1 -/
theorem const_tail_decay (c : Coef ℝ) (a θ : ℝ) (ha0 : 0 ≤ a) (ha1 : a < 1)
    (hb1 : c.b1 = 2 * a * Real.cos θ) (hc3 : c.c3 = -(a * a)) (hc1 : c.c1 = 1 - c.b1 - c.c3)
    (pad c0 : ℝ) (xs : List ℝ) (k : Nat) :
    Vc (pole a θ) a c0 (SS.foldState c pad (xs ++ [c0] ++ List.replicate k c0))
      ≤ ((1 + a) / 2) ^ k * Vc (pole a θ) a c0 (SS.foldState c pad (xs ++ [c0])) := by
  induction k with
  | zero => simp
  | succ k ih =>
    rw [List.replicate_succ', ← List.append_assoc, SS.foldState_snoc]
    set st := SS.foldState c pad (xs ++ [c0] ++ List.replicate k c0) with hst
    have hprev : st.2 = c0 := by
      rw [hst]
      cases k with
      | zero => simp [SS.foldState_snoc]
      | succ k' => rw [List.replicate_succ', ← List.append_assoc, SS.foldState_snoc]
    have hrec : ((((c.c1 * (c0 + st.2) / 2 + c.b1 * st.1.headD 0 + c.c3 * st.1.tail.headD 0) - c0 : ℝ)) : ℂ)
        = (pole a θ + conj (pole a θ)) * ((st.1.headD 0 - c0 : ℝ) : ℂ)
          - (pole a θ * conj (pole a θ)) * ((st.1.tail.headD 0 - c0 : ℝ) : ℂ) := by
      rw [pole_add_conj, pole_mul_conj, hprev, hc1, hb1, hc3]; push_cast; ring
    have hc := homogeneous_contraction (pole a θ) a (by rw [pole_norm a θ ha0]) ha0 ha1 _ _ _ hrec
    have hρ : 0 ≤ (1 + a) / 2 := by linarith
    calc Vc (pole a θ) a c0 _ ≤ (1 + a) / 2 * Vc (pole a θ) a c0 st := by
          simp only [Vc, nat_eq, Nat.cast_zero, Nat.cast_ofNat, List.headD_cons, List.tail_cons]
          exact hc
      _ ≤ (1 + a) / 2 * (((1 + a) / 2) ^ k * Vc (pole a θ) a c0 (SS.foldState c pad (xs ++ [c0]))) := by gcongr
      _ = _ := by ring

/-- one step with an arbitrary input term u: V(next) ≤ ρ·V + (1+λ)·|u|, ρ = (1+a)/2, λ = 2a/(1−a) -/
theorem inhomogeneous_step (p : ℂ) (a : ℝ) (ha : ‖p‖ ≤ a) (ha0 : 0 ≤ a) (ha1 : a < 1)
    (f1 f2 u f' : ℝ) (hrec : (f' : ℂ) = (p + conj p) * f1 - (p * conj p) * f2 + u) :
    ‖(f' : ℂ)‖ + 2 * a / (1 - a) * ‖(f' : ℂ) - conj p * f1‖
      ≤ (1 + a) / 2 * (‖(f1 : ℂ)‖ + 2 * a / (1 - a) * ‖(f1 : ℂ) - conj p * f2‖) + (1 + 2 * a / (1 - a)) * |u| := by
  have h1a : 0 < 1 - a := by linarith
  have hcp : ‖conj p‖ ≤ a := by rw [Complex.norm_conj]; exact ha
  set g := ‖(f1 : ℂ) - conj p * f2‖ with hg
  set g' := ‖(f' : ℂ) - conj p * f1‖ with hg'
  have e1 : (f' : ℂ) - conj p * f1 = p * ((f1 : ℂ) - conj p * f2) + u := by rw [hrec]; ring
  have hun : ‖(u : ℂ)‖ = |u| := by rw [Complex.norm_real, Real.norm_eq_abs]
  have hg'le : g' ≤ a * g + |u| := by
    rw [hg', e1]
    calc ‖p * ((f1 : ℂ) - conj p * f2) + u‖ ≤ ‖p * ((f1 : ℂ) - conj p * f2)‖ + ‖(u : ℂ)‖ := norm_add_le _ _
      _ ≤ a * g + |u| := by rw [norm_mul, hun]; gcongr
  have e2 : (f' : ℂ) = conj p * f1 + ((f' : ℂ) - conj p * f1) := by ring
  have hf' : ‖(f' : ℂ)‖ ≤ a * ‖(f1 : ℂ)‖ + g' := by
    calc ‖(f' : ℂ)‖ = ‖conj p * f1 + ((f' : ℂ) - conj p * f1)‖ := by rw [← e2]
      _ ≤ ‖conj p * (f1 : ℂ)‖ + g' := norm_add_le _ _
      _ ≤ a * ‖(f1 : ℂ)‖ + g' := by rw [norm_mul]; gcongr
  have hg0 : 0 ≤ g := norm_nonneg _
  have hf0 : 0 ≤ ‖(f1 : ℂ)‖ := norm_nonneg _
  have hl0 : 0 ≤ 2 * a / (1 - a) := div_nonneg (by linarith) h1a.le
  have key : a * ‖(f1 : ℂ)‖ + (1 + 2 * a / (1 - a)) * (a * g) ≤ (1 + a) / 2 * (‖(f1 : ℂ)‖ + 2 * a / (1 - a) * g) := by
    have e : (1 + a) / 2 * (‖(f1 : ℂ)‖ + 2 * a / (1 - a) * g) - (a * ‖(f1 : ℂ)‖ + (1 + 2 * a / (1 - a)) * (a * g))
        = (1 - a) / 2 * ‖(f1 : ℂ)‖ := by field_simp; ring
    have : 0 ≤ (1 - a) / 2 * ‖(f1 : ℂ)‖ := mul_nonneg (by linarith) hf0
    linarith
  have h1l : 0 ≤ 1 + 2 * a / (1 - a) := by linarith
  calc ‖(f' : ℂ)‖ + 2 * a / (1 - a) * g' ≤ a * ‖(f1 : ℂ)‖ + g' + 2 * a / (1 - a) * g' := by linarith
    _ = a * ‖(f1 : ℂ)‖ + (1 + 2 * a / (1 - a)) * g' := by ring
    _ ≤ a * ‖(f1 : ℂ)‖ + (1 + 2 * a / (1 - a)) * (a * g + |u|) := by gcongr
    _ = a * ‖(f1 : ℂ)‖ + (1 + 2 * a / (1 - a)) * (a * g) + (1 + 2 * a / (1 - a)) * |u| := by ring
    _ ≤ _ := by linarith

/-- two contracting stages in cascade contract jointly -/
theorem cascade_step (ρ σ r κ V U V' U' : ℝ) (hρ : ρ ≤ r) (hσ : σ < r) (hκ : 0 ≤ κ) (hV0 : 0 ≤ V) (_hU0 : 0 ≤ U)
    (hV : V' ≤ ρ * V + κ * U) (hU : U' ≤ σ * U) :
    V' + κ / (r - σ) * U' ≤ r * (V + κ / (r - σ) * U) := by
  have hrs : 0 < r - σ := by linarith
  have hM0 : 0 ≤ κ / (r - σ) := div_nonneg hκ hrs.le
  have e : κ + κ / (r - σ) * σ = κ / (r - σ) * r := by field_simp; ring
  calc V' + κ / (r - σ) * U' ≤ (ρ * V + κ * U) + κ / (r - σ) * (σ * U) := by gcongr
    _ = ρ * V + (κ + κ / (r - σ) * σ) * U := by ring
    _ = ρ * V + κ / (r - σ) * r * U := by rw [e]
    _ ≤ r * V + κ / (r - σ) * r * U := by gcongr
    _ = r * (V + κ / (r - σ) * U) := by ring

/-! ### RoofingFilter on an input that has become constant (in particular: two merged streams, by linearity) -/
section roofing
open DoublePole

/-- Lyapunov functional of the high-pass state (double real pole p = 1 − α) -/
noncomputable def Uh (N : Nat) (st : List ℝ × ℝ × ℝ) : ℝ :=
  |st.1.headD 0| + 2 * |roofPole N| / (1 - |roofPole N|) * |st.1.headD 0 - roofPole N * st.1.tail.headD 0|

theorem abs_head_le_Uh (N : Nat) (hN : 2 ≤ N) (st : List ℝ × ℝ × ℝ) : |st.1.headD 0| ≤ Uh N st := by
  have h1 := roofPole_abs_lt_one N hN
  have : 0 ≤ 2 * |roofPole N| / (1 - |roofPole N|) * |st.1.headD 0 - roofPole N * st.1.tail.headD 0| :=
    mul_nonneg (div_nonneg (by positivity) (by linarith)) (abs_nonneg _)
  simp only [Uh]; linarith

theorem Uh_nonneg (N : Nat) (hN : 2 ≤ N) (st : List ℝ × ℝ × ℝ) : 0 ≤ Uh N st :=
  le_trans (abs_nonneg _) (abs_head_le_Uh N hN st)

/-- the value the high-pass appends when the last three inputs are equal: the homogeneous double-pole recursion -/
theorem hpNext_const (N : Nat) (st : List ℝ × ℝ × ℝ) (c0 : ℝ) (h : st.2 = (c0, c0)) :
    Roof.hpNext N st c0 = 2 * roofPole N * st.1.headD 0 - roofPole N * roofPole N * st.1.tail.headD 0 := by
  obtain ⟨l, x1, x2⟩ := st
  simp only [Prod.mk.injEq] at h
  obtain ⟨rfl, rfl⟩ := h
  simp only [Roof.hpNext, nat_eq, sq_eq, Nat.cast_ofNat, Nat.cast_one, Nat.cast_zero, roofPole]
  ring

/-- one more constant input contracts the high-pass functional by (1+ρ₁)/2, ρ₁ = |1 − α| < 1 -/
theorem hp_const_step (N : Nat) (hN : 2 ≤ N) (l : List ℝ) (c0 : ℝ) (h : (Roof.hpFold N l).2 = (c0, c0)) :
    Uh N (Roof.hpFold N (l ++ [c0])) ≤ (1 + |roofPole N|) / 2 * Uh N (Roof.hpFold N l)
      ∧ (Roof.hpFold N (l ++ [c0])).2 = (c0, c0) := by
  rw [Roof.hpFold_snoc, hpNext_const N _ c0 h]
  refine ⟨?_, by rw [h]⟩
  simp only [Uh, List.headD_cons, List.tail_cons]
  exact contraction (roofPole N) |roofPole N| _ _ (abs_nonneg _) (roofPole_abs_lt_one N hN) (le_refl _)

noncomputable def ssTheta (M : Nat) : ℝ := 44422 / 10000 / M
/-- joint contraction factor of RoofingFilter(N, M): the slower of the smoother's (1+a₁)/2 and a rate strictly between the
high-pass's (1+ρ₁)/2 and 1 -/
noncomputable def roofRate (N M : Nat) : ℝ := max ((1 + SsStable.ssA M) / 2) ((1 + (1 + |roofPole N|) / 2) / 2)
noncomputable def roofKappa (M : Nat) : ℝ :=
  (1 + 2 * SsStable.ssA M / (1 - SsStable.ssA M)) * |(Spec.ssCoef (α := ℝ) M).c1|
noncomputable def roofWeight (N M : Nat) : ℝ := roofKappa M / (roofRate N M - (1 + |roofPole N|) / 2)
/-- joint Lyapunov functional of RoofingFilter(N, M) after the history l -/
noncomputable def roofW (N M : Nat) (l : List ℝ) : ℝ :=
  V (pole (SsStable.ssA M) (ssTheta M)) (SsStable.ssA M) (SS.foldState (Spec.ssCoef (α := ℝ) M) 0 (Roof.fed N l))
    + roofWeight N M * Uh N (Roof.hpFold N l)

theorem roofRate_lt_one (N M : Nat) (hN : 2 ≤ N) (hM : 0 < M) : 0 < roofRate N M ∧ roofRate N M < 1 := by
  have ha := SsStable.ssA_range M hM
  have h1 := roofPole_abs_lt_one N hN
  have h0 := abs_nonneg (roofPole N)
  constructor
  · exact lt_of_lt_of_le (by linarith) (le_max_left _ _)
  · exact max_lt (by linarith) (by linarith)

theorem roofWeight_nonneg (N M : Nat) (hN : 2 ≤ N) (hM : 0 < M) : 0 ≤ roofWeight N M := by
  have ha := SsStable.ssA_range M hM
  have h1 := roofPole_abs_lt_one N hN
  have hr : (1 + (1 + |roofPole N|) / 2) / 2 ≤ roofRate N M := le_max_right _ _
  apply div_nonneg
  · exact mul_nonneg (by have : 0 ≤ 2 * SsStable.ssA M / (1 - SsStable.ssA M) := div_nonneg (by linarith) (by linarith); linarith) (abs_nonneg _)
  · linarith

/-- **one step of the joint contraction**: the history `l ++ [c0]` already ends in two equal values c0, c0 (so the
high-pass sees a vanishing second difference from now on) and is longer than the high-pass delay N -/
theorem roof_joint_step (N M : Nat) (hN : 2 ≤ N) (hM : 0 < M) (l : List ℝ) (c0 : ℝ) (hl : N < l.length)
    (h : (Roof.hpFold N (l ++ [c0])).2 = (c0, c0)) :
    roofW N M (l ++ [c0] ++ [c0]) ≤ roofRate N M * roofW N M (l ++ [c0]) := by
  have ha := SsStable.ssA_range M hM
  have hc : (Spec.ssCoef (α := ℝ) M).b1 = 2 * SsStable.ssA M * Real.cos (ssTheta M)
      ∧ (Spec.ssCoef (α := ℝ) M).c3 = -(SsStable.ssA M * SsStable.ssA M) := SsStable.ssCoef_form M
  have hρ1 := roofPole_abs_lt_one N hN
  obtain ⟨hU, _⟩ := hp_const_step N hN (l ++ [c0]) c0 h
  set a := SsStable.ssA M with ha_def
  set p := pole a (ssTheta M) with hp_def
  set c := Spec.ssCoef (α := ℝ) M with hc_def
  -- the smoother's state before / after, and what it is fed
  have hfed1 : Roof.fed N (l ++ [c0]) = Roof.fed N l ++ [Roof.hpNext N (Roof.hpFold N l) c0] := by
    rw [Roof.fed_snoc, if_pos hl]
  have hfed2 : Roof.fed N (l ++ [c0] ++ [c0]) = Roof.fed N (l ++ [c0]) ++ [Roof.hpNext N (Roof.hpFold N (l ++ [c0])) c0] := by
    rw [Roof.fed_snoc, if_pos (by simp; omega)]
  set S := SS.foldState c 0 (Roof.fed N (l ++ [c0])) with hS
  set H := Roof.hpFold N (l ++ [c0]) with hH
  set H' := Roof.hpFold N (l ++ [c0] ++ [c0]) with hH'
  have hprev : S.2 = H.1.headD 0 := by
    rw [hS, hfed1, SS.foldState_snoc, hH, Roof.hpFold_snoc]; simp
  have hnew : H'.1.headD 0 = Roof.hpNext N H c0 := by
    rw [hH', Roof.hpFold_snoc]; rfl
  set hn := Roof.hpNext N H c0 with hhn
  set u := c.c1 * (hn + S.2) / 2 with hu
  have hS' : SS.foldState c 0 (Roof.fed N (l ++ [c0] ++ [c0]))
      = ((u + c.b1 * S.1.headD 0 + c.c3 * S.1.tail.headD 0) :: S.1, hn) := by
    rw [hfed2, SS.foldState_snoc]
    simp only [nat_eq, Nat.cast_zero, Nat.cast_ofNat, hu, hS, hhn, hH]
  have hrec : (((u + c.b1 * S.1.headD 0 + c.c3 * S.1.tail.headD 0 : ℝ)) : ℂ)
      = (p + conj p) * ((S.1.headD 0 : ℝ) : ℂ) - (p * conj p) * ((S.1.tail.headD 0 : ℝ) : ℂ) + (u : ℂ) := by
    rw [hp_def, pole_add_conj, pole_mul_conj, hc.1, hc.2]
    generalize Real.cos (ssTheta M) = cθ
    push_cast; ring
  have hstep := inhomogeneous_step p a (by rw [hp_def, pole_norm a _ ha.1.le]) ha.1.le ha.2 _ _ u _ hrec
  -- the input term is dominated by the high-pass functional
  have hUH0 : 0 ≤ Uh N H := Uh_nonneg N hN H
  have hh1 : |H.1.headD 0| ≤ Uh N H := abs_head_le_Uh N hN H
  have hh2 : |hn| ≤ Uh N H := by
    have : |H'.1.headD 0| ≤ Uh N H' := abs_head_le_Uh N hN H'
    rw [hnew] at this
    have h3 : Uh N H' ≤ Uh N H := by
      calc Uh N H' ≤ (1 + |roofPole N|) / 2 * Uh N H := hU
        _ ≤ 1 * Uh N H := by gcongr; linarith
        _ = Uh N H := one_mul _
    linarith
  have hu_le : |u| ≤ |c.c1| * Uh N H := by
    rw [hu, abs_div, abs_mul, hprev, show |(2 : ℝ)| = 2 by norm_num, div_le_iff₀ (by norm_num : (0 : ℝ) < 2)]
    have : |hn + H.1.headD 0| ≤ 2 * Uh N H := le_trans (abs_add_le _ _) (by linarith)
    nlinarith [abs_nonneg c.c1]
  have hl0 : 0 ≤ 1 + 2 * a / (1 - a) := by
    have : 0 ≤ 2 * a / (1 - a) := div_nonneg (by linarith) (by linarith)
    linarith
  have hVstep : V p a (SS.foldState c 0 (Roof.fed N (l ++ [c0] ++ [c0])))
      ≤ (1 + a) / 2 * V p a S + roofKappa M * Uh N H := by
    rw [hS']
    simp only [V, List.headD_cons, List.tail_cons]
    calc _ ≤ (1 + a) / 2 * (‖((S.1.headD 0 : ℝ) : ℂ)‖ + 2 * a / (1 - a) * ‖((S.1.headD 0 : ℝ) : ℂ) - conj p * ((S.1.tail.headD 0 : ℝ) : ℂ)‖)
              + (1 + 2 * a / (1 - a)) * |u| := hstep
      _ ≤ _ := by
        have : (1 + 2 * a / (1 - a)) * |u| ≤ (1 + 2 * a / (1 - a)) * (|c.c1| * Uh N H) := by gcongr
        simp only [roofKappa]; rw [← ha_def, ← hc_def]; linarith
  have hκ0 : 0 ≤ roofKappa M := by
    simp only [roofKappa]; rw [← ha_def, ← hc_def]; exact mul_nonneg hl0 (abs_nonneg _)
  have hV0 : 0 ≤ V p a S := le_trans (abs_nonneg _) (abs_head_le_V p a ha.1.le ha.2 S)
  have hr1 : (1 + a) / 2 ≤ roofRate N M := le_max_left _ _
  have hr2 : (1 + |roofPole N|) / 2 < roofRate N M :=
    lt_of_lt_of_le (by linarith) (le_max_right _ _)
  exact cascade_step ((1 + a) / 2) ((1 + |roofPole N|) / 2) (roofRate N M) (roofKappa M) _ _ _ _ hr1 hr2 hκ0 hV0 hUH0 hVstep hU

/-- **geometric decay of the whole RoofingFilter on an input that has become constant**: history `l ++ [c0, c0]`
followed by k more values c0 -/
theorem roof_joint_decay (N M : Nat) (hN : 2 ≤ N) (hM : 0 < M) (l : List ℝ) (c0 : ℝ) (hl : N < (l ++ [c0]).length) (k : Nat) :
    roofW N M (l ++ [c0] ++ [c0] ++ List.replicate k c0) ≤ roofRate N M ^ k * roofW N M (l ++ [c0] ++ [c0])
    ∧ (Roof.hpFold N (l ++ [c0] ++ [c0] ++ List.replicate k c0)).2 = (c0, c0) := by
  have hr := roofRate_lt_one N M hN hM
  induction k with
  | zero =>
    refine ⟨by simp, ?_⟩
    simp only [List.replicate_zero, List.append_nil]
    rw [Roof.hpFold_snoc, Roof.hpFold_snoc]
  | succ k ih =>
    rw [List.replicate_succ', ← List.append_assoc]
    obtain ⟨ih1, ih2⟩ := ih
    -- write the history reached so far as m ++ [c0]
    obtain ⟨m, hm⟩ : ∃ m, l ++ [c0] ++ [c0] ++ List.replicate k c0 = m ++ [c0] := by
      cases k with
      | zero => exact ⟨l ++ [c0], by simp⟩
      | succ k' => exact ⟨l ++ [c0] ++ [c0] ++ List.replicate k' c0, by rw [List.replicate_succ', ← List.append_assoc]⟩
    have hmlen : N < m.length := by
      have : (l ++ [c0] ++ [c0] ++ List.replicate k c0).length = (m ++ [c0]).length := by rw [hm]
      simp at this hl; omega
    rw [hm] at ih1 ih2 ⊢
    have hs := roof_joint_step N M hN hM m c0 hmlen ih2
    refine ⟨?_, (hp_const_step N hN (m ++ [c0]) c0 ih2).2⟩
    calc roofW N M (m ++ [c0] ++ [c0]) ≤ roofRate N M * roofW N M (m ++ [c0]) := hs
      _ ≤ roofRate N M * (roofRate N M ^ k * roofW N M (l ++ [c0] ++ [c0])) := by gcongr; exact hr.1.le
      _ = _ := by ring

/-- the joint functional dominates the filter's output -/
theorem abs_roofing_le_W (N M : Nat) (hN : 2 ≤ N) (hM : 0 < M) (l : List ℝ) (v : ℝ) (h : Spec.roofing N M l = some v) :
    |v| ≤ roofW N M l := by
  have ha := SsStable.ssA_range M hM
  unfold Spec.roofing Spec.superSmoother at h
  split at h
  · simp at h
  · have hv : (SS.foldState (Spec.ssCoef (α := ℝ) M) 0 (Roof.fed N l)).1.headD 0 = v := by
      have : (smoothSeq (Spec.ssCoef (α := ℝ) M) (nat 0) ((hpSeq N l).reverse.drop (N + 1))).head? = some v := h
      rw [SS.smoothSeq_eq] at this
      simp only [nat_eq, Nat.cast_zero, Roof.hpSeq_eq] at this
      simp only [Roof.fed]
      cases hq : (SS.foldState (Spec.ssCoef (α := ℝ) M) 0 (List.drop (N + 1) (Roof.hpFold N l).1.reverse)).1 with
      | nil => rw [hq] at this; simp at this
      | cons y r => rw [hq] at this; simp at this; simp [this]
    have h1 := abs_head_le_V (pole (SsStable.ssA M) (ssTheta M)) (SsStable.ssA M) ha.1.le ha.2
      (SS.foldState (Spec.ssCoef (α := ℝ) M) 0 (Roof.fed N l))
    rw [hv] at h1
    have h2 : 0 ≤ roofWeight N M * Uh N (Roof.hpFold N l) := mul_nonneg (roofWeight_nonneg N M hN hM) (Uh_nonneg N hN _)
    simp only [roofW]; linarith

end roofing

end SF.DcGain

/-! ### CyberCycle on an input that has become constant: the output decays geometrically (DC rejection) -/
namespace SF.DcGain
open SF SF.Spec DoublePole
section cc
variable {α : Type} [Field α] [LinearOrder α] [IsStrictOrderedRing α] [FloatLike α] [ExactScalar α] [Transc α]

theorem at_const_tail (xs : List α) (c0 : α) (L : Nat) (j : Int) (h1 : (xs.length : Int) ≤ j) (h2 : j < xs.length + L) :
    at' (xs ++ List.replicate L c0) (nat 0) j = c0 := by
  rw [at_append_right xs _ j h1]
  unfold at'
  rw [if_neg (by omega)]
  have : (j - (xs.length : Int)).toNat < L := by omega
  rw [List.getElem?_replicate, if_pos this]; rfl

/-- the 4-tap smoothing of a constant stretch is that constant -/
theorem smS_const_tail (xs : List α) (c0 : α) (L : Nat) (j : Int) (h1 : (xs.length : Int) + 3 ≤ j) (h2 : j < xs.length + L) :
    CC.smS (xs ++ List.replicate L c0) j = c0 := by
  unfold CC.smS
  rw [at_const_tail xs c0 L j (by omega) h2, at_const_tail xs c0 L (j - 1) (by omega) (by omega),
    at_const_tail xs c0 L (j - 2) (by omega) (by omega), at_const_tail xs c0 L (j - 3) (by omega) (by omega)]
  simp only [nat_eq, Nat.cast_ofNat]
  field_simp; ring

/-- **CyberCycle rejects DC**: history `xs` followed by L copies of c0.  From five steps into the constant stretch (and
past the start-up) the output c obeys the homogeneous recursion, so V(n) = |c(n+1)| + (2p/(1−p))·|c(n+1) − p·c(n)|,
p = 1 − 2/(N+1), shrinks by N/(N+1) per step and dominates |c|: the output tends to 0 geometrically, for every N ≥ 1 -/
theorem cc_const_decay (N : Nat) (hN : 1 ≤ N) (xs : List α) (c0 : α) (L m k : Nat)
    (hm1 : xs.length + 5 ≤ m + 2) (hm2 : N ≤ m + 3) (hL : m + k + 1 < xs.length + L) :
    let p : α := 1 - 2 / ((N : α) + 1)
    let c := fun n => cAt N (xs ++ List.replicate L c0) n
    let V := fun n => |c (n + 1)| + 2 * p / (1 - p) * |c (n + 1) - p * c n|
    V (m + k) ≤ ((1 + p) / 2) ^ k * V m ∧ |c (m + k + 1)| ≤ V (m + k) := by
  intro p c V
  have hpole := cc_pole (α := α) N hN
  have hlam0 : 0 ≤ 2 * p / (1 - p) := div_nonneg (by linarith [hpole.1]) (by linarith [hpole.2])
  have hV : ∀ n, |c (n + 1)| ≤ V n := fun n => le_add_of_nonneg_right (mul_nonneg hlam0 (abs_nonneg _))
  refine ⟨?_, hV _⟩
  have hrec : ∀ n, m ≤ n → n + 2 < xs.length + L → c (n + 2) = 2 * p * c (n + 1) - p * p * c n := by
    intro n hn hn2
    show cAt N (xs ++ List.replicate L c0) (n + 2) = _
    rw [cAt_rec N _ n (by omega)]
    rw [smS_const_tail xs c0 L _ (by push_cast; omega) (by push_cast; omega),
      smS_const_tail xs c0 L _ (by push_cast; omega) (by push_cast; omega),
      smS_const_tail xs c0 L _ (by push_cast; omega) (by push_cast; omega)]
    show _ = 2 * p * cAt N (xs ++ List.replicate L c0) (n + 1) - p * p * cAt N (xs ++ List.replicate L c0) n
    ring
  induction k with
  | zero => simp
  | succ k ih =>
    have hstep : V (m + k + 1) ≤ (1 + p) / 2 * V (m + k) := by
      show |c (m + k + 1 + 1)| + 2 * p / (1 - p) * |c (m + k + 1 + 1) - p * c (m + k + 1)|
        ≤ (1 + p) / 2 * (|c (m + k + 1)| + 2 * p / (1 - p) * |c (m + k + 1) - p * c (m + k)|)
      rw [show m + k + 1 + 1 = (m + k) + 2 by ring, hrec (m + k) (by omega) (by omega)]
      exact contraction p p (c (m + k + 1)) (c (m + k)) hpole.1 hpole.2 (by rw [abs_of_nonneg hpole.1])
    have hσ0 : 0 ≤ (1 + p) / 2 := by linarith [hpole.1]
    calc V (m + (k + 1)) = V (m + k + 1) := by rw [Nat.add_assoc]
      _ ≤ (1 + p) / 2 * V (m + k) := hstep
      _ ≤ (1 + p) / 2 * (((1 + p) / 2) ^ k * V m) := mul_le_mul_of_nonneg_left (ih (by omega)) hσ0
      _ = ((1 + p) / 2) ^ (k + 1) * V m := by ring

end cc
end SF.DcGain
