import SF.Lemmas.Lagf
import SF.Lemmas.Linear
import Mathlib.Tactic.Ring
import Mathlib.Tactic.Linarith
import Mathlib.Tactic.FieldSimp
/-
  LaguerreFilter, 0 ≤ γ < 1: a one-pole low-pass L0 followed by three first-order all-pass sections with pole γ.
  Bounded input ⇒ bounded output with the length-independent bound κ³·B, κ = (1+γ)/(1−γ); and once two input streams
  coincide, the four stage differences decay geometrically.
-/
namespace SF.LagfStable
open SF SF.Spec
set_option linter.unusedSectionVars false
variable {α : Type} [Field α] [LinearOrder α] [IsStrictOrderedRing α]

/-- one all-pass stage n = −γ·a + b + γ·c with |a|,|b| ≤ K, |c| ≤ K' and (1+γ)K + γK' ≤ K' stays within K' -/
theorem allpass_step (g K K' a b c : α) (hg : 0 ≤ g) (ha : |a| ≤ K) (hb : |b| ≤ K) (hc : |c| ≤ K')
    (hK : (1 + g) * K + g * K' ≤ K') : |-g * a + b + g * c| ≤ K' := by
  have h1 := abs_le.mp ha; have h2 := abs_le.mp hb; have h3 := abs_le.mp hc
  have p1 := mul_le_mul_of_nonneg_left h1.1 hg
  have p2 := mul_le_mul_of_nonneg_left h1.2 hg
  have p3 := mul_le_mul_of_nonneg_left h3.1 hg
  have p4 := mul_le_mul_of_nonneg_left h3.2 hg
  rw [abs_le]; constructor <;> nlinarith

/-- the low-pass stage is a convex combination -/
theorem lowpass_step (g B x l : α) (hg0 : 0 ≤ g) (hg1 : g ≤ 1) (hx : |x| ≤ B) (hl : |l| ≤ B) :
    |(1 - g) * x + g * l| ≤ B := by
  have h1 := abs_le.mp hx; have h2 := abs_le.mp hl
  have p1 := mul_le_mul_of_nonneg_left h1.1 (sub_nonneg.mpr hg1)
  have p2 := mul_le_mul_of_nonneg_left h1.2 (sub_nonneg.mpr hg1)
  have p3 := mul_le_mul_of_nonneg_left h2.1 hg0
  have p4 := mul_le_mul_of_nonneg_left h2.2 hg0
  rw [abs_le]; constructor <;> nlinarith

variable [FloatLike α] [ExactScalar α] [Transc α]

/-- the four stage bounds B, κB, κ²B, κ³B are preserved by every step of the ladder -/
theorem ladder_bounds (g B : α) (hg0 : 0 ≤ g) (hg1 : g < 1) (init : α × α × α × α) (xs : List α)
    (hx : ∀ x ∈ xs, |x| ≤ B)
    (h0 : |init.1| ≤ B) (h1 : |init.2.1| ≤ (1 + g) / (1 - g) * B)
    (h2 : |init.2.2.1| ≤ (1 + g) / (1 - g) * ((1 + g) / (1 - g) * B))
    (h3 : |init.2.2.2| ≤ (1 + g) / (1 - g) * ((1 + g) / (1 - g) * ((1 + g) / (1 - g) * B))) :
    let s := lagLadder g init xs
    |s.1| ≤ B ∧ |s.2.1| ≤ (1 + g) / (1 - g) * B ∧ |s.2.2.1| ≤ (1 + g) / (1 - g) * ((1 + g) / (1 - g) * B) ∧
      |s.2.2.2| ≤ (1 + g) / (1 - g) * ((1 + g) / (1 - g) * ((1 + g) / (1 - g) * B)) := by
  have h1g : 0 < 1 - g := by linarith
  set κ := (1 + g) / (1 - g) with hκ
  have eK : ∀ K : α, (1 + g) * K + g * (κ * K) = κ * K := by intro K; rw [hκ]; field_simp; ring
  induction xs using List.reverseRecOn with
  | nil => exact ⟨h0, h1, h2, h3⟩
  | append_singleton xs x ih =>
    obtain ⟨i0, i1, i2, i3⟩ := ih (fun y hy => hx y (by simp [hy]))
    have hxB := hx x (by simp)
    rw [Lagf.ladder_snoc]
    simp only [nat_eq, Nat.cast_one]
    set s := lagLadder g init xs
    have n0 : |(1 - g) * x + g * s.1| ≤ B := lowpass_step g B x s.1 hg0 hg1.le hxB i0
    have n1 := allpass_step g B (κ * B) _ s.1 s.2.1 hg0 n0 i0 i1 (le_of_eq (eK B))
    have n2 := allpass_step g (κ * B) (κ * (κ * B)) _ s.2.1 s.2.2.1 hg0 n1 i1 i2 (le_of_eq (eK _))
    have n3 := allpass_step g (κ * (κ * B)) (κ * (κ * (κ * B))) _ s.2.2.1 s.2.2.2 hg0 n2 i2 i3 (le_of_eq (eK _))
    exact ⟨n0, n1, n2, n3⟩

/-- **LaguerreFilter is BIBO stable for every 0 ≤ γ < 1 with the length-independent bound κ³·B, κ = (1+γ)/(1−γ)** -/
theorem laguerre_bibo (g B : α) (hg0 : 0 ≤ g) (hg1 : g < 1) (xs : List α) (hx : ∀ x ∈ xs, |x| ≤ B) (v : α)
    (h : Spec.laguerreFilter g xs = some v) :
    |v| ≤ (1 + g) / (1 - g) * ((1 + g) / (1 - g) * ((1 + g) / (1 - g) * B)) := by
  cases xs with
  | nil => simp [Spec.laguerreFilter] at h
  | cons x0 r =>
    have h1g : 0 < 1 - g := by linarith
    have hx0 := hx x0 (by simp)
    have hB : 0 ≤ B := le_trans (abs_nonneg _) hx0
    set κ := (1 + g) / (1 - g) with hκ
    have hκ1 : 1 ≤ κ := by rw [hκ, le_div_iff₀ h1g]; linarith
    have e1 : B ≤ κ * B := by nlinarith
    have e2 : κ * B ≤ κ * (κ * B) := by nlinarith
    have e3 : κ * (κ * B) ≤ κ * (κ * (κ * B)) := by nlinarith [mul_nonneg (by linarith : (0:α) ≤ κ) hB]
    obtain ⟨b0, b1, b2, b3⟩ := ladder_bounds g B hg0 hg1 (x0, x0, x0, x0) r (fun y hy => hx y (by simp [hy]))
      hx0 (le_trans hx0 e1) (le_trans hx0 (le_trans e1 e2)) (le_trans hx0 (le_trans e1 (le_trans e2 e3)))
    simp only [Spec.laguerreFilter, Option.some.injEq] at h
    subst h
    simp only [nat_eq, Nat.cast_ofNat]
    set s := lagLadder g (x0, x0, x0, x0) r
    have a0 := abs_le.mp b0; have a1 := abs_le.mp b1; have a2 := abs_le.mp b2; have a3 := abs_le.mp b3
    rw [abs_le]; constructor
    · rw [le_div_iff₀ (by norm_num)]; linarith [a0.1, a1.1, a2.1, a3.1]
    · rw [div_le_iff₀ (by norm_num)]; linarith [a0.2, a1.2, a2.2, a3.2]

end SF.LagfStable
