import SF.Lemmas.Lagf
import SF.Lemmas.Linear
import Mathlib.Tactic.Ring
import Mathlib.Tactic.Linarith
import Mathlib.Tactic.FieldSimp
/-
  LaguerreFilter, 0 ≤ γ < 1: a one-pole low-pass L0 followed by three first-order all-pass sections with pole γ.
  Bounded input ⇒ bounded output with the length-independent bound κ³·B, κ = (1+γ)/(1−γ); and once two input streams
  coincide, the four stage differences decay geometrically.
-/
namespace SF.LagfStable
open SF SF.Spec
set_option linter.unusedSectionVars false
variable {α : Type} [Field α] [LinearOrder α] [IsStrictOrderedRing α]

/-- one all-pass stage n = −γ·a + b + γ·c with |a|,|b| ≤ K, |c| ≤ K' and (1+γ)K + γK' ≤ K' stays within K' -/
theorem allpass_step (g K K' a b c : α) (hg : 0 ≤ g) (ha : |a| ≤ K) (hb : |b| ≤ K) (hc : |c| ≤ K')
    (hK : (1 + g) * K + g * K' ≤ K') : |-g * a + b + g * c| ≤ K' := by
  have h1 := abs_le.mp ha; have h2 := abs_le.mp hb; have h3 := abs_le.mp hc
  have p1 := mul_le_mul_of_nonneg_left h1.1 hg
  have p2 := mul_le_mul_of_nonneg_left h1.2 hg
  have p3 := mul_le_mul_of_nonneg_left h3.1 hg
  have p4 := mul_le_mul_of_nonneg_left h3.2 hg
  rw [abs_le]; constructor <;> nlinarith

/-- the low-pass stage is a convex combination -/
theorem lowpass_step (g B x l : α) (hg0 : 0 ≤ g) (hg1 : g ≤ 1) (hx : |x| ≤ B) (hl : |l| ≤ B) :
    |(1 - g) * x + g * l| ≤ B := by
  have h1 := abs_le.mp hx; have h2 := abs_le.mp hl
  have p1 := mul_le_mul_of_nonneg_left h1.1 (sub_nonneg.mpr hg1)
  have p2 := mul_le_mul_of_nonneg_left h1.2 (sub_nonneg.mpr hg1)
  have p3 := mul_le_mul_of_nonneg_left h2.1 hg0
  have p4 := mul_le_mul_of_nonneg_left h2.2 hg0
  rw [abs_le]; constructor <;> nlinarith

variable [FloatLike α] [ExactScalar α] [Transc α]

/-- the four stage bounds B, κB, κ²B, κ³B are preserved by every step of the ladder -/
theorem ladder_bounds (g B : α) (hg0 : 0 ≤ g) (hg1 : g < 1) (init : α × α × α × α) (xs : List α)
    (hx : ∀ x ∈ xs, |x| ≤ B)
    (h0 : |init.1| ≤ B) (h1 : |init.2.1| ≤ (1 + g) / (1 - g) * B)
    (h2 : |init.2.2.1| ≤ (1 + g) / (1 - g) * ((1 + g) / (1 - g) * B))
    (h3 : |init.2.2.2| ≤ (1 + g) / (1 - g) * ((1 + g) / (1 - g) * ((1 + g) / (1 - g) * B))) :
    let s := lagLadder g init xs
    |s.1| ≤ B ∧ |s.2.1| ≤ (1 + g) / (1 - g) * B ∧ |s.2.2.1| ≤ (1 + g) / (1 - g) * ((1 + g) / (1 - g) * B) ∧
      |s.2.2.2| ≤ (1 + g) / (1 - g) * ((1 + g) / (1 - g) * ((1 + g) / (1 - g) * B)) := by
  have h1g : 0 < 1 - g := by linarith
  set κ := (1 + g) / (1 - g) with hκ
  have eK : ∀ K : α, (1 + g) * K + g * (κ * K) = κ * K := by intro K; rw [hκ]; field_simp; ring
  induction xs using List.reverseRecOn with
  | nil => exact ⟨h0, h1, h2, h3⟩
  | append_singleton xs x ih =>
    obtain ⟨i0, i1, i2, i3⟩ := ih (fun y hy => hx y (by simp [hy]))
    have hxB := hx x (by simp)
    rw [Lagf.ladder_snoc]
    simp only [nat_eq, Nat.cast_one]
    set s := lagLadder g init xs
    have n0 : |(1 - g) * x + g * s.1| ≤ B := lowpass_step g B x s.1 hg0 hg1.le hxB i0
    have n1 := allpass_step g B (κ * B) _ s.1 s.2.1 hg0 n0 i0 i1 (le_of_eq (eK B))
    have n2 := allpass_step g (κ * B) (κ * (κ * B)) _ s.2.1 s.2.2.1 hg0 n1 i1 i2 (le_of_eq (eK _))
    have n3 := allpass_step g (κ * (κ * B)) (κ * (κ * (κ * B))) _ s.2.2.1 s.2.2.2 hg0 n2 i2 i3 (le_of_eq (eK _))
    exact ⟨n0, n1, n2, n3⟩

/-- **LaguerreFilter is BIBO stable for every 0 ≤ γ < 1 with the length-independent bound κ³·B, κ = (1+γ)/(1−γ)** -/
theorem laguerre_bibo (g B : α) (hg0 : 0 ≤ g) (hg1 : g < 1) (xs : List α) (hx : ∀ x ∈ xs, |x| ≤ B) (v : α)
    (h : Spec.laguerreFilter g xs = some v) :
    |v| ≤ (1 + g) / (1 - g) * ((1 + g) / (1 - g) * ((1 + g) / (1 - g) * B)) := by
  cases xs with
  | nil => simp [Spec.laguerreFilter] at h
  | cons x0 r =>
    have h1g : 0 < 1 - g := by linarith
    have hx0 := hx x0 (by simp)
    have hB : 0 ≤ B := le_trans (abs_nonneg _) hx0
    set κ := (1 + g) / (1 - g) with hκ
    have hκ1 : 1 ≤ κ := by rw [hκ, le_div_iff₀ h1g]; linarith
    have e1 : B ≤ κ * B := by nlinarith
    have e2 : κ * B ≤ κ * (κ * B) := by nlinarith
    have e3 : κ * (κ * B) ≤ κ * (κ * (κ * B)) := by nlinarith [mul_nonneg (by linarith : (0:α) ≤ κ) hB]
    obtain ⟨b0, b1, b2, b3⟩ := ladder_bounds g B hg0 hg1 (x0, x0, x0, x0) r (fun y hy => hx y (by simp [hy]))
      hx0 (le_trans hx0 e1) (le_trans hx0 (le_trans e1 e2)) (le_trans hx0 (le_trans e1 (le_trans e2 e3)))
    simp only [Spec.laguerreFilter, Option.some.injEq] at h
    subst h
    simp only [nat_eq, Nat.cast_ofNat]
    set s := lagLadder g (x0, x0, x0, x0) r
    have a0 := abs_le.mp b0; have a1 := abs_le.mp b1; have a2 := abs_le.mp b2; have a3 := abs_le.mp b3
    rw [abs_le]; constructor
    · rw [le_div_iff₀ (by norm_num)]; linarith [a0.1, a1.1, a2.1, a3.1]
    · rw [div_le_iff₀ (by norm_num)]; linarith [a0.2, a1.2, a2.2, a3.2]

/-! ### fading memory -/
/-- the weighted norm |l0| + ε|l1| + ε²|l2| + ε³|l3| -/
def V (e : α) (s : α × α × α × α) : α := |s.1| + e * |s.2.1| + e * e * |s.2.2.1| + e * e * e * |s.2.2.2|

/-- one step of the ladder with input 0 -/
def zstep (g : α) (s : α × α × α × α) : α × α × α × α :=
  (g * s.1, -g * (g * s.1) + s.1 + g * s.2.1, -g * (-g * (g * s.1) + s.1 + g * s.2.1) + s.2.1 + g * s.2.2.1,
    -g * (-g * (-g * (g * s.1) + s.1 + g * s.2.1) + s.2.1 + g * s.2.2.1) + s.2.2.1 + g * s.2.2.2)

theorem abs_stage (g a b c : α) (hg : 0 ≤ g) : |-g * a + b + g * c| ≤ g * |a| + |b| + g * |c| := by
  calc |-g * a + b + g * c| ≤ |-g * a + b| + |g * c| := abs_add_le _ _
    _ ≤ |-g * a| + |b| + |g * c| := by gcongr; exact abs_add_le _ _
    _ = g * |a| + |b| + g * |c| := by rw [abs_mul, abs_mul, abs_neg, abs_of_nonneg hg]

/-- **with no input the weighted norm contracts by ρ = (1+γ)/2 per step**, ε = (1−γ)/8 -/
theorem zstep_contracts (g : α) (hg0 : 0 ≤ g) (hg1 : g < 1) (s : α × α × α × α) :
    V ((1 - g) / 8) (zstep g s) ≤ (1 + g) / 2 * V ((1 - g) / 8) s := by
  set e := (1 - g) / 8 with he
  have he0 : 0 < e := by rw [he]; linarith
  have he8 : e ≤ 1 / 8 := by rw [he]; linarith
  set A0 := |s.1|; set A1 := |s.2.1|; set A2 := |s.2.2.1|; set A3 := |s.2.2.2|
  have hA0 : 0 ≤ A0 := abs_nonneg _
  have hA1 : 0 ≤ A1 := abs_nonneg _
  have hA2 : 0 ≤ A2 := abs_nonneg _
  have hA3 : 0 ≤ A3 := abs_nonneg _
  have n0 : |g * s.1| = g * A0 := by rw [abs_mul, abs_of_nonneg hg0]
  have n1 : |-g * (g * s.1) + s.1 + g * s.2.1| ≤ 2 * A0 + g * A1 := by
    have := abs_stage g (g * s.1) s.1 s.2.1 hg0
    rw [n0] at this
    have hs1 : g * A0 ≤ A0 := mul_le_of_le_one_left hA0 hg1.le
    have hgg : g * (g * A0) ≤ A0 := le_trans (mul_le_of_le_one_left (mul_nonneg hg0 hA0) hg1.le) hs1
    linarith
  have n2 : |-g * (-g * (g * s.1) + s.1 + g * s.2.1) + s.2.1 + g * s.2.2.1| ≤ 2 * A0 + 2 * A1 + g * A2 := by
    have := abs_stage g (-g * (g * s.1) + s.1 + g * s.2.1) s.2.1 s.2.2.1 hg0
    have h1 : g * |-g * (g * s.1) + s.1 + g * s.2.1| ≤ 2 * A0 + A1 := by
      have q1 := mul_le_of_le_one_left (abs_nonneg (-g * (g * s.1) + s.1 + g * s.2.1)) hg1.le
      have q2 : g * A1 ≤ A1 := mul_le_of_le_one_left hA1 hg1.le
      linarith
    linarith
  have n3 : |-g * (-g * (-g * (g * s.1) + s.1 + g * s.2.1) + s.2.1 + g * s.2.2.1) + s.2.2.1 + g * s.2.2.2|
      ≤ 2 * A0 + 2 * A1 + 2 * A2 + g * A3 := by
    have := abs_stage g (-g * (-g * (g * s.1) + s.1 + g * s.2.1) + s.2.1 + g * s.2.2.1) s.2.2.1 s.2.2.2 hg0
    have h1 : g * |-g * (-g * (g * s.1) + s.1 + g * s.2.1) + s.2.1 + g * s.2.2.1| ≤ 2 * A0 + 2 * A1 + A2 := by
      have q1 := mul_le_of_le_one_left (abs_nonneg (-g * (-g * (g * s.1) + s.1 + g * s.2.1) + s.2.1 + g * s.2.2.1)) hg1.le
      have q2 : g * A2 ≤ A2 := mul_le_of_le_one_left hA2 hg1.le
      linarith
    linarith
  have hee : 0 ≤ e * e := by positivity
  have heee : 0 ≤ e * e * e := by positivity
  have k0 : g + 2 * e + 2 * (e * e) + 2 * (e * e * e) ≤ (1 + g) / 2 := by
    have : e * e ≤ e / 8 := by nlinarith
    have : e * e * e ≤ e / 64 := by nlinarith
    rw [he] at *; nlinarith
  have k1 : g + 2 * e + 2 * (e * e) ≤ (1 + g) / 2 := by linarith
  have k2 : g + 2 * e ≤ (1 + g) / 2 := by linarith
  have k3 : g ≤ (1 + g) / 2 := by linarith
  simp only [V, zstep]
  rw [n0]
  calc g * A0 + e * |-g * (g * s.1) + s.1 + g * s.2.1|
        + e * e * |-g * (-g * (g * s.1) + s.1 + g * s.2.1) + s.2.1 + g * s.2.2.1|
        + e * e * e * |-g * (-g * (-g * (g * s.1) + s.1 + g * s.2.1) + s.2.1 + g * s.2.2.1) + s.2.2.1 + g * s.2.2.2|
      ≤ g * A0 + e * (2 * A0 + g * A1) + e * e * (2 * A0 + 2 * A1 + g * A2) + e * e * e * (2 * A0 + 2 * A1 + 2 * A2 + g * A3) := by
        have := mul_le_mul_of_nonneg_left n1 he0.le
        have := mul_le_mul_of_nonneg_left n2 hee
        have := mul_le_mul_of_nonneg_left n3 heee
        linarith
    _ = (g + 2 * e + 2 * (e * e) + 2 * (e * e * e)) * A0 + (g + 2 * e + 2 * (e * e)) * (e * A1)
          + (g + 2 * e) * (e * e * A2) + g * (e * e * e * A3) := by ring
    _ ≤ (1 + g) / 2 * A0 + (1 + g) / 2 * (e * A1) + (1 + g) / 2 * (e * e * A2) + (1 + g) / 2 * (e * e * e * A3) := by
        have := mul_le_mul_of_nonneg_right k0 hA0
        have := mul_le_mul_of_nonneg_right k1 (mul_nonneg he0.le hA1)
        have := mul_le_mul_of_nonneg_right k2 (mul_nonneg hee hA2)
        have := mul_le_mul_of_nonneg_right k3 (mul_nonneg heee hA3)
        linarith
    _ = (1 + g) / 2 * (A0 + e * A1 + e * e * A2 + e * e * e * A3) := by ring

theorem ladder_zero (g : α) (s : α × α × α × α) (k : Nat) :
    lagLadder g s (List.replicate (k + 1) 0) = lagLadder g (zstep g s) (List.replicate k 0) := by
  simp only [List.replicate_succ, lagLadder, List.foldl_cons, zstep, nat_eq, Nat.cast_one, mul_zero, zero_add]

/-- k steps with input 0 shrink the norm by ρ^k -/
theorem ladder_zero_decay (g : α) (hg0 : 0 ≤ g) (hg1 : g < 1) (s : α × α × α × α) (k : Nat) :
    V ((1 - g) / 8) (lagLadder g s (List.replicate k 0)) ≤ ((1 + g) / 2) ^ k * V ((1 - g) / 8) s := by
  induction k generalizing s with
  | zero => simp [lagLadder]
  | succ k ih =>
    rw [ladder_zero]
    have hρ : 0 ≤ (1 + g) / 2 := by linarith
    calc V ((1 - g) / 8) (lagLadder g (zstep g s) (List.replicate k 0))
        ≤ ((1 + g) / 2) ^ k * V ((1 - g) / 8) (zstep g s) := ih _
      _ ≤ ((1 + g) / 2) ^ k * ((1 + g) / 2 * V ((1 - g) / 8) s) :=
          mul_le_mul_of_nonneg_left (zstep_contracts g hg0 hg1 s) (pow_nonneg hρ k)
      _ = ((1 + g) / 2) ^ (k + 1) * V ((1 - g) / 8) s := by ring

theorem lin_self_zero (t : List α) : Linear.lin (1 : α) (-1) t t = List.replicate t.length 0 := by
  induction t with
  | nil => rfl
  | cons x r ih =>
    simp only [Linear.lin, List.zipWith_cons_cons, List.length_cons, List.replicate_succ] at ih ⊢
    rw [ih]; congr 1; ring

/-- componentwise difference of two ladder states -/
def D (s t : α × α × α × α) : α × α × α × α := (s.1 - t.1, s.2.1 - t.2.1, s.2.2.1 - t.2.2.1, s.2.2.2 - t.2.2.2)

/-- **fading memory of the Laguerre ladder**: two runs that receive the same inputs `t` from some point on — their stage
differences, measured in the weighted norm, shrink by ρ = (1+γ)/2 at every step: geometric convergence, for every 0 ≤ γ < 1 -/
theorem ladder_fading (g : α) (hg0 : 0 ≤ g) (hg1 : g < 1) (s1 s2 : α × α × α × α) (t : List α) :
    V ((1 - g) / 8) (D (lagLadder g s1 t) (lagLadder g s2 t)) ≤ ((1 + g) / 2) ^ t.length * V ((1 - g) / 8) (D s1 s2) := by
  have hlin := Linear.ladder_lin g 1 (-1) s1 s2 t t rfl
  have hz := lin_self_zero t
  have e1 : D (lagLadder g s1 t) (lagLadder g s2 t) = lagLadder g (D s1 s2) (List.replicate t.length 0) := by
    rw [← hz]
    have : D s1 s2 = (1 * s1.1 + -1 * s2.1, 1 * s1.2.1 + -1 * s2.2.1, 1 * s1.2.2.1 + -1 * s2.2.2.1, 1 * s1.2.2.2 + -1 * s2.2.2.2) := by
      simp only [D]; refine Prod.ext (by ring) (Prod.ext (by ring) (Prod.ext (by ring) (by ring)))
    rw [this, hlin]
    simp only [D]; refine Prod.ext (by ring) (Prod.ext (by ring) (Prod.ext (by ring) (by ring)))
  rw [e1]
  exact ladder_zero_decay g hg0 hg1 (D s1 s2) t.length

/-- the difference of the two outputs (L0 + 2L1 + 2L2 + L3)/6 is dominated by the norm of the stage differences -/
theorem out_diff_le (g : α) (hg0 : 0 ≤ g) (hg1 : g < 1) (s t : α × α × α × α) :
    |(s.1 + 2 * s.2.1 + 2 * s.2.2.1 + s.2.2.2) / 6 - (t.1 + 2 * t.2.1 + 2 * t.2.2.1 + t.2.2.2) / 6| * (((1 - g) / 8) * ((1 - g) / 8) * ((1 - g) / 8))
      ≤ V ((1 - g) / 8) (D s t) := by
  set e := (1 - g) / 8 with he
  have he0 : 0 < e := by rw [he]; linarith
  have he1 : e ≤ 1 / 8 := by rw [he]; linarith
  simp only [V, D]
  set d0 := s.1 - t.1; set d1 := s.2.1 - t.2.1; set d2 := s.2.2.1 - t.2.2.1; set d3 := s.2.2.2 - t.2.2.2
  have e0 : (s.1 + 2 * s.2.1 + 2 * s.2.2.1 + s.2.2.2) / 6 - (t.1 + 2 * t.2.1 + 2 * t.2.2.1 + t.2.2.2) / 6
      = (d0 + 2 * d1 + 2 * d2 + d3) / 6 := by ring
  rw [e0]
  have hb : |(d0 + 2 * d1 + 2 * d2 + d3) / 6| ≤ |d0| + |d1| + |d2| + |d3| := by
    rw [abs_div, show |(6 : α)| = 6 by norm_num, div_le_iff₀ (by norm_num : (0 : α) < 6)]
    have h1 : |d0 + 2 * d1 + 2 * d2 + d3| ≤ |d0| + 2 * |d1| + 2 * |d2| + |d3| := by
      calc |d0 + 2 * d1 + 2 * d2 + d3| ≤ |d0 + 2 * d1 + 2 * d2| + |d3| := abs_add_le _ _
        _ ≤ |d0 + 2 * d1| + |2 * d2| + |d3| := by gcongr; exact abs_add_le _ _
        _ ≤ |d0| + |2 * d1| + |2 * d2| + |d3| := by gcongr; exact abs_add_le _ _
        _ = |d0| + 2 * |d1| + 2 * |d2| + |d3| := by rw [abs_mul, abs_mul]; norm_num
    have := abs_nonneg d0; have := abs_nonneg d1; have := abs_nonneg d2; have := abs_nonneg d3
    linarith
  have a0 := abs_nonneg d0; have a1 := abs_nonneg d1; have a2 := abs_nonneg d2; have a3 := abs_nonneg d3
  have hee : 0 ≤ e * e := by positivity
  have heee : 0 ≤ e * e * e := by positivity
  have h3 : e * e * e ≤ e * e := by nlinarith
  have h2 : e * e ≤ e := by nlinarith
  have h1' : e ≤ 1 := by linarith
  calc |(d0 + 2 * d1 + 2 * d2 + d3) / 6| * (e * e * e) ≤ (|d0| + |d1| + |d2| + |d3|) * (e * e * e) :=
        mul_le_mul_of_nonneg_right hb heee
    _ = e * e * e * |d0| + e * e * e * |d1| + e * e * e * |d2| + e * e * e * |d3| := by ring
    _ ≤ |d0| + e * |d1| + e * e * |d2| + e * e * e * |d3| := by
        have := mul_le_mul_of_nonneg_right (show e * e * e ≤ 1 by nlinarith) a0
        have := mul_le_mul_of_nonneg_right (show e * e * e ≤ e by nlinarith) a1
        have := mul_le_mul_of_nonneg_right h3 a2
        linarith

end SF.LagfStable
