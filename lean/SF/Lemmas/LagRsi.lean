import SF.Lemmas.Lagf
/- LaguerreRSI: after two zero-fill steps the four (length-≤3) deques hold the Laguerre ladder started from zeros;
   value = CU/(CU+CD), held while CU+CD = 0. -/
namespace SF.LagRsi
open SF SF.Spec
set_option linter.unusedSectionVars false
set_option linter.unusedSimpArgs false
variable {α : Type} [Field α] [LinearOrder α] [IsStrictOrderedRing α] [FloatLike α] [ExactScalar α]

/-- the spec's fold step -/
def stepS (g : α) (acc : (α × α × α × α) × Option α) (x : α) : (α × α × α × α) × Option α :=
  let s := lagLadder g acc.1 [x]
  let up := fun (a b : α) => if b ≤ a then a - b else nat 0
  let dn := fun (a b : α) => if b ≤ a then nat 0 else b - a
  let cu := up s.1 s.2.1 + up s.2.1 s.2.2.1 + up s.2.2.1 s.2.2.2
  let cd := dn s.1 s.2.1 + dn s.2.1 s.2.2.1 + dn s.2.2.1 s.2.2.2
  (s, if cu + cd == nat 0 then acc.2 else some (cu / (cu + cd)))

theorem spec_eq (N : Nat) (xs : List α) :
    Spec.laguerreRsi N xs = ((xs.drop 2).foldl (stepS (nat 2 / (nat N + nat 1))) ((nat 0, nat 0, nat 0, nat 0), none)).2 := by
  simp only [Spec.laguerreRsi, stepS]
  rfl

/-- a deque holding `v` as its newest element after one or two older entries -/
def Holds (l : List α) (v : α) : Prop := ∃ p : List α, l = p ++ [v] ∧ 1 ≤ p.length ∧ p.length ≤ 2

structure Inv (N : Nat) (s : LagRsiState α) (xs : List α) : Prop where
  hlen : s.l0s.length = s.l1s.length ∧ s.l0s.length = s.l2s.length ∧ s.l0s.length = s.l3s.length
  hsmall : xs.length < 2 → s.l0s = List.replicate xs.length (nat 0) ∧ s.l1s = List.replicate xs.length (nat 0) ∧
    s.l2s = List.replicate xs.length (nat 0) ∧ s.l3s = List.replicate xs.length (nat 0) ∧ s.value = none
  hbig : 2 ≤ xs.length →
    let st := (xs.drop 2).foldl (stepS (nat 2 / (nat N + nat 1))) ((nat 0, nat 0, nat 0, nat 0), none)
    Holds s.l0s st.1.1 ∧ Holds s.l1s st.1.2.1 ∧ Holds s.l2s st.1.2.2.1 ∧ Holds s.l3s st.1.2.2.2 ∧ s.value = st.2

/-- after the optional pop every deque is `[older, current]` -/
theorem holds_popped (l : List α) (v : α) (h : Holds l v) :
    ∃ e, (if 3 ≤ l.length then l.tail else l) = [e, v] := by
  obtain ⟨p, rfl, h1, h2⟩ := h
  match p, h1, h2 with
  | [a], _, _ => exact ⟨a, rfl⟩
  | [a, b], _, _ => exact ⟨b, rfl⟩

theorem holds_length (l : List α) (v : α) (h : Holds l v) : l.length = 2 ∨ l.length = 3 := by
  obtain ⟨p, rfl, h1, h2⟩ := h
  simp; omega

/-- the value computation of one step -/
def cucd (x0 x1 x2 x3 : α) : α × α :=
  let up := fun (a b : α) => if b ≤ a then a - b else nat 0
  let dn := fun (a b : α) => if b ≤ a then nat 0 else b - a
  (up x0 x1 + up x1 x2 + up x2 x3, dn x0 x1 + dn x1 x2 + dn x2 x3)

theorem model_cucd (x0 x1 x2 x3 : α) :
    (let c1 : α × α := if x1 ≤ x0 then (x0 - x1, nat 0) else (nat 0, x1 - x0)
     let c2 : α × α := if x2 ≤ x1 then (c1.1 + (x1 - x2), c1.2) else (c1.1, c1.2 + (x2 - x1))
     let c3 : α × α := if x3 ≤ x2 then (c2.1 + (x2 - x3), c2.2) else (c2.1, c2.2 + (x3 - x2))
     c3) = cucd x0 x1 x2 x3 := by
  simp only [cucd, nat_eq, Nat.cast_zero]
  by_cases h1 : x1 ≤ x0 <;> by_cases h2 : x2 ≤ x1 <;> by_cases h3 : x3 ≤ x2 <;>
    (simp only [h1, h2, h3, if_true, if_false, Prod.mk.injEq]; constructor <;> first | ring | simp)

theorem step_ok (N : Nat) (s : LagRsiState α) (xs : List α) (x : α) (h : Inv N s xs) :
    ∃ s', (lagRsiCore N).step s x = .ok s' ∧ Inv N s' (xs ++ [x]) := by
  obtain ⟨⟨hl1, hl2, hl3⟩, hsmall, hbig⟩ := h
  by_cases hlt : xs.length < 2
  · obtain ⟨e0, e1, e2, e3, hv⟩ := hsmall hlt
    have hlen0 : s.l0s.length = xs.length := by rw [e0]; simp
    have hno3 : ¬ 3 ≤ s.l0s.length := by omega
    have hlt2 : s.l0s.length < 2 := by omega
    refine ⟨{ s with l0s := s.l0s ++ [nat 0], l1s := s.l1s ++ [nat 0], l2s := s.l2s ++ [nat 0], l3s := s.l3s ++ [nat 0] }, ?_, ?_⟩
    · simp only [lagRsiCore, hno3, if_false, hlt2, if_true, pure, Except.pure]
    · refine ⟨by simp [hl1, hl2, hl3, ← hl1, ← hl2, ← hl3], fun h2 => ?_, fun h2 => ?_⟩
      · simp only [List.length_append, List.length_singleton] at h2 ⊢
        refine ⟨by rw [e0, List.replicate_succ']; , by rw [e1, List.replicate_succ'], by rw [e2, List.replicate_succ'],
          by rw [e3, List.replicate_succ'], hv⟩
      · have hx1 : xs.length = 1 := by simp at h2; omega
        have hd : (xs ++ [x]).drop 2 = [] := by apply List.drop_eq_nil_of_le; simp [hx1]
        simp only [hd, List.foldl_nil]
        rw [hx1] at e0 e1 e2 e3
        refine ⟨⟨[nat 0], by rw [e0]; rfl, by simp, by simp⟩, ⟨[nat 0], by rw [e1]; rfl, by simp, by simp⟩,
          ⟨[nat 0], by rw [e2]; rfl, by simp, by simp⟩, ⟨[nat 0], by rw [e3]; rfl, by simp, by simp⟩, hv⟩
  · have hge : 2 ≤ xs.length := by omega
    obtain ⟨h0, h1, h2, h3, hv⟩ := hbig hge
    set g : α := nat 2 / (nat N + nat 1) with hg
    set st := (xs.drop 2).foldl (stepS g) ((nat 0, nat 0, nat 0, nat 0), none) with hst
    obtain ⟨a0, ha0⟩ := holds_popped _ _ h0
    obtain ⟨a1, ha1⟩ := holds_popped _ _ h1
    obtain ⟨a2, ha2⟩ := holds_popped _ _ h2
    obtain ⟨a3, ha3⟩ := holds_popped _ _ h3
    rw [← hl1] at ha1; rw [← hl2] at ha2; rw [← hl3] at ha3
    -- the new ladder values
    set L0 := st.1.1; set L1 := st.1.2.1; set L2 := st.1.2.2.1; set L3 := st.1.2.2.2
    set n0 := (nat 1 - g) * x + g * L0 with hn0
    set n1 := -g * n0 + L0 + g * L1 with hn1
    set n2 := -g * n1 + L1 + g * L2 with hn2
    set n3 := -g * n2 + L2 + g * L3 with hn3
    have hdrop : (xs ++ [x]).drop 2 = xs.drop 2 ++ [x] := by rw [List.drop_append_of_le_length hge]
    have hnew : ((xs ++ [x]).drop 2).foldl (stepS g) ((nat 0, nat 0, nat 0, nat 0), none) = stepS g st x := by
      rw [hdrop, List.foldl_append]; rfl
    have hlad : lagLadder g st.1 [x] = (n0, n1, n2, n3) := by
      simp only [lagLadder, List.foldl_cons, List.foldl_nil]
      rfl
    have hval : (stepS g st x) = ((n0, n1, n2, n3),
        if (cucd n0 n1 n2 n3).1 + (cucd n0 n1 n2 n3).2 == nat 0 then st.2
        else some ((cucd n0 n1 n2 n3).1 / ((cucd n0 n1 n2 n3).1 + (cucd n0 n1 n2 n3).2))) := by
      simp only [stepS, hlad, cucd]
    -- the model's step, written out on the popped two-element deques
    by_cases hc3 : 3 ≤ s.l0s.length
    · simp only [if_pos hc3] at ha0 ha1 ha2 ha3
      refine ⟨{ value := (if (cucd n0 n1 n2 n3).1 + (cucd n0 n1 n2 n3).2 == nat 0 then s.value
                          else some ((cucd n0 n1 n2 n3).1 / ((cucd n0 n1 n2 n3).1 + (cucd n0 n1 n2 n3).2))),
                l0s := [a0, L0, n0], l1s := [a1, L1, n1], l2s := [a2, L2, n2], l3s := [a3, L3, n3] }, ?_, ?_⟩
      · simp only [lagRsiCore, hc3, if_true, ha0, ha1, ha2, ha3, List.length_cons, List.length_nil, usub, getIdx, bind,
          Except.bind, pure, Except.pure, ← hg]
        simp only [Nat.reduceLeDiff, Nat.lt_irrefl, if_true, if_false, List.cons_append, List.nil_append,
          List.getElem?_cons_succ, List.getElem?_cons_zero, Nat.reduceSub, Nat.reduceAdd, List.length_cons, List.length_nil,
          show ¬ (0 + 1 + 1 < 2) by omega]
        have := model_cucd n0 n1 n2 n3
        simp only at this
        rw [this]
        by_cases hz : (cucd n0 n1 n2 n3).1 + (cucd n0 n1 n2 n3).2 = 0 <;> simp [hz, assertFinite_exact, bind, Except.bind, pure, Except.pure]
      · refine ⟨by simp, fun h2 => by simp at h2; omega, fun _ => ?_⟩
        rw [hnew, hval]
        exact ⟨⟨[a0, L0], rfl, by simp, by simp⟩, ⟨[a1, L1], rfl, by simp, by simp⟩, ⟨[a2, L2], rfl, by simp, by simp⟩,
          ⟨[a3, L3], rfl, by simp, by simp⟩, by simp only [hv]⟩
    · simp only [if_neg hc3] at ha0 ha1 ha2 ha3
      refine ⟨{ value := (if (cucd n0 n1 n2 n3).1 + (cucd n0 n1 n2 n3).2 == nat 0 then s.value
                          else some ((cucd n0 n1 n2 n3).1 / ((cucd n0 n1 n2 n3).1 + (cucd n0 n1 n2 n3).2))),
                l0s := [a0, L0, n0], l1s := [a1, L1, n1], l2s := [a2, L2, n2], l3s := [a3, L3, n3] }, ?_, ?_⟩
      · simp only [lagRsiCore, hc3, if_false, ha0, ha1, ha2, ha3, List.length_cons, List.length_nil, usub, getIdx, bind,
          Except.bind, pure, Except.pure, ← hg]
        simp only [Nat.reduceLeDiff, Nat.lt_irrefl, if_true, if_false, List.cons_append, List.nil_append,
          List.getElem?_cons_succ, List.getElem?_cons_zero, Nat.reduceSub, Nat.reduceAdd, List.length_cons, List.length_nil,
          show ¬ (0 + 1 + 1 < 2) by omega]
        have := model_cucd n0 n1 n2 n3
        simp only at this
        rw [this]
        by_cases hz : (cucd n0 n1 n2 n3).1 + (cucd n0 n1 n2 n3).2 = 0 <;> simp [hz, assertFinite_exact, bind, Except.bind, pure, Except.pure]
      · refine ⟨by simp, fun h2 => by simp at h2; omega, fun _ => ?_⟩
        rw [hnew, hval]
        exact ⟨⟨[a0, L0], rfl, by simp, by simp⟩, ⟨[a1, L1], rfl, by simp, by simp⟩, ⟨[a2, L2], rfl, by simp, by simp⟩,
          ⟨[a3, L3], rfl, by simp, by simp⟩, by simp only [hv]⟩

end SF.LagRsi
