import SF.Lemmas.Lagf
/- LaguerreRSI: after two zero-fill steps the four (length-≤3) deques hold the Laguerre ladder started from zeros;
   value = CU/(CU+CD), held while CU+CD = 0; the value lies in [0,1]; at most 12 stored entries. -/
namespace SF.LagRsi
open SF SF.Spec
set_option linter.unusedSectionVars false
set_option linter.unusedSimpArgs false
variable {α : Type} [Field α] [LinearOrder α] [IsStrictOrderedRing α] [FloatLike α] [ExactScalar α]

def cucd (x0 x1 x2 x3 : α) : α × α :=
  let up := fun (a b : α) => if b ≤ a then a - b else nat 0
  let dn := fun (a b : α) => if b ≤ a then nat 0 else b - a
  (up x0 x1 + up x1 x2 + up x2 x3, dn x0 x1 + dn x1 x2 + dn x2 x3)

theorem model_cucd (x0 x1 x2 x3 : α) : lagRsiCuCd x0 x1 x2 x3 = cucd x0 x1 x2 x3 := by
  unfold lagRsiCuCd cucd
  have h0 : (nat 0 : α) = 0 := by simp [nat_eq]
  rw [h0]
  by_cases h1 : x1 ≤ x0 <;> by_cases h2 : x2 ≤ x1 <;> by_cases h3 : x3 ≤ x2 <;>
    simp only [h1, h2, h3, if_true, if_false, Prod.mk.injEq, add_zero, zero_add]

theorem push_two (g : α) (v : Option α) (a0 a1 a2 a3 L0 L1 L2 L3 x : α) :
    lagRsiPush g { value := v, l0s := [a0, L0], l1s := [a1, L1], l2s := [a2, L2], l3s := [a3, L3] } x =
      .ok (let n0 := (nat 1 - g) * x + g * L0
           let n1 := -g * n0 + L0 + g * L1
           let n2 := -g * n1 + L1 + g * L2
           let n3 := -g * n2 + L2 + g * L3
           { value := v, l0s := [a0, L0, n0], l1s := [a1, L1, n1], l2s := [a2, L2, n2], l3s := [a3, L3, n3] }) := by
  simp [lagRsiPush, usub, getIdx, bind, Except.bind, pure, Except.pure]

theorem emit_three (v : Option α) (a0 a1 a2 a3 b0 b1 b2 b3 n0 n1 n2 n3 : α) :
    lagRsiEmit { value := v, l0s := [a0, b0, n0], l1s := [a1, b1, n1], l2s := [a2, b2, n2], l3s := [a3, b3, n3] } =
      .ok { value := (if (cucd n0 n1 n2 n3).1 + (cucd n0 n1 n2 n3).2 == nat 0 then v
                      else some ((cucd n0 n1 n2 n3).1 / ((cucd n0 n1 n2 n3).1 + (cucd n0 n1 n2 n3).2))),
            l0s := [a0, b0, n0], l1s := [a1, b1, n1], l2s := [a2, b2, n2], l3s := [a3, b3, n3] } := by
  simp only [lagRsiEmit, usub, getIdx, bind, Except.bind, pure, Except.pure, List.length_cons, List.length_nil, model_cucd]
  by_cases hz : (cucd n0 n1 n2 n3).1 + (cucd n0 n1 n2 n3).2 = 0
  · simp [hz, nat_eq]
  · simp [hz, assertFinite_exact, nat_eq]

/-- the spec's fold step -/
def stepS (g : α) (acc : (α × α × α × α) × Option α) (x : α) : (α × α × α × α) × Option α :=
  let s := lagLadder g acc.1 [x]
  let up := fun (a b : α) => if b ≤ a then a - b else nat 0
  let dn := fun (a b : α) => if b ≤ a then nat 0 else b - a
  let cu := up s.1 s.2.1 + up s.2.1 s.2.2.1 + up s.2.2.1 s.2.2.2
  let cd := dn s.1 s.2.1 + dn s.2.1 s.2.2.1 + dn s.2.2.1 s.2.2.2
  (s, if cu + cd == nat 0 then acc.2 else some (cu / (cu + cd)))

theorem spec_eq (N : Nat) (xs : List α) :
    Spec.laguerreRsi N xs = ((xs.drop 2).foldl (stepS (nat 2 / (nat N + nat 1))) ((nat 0, nat 0, nat 0, nat 0), none)).2 := by
  simp only [Spec.laguerreRsi, stepS]
  rfl

def specState (N : Nat) (xs : List α) : (α × α × α × α) × Option α :=
  (xs.drop 2).foldl (stepS (nat 2 / (nat N + nat 1))) ((nat 0, nat 0, nat 0, nat 0), none)

def zeros (k : Nat) : LagRsiState α :=
  { value := none, l0s := List.replicate k (nat 0), l1s := List.replicate k (nat 0), l2s := List.replicate k (nat 0),
    l3s := List.replicate k (nat 0) }

structure Inv (N : Nat) (s : LagRsiState α) (xs : List α) : Prop where
  hsmall : xs.length < 2 → s = zeros xs.length
  hbig : 2 ≤ xs.length → ∃ a0 a1 a2 a3 : α, lagRsiTrim s =
    { value := (specState N xs).2, l0s := [a0, (specState N xs).1.1], l1s := [a1, (specState N xs).1.2.1],
      l2s := [a2, (specState N xs).1.2.2.1], l3s := [a3, (specState N xs).1.2.2.2] }
  hlen : s.l0s.length ≤ 3 ∧ s.l1s.length ≤ 3 ∧ s.l2s.length ≤ 3 ∧ s.l3s.length ≤ 3

theorem specState_snoc (N : Nat) (xs : List α) (x : α) (h : 2 ≤ xs.length) :
    specState N (xs ++ [x]) = stepS (nat 2 / (nat N + nat 1)) (specState N xs) x := by
  unfold specState
  rw [List.drop_append_of_le_length h, List.foldl_append]; rfl

theorem step_ok (N : Nat) (s : LagRsiState α) (xs : List α) (x : α) (h : Inv N s xs) :
    ∃ s', (lagRsiCore N).step s x = .ok s' ∧ Inv N s' (xs ++ [x]) := by
  obtain ⟨hsmall, hbig, hlen⟩ := h
  by_cases hlt : xs.length < 2
  · have hs := hsmall hlt
    subst hs
    have htrim : lagRsiTrim (zeros (α := α) xs.length) = zeros xs.length := by
      unfold lagRsiTrim zeros; simp; omega
    refine ⟨zeros (xs.length + 1), ?_, ?_, ?_, ?_⟩
    · show (let s := lagRsiTrim (zeros xs.length); if s.l0s.length < 2 then pure (lagRsiFill s) else _) = _
      simp only [htrim]
      rw [if_pos (by simp [zeros]; exact hlt)]
      simp only [lagRsiFill, zeros, List.replicate_succ', pure, Except.pure]
      rfl
    · intro h2; simp at h2 ⊢
    · intro h2
      have hx1 : xs.length = 1 := by simp at h2; omega
      have hd : (xs ++ [x]).drop 2 = [] := by apply List.drop_eq_nil_of_le; simp [hx1]
      refine ⟨nat 0, nat 0, nat 0, nat 0, ?_⟩
      simp [specState, hd, hx1, lagRsiTrim, zeros, List.replicate]
    · simp [zeros]; omega
  · have hge : 2 ≤ xs.length := by omega
    obtain ⟨a0, a1, a2, a3, ht⟩ := hbig hge
    set st := specState N xs with hst
    set g : α := nat 2 / (nat N + nat 1) with hg
    have hstep : (lagRsiCore N).step s x = (lagRsiPush g (lagRsiTrim s) x >>= lagRsiEmit) := by
      show (let s := lagRsiTrim s; if s.l0s.length < 2 then pure (lagRsiFill s) else _) = _
      simp only [ht]
      rw [if_neg (by simp)]
    rw [hstep, ht, push_two]
    simp only [bind, Except.bind]
    rw [emit_three]
    refine ⟨_, rfl, ?_, ?_, ?_⟩
    · intro h2; simp at h2; omega
    · intro _
      refine ⟨st.1.1, st.1.2.1, st.1.2.2.1, st.1.2.2.2, ?_⟩
      rw [specState_snoc N xs x hge, ← hst, ← hg]
      simp [lagRsiTrim, stepS, lagLadder, cucd]
    · simp

theorem init_inv (N : Nat) : Inv N (lagRsiCore (α := α) N).init [] :=
  ⟨fun _ => by simp [lagRsiCore, zeros], fun h => by simp at h, by simp [lagRsiCore]⟩

theorem run_ok (N : Nat) (xs : List α) :
    ∃ s, (lagRsiCore (α := α) N).run (lagRsiCore (α := α) N).init xs = .ok s ∧ Inv N s xs :=
  Core.run_invariant_init (lagRsiCore N) (Inv N) (init_inv N) (fun s pre x h => step_ok N s pre x h) xs

theorem trim_value (s : LagRsiState α) : (lagRsiTrim s).value = s.value := by
  unfold lagRsiTrim; split <;> rfl

theorem out_eq (N : Nat) (s : LagRsiState α) (xs : List α) (h : Inv N s xs) :
    (lagRsiCore N).out s = .ok (Spec.laguerreRsi N xs) := by
  show pure s.value = _
  rw [spec_eq]
  by_cases hlt : xs.length < 2
  · rw [h.hsmall hlt]
    have hd : xs.drop 2 = [] := List.drop_eq_nil_of_le (by omega)
    simp [zeros, hd, pure, Except.pure]
  · obtain ⟨a0, a1, a2, a3, ht⟩ := h.hbig (by omega)
    have := trim_value s
    rw [ht] at this
    simp only at this
    rw [← this]; rfl

/-- LaguerreRSI: every `last()` equals the batch definition (ladder from zeros after two fill steps, CU/(CU+CD), held) -/
theorem outAfter_eq (N : Nat) (xs : List α) :
    (lagRsiCore (α := α) N).outAfter xs = .ok (Spec.laguerreRsi N xs) :=
  Core.outAfter_of_inv _ (Inv N) (Spec.laguerreRsi N) (run_ok N) (fun s xs h => out_eq N s xs h) xs

/-- at most three entries in each of the four ladder deques, whatever the stream length -/
theorem size_le (N : Nat) (xs : List α) (s : LagRsiState α)
    (h : (lagRsiCore (α := α) N).run (lagRsiCore (α := α) N).init xs = .ok s) : (lagRsiCore (α := α) N).size s ≤ 12 := by
  obtain ⟨s', hs, hi⟩ := run_ok (α := α) N xs
  rw [h] at hs; cases hs
  obtain ⟨h0, h1, h2, h3⟩ := hi.hlen
  show s.l0s.length + s.l1s.length + s.l2s.length + s.l3s.length ≤ 12
  omega

/-! range: CU, CD ≥ 0, so the held value lies in [0,1] -/
theorem cucd_nonneg (x0 x1 x2 x3 : α) : 0 ≤ (cucd x0 x1 x2 x3).1 ∧ 0 ≤ (cucd x0 x1 x2 x3).2 := by
  have up : ∀ a b : α, 0 ≤ (if b ≤ a then a - b else nat 0) := by
    intro a b; split
    · linarith
    · simp [nat_eq]
  have dn : ∀ a b : α, 0 ≤ (if b ≤ a then nat 0 else b - a) := by
    intro a b; split
    · simp [nat_eq]
    · linarith
  constructor
  · exact add_nonneg (add_nonneg (up _ _) (up _ _)) (up _ _)
  · exact add_nonneg (add_nonneg (dn _ _) (dn _ _)) (dn _ _)

theorem stepS_range (g : α) (acc : (α × α × α × α) × Option α) (x : α)
    (h : ∀ v, acc.2 = some v → 0 ≤ v ∧ v ≤ 1) : ∀ v, (stepS g acc x).2 = some v → 0 ≤ v ∧ v ≤ 1 := by
  intro v hv
  have hs : (stepS g acc x).2 =
      (let c := cucd (lagLadder g acc.1 [x]).1 (lagLadder g acc.1 [x]).2.1 (lagLadder g acc.1 [x]).2.2.1 (lagLadder g acc.1 [x]).2.2.2
       if c.1 + c.2 == nat 0 then acc.2 else some (c.1 / (c.1 + c.2))) := rfl
  rw [hs] at hv
  obtain ⟨hcu, hcd⟩ := cucd_nonneg (lagLadder g acc.1 [x]).1 (lagLadder g acc.1 [x]).2.1 (lagLadder g acc.1 [x]).2.2.1 (lagLadder g acc.1 [x]).2.2.2
  generalize cucd (lagLadder g acc.1 [x]).1 (lagLadder g acc.1 [x]).2.1 (lagLadder g acc.1 [x]).2.2.1 (lagLadder g acc.1 [x]).2.2.2 = c at hv hcu hcd
  simp only at hv
  by_cases hz : c.1 + c.2 = 0
  · rw [if_pos (by simp [hz, nat_eq])] at hv
    exact h v hv
  · rw [if_neg (by simp [hz, nat_eq])] at hv
    cases hv
    have hpos : 0 < c.1 + c.2 := lt_of_le_of_ne (add_nonneg hcu hcd) (Ne.symm hz)
    exact ⟨div_nonneg hcu hpos.le, by rw [div_le_one hpos]; linarith⟩

/-- LaguerreRSI ∈ [0,1] for every history -/
theorem range (N : Nat) (xs : List α) (v : α) (h : Spec.laguerreRsi N xs = some v) : 0 ≤ v ∧ v ≤ 1 := by
  rw [spec_eq] at h
  suffices H : ∀ (l : List α) (acc : (α × α × α × α) × Option α), (∀ v, acc.2 = some v → 0 ≤ v ∧ v ≤ 1) →
      ∀ v, (l.foldl (stepS (nat 2 / (nat N + nat 1))) acc).2 = some v → 0 ≤ v ∧ v ≤ 1 from
    H _ _ (by intro v hv; cases hv) v h
  intro l
  induction l with
  | nil => intro acc ha v hv; exact ha v hv
  | cons x l ih => intro acc ha v hv; exact ih _ (stepS_range _ acc x ha) v hv

end SF.LagRsi
