import SF.Lemmas.Field
import Mathlib.Data.List.Forall2
import Mathlib.Algebra.Order.Field.Basic
/- List algebra about the batch specs: what the property statements say about "the mean of the window" etc. -/
namespace SF.Spec
open SF
set_option linter.unusedSectionVars false
variable {α : Type} [Field α] [LinearOrder α] [IsStrictOrderedRing α]

theorem lastN_map {β : Type} (n : Nat) (f : α → β) (xs : List α) : lastN n (xs.map f) = (lastN n xs).map f := by
  simp [lastN, List.map_drop]

theorem sumL_map_affine (a b : α) (xs : List α) :
    sumL (xs.map fun x => a * x + b) = a * sumL xs + b * (xs.length : α) := by
  induction xs with
  | nil => simp
  | cons x xs ih => simp [ih]; ring

theorem sumL_map_mul (a : α) (xs : List α) : sumL (xs.map fun x => a * x) = a * sumL xs := by
  have := sumL_map_affine a 0 xs
  simpa using this

theorem sumL_zipWith_lin (a b : α) (xs ys : List α) (h : xs.length = ys.length) :
    sumL (List.zipWith (fun x y => a * x + b * y) xs ys) = a * sumL xs + b * sumL ys := by
  induction xs generalizing ys with
  | nil => cases ys <;> simp_all
  | cons x xs ih =>
    cases ys with
    | nil => simp at h
    | cons y ys => simp at h; simp [ih ys h]; ring

theorem sumL_const (c : α) (n : Nat) : sumL (List.replicate n c) = (n : α) * c := by
  induction n with
  | zero => simp
  | succ n ih => simp [List.replicate_succ, ih]; ring

theorem sumL_le_of_forall_le (hi : α) (xs : List α) (h : ∀ x ∈ xs, x ≤ hi) : sumL xs ≤ (xs.length : α) * hi := by
  induction xs with
  | nil => simp
  | cons x xs ih =>
    have h1 := h x (by simp)
    have h2 := ih (fun y hy => h y (by simp [hy]))
    simp; linarith

theorem sumL_ge_of_forall_ge (lo : α) (xs : List α) (h : ∀ x ∈ xs, lo ≤ x) : (xs.length : α) * lo ≤ sumL xs := by
  induction xs with
  | nil => simp
  | cons x xs ih =>
    have h1 := h x (by simp)
    have h2 := ih (fun y hy => h y (by simp [hy]))
    simp; linarith

theorem sumL_mono (xs ys : List α) (h : List.Forall₂ (· ≤ ·) xs ys) : sumL xs ≤ sumL ys := by
  induction h with
  | nil => simp
  | cons hab _ ih => simp; linarith

/-- the mean of a non-empty list lies between any lower and upper bound of its elements -/
theorem mean_mem_Icc (w : List α) (hw : w ≠ []) (lo hi : α) (hlo : ∀ x ∈ w, lo ≤ x) (hhi : ∀ x ∈ w, x ≤ hi) :
    lo ≤ sumL w / (w.length : α) ∧ sumL w / (w.length : α) ≤ hi := by
  have hpos : (0 : α) < (w.length : α) := by
    have : 0 < w.length := List.length_pos_of_ne_nil hw
    exact_mod_cast this
  constructor
  · rw [le_div_iff₀ hpos]; have := sumL_ge_of_forall_ge lo w hlo; linarith
  · rw [div_le_iff₀ hpos]; have := sumL_le_of_forall_le hi w hhi; linarith

theorem lastN_forall₂ {R : α → α → Prop} (n : Nat) (xs ys : List α) (h : List.Forall₂ R xs ys) :
    List.Forall₂ R (lastN n xs) (lastN n ys) := by
  have hl := h.length_eq
  simp only [lastN, hl]
  exact List.forall₂_drop _ h

end SF.Spec
