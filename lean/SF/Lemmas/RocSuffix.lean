import SF.Lemmas.Roc
/-
  Roc forgets everything older than N + 1 values, unless it is holding its previous output because its base is 0.
-/
namespace SF.RocSuffix
open SF SF.Spec
set_option linter.unusedSectionVars false
set_option linter.unusedSimpArgs false
variable {α : Type} [Field α] [LinearOrder α] [IsStrictOrderedRing α] [FloatLike α] [ExactScalar α] [Transc α]

/-- the newest output: 100·(x − base)/base with base = the value N steps back (the first value while fewer than N+1 exist),
or the previous output when that base is 0 -/
theorem roc_snoc (N : Nat) (x0 : α) (r : List α) (x : α) :
    Spec.roc N (x0 :: (r ++ [x])) =
      (let base := if N ≤ r.length + 1 then (x0 :: (r ++ [x]))[r.length + 1 - N]?.getD x0 else x0
       if base == nat 0 then Spec.roc N (x0 :: r) else some (nat 100 * (x - base) / base)) := by
  rw [Roc.roc_eq_fold, Roc.roc_eq_fold, show x0 :: (r ++ [x]) = (x0 :: r) ++ [x] from rfl, List.foldl_append]
  have hh : ((x0 :: r).foldl (Roc.stepR N x0) (none, [])).2 = x0 :: r := by rw [Roc.fold_hist]; simp
  generalize (x0 :: r).foldl (Roc.stepR N x0) (none, []) = F at hh ⊢
  show (Roc.stepR N x0 F x).1 = _
  simp only [Roc.stepR, hh, List.length_append, List.length_cons, List.length_singleton, Nat.add_sub_cancel]
  rfl

/-- **two histories that agree on their last N + 1 values give the same Roc, unless the base x(t−N) is 0** (then the view
is explicitly holding its previous output) -/
theorem roc_suffix (N : Nat) (xs ys : List α) (hx : N + 1 ≤ xs.length) (hy : N + 1 ≤ ys.length)
    (h : lastN (N + 1) xs = lastN (N + 1) ys) (hbase : (lastN (N + 1) xs).headD 0 ≠ 0) :
    Spec.roc N xs = Spec.roc N ys := by
  have key : ∀ zs : List α, N + 1 ≤ zs.length → (lastN (N + 1) zs).headD 0 ≠ 0 →
      Spec.roc N zs = some (nat 100 * ((lastN (N + 1) zs).getLast?.getD 0 - (lastN (N + 1) zs).headD 0) / (lastN (N + 1) zs).headD 0) := by
    intro zs hz hb
    obtain ⟨x0, t, rfl⟩ : ∃ x0 t, zs = x0 :: t := by
      cases zs with
      | nil => simp at hz
      | cons a l => exact ⟨a, l, rfl⟩
    rcases List.eq_nil_or_concat t with rfl | ⟨r, x, rfl⟩
    · -- a single value: N = 0
      have hN0 : N = 0 := by simp at hz; omega
      subst hN0
      rw [show [x0] = x0 :: ([] ++ []) from rfl] at *
      simp only [lastN, List.length_cons, List.length_nil, List.append_nil, Nat.sub_self, List.drop_zero, List.headD_cons] at hb ⊢
      rw [Roc.roc_eq_fold]
      have hb' : (x0 == (nat 0 : α)) = false := by simpa using hb
      simp [Roc.stepR, hb']
      exact hb
    · simp only [List.concat_eq_append] at *
      rw [roc_snoc]
      have hlen : (x0 :: (r ++ [x])).length = r.length + 2 := by simp
      have hNle : N ≤ r.length + 1 := by rw [hlen] at hz; omega
      have hdrop : lastN (N + 1) (x0 :: (r ++ [x])) = (x0 :: (r ++ [x])).drop (r.length + 1 - N) := by
        simp only [lastN, hlen]; congr 1; omega
      have hhead : (lastN (N + 1) (x0 :: (r ++ [x]))).headD 0 = (x0 :: (r ++ [x]))[r.length + 1 - N]?.getD x0 := by
        rw [hdrop]
        have hlt : r.length + 1 - N < (x0 :: (r ++ [x])).length := by rw [hlen]; omega
        rw [List.getElem?_eq_getElem hlt]
        rw [List.drop_eq_getElem_cons hlt]; simp
      have hlast : (lastN (N + 1) (x0 :: (r ++ [x]))).getLast?.getD 0 = x := by
        rw [hdrop, List.getLast?_drop]
        have : ¬ (x0 :: (r ++ [x])).length ≤ r.length + 1 - N := by rw [hlen]; omega
        rw [if_neg this]
        rw [show x0 :: (r ++ [x]) = (x0 :: r) ++ [x] from rfl, List.getLast?_append]; simp
      simp only [hNle, if_true]
      rw [hhead] at hb
      have hb' : ((x0 :: (r ++ [x]))[r.length + 1 - N]?.getD x0 == (nat 0 : α)) = false := by simpa using hb
      simp only [hb', Bool.false_eq_true, if_false, hhead, hlast]
  rw [key xs hx hbase, key ys hy (by rw [← h]; exact hbase), h]

end SF.RocSuffix
