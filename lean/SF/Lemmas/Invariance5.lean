import SF.Lemmas.Eft
import SF.Lemmas.SpecFacts
/-
  Invariance, part 5: the Fisher transform under x ↦ a·x + b, a > 0 (any ordered field): the window's min-max normalisation
  is affine-invariant, and everything downstream only sees the normalised value.
-/
namespace SF.Inv5
open SF SF.Spec SF.MinMax
set_option linter.unusedSectionVars false
set_option linter.unusedSimpArgs false
variable {α : Type} [Field α] [LinearOrder α] [IsStrictOrderedRing α] [FloatLike α] [ExactScalar α] [Transc α]

theorem minL_map_mono (f : α → α) (hf : StrictMono f) (l : List α) : minL (l.map f) = (minL l).map f := by
  cases hm : minL l with
  | none => have := (minL_none l).mp hm; subst this; simp [minL]
  | some m =>
    obtain ⟨hmem, hle⟩ := minL_least l m hm
    apply minL_eq_of_least
    exact ⟨List.mem_map_of_mem hmem, fun y hy => by
      obtain ⟨x, hx, rfl⟩ := List.mem_map.mp hy
      exact hf.monotone (hle x hx)⟩

theorem maxL_map_mono (f : α → α) (hf : StrictMono f) (l : List α) : maxL (l.map f) = (maxL l).map f := by
  cases hm : maxL l with
  | none => have := (maxL_none l).mp hm; subst this; simp [maxL]
  | some m =>
    obtain ⟨hmem, hle⟩ := maxL_greatest l m hm
    apply maxL_eq_of_greatest
    exact ⟨List.mem_map_of_mem hmem, fun y hy => by
      obtain ⟨x, hx, rfl⟩ := List.mem_map.mp hy
      exact hf.monotone (hle x hx)⟩

/-- the output part only sees the normalised value, which is affine-invariant -/
theorem fishEmit_affine (ma : List α → Option α) (prev : Option α) (fed : List α) (a b : α) (ha : 0 < a) (hi lo x : α) :
    Eft.fishEmit ma prev fed (a * hi + b) (a * lo + b) (a * x + b) = Eft.fishEmit ma prev fed hi lo x := by
  unfold Eft.fishEmit
  by_cases h : hi = lo
  · subst h; simp
  · have h' : a * hi + b ≠ a * lo + b := by
      intro he; apply h
      have : a * hi = a * lo := by linarith
      exact mul_left_cancel₀ ha.ne' this
    have hb : (hi == lo) = false := by simpa using h
    have hb' : (a * hi + b == a * lo + b) = false := by simpa using h'
    simp only [hb, hb', Bool.false_eq_true, if_false]
    have hd : hi - lo ≠ 0 := sub_ne_zero.mpr h
    have e : (a * x + b - (a * lo + b)) / (a * hi + b - (a * lo + b)) = (x - lo) / (hi - lo) := by
      rw [show a * x + b - (a * lo + b) = a * (x - lo) by ring, show a * hi + b - (a * lo + b) = a * (hi - lo) by ring]
      field_simp
    rw [e]

theorem fishFold_affine (N : Nat) (ma : List α → Option α) (a b : α) (ha : 0 < a) (xs : List α) :
    Eft.fishFold N ma (xs.map fun x => a * x + b)
      = ((Eft.fishFold N ma xs).1.map (fun x => a * x + b), (Eft.fishFold N ma xs).2.1, (Eft.fishFold N ma xs).2.2) := by
  have hmono : StrictMono (fun x : α => a * x + b) := by
    intro u v huv; simp only; nlinarith
  induction xs using List.reverseRecOn with
  | nil => rfl
  | append_singleton xs x ih =>
    rw [List.map_append, List.map_cons, List.map_nil, Eft.fishFold_snoc, Eft.fishFold_snoc, ih]
    simp only [Eft.fishStep]
    rw [show (Eft.fishFold N ma xs).1.map (fun x => a * x + b) ++ [a * x + b]
        = ((Eft.fishFold N ma xs).1 ++ [x]).map (fun x => a * x + b) by simp]
    rw [lastN_map, minL_map_mono _ hmono, maxL_map_mono _ hmono]
    cases minL (lastN N ((Eft.fishFold N ma xs).1 ++ [x])) with
    | none => simp
    | some lo =>
      cases maxL (lastN N ((Eft.fishFold N ma xs).1 ++ [x])) with
      | none => simp
      | some hi =>
        simp only [Option.map_some, fishEmit_affine ma _ _ a b ha]

/-- **EhlersFisherTransform is invariant under x ↦ a·x + b, a > 0**, for every smoothing average -/
theorem fisher_affine (N : Nat) (ma : List α → Option α) (a b : α) (ha : 0 < a) (xs : List α) :
    Spec.fisher N ma (xs.map fun x => a * x + b) = Spec.fisher N ma xs := by
  rw [Eft.fisher_eq_fold, Eft.fisher_eq_fold, fishFold_affine N ma a b ha]

end SF.Inv5
