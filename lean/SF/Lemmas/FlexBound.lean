import SF.Lemmas.Flex
import SF.Lemmas.Real
import Mathlib.Analysis.SpecialFunctions.Sqrt
/-
  TrendFlex / ReFlex: the normalised output d/√ms with ms = 0.04·d² + 0.96·ms₋₁ (ms₋₁ ≥ 0) can never exceed 5 in
  absolute value — whatever the input, the window length and the stream length.  (ms ≥ 0.04·d², so |d|/√ms ≤ 1/0.2.)
-/
namespace SF.FlexBound
open SF SF.Spec

/-- the fold of `flexNorm` keeps ms ≥ 0 and every reported value within [−5, 5] -/
theorem fold_inv (hold : Bool) (ds : List ℝ) :
    let r := ds.foldl (fun (acc : ℝ × Option ℝ) d =>
      let ms := dec 4 100 * sq d + dec 96 100 * acc.1
      (ms, if nat 0 < ms then some (d / Transc.sqrt ms) else if hold then acc.2 else some (nat 0))) (nat 0, none)
    0 ≤ r.1 ∧ ∀ v, r.2 = some v → |v| ≤ 5 := by
  induction ds using List.reverseRecOn with
  | nil => simp
  | append_singleton ds d ih =>
    simp only [List.foldl_append, List.foldl_cons, List.foldl_nil]
    set acc := ds.foldl _ _ with hacc
    obtain ⟨hm, hv⟩ := ih
    simp only [dec_eq, sq_eq, nat_eq, Nat.cast_ofNat, Nat.cast_zero, transc_sqrt_real]
    have hms : 0 ≤ (4 : ℝ) / 100 * (d * d) + 96 / 100 * acc.1 := by nlinarith [mul_self_nonneg d]
    refine ⟨hms, ?_⟩
    intro v hvv
    split at hvv
    · rename_i hpos
      simp only [Option.some.injEq] at hvv
      subst hvv
      set ms := (4 : ℝ) / 100 * (d * d) + 96 / 100 * acc.1 with hmsdef
      have hs : 0 < Real.sqrt ms := Real.sqrt_pos.mpr hpos
      rw [abs_div, abs_of_pos hs, div_le_iff₀ hs]
      have h1 : |d| = Real.sqrt (d * d) := by rw [← abs_mul_abs_self d, Real.sqrt_mul_self (abs_nonneg d)]
      have h2 : (5 : ℝ) * Real.sqrt ms = Real.sqrt (25 * ms) := by
        rw [Real.sqrt_mul (by norm_num : (0:ℝ) ≤ 25)]
        have : Real.sqrt 25 = 5 := by
          rw [show (25 : ℝ) = 5 ^ 2 by norm_num, Real.sqrt_sq (by norm_num)]
        rw [this]
      rw [h1, h2]
      apply Real.sqrt_le_sqrt
      rw [hmsdef]; nlinarith
    · split at hvv
      · exact hv v hvv
      · simp only [Option.some.injEq] at hvv; subst hvv; simp

theorem flexNorm_bound (hold : Bool) (ds : List ℝ) (v : ℝ) (h : flexNorm hold ds = some v) : |v| ≤ 5 :=
  (fold_inv hold ds).2 v h

/-- **|TrendFlex| ≤ 5 for every N, every input (bounded or not) and every stream length** -/
theorem trendFlex_bound (N : Nat) (xs : List ℝ) (v : ℝ) (h : Spec.trendFlex N xs = some v) : |v| ≤ 5 := by
  cases xs with
  | nil => simp [Spec.trendFlex] at h
  | cons x0 r => exact flexNorm_bound false _ v h

/-- **|ReFlex| ≤ 5 likewise** (a held output was itself ≤ 5) -/
theorem reFlex_bound (N : Nat) (xs : List ℝ) (v : ℝ) (h : Spec.reFlex N xs = some v) : |v| ≤ 5 := by
  cases xs with
  | nil => simp [Spec.reFlex] at h
  | cons x0 r => exact flexNorm_bound true _ v h

end SF.FlexBound
