import SF.Lemmas.CyberCycle
import SF.Lemmas.Linear
/-
  CyberCycle is a linear map from the input stream to the output stream: the whole output sequence of a·x + b·y is
  a·(that of x) + b·(that of y), start-up zeros included.
-/
namespace SF.CcLinear
open SF SF.Spec SF.Linear
set_option linter.unusedSectionVars false
set_option linter.unusedSimpArgs false
variable {α : Type} [Field α] [LinearOrder α] [IsStrictOrderedRing α] [FloatLike α] [ExactScalar α] [Transc α]

theorem at_lin (a b : α) (xs ys : List α) (h : xs.length = ys.length) (t : Int) :
    at' (lin a b xs ys) (nat 0) t = a * at' xs (nat 0) t + b * at' ys (nat 0) t := by
  unfold at'
  split
  · simp
  · simp only [lin, List.getElem?_zipWith]
    cases hx : xs[t.toNat]? with
    | none =>
      have : ys[t.toNat]? = none := by
        rw [List.getElem?_eq_none_iff] at hx ⊢; omega
      simp [this]
    | some u =>
      cases hy : ys[t.toNat]? with
      | none =>
        rw [List.getElem?_eq_none_iff] at hy
        have := (List.getElem?_eq_some_iff.mp hx).1
        omega
      | some v => simp

theorem smS_lin (a b : α) (xs ys : List α) (h : xs.length = ys.length) (t : Int) :
    CC.smS (lin a b xs ys) t = a * CC.smS xs t + b * CC.smS ys t := by
  unfold CC.smS
  rw [at_lin a b xs ys h t, at_lin a b xs ys h (t - 1), at_lin a b xs ys h (t - 2), at_lin a b xs ys h (t - 3)]
  simp only [nat_eq, Nat.cast_ofNat]
  ring

/-- the output sequences (newest first) combine linearly -/
theorem C_lin (N : Nat) (a b : α) (xs ys : List α) (h : xs.length = ys.length) (n : Nat) :
    CC.C N (lin a b xs ys) n = lin a b (CC.C N xs n) (CC.C N ys n) := by
  induction n with
  | zero => simp [CC.C, lin]
  | succ n ih =>
    rw [CC.C_succ, CC.C_succ, CC.C_succ, ih]
    have hlen : (CC.C N xs n).length = (CC.C N ys n).length := by rw [CC.C_length, CC.C_length]
    have hlen2 : (CC.C N xs n).tail.length = (CC.C N ys n).tail.length := by simp [hlen]
    have e3 : ∀ (u v : α) (l r : List α), lin a b (u :: l) (v :: r) = (a * u + b * v) :: lin a b l r := fun _ _ _ _ => rfl
    unfold CC.stepC
    split
    · rw [e3]; simp
    · rw [e3]
      congr 1
      have e1 := headD_lin a b _ _ hlen
      have e2 : (lin a b (CC.C N xs n) (CC.C N ys n)).tail.headD 0
          = a * (CC.C N xs n).tail.headD 0 + b * (CC.C N ys n).tail.headD 0 := by
        rw [tail_lin, headD_lin a b _ _ hlen2]
      simp only [nat_eq, Nat.cast_zero] at e1 e2 ⊢
      rw [e1, e2, smS_lin a b xs ys h, smS_lin a b xs ys h, smS_lin a b xs ys h]
      ring

/-- **CyberCycle obeys superposition at every step** -/
theorem cyberCycle_linear (N : Nat) (a b : α) (xs ys : List α) (h : xs.length = ys.length) :
    Spec.cyberCycle N (lin a b xs ys) = olin a b (Spec.cyberCycle N xs) (Spec.cyberCycle N ys) := by
  have hl : (lin a b xs ys).length = xs.length := by simp [lin, h]
  rw [CC.cyberCycle_unfold, CC.cyberCycle_unfold, CC.cyberCycle_unfold, hl, C_lin N a b xs ys h]
  cases xs with
  | nil =>
    have : ys = [] := by cases ys <;> simp_all
    subst this; simp [lin, olin]
  | cons x0 r =>
    cases ys with
    | nil => simp at h
    | cons y0 r' =>
      have e : (lin a b (x0 :: r) (y0 :: r')).isEmpty = false := by simp [lin]
      simp only [e, List.isEmpty_cons, Bool.false_eq_true, if_false]
      rw [← h]
      exact head?_lin a b _ _ (by rw [CC.C_length, CC.C_length])

end SF.CcLinear
