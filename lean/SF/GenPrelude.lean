import SF.Model.Pure
/-
  Hand-written, fixed prelude of the translator's output (`SF/Gen/*.lean`): the few Rust library functions the crate uses
  that have no counterpart in SF/Basic.lean.  Part of the trusted reading of Rust's standard library.
-/
namespace SF
variable {α : Type} [LT α] [DecidableLT α] [LE α] [DecidableLE α] [NatCast α] [Div α]

/-- `iter().copied().min_by(|a, b| a.partial_cmp(b).expect(..))`: the FIRST minimal element (`Iterator::min_by` keeps the
earlier of two equal elements); the `expect` cannot fail for non-NaN scalars -/
def minByPC : List α → Option α
  | [] => none
  | x :: r => some (r.foldl (fun m y => if y < m then y else m) x)

/-- `iter().copied().max_by(partial_cmp)`: the LAST maximal element (`Iterator::max_by` keeps the later of two equal ones) -/
def maxByPC : List α → Option α
  | [] => none
  | x :: r => some (r.foldl (fun m y => if y < m then m else y) x)

/-- `std::f64::consts::PI` = 3.141592653589793 (the shortest decimal that reads back as that double) -/
def piC : α := dec 3141592653589793 1000000000000000

/-- Rust's derived `PartialOrd` on `Option<&T>`: `None < Some(_)`, two `Some`s compare by their payloads -/
def optLE : Option α → Option α → Prop
  | none, _ => True
  | some _, none => False
  | some a, some b => a ≤ b

instance : (a b : Option α) → Decidable (optLE a b)
  | none, _ => isTrue trivial
  | some _, none => isFalse (fun h => h)
  | some a, some b => inferInstanceAs (Decidable (a ≤ b))

def optLT : Option α → Option α → Prop
  | _, none => False
  | none, some _ => True
  | some a, some b => a < b

instance : (a b : Option α) → Decidable (optLT a b)
  | _, none => isFalse (by intro h; cases ‹Option α› <;> exact h)
  | none, some _ => isTrue trivial
  | some a, some b => inferInstanceAs (Decidable (a < b))

end SF
