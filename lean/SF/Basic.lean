/-
  SF.Basic — scalar interface, panic monad, and the generic View / Core / wrap / binop
  constructions shared by every view model.  No imports: this file (and every file under
  SF/Model, SF/Expr, SF/Spec) must stay import-free so the driver links as a `lean_exe`.

  The model is polymorphic in the scalar `α` and uses only the standard operation classes
  plus `Transc` and `FloatLike` below, so that one and the same definition is
  * run at `Float`  (compared with the Rust code at `f64`),
  * run at `Rat`    (compared with the Rust generic code at an exact rational scalar),
  * reasoned about at an ordered field / at `ℝ` (the property theorems).
-/

namespace SF

/-- The ways the Rust code can panic. -/
inductive Err where
  | unwrapNone      -- `Option::unwrap` / `expect` on `None`
  | indexOOB        -- slice / deque index out of bounds
  | usizeUnderflow  -- `usize` subtraction below zero
  | assertFailed    -- constructor `assert!`
  | debugAssert     -- `debug_assert!` (finiteness, non-zero divisor)
  deriving Repr, DecidableEq, Inhabited

abbrev M := Except Err

/-- Transcendental functions of `num::Float` used by the crate. -/
class Transc (α : Type) where
  sqrt : α → α
  exp : α → α
  ln : α → α
  log2 : α → α
  cos : α → α
  sin : α → α
  tanh : α → α

/-- The IEEE-specific part of `num::Float` used by the crate. -/
class FloatLike (α : Type) where
  isFinite : α → Bool
  isNaN : α → Bool
  minValue : α
  maxValue : α

section ops
variable {α : Type}

/-- `debug_assert!(x.is_finite())` -/
@[inline] def assertFinite [FloatLike α] (x : α) : M Unit :=
  if FloatLike.isFinite x then pure () else throw .debugAssert

/-- `T::from(n)` for a `usize` / small integer literal. -/
@[inline] def nat [NatCast α] (n : Nat) : α := (n : α)

/-- a decimal literal `num/den` (e.g. `0.04 = dec 4 100`): in `Float` the correctly rounded quotient of two
exactly representable integers is the same double as the Rust literal; in a field it is the exact rational. -/
@[inline] def dec [NatCast α] [Div α] (num den : Nat) : α := (num : α) / (den : α)

/-- `x.powi(2)` -/
@[inline] def sq [Mul α] (x : α) : α := x * x

/-- `x.abs()` -/
@[inline] def absv [Neg α] [LT α] [DecidableLT α] [NatCast α] (x : α) : α :=
  if x < nat 0 then -x else x

/-- `a.max(b)` of `num::Float` for non-NaN arguments (the sign of a zero result is not observable in the crate) -/
@[inline] def maxv [LT α] [DecidableLT α] (a b : α) : α := if a < b then b else a

/-- checked `usize` subtraction -/
@[inline] def usub (a b : Nat) : M Nat := if b ≤ a then pure (a - b) else throw .usizeUnderflow

/-- `q.get(i).unwrap()` / `q[i]` -/
@[inline] def getIdx (q : List α) (i : Nat) : M α :=
  match q[i]? with
  | some v => pure v
  | none => throw .indexOOB

/-- `q.pop_front().unwrap()` : the oldest element and the rest -/
@[inline] def popFront (q : List α) : M (α × List α) :=
  match q with
  | [] => throw .unwrapNone
  | x :: r => pure (x, r)

/-- `*q.front().unwrap()` -/
@[inline] def front (q : List α) : M α :=
  match q with
  | [] => throw .unwrapNone
  | x :: _ => pure x

/-- `*q.back().unwrap()` -/
@[inline] def back (q : List α) : M α :=
  match q.getLast? with
  | none => throw .unwrapNone
  | some x => pure x

/-- `o.unwrap()` / `o.expect(..)` -/
@[inline] def unwrap {β : Type} (o : Option β) : M β :=
  match o with
  | none => throw .unwrapNone
  | some x => pure x

/-- `for i in lo..hi { acc = f(acc, i)? }` -/
def forRange {β : Type} (lo hi : Nat) (init : β) (f : β → Nat → M β) : M β :=
  (List.range' lo (hi - lo)).foldlM f init

end ops

/-- The part of a unary view that comes after the common head
`self.view.update(val); let Some(val) = self.view.last() else { return };`. -/
structure Core (α : Type) where
  σ : Type
  init : σ
  step : σ → α → M σ
  out : σ → M (Option α)
  /-- number of scalars held in heap buffers (deques / vecs) by this state -/
  size : σ → Nat
  /-- public accessors besides `last()` (`mean()`, `variance()`), for the correspondence check -/
  acc : σ → List α := fun _ => []

/-- A complete view: state, `update`, `last`. -/
structure View (α : Type) where
  σ : Type
  init : σ
  upd : σ → α → M σ
  last : σ → M (Option α)
  size : σ → Nat
  acc : σ → List α := fun _ => []

namespace Core
variable {α : Type}
/-- feed a list of values -/
def run (B : Core α) (s : B.σ) : List α → M B.σ
  | [] => pure s
  | x :: xs => do let s' ← B.step s x; run B s' xs
end Core

namespace View
variable {α : Type}
def run (V : View α) (s : V.σ) : List α → M V.σ
  | [] => pure s
  | x :: xs => do let s' ← V.upd s x; run V s' xs

/-- outputs after each update (the trace a user observes) -/
def trace (V : View α) (s : V.σ) : List α → M (List (Option α))
  | [] => pure []
  | x :: xs => do
    let s' ← V.upd s x
    let o ← V.last s'
    let rest ← trace V s' xs
    pure (o :: rest)
end View

section constructions
variable {α : Type}

/-- the shared three-line head of every unary `update`, followed by the core -/
@[reducible] def wrap [FloatLike α] (A : View α) (B : Core α) : View α where
  σ := A.σ × B.σ
  init := (A.init, B.init)
  upd s x := do
    assertFinite x
    let a ← A.upd s.1 x
    match ← A.last a with
    | none => pure (a, s.2)
    | some v => do
      assertFinite v
      let b ← B.step s.2 v
      pure (a, b)
  last s := B.out s.2
  size s := A.size s.1 + B.size s.2
  acc s := B.acc s.2

/-- `Tanh`-style view: forwards the update, maps the child's `last()` -/
@[reducible] def mapV [FloatLike α] (f : α → α) (A : View α) : View α where
  σ := A.σ
  init := A.init
  upd s x := do assertFinite x; A.upd s x
  last s := do
    match ← A.last s with
    | none => pure none
    | some v => do assertFinite v; pure (some (f v))
  size := A.size

/-- `Add`/`Subtract`/`Multiply`/`Divide`: forward to both children, combine on demand -/
@[reducible] def binop [FloatLike α] (f : α → α → M α) (A B : View α) : View α where
  σ := A.σ × B.σ
  init := (A.init, B.init)
  upd s x := do
    assertFinite x
    let a ← A.upd s.1 x
    let b ← B.upd s.2 x
    pure (a, b)
  last s := do
    let oa ← A.last s.1
    let ob ← B.last s.2
    match oa, ob with
    | some a, some b => do
      assertFinite a
      assertFinite b
      let r ← f a b
      pure (some r)
    | _, _ => pure none
  size s := A.size s.1 + B.size s.2

end constructions

end SF
