import SF.Basic
/-
  SF.Spec — batch ("textbook") definitions, written from the property statements and the cited papers
  under the crate's conventions, NOT from the code.  Each maps the complete history of values delivered to a
  view (oldest first) to the output the property says it must report.  Polymorphic and computable, so the
  driver can evaluate them at `Float` / `Rat` (oracle for the search) and the theorems can talk about them
  at an ordered field / `ℝ`.
-/
namespace SF.Spec
open SF
variable {α : Type} [Add α] [Sub α] [Mul α] [Div α] [Neg α] [NatCast α]
  [LT α] [DecidableLT α] [LE α] [DecidableLE α] [BEq α] [FloatLike α] [Transc α]

/-- the last `n` elements (all of them if there are fewer) -/
def lastN (n : Nat) (xs : List α) : List α := xs.drop (xs.length - n)

def sumL : List α → α
  | [] => nat 0
  | x :: r => x + sumL r

def minL : List α → Option α
  | [] => none
  | x :: r => match minL r with
    | none => some x
    | some m => some (if m < x then m else x)

def maxL : List α → Option α
  | [] => none
  | x :: r => match maxL r with
    | none => some x
    | some m => some (if x < m then m else x)

def mean (w : List α) : α := sumL w / nat w.length

/-! ### C02 -/

def sma (N : Nat) (xs : List α) : Option α :=
  if xs.length < N then none else some (sumL (lastN N xs) / nat (lastN N xs).length)

def cumulative (N : Nat) (xs : List α) : Option α :=
  if xs.isEmpty then none else some (sumL (lastN N xs))

def wmin (N : Nat) (xs : List α) : Option α := minL (lastN N xs)
def wmax (N : Nat) (xs : List α) : Option α := maxL (lastN N xs)

/-- sample variance of a list (0 for fewer than two values) -/
def sampleVar (w : List α) : α :=
  if w.length ≤ 1 then nat 0
  else sumL (w.map fun x => sq (x - mean w)) / nat (w.length - 1)

/-- population variance (0 for fewer than two values) -/
def popVar (w : List α) : α :=
  if w.length ≤ 1 then nat 0
  else sumL (w.map fun x => sq (x - mean w)) / nat w.length

def stdOf (var : α) : α := if var ≤ nat 0 then nat 0 else Transc.sqrt var

def welfordMean (N : Nat) (xs : List α) : α := mean (lastN N xs)

/-- `WelfordOnline::last` : sample standard deviation of the window, from `N-1` values on -/
def welford (N : Nat) (xs : List α) : Option α :=
  if xs.length < N - 1 then none else some (stdOf (sampleVar (lastN N xs)))

def vst (N : Nat) (xs : List α) : Option α :=
  match welford N xs, xs.getLast? with
  | some sd, some x => some (if sd == nat 0 then x else x / sd)
  | some _, none => some (nat 0)   -- N = 1, nothing delivered yet: `last` field is still zero
  | none, _ => none

def vsct (N : Nat) (xs : List α) : Option α :=
  match welford N xs, xs.getLast? with
  | some sd, some x => some (if sd == nat 0 then nat 0 else (x - welfordMean N xs) / sd)
  | some _, none => some (nat 0)
  | none, _ => none

def hln (N : Nat) (xs : List α) : Option α :=
  let w := lastN N xs
  match minL w, maxL w, xs.getLast? with
  | some lo, some hi, some x =>
    some (if hi == lo then nat 0 else nat 2 * (x - lo) / (hi - lo) - nat 1)
  | _, _, _ => some (nat 0)   -- before the first value the view reports 0

/-- base `x_{t-N}` (first value while fewer than `N+1` values exist); previous output held when the base is 0 -/
def roc (N : Nat) : List α → Option α
  | [] => none
  | x0 :: r =>
    let step := fun (acc : Option α × List α) (x : α) =>
      -- acc.2 = history so far (oldest first) before x
      let hist := acc.2 ++ [x]
      let t := hist.length - 1
      let base := if N ≤ t then hist[t - N]?.getD x0 else x0
      let o := if base == nat 0 then acc.1 else some (nat 100 * (x - base) / base)
      (o, hist)
    ((x0 :: r).foldl step (none, [])).1

/-- Shannon entropy in bits of the fraction of non-negative values among the last N -/
def entropy (N : Nat) (xs : List α) : Option α :=
  let w := lastN N xs
  if w.isEmpty then none
  else
    let p : α := nat (w.filter fun x => nat 0 ≤ x).length / nat w.length
    let h := fun (p : α) => if p == nat 0 then nat 0 else p * Transc.log2 p
    some (-(h p + h (nat 1 - p)))

/-! ### C04 -/

/-- `e_0 = x_0`, `e_t = w x_t + (1-w) e_{t-1}`, `w = alpha/(N+1)`; reported from the N-th value -/
def emaRec (w : α) : List α → Option α
  | [] => none
  | x0 :: r => some (r.foldl (fun e x => w * x + (nat 1 - w) * e) x0)

def ema (N : Nat) (alpha : α) (xs : List α) : Option α :=
  if xs.length < N then none else emaRec (alpha / (nat N + nat 1)) xs

def gauss (m s : α) (k : Nat) : α := Transc.exp (-(sq (nat k - m)) / (nat 2 * s * s))

/-- normalised Gaussian-kernel weighted mean of the window; the sample with absolute index `i`
carries the weight of kernel position `min i (N-1)` -/
def alma (N : Nat) (sigma offset : α) (xs : List α) : Option α :=
  if xs.isEmpty then none
  else
    let m := offset * (nat N + nat 1)
    let s := nat N / sigma
    let first := xs.length - (lastN N xs).length
    let wv := (lastN N xs).zipIdx.map fun (x, j) => (gauss m s (min (first + j) (N - 1)), x)
    some (sumL (wv.map fun (g, x) => g * x) / sumL (wv.map fun (g, _) => g))

/-! ### C05 -/

/-- changes `d_0 = 0`, `d_i = x_i - x_{i-1}` -/
def changes : List α → List α
  | [] => []
  | x0 :: r => nat 0 :: (r.zip (x0 :: r)).map fun (x, p) => x - p

def gains (N : Nat) (xs : List α) : α :=
  sumL ((lastN N (changes xs)).map fun d => if nat 0 < d then d else nat 0)
def losses (N : Nat) (xs : List α) : α :=
  sumL ((lastN N (changes xs)).map fun d => if nat 0 < d then nat 0 else -d)

def rsi (N : Nat) (xs : List α) : Option α :=
  if xs.length < N || xs.isEmpty then none
  else
    let G := gains N xs
    let L := losses N xs
    some (if L == nat 0 then nat 100 else nat 100 * G / (G + L))

/-- value of MyRSI's internal `out` (0 initially, held while G+L = 0) after `xs` -/
def myRsiHold (N : Nat) (xs : List α) : α :=
  (List.range xs.length).foldl (fun prev t =>
    let h := xs.take (t + 1)
    let G := gains N h
    let L := losses N h
    if G + L == nat 0 then prev else (G - L) / (G + L)) (nat 0)

def myRsi (N : Nat) (xs : List α) : Option α :=
  if xs.length < N then none else some (myRsiHold N xs)

/-! ### C06 -/

/-- Pearson correlation between the windowed values and their index 0..n-1 (0 when a variance is 0) -/
def pearsonIdx (w : List α) : α :=
  let n : α := nat w.length
  let ks : List α := (List.range w.length).map fun k => nat k
  let sx := sumL w
  let sy := sumL ks
  let sxx := sumL (w.map sq)
  let syy := sumL (ks.map sq)
  let sxy := sumL ((w.zip ks).map fun (x, k) => x * k)
  let vx := n * sxx - sq sx
  let vy := n * syy - sq sy
  if nat 0 < vx && nat 0 < vy then (n * sxy - sx * sy) / Transc.sqrt (vx * vy) else nat 0

def cti (N : Nat) (xs : List α) : Option α :=
  if xs.length < N then none else some (pearsonIdx (lastN N xs))

def sgn0 (d : α) : α := if nat 0 < d then nat 1 else if d < nat 0 then -(nat 1) else nat 0

/-- Σ_{i<j} sgn0(w_j - w_i) -/
def kendallNum : List α → α
  | [] => nat 0
  | x :: r => sumL (r.map fun y => sgn0 (y - x)) + kendallNum r

/-- Kendall's tau between values and time over all n(n-1)/2 pairs, ties contributing 0 -/
def kendall (w : List α) : α :=
  let n := w.length
  kendallNum w / (nat (n * (n - 1)) / nat 2)

/-- NET reports from the second value on; holds nothing before -/
def net (N : Nat) (xs : List α) : Option α :=
  let w := lastN N xs
  if w.length < 2 then
    -- window shorter than 2 (N = 1, or a single value so far): the view keeps its previous output (none)
    none
  else some (kendall w)

/-- (n+1)/2 - Σ_k k x_(t-k+1) / Σ_k x_(t-k+1), k = 1 newest; 0 when the denominator is 0 -/
def cog (N : Nat) (xs : List α) : Option α :=
  let w := lastN N xs
  if w.isEmpty then none
  else
    let n := w.length
    let den := sumL w
    let num := sumL (w.reverse.zipIdx.map fun (x, k) => nat (k + 1) * x)
    some (if den == nat 0 then nat 0 else (nat n + nat 1) / nat 2 - num / den)

/-! ### C13 -/

def welfordRollingMean (xs : List α) : α := if xs.isEmpty then nat 0 else mean xs

def welfordRolling (xs : List α) : Option α :=
  if xs.isEmpty then none else some (Transc.sqrt (popVar xs))

/-- largest relative decline from the running peak -/
def drawdown (xs : List α) : α :=
  let step := fun (acc : Option α × α) (x : α) =>
    let peak := match acc.1 with
      | none => x
      | some p => if p < x then x else p
    let dd := (peak - x) / peak
    (some peak, if acc.2 < dd then dd else acc.2)
  (xs.foldl step (none, nat 0)).2

def lnReturn (xs : List α) : Option α :=
  match xs.reverse with
  | x :: p :: _ => some (Transc.ln (x / p))
  | _ => none

/-! ### C11 : difference equations over the whole history -/

/-- `x(t)`, with `x(t) = pad` for indices before the start -/
def at' (xs : List α) (pad : α) (t : Int) : α :=
  if t < 0 then pad else (xs[t.toNat]?).getD pad

structure Coef (α : Type) where
  c1 : α
  b1 : α
  c3 : α

def ssCoef (N : Nat) : Coef α :=
  let a1 := Transc.exp (-(dec 1414 1000) * (dec 3141592653589793 1000000000000000) / nat N)
  let b1 := nat 2 * a1 * Transc.cos (dec 44422 10000 / nat N)
  let c3 := -(a1 * a1)
  { c1 := nat 1 - b1 - c3, b1 := b1, c3 := c3 }

def flexCoef (N : Nat) : Coef α :=
  let a1 := Transc.exp (-(dec 888442402435 100000000000) / nat N)
  let b1 := nat 2 * a1 * Transc.cos (dec 444221201218 100000000000 / nat N)
  let c3 := -(a1 * a1)
  { c1 := nat 1 - b1 - c3, b1 := b1, c3 := c3 }

/-- the whole sequence `f(0..t)` of `f(t) = c1 (x(t) + x(t-1))/2 + b1 f(t-1) + c3 f(t-2)`, `f(-1)=f(-2)=0`,
`x(-1) = pad`; newest first -/
def smoothSeq (c : Coef α) (pad : α) (xs : List α) : List α :=
  let step := fun (acc : List α × α) (x : α) =>
    let f1 := acc.1.headD (nat 0)
    let f2 := acc.1.tail.headD (nat 0)
    let f := c.c1 * (x + acc.2) / nat 2 + c.b1 * f1 + c.c3 * f2
    (f :: acc.1, x)
  (xs.foldl step ([], pad)).1

def superSmoother (N : Nat) (xs : List α) : Option α :=
  if xs.length < N then none else (smoothSeq (ssCoef N) (nat 0) xs).head?

/-- two-pole high-pass of the roofing filter, whole sequence, newest first -/
def hpSeq (N : Nat) (xs : List α) : List α :=
  let th : α := dec 44422 10000 / nat N
  let al := (Transc.cos th + Transc.sin th - nat 1) / Transc.cos th
  let step := fun (acc : List α × α × α) (x : α) =>
    let h1 := acc.1.headD (nat 0)
    let h2 := acc.1.tail.headD (nat 0)
    let x1 := acc.2.1
    let x2 := acc.2.2
    let h := sq (nat 1 - al / nat 2) * (x - nat 2 * x1 + x2) + nat 2 * (nat 1 - al) * h1 - sq (nat 1 - al) * h2
    (h :: acc.1, x, x1)
  (xs.foldl step ([], nat 0, nat 0)).1

/-- SuperSmoother(M) over hp(N+1), hp(N+2), … -/
def roofing (N Mss : Nat) (xs : List α) : Option α :=
  superSmoother Mss ((hpSeq N xs).reverse.drop (N + 1))

/-- Laguerre ladder: state (L0,L1,L2,L3) after the history -/
def lagLadder (g : α) (init : α × α × α × α) (xs : List α) : α × α × α × α :=
  xs.foldl (fun (s : α × α × α × α) x =>
    let (l0, l1, l2, l3) := s
    let n0 := (nat 1 - g) * x + g * l0
    let n1 := -g * n0 + l0 + g * l1
    let n2 := -g * n1 + l1 + g * l2
    let n3 := -g * n2 + l2 + g * l3
    (n0, n1, n2, n3)) init

def laguerreFilter (g : α) : List α → Option α
  | [] => none
  | x0 :: r =>
    let (l0, l1, l2, l3) := lagLadder g (x0, x0, x0, x0) r
    some ((l0 + nat 2 * l1 + nat 2 * l2 + l3) / nat 6)

/-- LaguerreRSI: the first two values only fill the zero initial state -/
def laguerreRsi (N : Nat) (xs : List α) : Option α :=
  let g : α := nat 2 / (nat N + nat 1)
  let step := fun (acc : (α × α × α × α) × Option α) (x : α) =>
    let s := lagLadder g acc.1 [x]
    let (l0, l1, l2, l3) := s
    let up := fun (a b : α) => if b ≤ a then a - b else nat 0
    let dn := fun (a b : α) => if b ≤ a then nat 0 else b - a
    let cu := up l0 l1 + up l1 l2 + up l2 l3
    let cd := dn l0 l1 + dn l1 l2 + dn l2 l3
    (s, if cu + cd == nat 0 then acc.2 else some (cu / (cu + cd)))
  ((xs.drop 2).foldl step ((nat 0, nat 0, nat 0, nat 0), none)).2

/-- CyberCycle: `c(t) = 0` for `t < N-1`, then the recursion on the 4-tap smoothed input -/
def cyberCycle (N : Nat) (xs : List α) : Option α :=
  if xs.isEmpty then none
  else
    let al : α := nat 2 / (nat N + nat 1)
    let sm := fun (t : Int) => (at' xs (nat 0) t + nat 2 * at' xs (nat 0) (t - 1) + nat 2 * at' xs (nat 0) (t - 2)
                      + at' xs (nat 0) (t - 3)) / nat 6
    let cs := (List.range xs.length).foldl (fun (acc : List α) t =>
      if t + 1 < N then (nat 0 : α) :: acc
      else
        let c1 := acc.headD (nat 0)
        let c2 := acc.tail.headD (nat 0)
        let ti : Int := t
        (sq (nat 1 - dec 5 10 * al) * (sm ti - nat 2 * sm (ti - 1) + sm (ti - 2))
          + nat 2 * (nat 1 - al) * c1 - sq (nat 1 - al) * c2) :: acc) []
    cs.head?

/-- shared tail of TrendFlex/ReFlex: leaky mean square and normalisation, folded over the `d(t)` sequence
(oldest first); `hold` selects ReFlex's "keep previous" versus TrendFlex's 0 when `ms = 0` -/
def flexNorm (hold : Bool) (ds : List α) : Option α :=
  (ds.foldl (fun (acc : α × Option α) d =>
    let ms := dec 4 100 * sq d + dec 96 100 * acc.1
    (ms, if nat 0 < ms then some (d / Transc.sqrt ms) else if hold then acc.2 else some (nat 0))) (nat 0, none)).2

def trendFlex (N : Nat) (xs : List α) : Option α :=
  match xs with
  | [] => none
  | x0 :: _ =>
    let fs := (smoothSeq (flexCoef N) x0 xs).reverse   -- f(0..t), oldest first
    let ds := (List.range fs.length).map fun t =>
      let m := min t (N - 1)
      let ft := fs[t]?.getD (nat 0)
      sumL ((List.range (m + 1)).map fun i => ft - (fs[t - i]?.getD (nat 0))) / nat N
    flexNorm false ds

def reFlex (N : Nat) (xs : List α) : Option α :=
  match xs with
  | [] => none
  | x0 :: _ =>
    let fs := (smoothSeq (flexCoef N) x0 xs).reverse
    let ds := (List.range fs.length).map fun t =>
      let m := min t (N - 1)
      let ft := fs[t]?.getD (nat 0)
      let slope := ((fs[t - m]?.getD (nat 0)) - ft) / nat N
      sumL ((List.range (m + 1)).map fun i => (ft + nat i * slope) - (fs[t - i]?.getD (nat 0))) / nat N
    flexNorm true ds

/-- the flex smoother under the crate's convention "window of N filter values including the current one": with N = 2 the
lag-2 term, with N = 1 both feedback terms lie outside the window and are dropped (c1 keeps its formula) -/
def flexCoefW (N : Nat) : Coef α :=
  let c := flexCoef (α := α) N
  { c1 := c.c1, b1 := if 2 ≤ N then c.b1 else nat 0, c3 := if 3 ≤ N then c.c3 else nat 0 }

/-- TrendFlex for every window length (equal to `trendFlex` for N ≥ 3) -/
def trendFlexW (N : Nat) (xs : List α) : Option α :=
  match xs with
  | [] => none
  | x0 :: _ =>
    let fs := (smoothSeq (flexCoefW N) x0 xs).reverse
    let ds := (List.range fs.length).map fun t =>
      let m := min t (N - 1)
      let ft := fs[t]?.getD (nat 0)
      sumL ((List.range (m + 1)).map fun i => ft - (fs[t - i]?.getD (nat 0))) / nat N
    flexNorm false ds

/-- ReFlex for every window length (equal to `reFlex` for N ≥ 3) -/
def reFlexW (N : Nat) (xs : List α) : Option α :=
  match xs with
  | [] => none
  | x0 :: _ =>
    let fs := (smoothSeq (flexCoefW N) x0 xs).reverse
    let ds := (List.range fs.length).map fun t =>
      let m := min t (N - 1)
      let ft := fs[t]?.getD (nat 0)
      let slope := ((fs[t - m]?.getD (nat 0)) - ft) / nat N
      sumL ((List.range (m + 1)).map fun i => (ft + nat i * slope) - (fs[t - i]?.getD (nat 0))) / nat N
    flexNorm true ds

/-- the sequence fed to PFE's moving average (oldest first): from `t ≥ N-1`, the signed ratio -/
def pfeRatios (N : Nat) (xs : List α) : List α :=
  (List.range xs.length).filterMap fun t =>
    if t + 1 < N then none
    else
      let x := fun (i : Nat) => xs[i]?.getD (nat 0)
      let den := sumL ((List.range (N - 2)).map fun i => Transc.sqrt (sq (x (t - i) - x (t - i - 1)) + nat 1))
      let p := Transc.sqrt (sq (x t - x (t + 1 - N)) + sq (nat N)) / den
      some (if x t < x (t - 1) then -p else p)

/-- PFE = the supplied moving average (given as a batch function of what it was fed) of the signed ratios -/
def pfe (N : Nat) (ma : List α → Option α) (xs : List α) : Option α :=
  let rs := pfeRatios N xs
  if rs.isEmpty then none else ma rs

/-- Fisher transform: min-max normalisation of the window, smoothing by `ma`, clamp, recursion -/
def fisher (N : Nat) (ma : List α → Option α) (xs : List α) : Option α :=
  let step := fun (acc : List α × Option α × List α) (x : α) =>
    -- acc = (history so far, current output, values fed to ma so far)
    let hist := acc.1 ++ [x]
    let w := lastN N hist
    match minL w, maxL w with
    | some lo, some hi =>
      if hi == lo then (hist, some (nat 0), acc.2.2)
      else
        let v := nat 2 * ((x - lo) / (hi - lo) - dec 5 10)
        let fed := acc.2.2 ++ [v]
        match ma fed with
        | none => (hist, acc.2.1, fed)
        | some sm =>
          let s := if sm < -(dec 99 100) then -(dec 99 100) else if dec 99 100 < sm then dec 99 100 else sm
          match acc.2.1 with
          | none => (hist, some (nat 0), fed)
          | some prev => (hist, some (dec 5 10 * Transc.ln ((nat 1 + s) / (nat 1 - s)) + dec 5 10 * prev), fed)
    | _, _ => (hist, acc.2.1, acc.2.2)
  (xs.foldl step ([], none, [])).2.1

end SF.Spec
