import SF.Gen.Sma
import SF.Model.Window
import SF.GenEq.Basic
import SF.GenEq.Tactic
set_option linter.unusedSimpArgs false
set_option linter.unusedSectionVars false
/-! Translator tie for `Sma` (src/sliding_windows/sma.rs): generated view = `wrap A (smaCore N)` for every child `A`. -/
namespace SF.GenEq.Sma
open SF SF.Gen.Sma
variable {α : Type} [Add α] [Sub α] [Mul α] [Div α] [Neg α] [NatCast α]
  [LT α] [DecidableLT α] [LE α] [DecidableLE α] [BEq α] [FloatLike α] [Transc α]

def s0 (A : View α) (N : Nat) : State α A.σ := { view := A.init, window_len := N, q_vals := [], sum := nat 0 }
theorem new_ok (A : View α) (N : Nat) : new A N = .ok (s0 A N) := rfl

@[simp] def abs (A : View α) (s : State α A.σ) : A.σ × SmaState α := (s.view, { q := s.q_vals, sum := s.sum })

theorem upd_eq (A : View α) (s : State α A.σ) (x : α) :
    (update A s x).map (abs A) = (wrap A (smaCore s.window_len)).upd (abs A s) x := by
  simp only [update, wrap, smaCore, abs]; gen_tie
theorem upd_cfg (A : View α) (s s' : State α A.σ) (x : α) : update A s x = .ok s' → s'.window_len = s.window_len := by
  simp only [update]; gen_tie
theorem last_eq (A : View α) (s : State α A.σ) : last A s = (wrap A (smaCore s.window_len)).last (abs A s) := by
  simp only [last, wrap, smaCore, abs]; gen_tie

def sim (A : View α) (N : Nat) : Sim (mkView (s0 A N) (update A) (last A)) (wrap A (smaCore N)) where
  Cfg s := s.window_len = N
  abs := abs A
  init_cfg := rfl
  init_abs := rfl
  upd s x hs := hs ▸ upd_eq A s x
  upd_cfg s x s' hs h := (upd_cfg A s s' x h).trans hs
  last s hs := hs ▸ last_eq A s

/-- the Rust text of `Sma`, as translated, and the model produce the same answers and the same panics on every input -/
theorem tie (A : View α) (N : Nat) (xs : List α) :
    (mkView (s0 A N) (update A) (last A)).trace (s0 A N) xs = (wrap A (smaCore N)).trace (wrap A (smaCore N)).init xs :=
  (sim A N).trace_eq xs
end SF.GenEq.Sma
