import SF.Gen.LaguerreFilter
import SF.Model.Ehlers
import SF.GenEq.Basic
import SF.GenEq.Tactic
set_option linter.unusedSimpArgs false
set_option linter.unusedSectionVars false
set_option linter.unusedVariables false
set_option maxHeartbeats 16000000
/-! Translator tie for `LaguerreFilter` (src/sliding_windows/laguerre_filter.rs): the view generated from the Rust text = the model's `wrap A (lagfCore g)`,
for every child view: same answers and same panics on every input.  (Table-driven: tools/mk_geneq.py.) -/
namespace SF.GenEq.LaguerreFilter
open SF SF.Gen.LaguerreFilter
variable {α : Type} [Add α] [Sub α] [Mul α] [Div α] [Neg α] [NatCast α]
  [LT α] [DecidableLT α] [LE α] [DecidableLE α] [BEq α] [FloatLike α] [Transc α]

def s0 (A : View α) (g : α) : State α A.σ := { view := A.init, gamma := g, l0s := [], l1s := [], l2s := [], l3s := [], filts := [] }
theorem new_ok (A : View α) (g : α)  : new A g = .ok (s0 A g) := by
  rfl

@[simp] def abs (A : View α) (s : State α A.σ) : A.σ × LagfState α := (s.view, { l0s := s.l0s, l1s := s.l1s, l2s := s.l2s, l3s := s.l3s, filts := s.filts })

theorem upd_eq (A : View α)  (s : State α A.σ) (x : α) (hi0 : s.l1s.length = s.l0s.length) (hi1 : s.l2s.length = s.l0s.length) (hi2 : s.l3s.length = s.l0s.length)  :
    (update A s x).map (abs A) = (wrap A (lagfCore s.gamma)).upd (abs A s) x := by
  simp only [update, wrap, mapV, binop, lagfCore, fromEnd, abs]; gen_tie
theorem upd_cfg (A : View α) (s s' : State α A.σ) (x : α) (hi0 : s.l1s.length = s.l0s.length) (hi1 : s.l2s.length = s.l0s.length) (hi2 : s.l3s.length = s.l0s.length) : update A s x = .ok s' → s'.gamma = s.gamma ∧ s'.l1s.length = s'.l0s.length ∧ s'.l2s.length = s'.l0s.length ∧ s'.l3s.length = s'.l0s.length := by
  simp only [update, lagfCore, fromEnd]; gen_tie
theorem last_eq (A : View α)  (s : State α A.σ) (hi0 : s.l1s.length = s.l0s.length) (hi1 : s.l2s.length = s.l0s.length) (hi2 : s.l3s.length = s.l0s.length)  : last A s = (wrap A (lagfCore s.gamma)).last (abs A s) := by
  simp only [last, wrap, mapV, binop, lagfCore, fromEnd, abs]; gen_tie

def sim (A : View α) (g : α)  : Sim (mkView (s0 A g) (update A) (last A)) (wrap A (lagfCore g)) where
  Cfg s := s.gamma = g ∧ s.l1s.length = s.l0s.length ∧ s.l2s.length = s.l0s.length ∧ s.l3s.length = s.l0s.length
  abs := abs A
  init_cfg := by simp [mkView, s0]
  init_abs := by rfl
  upd := fun (s : State α A.σ) x hs => by
    obtain ⟨h0, h1, h2, h3⟩ := hs
    have := upd_eq A s x  h1 h2 h3 
    (try rw [h0] at this); exact this
  upd_cfg := fun (s : State α A.σ) x s' hs h => by
    obtain ⟨h0, h1, h2, h3⟩ := hs
    have := upd_cfg A s s' x h1 h2 h3 h
    simp_all
  last := fun (s : State α A.σ) hs => by
    obtain ⟨h0, h1, h2, h3⟩ := hs
    have := last_eq A s  h1 h2 h3 
    (try rw [h0] at this); exact this

/-- the Rust text of `LaguerreFilter`, as translated, and the model agree on every input: same answers, same panics -/
theorem tie (A : View α) (g : α)  (xs : List α) :
    (mkView (s0 A g) (update A) (last A)).trace (s0 A g) xs = (wrap A (lagfCore g)).trace (wrap A (lagfCore g)).init xs :=
  (sim A g ).trace_eq xs
end SF.GenEq.LaguerreFilter
