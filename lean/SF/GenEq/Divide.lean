import SF.Gen.Divide
import SF.Model.Pure
import SF.GenEq.Basic
import SF.GenEq.Tactic
set_option linter.unusedSimpArgs false
set_option linter.unusedSectionVars false
set_option linter.unusedVariables false
set_option maxHeartbeats 400000
/-! Translator tie for `Divide` (src/pure_functions/divide.rs): the view generated from the Rust text = the model's `binop divF A B`,
for every child view: same answers and same panics on every input.  (Table-driven: tools/mk_geneq.py.) -/
namespace SF.GenEq.Divide
open SF SF.Gen.Divide
variable {α : Type} [Add α] [Sub α] [Mul α] [Div α] [Neg α] [NatCast α]
  [LT α] [DecidableLT α] [LE α] [DecidableLE α] [BEq α] [FloatLike α] [Transc α]

def s0 (A : View α) (B : View α)  : State α A.σ B.σ := { a := A.init, b := B.init }
theorem new_ok (A : View α) (B : View α)   : new A B  = .ok (s0 A B ) := by
  rfl

@[simp] def abs (A : View α) (B : View α) (s : State α A.σ B.σ) : A.σ × B.σ := (s.a, s.b)

theorem upd_eq (A : View α) (B : View α)  (s : State α A.σ B.σ) (x : α)   :
    (update A B s x).map (abs A B) = (binop divF A B).upd (abs A B s) x := by
  simp only [update, wrap, mapV, binop, divF, abs]; gen_tie
theorem upd_cfg (A : View α) (B : View α) (s s' : State α A.σ B.σ) (x : α)  : update A B s x = .ok s' → True := by
  simp only [update, divF]; gen_tie
theorem last_eq (A : View α) (B : View α)  (s : State α A.σ B.σ)   : last A B s = (binop divF A B).last (abs A B s) := by
  simp only [last, wrap, mapV, binop, divF, abs]; gen_tie

def sim (A : View α) (B : View α)   : Sim (mkView (s0 A B ) (update A B) (last A B)) (binop divF A B) where
  Cfg s := True
  abs := abs A B
  init_cfg := by simp [mkView, s0]
  init_abs := by rfl
  upd := fun (s : State α A.σ B.σ) x hs => by
    skip
    have := upd_eq A B s x   
    exact this
  upd_cfg := fun (s : State α A.σ B.σ) x s' hs h => by
    skip
    have := upd_cfg A B s s' x  h
    simp_all
  last := fun (s : State α A.σ B.σ) hs => by
    skip
    have := last_eq A B s   
    exact this

/-- the Rust text of `Divide`, as translated, and the model agree on every input: same answers, same panics -/
theorem tie (A : View α) (B : View α)   (xs : List α) :
    (mkView (s0 A B ) (update A B) (last A B)).trace (s0 A B ) xs = (binop divF A B).trace (binop divF A B).init xs :=
  (sim A B  ).trace_eq xs
end SF.GenEq.Divide
