import SF.Gen.LnReturn
import SF.Model.Pure
import SF.GenEq.Basic
import SF.GenEq.Tactic
set_option linter.unusedSimpArgs false
set_option linter.unusedSectionVars false
set_option linter.unusedVariables false
set_option maxHeartbeats 400000
/-! Translator tie for `LnReturn` (src/rolling/ln_return.rs): the view generated from the Rust text = the model's `wrap A lnReturnCore`,
for every child view: same answers and same panics on every input.  (Table-driven: tools/mk_geneq.py.) -/
namespace SF.GenEq.LnReturn
open SF SF.Gen.LnReturn
variable {α : Type} [Add α] [Sub α] [Mul α] [Div α] [Neg α] [NatCast α]
  [LT α] [DecidableLT α] [LE α] [DecidableLE α] [BEq α] [FloatLike α] [Transc α]

def s0 (A : View α)  : State α A.σ := { view := A.init, last_val := nat 0, current_val := nat 0 }
theorem new_ok (A : View α)   : new A  = .ok (s0 A ) := by
  rfl

@[simp] def abs (A : View α) (s : State α A.σ) : A.σ × LnReturnState α := (s.view, { lastVal := s.last_val, currentVal := s.current_val })

theorem upd_eq (A : View α)  (s : State α A.σ) (x : α)   :
    (update A s x).map (abs A) = (wrap A lnReturnCore).upd (abs A s) x := by
  simp only [update, wrap, mapV, binop, lnReturnCore, abs]; gen_tie
theorem upd_cfg (A : View α) (s s' : State α A.σ) (x : α)  : update A s x = .ok s' → True := by
  simp only [update, lnReturnCore]; gen_tie
theorem last_eq (A : View α)  (s : State α A.σ)   : last A s = (wrap A lnReturnCore).last (abs A s) := by
  simp only [last, wrap, mapV, binop, lnReturnCore, abs]; gen_tie

def sim (A : View α)   : Sim (mkView (s0 A ) (update A) (last A)) (wrap A lnReturnCore) where
  Cfg s := True
  abs := abs A
  init_cfg := by simp [mkView, s0]
  init_abs := by rfl
  upd := fun (s : State α A.σ) x hs => by
    skip
    have := upd_eq A s x   
    exact this
  upd_cfg := fun (s : State α A.σ) x s' hs h => by
    skip
    have := upd_cfg A s s' x  h
    simp_all
  last := fun (s : State α A.σ) hs => by
    skip
    have := last_eq A s   
    exact this

/-- the Rust text of `LnReturn`, as translated, and the model agree on every input: same answers, same panics -/
theorem tie (A : View α)   (xs : List α) :
    (mkView (s0 A ) (update A) (last A)).trace (s0 A ) xs = (wrap A lnReturnCore).trace (wrap A lnReturnCore).init xs :=
  (sim A  ).trace_eq xs
end SF.GenEq.LnReturn
