import SF.GenPrelude
/-
  The translator tie, generic part.  A generated view `G` (state `σG`, built by `tools/rs2lean.py` from the Rust text) and
  the model's view `W` are related by an abstraction function `abs : σG → W.σ` that holds on the states satisfying a
  configuration predicate `Cfg` (the immutable parameters kept in the Rust struct equal the model's parameters):
  then both produce the same trace -- the same answers and the same panics -- on every input list.
-/
namespace SF.GenEq
open SF
variable {α : Type}

/-- a view packaged from generated `update` / `last` functions -/
@[reducible] def mkView {σ : Type} (init : σ) (upd : σ → α → M σ) (last : σ → M (Option α)) : View α :=
  { σ := σ, init := init, upd := upd, last := last, size := fun _ => 0 }

/-- the simulation a per-view file has to establish -/
structure Sim (G W : View α) where
  Cfg : G.σ → Prop
  abs : G.σ → W.σ
  init_cfg : Cfg G.init
  init_abs : abs G.init = W.init
  upd : ∀ s x, Cfg s → (G.upd s x).map abs = W.upd (abs s) x
  upd_cfg : ∀ s x s', Cfg s → G.upd s x = .ok s' → Cfg s'
  last : ∀ s, Cfg s → G.last s = W.last (abs s)

theorem Sim.trace_from {G W : View α} (h : Sim G W) (xs : List α) :
    ∀ s, h.Cfg s → G.trace s xs = W.trace (h.abs s) xs := by
  induction xs with
  | nil => intro s _; rfl
  | cons x xs ih =>
    intro s hs
    have hu := h.upd s x hs
    unfold View.trace
    cases hg : G.upd s x with
    | error e =>
      rw [hg] at hu
      have : W.upd (h.abs s) x = .error e := by simpa [Except.map] using hu.symm
      simp [this, bind, Except.bind]
    | ok s' =>
      rw [hg] at hu
      have hw : W.upd (h.abs s) x = .ok (h.abs s') := by simpa [Except.map] using hu.symm
      have hc := h.upd_cfg s x s' hs hg
      simp only [hw, bind, Except.bind, h.last s' hc, ih s' hc]

/-- same answers, same panics, on every input -/
theorem Sim.trace_eq {G W : View α} (h : Sim G W) (xs : List α) : G.trace G.init xs = W.trace W.init xs := by
  rw [h.trace_from xs G.init h.init_cfg, h.init_abs]

end SF.GenEq
