import SF.Gen.GTE
import SF.Model.Pure
import SF.GenEq.Basic
import SF.GenEq.Tactic
set_option linter.unusedSimpArgs false
set_option linter.unusedSectionVars false
set_option linter.unusedVariables false
set_option maxHeartbeats 400000
/-! Translator tie for `GTE` (src/pure_functions/gte.rs): the view generated from the Rust text = the model's `wrap A (gteCore c)`,
for every child view: same answers and same panics on every input.  (Table-driven: tools/mk_geneq.py.) -/
namespace SF.GenEq.GTE
open SF SF.Gen.GTE
variable {α : Type} [Add α] [Sub α] [Mul α] [Div α] [Neg α] [NatCast α]
  [LT α] [DecidableLT α] [LE α] [DecidableLE α] [BEq α] [FloatLike α] [Transc α]

def s0 (A : View α) (c : α) : State α A.σ := { view := A.init, clipping_point := c, out := none }
theorem new_ok (A : View α) (c : α) (hc : FloatLike.isFinite c = true) : new A c = .ok (s0 A c) := by
  simp [new, assertFinite, hc, s0, bind, Except.bind, pure, Except.pure]

@[simp] def abs (A : View α) (s : State α A.σ) : A.σ × Option α := (s.view, s.out)

theorem upd_eq (A : View α)  (s : State α A.σ) (x : α)   :
    (update A s x).map (abs A) = (wrap A (gteCore s.clipping_point)).upd (abs A s) x := by
  simp only [update, wrap, mapV, binop, gteCore, abs]; gen_tie
theorem upd_cfg (A : View α) (s s' : State α A.σ) (x : α)  : update A s x = .ok s' → s'.clipping_point = s.clipping_point := by
  simp only [update, gteCore]; gen_tie
theorem last_eq (A : View α)  (s : State α A.σ)   : last A s = (wrap A (gteCore s.clipping_point)).last (abs A s) := by
  simp only [last, wrap, mapV, binop, gteCore, abs]; gen_tie

def sim (A : View α) (c : α)  : Sim (mkView (s0 A c) (update A) (last A)) (wrap A (gteCore c)) where
  Cfg s := s.clipping_point = c
  abs := abs A
  init_cfg := by simp [mkView, s0]
  init_abs := by rfl
  upd := fun (s : State α A.σ) x hs => by
    have h0 : s.clipping_point = c := hs
    have := upd_eq A s x   
    (try rw [h0] at this); exact this
  upd_cfg := fun (s : State α A.σ) x s' hs h => by
    have h0 : s.clipping_point = c := hs
    have := upd_cfg A s s' x  h
    simp_all
  last := fun (s : State α A.σ) hs => by
    have h0 : s.clipping_point = c := hs
    have := last_eq A s   
    (try rw [h0] at this); exact this

/-- the Rust text of `GTE`, as translated, and the model agree on every input: same answers, same panics -/
theorem tie (A : View α) (c : α)  (xs : List α) :
    (mkView (s0 A c) (update A) (last A)).trace (s0 A c) xs = (wrap A (gteCore c)).trace (wrap A (gteCore c)).init xs :=
  (sim A c ).trace_eq xs
end SF.GenEq.GTE
