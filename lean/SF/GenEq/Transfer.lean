import SF.Props.C02
import SF.Props.C04
import SF.Props.C05
import SF.Props.C11
import SF.GenEq.Sma
import SF.GenEq.Cumulative
import SF.GenEq.Min
import SF.GenEq.Max
import SF.GenEq.Roc
import SF.GenEq.BinaryEntropy
import SF.GenEq.WelfordOnline
import SF.GenEq.Vst
import SF.GenEq.Vsct
import SF.GenEq.Ema
import SF.GenEq.Rsi
import SF.GenEq.MyRSI
import SF.GenEq.SuperSmoother
import SF.GenEq.RoofingFilter
import SF.GenEq.WelfordRolling
import SF.Props.C13
import SF.Props.C14
import SF.GenEq.Add
import SF.GenEq.Subtract
import SF.GenEq.Multiply
import SF.GenEq.Divide
import SF.GenEq.Tanh
/-
  End-to-end: the property theorems of SF/Props, which are about the hand-written model, transferred along the translator
  tie to the definitions GENERATED from the Rust text on this run.

  `Realises V spec` (SF/Lemmas/Eft.lean): fed any history, `V` does not panic and then reports `spec history`.
  Each theorem below says that the generated view -- the Rust text of the view, over the model's Echo, at a linearly ordered
  field ("real arithmetic") -- realises the batch definition the property names.  Ingredients: the characterisation
  theorem of the model core (`C02.sma_eq`, ...), `Eft.realises_overEcho`, and the simulation `SF.GenEq.<View>.sim`.
-/
namespace SF.GenEq
open SF
set_option linter.unusedSectionVars false
set_option linter.unusedVariables false
variable {α : Type}

/-- runs correspond along a simulation -/
theorem Sim.run_from {G W : View α} (h : Sim G W) (xs : List α) :
    ∀ s, h.Cfg s → (∀ s', G.run s xs = .ok s' → h.Cfg s') ∧ (G.run s xs).map h.abs = W.run (h.abs s) xs := by
  induction xs with
  | nil => intro s hs; exact ⟨fun s' e => by simp [View.run, pure, Except.pure] at e; subst e; exact hs, rfl⟩
  | cons x xs ih =>
    intro s hs
    have hu := h.upd s x hs
    unfold View.run
    cases hg : G.upd s x with
    | error e =>
      rw [hg] at hu
      have : W.upd (h.abs s) x = .error e := by simpa [Except.map] using hu.symm
      exact ⟨fun s' e' => by simp [bind, Except.bind] at e', by simp [this, bind, Except.bind, Except.map]⟩
    | ok s1 =>
      rw [hg] at hu
      have hw : W.upd (h.abs s) x = .ok (h.abs s1) := by simpa [Except.map] using hu.symm
      have hc := h.upd_cfg s x s1 hs hg
      obtain ⟨i1, i2⟩ := ih s1 hc
      exact ⟨fun s' e' => i1 s' (by simpa [bind, Except.bind] using e'), by simpa [hw, bind, Except.bind] using i2⟩

/-- a generated view realises whatever batch function the model view it simulates realises -/
theorem Sim.realises {G W : View α} (h : Sim G W) (spec : List α → Option α) (hW : Eft.Realises W spec) :
    Eft.Realises G spec := by
  intro fed
  obtain ⟨m, hm, hl⟩ := hW fed
  obtain ⟨hc, hr⟩ := h.run_from fed G.init h.init_cfg
  rw [h.init_abs, hm] at hr
  cases hg : G.run G.init fed with
  | error e => rw [hg] at hr; simp [Except.map] at hr
  | ok s =>
    rw [hg] at hr
    have : h.abs s = m := by simpa [Except.map] using hr
    exact ⟨s, rfl, by rw [h.last s (hc s hg), this, hl]⟩

section anyScalar
/-! C14 for the translated text, at ANY scalar type with the crate's operations -- in particular at `Float`, i.e. bit-exactly:
the generated `last()` of a combinator over children in states `s.a`, `s.b` reports the operation applied to the children's
current outputs, whatever happened before. -/
variable [Add α] [Sub α] [Mul α] [Div α] [Neg α] [NatCast α] [LT α] [DecidableLT α] [LE α] [DecidableLE α] [BEq α]
  [FloatLike α] [Transc α]

theorem add_rust (A B : View α) (s : SF.Gen.Add.State α A.σ B.σ) (x y : α) (ha : A.last s.a = .ok (some x))
    (hb : B.last s.b = .ok (some y)) (hx : FloatLike.isFinite x = true) (hy : FloatLike.isFinite y = true) :
    SF.Gen.Add.last A B s = .ok (some (x + y)) := by
  rw [Add.last_eq]; exact C14.add_last A B s.a s.b x y ha hb hx hy
theorem sub_rust (A B : View α) (s : SF.Gen.Subtract.State α A.σ B.σ) (x y : α) (ha : A.last s.a = .ok (some x))
    (hb : B.last s.b = .ok (some y)) (hx : FloatLike.isFinite x = true) (hy : FloatLike.isFinite y = true) :
    SF.Gen.Subtract.last A B s = .ok (some (x - y)) := by
  rw [Subtract.last_eq]; exact C14.sub_last A B s.a s.b x y ha hb hx hy
theorem mul_rust (A B : View α) (s : SF.Gen.Multiply.State α A.σ B.σ) (x y : α) (ha : A.last s.a = .ok (some x))
    (hb : B.last s.b = .ok (some y)) (hx : FloatLike.isFinite x = true) (hy : FloatLike.isFinite y = true) :
    SF.Gen.Multiply.last A B s = .ok (some (x * y)) := by
  rw [Multiply.last_eq]; exact C14.mul_last A B s.a s.b x y ha hb hx hy
theorem div_rust (A B : View α) (s : SF.Gen.Divide.State α A.σ B.σ) (x y : α) (ha : A.last s.a = .ok (some x))
    (hb : B.last s.b = .ok (some y)) (hx : FloatLike.isFinite x = true) (hy : FloatLike.isFinite y = true)
    (hy0 : (y == (nat 0 : α)) = false) :
    SF.Gen.Divide.last A B s = .ok (some (x / y)) := by
  rw [Divide.last_eq]; exact C14.div_last A B s.a s.b x y ha hb hx hy hy0
theorem tanh_rust (A : View α) (s : SF.Gen.Tanh.State α A.σ) (v : α) (h : A.last s.view = .ok (some v))
    (hv : FloatLike.isFinite v = true) : SF.Gen.Tanh.last A s = .ok (some (Transc.tanh v)) := by
  rw [Tanh.last_eq]; exact C14.tanh_last A s.view v h hv
end anyScalar

section field
variable [Field α] [LinearOrder α] [IsStrictOrderedRing α] [FloatLike α] [ExactScalar α] [Transc α]

theorem htot (a b : α) (h : ¬ a ≤ b) : b ≤ a := le_of_lt (not_le.mp h)

/-- C02: the Rust text of `Sma` reports the arithmetic mean of exactly the last N values, from the N-th value on -/
theorem sma_rust (N : Nat) (hN : 0 < N) :
    Eft.Realises (mkView (Sma.s0 echoV N) (SF.Gen.Sma.update echoV) (SF.Gen.Sma.last echoV)) (Spec.sma (α := α) N) :=
  (Sma.sim echoV N).realises _ (Eft.realises_overEcho _ _ (C02.sma_eq N hN))

/-- C02: `Cumulative` = the sum of exactly the last N values -/
theorem cumulative_rust (N : Nat) (hN : 0 < N) :
    Eft.Realises (mkView (Cumulative.s0 echoV N) (SF.Gen.Cumulative.update echoV) (SF.Gen.Cumulative.last echoV)) (Spec.cumulative (α := α) N) :=
  (Cumulative.sim echoV N).realises _ (Eft.realises_overEcho _ _ (C02.cumulative_eq N hN))

/-- C02: `Min` / `Max` = the extrema of exactly the last N values -/
theorem min_rust (N : Nat) (hN : 0 < N) :
    Eft.Realises (mkView (Min.s0 echoV N) (SF.Gen.Min.update echoV) (SF.Gen.Min.last echoV)) (Spec.wmin (α := α) N) :=
  (Min.sim echoV N).realises _ (Eft.realises_overEcho _ _ (C02.min_eq N hN))
theorem max_rust (N : Nat) (hN : 0 < N) :
    Eft.Realises (mkView (Max.s0 echoV N) (SF.Gen.Max.update echoV) (SF.Gen.Max.last echoV)) (Spec.wmax (α := α) N) :=
  (Max.sim echoV N).realises _ (Eft.realises_overEcho _ _ (C02.max_eq N hN))

/-- C02: `Roc` = 100 (x_t − x_{t−N}) / x_{t−N} with the stated conventions -/
theorem roc_rust (N : Nat) (hN : 0 < N) :
    Eft.Realises (mkView (Roc.s0 echoV N) (SF.Gen.Roc.update echoV) (SF.Gen.Roc.last echoV)) (Spec.roc (α := α) N) :=
  (Roc.sim echoV N).realises _ (Eft.realises_overEcho _ _ (C02.roc_eq N hN))

/-- C02: `BinaryEntropy` = the Shannon entropy of the fraction of non-negative values among the last N -/
theorem entropy_rust (N : Nat) (hN : 0 < N) :
    Eft.Realises (mkView (BinaryEntropy.s0 echoV N) (SF.Gen.BinaryEntropy.update echoV) (SF.Gen.BinaryEntropy.last echoV)) (Spec.entropy (α := α) N) :=
  (BinaryEntropy.sim echoV N).realises _ (Eft.realises_overEcho _ _ (C02.entropy_eq N hN))

/-- C02: `WelfordOnline::last` = the sample standard deviation of exactly the last N values; `Vst`, `Vsct` accordingly -/
theorem welford_rust (N : Nat) (hN : 0 < N) :
    Eft.Realises (mkView (WelfordOnline.s0 echoV N) (SF.Gen.WelfordOnline.update echoV) (SF.Gen.WelfordOnline.last echoV)) (Spec.welford (α := α) N) :=
  (WelfordOnline.sim echoV N htot le_refl).realises _ (Eft.realises_overEcho _ _ (C02.welford_last_eq N hN))
theorem vst_rust (N : Nat) (hN : 0 < N) :
    Eft.Realises (mkView (Vst.s0 echoV N) (SF.Gen.Vst.update echoV) (SF.Gen.Vst.last echoV)) (Spec.vst (α := α) N) :=
  (Vst.sim echoV N htot le_refl).realises _ (Eft.realises_overEcho _ _ (C02.vst_eq N hN))
theorem vsct_rust (N : Nat) (hN : 0 < N) :
    Eft.Realises (mkView (Vsct.s0 echoV N) (SF.Gen.Vsct.update echoV) (SF.Gen.Vsct.last echoV)) (Spec.vsct (α := α) N) :=
  (Vsct.sim echoV N htot le_refl).realises _ (Eft.realises_overEcho _ _ (C02.vsct_eq N hN))

/-- C05: the Rust text of `Rsi` / `MyRSI` = the statement's gains / losses formulas over the N most recent changes -/
theorem rsi_rust (N : Nat) (hN : 0 < N) :
    Eft.Realises (mkView (Rsi.s0 echoV N) (SF.Gen.Rsi.update echoV) (SF.Gen.Rsi.last echoV)) (Spec.rsi (α := α) N) :=
  (Rsi.sim echoV N).realises _ (Eft.realises_overEcho _ _ (C05.rsi_eq N hN))
theorem myrsi_rust (N : Nat) (hN : 0 < N) :
    Eft.Realises (mkView (MyRSI.s0 echoV N) (SF.Gen.MyRSI.update echoV) (SF.Gen.MyRSI.last echoV)) (Spec.myRsi (α := α) N) :=
  (MyRSI.sim echoV N).realises _ (Eft.realises_overEcho _ _ (C05.myrsi_eq N hN))

/-- C11: the Rust text of `SuperSmoother` = its difference equation with the stated coefficients -/
theorem superSmoother_rust (N : Nat) (hN : 0 < N) :
    Eft.Realises (mkView (SuperSmoother.s0 echoV N) (SF.Gen.SuperSmoother.update echoV) (SF.Gen.SuperSmoother.last echoV)) (Spec.superSmoother (α := α) N) :=
  (SuperSmoother.sim echoV N).realises _ (Eft.realises_overEcho _ _ (C11.superSmoother_eq N hN))

/-- C11: the Rust text of `RoofingFilter` = two-pole high-pass followed by the SuperSmoother, every N ≥ 2, every M ≥ 1 -/
theorem roofing_rust (N M' : Nat) (hM : 0 < M') :
    Eft.Realises (mkView (RoofingFilter.s0 echoV N M') (SF.Gen.RoofingFilter.update echoV) (SF.Gen.RoofingFilter.last echoV)) (Spec.roofing (α := α) N M') :=
  (RoofingFilter.sim echoV N M').realises _ (Eft.realises_overEcho _ _ (C11.roofing_eq N M' hM))

/-- C04: the Rust text of `Ema` follows e_0 = x_0, e_t = w x_t + (1 − w) e_{t−1}, w = alpha/(N+1), for every input -/
theorem ema_rust (N : Nat) (hN : 0 < N) (alpha : α) :
    Eft.Realises (mkView (Ema.s0 echoV N alpha) (SF.Gen.Ema.update echoV) (SF.Gen.Ema.last echoV)) (Spec.ema (α := α) N alpha) :=
  (Ema.sim echoV N alpha).realises _ (Eft.realises_overEcho _ _ (C04.ema_eq N hN alpha))

/-- C13: the Rust text of `WelfordRolling::last` = the population standard deviation of all values delivered so far -/
theorem welfordRolling_rust :
    Eft.Realises (mkView (WelfordRolling.s0 echoV) (SF.Gen.WelfordRolling.update echoV) (SF.Gen.WelfordRolling.last echoV)) (Spec.welfordRolling (α := α)) :=
  (WelfordRolling.sim echoV).realises _ (Eft.realises_overEcho _ _ C13.welfordRolling_last)

end field
end SF.GenEq
