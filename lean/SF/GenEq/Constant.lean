import SF.Gen.Constant
import SF.Model.Pure
import SF.GenEq.Basic
import SF.GenEq.Tactic
set_option linter.unusedSimpArgs false
set_option linter.unusedSectionVars false
set_option linter.unusedVariables false
set_option maxHeartbeats 400000
/-! Translator tie for `Constant` (src/pure_functions/constant.rs): the view generated from the Rust text = the model's `constV c`,
for every child view: same answers and same panics on every input.  (Table-driven: tools/mk_geneq.py.) -/
namespace SF.GenEq.Constant
open SF SF.Gen.Constant
variable {α : Type} [Add α] [Sub α] [Mul α] [Div α] [Neg α] [NatCast α]
  [LT α] [DecidableLT α] [LE α] [DecidableLE α] [BEq α] [FloatLike α] [Transc α]

def s0  (c : α) : State α := { val := c }
theorem new_ok  (c : α)  : new  c = .ok (s0  c) := by
  rfl

@[simp] def abs  (s : State α) : Unit := ()

theorem upd_eq   (s : State α) (x : α)   :
    (update  s x).map (abs ) = (constV s.val).upd (abs  s) x := by
  simp only [update, wrap, mapV, binop, constV, abs]; gen_tie
theorem upd_cfg  (s s' : State α) (x : α)  : update  s x = .ok s' → s'.val = s.val := by
  simp only [update, constV]; gen_tie
theorem last_eq   (s : State α)   : last  s = (constV s.val).last (abs  s) := by
  simp only [last, wrap, mapV, binop, constV, abs]; gen_tie

def sim  (c : α)  : Sim (mkView (s0  c) (update ) (last )) (constV c) where
  Cfg s := s.val = c
  abs := abs 
  init_cfg := by simp [mkView, s0]
  init_abs := by rfl
  upd := fun (s : State α) x hs => by
    have h0 : s.val = c := hs
    have := upd_eq  s x   
    (try rw [h0] at this); exact this
  upd_cfg := fun (s : State α) x s' hs h => by
    have h0 : s.val = c := hs
    have := upd_cfg  s s' x  h
    simp_all
  last := fun (s : State α) hs => by
    have h0 : s.val = c := hs
    have := last_eq  s   
    (try rw [h0] at this); exact this

/-- the Rust text of `Constant`, as translated, and the model agree on every input: same answers, same panics -/
theorem tie  (c : α)  (xs : List α) :
    (mkView (s0  c) (update ) (last )).trace (s0  c) xs = (constV c).trace (constV c).init xs :=
  (sim  c ).trace_eq xs
end SF.GenEq.Constant
