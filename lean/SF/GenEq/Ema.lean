import SF.Gen.Ema
import SF.Model.Window
import SF.GenEq.Basic
import SF.GenEq.Tactic
set_option linter.unusedSimpArgs false
set_option linter.unusedSectionVars false
set_option linter.unusedVariables false
set_option maxHeartbeats 400000
/-! Translator tie for `Ema` (src/sliding_windows/ema.rs): the view generated from the Rust text = the model's `wrap A (emaCore N al)`,
for every child view: same answers and same panics on every input.  (Table-driven: tools/mk_geneq.py.) -/
namespace SF.GenEq.Ema
open SF SF.Gen.Ema
variable {α : Type} [Add α] [Sub α] [Mul α] [Div α] [Neg α] [NatCast α]
  [LT α] [DecidableLT α] [LE α] [DecidableLE α] [BEq α] [FloatLike α] [Transc α]

def s0 (A : View α) (N : Nat) (al : α) : State α A.σ := { view := A.init, window_len := N, alpha := al, last_ema := nat 0, out := nat 0, n_observed_values := 0 }
theorem new_ok (A : View α) (N : Nat) (al : α)  : with_alpha A N al = .ok (s0 A N al) := by
  rfl

theorem new_default (A : View α) (N : Nat) (al : α) : new A N = with_alpha A N (nat 2 : α) := by
  rfl

@[simp] def abs (A : View α) (s : State α A.σ) : A.σ × EmaState α := (s.view, { lastEma := s.last_ema, out := s.out, n := s.n_observed_values })

theorem upd_eq (A : View α)  (s : State α A.σ) (x : α)   :
    (update A s x).map (abs A) = (wrap A (emaCore s.window_len s.alpha)).upd (abs A s) x := by
  simp only [update, wrap, mapV, binop, emaCore, abs]; gen_tie
theorem upd_cfg (A : View α) (s s' : State α A.σ) (x : α)  : update A s x = .ok s' → s'.window_len = s.window_len ∧ s'.alpha = s.alpha := by
  simp only [update, emaCore]; gen_tie
theorem last_eq (A : View α)  (s : State α A.σ)   : last A s = (wrap A (emaCore s.window_len s.alpha)).last (abs A s) := by
  simp only [last, wrap, mapV, binop, emaCore, abs]; gen_tie

def sim (A : View α) (N : Nat) (al : α)  : Sim (mkView (s0 A N al) (update A) (last A)) (wrap A (emaCore N al)) where
  Cfg s := s.window_len = N ∧ s.alpha = al
  abs := abs A
  init_cfg := by simp [mkView, s0]
  init_abs := by rfl
  upd := fun (s : State α A.σ) x hs => by
    obtain ⟨h0, h1⟩ := hs
    have := upd_eq A s x   
    (try rw [h0] at this); (try rw [h1] at this); exact this
  upd_cfg := fun (s : State α A.σ) x s' hs h => by
    obtain ⟨h0, h1⟩ := hs
    have := upd_cfg A s s' x  h
    simp_all
  last := fun (s : State α A.σ) hs => by
    obtain ⟨h0, h1⟩ := hs
    have := last_eq A s   
    (try rw [h0] at this); (try rw [h1] at this); exact this

/-- the Rust text of `Ema`, as translated, and the model agree on every input: same answers, same panics -/
theorem tie (A : View α) (N : Nat) (al : α)  (xs : List α) :
    (mkView (s0 A N al) (update A) (last A)).trace (s0 A N al) xs = (wrap A (emaCore N al)).trace (wrap A (emaCore N al)).init xs :=
  (sim A N al ).trace_eq xs
end SF.GenEq.Ema
