import SF.Gen.SuperSmoother
import SF.Model.Ehlers
import SF.GenEq.Basic
import SF.GenEq.Tactic
set_option linter.unusedSimpArgs false
set_option linter.unusedSectionVars false
set_option linter.unusedVariables false
set_option maxHeartbeats 400000
/-! Translator tie for `SuperSmoother` (src/sliding_windows/super_smoother.rs): the view generated from the Rust text = the model's `wrap A (ssCore N)`,
for every child view: same answers and same panics on every input.  (Table-driven: tools/mk_geneq.py.) -/
namespace SF.GenEq.SuperSmoother
open SF SF.Gen.SuperSmoother
variable {α : Type} [Add α] [Sub α] [Mul α] [Div α] [Neg α] [NatCast α]
  [LT α] [DecidableLT α] [LE α] [DecidableLE α] [BEq α] [FloatLike α] [Transc α]

def s0 (A : View α) (N : Nat) : State α A.σ := { view := A.init, window_len := N, i := 0, c1 := (ssCoef N).c1, c2 := (ssCoef N).c2, c3 := (ssCoef N).c3, filt := nat 0, filt_1 := nat 0, filt_2 := nat 0, last_val := nat 0 }
theorem new_ok (A : View α) (N : Nat)  : new A N = .ok (s0 A N) := by
  rfl

@[simp] def abs (A : View α) (s : State α A.σ) : A.σ × SsState α := (s.view, { i := s.i, filt := s.filt, filt1 := s.filt_1, filt2 := s.filt_2, lastVal := s.last_val })

theorem upd_eq (A : View α)  (s : State α A.σ) (x : α)  (hd0 : s.c1 = (ssCoef s.window_len).c1) (hd1 : s.c2 = (ssCoef s.window_len).c2) (hd2 : s.c3 = (ssCoef s.window_len).c3) :
    (update A s x).map (abs A) = (wrap A (ssCore s.window_len)).upd (abs A s) x := by
  simp only [update, wrap, mapV, binop, ssCore, ssStep, ssOut, ssInit, abs]; gen_tie
theorem upd_cfg (A : View α) (s s' : State α A.σ) (x : α)  : update A s x = .ok s' → s'.window_len = s.window_len ∧ s'.c1 = s.c1 ∧ s'.c2 = s.c2 ∧ s'.c3 = s.c3 := by
  simp only [update, ssCore, ssStep, ssOut, ssInit]; gen_tie
theorem last_eq (A : View α)  (s : State α A.σ)  (hd0 : s.c1 = (ssCoef s.window_len).c1) (hd1 : s.c2 = (ssCoef s.window_len).c2) (hd2 : s.c3 = (ssCoef s.window_len).c3) : last A s = (wrap A (ssCore s.window_len)).last (abs A s) := by
  simp only [last, wrap, mapV, binop, ssCore, ssStep, ssOut, ssInit, abs]; gen_tie

def sim (A : View α) (N : Nat)  : Sim (mkView (s0 A N) (update A) (last A)) (wrap A (ssCore N)) where
  Cfg s := s.window_len = N ∧ s.c1 = (ssCoef N).c1 ∧ s.c2 = (ssCoef N).c2 ∧ s.c3 = (ssCoef N).c3
  abs := abs A
  init_cfg := by simp [mkView, s0]
  init_abs := by rfl
  upd := fun (s : State α A.σ) x hs => by
    obtain ⟨h0, h1, h2, h3⟩ := hs
    have := upd_eq A s x   (by (try rw [h0]); exact h1) (by (try rw [h0]); exact h2) (by (try rw [h0]); exact h3)
    (try rw [h0] at this); exact this
  upd_cfg := fun (s : State α A.σ) x s' hs h => by
    obtain ⟨h0, h1, h2, h3⟩ := hs
    have := upd_cfg A s s' x  h
    simp_all
  last := fun (s : State α A.σ) hs => by
    obtain ⟨h0, h1, h2, h3⟩ := hs
    have := last_eq A s   (by (try rw [h0]); exact h1) (by (try rw [h0]); exact h2) (by (try rw [h0]); exact h3)
    (try rw [h0] at this); exact this

/-- the Rust text of `SuperSmoother`, as translated, and the model agree on every input: same answers, same panics -/
theorem tie (A : View α) (N : Nat)  (xs : List α) :
    (mkView (s0 A N) (update A) (last A)).trace (s0 A N) xs = (wrap A (ssCore N)).trace (wrap A (ssCore N)).init xs :=
  (sim A N ).trace_eq xs
end SF.GenEq.SuperSmoother
