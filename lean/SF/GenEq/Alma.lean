import SF.Gen.Alma
import SF.Model.Window
import SF.GenEq.Basic
import SF.GenEq.Tactic
set_option linter.unusedSimpArgs false
set_option linter.unusedSectionVars false
set_option linter.unusedVariables false
set_option maxHeartbeats 400000
/-! Translator tie for `Alma` (src/sliding_windows/alma.rs): the view generated from the Rust text = the model's `wrap A (almaCore N sigma offset)`,
for every child view: same answers and same panics on every input.  (Table-driven: tools/mk_geneq.py.) -/
namespace SF.GenEq.Alma
open SF SF.Gen.Alma
variable {α : Type} [Add α] [Sub α] [Mul α] [Div α] [Neg α] [NatCast α]
  [LT α] [DecidableLT α] [LE α] [DecidableLE α] [BEq α] [FloatLike α] [Transc α]

def s0 (A : View α) (N : Nat) (sigma offset : α) : State α A.σ := { view := A.init, window_len := N, m := offset * (nat N + nat 1), s := nat N / sigma, wtd_sum := nat 0, cum_wt := nat 0, q_vals := [], q_wtd := [], q_out := [] }
theorem new_ok (A : View α) (N : Nat) (sigma offset : α) : new_custom A N sigma offset = .ok (s0 A N sigma offset) ∨ new_custom A N sigma offset = .error .assertFailed := by
  simp only [new_custom, s0]; munfold; split <;> simp

theorem new_default (A : View α) (N : Nat) (sigma offset : α) : new A N = new_custom A N (nat 6 : α) (dec 85 100 : α) := by
  rfl

@[simp] def abs (A : View α) (s : State α A.σ) : A.σ × AlmaState α := (s.view, { wtdSum := s.wtd_sum, cumWt := s.cum_wt, qVals := s.q_vals, qWtd := s.q_wtd, qOut := s.q_out })

theorem upd_eq (A : View α) {sigma offset : α} (s : State α A.σ) (x : α)  (hd0 : s.m = offset * (nat s.window_len + nat 1)) (hd1 : s.s = nat s.window_len / sigma) :
    (update A s x).map (abs A) = (wrap A (almaCore s.window_len sigma offset)).upd (abs A s) x := by
  simp only [update, wrap, mapV, binop, almaCore, almaWeight, abs]; gen_tie
theorem upd_cfg (A : View α) (s s' : State α A.σ) (x : α)  : update A s x = .ok s' → s'.window_len = s.window_len ∧ s'.m = s.m ∧ s'.s = s.s := by
  simp only [update, almaCore, almaWeight]; gen_tie
theorem last_eq (A : View α) {sigma offset : α} (s : State α A.σ)  (hd0 : s.m = offset * (nat s.window_len + nat 1)) (hd1 : s.s = nat s.window_len / sigma) : last A s = (wrap A (almaCore s.window_len sigma offset)).last (abs A s) := by
  simp only [last, wrap, mapV, binop, almaCore, almaWeight, abs]; gen_tie

def sim (A : View α) (N : Nat) (sigma offset : α)  : Sim (mkView (s0 A N sigma offset) (update A) (last A)) (wrap A (almaCore N sigma offset)) where
  Cfg s := s.window_len = N ∧ s.m = offset * (nat N + nat 1) ∧ s.s = nat N / sigma
  abs := abs A
  init_cfg := by simp [mkView, s0]
  init_abs := by rfl
  upd := fun (s : State α A.σ) x hs => by
    obtain ⟨h0, h1, h2⟩ := hs
    have := upd_eq A s x   (by (try rw [h0]); exact h1) (by (try rw [h0]); exact h2)
    (try rw [h0] at this); exact this
  upd_cfg := fun (s : State α A.σ) x s' hs h => by
    obtain ⟨h0, h1, h2⟩ := hs
    have := upd_cfg A s s' x  h
    simp_all
  last := fun (s : State α A.σ) hs => by
    obtain ⟨h0, h1, h2⟩ := hs
    have := last_eq A s   (by (try rw [h0]); exact h1) (by (try rw [h0]); exact h2)
    (try rw [h0] at this); exact this

/-- the Rust text of `Alma`, as translated, and the model agree on every input: same answers, same panics -/
theorem tie (A : View α) (N : Nat) (sigma offset : α)  (xs : List α) :
    (mkView (s0 A N sigma offset) (update A) (last A)).trace (s0 A N sigma offset) xs = (wrap A (almaCore N sigma offset)).trace (wrap A (almaCore N sigma offset)).init xs :=
  (sim A N sigma offset ).trace_eq xs
end SF.GenEq.Alma
