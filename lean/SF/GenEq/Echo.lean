import SF.Gen.Echo
import SF.Model.Pure
import SF.GenEq.Basic
import SF.GenEq.Tactic
set_option linter.unusedSimpArgs false
set_option linter.unusedSectionVars false
set_option linter.unusedVariables false
set_option maxHeartbeats 400000
/-! Translator tie for `Echo` (src/pure_functions/echo.rs): the view generated from the Rust text = the model's `echoV`,
for every child view: same answers and same panics on every input.  (Table-driven: tools/mk_geneq.py.) -/
namespace SF.GenEq.Echo
open SF SF.Gen.Echo
variable {α : Type} [Add α] [Sub α] [Mul α] [Div α] [Neg α] [NatCast α]
  [LT α] [DecidableLT α] [LE α] [DecidableLE α] [BEq α] [FloatLike α] [Transc α]

def s0   : State α := { out := none }
theorem new_ok    : (new : M (State α)) = .ok (s0 : State α) := by
  rfl

@[simp] def abs  (s : State α) : Option α := s.out

theorem upd_eq   (s : State α) (x : α)   :
    (update  s x).map (abs ) = (echoV).upd (abs  s) x := by
  simp only [update, wrap, mapV, binop, echoV, abs]; gen_tie
theorem upd_cfg  (s s' : State α) (x : α)  : update  s x = .ok s' → True := by
  simp only [update, echoV]; gen_tie
theorem last_eq   (s : State α)   : last  s = (echoV).last (abs  s) := by
  simp only [last, wrap, mapV, binop, echoV, abs]; gen_tie

def sim    : Sim (mkView (s0 : State α) (update ) (last )) (echoV) where
  Cfg s := True
  abs := abs 
  init_cfg := by simp [mkView, s0]
  init_abs := by rfl
  upd := fun (s : State α) x hs => by
    skip
    have := upd_eq  s x   
    exact this
  upd_cfg := fun (s : State α) x s' hs h => by
    skip
    have := upd_cfg  s s' x  h
    simp_all
  last := fun (s : State α) hs => by
    skip
    have := last_eq  s   
    exact this

/-- the Rust text of `Echo`, as translated, and the model agree on every input: same answers, same panics -/
theorem tie    (xs : List α) :
    (mkView (s0 : State α) (update ) (last )).trace (s0 : State α) xs = (echoV).trace (echoV).init xs :=
  (sim (α := α)).trace_eq xs
end SF.GenEq.Echo
