import Lean
import SF.Basic
/-
  Proof automation for the translator tie (`SF/GenEq/*.lean`): the generated definitions (`SF/Gen/*.lean`, produced by
  `tools/rs2lean.py` from `/repo/src/**/*.rs`) and the hand-written model are both `Except`-monad programs over the same
  atoms (child-view calls, assertions, deque operations).  `splitall` repeatedly finds an INNERMOST `match` / `if` of the
  goal (one whose scrutinee contains no further `match` / `if`) and case-splits its scrutinee.
-/
namespace SF.GenEq
open Lean Meta Elab Tactic

/-- an innermost split candidate of `e`: the scrutinee to destruct, and whether it is an `if` condition -/
partial def innermost (e : Expr) : MetaM (Option (Expr × Bool)) := do
  let some c ← Lean.Meta.findSplit? e | return none
  if c.isIte || c.isDIte then
    let cond := c.getArg! 1 5
    match ← innermost cond with
    | some r => return some r
    | none => return some (cond, true)
  else
    let some info := isMatcherAppCore? (← getEnv) c | return none
    let args := c.getAppArgs
    let mut pick : Option Expr := none
    for i in [info.getFirstDiscrPos : info.getFirstDiscrPos + info.numDiscrs] do
      let d := args[i]!
      match ← innermost d with
      | some r => return some r
      | none =>
        -- a scrutinee that is already a constructor application needs no split
        let d' ← whnfR d
        unless (← isConstructorApp d') do
          if pick.isNone then pick := some d
    match pick with
    | some d => return some (d, false)
    | none => return none

/-- one case split on an innermost scrutinee of the goal -/
elab "msplit1" : tactic => withMainContext do
  let g ← getMainGoal
  let tgt ← instantiateMVars (← g.getType)
  let some (d, isIf) ← innermost tgt | throwError "msplit1: nothing to split"
  let dstx ← Term.exprToSyntax d
  if isIf then
    evalTactic (← `(tactic| by_cases hsplit : $dstx <;> first
      | (simp only [if_pos hsplit, dif_pos hsplit]; try simp only [])
      | (simp only [if_neg hsplit, dif_neg hsplit]; try simp only [])))
  else if d.isFVar then
    evalTactic (← `(tactic| (cases $dstx:term <;> try simp only [])))
  else
    evalTactic (← `(tactic| (generalize hsplit : $dstx = xsplit at *; cases xsplit <;> try simp only [])))

/-- for every hypothesis `h : l₁ = l₂` between lists, add `congrArg List.length h` -/
elab "list_len_facts" : tactic => withMainContext do
  let lctx ← getLCtx
  for d in lctx do
    if d.isImplementationDetail then continue
    let t ← instantiateMVars d.type
    if let some (ty, _, _) := t.eq? then
      if (← whnfR ty).isAppOf ``List then
        let hstx ← Term.exprToSyntax d.toExpr
        evalTactic (← `(tactic| have := congrArg List.length $hstx))

end SF.GenEq

theorem head?_match {α : Type} (l : List α) : l.head? = (match l with | [] => none | x :: _ => some x) := by
  cases l <;> rfl

/-- unfold the `Except` plumbing -/
macro "munfold" : tactic => `(tactic| simp only [bind, Except.bind, Except.map, pure, Except.pure, throw, throwThe,
  MonadExceptOf.throw, Functor.map, SF.popFront, SF.unwrap, SF.front, SF.back, SF.getIdx, SF.usub, SF.assertFinite, head?_match] at *)

macro "splitall" : tactic => `(tactic| repeat (any_goals msplit1))

macro "gen_fin" : tactic => `(tactic| first | rfl | (with_unfolding_all rfl) | (intro h; cases h; first | done | rfl | (simp; done)) | (simp_all; done) | omega | (exfalso; omega) | (list_len_facts; (try simp only [List.length_append, List.length_cons, List.length_nil, List.length_tail] at *); first | omega | (exfalso; omega) | (simp_all; done)) | (simp_all [List.head?_eq_getElem?]; done) | (intros; simp_all; done) | (intro h; injection h with h; subst h; (try simp only []); (try list_len_facts); (try simp only [List.length_append, List.length_cons, List.length_nil, List.length_tail] at *); (repeat' constructor) <;> (first | rfl | omega | (simp_all; done))))

/-- close a tie obligation: unfold the plumbing, split every innermost scrutinee, finish by simplification -/
macro "gen_tie" : tactic => `(tactic| ((try munfold); (try splitall); all_goals gen_fin))
