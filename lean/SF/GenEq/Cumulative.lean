import SF.Gen.Cumulative
import SF.Model.Window
import SF.GenEq.Basic
import SF.GenEq.Tactic
set_option linter.unusedSimpArgs false
set_option linter.unusedSectionVars false
set_option linter.unusedVariables false
set_option maxHeartbeats 400000
/-! Translator tie for `Cumulative` (src/sliding_windows/cumulative.rs): the view generated from the Rust text = the model's `wrap A (cumCore N)`,
for every child view: same answers and same panics on every input.  (Table-driven: tools/mk_geneq.py.) -/
namespace SF.GenEq.Cumulative
open SF SF.Gen.Cumulative
variable {α : Type} [Add α] [Sub α] [Mul α] [Div α] [Neg α] [NatCast α]
  [LT α] [DecidableLT α] [LE α] [DecidableLE α] [BEq α] [FloatLike α] [Transc α]

def s0 (A : View α) (N : Nat) : State α A.σ := { view := A.init, window_len := N, q_vals := [], out := none }
theorem new_ok (A : View α) (N : Nat)  : new A N = .ok (s0 A N) := by
  rfl

@[simp] def abs (A : View α) (s : State α A.σ) : A.σ × CumState α := (s.view, { q := s.q_vals, out := s.out })

theorem upd_eq (A : View α)  (s : State α A.σ) (x : α)   :
    (update A s x).map (abs A) = (wrap A (cumCore s.window_len)).upd (abs A s) x := by
  simp only [update, wrap, mapV, binop, cumCore, abs]; gen_tie
theorem upd_cfg (A : View α) (s s' : State α A.σ) (x : α)  : update A s x = .ok s' → s'.window_len = s.window_len := by
  simp only [update, cumCore]; gen_tie
theorem last_eq (A : View α)  (s : State α A.σ)   : last A s = (wrap A (cumCore s.window_len)).last (abs A s) := by
  simp only [last, wrap, mapV, binop, cumCore, abs]; gen_tie

def sim (A : View α) (N : Nat)  : Sim (mkView (s0 A N) (update A) (last A)) (wrap A (cumCore N)) where
  Cfg s := s.window_len = N
  abs := abs A
  init_cfg := by simp [mkView, s0]
  init_abs := by rfl
  upd := fun (s : State α A.σ) x hs => by
    have h0 : s.window_len = N := hs
    have := upd_eq A s x   
    (try rw [h0] at this); exact this
  upd_cfg := fun (s : State α A.σ) x s' hs h => by
    have h0 : s.window_len = N := hs
    have := upd_cfg A s s' x  h
    simp_all
  last := fun (s : State α A.σ) hs => by
    have h0 : s.window_len = N := hs
    have := last_eq A s   
    (try rw [h0] at this); exact this

/-- the Rust text of `Cumulative`, as translated, and the model agree on every input: same answers, same panics -/
theorem tie (A : View α) (N : Nat)  (xs : List α) :
    (mkView (s0 A N) (update A) (last A)).trace (s0 A N) xs = (wrap A (cumCore N)).trace (wrap A (cumCore N)).init xs :=
  (sim A N ).trace_eq xs
end SF.GenEq.Cumulative
