import SF.Gen.RoofingFilter
import SF.Model.Ehlers
import SF.GenEq.Basic
import SF.GenEq.Tactic
set_option linter.unusedSimpArgs false
set_option linter.unusedSectionVars false
set_option linter.unusedVariables false
set_option maxHeartbeats 4000000
/-! Translator tie for `RoofingFilter` (src/sliding_windows/roofing_filter.rs): the view generated from the Rust text = the model's `wrap A (roofCoreU N Mss)`,
for every child view: same answers and same panics on every input.  (Table-driven: tools/mk_geneq.py.) -/
namespace SF.GenEq.RoofingFilter
open SF SF.Gen.RoofingFilter
variable {α : Type} [Add α] [Sub α] [Mul α] [Div α] [Neg α] [NatCast α]
  [LT α] [DecidableLT α] [LE α] [DecidableLE α] [BEq α] [FloatLike α] [Transc α]

def s0 (A : View α) (N : Nat) (Mss : Nat) : State α A.σ := { view := A.init, super_smoother := { view := none, window_len := Mss, i := 0, c1 := (ssCoef Mss).c1, c2 := (ssCoef Mss).c2, c3 := (ssCoef Mss).c3, filt := nat 0, filt_1 := nat 0, filt_2 := nat 0, last_val := nat 0 }, window_len := N, i := 0, alpha_1 := roofAlpha N, val_1 := nat 0, val_2 := nat 0, hp_1 := nat 0, hp_2 := nat 0 }
theorem new_ok (A : View α) (N : Nat) (Mss : Nat) (hN : 2 ≤ N) : new A N Mss = .ok (s0 A N Mss) := by
  simp [new, SF.Gen.SuperSmoother.new, s0, hN, bind, Except.bind, pure, Except.pure, echoV, roofAlpha, ssCoef, piC, piLit]

@[simp] def abs (A : View α) (s : State α A.σ) : A.σ × RoofState α := (s.view, { ss := { i := s.super_smoother.i, filt := s.super_smoother.filt, filt1 := s.super_smoother.filt_1, filt2 := s.super_smoother.filt_2, lastVal := s.super_smoother.last_val }, i := s.i, val1 := s.val_1, val2 := s.val_2, hp1 := s.hp_1, hp2 := s.hp_2 })

theorem upd_eq (A : View α)  (s : State α A.σ) (x : α)  (hd0 : s.alpha_1 = roofAlpha s.window_len) (hd1 : s.super_smoother.c1 = (ssCoef s.super_smoother.window_len).c1) (hd2 : s.super_smoother.c2 = (ssCoef s.super_smoother.window_len).c2) (hd3 : s.super_smoother.c3 = (ssCoef s.super_smoother.window_len).c3) :
    (update A s x).map (abs A) = (wrap A (roofCoreU s.window_len s.super_smoother.window_len)).upd (abs A s) x := by
  simp only [update, wrap, mapV, binop, roofCoreU, ssStep, ssOut, ssInit, SF.Gen.SuperSmoother.update, SF.Gen.SuperSmoother.last, echoV, abs]; gen_tie
theorem upd_cfg (A : View α) (s s' : State α A.σ) (x : α)  : update A s x = .ok s' → s'.window_len = s.window_len ∧ s'.super_smoother.window_len = s.super_smoother.window_len ∧ s'.alpha_1 = s.alpha_1 ∧ s'.super_smoother.c1 = s.super_smoother.c1 ∧ s'.super_smoother.c2 = s.super_smoother.c2 ∧ s'.super_smoother.c3 = s.super_smoother.c3 := by
  simp only [update, roofCoreU, ssStep, ssOut, ssInit, SF.Gen.SuperSmoother.update, SF.Gen.SuperSmoother.last, echoV]; gen_tie
theorem last_eq (A : View α)  (s : State α A.σ)  (hd0 : s.alpha_1 = roofAlpha s.window_len) (hd1 : s.super_smoother.c1 = (ssCoef s.super_smoother.window_len).c1) (hd2 : s.super_smoother.c2 = (ssCoef s.super_smoother.window_len).c2) (hd3 : s.super_smoother.c3 = (ssCoef s.super_smoother.window_len).c3) : last A s = (wrap A (roofCoreU s.window_len s.super_smoother.window_len)).last (abs A s) := by
  simp only [last, wrap, mapV, binop, roofCoreU, ssStep, ssOut, ssInit, SF.Gen.SuperSmoother.update, SF.Gen.SuperSmoother.last, echoV, abs]; gen_tie

def sim (A : View α) (N : Nat) (Mss : Nat)  : Sim (mkView (s0 A N Mss) (update A) (last A)) (wrap A (roofCoreU N Mss)) where
  Cfg s := s.window_len = N ∧ s.super_smoother.window_len = Mss ∧ s.alpha_1 = roofAlpha N ∧ s.super_smoother.c1 = (ssCoef Mss).c1 ∧ s.super_smoother.c2 = (ssCoef Mss).c2 ∧ s.super_smoother.c3 = (ssCoef Mss).c3
  abs := abs A
  init_cfg := by simp [mkView, s0]
  init_abs := by rfl
  upd := fun (s : State α A.σ) x hs => by
    obtain ⟨h0, h1, h2, h3, h4, h5⟩ := hs
    have := upd_eq A s x   (by (try rw [h0]); (try rw [h1]); exact h2) (by (try rw [h0]); (try rw [h1]); exact h3) (by (try rw [h0]); (try rw [h1]); exact h4) (by (try rw [h0]); (try rw [h1]); exact h5)
    (try rw [h0] at this); (try rw [h1] at this); exact this
  upd_cfg := fun (s : State α A.σ) x s' hs h => by
    obtain ⟨h0, h1, h2, h3, h4, h5⟩ := hs
    have := upd_cfg A s s' x  h
    simp_all
  last := fun (s : State α A.σ) hs => by
    obtain ⟨h0, h1, h2, h3, h4, h5⟩ := hs
    have := last_eq A s   (by (try rw [h0]); (try rw [h1]); exact h2) (by (try rw [h0]); (try rw [h1]); exact h3) (by (try rw [h0]); (try rw [h1]); exact h4) (by (try rw [h0]); (try rw [h1]); exact h5)
    (try rw [h0] at this); (try rw [h1] at this); exact this

/-- the Rust text of `RoofingFilter`, as translated, and the model agree on every input: same answers, same panics -/
theorem tie (A : View α) (N : Nat) (Mss : Nat)  (xs : List α) :
    (mkView (s0 A N Mss) (update A) (last A)).trace (s0 A N Mss) xs = (wrap A (roofCoreU N Mss)).trace (wrap A (roofCoreU N Mss)).init xs :=
  (sim A N Mss ).trace_eq xs
end SF.GenEq.RoofingFilter
