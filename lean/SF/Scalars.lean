import SF.Basic
/-
  Executable scalar instances: `Float` (IEEE double, compared with the Rust code at `f64`) and `Rat`
  (exact; compared with the Rust generic code at the harness's exact rational scalar `Q`).
  Transcendental functions at `Rat` are *bridged*: argument rounded to the nearest double (ties to even),
  the libm function applied, the result converted back exactly; a non-finite result becomes 0.
  The Rust `Q` scalar does exactly the same, so both sides compute the same rational.
-/
namespace SF

instance : NatCast Float := ⟨Float.ofNat⟩

instance : Transc Float where
  sqrt := Float.sqrt
  exp := Float.exp
  ln := Float.log
  log2 := Float.log2
  cos := Float.cos
  sin := Float.sin
  tanh := Float.tanh

def f64Max : Float := Float.ofBits 0x7FEFFFFFFFFFFFFF

instance : FloatLike Float where
  isFinite := Float.isFinite
  isNaN := Float.isNaN
  minValue := -f64Max
  maxValue := f64Max

/-- exact value of a finite double -/
def floatToRat (f : Float) : Rat :=
  let bits : Nat := f.toBits.toNat
  let neg : Bool := bits / 2^63 == 1
  let e : Nat := (bits / 2^52) % 2048
  let frac : Nat := bits % 2^52
  let mag : Rat :=
    if e == 0 then mkRat (frac : Int) (2^1074)
    else
      let m : Nat := 2^52 + frac
      if e ≥ 1075 then mkRat ((m * 2^(e - 1075) : Nat) : Int) 1 else mkRat (m : Int) (2^(1075 - e))
  if neg then -mag else mag

/-- nearest double, ties to even (normal range) -/
def ratToFloat (r : Rat) : Float :=
  if r.num == 0 then 0.0 else
  let neg := r.num < 0
  let n : Nat := r.num.natAbs
  let d : Nat := r.den
  -- choose s with q = floor(n * 2^s / d) in [2^54, 2^56)
  let s : Int := 55 - ((n.log2 : Int) - (d.log2 : Int))
  let (num, den) : Nat × Nat := if s ≥ 0 then (n * 2^s.toNat, d) else (n, d * 2^(-s).toNat)
  let q := num / den
  let sticky := num % den != 0
  let bits := q.log2 + 1
  let extra := bits - 53
  let mant := q / 2^extra
  let low := q % 2^extra
  let half := 2^(extra - 1)
  let mant := if low > half || (low == half && (sticky || mant % 2 == 1)) then mant + 1 else mant
  let v := (Float.ofNat mant).scaleB ((extra : Int) - s)
  if neg then -v else v

def bridge (f : Float → Float) (x : Rat) : Rat :=
  let y := f (ratToFloat x)
  if y.isFinite then floatToRat y else 0

instance : Transc Rat where
  sqrt := bridge Float.sqrt
  exp := bridge Float.exp
  ln := bridge Float.log
  log2 := bridge Float.log2
  cos := bridge Float.cos
  sin := bridge Float.sin
  tanh := bridge Float.tanh

instance : FloatLike Rat where
  isFinite _ := true
  isNaN _ := false
  minValue := -(floatToRat f64Max)
  maxValue := floatToRat f64Max

end SF
