import SF.Basic
import SF.Model.Pure
import SF.Model.Window
import SF.Model.Ehlers
/-
  Syntax of view trees (`VE`) and their meaning (`denote`).  `VE` is the text both drivers parse and the
  domain over which "for all chains" theorems are proved by structural induction.
-/
namespace SF

inductive BinOp where
  | add | sub | mul | div
  deriving Repr, DecidableEq

/-- unary wrappers with one inner view, with their parameters -/
inductive UKind (α : Type) where
  | gte (clip : α) | lte (clip : α)
  | drawdown | lnret | wroll
  | sma (n : Nat) | ema (n : Nat) | emaa (n : Nat) (alpha : α)
  | alma (n : Nat) | almac (n : Nat) (sigma offset : α)
  | cum (n : Nat) | min (n : Nat) | max (n : Nat) | roc (n : Nat) | rsi (n : Nat) | myrsi (n : Nat)
  | wo (n : Nat) | vst (n : Nat) | vsct (n : Nat) | hln (n : Nat) | bent (n : Nat) | cog (n : Nat)
  | cti (n : Nat) | net (n : Nat)
  | ss (n : Nat) | roof (n m : Nat) | cc (n : Nat) | lagf (gamma : α) | lagrsi (n : Nat)
  | tflex (n : Nat) | rflex (n : Nat)

/-- wrappers with an inner view and an embedded moving average -/
inductive U2Kind where
  | pfe (n : Nat) | eft (n : Nat)
  deriving Repr, DecidableEq

inductive VE (α : Type) where
  | echo
  | const (c : α)
  | probe (script : List (Option α))
  | bin (op : BinOp) (a b : VE α)
  | tanh (a : VE α)
  | un (k : UKind α) (a : VE α)
  | un2 (k : U2Kind) (a ma : VE α)

variable {α : Type} [Add α] [Sub α] [Mul α] [Div α] [Neg α] [NatCast α]
  [LT α] [DecidableLT α] [LE α] [DecidableLE α] [BEq α] [FloatLike α] [Transc α]

def binF : BinOp → α → α → M α
  | .add => addF | .sub => subF | .mul => mulF | .div => divF

/-- the core of a unary wrapper; `.error .assertFailed` where the Rust constructor panics -/
def coreOf : UKind α → M (Core α)
  | .gte c => pure (gteCore c)
  | .lte c => pure (lteCore c)
  | .drawdown => pure drawdownCore
  | .lnret => pure lnReturnCore
  | .wroll => pure welfordRollingCore
  | .sma n => pure (smaCore n)
  | .ema n => pure (emaCore n (nat 2))
  | .emaa n a => pure (emaCore n a)
  | .alma n => almaCoreC n (nat 6) (dec 85 100)
  | .almac n s o => almaCoreC n s o
  | .cum n => pure (cumCore n)
  | .min n => minCore n
  | .max n => maxCore n
  | .roc n => pure (rocCore n)
  | .rsi n => pure (rsiCore n)
  | .myrsi n => pure (myRsiCore n)
  | .wo n => welfordCore n
  | .vst n => vstCore n
  | .vsct n => vsctCore n
  | .hln n => pure (hlnCore n)
  | .bent n => pure (bentCore n)
  | .cog n => pure (cogCore n)
  | .cti n => pure (ctiCore n)
  | .net n => pure (netCore n)
  | .ss n => pure (ssCore n)
  | .roof n m => roofCore n m
  | .cc n => ccCore n
  | .lagf g => pure (lagfCore g)
  | .lagrsi n => pure (lagRsiCore n)
  | .tflex n => pure (tflexCore n)
  | .rflex n => pure (rflexCore n)

def core2Of (k : U2Kind) (ma : View α) : M (Core α) :=
  match k with
  | .pfe n => pfeCore n ma
  | .eft n => pure (eftCore n ma)

/-- meaning of a view tree. (`M (View α)` lives one universe up: consumed by `match`.) -/
def denote : VE α → M (View α)
  | .echo => .ok echoV
  | .const c => .ok (constV c)
  | .probe s => .ok (probeV s)
  | .bin op a b =>
    match denote a, denote b with
    | .ok A, .ok B => .ok (binop (binF op) A B)
    | .error e, _ => .error e
    | _, .error e => .error e
  | .tanh a =>
    match denote a with
    | .ok A => .ok (mapV Transc.tanh A)
    | .error e => .error e
  | .un k a =>
    match denote a, coreOf k with
    | .ok A, .ok B => .ok (wrap A B)
    | .error e, _ => .error e
    | _, .error e => .error e
  | .un2 k a ma =>
    match denote a, denote ma with
    | .ok A, .ok MA =>
      match core2Of k MA with
      | .ok B => .ok (wrap A B)
      | .error e => .error e
    | .error e, _ => .error e
    | _, .error e => .error e

/-- Rust types that do not implement `Clone` (`Add` does not derive it) -/
def VE.clonable : VE α → Bool
  | .echo | .const _ | .probe _ => true
  | .bin op a b => op != .add && a.clonable && b.clonable
  | .tanh a => a.clonable
  | .un _ a => a.clonable
  | .un2 _ a ma => a.clonable && ma.clonable

end SF
