import SF.Props.C04
import SF.Props.C10
import SF.Props.C13
import SF.Props.C05
import SF.Props.C06
import SF.Lemmas.Invariance
import SF.Lemmas.Invariance4
import SF.Lemmas.Invariance5
import Mathlib.Data.List.Induction
/-
  C12 — Normalised indicators are invariant to units, offset and sign.
  Stated on the batch definitions (equal to the state machines by C02 / C04 / C13) for all a > 0, all b, every N and
  every history.  Views proved so far: Sma, Ema, Cumulative (homogeneity), Min / Max (homogeneity and the Min/Max swap
  under negation), LnReturn and Drawdown (scale invariance), HLNormalizer (affine invariance, negation), NET (affine invariance,
  negation), BinaryEntropy, Rsi, MyRSI (incl. held values), CenterOfGravity (scale invariance); WelfordOnline (scales with
  the unit, ignores an offset), Vsct (affine invariance, negation), Vst (scale invariance off flat windows, negation), CTI
  (affine invariance, negation, at ℝ), Roc and LaguerreRSI (scale invariance, held values included), TrendFlex / ReFlex (scale
  invariance and negation, at ℝ), EhlersFisherTransform (affine invariance, any smoothing average).  Homogeneity of "every linear filter"
  (SuperSmoother, LaguerreFilter, RoofingFilter, CyberCycle, Alma) is the case b = 0 of C10's superposition (end of file).
  Rsi ↦ 100 − Rsi and MyRSI ↦ −MyRSI are C05's negation symmetry.
-/
namespace SF.C12
open SF SF.Spec
set_option linter.unusedSectionVars false
variable {α : Type} [Field α] [LinearOrder α] [IsStrictOrderedRing α] [FloatLike α] [ExactScalar α]

/-! ### homogeneity of the linear averages -/
theorem sma_scale (N : Nat) (hN : 0 < N) (a : α) (xs : List α) :
    Spec.sma N (xs.map fun x => a * x) = (Spec.sma N xs).map fun v => a * v := by
  have := C04.sma_affine N hN a 0 xs
  simpa using this

theorem ema_scale (N : Nat) (alpha a : α) (xs : List α) :
    Spec.ema N alpha (xs.map fun x => a * x) = (Spec.ema N alpha xs).map fun v => a * v := by
  have := C04.ema_affine N alpha a 0 xs
  simpa using this

theorem cumulative_scale (N : Nat) (a : α) (xs : List α) :
    Spec.cumulative N (xs.map fun x => a * x) = (Spec.cumulative N xs).map fun v => a * v := by
  cases xs with
  | nil => simp [Spec.cumulative]
  | cons x r =>
    simp only [Spec.cumulative, List.map_cons, List.isEmpty_cons, Bool.false_eq_true, if_false, Option.map_some]
    rw [← List.map_cons, lastN_map, sumL_map_mul]

/-! ### Min / Max under monotone and antitone maps -/
theorem minL_map_mono (f : α → α) (hf : StrictMono f) (l : List α) : minL (l.map f) = (minL l).map f := by
  cases hm : minL l with
  | none => have := (MinMax.minL_none l).mp hm; subst this; simp [minL]
  | some m =>
    obtain ⟨hmem, hle⟩ := MinMax.minL_least l m hm
    apply MinMax.minL_eq_of_least
    exact ⟨List.mem_map_of_mem hmem, fun y hy => by
      obtain ⟨x, hx, rfl⟩ := List.mem_map.mp hy
      exact hf.monotone (hle x hx)⟩

theorem maxL_map_mono (f : α → α) (hf : StrictMono f) (l : List α) : maxL (l.map f) = (maxL l).map f := by
  cases hm : maxL l with
  | none => have := (MinMax.maxL_none l).mp hm; subst this; simp [maxL]
  | some m =>
    obtain ⟨hmem, hle⟩ := MinMax.maxL_greatest l m hm
    apply MinMax.maxL_eq_of_greatest
    exact ⟨List.mem_map_of_mem hmem, fun y hy => by
      obtain ⟨x, hx, rfl⟩ := List.mem_map.mp hy
      exact hf.monotone (hle x hx)⟩

theorem minL_map_anti (f : α → α) (hf : StrictAnti f) (l : List α) : minL (l.map f) = (maxL l).map f := by
  cases hm : maxL l with
  | none => have := (MinMax.maxL_none l).mp hm; subst this; simp [minL]
  | some m =>
    obtain ⟨hmem, hle⟩ := MinMax.maxL_greatest l m hm
    apply MinMax.minL_eq_of_least
    exact ⟨List.mem_map_of_mem hmem, fun y hy => by
      obtain ⟨x, hx, rfl⟩ := List.mem_map.mp hy
      exact hf.antitone (hle x hx)⟩

theorem maxL_map_anti (f : α → α) (hf : StrictAnti f) (l : List α) : maxL (l.map f) = (minL l).map f := by
  cases hm : minL l with
  | none => have := (MinMax.minL_none l).mp hm; subst this; simp [maxL]
  | some m =>
    obtain ⟨hmem, hle⟩ := MinMax.minL_least l m hm
    apply MinMax.maxL_eq_of_greatest
    exact ⟨List.mem_map_of_mem hmem, fun y hy => by
      obtain ⟨x, hx, rfl⟩ := List.mem_map.mp hy
      exact hf.antitone (hle x hx)⟩

/-- Min and Max scale by a > 0 (indeed commute with every strictly increasing map, e.g. x ↦ a·x + b) -/
theorem min_scale (N : Nat) (a b : α) (ha : 0 < a) (xs : List α) :
    Spec.wmin N (xs.map fun x => a * x + b) = (Spec.wmin N xs).map fun v => a * v + b := by
  simp only [Spec.wmin, lastN_map]
  exact minL_map_mono _ (fun x y h => by simpa using (mul_lt_mul_of_pos_left h ha)) _

theorem max_scale (N : Nat) (a b : α) (ha : 0 < a) (xs : List α) :
    Spec.wmax N (xs.map fun x => a * x + b) = (Spec.wmax N xs).map fun v => a * v + b := by
  simp only [Spec.wmax, lastN_map]
  exact maxL_map_mono _ (fun x y h => by simpa using (mul_lt_mul_of_pos_left h ha)) _

/-- negating the input swaps Min with −Max -/
theorem min_neg (N : Nat) (xs : List α) :
    Spec.wmin N (xs.map fun x => -x) = (Spec.wmax N xs).map fun v => -v := by
  simp only [Spec.wmin, Spec.wmax, lastN_map]
  exact minL_map_anti _ (fun x y h => neg_lt_neg h) _

theorem max_neg (N : Nat) (xs : List α) :
    Spec.wmax N (xs.map fun x => -x) = (Spec.wmin N xs).map fun v => -v := by
  simp only [Spec.wmin, Spec.wmax, lastN_map]
  exact maxL_map_anti _ (fun x y h => neg_lt_neg h) _

/-! ### LnReturn and Drawdown: scale invariance -/
theorem lnReturn_scale [Transc α] (a : α) (ha : a ≠ 0) (xs : List α) :
    Spec.lnReturn (xs.map fun x => a * x) = Spec.lnReturn xs := by
  simp only [Spec.lnReturn, ← List.map_reverse]
  cases xs.reverse with
  | nil => rfl
  | cons x r =>
    cases r with
    | nil => rfl
    | cons p r' =>
      simp only [List.map_cons]
      by_cases hp : p = 0
      · subst hp; simp
      · rw [mul_div_mul_left _ _ ha]

theorem drawdown_scale (a : α) (ha : 0 < a) (xs : List α) :
    Spec.drawdown (xs.map fun x => a * x) = Spec.drawdown xs := by
  rw [Rolling.drawdown_eq_fold, Rolling.drawdown_eq_fold]
  have key : ∀ xs : List α, Rolling.ddFold (xs.map fun x => a * x) =
      ((Rolling.ddFold xs).1.map (fun p => a * p), (Rolling.ddFold xs).2) := by
    intro xs
    induction xs using List.reverseRecOn with
    | nil => simp [Rolling.ddFold]
    | append_singleton xs x ih =>
      rw [List.map_append, List.map_singleton, Rolling.ddFold_snoc, Rolling.ddFold_snoc, ih]
      generalize Rolling.ddFold xs = acc
      obtain ⟨o, d⟩ := acc
      cases o with
      | none => simp only [Option.map_none, Option.map_some, sub_self, zero_div]
      | some p =>
        simp only [Option.map_some]
        have hlt : (a * p < a * x) ↔ (p < x) := by
          constructor
          · intro h; exact lt_of_mul_lt_mul_left h ha.le
          · intro h; exact mul_lt_mul_of_pos_left h ha
        by_cases hc : p < x
        · simp only [hlt.mpr hc, hc, if_true, sub_self, zero_div]
        · have hc' : ¬ a * p < a * x := fun h => hc (hlt.mp h)
          simp only [hc, hc', if_false]
          have e : (a * p - a * x) / (a * p) = (p - x) / p := by
            rw [← mul_sub, mul_div_mul_left _ _ ha.ne']
          rw [e]
  rw [key]


/-! ### HLNormalizer: invariant under x ↦ a·x + b (a > 0), negated by negation -/
theorem hln_affine (N : Nat) (a b : α) (ha : 0 < a) (xs : List α) :
    Spec.hln N (xs.map fun x => a * x + b) = Spec.hln N xs := by
  have hf : StrictMono fun x : α => a * x + b := fun x y h => by simp only; nlinarith
  simp only [Spec.hln, lastN_map, minL_map_mono _ hf, maxL_map_mono _ hf, List.getLast?_map]
  cases h1 : minL (lastN N xs) <;> cases h2 : maxL (lastN N xs) <;> cases h3 : xs.getLast? <;>
    simp only [Option.map_some, Option.map_none]
  rename_i lo hi x
  by_cases he : hi = lo
  · simp [he]
  · have hne : ¬ (a * hi + b = a * lo + b) := by
      intro h; apply he; have : a * (hi - lo) = 0 := by linarith
      rcases mul_eq_zero.mp this with h | h
      · exact absurd h ha.ne'
      · linarith
    simp only [beq_iff_eq, he, hne, if_false, Option.some.injEq, nat_eq]
    have hd : hi - lo ≠ 0 := sub_ne_zero.mpr he
    have hd2 : a * hi + b - (a * lo + b) = a * (hi - lo) := by ring
    rw [hd2]; field_simp; ring

theorem hln_neg (N : Nat) (xs : List α) :
    Spec.hln N (xs.map fun x => -x) = (Spec.hln N xs).map fun v => -v := by
  have hf : StrictAnti fun x : α => -x := fun x y h => by simp only; linarith
  simp only [Spec.hln, lastN_map, minL_map_anti _ hf, maxL_map_anti _ hf, List.getLast?_map]
  cases h1 : minL (lastN N xs) <;> cases h2 : maxL (lastN N xs) <;> cases h3 : xs.getLast? <;> simp [nat_eq]
  rename_i lo hi x
  by_cases he : hi = lo
  · simp [he]
  · have : ¬ (-lo = -hi) := by intro h; apply he; linarith
    have h' : ¬ (lo = hi) := fun h => he h.symm
    simp only [he, h', if_false]
    have hd : hi - lo ≠ 0 := sub_ne_zero.mpr he
    have hd' : -lo + hi ≠ 0 := by intro h; apply hd; linarith
    field_simp; ring

/-! ### NET (Kendall): order-only, so invariant under every strictly increasing map; negated by negation -/
/-! ### NET (Kendall): order-only, invariant under x ↦ a·x + b (a > 0); negated by negation -/
theorem net_affine (N : Nat) (a b : α) (ha : 0 < a) (xs : List α) :
    Spec.net N (xs.map fun x => a * x + b) = Spec.net N xs := by
  simp only [Spec.net, lastN_map, List.length_map, kendall, Invar.kendallNum_affine a b ha]

theorem net_neg (N : Nat) (xs : List α) :
    Spec.net N (xs.map fun x => -x) = (Spec.net N xs).map fun v => -v := by
  simp only [Spec.net, lastN_map, List.length_map, kendall, Invar.kendallNum_neg]
  split <;> simp [neg_div]

/-! ### BinaryEntropy: only signs matter -/
theorem entropy_scale [Transc α] (N : Nat) (a : α) (ha : 0 < a) (xs : List α) :
    Spec.entropy N (xs.map fun x => a * x) = Spec.entropy N xs := by
  simp only [Spec.entropy, lastN_map, List.isEmpty_map, List.length_map, List.filter_map]
  have : ((fun x : α => decide (nat 0 ≤ x)) ∘ fun x => a * x) = fun x : α => decide (nat 0 ≤ x) := by
    funext x; simp only [Function.comp, nat_eq, Nat.cast_zero]
    congr 1; exact propext (mul_nonneg_iff_of_pos_left ha)
  rw [this]

/-! ### Rsi, MyRSI: ratios of sums of changes -/
/-- Rsi is unchanged by a change of unit -/
theorem rsi_scale (N : Nat) (a : α) (ha : 0 < a) (xs : List α) :
    Spec.rsi N (xs.map fun x => a * x) = Spec.rsi N xs := by
  simp only [Spec.rsi, List.length_map, List.isEmpty_map, Invar.gains_scale N a ha, Invar.losses_scale N a ha]
  split
  · rfl
  · simp only [Option.some.injEq, nat_eq, Nat.cast_zero]
    by_cases hL : losses N xs = 0
    · simp [hL]
    · have : ¬ (a * losses N xs = 0) := mul_ne_zero ha.ne' hL
      simp only [beq_iff_eq, hL, this, if_false]
      have : ∀ c : α, c * (a * gains N xs) / (a * gains N xs + a * losses N xs) = c * gains N xs / (gains N xs + losses N xs) := by
        intro c; rw [← mul_add, show c * (a * gains N xs) = a * (c * gains N xs) by ring, mul_div_mul_left _ _ ha.ne']
      exact this _

/-- MyRSI is unchanged by a change of unit (including the values it holds on flat windows) -/
theorem myRsiHold_scale (N : Nat) (a : α) (ha : 0 < a) (xs : List α) :
    Spec.myRsiHold N (xs.map fun x => a * x) = Spec.myRsiHold N xs := by
  induction xs using List.reverseRecOn with
  | nil => rfl
  | append_singleton xs x ih =>
    have e : (xs ++ [x]).map (fun x => a * x) = xs.map (fun x => a * x) ++ [a * x] := by simp
    rw [e, C05.myrsi_hold_step, ← e, Invar.gains_scale N a ha, Invar.losses_scale N a ha, ih, C05.myrsi_hold_step]
    by_cases h0 : gains N (xs ++ [x]) + losses N (xs ++ [x]) = 0
    · have : a * gains N (xs ++ [x]) + a * losses N (xs ++ [x]) = 0 := by rw [← mul_add, h0, mul_zero]
      rw [if_pos h0, if_pos this]
    · have : ¬ (a * gains N (xs ++ [x]) + a * losses N (xs ++ [x]) = 0) := by
        rw [← mul_add]; exact mul_ne_zero ha.ne' h0
      rw [if_neg h0, if_neg this, ← mul_add, ← mul_sub, mul_div_mul_left _ _ ha.ne']

theorem myrsi_scale (N : Nat) (a : α) (ha : 0 < a) (xs : List α) :
    Spec.myRsi N (xs.map fun x => a * x) = Spec.myRsi N xs := by
  simp only [Spec.myRsi, List.length_map, myRsiHold_scale N a ha]

/-! ### CenterOfGravity: a ratio of two sums that both scale -/
theorem cog_scale (N : Nat) (a : α) (ha : 0 < a) (xs : List α) :
    Spec.cog N (xs.map fun x => a * x) = Spec.cog N xs := by
  simp only [Spec.cog, lastN_map, List.isEmpty_map, List.length_map]
  split
  · rfl
  · simp only [Option.some.injEq]
    have hden : sumL ((lastN N xs).map fun x => a * x) = a * sumL (lastN N xs) := sumL_map_mul a _
    have hnum : sumL (((lastN N xs).map fun x => a * x).reverse.zipIdx.map fun (x, k) => nat (k + 1) * x) =
        a * sumL ((lastN N xs).reverse.zipIdx.map fun (x, k) => nat (k + 1) * x) := by
      rw [← sumL_map_mul, ← List.map_reverse, List.zipIdx_map, List.map_map, List.map_map]
      congr 1; apply List.map_congr_left; intro ⟨x, k⟩ _
      simp only [Function.comp, Prod.map, id]; ring
    rw [hden, hnum]
    by_cases h0 : sumL (lastN N xs) = 0
    · simp [h0, nat_eq]
    · have : ¬ (a * sumL (lastN N xs) = 0) := mul_ne_zero ha.ne' h0
      simp only [beq_iff_eq, nat_eq, Nat.cast_zero, h0, this, if_false]
      rw [mul_div_mul_left _ _ ha.ne']

/-! ### Roc, LaguerreRSI, the Fisher transform (any ordered field) -/
section more_field
variable [Transc α]
/-- **Roc is invariant under x ↦ a·x (a ≠ 0)**, held outputs included -/
theorem roc_scale (N : Nat) (a : α) (ha : a ≠ 0) (xs : List α) : Spec.roc N (xs.map fun x => a * x) = Spec.roc N xs :=
  Inv3.roc_scale N a ha xs
/-- **LaguerreRSI is invariant under x ↦ a·x, a > 0**, held outputs included -/
theorem laguerreRsi_scale (N : Nat) (a : α) (ha : 0 < a) (xs : List α) :
    Spec.laguerreRsi N (xs.map fun x => a * x) = Spec.laguerreRsi N xs := Inv3.laguerreRsi_scale N a ha xs
/-- **EhlersFisherTransform is invariant under x ↦ a·x + b, a > 0**, for every smoothing average -/
theorem fisher_affine (N : Nat) (ma : List α → Option α) (a b : α) (ha : 0 < a) (xs : List α) :
    Spec.fisher N ma (xs.map fun x => a * x + b) = Spec.fisher N ma xs := Inv5.fisher_affine N ma a b ha xs
end more_field

end SF.C12

namespace SF.C12.Real
open SF SF.Spec
/-- **WelfordOnline scales with the unit and ignores an offset**: std of the window of a·x + b is a·std, a > 0 -/
theorem welford_affine (N : Nat) (a b : ℝ) (ha : 0 < a) (xs : List ℝ) :
    Spec.welford N (xs.map fun x => a * x + b) = (Spec.welford N xs).map fun s => a * s := Inv2.welford_affine N a b ha xs
/-- **Vsct is invariant under x ↦ a·x + b (a > 0)**, flat windows included -/
theorem vsct_affine (N : Nat) (hN : 0 < N) (a b : ℝ) (ha : 0 < a) (xs : List ℝ) :
    Spec.vsct N (xs.map fun x => a * x + b) = Spec.vsct N xs := Inv2.vsct_affine N hN a b ha xs
/-- **negating the input negates Vsct** -/
theorem vsct_neg (N : Nat) (hN : 0 < N) (xs : List ℝ) :
    Spec.vsct N (xs.map fun x => -x) = (Spec.vsct N xs).map fun v => -v := Inv2.vsct_neg N hN xs
/-- **Vst is invariant under x ↦ a·x (a > 0) whenever the window is not flat** (on a flat window it reports the value itself) -/
theorem vst_scale (N : Nat) (a : ℝ) (ha : 0 < a) (xs : List ℝ) (sd : ℝ) (hsd : Spec.welford N xs = some sd) (hne : sd ≠ 0) :
    Spec.vst N (xs.map fun x => a * x) = Spec.vst N xs := Inv2.vst_scale N a ha xs sd hsd hne
/-- **negating the input negates Vst** -/
theorem vst_neg (N : Nat) (xs : List ℝ) (hx : xs ≠ []) :
    Spec.vst N (xs.map fun x => -x) = (Spec.vst N xs).map fun v => -v := Inv2.vst_neg N xs hx
/-- **CTI (on a full window: the Pearson index) is invariant under x ↦ a·x + b, a > 0, and is negated by x ↦ −x** -/
theorem cti_affine (N : Nat) (a b : ℝ) (ha : 0 < a) (xs : List ℝ) :
    Spec.cti N (xs.map fun x => a * x + b) = Spec.cti N xs := Inv2.cti_affine N a b ha xs
theorem cti_neg (N : Nat) (xs : List ℝ) :
    Spec.cti N (xs.map fun x => -x) = (Spec.cti N xs).map fun v => -v := Inv2.cti_neg N xs
/-- **TrendFlex and ReFlex are invariant under x ↦ a·x, a > 0, and negated by x ↦ −x** (held outputs of ReFlex included) -/
theorem trendFlex_scale (N : Nat) (a : ℝ) (ha : 0 < a) (xs : List ℝ) :
    Spec.trendFlex N (xs.map fun x => a * x) = Spec.trendFlex N xs := Inv4.trendFlex_scale N a ha xs
theorem reFlex_scale (N : Nat) (a : ℝ) (ha : 0 < a) (xs : List ℝ) :
    Spec.reFlex N (xs.map fun x => a * x) = Spec.reFlex N xs := Inv4.reFlex_scale N a ha xs
theorem trendFlex_neg (N : Nat) (xs : List ℝ) :
    Spec.trendFlex N (xs.map fun x => -x) = (Spec.trendFlex N xs).map fun v => -v := Inv4.trendFlex_neg N xs
theorem reFlex_neg (N : Nat) (xs : List ℝ) :
    Spec.reFlex N (xs.map fun x => -x) = (Spec.reFlex N xs).map fun v => -v := Inv4.reFlex_neg N xs
end SF.C12.Real

/-! ### "every linear filter scales by a": homogeneity of the recursive / weighted linear views, as the special case
b = 0 of superposition (C10).  Any a (also 0 and negative), every window length, every history. -/
namespace SF.C12
open SF SF.Spec
set_option linter.unusedSectionVars false
variable {α : Type} [Field α] [LinearOrder α] [IsStrictOrderedRing α] [FloatLike α] [ExactScalar α]

theorem lin_self_scale (a : α) (xs : List α) : Linear.lin a 0 xs xs = xs.map fun x => a * x := by
  induction xs with
  | nil => rfl
  | cons x r ih =>
    simp only [Linear.lin, List.zipWith_cons_cons, List.map_cons] at ih ⊢
    rw [ih]; congr 1; ring

theorem olin_self_scale (a : α) (o : Option α) : Linear.olin a 0 o o = o.map fun v => a * v := by
  cases o with
  | none => rfl
  | some v => simp [Linear.olin]

theorem superSmoother_scale [Transc α] (N : Nat) (a : α) (xs : List α) :
    Spec.superSmoother N (xs.map fun x => a * x) = (Spec.superSmoother N xs).map fun v => a * v := by
  rw [← lin_self_scale, C10.superSmoother_linear N a 0 xs xs rfl, olin_self_scale]

theorem laguerre_scale [Transc α] (g a : α) (xs : List α) :
    Spec.laguerreFilter g (xs.map fun x => a * x) = (Spec.laguerreFilter g xs).map fun v => a * v := by
  rw [← lin_self_scale, C10.laguerre_linear g a 0 xs xs rfl, olin_self_scale]

theorem roofing_scale [Transc α] (N M' : Nat) (a : α) (xs : List α) :
    Spec.roofing N M' (xs.map fun x => a * x) = (Spec.roofing N M' xs).map fun v => a * v := by
  rw [← lin_self_scale, C10.roofing_linear N M' a 0 xs xs rfl, olin_self_scale]

theorem cyberCycle_scale [Transc α] (N : Nat) (a : α) (xs : List α) :
    Spec.cyberCycle N (xs.map fun x => a * x) = (Spec.cyberCycle N xs).map fun v => a * v := by
  rw [← lin_self_scale, C10.cyberCycle_linear N a 0 xs xs rfl, olin_self_scale]

/-- Alma (under C10's hypothesis that the window's weight sum is non-zero — true for the positive Gaussian weights) -/
theorem alma_scale [Transc α] (N : Nat) (sigma offset a : α) (xs : List α)
    (hden : ∀ zs : List α, zs.length = xs.length → zs ≠ [] →
      sumL ((lastN N zs).zipIdx.map fun (_, j) => gauss (offset * (nat N + nat 1)) (nat N / sigma)
        (min (zs.length - (lastN N zs).length + j) (N - 1))) ≠ 0) :
    Spec.alma N sigma offset (xs.map fun x => a * x) = (Spec.alma N sigma offset xs).map fun v => a * v := by
  rw [← lin_self_scale]
  change Spec.alma N sigma offset (C10.lin a 0 xs xs) = _
  rw [C10.alma_linear N sigma offset a 0 xs xs rfl hden]
  exact olin_self_scale a _

/-- … and the state machines themselves: e.g. the CyberCycle view of a·x (N ≥ 6), through C11 -/
theorem cyberCycle_view_scale [Transc α] (N : Nat) (hN : 6 ≤ N) (a : α) (xs : List α) :
    (ccCoreU (α := α) N).outAfter (xs.map fun x => a * x) = .ok ((Spec.cyberCycle N xs).map fun v => a * v) := by
  rw [C11.cyberCycle_eq N hN, cyberCycle_scale]

end SF.C12
