import SF.Props.C04
import SF.Props.C10
import SF.Props.C13
import Mathlib.Data.List.Induction
/-
  C12 — Normalised indicators are invariant to units, offset and sign.
  Stated on the batch definitions (equal to the state machines by C02 / C04 / C13) for all a > 0, all b, every N and
  every history.  Views proved so far: Sma, Ema, Cumulative (homogeneity), Min / Max (homogeneity and the Min/Max swap
  under negation), LnReturn and Drawdown (scale invariance).  The remaining views of the statement are decided by the
  exact relational runs of `./check C12`; see DESIGN.md for the list.
-/
namespace SF.C12
open SF SF.Spec
set_option linter.unusedSectionVars false
variable {α : Type} [Field α] [LinearOrder α] [IsStrictOrderedRing α] [FloatLike α] [ExactScalar α]

/-! ### homogeneity of the linear averages -/
theorem sma_scale (N : Nat) (hN : 0 < N) (a : α) (xs : List α) :
    Spec.sma N (xs.map fun x => a * x) = (Spec.sma N xs).map fun v => a * v := by
  have := C04.sma_affine N hN a 0 xs
  simpa using this

theorem ema_scale (N : Nat) (alpha a : α) (xs : List α) :
    Spec.ema N alpha (xs.map fun x => a * x) = (Spec.ema N alpha xs).map fun v => a * v := by
  have := C04.ema_affine N alpha a 0 xs
  simpa using this

theorem cumulative_scale (N : Nat) (a : α) (xs : List α) :
    Spec.cumulative N (xs.map fun x => a * x) = (Spec.cumulative N xs).map fun v => a * v := by
  cases xs with
  | nil => simp [Spec.cumulative]
  | cons x r =>
    simp only [Spec.cumulative, List.map_cons, List.isEmpty_cons, Bool.false_eq_true, if_false, Option.map_some]
    rw [← List.map_cons, lastN_map, sumL_map_mul]

/-! ### Min / Max under monotone and antitone maps -/
theorem minL_map_mono (f : α → α) (hf : StrictMono f) (l : List α) : minL (l.map f) = (minL l).map f := by
  cases hm : minL l with
  | none => have := (MinMax.minL_none l).mp hm; subst this; simp [minL]
  | some m =>
    obtain ⟨hmem, hle⟩ := MinMax.minL_least l m hm
    apply MinMax.minL_eq_of_least
    exact ⟨List.mem_map_of_mem hmem, fun y hy => by
      obtain ⟨x, hx, rfl⟩ := List.mem_map.mp hy
      exact hf.monotone (hle x hx)⟩

theorem maxL_map_mono (f : α → α) (hf : StrictMono f) (l : List α) : maxL (l.map f) = (maxL l).map f := by
  cases hm : maxL l with
  | none => have := (MinMax.maxL_none l).mp hm; subst this; simp [maxL]
  | some m =>
    obtain ⟨hmem, hle⟩ := MinMax.maxL_greatest l m hm
    apply MinMax.maxL_eq_of_greatest
    exact ⟨List.mem_map_of_mem hmem, fun y hy => by
      obtain ⟨x, hx, rfl⟩ := List.mem_map.mp hy
      exact hf.monotone (hle x hx)⟩

theorem minL_map_anti (f : α → α) (hf : StrictAnti f) (l : List α) : minL (l.map f) = (maxL l).map f := by
  cases hm : maxL l with
  | none => have := (MinMax.maxL_none l).mp hm; subst this; simp [minL]
  | some m =>
    obtain ⟨hmem, hle⟩ := MinMax.maxL_greatest l m hm
    apply MinMax.minL_eq_of_least
    exact ⟨List.mem_map_of_mem hmem, fun y hy => by
      obtain ⟨x, hx, rfl⟩ := List.mem_map.mp hy
      exact hf.antitone (hle x hx)⟩

theorem maxL_map_anti (f : α → α) (hf : StrictAnti f) (l : List α) : maxL (l.map f) = (minL l).map f := by
  cases hm : minL l with
  | none => have := (MinMax.minL_none l).mp hm; subst this; simp [maxL]
  | some m =>
    obtain ⟨hmem, hle⟩ := MinMax.minL_least l m hm
    apply MinMax.maxL_eq_of_greatest
    exact ⟨List.mem_map_of_mem hmem, fun y hy => by
      obtain ⟨x, hx, rfl⟩ := List.mem_map.mp hy
      exact hf.antitone (hle x hx)⟩

/-- Min and Max scale by a > 0 (indeed commute with every strictly increasing map, e.g. x ↦ a·x + b) -/
theorem min_scale (N : Nat) (a b : α) (ha : 0 < a) (xs : List α) :
    Spec.wmin N (xs.map fun x => a * x + b) = (Spec.wmin N xs).map fun v => a * v + b := by
  simp only [Spec.wmin, lastN_map]
  exact minL_map_mono _ (fun x y h => by simpa using (mul_lt_mul_of_pos_left h ha)) _

theorem max_scale (N : Nat) (a b : α) (ha : 0 < a) (xs : List α) :
    Spec.wmax N (xs.map fun x => a * x + b) = (Spec.wmax N xs).map fun v => a * v + b := by
  simp only [Spec.wmax, lastN_map]
  exact maxL_map_mono _ (fun x y h => by simpa using (mul_lt_mul_of_pos_left h ha)) _

/-- negating the input swaps Min with −Max -/
theorem min_neg (N : Nat) (xs : List α) :
    Spec.wmin N (xs.map fun x => -x) = (Spec.wmax N xs).map fun v => -v := by
  simp only [Spec.wmin, Spec.wmax, lastN_map]
  exact minL_map_anti _ (fun x y h => neg_lt_neg h) _

theorem max_neg (N : Nat) (xs : List α) :
    Spec.wmax N (xs.map fun x => -x) = (Spec.wmin N xs).map fun v => -v := by
  simp only [Spec.wmin, Spec.wmax, lastN_map]
  exact maxL_map_anti _ (fun x y h => neg_lt_neg h) _

/-! ### LnReturn and Drawdown: scale invariance -/
theorem lnReturn_scale [Transc α] (a : α) (ha : a ≠ 0) (xs : List α) :
    Spec.lnReturn (xs.map fun x => a * x) = Spec.lnReturn xs := by
  simp only [Spec.lnReturn, ← List.map_reverse]
  cases xs.reverse with
  | nil => rfl
  | cons x r =>
    cases r with
    | nil => rfl
    | cons p r' =>
      simp only [List.map_cons]
      by_cases hp : p = 0
      · subst hp; simp
      · rw [mul_div_mul_left _ _ ha]

theorem drawdown_scale (a : α) (ha : 0 < a) (xs : List α) :
    Spec.drawdown (xs.map fun x => a * x) = Spec.drawdown xs := by
  rw [Rolling.drawdown_eq_fold, Rolling.drawdown_eq_fold]
  have key : ∀ xs : List α, Rolling.ddFold (xs.map fun x => a * x) =
      ((Rolling.ddFold xs).1.map (fun p => a * p), (Rolling.ddFold xs).2) := by
    intro xs
    induction xs using List.reverseRecOn with
    | nil => simp [Rolling.ddFold]
    | append_singleton xs x ih =>
      rw [List.map_append, List.map_singleton, Rolling.ddFold_snoc, Rolling.ddFold_snoc, ih]
      generalize Rolling.ddFold xs = acc
      obtain ⟨o, d⟩ := acc
      cases o with
      | none => simp only [Option.map_none, Option.map_some, sub_self, zero_div]
      | some p =>
        simp only [Option.map_some]
        have hlt : (a * p < a * x) ↔ (p < x) := by
          constructor
          · intro h; exact lt_of_mul_lt_mul_left h ha.le
          · intro h; exact mul_lt_mul_of_pos_left h ha
        by_cases hc : p < x
        · simp only [hlt.mpr hc, hc, if_true, sub_self, zero_div]
        · have hc' : ¬ a * p < a * x := fun h => hc (hlt.mp h)
          simp only [hc, hc', if_false]
          have e : (a * p - a * x) / (a * p) = (p - x) / p := by
            rw [← mul_sub, mul_div_mul_left _ _ ha.ne']
          rw [e]
  rw [key]

end SF.C12
