import SF.Lemmas.ReadyStable
import SF.Props.C02
import SF.Props.C04
import SF.Props.C13
import SF.Lemmas.NoPanic
import SF.Props.C01
import SF.Props.C05
import SF.Props.C06
import SF.Props.C11
import SF.Lemmas.DoublePole
/-
  C08 — Readiness: None during warm-up, then a value for ever.
  Warm-up lengths are read off the characterisations: the view reports `some` exactly from the documented value on,
  hence readiness never reverts (the condition is monotone in the number of delivered values).  "Finite" in exact
  arithmetic = the value is an ordinary field element; what matters is that the division / sqrt / ln producing it has
  the spec's denominators, which is part of each characterisation.  A view that has been delivered nothing by its
  inner view never changes its answer (`wrap_idle`).
-/
namespace SF.C08
open SF SF.Spec
set_option linter.unusedSectionVars false
variable {α : Type} [Field α] [LinearOrder α] [IsStrictOrderedRing α] [FloatLike α] [ExactScalar α]

/-- Sma reports nothing for fewer than N delivered values and reports from the N-th on, for ever -/
theorem sma_ready (N : Nat) (hN : 0 < N) (xs : List α) :
    (∃ v, (smaCore (α := α) N).outAfter xs = .ok (some v)) ↔ N ≤ xs.length := by
  rw [C02.sma_eq N hN]
  by_cases h : xs.length < N
  · simp [Spec.sma, h]
  · simp [Spec.sma, h]; omega

theorem ema_ready (N : Nat) (hN : 0 < N) (alpha : α) (xs : List α) :
    (∃ v, (emaCore (α := α) N alpha).outAfter xs = .ok (some v)) ↔ N ≤ xs.length := by
  rw [C04.ema_eq N hN]
  by_cases h : xs.length < N
  · simp [Spec.ema, h]
  · have hne : xs ≠ [] := by intro e; subst e; simp at h; omega
    obtain ⟨x0, r, rfl⟩ := List.exists_cons_of_ne_nil hne
    simp only [Spec.ema, h, if_false, emaRec]; simp only [List.length_cons] at h ⊢; simp; omega

/-- Cumulative, Min, Max report from the 1st value -/
theorem cumulative_ready (N : Nat) (hN : 0 < N) (xs : List α) :
    (∃ v, (cumCore (α := α) N).outAfter xs = .ok (some v)) ↔ 1 ≤ xs.length := by
  rw [C02.cumulative_eq N hN]
  cases xs <;> simp [Spec.cumulative]

theorem min_ready (N : Nat) (hN : 0 < N) (xs : List α) :
    (∃ v, (minCoreU (α := α) N).outAfter xs = .ok (some v)) ↔ 1 ≤ xs.length := by
  rw [C02.min_eq N hN]
  constructor
  · rintro ⟨v, hv⟩
    cases xs with
    | nil => simp [Spec.wmin, minL] at hv
    | cons x r => simp
  · intro h
    cases hm : Spec.wmin N xs with
    | some v => exact ⟨v, rfl⟩
    | none =>
      have := (MinMax.minL_none _).mp hm
      have hl := lastN_length N xs
      rw [this] at hl; simp at hl; omega

theorem max_ready (N : Nat) (hN : 0 < N) (xs : List α) :
    (∃ v, (maxCoreU (α := α) N).outAfter xs = .ok (some v)) ↔ 1 ≤ xs.length := by
  rw [C02.max_eq N hN]
  constructor
  · rintro ⟨v, hv⟩
    cases xs with
    | nil => simp [Spec.wmax, maxL] at hv
    | cons x r => simp
  · intro h
    cases hm : Spec.wmax N xs with
    | some v => exact ⟨v, rfl⟩
    | none =>
      have := (MinMax.maxL_none _).mp hm
      have hl := lastN_length N xs
      rw [this] at hl; simp at hl; omega

section transc
variable [Transc α]
/-- WelfordOnline, Vst, Vsct report exactly from N−1 delivered values on (so: no earlier than N−1, no later than N) -/
theorem welford_ready (N : Nat) (hN : 0 < N) (xs : List α) :
    (∃ v, (welfordCoreU (α := α) N).outAfter xs = .ok (some v)) ↔ N - 1 ≤ xs.length := by
  rw [C02.welford_last_eq N hN]
  by_cases h : xs.length < N - 1
  · simp [Spec.welford, h]; omega
  · simp [Spec.welford, h]; omega

theorem vst_ready (N : Nat) (hN : 0 < N) (xs : List α) :
    (∃ v, (vstCoreU (α := α) N).outAfter xs = .ok (some v)) ↔ N - 1 ≤ xs.length := by
  rw [C02.vst_eq N hN]
  by_cases h : xs.length < N - 1
  · simp [Spec.vst, Spec.welford, h]; omega
  · simp only [Spec.vst, Spec.welford, h, if_false]
    cases xs.getLast? <;> simp <;> omega

theorem vsct_ready (N : Nat) (hN : 0 < N) (xs : List α) :
    (∃ v, (vsctCoreU (α := α) N).outAfter xs = .ok (some v)) ↔ N - 1 ≤ xs.length := by
  rw [C02.vsct_eq N hN]
  by_cases h : xs.length < N - 1
  · simp [Spec.vsct, Spec.welford, h]; omega
  · simp only [Spec.vsct, Spec.welford, h, if_false]
    cases xs.getLast? <;> simp <;> omega

/-- WelfordRolling from the 1st value, LnReturn from the 2nd value (non-zero inputs) -/
theorem welfordRolling_ready (xs : List α) :
    (∃ v, (welfordRollingCore (α := α)).outAfter xs = .ok (some v)) ↔ 1 ≤ xs.length := by
  rw [C13.welfordRolling_last]
  cases xs <;> simp [Spec.welfordRolling]

theorem lnReturn_ready (xs : List α) (hx : ∀ x ∈ xs, x ≠ 0) :
    (∃ v, (lnReturnCore (α := α)).outAfter xs = .ok (some v)) ↔ 2 ≤ xs.length := by
  rw [C13.lnReturn_eq xs hx]
  rcases List.eq_nil_or_concat xs with rfl | ⟨ys, y, rfl⟩
  · simp [Spec.lnReturn]
  · rcases List.eq_nil_or_concat ys with rfl | ⟨zs, z, rfl⟩
    · simp [Spec.lnReturn]
    · simp [Spec.lnReturn]
end transc

/-! ### more documented warm-up lengths -/
/-- Rsi and MyRSI report nothing for fewer than N delivered values and report from the N-th on -/
theorem rsi_ready (N : Nat) (hN : 0 < N) (xs : List α) :
    (∃ v, (rsiCore (α := α) N).outAfter xs = .ok (some v)) ↔ N ≤ xs.length := by
  rw [C05.rsi_eq N hN]
  by_cases h : xs.length < N
  · simp [Spec.rsi, h]
  · have hne : xs ≠ [] := by intro e; subst e; simp at h; omega
    simp [Spec.rsi, h, hne]; omega

theorem myrsi_ready (N : Nat) (hN : 0 < N) (xs : List α) :
    (∃ v, (myRsiCore (α := α) N).outAfter xs = .ok (some v)) ↔ N ≤ xs.length := by
  rw [C05.myrsi_eq N hN]
  by_cases h : xs.length < N
  · simp [Spec.myRsi, h]
  · simp [Spec.myRsi, h]; omega

theorem smoothSeq_head [Transc α] (c : Coef α) (pad : α) (xs : List α) (h : xs ≠ []) : ∃ v, (smoothSeq c pad xs).head? = some v := by
  have hl := SS.foldState_length c pad xs
  rw [SS.smoothSeq_eq]
  cases hh : (SS.foldState c pad xs).1 with
  | nil => rw [hh] at hl; simp at hl; exact absurd hl.symm (by simpa using h)
  | cons v r => exact ⟨v, rfl⟩

/-- SuperSmoother: nothing for fewer than N delivered values, from the N-th on -/
theorem superSmoother_ready [Transc α] (N : Nat) (hN : 0 < N) (xs : List α) :
    (∃ v, (ssCore (α := α) N).outAfter xs = .ok (some v)) ↔ N ≤ xs.length := by
  rw [C11.superSmoother_eq N hN]
  by_cases h : xs.length < N
  · simp [Spec.superSmoother, h]
  · have hne : xs ≠ [] := by intro e; subst e; simp at h; omega
    obtain ⟨v, hv⟩ := smoothSeq_head (Spec.ssCoef N) (nat 0) xs hne
    simp only [Spec.superSmoother, h, if_false, hv]
    simp; omega

/-- RoofingFilter(N, M) reports from value N+M+1 -/
theorem roofing_ready [Transc α] (N M' : Nat) (hM : 0 < M') (xs : List α) :
    (∃ v, (roofCoreU (α := α) N M').outAfter xs = .ok (some v)) ↔ N + M' + 1 ≤ xs.length := by
  rw [C11.roofing_eq N M' hM]
  have hl : ((hpSeq N xs).reverse.drop (N + 1)).length = xs.length - (N + 1) := by
    have := Roof.hpFold_length N xs
    simp only [List.length_drop, List.length_reverse]
    show (Roof.hpFold N xs).1.length - (N + 1) = _
    rw [this]
  by_cases h : ((hpSeq N xs).reverse.drop (N + 1)).length < M'
  · simp only [Spec.roofing, Spec.superSmoother, h, if_true]
    rw [hl] at h; simp; omega
  · have hne : (hpSeq N xs).reverse.drop (N + 1) ≠ [] := by
      intro e; rw [e] at h; simp at h; omega
    obtain ⟨v, hv⟩ := smoothSeq_head (Spec.ssCoef M') (nat 0) _ hne
    simp only [Spec.roofing, Spec.superSmoother, h, if_false, hv]
    rw [hl] at h; simp; omega

/-- Alma, CenterOfGravity, BinaryEntropy, LaguerreFilter report from the 1st value -/
theorem alma_ready [Transc α] (N : Nat) (hN : 0 < N) (sigma offset : α) (xs : List α) :
    (∃ v, (almaCore (α := α) N sigma offset).outAfter xs = .ok (some v)) ↔ 1 ≤ xs.length := by
  rw [C04.alma_eq N hN]
  cases xs <;> simp [Spec.alma]

theorem cog_ready (N : Nat) (hN : 0 < N) (xs : List α) :
    (∃ v, (cogCore (α := α) N).outAfter xs = .ok (some v)) ↔ 1 ≤ xs.length := by
  rw [Cog.outAfter_eq N hN]
  cases xs with
  | nil => simp [Spec.cog, lastN]
  | cons x r =>
    have : lastN N (x :: r) ≠ [] := by
      intro e; have := lastN_length N (x :: r); rw [e] at this; simp at this; omega
    simp [Spec.cog, this]

theorem entropy_ready [Transc α] (N : Nat) (hN : 0 < N) (xs : List α) :
    (∃ v, (bentCore (α := α) N).outAfter xs = .ok (some v)) ↔ 1 ≤ xs.length := by
  rw [C02.entropy_eq N hN]
  cases xs with
  | nil => simp [Spec.entropy, lastN]
  | cons x r =>
    have : lastN N (x :: r) ≠ [] := by
      intro e; have := lastN_length N (x :: r); rw [e] at this; simp at this; omega
    simp [Spec.entropy, this]

theorem laguerreFilter_ready [Transc α] (g : α) (xs : List α) :
    (∃ v, (lagfCore (α := α) g).outAfter xs = .ok (some v)) ↔ 1 ≤ xs.length := by
  rw [C11.laguerreFilter_eq]
  cases xs <;> simp [Spec.laguerreFilter]

/-- readiness never reverts, as a consequence: if the view reports after `xs` it reports after `xs ++ ys` (Sma) -/
theorem sma_ready_stable (N : Nat) (hN : 0 < N) (xs ys : List α)
    (h : ∃ v, (smaCore (α := α) N).outAfter xs = .ok (some v)) :
    ∃ v, (smaCore (α := α) N).outAfter (xs ++ ys) = .ok (some v) := by
  rw [sma_ready N hN] at h ⊢; simp; omega

/-- a view that has been delivered nothing by its inner view never changes its answer: if the inner view reported
`none` at each of `n` steps, the chain's answers are `n` copies of the core's initial answer -/
theorem wrap_idle (A : View α) (B : Core α) (a : A.σ) (b : B.σ) (xs : List α)
    (hA : A.trace a xs = .ok (List.replicate xs.length none)) (o : Option α) (ho : B.out b = .ok o) :
    (wrap A B).trace (a, b) xs = .ok (List.replicate xs.length o) := by
  rw [C01.wrap_trace A B a b xs (allFinite_exact xs) _ hA, Core.feed_idle B b o ho]

/-- combining nodes and Tanh are ready exactly when their children are (C01.binop_last_*, C01.mapV_last_*) -/
theorem binop_ready_iff (f : α → α → M α) (hf : ∀ x y, ∃ r, f x y = .ok r) (A B : View α) (a : A.σ) (b : B.σ)
    (oa ob : Option α) (ha : A.last a = .ok oa) (hb : B.last b = .ok ob) :
    (∃ v, (binop f A B).last (a, b) = .ok (some v)) ↔ (oa.isSome ∧ ob.isSome) := by
  cases oa with
  | none => simp [ha, hb, bind, Except.bind, pure, Except.pure]
  | some x =>
    cases ob with
    | none => simp [ha, hb, bind, Except.bind, pure, Except.pure]
    | some y =>
      obtain ⟨r, hr⟩ := hf x y
      simp [ha, hb, hr, bind, Except.bind, pure, Except.pure]

/-! ### readiness never reverts: one-step form, from ANY state, and its closure under chaining -/
section stable
variable [Transc α]
/-- once `last()` reports a value, one more update cannot make it report `None` — for these cores from any state whatsoever
(Rsi, MyRSI, Alma, CoG, LaguerreFilter, WelfordOnline/Vst/Vsct, RoofingFilter follow from their first-ready index above) -/
theorem core_readyStable (N : Nat) (c a : α) :
    (gteCore c).ReadyStable ∧ (lteCore c).ReadyStable ∧ (drawdownCore (α := α)).ReadyStable ∧
    (welfordRollingCore (α := α)).ReadyStable ∧ (emaCore N a).ReadyStable ∧ (smaCore (α := α) N).ReadyStable ∧
    (cumCore (α := α) N).ReadyStable ∧ (minCoreU (α := α) N).ReadyStable ∧ (maxCoreU (α := α) N).ReadyStable ∧
    (rocCore (α := α) N).ReadyStable ∧ (hlnCore (α := α) N).ReadyStable ∧ (ctiCore (α := α) N).ReadyStable ∧
    (cogCore (α := α) N).ReadyStable ∧ (bentCore (α := α) N).ReadyStable ∧ (ssCore (α := α) N).ReadyStable :=
  ⟨Ready.gte c, Ready.lte c, Ready.drawdown, Ready.welfordRolling, Ready.ema N a, Ready.sma N, Ready.cum N, Ready.min N,
    Ready.max N, Ready.roc N, Ready.hln N, Ready.cti N, Ready.cog N, Ready.entropy N, Ready.superSmoother N⟩

/-- … and TrendFlex, ReFlex (which HOLDS its previous output while its mean square is 0) and NET, from any state -/
theorem flex_net_readyStable (N : Nat) :
    (tflexCore (α := α) N).ReadyStable ∧ (rflexCore (α := α) N).ReadyStable ∧ (netCore (α := α) N).ReadyStable :=
  ⟨Ready.trendFlex N, Ready.reFlex N, Ready.net N⟩

/-- EhlersFisherTransform: from any state and for ANY moving-average view inside it (even one whose own readiness reverted) -/
theorem fisher_readyStable (N : Nat) (ma : View α) : (eftCore N ma).ReadyStable := Ready.eft N ma

/-- **a chain's readiness never reverts if its outermost core's does not** — whatever the inner view does -/
theorem chain_readyStable (A : View α) (B : Core α) (hB : B.ReadyStable) : (wrap A B).ReadyStable :=
  Ready.wrap_readyStable A B hB

/-- Tanh keeps the readiness of its child -/
theorem tanh_readyStable (A : View α) (hA : A.ReadyStable) : (mapV Transc.tanh A).ReadyStable :=
  Ready.mapV_readyStable _ A hA
end stable

end SF.C08

/-! ### readiness of the remaining views, through their batch definitions -/
namespace SF.C08
open SF SF.Spec
variable {α : Type} [Field α] [LinearOrder α] [IsStrictOrderedRing α] [FloatLike α] [ExactScalar α]

/-- NET reports as soon as its window holds two values (never for N = 1), and for ever after -/
theorem net_ready (N : Nat) (hN : 0 < N) (xs : List α) :
    (∃ v, (netCore (α := α) N).outAfter xs = .ok (some v)) ↔ 2 ≤ N ∧ 2 ≤ xs.length := by
  rw [C06.net_eq_kendall N hN]
  have hl := lastN_length N xs
  by_cases h : (lastN N xs).length < 2
  · simp [Spec.net, h]; omega
  · simp [Spec.net, h]; omega

/-- CyberCycle reports from the 1st value -/
theorem cyberCycle_ready [Transc α] (N : Nat) (hN : 6 ≤ N) (xs : List α) :
    (∃ v, (ccCoreU (α := α) N).outAfter xs = .ok (some v)) ↔ 1 ≤ xs.length := by
  rw [C11.cyberCycle_eq N hN, CC.cyberCycle_unfold]
  cases xs with
  | nil => simp
  | cons x r =>
    obtain ⟨v, hv⟩ := DoublePole.C_succ_cons N (x :: r) r.length
    simp [hv]

/-- a fold whose `Option` component is, at every step, either kept or set to a value: once it holds a value it always does -/
theorem fold_opt_stable {σ β γ : Type} (f : σ × Option β → γ → σ × Option β)
    (hf : ∀ acc x, (f acc x).2 = acc.2 ∨ ∃ v, (f acc x).2 = some v) (ys : List γ) (acc : σ × Option β)
    (h : ∃ v, acc.2 = some v) : ∃ v, (ys.foldl f acc).2 = some v := by
  induction ys generalizing acc with
  | nil => simpa using h
  | cons y r ih =>
    simp only [List.foldl_cons]
    apply ih
    rcases hf acc y with e | ⟨v, e⟩
    · rw [e]; exact h
    · exact ⟨v, e⟩

theorem ite_keep_or_some {β : Type} (c : Prop) [Decidable c] (a : Option β) (b : β) :
    (if c then a else some b) = a ∨ ∃ v, (if c then a else some b) = some v := by
  by_cases h : c
  · left; simp [h]
  · right; exact ⟨b, by simp [h]⟩

/-- **LaguerreRSI: readiness never reverts** — if it reports after `xs` it reports after `xs ++ ys`, for every N -/
theorem laguerreRsi_ready_stable [Transc α] (N : Nat) (xs ys : List α)
    (h : ∃ v, (lagRsiCore (α := α) N).outAfter xs = .ok (some v)) :
    ∃ v, (lagRsiCore (α := α) N).outAfter (xs ++ ys) = .ok (some v) := by
  rw [C11.laguerreRsi_eq] at h ⊢
  obtain ⟨v, hv⟩ := h
  have hv := Except.ok.inj hv
  by_cases hl : xs.length < 2
  · have : xs.drop 2 = [] := List.drop_eq_nil_of_le (by omega)
    simp [Spec.laguerreRsi, this] at hv
  · have hd : (xs ++ ys).drop 2 = xs.drop 2 ++ ys := List.drop_append_of_le_length (by omega)
    simp only [Spec.laguerreRsi] at hv ⊢
    rw [hd, List.foldl_append]
    simp only [Except.ok.injEq]
    refine fold_opt_stable _ ?_ ys _ ⟨v, hv⟩
    intro acc x
    exact ite_keep_or_some _ _ _

end SF.C08

/-! ### TrendFlex reports from the 1st value (its zero-mean-square fallback is 0, not "hold") -/
namespace SF.C08
open SF SF.Spec
variable {α : Type} [Field α] [LinearOrder α] [IsStrictOrderedRing α] [FloatLike α] [ExactScalar α]

theorem flexNorm_false_some [Transc α] (ds : List α) (h : ds ≠ []) : ∃ v, Spec.flexNorm false ds = some v := by
  obtain ⟨pre, d, rfl⟩ : ∃ pre d, ds = pre ++ [d] := by
    induction ds using List.reverseRecOn with
    | nil => exact absurd rfl h
    | append_singleton pre d _ => exact ⟨pre, d, rfl⟩
  simp only [Spec.flexNorm, List.foldl_append, List.foldl_cons, List.foldl_nil, Bool.false_eq_true, if_false]
  split
  · exact ⟨_, rfl⟩
  · exact ⟨_, rfl⟩

theorem trendFlex_ready [Transc α] (N : Nat) (hN : 3 ≤ N) (xs : List α) :
    (∃ v, (tflexCore (α := α) N).outAfter xs = .ok (some v)) ↔ 1 ≤ xs.length := by
  rw [C11.trendFlex_eq N hN]
  cases xs with
  | nil => simp [Spec.trendFlex]
  | cons x0 r =>
    simp only [Spec.trendFlex, List.length_cons, Nat.le_add_left, iff_true]
    have hne : ((List.range (smoothSeq (flexCoef N) x0 (x0 :: r)).reverse.length).map fun t =>
        sumL ((List.range (min t (N - 1) + 1)).map fun i =>
          (smoothSeq (flexCoef N) x0 (x0 :: r)).reverse[t]?.getD (nat 0) - (smoothSeq (flexCoef N) x0 (x0 :: r)).reverse[t - i]?.getD (nat 0)) / nat N) ≠ [] := by
      have hl : (smoothSeq (flexCoef (α := α) N) x0 (x0 :: r)).length = (x0 :: r).length := by
        rw [SS.smoothSeq_eq]; exact SS.foldState_length _ _ _
      intro h0
      have := congrArg List.length h0
      simp [hl] at this
    obtain ⟨v, hv⟩ := flexNorm_false_some _ hne
    exact ⟨v, by rw [hv]⟩

end SF.C08
