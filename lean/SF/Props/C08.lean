import SF.Props.C02
import SF.Props.C04
import SF.Props.C13
import SF.Lemmas.NoPanic
import SF.Props.C01
/-
  C08 — Readiness: None during warm-up, then a value for ever.
  Warm-up lengths are read off the characterisations: the view reports `some` exactly from the documented value on,
  hence readiness never reverts (the condition is monotone in the number of delivered values).  "Finite" in exact
  arithmetic = the value is an ordinary field element; what matters is that the division / sqrt / ln producing it has
  the spec's denominators, which is part of each characterisation.  A view that has been delivered nothing by its
  inner view never changes its answer (`wrap_idle`).
-/
namespace SF.C08
open SF SF.Spec
set_option linter.unusedSectionVars false
variable {α : Type} [Field α] [LinearOrder α] [IsStrictOrderedRing α] [FloatLike α] [ExactScalar α]

/-- Sma reports nothing for fewer than N delivered values and reports from the N-th on, for ever -/
theorem sma_ready (N : Nat) (hN : 0 < N) (xs : List α) :
    (∃ v, (smaCore (α := α) N).outAfter xs = .ok (some v)) ↔ N ≤ xs.length := by
  rw [C02.sma_eq N hN]
  by_cases h : xs.length < N
  · simp [Spec.sma, h]
  · simp [Spec.sma, h]; omega

theorem ema_ready (N : Nat) (hN : 0 < N) (alpha : α) (xs : List α) :
    (∃ v, (emaCore (α := α) N alpha).outAfter xs = .ok (some v)) ↔ N ≤ xs.length := by
  rw [C04.ema_eq N hN]
  by_cases h : xs.length < N
  · simp [Spec.ema, h]
  · have hne : xs ≠ [] := by intro e; subst e; simp at h; omega
    obtain ⟨x0, r, rfl⟩ := List.exists_cons_of_ne_nil hne
    simp only [Spec.ema, h, if_false, emaRec]; simp only [List.length_cons] at h ⊢; simp; omega

/-- Cumulative, Min, Max report from the 1st value -/
theorem cumulative_ready (N : Nat) (hN : 0 < N) (xs : List α) :
    (∃ v, (cumCore (α := α) N).outAfter xs = .ok (some v)) ↔ 1 ≤ xs.length := by
  rw [C02.cumulative_eq N hN]
  cases xs <;> simp [Spec.cumulative]

theorem min_ready (N : Nat) (hN : 0 < N) (xs : List α) :
    (∃ v, (minCoreU (α := α) N).outAfter xs = .ok (some v)) ↔ 1 ≤ xs.length := by
  rw [C02.min_eq N hN]
  constructor
  · rintro ⟨v, hv⟩
    cases xs with
    | nil => simp [Spec.wmin, minL] at hv
    | cons x r => simp
  · intro h
    cases hm : Spec.wmin N xs with
    | some v => exact ⟨v, rfl⟩
    | none =>
      have := (MinMax.minL_none _).mp hm
      have hl := lastN_length N xs
      rw [this] at hl; simp at hl; omega

theorem max_ready (N : Nat) (hN : 0 < N) (xs : List α) :
    (∃ v, (maxCoreU (α := α) N).outAfter xs = .ok (some v)) ↔ 1 ≤ xs.length := by
  rw [C02.max_eq N hN]
  constructor
  · rintro ⟨v, hv⟩
    cases xs with
    | nil => simp [Spec.wmax, maxL] at hv
    | cons x r => simp
  · intro h
    cases hm : Spec.wmax N xs with
    | some v => exact ⟨v, rfl⟩
    | none =>
      have := (MinMax.maxL_none _).mp hm
      have hl := lastN_length N xs
      rw [this] at hl; simp at hl; omega

section transc
variable [Transc α]
/-- WelfordOnline, Vst, Vsct report exactly from N−1 delivered values on (so: no earlier than N−1, no later than N) -/
theorem welford_ready (N : Nat) (hN : 0 < N) (xs : List α) :
    (∃ v, (welfordCoreU (α := α) N).outAfter xs = .ok (some v)) ↔ N - 1 ≤ xs.length := by
  rw [C02.welford_last_eq N hN]
  by_cases h : xs.length < N - 1
  · simp [Spec.welford, h]; omega
  · simp [Spec.welford, h]; omega

theorem vst_ready (N : Nat) (hN : 0 < N) (xs : List α) :
    (∃ v, (vstCoreU (α := α) N).outAfter xs = .ok (some v)) ↔ N - 1 ≤ xs.length := by
  rw [C02.vst_eq N hN]
  by_cases h : xs.length < N - 1
  · simp [Spec.vst, Spec.welford, h]; omega
  · simp only [Spec.vst, Spec.welford, h, if_false]
    cases xs.getLast? <;> simp <;> omega

theorem vsct_ready (N : Nat) (hN : 0 < N) (xs : List α) :
    (∃ v, (vsctCoreU (α := α) N).outAfter xs = .ok (some v)) ↔ N - 1 ≤ xs.length := by
  rw [C02.vsct_eq N hN]
  by_cases h : xs.length < N - 1
  · simp [Spec.vsct, Spec.welford, h]; omega
  · simp only [Spec.vsct, Spec.welford, h, if_false]
    cases xs.getLast? <;> simp <;> omega

/-- WelfordRolling from the 1st value, LnReturn from the 2nd value (non-zero inputs) -/
theorem welfordRolling_ready (xs : List α) :
    (∃ v, (welfordRollingCore (α := α)).outAfter xs = .ok (some v)) ↔ 1 ≤ xs.length := by
  rw [C13.welfordRolling_last]
  cases xs <;> simp [Spec.welfordRolling]

theorem lnReturn_ready (xs : List α) (hx : ∀ x ∈ xs, x ≠ 0) :
    (∃ v, (lnReturnCore (α := α)).outAfter xs = .ok (some v)) ↔ 2 ≤ xs.length := by
  rw [C13.lnReturn_eq xs hx]
  rcases List.eq_nil_or_concat xs with rfl | ⟨ys, y, rfl⟩
  · simp [Spec.lnReturn]
  · rcases List.eq_nil_or_concat ys with rfl | ⟨zs, z, rfl⟩
    · simp [Spec.lnReturn]
    · simp [Spec.lnReturn]
end transc

/-- readiness never reverts, as a consequence: if the view reports after `xs` it reports after `xs ++ ys` (Sma) -/
theorem sma_ready_stable (N : Nat) (hN : 0 < N) (xs ys : List α)
    (h : ∃ v, (smaCore (α := α) N).outAfter xs = .ok (some v)) :
    ∃ v, (smaCore (α := α) N).outAfter (xs ++ ys) = .ok (some v) := by
  rw [sma_ready N hN] at h ⊢; simp; omega

/-- a view that has been delivered nothing by its inner view never changes its answer: if the inner view reported
`none` at each of `n` steps, the chain's answers are `n` copies of the core's initial answer -/
theorem wrap_idle (A : View α) (B : Core α) (a : A.σ) (b : B.σ) (xs : List α)
    (hA : A.trace a xs = .ok (List.replicate xs.length none)) (o : Option α) (ho : B.out b = .ok o) :
    (wrap A B).trace (a, b) xs = .ok (List.replicate xs.length o) := by
  rw [C01.wrap_trace A B a b xs (allFinite_exact xs) _ hA, Core.feed_idle B b o ho]

/-- combining nodes and Tanh are ready exactly when their children are (C01.binop_last_*, C01.mapV_last_*) -/
theorem binop_ready_iff (f : α → α → M α) (hf : ∀ x y, ∃ r, f x y = .ok r) (A B : View α) (a : A.σ) (b : B.σ)
    (oa ob : Option α) (ha : A.last a = .ok oa) (hb : B.last b = .ok ob) :
    (∃ v, (binop f A B).last (a, b) = .ok (some v)) ↔ (oa.isSome ∧ ob.isSome) := by
  cases oa with
  | none => simp [ha, hb, bind, Except.bind, pure, Except.pure]
  | some x =>
    cases ob with
    | none => simp [ha, hb, bind, Except.bind, pure, Except.pure]
    | some y =>
      obtain ⟨r, hr⟩ := hf x y
      simp [ha, hb, hr, bind, Except.bind, pure, Except.pure]

end SF.C08
