import SF.Props.C02
import SF.Lemmas.Ema
import SF.Lemmas.SpecFacts
import SF.Lemmas.Alma
import SF.Lemmas.Real
/-
  C04 — Moving averages are genuine averages of their window.
  Sma and Ema (Alma: see the end of the file) in exact arithmetic: interval, constants, monotonicity, affine
  equivariance — stated on the batch definitions and transported to the state machines by the characterisations
  `C02.sma_eq` / `ema_eq`.  Ema's recursion holds for every input including zeros and sign changes.
-/
namespace SF.C04
open SF SF.Spec
set_option linter.unusedSectionVars false
variable {α : Type} [Field α] [LinearOrder α] [IsStrictOrderedRing α] [FloatLike α] [ExactScalar α]

/-! ### Ema = its recursion -/
/-- Ema follows e_0 = x_0, e_t = w·x_t + (1−w)·e_{t−1}, w = alpha/(N+1), for EVERY input (zeros, sign changes),
reported from the N-th value on -/
theorem ema_eq (N : Nat) (hN : 0 < N) (alpha : α) (xs : List α) :
    (emaCore (α := α) N alpha).outAfter xs = .ok (Spec.ema N alpha xs) := Ema.outAfter_eq N hN alpha xs

theorem emaRec_one (w x0 : α) : emaRec w [x0] = some x0 := rfl
theorem emaRec_step (w : α) (xs : List α) (x e : α) (h : emaRec w xs = some e) :
    emaRec w (xs ++ [x]) = some (w * x + (1 - w) * e) := Ema.emaRec_snoc w xs x e h.symm

/-- the default weight 2/(N+1) lies in (0, 1] -/
theorem default_weight (N : Nat) (hN : 0 < N) : 0 < (2 : α) / ((N : α) + 1) ∧ (2 : α) / ((N : α) + 1) ≤ 1 := by
  have h1 : (1 : α) ≤ (N : α) := by exact_mod_cast hN
  have hp : (0 : α) < (N : α) + 1 := by linarith
  exact ⟨div_pos (by norm_num) hp, by rw [div_le_one hp]; linarith⟩

/-! ### Sma -/
/-- Sma never leaves the closed interval spanned by the N values it averages -/
theorem sma_interval (N : Nat) (hN : 0 < N) (xs : List α) (hx : N ≤ xs.length) (lo hi : α)
    (hlo : ∀ x ∈ lastN N xs, lo ≤ x) (hhi : ∀ x ∈ lastN N xs, x ≤ hi) :
    ∃ v, Spec.sma N xs = some v ∧ lo ≤ v ∧ v ≤ hi := by
  have hne : lastN N xs ≠ [] := by
    intro h; have hl := lastN_length N xs; rw [h, Nat.min_eq_left hx] at hl; simp at hl; omega
  have hlen : ((lastN N xs).length : α) = (N : α) := by rw [lastN_length, Nat.min_eq_left hx]
  have := mean_mem_Icc (lastN N xs) hne lo hi hlo hhi
  rw [hlen] at this
  exact ⟨_, C02.sma_spec N xs hx, this.1, this.2⟩

/-- Sma reproduces a constant input exactly -/
theorem sma_const (N : Nat) (hN : 0 < N) (c : α) (L : Nat) (hL : N ≤ L) :
    Spec.sma N (List.replicate L c) = some c := by
  rw [C02.sma_spec N _ (by simpa using hL)]
  have : lastN N (List.replicate L c) = List.replicate N c := by
    simp [lastN]; omega
  rw [this, sumL_const]
  have hN0 : (N : α) ≠ 0 := by exact_mod_cast hN.ne'
  field_simp

/-- Sma is monotone: raising any input never lowers the output -/
theorem sma_mono (N : Nat) (hN : 0 < N) (xs ys : List α) (h : List.Forall₂ (· ≤ ·) xs ys) (hx : N ≤ xs.length) :
    ∃ u v, Spec.sma N xs = some u ∧ Spec.sma N ys = some v ∧ u ≤ v := by
  have hy : N ≤ ys.length := by rw [← h.length_eq]; exact hx
  refine ⟨_, _, C02.sma_spec N xs hx, C02.sma_spec N ys hy, ?_⟩
  have hp : (0 : α) < (N : α) := by exact_mod_cast hN
  exact div_le_div_of_nonneg_right (sumL_mono _ _ (lastN_forall₂ N xs ys h)) hp.le

/-- Sma commutes with x ↦ a·x + b -/
theorem sma_affine (N : Nat) (hN : 0 < N) (a b : α) (xs : List α) :
    Spec.sma N (xs.map fun x => a * x + b) = (Spec.sma N xs).map fun v => a * v + b := by
  by_cases hx : xs.length < N
  · simp [Spec.sma, hx]
  · have hx' : N ≤ xs.length := by omega
    rw [C02.sma_spec N xs hx', C02.sma_spec N _ (by simpa using hx'), lastN_map, sumL_map_affine]
    have hlen : ((lastN N xs).length : α) = (N : α) := by rw [lastN_length, Nat.min_eq_left hx']
    have hN0 : (N : α) ≠ 0 := by exact_mod_cast hN.ne'
    simp only [Option.map_some, hlen]; congr 1; field_simp

/-! ### Ema: the recursion is a convex combination when 0 ≤ w ≤ 1 -/
theorem emaRec_interval (w : α) (hw0 : 0 ≤ w) (hw1 : w ≤ 1) (xs : List α) (lo hi : α)
    (hlo : ∀ x ∈ xs, lo ≤ x) (hhi : ∀ x ∈ xs, x ≤ hi) (v : α) (h : emaRec w xs = some v) : lo ≤ v ∧ v ≤ hi := by
  cases xs with
  | nil => simp [emaRec] at h
  | cons x0 r =>
    simp only [emaRec, Option.some.injEq] at h
    subst h
    have key : ∀ (r : List α) (e : α), lo ≤ e → e ≤ hi → (∀ x ∈ r, lo ≤ x) → (∀ x ∈ r, x ≤ hi) →
        lo ≤ r.foldl (fun e x => w * x + (nat 1 - w) * e) e ∧ r.foldl (fun e x => w * x + (nat 1 - w) * e) e ≤ hi := by
      intro r
      induction r with
      | nil => intro e h1 h2 _ _; exact ⟨h1, h2⟩
      | cons y r ih =>
        intro e h1 h2 hl hh
        simp only [List.foldl_cons]
        have hy1 := hl y (by simp); have hy2 := hh y (by simp)
        have h1w : 0 ≤ 1 - w := by linarith
        apply ih
        · simp only [nat_eq, Nat.cast_one]; nlinarith
        · simp only [nat_eq, Nat.cast_one]; nlinarith
        · exact fun x hx => hl x (by simp [hx])
        · exact fun x hx => hh x (by simp [hx])
    exact key r x0 (hlo x0 (by simp)) (hhi x0 (by simp)) (fun x hx => hlo x (by simp [hx])) (fun x hx => hhi x (by simp [hx]))

/-- Ema (default alpha) never leaves the interval spanned by ALL values so far -/
theorem ema_interval (N : Nat) (hN : 0 < N) (xs : List α) (lo hi : α)
    (hlo : ∀ x ∈ xs, lo ≤ x) (hhi : ∀ x ∈ xs, x ≤ hi) (v : α) (h : Spec.ema N 2 xs = some v) : lo ≤ v ∧ v ≤ hi := by
  simp only [Spec.ema] at h
  split at h
  · simp at h
  · have hw := default_weight (α := α) N hN
    have e : (2 : α) / (nat N + nat 1) = 2 / ((N : α) + 1) := by simp
    rw [e] at h
    exact emaRec_interval _ hw.1.le hw.2 xs lo hi hlo hhi v h

theorem emaRec_const (w c : α) (L : Nat) : emaRec w (List.replicate (L + 1) c) = some c := by
  simp only [List.replicate_succ, emaRec]
  congr 1
  induction L with
  | zero => simp
  | succ L ih => simp only [List.replicate_succ, List.foldl_cons]; rw [show w * c + (nat 1 - w) * c = c by simp; ring]; exact ih

/-- Ema reproduces a constant input exactly (any weight) -/
theorem ema_const (N : Nat) (hN : 0 < N) (alpha c : α) (L : Nat) (hL : N ≤ L) :
    Spec.ema N alpha (List.replicate L c) = some c := by
  obtain ⟨L', rfl⟩ : ∃ L', L = L' + 1 := ⟨L - 1, by omega⟩
  have : ¬ (List.replicate (L' + 1) c).length < N := by simp; omega
  simp only [Spec.ema, this, if_false]
  exact emaRec_const _ c L'

theorem emaRec_affine (w a b : α) (xs : List α) :
    emaRec w (xs.map fun x => a * x + b) = (emaRec w xs).map fun v => a * v + b := by
  cases xs with
  | nil => simp [emaRec]
  | cons x0 r =>
    simp only [List.map_cons, emaRec, Option.map_some, Option.some.injEq]
    induction r generalizing x0 with
    | nil => simp
    | cons y r ih =>
      simp only [List.map_cons, List.foldl_cons]
      rw [show w * (a * y + b) + (nat 1 - w) * (a * x0 + b) = a * (w * y + (nat 1 - w) * x0) + b by simp; ring]
      exact ih _

/-- Ema commutes with x ↦ a·x + b -/
theorem ema_affine (N : Nat) (alpha a b : α) (xs : List α) :
    Spec.ema N alpha (xs.map fun x => a * x + b) = (Spec.ema N alpha xs).map fun v => a * v + b := by
  simp only [Spec.ema, List.length_map]
  split
  · simp
  · exact emaRec_affine _ a b xs

theorem emaRec_mono (w : α) (hw0 : 0 ≤ w) (hw1 : w ≤ 1) (xs ys : List α) (h : List.Forall₂ (· ≤ ·) xs ys)
    (u v : α) (hu : emaRec w xs = some u) (hv : emaRec w ys = some v) : u ≤ v := by
  cases h with
  | nil => simp [emaRec] at hu
  | @cons x0 y0 r r' h0 hr =>
    simp only [emaRec, Option.some.injEq] at hu hv
    subst hu; subst hv
    have key : ∀ (r r' : List α), List.Forall₂ (· ≤ ·) r r' → ∀ e e' : α, e ≤ e' →
        r.foldl (fun e x => w * x + (nat 1 - w) * e) e ≤ r'.foldl (fun e x => w * x + (nat 1 - w) * e) e' := by
      intro r r' hr
      induction hr with
      | nil => intro e e' h; exact h
      | cons hab _ ih =>
        intro e e' he
        simp only [List.foldl_cons]
        apply ih
        have h1w : 0 ≤ 1 - w := by linarith
        simp only [nat_eq, Nat.cast_one]; nlinarith
    exact key r r' hr x0 y0 h0

/-- Ema (default alpha) is monotone -/
theorem ema_mono (N : Nat) (hN : 0 < N) (xs ys : List α) (h : List.Forall₂ (· ≤ ·) xs ys)
    (u v : α) (hu : Spec.ema N 2 xs = some u) (hv : Spec.ema N 2 ys = some v) : u ≤ v := by
  simp only [Spec.ema] at hu hv
  split at hu
  · simp at hu
  · split at hv
    · simp at hv
    · have hw := default_weight (α := α) N hN
      have e : (2 : α) / (nat N + nat 1) = 2 / ((N : α) + 1) := by simp
      rw [e] at hu hv
      exact emaRec_mono _ hw.1.le hw.2 xs ys h u v hu hv

/-! ### Alma -/
section alma
variable [Transc α]
/-- **Alma is the normalised Gaussian-kernel weighted mean of its window**: Σ gᵢxᵢ / Σ gᵢ over exactly the last N values
with gᵢ = exp(−(kᵢ − m)²/(2s²)), centre m = offset·(N+1), width s = N/σ, kernel position kᵢ = min(i, N−1) of the sample
with absolute index i (a sample keeps the weight it was given when it entered) — for all admissible σ, offset, every N ≥ 1
and every history -/
theorem alma_eq (N : Nat) (hN : 0 < N) (sigma offset : α) (xs : List α) :
    (almaCore (α := α) N sigma offset).outAfter xs = .ok (Spec.alma N sigma offset xs) := Alma.outAfter_eq N hN sigma offset xs
end alma

/-- any normalised mean with POSITIVE weights is a genuine average: interval, constants, monotone, affine -/
theorem wmean_interval (gs xs : List α) (hlen : gs.length = xs.length) (hp : Alma.Pos gs) (hne : gs ≠ []) (lo hi : α)
    (hlo : ∀ x ∈ xs, lo ≤ x) (hhi : ∀ x ∈ xs, x ≤ hi) :
    lo ≤ Alma.dot gs xs / sumL gs ∧ Alma.dot gs xs / sumL gs ≤ hi := Alma.wmean_interval gs xs hlen hp hne lo hi hlo hhi
theorem wmean_const (gs : List α) (hp : Alma.Pos gs) (hne : gs ≠ []) (c : α) :
    Alma.dot gs (List.replicate gs.length c) / sumL gs = c := Alma.wmean_const gs hp hne c
theorem wmean_mono (gs xs ys : List α) (hp : Alma.Pos gs) (hne : gs ≠ []) (h : List.Forall₂ (· ≤ ·) xs ys) :
    Alma.dot gs xs / sumL gs ≤ Alma.dot gs ys / sumL gs := Alma.wmean_mono gs xs ys hp hne h
theorem wmean_affine (gs xs : List α) (a b : α) (hlen : gs.length = xs.length) (hp : Alma.Pos gs) (hne : gs ≠ []) :
    Alma.dot gs (xs.map fun x => a * x + b) / sumL gs = a * (Alma.dot gs xs / sumL gs) + b :=
  Alma.wmean_affine gs xs a b hlen hp hne

end SF.C04

namespace SF.C04.Real
open SF SF.Spec
/-- at ℝ the Gaussian weights are positive, so the four facts above apply to Alma's weights -/
theorem gauss_pos (m s : ℝ) (k : Nat) : 0 < gauss m s k := by
  simp only [gauss, transc_exp_real]; exact Real.exp_pos _
theorem alma_weights_pos (N : Nat) (m s : ℝ) (len : Nat) : Alma.Pos (Alma.W N m s len) := by
  intro g hg
  simp only [Alma.W, List.mem_map] at hg
  obtain ⟨i, _, rfl⟩ := hg
  exact gauss_pos m s _
end SF.C04.Real

/-! ### Alma at ℝ: the four "genuine average" facts for the view's own definition -/
namespace SF.C04.Real
open SF SF.Spec

/-- the Gaussian weights Alma attaches to the (at most N) values of its window after `len` values were delivered -/
noncomputable def almaWeights (N : Nat) (sigma offset : ℝ) (len : Nat) : List ℝ :=
  (List.range' 0 (min N len)).map fun j =>
    gauss (offset * (nat N + nat 1)) (nat N / sigma) (min (len - min N len + j) (N - 1))

theorem almaWeights_length (N : Nat) (sigma offset : ℝ) (len : Nat) : (almaWeights N sigma offset len).length = min N len := by
  simp [almaWeights]

theorem almaWeights_pos (N : Nat) (sigma offset : ℝ) (len : Nat) : Alma.Pos (almaWeights N sigma offset len) := by
  intro g hg
  simp only [almaWeights, List.mem_map] at hg
  obtain ⟨i, _, rfl⟩ := hg
  exact gauss_pos _ _ _

/-- **Alma is the normalised mean of its window with these positive weights** (they depend on N, σ, offset and on HOW MANY
values were delivered, never on the values) -/
theorem alma_eq_wmean (N : Nat) (sigma offset : ℝ) (xs : List ℝ) (hx : xs ≠ []) :
    Spec.alma N sigma offset xs =
      some (Alma.dot (almaWeights N sigma offset xs.length) (lastN N xs) / sumL (almaWeights N sigma offset xs.length)) := by
  have hxe : xs.isEmpty = false := by cases xs <;> simp_all
  simp only [Spec.alma, hxe, Bool.false_eq_true, if_false, Option.some.injEq]
  have hl : (lastN N xs).length = min N xs.length := lastN_length N xs
  have hz := Alma.zipIdx_map_eq (fun j => gauss (offset * (nat N + nat 1)) (nat N / sigma)
    (min (xs.length - (lastN N xs).length + j) (N - 1))) (lastN N xs) 0
  rw [hz, Alma.dot_eq, hl]
  have hlen : ((List.range' 0 (min N xs.length)).map fun j =>
      gauss (offset * (nat N + nat 1)) (nat N / sigma) (min (xs.length - min N xs.length + j) (N - 1))).length
      = (lastN N xs).length := by simp [hl]
  rw [Alma.sum_fst_zip _ _ hlen]
  rfl

theorem almaWeights_ne_nil (N : Nat) (hN : 0 < N) (sigma offset : ℝ) (len : Nat) (hl : 0 < len) :
    almaWeights N sigma offset len ≠ [] := by
  intro h
  have := congrArg List.length h
  rw [almaWeights_length] at this
  simp at this; omega

/-- Alma reproduces a constant input exactly -/
theorem alma_const (N : Nat) (hN : 0 < N) (sigma offset c : ℝ) (L : Nat) (hL : 0 < L) :
    Spec.alma N sigma offset (List.replicate L c) = some c := by
  have hne : List.replicate L c ≠ [] := by intro h; have := congrArg List.length h; simp at this; omega
  rw [alma_eq_wmean N sigma offset _ hne]
  have hw : lastN N (List.replicate L c) = List.replicate (almaWeights N sigma offset (List.replicate L c).length).length c := by
    rw [almaWeights_length]
    simp only [lastN, List.length_replicate, List.drop_replicate]
    congr 1; omega
  rw [hw, Alma.wmean_const _ (almaWeights_pos N sigma offset _) (almaWeights_ne_nil N hN sigma offset _ (by simpa using hL))]

/-- Alma commutes with x ↦ a·x + b (any a, b) -/
theorem alma_affine (N : Nat) (hN : 0 < N) (sigma offset a b : ℝ) (xs : List ℝ) :
    Spec.alma N sigma offset (xs.map fun x => a * x + b) = (Spec.alma N sigma offset xs).map fun v => a * v + b := by
  by_cases hx : xs = []
  · subst hx; simp [Spec.alma]
  · have hx' : (xs.map fun x => a * x + b) ≠ [] := by simpa using hx
    rw [alma_eq_wmean N sigma offset _ hx', alma_eq_wmean N sigma offset _ hx]
    simp only [List.length_map, Option.map_some, Option.some.injEq]
    rw [lastN_map]
    have hlen : (almaWeights N sigma offset xs.length).length = (lastN N xs).length := by
      rw [almaWeights_length, lastN_length]
    exact Alma.wmean_affine _ _ a b hlen (almaWeights_pos N sigma offset _)
      (almaWeights_ne_nil N hN sigma offset _ (List.length_pos_of_ne_nil hx))

/-- Alma is monotone: raising any input never lowers the output -/
theorem alma_mono (N : Nat) (hN : 0 < N) (sigma offset : ℝ) (xs ys : List ℝ) (h : List.Forall₂ (· ≤ ·) xs ys) (hx : xs ≠ []) :
    ∃ u v, Spec.alma N sigma offset xs = some u ∧ Spec.alma N sigma offset ys = some v ∧ u ≤ v := by
  have hy : ys ≠ [] := by
    intro e; subst e
    have := h.length_eq; simp at this; exact hx this
  refine ⟨_, _, alma_eq_wmean N sigma offset xs hx, alma_eq_wmean N sigma offset ys hy, ?_⟩
  rw [← h.length_eq]
  exact Alma.wmean_mono _ _ _ (almaWeights_pos N sigma offset _)
    (almaWeights_ne_nil N hN sigma offset _ (List.length_pos_of_ne_nil hx)) (lastN_forall₂ N xs ys h)

/-- Alma never leaves the closed interval spanned by the values of its window -/
theorem alma_interval (N : Nat) (hN : 0 < N) (sigma offset : ℝ) (xs : List ℝ) (hx : xs ≠ []) (lo hi : ℝ)
    (hlo : ∀ x ∈ lastN N xs, lo ≤ x) (hhi : ∀ x ∈ lastN N xs, x ≤ hi) :
    ∃ v, Spec.alma N sigma offset xs = some v ∧ lo ≤ v ∧ v ≤ hi := by
  refine ⟨_, alma_eq_wmean N sigma offset xs hx, ?_⟩
  have hlen : (almaWeights N sigma offset xs.length).length = (lastN N xs).length := by
    rw [almaWeights_length, lastN_length]
  exact Alma.wmean_interval _ _ hlen (almaWeights_pos N sigma offset _)
    (almaWeights_ne_nil N hN sigma offset _ (List.length_pos_of_ne_nil hx)) lo hi hlo hhi

end SF.C04.Real
