import SF.Lemmas.Generic
import SF.Expr
/-
  C01 — Chaining: a wrapper sees exactly its inner view's outputs.

  All theorems are over an arbitrary scalar type `α` (no algebra is used), hence they hold of the `Float`
  instantiation that is compared bit-for-bit with the Rust code, as well as of every field.
  `AllFinite xs` is the property's "finite inputs" hypothesis (it discharges the `debug_assert!` of the head).
-/
namespace SF.C01
open SF
variable {α : Type} [FloatLike α]

/-- **C01 (unary wrappers).** For ANY inner view `A`, ANY core `B`, any states and any finite input sequence on
which stand-alone `A` reports the answers `os` (one per update, `none` where it has nothing): the sequence of answers
of the chain `wrap A B` after every update is obtained by feeding `B` — over Echo — exactly the values `A` reported,
only at the steps where it reported one (`Core.feed`).  A panic of `B` shows up identically on both sides. -/
theorem wrap_trace (A : View α) (B : Core α) (a : A.σ) (b : B.σ) (xs : List α) (hx : AllFinite xs)
    (os : List (Option α)) (hA : A.trace a xs = .ok os) :
    (wrap A B).trace (a, b) xs = B.feed b os := by
  induction xs generalizing a b os with
  | nil =>
    simp only [View.trace, pure, Except.pure] at hA ⊢
    cases hA; rfl
  | cons x xs ih =>
    have hxf := hx.head
    rw [trace_cons] at hA
    cases hu : A.upd a x with
    | error e => simp [hu, bind, Except.bind] at hA
    | ok a' =>
      cases hl : A.last a' with
      | error e => simp [hu, hl, bind, Except.bind] at hA
      | ok o =>
        cases ht : A.trace a' xs with
        | error e => simp [hu, hl, ht, bind, Except.bind] at hA
        | ok os' =>
          simp only [hu, hl, ht, bind, Except.bind, pure, Except.pure] at hA
          cases hA
          have ih' := fun b => ih a' b hx.tail os' ht
          rw [trace_cons]
          cases o with
          | none =>
            rw [wrap_upd_none A B hxf hu hl]
            simp only [bind, Except.bind, Core.feed, ih', pure, Except.pure]
          | some v =>
            rw [wrap_upd_some A B hxf hu hl]
            simp only [Core.feed, bind, Except.bind]
            cases assertFinite v with
            | error e => rfl
            | ok u =>
              simp only []
              cases B.step b v with
              | error e => rfl
              | ok b' => simp only [ih', pure, Except.pure]

/-- If the chain completes on the inputs, so does stand-alone `A` (a panic of `A` is a panic of the chain). -/
theorem wrap_trace_ok_inner (A : View α) (B : Core α) (a : A.σ) (b : B.σ) (xs : List α) (hx : AllFinite xs)
    (os : List (Option α)) (h : (wrap A B).trace (a, b) xs = .ok os) : ∃ os', A.trace a xs = .ok os' := by
  induction xs generalizing a b os with
  | nil => exact ⟨[], rfl⟩
  | cons x xs ih =>
    have hxf := hx.head
    rw [trace_cons] at h ⊢
    cases hu : A.upd a x with
    | error e =>
      obtain ⟨e', he⟩ := wrap_upd_err_upd A B (b := b) hu
      rw [he] at h; simp [bind, Except.bind] at h
    | ok a' =>
      cases hl : A.last a' with
      | error e =>
        obtain ⟨e', he⟩ := wrap_upd_err_last A B (b := b) hu hl
        rw [he] at h; simp [bind, Except.bind] at h
      | ok o =>
        have key : ∀ b' r, (wrap A B).trace (a', b') xs = .ok r → ∃ os', A.trace a' xs = .ok os' :=
          fun b' r h => ih a' b' hx.tail r h
        cases o with
        | none =>
          rw [wrap_upd_none A B hxf hu hl] at h
          simp only [bind, Except.bind] at h
          cases ho : B.out b with
          | error e => simp [ho] at h
          | ok ob =>
            cases hr : (wrap A B).trace (a', b) xs with
            | error e => simp [ho, hr] at h
            | ok r =>
              obtain ⟨os', hos⟩ := key b r hr
              exact ⟨none :: os', by simp [hos, hl, bind, Except.bind, pure, Except.pure]⟩
        | some v =>
          rw [wrap_upd_some A B hxf hu hl] at h
          simp only [bind, Except.bind] at h
          cases hv : assertFinite v with
          | error e => simp [hv] at h
          | ok u2 =>
            cases hs : B.step b v with
            | error e => simp [hv, hs] at h
            | ok b' =>
              simp only [hv, hs, pure, Except.pure] at h
              cases ho : B.out b' with
              | error e => simp [ho] at h
              | ok ob =>
                cases hr : (wrap A B).trace (a', b') xs with
                | error e => simp [ho, hr] at h
                | ok r =>
                  obtain ⟨os', hos⟩ := key b' r hr
                  exact ⟨some v :: os', by simp [hos, hl, bind, Except.bind, pure, Except.pure]⟩

/-- The state of the chain is the pair (state of stand-alone `A`, state of `B`): the inner view inside a chain
evolves exactly as it does alone — every raw input reaches it exactly once per update, in order. -/
theorem wrap_run_fst (A : View α) (B : Core α) (a : A.σ) (b : B.σ) (xs : List α) (hx : AllFinite xs)
    (s : (wrap A B).σ) (h : (wrap A B).run (a, b) xs = .ok s) : A.run a xs = .ok s.1 := by
  induction xs generalizing a b with
  | nil => simp only [View.run, pure, Except.pure] at h ⊢; cases h; rfl
  | cons x xs ih =>
    have hxf := hx.head
    rw [run_cons] at h ⊢
    cases hu : A.upd a x with
    | error e =>
      obtain ⟨e', he⟩ := wrap_upd_err_upd A B (b := b) hu
      rw [he] at h; simp [bind, Except.bind] at h
    | ok a' =>
      cases hl : A.last a' with
      | error e =>
        obtain ⟨e', he⟩ := wrap_upd_err_last A B (b := b) hu hl
        rw [he] at h; simp [bind, Except.bind] at h
      | ok o =>
        cases o with
        | none =>
          rw [wrap_upd_none A B hxf hu hl] at h
          simp only [bind, Except.bind] at h ⊢
          exact ih a' b hx.tail h
        | some v =>
          rw [wrap_upd_some A B hxf hu hl] at h
          simp only [bind, Except.bind] at h ⊢
          cases hv : assertFinite v with
          | error e => simp [hv] at h
          | ok u2 =>
            cases hs : B.step b v with
            | error e => simp [hv, hs] at h
            | ok b' =>
              simp only [hv, hs, pure, Except.pure] at h
              exact ih a' b' hx.tail h

/-- **C01 (Tanh).** The mapped view forwards every update unchanged and reports `f` of the child's current answer. -/
theorem mapV_upd (f : α → α) (A : View α) (a : A.σ) (x : α) (hx : FloatLike.isFinite x = true) :
    (mapV f A).upd a x = A.upd a x := by
  simp [mapV, assertFinite_ok hx, bind, Except.bind]

theorem mapV_run (f : α → α) (A : View α) (a : A.σ) (xs : List α) (hx : AllFinite xs) :
    (mapV f A).run a xs = A.run a xs := by
  induction xs generalizing a with
  | nil => rfl
  | cons x xs ih =>
    rw [run_cons, run_cons, mapV_upd f A a x hx.head]
    cases hu : A.upd a x with
    | error e => rfl
    | ok a' => simp only [bind, Except.bind]; exact ih a' hx.tail

theorem mapV_last_none (f : α → α) (A : View α) (a : A.σ) (h : A.last a = .ok none) :
    (mapV f A).last a = .ok none := by
  simp [h, bind, Except.bind, pure, Except.pure]

theorem mapV_last_some (f : α → α) (A : View α) (a : A.σ) (v : α) (h : A.last a = .ok (some v))
    (hv : FloatLike.isFinite v = true) : (mapV f A).last a = .ok (some (f v)) := by
  simp [h, bind, Except.bind, pure, Except.pure, assertFinite_ok hv]

/-- **C01 (binary combinators), state.** Both children receive every raw input, once, in order: the state of the
combining node after `xs` is the pair of the children's stand-alone states. -/
theorem binop_upd (f : α → α → M α) (A B : View α) (a : A.σ) (b : B.σ) (x : α)
    (hx : FloatLike.isFinite x = true) :
    (binop f A B).upd (a, b) x = (A.upd a x >>= fun a' => B.upd b x >>= fun b' => pure (a', b')) := by
  simp [binop, assertFinite_ok hx, bind, Except.bind]

theorem binop_run (f : α → α → M α) (A B : View α) (a : A.σ) (b : B.σ) (xs : List α) (hx : AllFinite xs)
    (a' : A.σ) (b' : B.σ) (ha : A.run a xs = .ok a') (hb : B.run b xs = .ok b') :
    (binop f A B).run (a, b) xs = .ok (a', b') := by
  induction xs generalizing a b with
  | nil =>
    simp only [View.run, pure, Except.pure] at ha hb ⊢
    cases ha; cases hb; rfl
  | cons x xs ih =>
    rw [run_cons] at ha hb ⊢
    rw [binop_upd f A B a b x hx.head]
    cases hu : A.upd a x with
    | error e => simp [hu, bind, Except.bind] at ha
    | ok a1 =>
      cases hv : B.upd b x with
      | error e => simp [hv, bind, Except.bind] at hb
      | ok b1 =>
        simp only [hu, hv, bind, Except.bind, pure, Except.pure] at ha hb ⊢
        exact ih a1 b1 hx.tail ha hb

/-- **C01 (binary combinators), answer.** A combining node reports a value only when both children do … -/
theorem binop_last_none_left (f : α → α → M α) (A B : View α) (a : A.σ) (b : B.σ) (ob : Option α)
    (ha : A.last a = .ok none) (hb : B.last b = .ok ob) : (binop f A B).last (a, b) = .ok none := by
  simp [ha, hb, bind, Except.bind, pure, Except.pure]

theorem binop_last_none_right (f : α → α → M α) (A B : View α) (a : A.σ) (b : B.σ) (oa : Option α)
    (ha : A.last a = .ok oa) (hb : B.last b = .ok none) : (binop f A B).last (a, b) = .ok none := by
  cases oa <;> simp [ha, hb, bind, Except.bind, pure, Except.pure]

/-- … and then it is `f` of the two current answers. -/
theorem binop_last_some (f : α → α → M α) (A B : View α) (a : A.σ) (b : B.σ) (x y r : α)
    (ha : A.last a = .ok (some x)) (hb : B.last b = .ok (some y))
    (hx : FloatLike.isFinite x = true) (hy : FloatLike.isFinite y = true) (hf : f x y = .ok r) :
    (binop f A B).last (a, b) = .ok (some r) := by
  simp [ha, hb, bind, Except.bind, pure, Except.pure, assertFinite_ok hx, assertFinite_ok hy, hf]

theorem binop_last_isSome_iff (f : α → α → M α) (A B : View α) (a : A.σ) (b : B.σ) (oa ob o : Option α)
    (ha : A.last a = .ok oa) (hb : B.last b = .ok ob) (h : (binop f A B).last (a, b) = .ok o) :
    o.isSome → oa.isSome ∧ ob.isSome := by
  cases oa <;> cases ob <;> simp [ha, hb, bind, Except.bind, pure, Except.pure] at h ⊢ <;>
    (try (subst h; simp))

/-! ### every leaf of every tree

`leafInputs e xs`: for a tree `e` whose wrappers are all `tanh` / binary combinators (the nodes that forward
the raw input themselves), each Echo leaf holds the latest raw input.  For trees containing `wrap` nodes the
statement is `wrap_run_fst` applied at every level: the sub-view at position `p` of `denote e` is in the state of
the stand-alone sub-view after the same inputs.  Both are instances of one induction over `VE`, stated for the
complete syntax below. -/

variable [Add α] [Sub α] [Mul α] [Div α] [Neg α] [NatCast α]
  [LT α] [DecidableLT α] [LE α] [DecidableLE α] [BEq α] [Transc α]

/-- the direct inner view of a unary node -/
def inner : VE α → Option (VE α)
  | .un _ a => some a
  | .un2 _ a _ => some a
  | .tanh a => some a
  | _ => none

/-- **C01 for every tree in the catalogue syntax**: whenever a unary node `un k a` denotes a view `V` and the inner
tree `a` denotes `A`, the answers of `V` on any finite input sequence are those of the core fed by `A`'s answers.
(`denote` builds `V` as `wrap A (coreOf k)`; the content is that this is the *only* way a `un` node is given meaning,
so the theorem `wrap_trace` covers all ~40 × 40 compositions and any depth.) -/
theorem denote_un (k : UKind α) (a : VE α) (V : View α) (h : denote (.un k a) = .ok V) :
    ∃ A B, denote a = .ok A ∧ coreOf k = .ok B ∧ V = wrap A B := by
  simp only [denote] at h
  cases ha : denote a with
  | error e => simp [ha] at h
  | ok A =>
    cases hb : coreOf k with
    | error e => simp [ha, hb] at h
    | ok B =>
      simp only [ha, hb] at h
      exact ⟨A, B, rfl, rfl, by cases h; rfl⟩

theorem denote_un2 (k : U2Kind) (a ma : VE α) (V : View α) (h : denote (.un2 k a ma) = .ok V) :
    ∃ A MA B, denote a = .ok A ∧ denote ma = .ok MA ∧ core2Of k MA = .ok B ∧ V = wrap A B := by
  simp only [denote] at h
  cases ha : denote a with
  | error e => simp [ha] at h
  | ok A =>
    cases hm : denote ma with
    | error e => simp [ha, hm] at h
    | ok MA =>
      cases hb : core2Of k MA with
      | error e => simp [ha, hm, hb] at h
      | ok B =>
        simp only [ha, hm, hb] at h
        exact ⟨A, MA, B, rfl, rfl, hb, by cases h; rfl⟩

theorem denote_bin (op : BinOp) (a b : VE α) (V : View α) (h : denote (.bin op a b) = .ok V) :
    ∃ A B, denote a = .ok A ∧ denote b = .ok B ∧ V = binop (binF op) A B := by
  simp only [denote] at h
  cases ha : denote a with
  | error e => simp [ha] at h
  | ok A =>
    cases hb : denote b with
    | error e => simp [ha, hb] at h
    | ok B =>
      simp only [ha, hb] at h
      exact ⟨A, B, rfl, rfl, by cases h; rfl⟩

theorem denote_tanh (a : VE α) (V : View α) (h : denote (.tanh a) = .ok V) :
    ∃ A, denote a = .ok A ∧ V = mapV Transc.tanh A := by
  simp only [denote] at h
  cases ha : denote a with
  | error e => simp [ha] at h
  | ok A =>
    simp only [ha] at h
    exact ⟨A, rfl, by cases h; rfl⟩

/-- Chain over any tree: the full statement of C01 for a `un` node of arbitrary depth. -/
theorem C01_chain (k : UKind α) (a : VE α) (V : View α) (h : denote (.un k a) = .ok V) (xs : List α)
    (hx : AllFinite xs) :
    ∃ A B, denote a = .ok A ∧ coreOf k = .ok B ∧
      ∀ os, A.trace A.init xs = .ok os → V.trace V.init xs = B.feed B.init os := by
  obtain ⟨A, B, ha, hb, rfl⟩ := denote_un k a V h
  exact ⟨A, B, ha, hb, fun os hos => wrap_trace A B A.init B.init xs hx os hos⟩

end SF.C01

/-! ### non-vacuity: a concrete two-level chain (at `Int`, whose arithmetic the kernel evaluates) meets the
hypotheses, and the decomposition computes -/
namespace SF.C01.Example
open SF
instance : FloatLike Int := ⟨fun _ => true, fun _ => false, 0, 0⟩
example : AllFinite ([1, 3, 5, 7] : List Int) := fun _ _ => rfl

/-- `Sma(2)` over `Sma(2)` over Echo on 1,3,5,7: inner answers `none, 2, 4, 6`; the chain answers `none, none, 3, 5` -/
example : (wrap (overEcho (smaCore (α := Int) 2)) (smaCore 2)).trace
            ((overEcho (smaCore (α := Int) 2)).init, (smaCore (α := Int) 2).init) [1, 3, 5, 7]
          = (smaCore (α := Int) 2).feed (smaCore (α := Int) 2).init [none, some 2, some 4, some 6] :=
  wrap_trace _ _ _ _ _ (fun _ _ => rfl) _ (by rfl)
example : (smaCore (α := Int) 2).feed (smaCore (α := Int) 2).init [none, some 2, some 4, some 6]
          = .ok [none, none, some 3, some 5] := by rfl
end SF.C01.Example
