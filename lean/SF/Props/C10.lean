import SF.Lemmas.CcLinear
import SF.Props.C11
import SF.Props.C04
import SF.Lemmas.Cum
import SF.Lemmas.Linear
import SF.Lemmas.DcGain
/-
  C10 — Linear views obey superposition.
  For streams `x`, `y` of equal length and scalars `a`, `b` (any sign, including 0): view(a·x + b·y) = a·view(x) + b·view(y)
  at every step, exactly, in exact arithmetic.  Proved on the batch definitions (to which the state machines are equal
  by C02 / C04).  `lin a b xs ys` is the stream a·x + b·y.
-/
namespace SF.C10
open SF SF.Spec
set_option linter.unusedSectionVars false
variable {α : Type} [Field α] [LinearOrder α] [IsStrictOrderedRing α] [FloatLike α] [ExactScalar α]

def lin (a b : α) (xs ys : List α) : List α := List.zipWith (fun x y => a * x + b * y) xs ys

/-- combine two optional outputs linearly -/
def olin (a b : α) : Option α → Option α → Option α
  | some u, some v => some (a * u + b * v)
  | _, _ => none

theorem lastN_lin (n : Nat) (a b : α) (xs ys : List α) (h : xs.length = ys.length) :
    lastN n (lin a b xs ys) = lin a b (lastN n xs) (lastN n ys) := by
  simp only [lastN, lin, List.length_zipWith, h, Nat.min_self]
  rw [List.drop_zipWith]

theorem sma_linear (N : Nat) (hN : 0 < N) (a b : α) (xs ys : List α) (h : xs.length = ys.length) :
    Spec.sma N (lin a b xs ys) = olin a b (Spec.sma N xs) (Spec.sma N ys) := by
  have hl : (lin a b xs ys).length = xs.length := by simp [lin, h]
  by_cases hx : xs.length < N
  · have hy : ys.length < N := by omega
    simp [Spec.sma, hl, hx, hy, olin]
  · have hx' : N ≤ xs.length := by omega
    have hy' : N ≤ ys.length := by omega
    rw [C02.sma_spec N xs hx', C02.sma_spec N ys hy', C02.sma_spec N _ (by rw [hl]; exact hx'), lastN_lin N a b xs ys h]
    simp only [olin, lin]
    rw [sumL_zipWith_lin a b _ _ (by simp [lastN_length, h])]
    congr 1; ring

theorem cumulative_linear (N : Nat) (a b : α) (xs ys : List α) (h : xs.length = ys.length) :
    Spec.cumulative N (lin a b xs ys) = olin a b (Spec.cumulative N xs) (Spec.cumulative N ys) := by
  cases xs with
  | nil => cases ys <;> simp_all [Spec.cumulative, lin, olin]
  | cons x xs =>
    cases ys with
    | nil => simp at h
    | cons y ys =>
      have hne : lin a b (x :: xs) (y :: ys) ≠ [] := by simp [lin]
      simp only [Spec.cumulative, List.isEmpty_iff, hne, if_false, olin]
      simp only [List.cons_ne_nil, if_false]
      rw [lastN_lin N a b _ _ h]
      simp only [lin]
      rw [sumL_zipWith_lin a b _ _ (by simp [lastN_length]; simp at h; omega)]

theorem emaRec_linear (w a b : α) (xs ys : List α) (h : xs.length = ys.length) :
    emaRec w (lin a b xs ys) = olin a b (emaRec w xs) (emaRec w ys) := by
  cases xs with
  | nil => cases ys <;> simp_all [emaRec, lin, olin]
  | cons x0 r =>
    cases ys with
    | nil => simp at h
    | cons y0 r' =>
      simp only [List.length_cons, Nat.add_right_cancel_iff] at h
      simp only [lin, List.zipWith_cons_cons, emaRec, olin, Option.some.injEq]
      induction r generalizing x0 y0 r' with
      | nil => cases r' <;> simp_all
      | cons x r ih =>
        cases r' with
        | nil => simp at h
        | cons y r' =>
          simp only [List.length_cons, Nat.add_right_cancel_iff] at h
          simp only [List.zipWith_cons_cons, List.foldl_cons]
          rw [show w * (a * x + b * y) + (nat 1 - w) * (a * x0 + b * y0)
                = a * (w * x + (nat 1 - w) * x0) + b * (w * y + (nat 1 - w) * y0) by ring]
          exact ih _ _ r' h

theorem ema_linear (N : Nat) (alpha a b : α) (xs ys : List α) (h : xs.length = ys.length) :
    Spec.ema N alpha (lin a b xs ys) = olin a b (Spec.ema N alpha xs) (Spec.ema N alpha ys) := by
  have hl : (lin a b xs ys).length = xs.length := by simp [lin, h]
  simp only [Spec.ema, hl]
  by_cases hx : xs.length < N
  · have hy : ys.length < N := by omega
    simp [hx, hy, olin]
  · have hy : ¬ ys.length < N := by omega
    simp only [hx, hy, if_false]
    exact emaRec_linear _ a b xs ys h

/-- transported to the state machines: the Sma view of a·x + b·y -/
theorem sma_view_linear (N : Nat) (hN : 0 < N) (a b : α) (xs ys : List α) (h : xs.length = ys.length) :
    (smaCore (α := α) N).outAfter (lin a b xs ys) = .ok (olin a b (Spec.sma N xs) (Spec.sma N ys)) := by
  rw [C02.sma_eq N hN, sma_linear N hN a b xs ys h]

theorem ema_view_linear (N : Nat) (hN : 0 < N) (alpha a b : α) (xs ys : List α) (h : xs.length = ys.length) :
    (emaCore (α := α) N alpha).outAfter (lin a b xs ys) = .ok (olin a b (Spec.ema N alpha xs) (Spec.ema N alpha ys)) := by
  rw [C04.ema_eq N hN, ema_linear N alpha a b xs ys h]

theorem cumulative_view_linear (N : Nat) (hN : 0 < N) (a b : α) (xs ys : List α) (h : xs.length = ys.length) :
    (cumCore (α := α) N).outAfter (lin a b xs ys) = .ok (olin a b (Spec.cumulative N xs) (Spec.cumulative N ys)) := by
  rw [C02.cumulative_eq N hN, cumulative_linear N a b xs ys h]

/-- the low-pass members map a constant stream to the same constant from their first output (C04.sma_const, ema_const) -/
theorem sma_dc (N : Nat) (hN : 0 < N) (c : α) (L : Nat) (hL : N ≤ L) : Spec.sma N (List.replicate L c) = some c :=
  C04.sma_const N hN c L hL
theorem ema_dc (N : Nat) (hN : 0 < N) (alpha c : α) (L : Nat) (hL : N ≤ L) :
    Spec.ema N alpha (List.replicate L c) = some c := C04.ema_const N hN alpha c L hL

/-! ### recursive members: SuperSmoother, LaguerreFilter, RoofingFilter -/
section recursive
variable [Transc α]
/-- SuperSmoother obeys superposition (any a, b incl. 0 and negatives), every N, every pair of equally long streams -/
theorem superSmoother_linear (N : Nat) (a b : α) (xs ys : List α) (h : xs.length = ys.length) :
    Spec.superSmoother N (Linear.lin a b xs ys) = Linear.olin a b (Spec.superSmoother N xs) (Spec.superSmoother N ys) :=
  Linear.superSmoother_linear N a b xs ys h

/-- LaguerreFilter obeys superposition for every gamma -/
theorem laguerre_linear (g a b : α) (xs ys : List α) (h : xs.length = ys.length) :
    Spec.laguerreFilter g (Linear.lin a b xs ys) = Linear.olin a b (Spec.laguerreFilter g xs) (Spec.laguerreFilter g ys) :=
  Linear.laguerre_linear g a b xs ys h

/-- RoofingFilter obeys superposition -/
theorem roofing_linear (N M' : Nat) (a b : α) (xs ys : List α) (h : xs.length = ys.length) :
    Spec.roofing N M' (Linear.lin a b xs ys) = Linear.olin a b (Spec.roofing N M' xs) (Spec.roofing N M' ys) :=
  Linear.roofing_linear N M' a b xs ys h

/-- and these ARE what the state machines report (C11): e.g. the SuperSmoother view of a·x + b·y -/
theorem superSmoother_view_linear (N : Nat) (hN : 0 < N) (a b : α) (xs ys : List α) (h : xs.length = ys.length) :
    (ssCore (α := α) N).outAfter (Linear.lin a b xs ys)
      = .ok (Linear.olin a b (Spec.superSmoother N xs) (Spec.superSmoother N ys)) := by
  rw [SS.outAfter_eq N hN, Linear.superSmoother_linear N a b xs ys h]

theorem laguerre_view_linear (g a b : α) (xs ys : List α) (h : xs.length = ys.length) :
    (lagfCore (α := α) g).outAfter (Linear.lin a b xs ys)
      = .ok (Linear.olin a b (Spec.laguerreFilter g xs) (Spec.laguerreFilter g ys)) := by
  rw [Lagf.outAfter_eq, Linear.laguerre_linear g a b xs ys h]

/-- LaguerreFilter maps a constant stream to the same constant from its first output -/
theorem laguerre_dc (g c : α) (n : Nat) : Spec.laguerreFilter g (List.replicate (n + 1) c) = some c :=
  Linear.laguerre_const g c n
end recursive

/-! ### Alma: the weights depend on positions only -/
theorem wsum_lin (h : Nat → α) (a b : α) (l1 l2 : List α) (hl : l1.length = l2.length) (k : Nat) :
    sumL (((lin a b l1 l2).zipIdx k).map fun (x, j) => h j * x) =
      a * sumL ((l1.zipIdx k).map fun (x, j) => h j * x) + b * sumL ((l2.zipIdx k).map fun (x, j) => h j * x) := by
  induction l1 generalizing l2 k with
  | nil => cases l2 with
    | nil => simp [lin]
    | cons y s => simp at hl
  | cons x r ih => cases l2 with
    | nil => simp at hl
    | cons y s =>
      have := ih s (by simpa using hl) (k + 1)
      simp only [lin, List.zipWith_cons_cons, List.zipIdx_cons, List.map_cons, sumL_cons] at this ⊢
      rw [this]; ring

theorem wden_lin (h : Nat → α) (a b : α) (l1 l2 : List α) (hl : l1.length = l2.length) (k : Nat) :
    sumL (((lin a b l1 l2).zipIdx k).map fun (_, j) => h j) = sumL ((l1.zipIdx k).map fun (_, j) => h j) ∧
    sumL ((l2.zipIdx k).map fun (_, j) => h j) = sumL ((l1.zipIdx k).map fun (_, j) => h j) := by
  induction l1 generalizing l2 k with
  | nil => cases l2 with
    | nil => simp [lin]
    | cons y s => simp at hl
  | cons x r ih => cases l2 with
    | nil => simp at hl
    | cons y s =>
      obtain ⟨h1, h2⟩ := ih s (by simpa using hl) (k + 1)
      simp only [lin, List.zipWith_cons_cons, List.zipIdx_cons, List.map_cons, sumL_cons] at h1 h2 ⊢
      rw [h1, h2]; exact ⟨rfl, rfl⟩

/-- Alma obeys superposition: its weights depend on positions only -/
theorem alma_linear [Transc α] (N : Nat) (sigma offset a b : α) (xs ys : List α) (h : xs.length = ys.length)
    (hden : ∀ zs : List α, zs.length = xs.length → zs ≠ [] →
      sumL ((lastN N zs).zipIdx.map fun (_, j) => gauss (offset * (nat N + nat 1)) (nat N / sigma)
        (min (zs.length - (lastN N zs).length + j) (N - 1))) ≠ 0) :
    Spec.alma N sigma offset (lin a b xs ys) = olin a b (Spec.alma N sigma offset xs) (Spec.alma N sigma offset ys) := by
  have hl : (lin a b xs ys).length = xs.length := by simp [lin, h]
  cases xs with
  | nil => cases ys with
    | nil => simp [Spec.alma, lin, olin]
    | cons y s => simp at h
  | cons x r => cases ys with
    | nil => simp at h
    | cons y s =>
      have hne : lin a b (x :: r) (y :: s) ≠ [] := by simp [lin]
      have hlw : (lastN N (x :: r)).length = (lastN N (y :: s)).length := by simp [lastN_length, h]
      have hd := hden (x :: r) rfl (by simp)
      simp only [Spec.alma, List.isEmpty_iff, hne, if_false, List.cons_ne_nil, olin, List.map_map, Function.comp_def,
        lastN_lin N a b _ _ h, hl, Option.some.injEq] at hd ⊢
      have hll : (lin a b (lastN N (x :: r)) (lastN N (y :: s))).length = (lastN N (x :: r)).length := by
        simp [lin, hlw]
      rw [hll, ← h, ← hlw]
      set hh : Nat → α := fun j => gauss (offset * (nat N + nat 1)) (nat N / sigma)
        (min ((x :: r).length - (lastN N (x :: r)).length + j) (N - 1)) with hhd
      have e1 := wsum_lin hh a b _ _ hlw 0
      obtain ⟨e2, e3⟩ := wden_lin hh a b _ _ hlw 0
      simp only [hhd] at e1 e2 e3
      rw [e1, e2, e3]
      field_simp

/-- **CyberCycle obeys superposition at every step** (spec level, any ordered field) … -/
theorem cyberCycle_linear [Transc α] (N : Nat) (a b : α) (xs ys : List α) (h : xs.length = ys.length) :
    Spec.cyberCycle N (Linear.lin a b xs ys) = Linear.olin a b (Spec.cyberCycle N xs) (Spec.cyberCycle N ys) :=
  CcLinear.cyberCycle_linear N a b xs ys h

/-- … and so does the view itself, for every window its constructor accepts (N ≥ 6), through C11 -/
theorem cyberCycle_view_linear [Transc α] (N : Nat) (hN : 6 ≤ N) (a b : α) (xs ys : List α) (h : xs.length = ys.length) :
    (ccCoreU (α := α) N).outAfter (Linear.lin a b xs ys)
      = .ok (Linear.olin a b (Spec.cyberCycle N xs) (Spec.cyberCycle N ys)) := by
  rw [C11.cyberCycle_eq N hN, CcLinear.cyberCycle_linear N a b xs ys h]

end SF.C10

/-! ### response to a constant stream (third sentence of the statement): SuperSmoother converges to the constant, the
high-pass members RoofingFilter and CyberCycle send it to 0 — geometrically, for every admissible window length -/
namespace SF.C10.Real
open SF SF.Spec

/-- the SuperSmoother has unit DC gain: c1 + b1 + c3 = 1 -/
theorem superSmoother_unit_gain (N : Nat) :
    (Spec.ssCoef (α := ℝ) N).c1 = 1 - (Spec.ssCoef (α := ℝ) N).b1 - (Spec.ssCoef (α := ℝ) N).c3 := by
  simp [Spec.ssCoef]

/-- **SuperSmoother converges to a constant input, geometrically, for every N ≥ 1**: after ANY history `xs`, once the
input has been c0 for one step, each further c0 multiplies the Lyapunov functional of the deviation from c0 by
(1 + a1)/2 < 1; the functional dominates |output − c0| -/
theorem superSmoother_dc_converges (N : Nat) (hN : 0 < N) (xs : List ℝ) (c0 : ℝ) (k : Nat) (v : ℝ)
    (h : Spec.superSmoother N (xs ++ [c0] ++ List.replicate k c0) = some v) :
    |v - c0| ≤ ((1 + SsStable.ssA N) / 2) ^ k *
      DcGain.Vc (TwoPole.pole (SsStable.ssA N) (44422 / 10000 / N)) (SsStable.ssA N) c0
        (SS.foldState (Spec.ssCoef (α := ℝ) N) 0 (xs ++ [c0])) := by
  have ha := SsStable.ssA_range N hN
  have hc := SsStable.ssCoef_form N
  have hd := DcGain.const_tail_decay (Spec.ssCoef (α := ℝ) N) (SsStable.ssA N) (44422 / 10000 / N) ha.1.le ha.2 hc.1 hc.2
    (superSmoother_unit_gain N) 0 c0 xs k
  have hdom := DcGain.abs_head_sub_le_Vc (TwoPole.pole (SsStable.ssA N) (44422 / 10000 / N)) (SsStable.ssA N) c0 ha.1.le ha.2
    (SS.foldState (Spec.ssCoef (α := ℝ) N) 0 (xs ++ [c0] ++ List.replicate k c0))
  have hv : (SS.foldState (Spec.ssCoef (α := ℝ) N) 0 (xs ++ [c0] ++ List.replicate k c0)).1.headD 0 = v := by
    simp only [Spec.superSmoother] at h
    split at h
    · simp at h
    · rw [SS.smoothSeq_eq] at h
      simp only [nat_eq, Nat.cast_zero] at h
      cases hq : (SS.foldState (Spec.ssCoef (α := ℝ) N) 0 (xs ++ [c0] ++ List.replicate k c0)).1 with
      | nil => rw [hq] at h; simp at h
      | cons y r => rw [hq] at h; simp at h; simp [h]
  rw [hv] at hdom
  exact le_trans hdom hd

/-- the contraction factor of the SuperSmoother is strictly inside (0, 1) -/
theorem superSmoother_rate (N : Nat) (hN : 0 < N) : 0 < (1 + SsStable.ssA N) / 2 ∧ (1 + SsStable.ssA N) / 2 < 1 := by
  have := SsStable.ssA_range N hN
  constructor <;> linarith [this.1, this.2]

/-- **RoofingFilter(N, M) sends a constant stream to 0, geometrically, for every N ≥ 2, M ≥ 1**: after ANY history longer
than the high-pass delay that ends in two equal values c0, c0, every further c0 multiplies the joint functional `roofW`
(smoother functional + weighted high-pass functional) by `roofRate N M` < 1, and `roofW` dominates |output| -/
theorem roofing_dc_decays (N M : Nat) (hN : 2 ≤ N) (hM : 0 < M) (l : List ℝ) (c0 : ℝ) (hl : N < (l ++ [c0]).length) (k : Nat)
    (v : ℝ) (h : Spec.roofing N M (l ++ [c0] ++ [c0] ++ List.replicate k c0) = some v) :
    |v| ≤ DcGain.roofRate N M ^ k * DcGain.roofW N M (l ++ [c0] ++ [c0]) :=
  le_trans (DcGain.abs_roofing_le_W N M hN hM _ v h) (DcGain.roof_joint_decay N M hN hM l c0 hl k).1

theorem roofing_rate (N M : Nat) (hN : 2 ≤ N) (hM : 0 < M) : 0 < DcGain.roofRate N M ∧ DcGain.roofRate N M < 1 :=
  DcGain.roofRate_lt_one N M hN hM

/-- … the same for the view itself (state machine), through C11 -/
theorem roofing_view_dc_decays (N M : Nat) (hN : 2 ≤ N) (hM : 0 < M) (l : List ℝ) (c0 : ℝ) (hl : N < (l ++ [c0]).length) (k : Nat)
    (v : ℝ) (h : (roofCoreU (α := ℝ) N M).outAfter (l ++ [c0] ++ [c0] ++ List.replicate k c0) = .ok (some v)) :
    |v| ≤ DcGain.roofRate N M ^ k * DcGain.roofW N M (l ++ [c0] ++ [c0]) := by
  rw [C11.roofing_eq N M hM] at h
  exact roofing_dc_decays N M hN hM l c0 hl k v (by simpa using h)

end SF.C10.Real

namespace SF.C10
open SF SF.Spec
variable {α : Type} [Field α] [LinearOrder α] [IsStrictOrderedRing α] [FloatLike α] [ExactScalar α]

/-- **CyberCycle sends a constant stream to 0, geometrically, for every N ≥ 1** (any ordered field): history `xs`
followed by L copies of c0; from five steps into the constant stretch V(n) = |c(n+1)| + (2p/(1−p))·|c(n+1) − p·c(n)|
shrinks by (1+p)/2 = N/(N+1) per step and dominates the output |c(n+1)| -/
theorem cyberCycle_dc_decays [Transc α] (N : Nat) (hN : 1 ≤ N) (xs : List α) (c0 : α) (L m k : Nat)
    (hm1 : xs.length + 5 ≤ m + 2) (hm2 : N ≤ m + 3) (hL : m + k + 1 < xs.length + L) :
    let p : α := 1 - 2 / ((N : α) + 1)
    let c := fun n => DoublePole.cAt N (xs ++ List.replicate L c0) n
    let V := fun n => |c (n + 1)| + 2 * p / (1 - p) * |c (n + 1) - p * c n|
    V (m + k) ≤ ((1 + p) / 2) ^ k * V m ∧ |c (m + k + 1)| ≤ V (m + k) :=
  DcGain.cc_const_decay N hN xs c0 L m k hm1 hm2 hL

end SF.C10

/-! non-vacuity: the index hypotheses of `cyberCycle_dc_decays` are satisfiable (N = 6, a history of 2 values followed by
40 constants, decay observed from step m = 5 for k = 20 steps), and `roofing_dc_decays` applies to concrete histories -/
example : (2 : Nat) + 5 ≤ 5 + 2 ∧ 6 ≤ 5 + 3 ∧ 5 + 20 + 1 < 2 + 40 := by decide
example : (2 : Nat) < ([1, 2, 3] ++ [(7 : ℝ)]).length := by simp
