import SF.Lemmas.Eft
import SF.Props.C04
import SF.Props.C13
import SF.Props.C14
import SF.Lemmas.Real
import SF.Lemmas.Rsi
import SF.Lemmas.MyRsi
import SF.Lemmas.Bounds
import SF.Lemmas.LagRsi
import Mathlib.Data.List.Induction
/-
  C07 — Bounded indicators stay inside their documented range (exact arithmetic).
  Proved here: Min ≤ Sma ≤ Max and Min ≤ newest ≤ Max over the same window; GTE ≥ clip, LTE ≤ clip; Drawdown ∈ [0,1)
  and non-decreasing for positive inputs; |Tanh| < 1, WelfordOnline ≥ 0, WelfordRolling ≥ 0 (at ℝ); and, on the batch
  definitions, Rsi ∈ [0,100], MyRSI ∈ [−1,1], HLNormalizer ∈ [−1,1].
  NOT claimed: PolarizedFractalEfficiency ∈ [−1,1] — it is false (known finding K2): `pfe_const_ratio` below shows the
  quantity fed to the moving average is N/(N−2) > 1 on a constant window.
  The "few ulps in f64" clause is measured by `./check C07`, not proved.
-/
namespace SF.C07
open SF SF.Spec
set_option linter.unusedSectionVars false
variable {α : Type} [Field α] [LinearOrder α] [IsStrictOrderedRing α] [FloatLike α] [ExactScalar α]

/-- Min ≤ Sma ≤ Max over the same window -/
theorem sma_between_min_max (N : Nat) (hN : 0 < N) (xs : List α) (hx : N ≤ xs.length) (lo hi : α)
    (hlo : Spec.wmin N xs = some lo) (hhi : Spec.wmax N xs = some hi) :
    ∃ v, Spec.sma N xs = some v ∧ lo ≤ v ∧ v ≤ hi :=
  C04.sma_interval N hN xs hx lo hi (MinMax.minL_least _ lo hlo).2 (MinMax.maxL_greatest _ hi hhi).2

/-- Min ≤ newest value ≤ Max over the same window -/
theorem newest_between_min_max (N : Nat) (hN : 0 < N) (xs : List α) (x lo hi : α)
    (hlo : Spec.wmin N (xs ++ [x]) = some lo) (hhi : Spec.wmax N (xs ++ [x]) = some hi) : lo ≤ x ∧ x ≤ hi := by
  have hmem : x ∈ lastN N (xs ++ [x]) := by
    simp only [lastN, List.length_append, List.length_singleton]
    rw [List.drop_append_of_le_length (by omega)]
    simp
  exact ⟨(MinMax.minL_least _ lo hlo).2 x hmem, (MinMax.maxL_greatest _ hi hhi).2 x hmem⟩

/-- GTE ≥ its clip and LTE ≤ its clip, whatever is delivered -/
theorem gte_ge_clip (clip : α) (s : Option α) (v : α) :
    ∃ o, (gteCore clip).step s v = .ok (some o) ∧ clip ≤ o := by
  rw [C14.gte_step]
  by_cases h : clip ≤ v
  · exact ⟨v, by simp [h], h⟩
  · exact ⟨clip, by simp [h], le_refl _⟩

theorem lte_le_clip (clip : α) (s : Option α) (v : α) :
    ∃ o, (lteCore clip).step s v = .ok (some o) ∧ o ≤ clip := by
  rw [C14.lte_step]
  by_cases h : v ≤ clip
  · exact ⟨v, by simp [h], h⟩
  · exact ⟨clip, by simp [h], le_refl _⟩

/-! ### Drawdown ∈ [0, 1), non-decreasing (positive inputs) -/
theorem dd_step_range (d pk x : α) (h0 : 0 ≤ d) (h1 : d < 1) (hpk : 0 < pk) (hx : 0 < x) :
    0 ≤ (if d < (pk - x) / pk then (pk - x) / pk else d) ∧ (if d < (pk - x) / pk then (pk - x) / pk else d) < 1 := by
  by_cases hc : d < (pk - x) / pk
  · simp only [hc, if_true]
    exact ⟨le_trans h0 (le_of_lt hc), by rw [div_lt_one hpk]; linarith⟩
  · simp only [hc, if_false]; exact ⟨h0, h1⟩

theorem ddFold_range (xs : List α) (hx : ∀ x ∈ xs, 0 < x) :
    0 ≤ (Rolling.ddFold xs).2 ∧ (Rolling.ddFold xs).2 < 1 ∧ ∀ p, (Rolling.ddFold xs).1 = some p → 0 < p := by
  induction xs using List.reverseRecOn with
  | nil => simp [Rolling.ddFold]
  | append_singleton xs x ih =>
    have hx0 : 0 < x := hx x (by simp)
    obtain ⟨h0, h1, hp⟩ := ih (fun y hy => hx y (by simp [hy]))
    rw [Rolling.ddFold_snoc]
    generalize Rolling.ddFold xs = acc at h0 h1 hp
    obtain ⟨o, d⟩ := acc
    simp only at h0 h1 hp
    cases o with
    | none =>
      have := dd_step_range d x x h0 h1 hx0 hx0
      exact ⟨this.1, this.2, fun p h => by cases h; exact hx0⟩
    | some p =>
      have hp0 : 0 < p := hp p rfl
      by_cases hc : p < x
      · have := dd_step_range d x x h0 h1 hx0 hx0
        simp only [hc, if_true]
        exact ⟨this.1, this.2, fun q h => by cases h; exact hx0⟩
      · have := dd_step_range d p x h0 h1 hp0 hx0
        simp only [hc, if_false]
        exact ⟨this.1, this.2, fun q h => by cases h; exact hp0⟩

theorem drawdown_range (xs : List α) (hx : ∀ x ∈ xs, 0 < x) :
    0 ≤ Spec.drawdown xs ∧ Spec.drawdown xs < 1 := by
  rw [Rolling.drawdown_eq_fold]
  exact ⟨(ddFold_range xs hx).1, (ddFold_range xs hx).2.1⟩

theorem drawdown_nondecreasing (xs : List α) (x : α) : Spec.drawdown xs ≤ Spec.drawdown (xs ++ [x]) := by
  rw [Rolling.drawdown_eq_fold, Rolling.drawdown_eq_fold, Rolling.ddFold_snoc]
  generalize Rolling.ddFold xs = acc
  obtain ⟨o, d⟩ := acc
  simp only
  split_ifs with hc
  · exact le_of_lt hc
  · exact le_refl _

/-- the view itself: Drawdown ∈ [0,1) for every positive stream -/
theorem drawdown_view_range [Transc α] (hmin : (FloatLike.minValue : α) < 0) (xs : List α) (hx : ∀ x ∈ xs, 0 < x) :
    ∃ v, (drawdownCore (α := α)).outAfter xs = .ok (some v) ∧ 0 ≤ v ∧ v < 1 :=
  ⟨_, C13.drawdown_eq hmin xs hx, (drawdown_range xs hx).1, (drawdown_range xs hx).2⟩

/-! ### Rsi, MyRSI, HLNormalizer on their definitions -/
theorem gains_nonneg (N : Nat) (xs : List α) : 0 ≤ Spec.gains N xs := by
  simp only [Spec.gains]
  generalize lastN N (changes xs) = l
  induction l with
  | nil => simp
  | cons d l ih => simp only [List.map_cons, sumL_cons]; split <;> simp_all <;> linarith

theorem losses_nonneg (N : Nat) (xs : List α) : 0 ≤ Spec.losses N xs := by
  simp only [Spec.losses]
  generalize lastN N (changes xs) = l
  induction l with
  | nil => simp
  | cons d l ih =>
    simp only [List.map_cons, sumL_cons]
    split
    · simp_all
    · rename_i h; simp only [nat_eq, Nat.cast_zero, not_lt] at h; linarith

/-- Rsi ∈ [0, 100] -/
theorem rsi_range (N : Nat) (xs : List α) (v : α) (h : Spec.rsi N xs = some v) : 0 ≤ v ∧ v ≤ 100 := by
  simp only [Spec.rsi] at h
  split at h
  · simp at h
  · simp only [Option.some.injEq] at h
    have hG := gains_nonneg N xs
    have hL := losses_nonneg N xs
    split at h
    · subst h; simp
    · rename_i hL0
      have hL0' : Spec.losses N xs ≠ 0 := by simpa using hL0
      have hpos : 0 < Spec.gains N xs + Spec.losses N xs := by
        have : 0 < Spec.losses N xs := lt_of_le_of_ne hL (Ne.symm hL0')
        linarith
      subst h
      simp only [nat_eq, Nat.cast_ofNat]
      constructor
      · exact div_nonneg (by nlinarith) hpos.le
      · rw [div_le_iff₀ hpos]; nlinarith

/-- (G − L)/(G + L) ∈ [−1, 1] whenever G, L ≥ 0 and G + L ≠ 0: every value MyRSI ever computes; the held value is one
of those or the initial 0 -/
theorem myrsi_ratio_range (G L : α) (hG : 0 ≤ G) (hL : 0 ≤ L) (h : G + L ≠ 0) :
    -1 ≤ (G - L) / (G + L) ∧ (G - L) / (G + L) ≤ 1 := by
  have hpos : 0 < G + L := lt_of_le_of_ne (by linarith) (Ne.symm h)
  constructor
  · rw [le_div_iff₀ hpos]; linarith
  · rw [div_le_one hpos]; linarith

theorem myRsiHold_range (N : Nat) (xs : List α) : -1 ≤ Spec.myRsiHold N xs ∧ Spec.myRsiHold N xs ≤ 1 := by
  simp only [Spec.myRsiHold]
  generalize List.range xs.length = ts
  have key : ∀ (ts : List Nat) (prev : α), -1 ≤ prev ∧ prev ≤ 1 →
      (-1 ≤ ts.foldl (fun prev t =>
        if Spec.gains N (xs.take (t + 1)) + Spec.losses N (xs.take (t + 1)) == nat 0 then prev
        else (Spec.gains N (xs.take (t + 1)) - Spec.losses N (xs.take (t + 1))) /
             (Spec.gains N (xs.take (t + 1)) + Spec.losses N (xs.take (t + 1)))) prev) ∧
      (ts.foldl (fun prev t =>
        if Spec.gains N (xs.take (t + 1)) + Spec.losses N (xs.take (t + 1)) == nat 0 then prev
        else (Spec.gains N (xs.take (t + 1)) - Spec.losses N (xs.take (t + 1))) /
             (Spec.gains N (xs.take (t + 1)) + Spec.losses N (xs.take (t + 1)))) prev ≤ 1) := by
    intro ts
    induction ts with
    | nil => intro prev h; exact h
    | cons t ts ih =>
      intro prev h
      simp only [List.foldl_cons]
      apply ih
      split
      · exact h
      · rename_i hne
        exact myrsi_ratio_range _ _ (gains_nonneg N _) (losses_nonneg N _) (by simpa using hne)
  exact key ts (nat 0) (by simp)

/-- HLNormalizer's formula 2(x − lo)/(hi − lo) − 1 ∈ [−1, 1] for lo ≤ x ≤ hi, lo < hi -/
theorem hln_formula_range (x lo hi : α) (h1 : lo ≤ x) (h2 : x ≤ hi) (h3 : lo < hi) :
    -1 ≤ 2 * (x - lo) / (hi - lo) - 1 ∧ 2 * (x - lo) / (hi - lo) - 1 ≤ 1 := by
  have hp : 0 < hi - lo := by linarith
  constructor
  · have : 0 ≤ 2 * (x - lo) / (hi - lo) := div_nonneg (by linarith) hp.le
    linarith
  · have : 2 * (x - lo) / (hi - lo) ≤ 2 := by rw [div_le_iff₀ hp]; linarith
    linarith

theorem hln_range (N : Nat) (xs : List α) (v : α) (h : Spec.hln N xs = some v) : -1 ≤ v ∧ v ≤ 1 := by
  simp only [Spec.hln] at h
  split at h
  · rename_i lo hi x hlo hhi hx
    simp only [Option.some.injEq] at h
    split at h
    · subst h; simp
    · rename_i hne
      subst h
      have hne' : hi ≠ lo := by simpa using hne
      have hxm : x ∈ lastN N xs := by
        have hx' := List.mem_of_getLast? hx
        rcases List.eq_nil_or_concat xs with rfl | ⟨ys, y, rfl⟩
        · simp at hx
        · simp only [List.concat_eq_append] at *
          simp at hx; subst hx
          cases N with
          | zero => simp [lastN, minL] at hlo
          | succ n =>
            simp only [lastN, List.length_append, List.length_singleton]
            rw [List.drop_append_of_le_length (by omega)]
            simp
      have h1 := (MinMax.minL_least _ lo hlo).2 x hxm
      have h2 := (MinMax.maxL_greatest _ hi hhi).2 x hxm
      have h3 : lo < hi := lt_of_le_of_ne (le_trans h1 h2) (Ne.symm hne')
      simpa using hln_formula_range x lo hi h1 h2 h3
  · simp only [Option.some.injEq] at h; subst h; simp

/-! ### the views themselves (state machines), through their characterisations -/
/-- every value Rsi ever reports lies in [0, 100] -/
theorem rsi_view_range (N : Nat) (hN : 0 < N) (xs : List α) (v : α)
    (h : (rsiCore (α := α) N).outAfter xs = .ok (some v)) : 0 ≤ v ∧ v ≤ 100 := by
  rw [Rsi.outAfter_eq N hN] at h
  exact rsi_range N xs v (by simpa using h)

/-- every value MyRSI ever reports lies in [−1, 1] -/
theorem myrsi_view_range (N : Nat) (hN : 0 < N) (xs : List α) (v : α)
    (h : (myRsiCore (α := α) N).outAfter xs = .ok (some v)) : -1 ≤ v ∧ v ≤ 1 := by
  rw [MyRsi.outAfter_eq N hN] at h
  simp only [Spec.myRsi] at h
  split at h
  · simp at h
  · simp only [Except.ok.injEq, Option.some.injEq] at h; subst h; exact myRsiHold_range N xs

/-- every value HLNormalizer ever reports lies in [−1, 1] -/
theorem hln_view_range (N : Nat) (hN : 0 < N) (xs : List α) (v : α)
    (h : (hlnCore (α := α) N).outAfter xs = .ok (some v)) : -1 ≤ v ∧ v ≤ 1 := by
  rw [C02.hln_eq N hN] at h
  exact hln_range N xs v (by simpa using h)

/-! ### K2: PFE is not confined to [−1, 1] -/
/-- on a constant window the ratio fed to PFE's moving average is N / (N − 2) (so 5/3 for N = 5): numerator
sqrt(0 + N²) = N, denominator (N − 2) · sqrt(0 + 1) = N − 2.  Stated with the square roots already evaluated. -/
theorem pfe_const_ratio (N : Nat) (hN : 3 ≤ N) : (1 : α) < (N : α) / ((N : α) - 2) := by
  have h3 : (3 : α) ≤ (N : α) := by exact_mod_cast hN
  have hp : (0 : α) < (N : α) - 2 := by linarith
  rw [lt_div_iff₀ hp]; linarith

end SF.C07

/-! ### at ℝ: the transcendental members -/
namespace SF.C07.Real
open SF SF.Spec
/-- Tanh ∈ (−1, 1) -/
theorem tanh_range (A : View ℝ) (a : A.σ) (v : ℝ) (h : A.last a = .ok (some v)) :
    ∃ o, (mapV Transc.tanh A).last a = .ok (some o) ∧ -1 < o ∧ o < 1 :=
  ⟨_, C14.tanh_last A a v h rfl, Real.neg_one_lt_tanh v, Real.tanh_lt_one v⟩

/-- WelfordOnline ≥ 0 and WelfordRolling ≥ 0 -/
theorem welford_nonneg (N : Nat) (xs : List ℝ) (v : ℝ) (h : Spec.welford N xs = some v) : 0 ≤ v := by
  simp only [Spec.welford] at h
  split at h
  · simp at h
  · simp only [Option.some.injEq, Spec.stdOf] at h
    subst h; split
    · simp
    · exact Real.sqrt_nonneg _

theorem welfordRolling_nonneg (xs : List ℝ) (v : ℝ) (h : Spec.welfordRolling xs = some v) : 0 ≤ v := by
  simp only [Spec.welfordRolling] at h
  split at h
  · simp at h
  · simp only [Option.some.injEq] at h; subst h; exact Real.sqrt_nonneg _

/-- the views themselves -/
theorem welford_view_nonneg (N : Nat) (hN : 0 < N) (xs : List ℝ) (v : ℝ)
    (h : (welfordCoreU (α := ℝ) N).outAfter xs = .ok (some v)) : 0 ≤ v := by
  rw [C02.welford_last_eq N hN] at h
  exact welford_nonneg N xs v (by simpa using h)

theorem welfordRolling_view_nonneg (xs : List ℝ) (v : ℝ)
    (h : (welfordRollingCore (α := ℝ)).outAfter xs = .ok (some v)) : 0 ≤ v := by
  rw [C13.welfordRolling_last] at h
  exact welfordRolling_nonneg xs v (by simpa using h)
end SF.C07.Real

/-! ### NET, CenterOfGravity, LaguerreRSI (any ordered field); BinaryEntropy, CTI, Vsct, Fisher transform (ℝ) -/
namespace SF.C07
open SF SF.Spec
set_option linter.unusedSectionVars false
section
variable {α : Type} [Field α] [LinearOrder α] [IsStrictOrderedRing α] [FloatLike α] [ExactScalar α]

/-- NoiseEliminationTechnology ∈ [−1, 1]: |Σ_{i<j} sgn(w_j − w_i)| ≤ n(n−1)/2 -/
theorem net_range (N : Nat) (xs : List α) (v : α) (h : Spec.net N xs = some v) : -1 ≤ v ∧ v ≤ 1 :=
  Bounds.net_range N xs v h
theorem net_view_range (N : Nat) (hN : 0 < N) (xs : List α) (v : α)
    (h : (netCore (α := α) N).outAfter xs = .ok (some v)) : -1 ≤ v ∧ v ≤ 1 := Bounds.net_view_range N hN xs v h

/-- |CenterOfGravity| ≤ (N−1)/2 for positive inputs -/
theorem cog_range (N : Nat) (hN : 0 < N) (xs : List α) (hpos : ∀ x ∈ xs, 0 < x) (v : α) (h : Spec.cog N xs = some v) :
    -(((N : α) - 1) / 2) ≤ v ∧ v ≤ ((N : α) - 1) / 2 := Bounds.cog_range N hN xs hpos v h
theorem cog_view_range (N : Nat) (hN : 0 < N) (xs : List α) (hpos : ∀ x ∈ xs, 0 < x) (v : α)
    (h : (cogCore (α := α) N).outAfter xs = .ok (some v)) : -(((N : α) - 1) / 2) ≤ v ∧ v ≤ ((N : α) - 1) / 2 :=
  Bounds.cog_view_range N hN xs hpos v h

/-- LaguerreRSI ∈ [0, 1]: CU, CD ≥ 0 and the value is CU/(CU+CD) or a held earlier one -/
theorem laguerreRsi_range (N : Nat) (xs : List α) (v : α) (h : Spec.laguerreRsi N xs = some v) : 0 ≤ v ∧ v ≤ 1 :=
  LagRsi.range N xs v h
theorem laguerreRsi_view_range (N : Nat) (xs : List α) (v : α)
    (h : (lagRsiCore (α := α) N).outAfter xs = .ok (some v)) : 0 ≤ v ∧ v ≤ 1 := by
  rw [LagRsi.outAfter_eq N xs] at h
  exact LagRsi.range N xs v (by injection h)
end

/-- BinaryEntropy ∈ [0, 1] (ℝ): it is the binary entropy function, in bits, of a fraction in [0,1] -/
theorem entropy_range (N : Nat) (xs : List ℝ) (v : ℝ) (h : Spec.entropy N xs = some v) : 0 ≤ v ∧ v ≤ 1 :=
  Bounds.entropy_range N xs v h
theorem entropy_view_range (N : Nat) (hN : 0 < N) (xs : List ℝ) (v : ℝ)
    (h : (bentCore (α := ℝ) N).outAfter xs = .ok (some v)) : 0 ≤ v ∧ v ≤ 1 := Bounds.entropy_view_range N hN xs v h

/-- CorrelationTrendIndicator ∈ [−1, 1] (ℝ): Cauchy–Schwarz for the centred sums; holds for the zero-padded warm-up
windows too, since it is a fact about the Pearson formula of any list -/
theorem pearson_range (w : List ℝ) : -1 ≤ pearsonIdx w ∧ pearsonIdx w ≤ 1 := Bounds.pearson_range w
theorem cti_view_range (N : Nat) (hN : 0 < N) (xs : List ℝ) (hx : N ≤ xs.length) (v : ℝ)
    (h : (ctiCore (α := ℝ) N).outAfter xs = .ok (some v)) : -1 ≤ v ∧ v ≤ 1 := Bounds.cti_view_range N hN xs hx v h

/-- |Vsct| ≤ (N−1)/√N (ℝ): Samuelson's inequality n(x−m)² ≤ (n−1)Σ(xᵢ−m)², and (n−1)²/n is increasing in n -/
theorem samuelson_sq {α : Type} [Field α] [LinearOrder α] [IsStrictOrderedRing α] (pre : List α) (x : α) :
    let w := pre ++ [x]
    (w.length : α) * ((x - mean w) * (x - mean w)) ≤ ((w.length : α) - 1) * sumL (w.map fun y => sq (y - mean w)) :=
  Bounds.samuelson_sq pre x
theorem vsct_abs_bound (N : Nat) (hN : 0 < N) (xs : List ℝ) (v : ℝ) (h : Spec.vsct N xs = some v) :
    |v| ≤ ((N : ℝ) - 1) / Real.sqrt N := Bounds.vsct_abs_bound N hN xs v h
theorem vsct_view_bound (N : Nat) (hN : 0 < N) (xs : List ℝ) (v : ℝ)
    (h : (vsctCoreU (α := ℝ) N).outAfter xs = .ok (some v)) : |v| ≤ ((N : ℝ) - 1) / Real.sqrt N :=
  Bounds.vsct_view_bound N hN xs v h

/-- |EhlersFisherTransform| ≤ ln 199 (ℝ), for every history and every smoothing average: spec level (the batch
re-evaluation that `./check C11` compares with the implementation exactly) -/
theorem fisher_bound (N : Nat) (ma : List ℝ → Option ℝ) (xs : List ℝ) (v : ℝ) (h : Spec.fisher N ma xs = some v) :
    |v| ≤ Real.log 199 := Bounds.fisher_bound N ma xs v h
/-- … and so the view itself: |EhlersFisherTransform| ≤ ln 199 for every N ≥ 1, every stream and every realising moving
average (state machine = spec by C11 `fisher_eq`) -/
theorem fisher_view_bound (N : Nat) (hN : 0 < N) (ma : View ℝ) (maS : List ℝ → Option ℝ) (hR : Eft.Realises ma maS)
    (xs : List ℝ) (v : ℝ) (h : (eftCore N ma).outAfter xs = .ok (some v)) : |v| ≤ Real.log 199 := by
  rw [Eft.outAfter_eq N hN ma maS hR] at h
  exact Bounds.fisher_bound N maS xs v (by simpa using h)
end SF.C07

/-! ### Min ≤ Alma ≤ Max over the same window (ℝ: the Gaussian weights are positive) -/
namespace SF.C07.Real
open SF SF.Spec

/-- **Alma lies between the minimum and the maximum of its window**, every N ≥ 1, every σ, offset, every history:
any bounds lo ≤ x ≤ hi valid for the (at most N) values in the window are valid for Alma's output -/
theorem alma_between_min_max (N : Nat) (hN : 0 < N) (sigma offset : ℝ) (xs : List ℝ) (lo hi : ℝ)
    (hlo : ∀ x ∈ lastN N xs, lo ≤ x) (hhi : ∀ x ∈ lastN N xs, x ≤ hi) (v : ℝ)
    (h : Spec.alma N sigma offset xs = some v) : lo ≤ v ∧ v ≤ hi := by
  unfold Spec.alma at h
  split at h
  · simp at h
  · rename_i hne
    simp only [Option.some.injEq] at h
    set l := lastN N xs with hl
    set hfun : Nat → ℝ := fun j => gauss (offset * (nat N + nat 1)) (nat N / sigma) (min (xs.length - l.length + j) (N - 1)) with hh
    have hz := Alma.zipIdx_map_eq hfun l 0
    simp only [hh] at hz
    set gs := (List.range' 0 l.length).map hfun with hgs
    have hlne : l ≠ [] := by
      have hxne : xs ≠ [] := by cases xs <;> simp_all
      have : l.length = min N xs.length := lastN_length N xs
      have hxl : 0 < xs.length := List.length_pos_of_ne_nil hxne
      intro hnil; rw [hnil] at this; simp at this; omega
    have hlen : gs.length = l.length := by simp [hgs]
    have hpos : Alma.Pos gs := by
      intro g hg
      simp only [hgs, List.mem_map] at hg
      obtain ⟨i, _, rfl⟩ := hg
      exact C04.Real.gauss_pos _ _ _
    have hgne : gs ≠ [] := by
      intro hnil; rw [hnil] at hlen; simp at hlen; exact hlne (List.eq_nil_of_length_eq_zero hlen.symm)
    have hv : v = Alma.dot gs l / sumL gs := by
      rw [← h, hz, Alma.dot_eq, Alma.sum_fst_zip gs l hlen]
    rw [hv]
    exact Alma.wmean_interval gs l hlen hpos hgne lo hi hlo hhi

/-- … and so for the view itself (state machine = spec by C04 `alma_eq`) -/
theorem alma_view_between_min_max (N : Nat) (hN : 0 < N) (sigma offset : ℝ) (xs : List ℝ) (lo hi : ℝ)
    (hlo : ∀ x ∈ lastN N xs, lo ≤ x) (hhi : ∀ x ∈ lastN N xs, x ≤ hi) (v : ℝ)
    (h : (almaCore (α := ℝ) N sigma offset).outAfter xs = .ok (some v)) : lo ≤ v ∧ v ≤ hi := by
  rw [C04.alma_eq N hN] at h
  exact alma_between_min_max N hN sigma offset xs lo hi hlo hhi v (by simpa using h)

end SF.C07.Real
