import SF.Lemmas.PfeSuffix
import SF.Lemmas.RocSuffix
import SF.Props.C11
import SF.Props.C02
import SF.Lemmas.SpecFacts
import SF.Lemmas.Cog
import SF.Props.C04
import SF.Props.C05
import SF.Props.C06
import SF.Lemmas.Invariance
/-
  C03 — Finite memory: windowed views forget everything older than the window.
  For two histories of possibly different lengths (each at least K long) that agree on their last K values, the view
  reports the same value after either — whatever preceded, however long or large.  Proved from the characterisations
  of C02: the reported value is a function of `lastN N xs` (and of "has the window filled"), nothing else.
  Also: BinaryEntropy, NET, CTI (K = N); Rsi and MyRSI (K = N+1; MyRSI unless it is holding on a flat window, the
  exception the statement names); Alma (K = 2N: after 2N values every windowed sample entered with the last weight).
  Roc and PFE are decided by exact two-history runs only.
-/
namespace SF.C03
open SF SF.Spec
set_option linter.unusedSectionVars false
variable {α : Type} [Field α] [LinearOrder α] [IsStrictOrderedRing α] [FloatLike α] [ExactScalar α]

/-- agreement on the last K ≥ N values gives the same window -/
theorem window_eq (N K : Nat) (hK : N ≤ K) (xs ys : List α) (hx : K ≤ xs.length) (hy : K ≤ ys.length)
    (h : lastN K xs = lastN K ys) : lastN N xs = lastN N ys :=
  lastN_eq_of_suffix N K xs ys hK h hx hy

theorem getLast_eq (K : Nat) (hK : 0 < K) (xs ys : List α) (hx : K ≤ xs.length) (hy : K ≤ ys.length)
    (h : lastN K xs = lastN K ys) : xs.getLast? = ys.getLast? := by
  have e : ∀ zs : List α, K ≤ zs.length → zs.getLast? = (lastN K zs).getLast? := by
    intro zs hz
    simp only [lastN]
    rw [List.getLast?_drop]
    have : ¬ zs.length ≤ zs.length - K := by omega
    simp [this]
  rw [e xs hx, e ys hy, h]

theorem sma_suffix (N : Nat) (hN : 0 < N) (xs ys : List α) (hx : N ≤ xs.length) (hy : N ≤ ys.length)
    (h : lastN N xs = lastN N ys) : (smaCore (α := α) N).outAfter xs = (smaCore (α := α) N).outAfter ys := by
  rw [C02.sma_eq N hN, C02.sma_eq N hN, C02.sma_spec N xs hx, C02.sma_spec N ys hy, h]

theorem cumulative_suffix (N : Nat) (hN : 0 < N) (xs ys : List α) (hx : N ≤ xs.length) (hy : N ≤ ys.length)
    (h : lastN N xs = lastN N ys) : (cumCore (α := α) N).outAfter xs = (cumCore (α := α) N).outAfter ys := by
  rw [C02.cumulative_eq N hN, C02.cumulative_eq N hN]
  have hx0 : xs ≠ [] := by intro e; subst e; simp at hx; omega
  have hy0 : ys ≠ [] := by intro e; subst e; simp at hy; omega
  simp [Spec.cumulative, hx0, hy0, h]

theorem min_suffix (N : Nat) (hN : 0 < N) (xs ys : List α) (h : lastN N xs = lastN N ys) :
    (minCoreU (α := α) N).outAfter xs = (minCoreU (α := α) N).outAfter ys := by
  rw [C02.min_eq N hN, C02.min_eq N hN]; simp [Spec.wmin, h]

theorem max_suffix (N : Nat) (hN : 0 < N) (xs ys : List α) (h : lastN N xs = lastN N ys) :
    (maxCoreU (α := α) N).outAfter xs = (maxCoreU (α := α) N).outAfter ys := by
  rw [C02.max_eq N hN, C02.max_eq N hN]; simp [Spec.wmax, h]

theorem hln_suffix (N : Nat) (hN : 0 < N) (xs ys : List α) (hx : N ≤ xs.length) (hy : N ≤ ys.length)
    (h : lastN N xs = lastN N ys) : (hlnCore (α := α) N).outAfter xs = (hlnCore (α := α) N).outAfter ys := by
  rw [C02.hln_eq N hN, C02.hln_eq N hN]
  simp [Spec.hln, h, getLast_eq N hN xs ys hx hy h]

theorem cog_suffix (N : Nat) (hN : 0 < N) (xs ys : List α) (h : lastN N xs = lastN N ys) :
    (cogCore (α := α) N).outAfter xs = (cogCore (α := α) N).outAfter ys := by
  rw [Cog.outAfter_eq N hN, Cog.outAfter_eq N hN]; simp [Spec.cog, h]

section welford
variable [Transc α]
theorem welford_suffix (N : Nat) (hN : 0 < N) (xs ys : List α) (hx : N ≤ xs.length) (hy : N ≤ ys.length)
    (h : lastN N xs = lastN N ys) : (welfordCoreU (α := α) N).outAfter xs = (welfordCoreU (α := α) N).outAfter ys := by
  rw [C02.welford_last_eq N hN, C02.welford_last_eq N hN]
  have h1 : ¬ xs.length < N - 1 := by omega
  have h2 : ¬ ys.length < N - 1 := by omega
  simp [Spec.welford, h1, h2, h]

theorem vst_suffix (N : Nat) (hN : 0 < N) (xs ys : List α) (hx : N ≤ xs.length) (hy : N ≤ ys.length)
    (h : lastN N xs = lastN N ys) : (vstCoreU (α := α) N).outAfter xs = (vstCoreU (α := α) N).outAfter ys := by
  rw [C02.vst_eq N hN, C02.vst_eq N hN]
  have h1 : ¬ xs.length < N - 1 := by omega
  have h2 : ¬ ys.length < N - 1 := by omega
  simp [Spec.vst, Spec.welford, h1, h2, h, getLast_eq N hN xs ys hx hy h]

theorem vsct_suffix (N : Nat) (hN : 0 < N) (xs ys : List α) (hx : N ≤ xs.length) (hy : N ≤ ys.length)
    (h : lastN N xs = lastN N ys) : (vsctCoreU (α := α) N).outAfter xs = (vsctCoreU (α := α) N).outAfter ys := by
  rw [C02.vsct_eq N hN, C02.vsct_eq N hN]
  have h1 : ¬ xs.length < N - 1 := by omega
  have h2 : ¬ ys.length < N - 1 := by omega
  simp [Spec.vsct, Spec.welford, Spec.welfordMean, h1, h2, h, getLast_eq N hN xs ys hx hy h]
end welford


/-! ### the other windowed views of the statement -/
theorem entropy_suffix [Transc α] (N : Nat) (hN : 0 < N) (xs ys : List α) (h : lastN N xs = lastN N ys) :
    (bentCore (α := α) N).outAfter xs = (bentCore (α := α) N).outAfter ys := by
  rw [C02.entropy_eq N hN, C02.entropy_eq N hN]; simp [Spec.entropy, h]

theorem net_suffix (N : Nat) (hN : 0 < N) (xs ys : List α) (h : lastN N xs = lastN N ys) :
    (netCore (α := α) N).outAfter xs = (netCore (α := α) N).outAfter ys := by
  rw [C06.net_eq_kendall N hN, C06.net_eq_kendall N hN]; simp [Spec.net, h]

theorem cti_suffix [Transc α] (N : Nat) (hN : 0 < N) (xs ys : List α) (hx : N ≤ xs.length) (hy : N ≤ ys.length)
    (h : lastN N xs = lastN N ys) : (ctiCore (α := α) N).outAfter xs = (ctiCore (α := α) N).outAfter ys := by
  rw [C06.cti_eq_pearson N hN xs hx, C06.cti_eq_pearson N hN ys hy, h]

/-- Rsi depends only on the last N+1 values (N changes) -/
theorem rsi_suffix (N : Nat) (hN : 0 < N) (xs ys : List α) (hx : N + 1 ≤ xs.length) (hy : N + 1 ≤ ys.length)
    (h : lastN (N + 1) xs = lastN (N + 1) ys) : (rsiCore (α := α) N).outAfter xs = (rsiCore (α := α) N).outAfter ys := by
  rw [C05.rsi_eq N hN, C05.rsi_eq N hN]
  have hx' : ¬ (xs.length < N || xs.isEmpty) := by
    have : xs ≠ [] := by intro e; subst e; simp at hx
    simp [this]; omega
  have hy' : ¬ (ys.length < N || ys.isEmpty) := by
    have : ys ≠ [] := by intro e; subst e; simp at hy
    simp [this]; omega
  simp only [Spec.rsi, hx', hy', if_false, gains, losses, Invar.lastN_changes N xs hx, Invar.lastN_changes N ys hy, h]

/-- MyRSI depends only on the last N+1 values, unless it is explicitly holding its previous output (flat window: G+L = 0) -/
theorem myrsi_suffix (N : Nat) (hN : 0 < N) (xs ys : List α) (hx : N + 1 ≤ xs.length) (hy : N + 1 ≤ ys.length)
    (h : lastN (N + 1) xs = lastN (N + 1) ys) (hflat : gains N xs + losses N xs ≠ 0) :
    (myRsiCore (α := α) N).outAfter xs = (myRsiCore (α := α) N).outAfter ys := by
  rw [C05.myrsi_eq N hN, C05.myrsi_eq N hN]
  obtain ⟨hg, hl⟩ := Invar.gains_suffix N xs ys hx hy h
  have hx' : ¬ xs.length < N := by omega
  have hy' : ¬ ys.length < N := by omega
  simp only [Spec.myRsi, hx', hy', if_false]
  have hxne : xs ≠ [] := by intro e; subst e; simp at hx
  have hyne : ys ≠ [] := by intro e; subst e; simp at hy
  obtain ⟨xi, xl, rfl⟩ := (List.eq_nil_or_concat xs).resolve_left hxne
  obtain ⟨yi, yl, rfl⟩ := (List.eq_nil_or_concat ys).resolve_left hyne
  simp only [List.concat_eq_append] at *
  rw [C05.myrsi_hold_step, C05.myrsi_hold_step, if_neg hflat, if_neg (by rw [← hg, ← hl]; exact hflat), hg, hl]

/-- Alma: after 2N values every sample in the window entered with the last weight; the output depends on the window only -/
theorem alma_suffix [Transc α] (N : Nat) (hN : 0 < N) (sigma offset : α) (xs ys : List α) (hx : 2 * N ≤ xs.length) (hy : 2 * N ≤ ys.length)
    (h : lastN N xs = lastN N ys) :
    (almaCore (α := α) N sigma offset).outAfter xs = (almaCore (α := α) N sigma offset).outAfter ys := by
  rw [C04.alma_eq N hN, C04.alma_eq N hN]
  have hxne : xs ≠ [] := by intro e; subst e; simp at hx; omega
  have hyne : ys ≠ [] := by intro e; subst e; simp at hy; omega
  have hl : (lastN N ys).length = N := by rw [lastN_length]; exact Nat.min_eq_left (by omega)
  have kx : ∀ j, min (xs.length - (lastN N ys).length + j) (N - 1) = N - 1 := by intro j; rw [hl]; omega
  have ky : ∀ j, min (ys.length - (lastN N ys).length + j) (N - 1) = N - 1 := by intro j; rw [hl]; omega
  simp only [Spec.alma, hxne, hyne, List.isEmpty_iff, if_false, h, kx, ky]

/-- the stated form "two histories with distinct prefixes and a common suffix": `p ++ w` and `p' ++ w` -/
theorem sma_forgets_prefix (N : Nat) (hN : 0 < N) (p p' w : List α) (hw : N ≤ w.length) :
    (smaCore (α := α) N).outAfter (p ++ w) = (smaCore (α := α) N).outAfter (p' ++ w) := by
  have e : ∀ q : List α, lastN N (q ++ w) = lastN N w := by
    intro q; simp only [lastN, List.length_append]
    have h1 : q.length + w.length - N = q.length + (w.length - N) := by omega
    rw [h1, ← List.drop_drop, List.drop_left]
  exact sma_suffix N hN _ _ (by simp; omega) (by simp; omega) (by rw [e p, e p'])

section pfe_roc
variable [Transc α]
/-- **PFE over an M-window simple moving average is a function of the last N + M − 1 values** (spec level; the state machine
equals the spec by C11 `pfe_sma_eq`) -/
theorem pfe_sma_suffix (N M' : Nat) (hN : 3 ≤ N) (hM : 1 ≤ M') (xs ys : List α)
    (hx : N + M' - 1 ≤ xs.length) (hy : N + M' - 1 ≤ ys.length) (h : lastN (N + M' - 1) xs = lastN (N + M' - 1) ys) :
    Spec.pfe N (Spec.sma M') xs = Spec.pfe N (Spec.sma M') ys := PfeSuffix.pfe_sma_suffix N M' hN hM xs ys hx hy h

/-- … and so the view: two histories that agree on their last N + M − 1 values give the same PFE output -/
theorem pfe_sma_view_suffix (N M' : Nat) (hN : 3 ≤ N) (hM : 1 ≤ M') (xs ys : List α)
    (hx : N + M' - 1 ≤ xs.length) (hy : N + M' - 1 ≤ ys.length) (h : lastN (N + M' - 1) xs = lastN (N + M' - 1) ys) :
    (pfeCoreU N (overEcho (smaCore (α := α) M'))).outAfter xs = (pfeCoreU N (overEcho (smaCore (α := α) M'))).outAfter ys := by
  rw [C11.pfe_sma_eq N M' hN hM, C11.pfe_sma_eq N M' hN hM, PfeSuffix.pfe_sma_suffix N M' hN hM xs ys hx hy h]

/-- **Roc forgets everything older than N + 1 values, unless its base x(t−N) is 0** — then it is explicitly holding its
previous output, the one exception the property names -/
theorem roc_suffix (N : Nat) (xs ys : List α) (hx : N + 1 ≤ xs.length) (hy : N + 1 ≤ ys.length)
    (h : lastN (N + 1) xs = lastN (N + 1) ys) (hbase : (lastN (N + 1) xs).headD 0 ≠ 0) :
    Spec.roc N xs = Spec.roc N ys := RocSuffix.roc_suffix N xs ys hx hy h hbase
end pfe_roc

end SF.C03

namespace SF.C03.Example
open SF SF.Spec
/-- non-vacuity: two concrete histories of different lengths with a common 3-suffix -/
example : lastN 3 ([100, 200, 1, 2, 3] : List Int) = lastN 3 [7, 1, 2, 3] := by decide
end SF.C03.Example
