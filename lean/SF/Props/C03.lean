import SF.Props.C02
import SF.Lemmas.SpecFacts
import SF.Lemmas.Cog
/-
  C03 — Finite memory: windowed views forget everything older than the window.
  For two histories of possibly different lengths (each at least K long) that agree on their last K values, the view
  reports the same value after either — whatever preceded, however long or large.  Proved from the characterisations
  of C02: the reported value is a function of `lastN N xs` (and of "has the window filled"), nothing else.
-/
namespace SF.C03
open SF SF.Spec
set_option linter.unusedSectionVars false
variable {α : Type} [Field α] [LinearOrder α] [IsStrictOrderedRing α] [FloatLike α] [ExactScalar α]

/-- agreement on the last K ≥ N values gives the same window -/
theorem window_eq (N K : Nat) (hK : N ≤ K) (xs ys : List α) (hx : K ≤ xs.length) (hy : K ≤ ys.length)
    (h : lastN K xs = lastN K ys) : lastN N xs = lastN N ys :=
  lastN_eq_of_suffix N K xs ys hK h hx hy

theorem getLast_eq (K : Nat) (hK : 0 < K) (xs ys : List α) (hx : K ≤ xs.length) (hy : K ≤ ys.length)
    (h : lastN K xs = lastN K ys) : xs.getLast? = ys.getLast? := by
  have e : ∀ zs : List α, K ≤ zs.length → zs.getLast? = (lastN K zs).getLast? := by
    intro zs hz
    simp only [lastN]
    rw [List.getLast?_drop]
    have : ¬ zs.length ≤ zs.length - K := by omega
    simp [this]
  rw [e xs hx, e ys hy, h]

theorem sma_suffix (N : Nat) (hN : 0 < N) (xs ys : List α) (hx : N ≤ xs.length) (hy : N ≤ ys.length)
    (h : lastN N xs = lastN N ys) : (smaCore (α := α) N).outAfter xs = (smaCore (α := α) N).outAfter ys := by
  rw [C02.sma_eq N hN, C02.sma_eq N hN, C02.sma_spec N xs hx, C02.sma_spec N ys hy, h]

theorem cumulative_suffix (N : Nat) (hN : 0 < N) (xs ys : List α) (hx : N ≤ xs.length) (hy : N ≤ ys.length)
    (h : lastN N xs = lastN N ys) : (cumCore (α := α) N).outAfter xs = (cumCore (α := α) N).outAfter ys := by
  rw [C02.cumulative_eq N hN, C02.cumulative_eq N hN]
  have hx0 : xs ≠ [] := by intro e; subst e; simp at hx; omega
  have hy0 : ys ≠ [] := by intro e; subst e; simp at hy; omega
  simp [Spec.cumulative, hx0, hy0, h]

theorem min_suffix (N : Nat) (hN : 0 < N) (xs ys : List α) (h : lastN N xs = lastN N ys) :
    (minCoreU (α := α) N).outAfter xs = (minCoreU (α := α) N).outAfter ys := by
  rw [C02.min_eq N hN, C02.min_eq N hN]; simp [Spec.wmin, h]

theorem max_suffix (N : Nat) (hN : 0 < N) (xs ys : List α) (h : lastN N xs = lastN N ys) :
    (maxCoreU (α := α) N).outAfter xs = (maxCoreU (α := α) N).outAfter ys := by
  rw [C02.max_eq N hN, C02.max_eq N hN]; simp [Spec.wmax, h]

theorem hln_suffix (N : Nat) (hN : 0 < N) (xs ys : List α) (hx : N ≤ xs.length) (hy : N ≤ ys.length)
    (h : lastN N xs = lastN N ys) : (hlnCore (α := α) N).outAfter xs = (hlnCore (α := α) N).outAfter ys := by
  rw [C02.hln_eq N hN, C02.hln_eq N hN]
  simp [Spec.hln, h, getLast_eq N hN xs ys hx hy h]

theorem cog_suffix (N : Nat) (hN : 0 < N) (xs ys : List α) (h : lastN N xs = lastN N ys) :
    (cogCore (α := α) N).outAfter xs = (cogCore (α := α) N).outAfter ys := by
  rw [Cog.outAfter_eq N hN, Cog.outAfter_eq N hN]; simp [Spec.cog, h]

section welford
variable [Transc α]
theorem welford_suffix (N : Nat) (hN : 0 < N) (xs ys : List α) (hx : N ≤ xs.length) (hy : N ≤ ys.length)
    (h : lastN N xs = lastN N ys) : (welfordCoreU (α := α) N).outAfter xs = (welfordCoreU (α := α) N).outAfter ys := by
  rw [C02.welford_last_eq N hN, C02.welford_last_eq N hN]
  have h1 : ¬ xs.length < N - 1 := by omega
  have h2 : ¬ ys.length < N - 1 := by omega
  simp [Spec.welford, h1, h2, h]

theorem vst_suffix (N : Nat) (hN : 0 < N) (xs ys : List α) (hx : N ≤ xs.length) (hy : N ≤ ys.length)
    (h : lastN N xs = lastN N ys) : (vstCoreU (α := α) N).outAfter xs = (vstCoreU (α := α) N).outAfter ys := by
  rw [C02.vst_eq N hN, C02.vst_eq N hN]
  have h1 : ¬ xs.length < N - 1 := by omega
  have h2 : ¬ ys.length < N - 1 := by omega
  simp [Spec.vst, Spec.welford, h1, h2, h, getLast_eq N hN xs ys hx hy h]

theorem vsct_suffix (N : Nat) (hN : 0 < N) (xs ys : List α) (hx : N ≤ xs.length) (hy : N ≤ ys.length)
    (h : lastN N xs = lastN N ys) : (vsctCoreU (α := α) N).outAfter xs = (vsctCoreU (α := α) N).outAfter ys := by
  rw [C02.vsct_eq N hN, C02.vsct_eq N hN]
  have h1 : ¬ xs.length < N - 1 := by omega
  have h2 : ¬ ys.length < N - 1 := by omega
  simp [Spec.vsct, Spec.welford, Spec.welfordMean, h1, h2, h, getLast_eq N hN xs ys hx hy h]
end welford

/-- the stated form "two histories with distinct prefixes and a common suffix": `p ++ w` and `p' ++ w` -/
theorem sma_forgets_prefix (N : Nat) (hN : 0 < N) (p p' w : List α) (hw : N ≤ w.length) :
    (smaCore (α := α) N).outAfter (p ++ w) = (smaCore (α := α) N).outAfter (p' ++ w) := by
  have e : ∀ q : List α, lastN N (q ++ w) = lastN N w := by
    intro q; simp only [lastN, List.length_append]
    have h1 : q.length + w.length - N = q.length + (w.length - N) := by omega
    rw [h1, ← List.drop_drop, List.drop_left]
  exact sma_suffix N hN _ _ (by simp; omega) (by simp; omega) (by rw [e p, e p'])

end SF.C03

namespace SF.C03.Example
open SF SF.Spec
/-- non-vacuity: two concrete histories of different lengths with a common 3-suffix -/
example : lastN 3 ([100, 200, 1, 2, 3] : List Int) = lastN 3 [7, 1, 2, 3] := by decide
end SF.C03.Example
