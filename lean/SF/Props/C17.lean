import SF.Lemmas.Generic
import SF.Expr
/-
  C17 — Views are deterministic values: `last()` is pure and clones are independent.

  In the model a view's state is an immutable value, `upd : σ → α → M σ` and `last : σ → M (Option α)` are
  functions: determinism, purity of `last` and independence of copies hold by construction.  The theorems below
  make that explicit for arbitrary interleavings of `update`, `last`, `clone` and updates of the clone.  What ties
  this to the Rust code is (i) the correspondence run over such operation sequences and (ii) the source audit
  (no interior mutability, `last(&self)`), both part of `./check C17`.
-/
namespace SF.C17
open SF
variable {α : Type}

/-- operations on an original view and one clone of it -/
inductive Op (α : Type) where
  | upd (x : α)        -- original.update(x)
  | last               -- original.last()
  | clone              -- clone = original.clone()
  | updClone (x : α)   -- clone.update(x)
  | lastClone          -- clone.last()

/-- interpreter: state = (original, clone); collects the answers of every `last` on the original -/
def exec (V : View α) : V.σ × V.σ → List (Op α) → M ((V.σ × V.σ) × List (Option α))
  | st, [] => pure (st, [])
  | (s, c), .upd x :: ops => do
    let s' ← V.upd s x
    exec V (s', c) ops
  | (s, c), .last :: ops => do
    let o ← V.last s
    let (st, os) ← exec V (s, c) ops
    pure (st, o :: os)
  | (s, _), .clone :: ops => exec V (s, s) ops
  | (s, c), .updClone x :: ops => do
    let c' ← V.upd c x
    exec V (s, c') ops
  | (s, c), .lastClone :: ops => do
    let _ ← V.last c
    exec V (s, c) ops

/-- the inputs the original receives -/
def mainInputs : List (Op α) → List α
  | [] => []
  | .upd x :: ops => x :: mainInputs ops
  | _ :: ops => mainInputs ops

/-- **purity of `last`, independence of the clone.** Whatever `last` calls are interleaved, whenever a clone is taken
and whatever the clone is fed afterwards: if the whole sequence completes, the original ends in exactly the state it
reaches when it alone is fed its own inputs. -/
theorem exec_main (V : View α) (s c : V.σ) (ops : List (Op α)) (st : V.σ × V.σ) (os : List (Option α))
    (h : exec V (s, c) ops = .ok (st, os)) : V.run s (mainInputs ops) = .ok st.1 := by
  induction ops generalizing s c st os with
  | nil => simp only [exec, pure, Except.pure] at h; cases h; rfl
  | cons op ops ih =>
    cases op with
    | upd x =>
      simp only [exec, mainInputs, View.run] at h ⊢
      cases hu : V.upd s x with
      | error e => simp [hu, bind, Except.bind] at h
      | ok s' => simp only [hu, bind, Except.bind] at h ⊢; exact ih s' c st os h
    | last =>
      simp only [exec, mainInputs] at h ⊢
      cases hl : V.last s with
      | error e => simp [hl, bind, Except.bind] at h
      | ok o =>
        cases hr : exec V (s, c) ops with
        | error e => simp [hl, hr, bind, Except.bind] at h
        | ok r =>
          simp only [hl, hr, bind, Except.bind, pure, Except.pure] at h
          cases h
          exact ih s c r.1 r.2 hr
    | clone => simp only [exec, mainInputs] at h ⊢; exact ih s s st os h
    | updClone x =>
      simp only [exec, mainInputs] at h ⊢
      cases hu : V.upd c x with
      | error e => simp [hu, bind, Except.bind] at h
      | ok c' => simp only [hu, bind, Except.bind] at h; exact ih s c' st os h
    | lastClone =>
      simp only [exec, mainInputs] at h ⊢
      cases hl : V.last c with
      | error e => simp [hl, bind, Except.bind] at h
      | ok o => simp only [hl, bind, Except.bind] at h; exact ih s c st os h

/-- **a clone continues exactly like the original**: taking a copy of the state after `xs` and feeding it `ys` gives
what the original gives on `xs ++ ys`. -/
theorem clone_continues (V : View α) (s s' : V.σ) (xs ys : List α) (h : V.run s xs = .ok s') :
    V.run s' ys = V.run s (xs ++ ys) := by
  rw [View.run_append, h]; rfl

/-- **determinism**: the answers after every update are a function of the parameters (the view) and the inputs; two
runs from equal states on equal inputs agree at every step (stated as: `trace` is a function, and it factors
through `run`) -/
theorem trace_length (V : View α) (s : V.σ) (xs : List α) (os : List (Option α))
    (h : V.trace s xs = .ok os) : os.length = xs.length := by
  induction xs generalizing s os with
  | nil => simp only [View.trace, pure, Except.pure] at h; cases h; rfl
  | cons x xs ih =>
    rw [trace_cons] at h
    cases hu : V.upd s x with
    | error e => simp [hu, bind, Except.bind] at h
    | ok s' =>
      cases hl : V.last s' with
      | error e => simp [hu, hl, bind, Except.bind] at h
      | ok o =>
        cases ht : V.trace s' xs with
        | error e => simp [hu, hl, ht, bind, Except.bind] at h
        | ok r =>
          simp only [hu, hl, ht, bind, Except.bind, pure, Except.pure] at h
          cases h
          simp [ih s' r ht]

/-- calling `last` any number of times between updates changes nothing: the answer read after the run is the
answer of the state reached by the updates alone -/
theorem last_after_exec (V : View α) (s c : V.σ) (ops : List (Op α)) (st : V.σ × V.σ) (os : List (Option α))
    (h : exec V (s, c) ops = .ok (st, os)) (s' : V.σ) (hs : V.run s (mainInputs ops) = .ok s') :
    V.last st.1 = V.last s' := by
  have := exec_main V s c ops st os h
  rw [this] at hs; cases hs; rfl

/-- lifted to every tree of the catalogue syntax: the statements above hold for `denote e` whatever `e` is, since
they hold for every `View`. -/
theorem all_trees [Add α] [Sub α] [Mul α] [Div α] [Neg α] [NatCast α] [LT α] [DecidableLT α] [LE α]
    [DecidableLE α] [BEq α] [FloatLike α] [Transc α]
    (e : VE α) (V : View α) (_ : denote e = .ok V) (ops : List (Op α)) (st : V.σ × V.σ) (os : List (Option α))
    (h : exec V (V.init, V.init) ops = .ok (st, os)) : V.run V.init (mainInputs ops) = .ok st.1 :=
  exec_main V V.init V.init ops st os h

end SF.C17

namespace SF.C17.Example
open SF
instance : FloatLike Int := ⟨fun _ => true, fun _ => false, 0, 0⟩
/-- a concrete interleaving on `Sma(2)`: the hypotheses of `exec_main` are met -/
example : ∃ st os, exec (overEcho (smaCore (α := Int) 2)) ((overEcho (smaCore (α := Int) 2)).init, (overEcho (smaCore (α := Int) 2)).init)
    [.upd 1, .last, .last, .clone, .updClone 9, .upd 3, .lastClone, .last] = .ok (st, os) ∧ os = [none, none, some 2] :=
  ⟨_, _, rfl, rfl⟩
end SF.C17.Example
