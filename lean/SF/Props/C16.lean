import SF.Props.C02
import SF.Props.C03
import SF.Props.C04
import SF.Props.C06
/-
  C16 — Floating-point results track the exact result: no drift, no stale residue.

  This property is about IEEE-754 arithmetic.  Lean's `Float` is opaque to the kernel and no rounding-error analysis is
  attempted: the f64 / f32 half of C16 is MEASURED by `./check C16` (the same Rust generic code at f64 / f32 against the
  exact scalar Q, with the statement's own thresholds) and is claimed at level `other`, not `proof`.
  What IS proved is the exact half the measurement is compared with:
  * no drift: after a stream of ANY length the incrementally maintained accumulators equal the batch statistics of the
    current window (so in exact arithmetic nothing accumulates), and
  * no residue: when the window is flat (at least N identical values after an arbitrary volatile prefix) the exact
    answers are the ones listed in the statement (the value for the averages, 0 for WelfordOnline / Vsct, the value
    itself for Vst).
-/
namespace SF.C16
open SF SF.Spec
set_option linter.unusedSectionVars false
variable {α : Type} [Field α] [LinearOrder α] [IsStrictOrderedRing α] [FloatLike α] [ExactScalar α]

/-- no drift (Sma): whatever came before and however long the stream, the running sum IS the sum of the window -/
theorem sma_no_drift (N : Nat) (hN : 0 < N) (xs : List α) :
    ∃ s, (smaCore (α := α) N).run (smaCore (α := α) N).init xs = .ok s ∧ s.q = lastN N xs ∧ s.sum = sumL (lastN N xs) := by
  obtain ⟨s, hs, hq, hsum⟩ := Sma.run_ok (α := α) N hN xs
  exact ⟨s, hs, hq, by rw [hsum, hq]⟩

/-- no drift (WelfordOnline): mean and m2 are the first and second central moments of the window, exactly -/
theorem welford_no_drift [Transc α] (N : Nat) (hN : 0 < N) (xs : List α) :
    ∃ s, (welfordCoreU (α := α) N).run (welfordCoreU (α := α) N).init xs = .ok s ∧ s.q = lastN N xs ∧
      s.mean = sumL s.q / (s.q.length : α) ∧
      s.m2 = Moments.S2 s.q - sumL s.q * sumL s.q / (s.q.length : α) := by
  obtain ⟨s, hs, hq, hagg⟩ := Welford.run_ok (α := α) N hN xs
  exact ⟨s, hs, hq, hagg.hmean, hagg.hm2⟩

theorem lastN_flat (N : Nat) (p : List α) (c : α) (k : Nat) (hk : N ≤ k) :
    lastN N (p ++ List.replicate k c) = List.replicate N c := by
  simp only [lastN, List.length_append, List.length_replicate]
  rw [show p.length + k - N = p.length + (k - N) by omega, ← List.drop_drop, List.drop_left]
  simp; omega

/-- no residue: after any volatile prefix `p`, N or more identical values make Sma report exactly that value -/
theorem sma_flat (N : Nat) (hN : 0 < N) (p : List α) (c : α) (k : Nat) (hk : N ≤ k) :
    Spec.sma N (p ++ List.replicate k c) = some c := by
  rw [C02.sma_spec N _ (by simp; omega), lastN_flat N p c k hk, sumL_const]
  have : (N : α) ≠ 0 := by exact_mod_cast hN.ne'
  field_simp

/-- the sample variance of a flat window is exactly 0 … -/
theorem sampleVar_flat (n : Nat) (c : α) : sampleVar (List.replicate n c) = 0 := by
  simp only [sampleVar, List.length_replicate]
  split
  · simp
  · rename_i h
    have hn : n ≠ 0 := by omega
    have hmean : mean (List.replicate n c) = c := by
      simp only [mean, sumL_const, List.length_replicate, nat_eq]
      have : (n : α) ≠ 0 := by exact_mod_cast hn
      field_simp
    rw [hmean]
    have : sumL ((List.replicate n c).map fun x => sq (x - c)) = 0 := by
      rw [List.map_replicate]; simp [sumL_const]
    rw [this]; simp

/-- … hence WelfordOnline reports 0, Vsct 0 and Vst the value itself -/
theorem welford_flat [Transc α] (N : Nat) (hN : 0 < N) (p : List α) (c : α) (k : Nat) (hk : N ≤ k) :
    Spec.welford N (p ++ List.replicate k c) = some 0 := by
  have hl : ¬ (p ++ List.replicate k c).length < N - 1 := by simp; omega
  simp only [Spec.welford, hl, if_false, lastN_flat N p c k hk, sampleVar_flat, Spec.stdOf]
  simp

theorem vst_flat [Transc α] (N : Nat) (hN : 0 < N) (p : List α) (c : α) (k : Nat) (hk : N ≤ k) :
    Spec.vst N (p ++ List.replicate k c) = some c := by
  have hk0 : 0 < k := by omega
  have hlast : (p ++ List.replicate k c).getLast? = some c := by
    obtain ⟨k', rfl⟩ : ∃ k', k = k' + 1 := ⟨k - 1, by omega⟩
    rw [List.replicate_succ', ← List.append_assoc]; simp
  simp [Spec.vst, welford_flat N hN p c k hk, hlast]

theorem vsct_flat [Transc α] (N : Nat) (hN : 0 < N) (p : List α) (c : α) (k : Nat) (hk : N ≤ k) :
    Spec.vsct N (p ++ List.replicate k c) = some 0 := by
  have hk0 : 0 < k := by omega
  have hlast : (p ++ List.replicate k c).getLast? = some c := by
    obtain ⟨k', rfl⟩ : ∃ k', k = k' + 1 := ⟨k - 1, by omega⟩
    rw [List.replicate_succ', ← List.append_assoc]; simp
  simp [Spec.vsct, welford_flat N hN p c k hk, hlast]

/-- Ema's exact answer on a flat tail is NOT the value after N+1 samples (a recursive average converges
geometrically, C09); what is exact is the recursion itself -/
theorem ema_exact (N : Nat) (hN : 0 < N) (alpha : α) (xs : List α) :
    (emaCore (α := α) N alpha).outAfter xs = .ok (Spec.ema N alpha xs) := C04.ema_eq N hN alpha xs

/-- Min and Max of a flat window are the value -/
theorem min_max_flat (N : Nat) (hN : 0 < N) (p : List α) (c : α) (k : Nat) (hk : N ≤ k) :
    Spec.wmin N (p ++ List.replicate k c) = some c ∧ Spec.wmax N (p ++ List.replicate k c) = some c := by
  simp only [Spec.wmin, Spec.wmax, lastN_flat N p c k hk]
  have hr : c ∈ List.replicate N c := by simp; omega
  constructor
  · exact MinMax.minL_eq_of_least _ _ ⟨hr, fun x hx => by rw [List.eq_of_mem_replicate hx]⟩
  · exact MinMax.maxL_eq_of_greatest _ _ ⟨hr, fun x hx => by rw [List.eq_of_mem_replicate hx]⟩

/-- HLNormalizer reports 0 on a flat window (max = min) -/
theorem hln_flat (N : Nat) (hN : 0 < N) (p : List α) (c : α) (k : Nat) (hk : N ≤ k) :
    Spec.hln N (p ++ List.replicate k c) = some 0 := by
  obtain ⟨h1, h2⟩ := min_max_flat N hN p c k hk
  simp only [Spec.wmin, Spec.wmax] at h1 h2
  have hk0 : 0 < k := by omega
  have hlast : (p ++ List.replicate k c).getLast? = some c := by
    obtain ⟨k', rfl⟩ : ∃ k', k = k' + 1 := ⟨k - 1, by omega⟩
    rw [List.replicate_succ', ← List.append_assoc]; simp
  simp [Spec.hln, h1, h2, hlast]

/-- Cumulative reports N·c on a flat window -/
theorem cumulative_flat (N : Nat) (hN : 0 < N) (p : List α) (c : α) (k : Nat) (hk : N ≤ k) :
    Spec.cumulative N (p ++ List.replicate k c) = some ((N : α) * c) := by
  have hne : (p ++ List.replicate k c).isEmpty = false := by
    cases p with
    | nil => cases k with
      | zero => omega
      | succ k => simp [List.replicate_succ]
    | cons a r => rfl
  simp only [Spec.cumulative, hne, Bool.false_eq_true, if_false, lastN_flat N p c k hk, sumL_const]

/-- NET reports 0 on a flat window (every pair is a tie), N ≥ 2 -/
theorem kendallNum_flat (n : Nat) (c : α) : kendallNum (List.replicate n c) = 0 := by
  induction n with
  | zero => simp [kendallNum]
  | succ n ih =>
    simp only [List.replicate_succ, kendallNum, ih, add_zero, List.map_replicate, sub_self]
    simp [Spec.sgn0, sumL_const]

theorem net_flat (N : Nat) (hN : 2 ≤ N) (p : List α) (c : α) (k : Nat) (hk : N ≤ k) :
    Spec.net N (p ++ List.replicate k c) = some 0 := by
  simp only [Spec.net, lastN_flat N p c k hk, List.length_replicate]
  rw [if_neg (by omega)]
  simp [Spec.kendall, kendallNum_flat]

end SF.C16

namespace SF.C16.Real
open SF SF.Spec
/-- CTI reports 0 on a flat window (its variance term is 0) -/
theorem cti_flat (N : Nat) (hN : 0 < N) (p : List ℝ) (c : ℝ) (k : Nat) (hk : N ≤ k) :
    Spec.cti N (p ++ List.replicate k c) = some 0 := by
  have hl : ¬ (p ++ List.replicate k c).length < N := by simp; omega
  simp only [Spec.cti, hl, if_false, C16.lastN_flat N p c k hk]
  congr 1
  rw [Inv2.pearson_eq_pearF]
  simp only [List.length_replicate, List.map_replicate, sumL_const]
  unfold Inv2.pearF
  rw [if_neg]
  intro h
  have : (N : ℝ) * ((N : ℝ) * (c * c)) - (N : ℝ) * c * ((N : ℝ) * c) = 0 := by ring
  linarith [h.1]
end SF.C16.Real
