import SF.Lemmas.Real
import Mathlib.Analysis.SpecialFunctions.Exp
import SF.Lemmas.NoPanic
import SF.Lemmas.Sma
import SF.Lemmas.Cum
import SF.Lemmas.Ema
import SF.Lemmas.MinMax
import SF.Lemmas.Welford
import SF.Lemmas.Rolling
import SF.Lemmas.Rsi
import SF.Lemmas.MyRsi
import SF.Lemmas.Hln
import SF.Lemmas.Pfe
import SF.Lemmas.Cti
import SF.Lemmas.Cog
import SF.Expr
import SF.Lemmas.Roc
import SF.Lemmas.Bent
import SF.Lemmas.Alma
import SF.Lemmas.Net
import SF.Lemmas.Lagf
import SF.Lemmas.Roof
import SF.Lemmas.LagRsi
import SF.Lemmas.Flex
import SF.Lemmas.CyberCycle
/-
  C15 — No panic: every constructed view accepts every finite in-domain stream.

  `Core.NoPanic B`: from the initial state, on ANY input list, neither `step` nor `out` returns `.error` — where the
  model returns `.error` exactly at the Rust `unwrap/expect`, index, `usize` subtraction, `assert!` and
  `debug_assert!` sites.  In exact arithmetic every scalar is finite, so the `debug_assert!(is_finite)` sites cannot
  fire; the theorems therefore cover index / unwrap / underflow / assert panics for all N and all streams and say
  nothing about f64 overflow.  Constructor rejections are part of the model (`*_rejects`).
  `wrap_noPanic` / `mapV_noPanic` lift this to chains; `good_noPanic` to every tree built from the cores proved so far.
  Cores not yet covered by a theorem here are listed in DESIGN.md (they are covered by the correspondence run only).
-/
namespace SF.C15
open SF
set_option linter.unusedSectionVars false
variable {α : Type} [Field α] [LinearOrder α] [IsStrictOrderedRing α] [FloatLike α] [ExactScalar α]

theorem noPanic_of_total (B : Core α) (hstep : ∀ s x, ∃ s', B.step s x = .ok s') (hout : ∀ s, ∃ o, B.out s = .ok o) :
    B.NoPanic := by
  intro ys
  obtain ⟨s, hs, _⟩ := Core.run_invariant_init B (fun _ _ => True) trivial
    (fun s _ x _ => by obtain ⟨s', h⟩ := hstep s x; exact ⟨s', h, trivial⟩) ys
  exact ⟨s, hs, hout s⟩

theorem noPanic_of_inv (B : Core α) (Inv : B.σ → List α → Prop) (spec : List α → Option α)
    (hrun : ∀ xs, ∃ s, B.run B.init xs = .ok s ∧ Inv s xs) (hout : ∀ s xs, Inv s xs → B.out s = .ok (spec xs)) :
    B.NoPanic := by
  intro ys
  obtain ⟨s, hs, hi⟩ := hrun ys
  exact ⟨s, hs, _, hout s ys hi⟩

/-! ### windowed cores: for every N ≥ 1 (every N the constructor accepts) and every stream -/
theorem sma_noPanic (N : Nat) (hN : 0 < N) : (smaCore (α := α) N).NoPanic :=
  noPanic_of_inv _ (Sma.Inv N) (Spec.sma N) (Sma.run_ok N hN) (Sma.out_eq N)
theorem cum_noPanic (N : Nat) (hN : 0 < N) : (cumCore (α := α) N).NoPanic :=
  noPanic_of_inv _ (Cum.Inv N) (Spec.cumulative N) (Cum.run_ok N hN) (Cum.out_eq N)
theorem ema_noPanic (N : Nat) (alpha : α) : (emaCore (α := α) N alpha).NoPanic := by
  apply noPanic_of_total
  · intro s x; simp only [emaCore]; split <;> exact ⟨_, rfl⟩
  · intro s; simp only [emaCore]; split
    · exact ⟨_, rfl⟩
    · exact ⟨_, by simp only [assertFinite_exact, bind, Except.bind, pure, Except.pure]; rfl⟩
theorem min_noPanic (N : Nat) (hN : 0 < N) : (minCoreU (α := α) N).NoPanic :=
  noPanic_of_inv _ (MinMax.MinInv N) (Spec.wmin N)
    (Core.run_invariant_init (minCoreU N) (MinMax.MinInv N) (by simp [MinMax.MinInv, minCoreU, Spec.minL])
      (fun s pre x h => MinMax.min_step_ok N hN s pre x h))
    (fun s xs h => by simp [minCoreU, Spec.wmin, h.2, h.1, pure, Except.pure])
theorem max_noPanic (N : Nat) (hN : 0 < N) : (maxCoreU (α := α) N).NoPanic :=
  noPanic_of_inv _ (MinMax.MaxInv N) (Spec.wmax N)
    (Core.run_invariant_init (maxCoreU N) (MinMax.MaxInv N) (by simp [MinMax.MaxInv, maxCoreU, Spec.maxL])
      (fun s pre x h => MinMax.max_step_ok N hN s pre x h))
    (fun s xs h => by simp [maxCoreU, Spec.wmax, h.2, h.1, pure, Except.pure])

theorem rsi_noPanic (N : Nat) (hN : 0 < N) : (rsiCore (α := α) N).NoPanic :=
  noPanic_of_inv _ (Rsi.Inv N) (Spec.rsi N)
    (Core.run_invariant_init (rsiCore N) (Rsi.Inv N) (Rsi.init_inv N) (fun s pre x h => Rsi.step_ok N hN s pre x h))
    (fun s xs h => by simp [rsiCore, h.hout, pure, Except.pure])
theorem myrsi_noPanic (N : Nat) (hN : 0 < N) : (myRsiCore (α := α) N).NoPanic := by
  intro ys
  obtain ⟨s, hs, _⟩ := Core.run_invariant_init (myRsiCore N) (MyRsi.Inv N) (MyRsi.init_inv N)
    (fun s pre x h => MyRsi.step_ok N hN s pre x h) ys
  refine ⟨s, hs, ?_⟩
  simp only [myRsiCore]; split
  · exact ⟨_, rfl⟩
  · exact ⟨_, by simp only [assertFinite_exact, bind, Except.bind, pure, Except.pure]; rfl⟩
theorem hln_noPanic (N : Nat) (hN : 0 < N) : (hlnCore (α := α) N).NoPanic :=
  noPanic_of_inv _ (Hln.Inv N) (Spec.hln N)
    (Core.run_invariant_init (hlnCore N) (Hln.Inv N)
      ⟨by simp [hlnCore], by simp [hlnCore], fun h => absurd rfl h, fun _ => by simp [hlnCore]⟩
      (fun s pre x h => Hln.step_ok N hN s pre x h))
    (fun s xs h => Hln.out_eq N hN s xs h)
theorem cog_noPanic (N : Nat) (hN : 0 < N) : (cogCore (α := α) N).NoPanic :=
  noPanic_of_inv _ (Cog.Inv N) (Spec.cog N)
    (Core.run_invariant_init (cogCore N) (Cog.Inv N) (by simp [Cog.Inv, cogCore, Spec.cog]) (fun s pre x h => Cog.step_ok N hN s pre x h))
    (fun s xs h => by simp [cogCore, h.2, pure, Except.pure])

section transc
variable [Transc α]
theorem welford_noPanic (N : Nat) (hN : 0 < N) : (welfordCoreU (α := α) N).NoPanic :=
  noPanic_of_inv _ (Welford.Inv N) (Spec.welford N) (Welford.run_ok N hN) (fun s xs h => Welford.out_eq N hN s xs h)
theorem vst_noPanic (N : Nat) (hN : 0 < N) : (vstCoreU (α := α) N).NoPanic :=
  noPanic_of_inv _ (Welford.VInv N) (Spec.vst N)
    (Core.run_invariant_init (vstCoreU N) (Welford.VInv N) (Welford.vinit N) (fun s pre x h => Welford.vst_step_ok N hN s pre x h))
    (fun s xs h => Welford.vst_out_eq N hN s xs h)
theorem vsct_noPanic (N : Nat) (hN : 0 < N) : (vsctCoreU (α := α) N).NoPanic :=
  noPanic_of_inv _ (Welford.VInv N) (Spec.vsct N)
    (Core.run_invariant_init (vsctCoreU N) (Welford.VInv N) (Welford.vinit N) (fun s pre x h => Welford.vsct_step_ok N hN s pre x h))
    (fun s xs h => Welford.vsct_out_eq N hN s xs h)

/-! ### cores without any panic site other than finiteness assertions -/
theorem welfordRolling_noPanic : (welfordRollingCore (α := α)).NoPanic := by
  apply noPanic_of_total
  · intro s x; exact ⟨_, rfl⟩
  · intro s; simp only [welfordRollingCore]; split
    · exact ⟨_, rfl⟩
    · exact ⟨_, by simp only [assertFinite_exact, bind, Except.bind, pure, Except.pure]; rfl⟩
theorem lnReturn_noPanic : (lnReturnCore (α := α)).NoPanic := by
  apply noPanic_of_total
  · intro s x; exact ⟨_, rfl⟩
  · intro s; simp only [lnReturnCore]; split
    · exact ⟨_, rfl⟩
    · exact ⟨_, by simp only [assertFinite_exact, bind, Except.bind, pure, Except.pure]; rfl⟩
theorem superSmoother_noPanic (N : Nat) : (ssCore (α := α) N).NoPanic := by
  apply noPanic_of_total
  · intro s x; exact ⟨_, rfl⟩
  · intro s; simp only [ssCore, ssOut]; split
    · exact ⟨_, rfl⟩
    · exact ⟨_, by simp only [assertFinite_exact, bind, Except.bind, pure, Except.pure]; rfl⟩
end transc

theorem drawdown_noPanic : (drawdownCore (α := α)).NoPanic := by
  apply noPanic_of_total
  · intro s x; exact ⟨_, rfl⟩
  · intro s; exact ⟨_, by simp only [drawdownCore, assertFinite_exact, bind, Except.bind, pure, Except.pure]; rfl⟩
theorem gte_noPanic (c : α) : (gteCore c).NoPanic :=
  noPanic_of_total _ (fun _ _ => ⟨_, rfl⟩) (fun _ => ⟨_, rfl⟩)
theorem lte_noPanic (c : α) : (lteCore c).NoPanic :=
  noPanic_of_total _ (fun _ _ => ⟨_, rfl⟩) (fun _ => ⟨_, rfl⟩)

/-! ### constructors: exactly the rejected parameters are rejected -/
section ctor
variable {β : Type} [Add β] [Sub β] [Mul β] [Div β] [Neg β] [NatCast β] [LT β] [DecidableLT β] [LE β]
  [DecidableLE β] [BEq β] [FloatLike β] [Transc β]
theorem min_ctor (N : Nat) : (minCore (α := β) N = .error .assertFailed) ↔ N = 0 := by
  simp only [minCore]; split <;> simp_all [pure, Except.pure, throw, throwThe, MonadExceptOf.throw]
theorem welford_ctor (N : Nat) : (welfordCore (α := β) N = .error .assertFailed) ↔ N = 0 := by
  simp only [welfordCore]; split <;> simp_all [pure, Except.pure, throw, throwThe, MonadExceptOf.throw]
theorem cc_ctor (N : Nat) : (ccCore (α := β) N = .error .assertFailed) ↔ N < 6 := by
  simp only [ccCore]; split <;> simp_all [pure, Except.pure, throw, throwThe, MonadExceptOf.throw]
theorem roof_ctor (N M' : Nat) : (roofCore (α := β) N M' = .error .assertFailed) ↔ N < 2 := by
  simp only [roofCore]; split <;> simp_all [pure, Except.pure, throw, throwThe, MonadExceptOf.throw]
theorem pfe_ctor (N : Nat) (ma : View β) : (pfeCore (α := β) N ma = .error .assertFailed) ↔ N < 3 := by
  simp only [pfeCore]; split <;> simp_all [pure, Except.pure, throw, throwThe, MonadExceptOf.throw]
end ctor

/-! ### chains -/
/-! ### cores characterised by a total batch function: Roc, BinaryEntropy, Alma, NET, LaguerreFilter, Roofing, LaguerreRSI -/
open SF

/-- a core whose every run-then-`last()` is characterised by a total batch function cannot panic -/
theorem noPanic_of_outAfter (B : Core α) (spec : List α → Option α) (h : ∀ xs, B.outAfter xs = .ok (spec xs)) :
    B.NoPanic := by
  intro ys
  have := h ys
  unfold Core.outAfter at this
  cases hr : B.run B.init ys with
  | error e => rw [hr] at this; simp [bind, Except.bind] at this
  | ok s =>
    rw [hr] at this
    exact ⟨s, rfl, _, this⟩

section
variable [Transc α]
theorem roc_noPanic (N : Nat) (hN : 0 < N) : (rocCore (α := α) N).NoPanic :=
  noPanic_of_outAfter _ _ (Roc.outAfter_eq N hN)
theorem entropy_noPanic (N : Nat) (hN : 0 < N) : (bentCore (α := α) N).NoPanic :=
  noPanic_of_outAfter _ _ (Bent.outAfter_eq N hN)
theorem alma_noPanic (N : Nat) (hN : 0 < N) (sigma offset : α) : (almaCore (α := α) N sigma offset).NoPanic :=
  noPanic_of_outAfter _ _ (Alma.outAfter_eq N hN sigma offset)
theorem laguerreFilter_noPanic (g : α) : (lagfCore (α := α) g).NoPanic :=
  noPanic_of_outAfter _ _ (Lagf.outAfter_eq g)
/-- RoofingFilter: the unchecked core never panics for any N; the constructor rejects N < 2 (`roofing_ctor`) -/
theorem roofing_noPanic (N M' : Nat) (hM : 0 < M') : (roofCoreU (α := α) N M').NoPanic :=
  noPanic_of_outAfter _ _ (Roof.outAfter_eq N M' hM)
/-- CyberCycle: no panic for any N the constructor accepts (`cc_ctor`: exactly N ≥ 6) -/
theorem cyberCycle_noPanic (N : Nat) (hN : 6 ≤ N) : (ccCoreU (α := α) N).NoPanic :=
  noPanic_of_outAfter _ _ (CC.cyberCycle_eq N hN)
theorem trendFlex_noPanic (N : Nat) (hN : 3 ≤ N) : (tflexCore (α := α) N).NoPanic :=
  noPanic_of_outAfter _ _ (Flex.trendFlex_eq N hN)
theorem reFlex_noPanic (N : Nat) (hN : 3 ≤ N) : (rflexCore (α := α) N).NoPanic :=
  noPanic_of_outAfter _ _ (ReFlex.reFlex_eq N hN)
end
theorem net_noPanic (N : Nat) (hN : 0 < N) : (netCore (α := α) N).NoPanic :=
  noPanic_of_outAfter _ _ (Net.outAfter_eq N hN)
theorem laguerreRsi_noPanic (N : Nat) : (lagRsiCore (α := α) N).NoPanic :=
  noPanic_of_outAfter _ _ (LagRsi.outAfter_eq N)

theorem echo_noPanic : (echoV (α := α)).NoPanic := by
  refine ⟨⟨none, rfl⟩, fun xs _ => ?_⟩
  have : ∀ (s : Option α) (ys : List α), ∃ os, (echoV (α := α)).trace s ys = .ok os := by
    intro s ys
    induction ys generalizing s with
    | nil => exact ⟨[], rfl⟩
    | cons y ys ih =>
      obtain ⟨r, hr⟩ := ih (some y)
      refine ⟨some y :: r, ?_⟩
      rw [trace_cons]
      have : (echoV (α := α)).upd s y = .ok (some y) := by simp [echoV, bind, Except.bind, pure, Except.pure]
      rw [this]
      show ((echoV (α := α)).last (some y) >>= fun o => (echoV (α := α)).trace (some y) ys >>= fun r => pure (o :: r)) = _
      rw [hr]; rfl
  exact this none xs

/-- any core proved panic-free stays panic-free over Echo and over any panic-free inner view, to any depth -/
theorem chain_noPanic (A : View α) (B : Core α) (hA : A.NoPanic) (hB : B.NoPanic) : (wrap A B).NoPanic :=
  wrap_noPanic ExactScalar.finite A B hA hB

theorem overEcho_noPanic (B : Core α) (hB : B.NoPanic) : (overEcho B).NoPanic :=
  wrap_noPanic ExactScalar.finite echoV B echo_noPanic hB

theorem tanh_noPanic [Transc α] (A : View α) (hA : A.NoPanic) : (mapV Transc.tanh A).NoPanic :=
  mapV_noPanic ExactScalar.finite _ A hA

/-- two-level example: Sma(M) over Sma(N) over Echo never panics, for all N, M ≥ 1 -/
theorem sma_sma_noPanic (N M' : Nat) (hN : 0 < N) (hM : 0 < M') :
    (wrap (overEcho (smaCore (α := α) N)) (smaCore M')).NoPanic :=
  chain_noPanic _ _ (overEcho_noPanic _ (sma_noPanic N hN)) (sma_noPanic M' hM)

section more
variable [Transc α]
/-- CorrelationTrendIndicator never panics, for every N ≥ 1 and every stream -/
theorem cti_noPanic (N : Nat) (hN : 0 < N) : (ctiCore (α := α) N).NoPanic := by
  intro ys
  obtain ⟨q, hq, _⟩ := Core.run_invariant_init (ctiCore N) (Cti.Inv N) (by simp [Cti.Inv, ctiCore])
    (fun s pre x h => Cti.step_ok N hN s pre x h) ys
  refine ⟨q, hq, ?_⟩
  cases hout : (ctiCore (α := α) N).out q with
  | ok o => exact ⟨o, rfl⟩
  | error e =>
    exfalso
    simp only [ctiCore] at hout
    split at hout <;> simp [bind, Except.bind, pure, Except.pure] at hout

/-- EhlersFisherTransform never panics, for every N ≥ 1 (N = 1 included: the emptied window falls back to the new
value), every stream and every moving-average view that itself never panics and realises a batch function -/
theorem fisher_noPanic (N : Nat) (hN : 0 < N) (ma : View α) (maS : List α → Option α) (hR : Eft.Realises ma maS) :
    (eftCore N ma).NoPanic := noPanic_of_outAfter _ _ (Eft.outAfter_eq N hN ma maS hR)

/-- PolarizedFractalEfficiency never panics for every window the constructor accepts (N ≥ 3; `pfe_ctor`) -/
theorem pfe_noPanic (N : Nat) (hN : 3 ≤ N) (ma : View α) (maS : List α → Option α) (hR : Eft.Realises ma maS) :
    (pfeCoreU N ma).NoPanic := noPanic_of_outAfter _ _ (Pfe.outAfter_eq N hN ma maS hR)

/-- Add, Subtract and Multiply of panic-free children never panic; Divide does not either as long as the divisor child
never reports an exact zero (the property's "non-zero divisor"): stated for any total combining function -/
theorem add_noPanic (A B : View α) (hA : A.NoPanic) (hB : B.NoPanic) : (binop addF A B).NoPanic :=
  binop_noPanic ExactScalar.finite _ (fun a b => ⟨a + b, rfl⟩) A B hA hB
theorem sub_noPanic (A B : View α) (hA : A.NoPanic) (hB : B.NoPanic) : (binop subF A B).NoPanic :=
  binop_noPanic ExactScalar.finite _ (fun a b => ⟨a - b, rfl⟩) A B hA hB
theorem mul_noPanic (A B : View α) (hA : A.NoPanic) (hB : B.NoPanic) : (binop mulF A B).NoPanic :=
  binop_noPanic ExactScalar.finite _ (fun a b => ⟨a * b, rfl⟩) A B hA hB
/-- the debug assertion of Divide fires exactly on a zero divisor -/
theorem div_panics_iff (a b : α) : (∃ e, divF a b = .error e) ↔ b = 0 := by
  unfold divF
  by_cases h : b = 0
  · subst h; simp [throw, throwThe, MonadExceptOf.throw]
  · have : (b == (nat 0 : α)) = false := by simpa using h
    simp [this, h, pure, Except.pure]
end more

end SF.C15

/-! ### Alma's constructor (fix 5b7b627): rejects exactly the kernels with a non-positive end weight -/
namespace SF.C15
open SF
section almaCtor
variable {β : Type} [Add β] [Sub β] [Mul β] [Div β] [Neg β] [NatCast β] [LT β] [DecidableLT β] [LE β] [DecidableLE β] [BEq β]
  [FloatLike β] [Transc β]

/-- `Alma::new_custom` panics iff the Gaussian weight of the first or of the last window position is not positive in the
scalar type (in f32 / f64: underflows to zero) -/
theorem alma_ctor (N : Nat) (sigma offset : β) :
    (almaCoreC (α := β) N sigma offset = .error .assertFailed) ↔
      ¬ (nat 0 < almaWeight (offset * (nat N + nat 1)) (nat N / sigma) 0 ∧
         nat 0 < almaWeight (offset * (nat N + nat 1)) (nat N / sigma) (N - 1)) := by
  unfold almaCoreC
  simp only []
  split <;> simp_all [pure, Except.pure, throw, throwThe, MonadExceptOf.throw]
end almaCtor

/-- in real arithmetic no kernel is ever rejected: every Gaussian weight is positive.  The rejection is purely a
floating-point phenomenon, so every theorem about `almaCore` at ℝ applies to every constructed Alma -/
theorem alma_ctor_real (N : Nat) (sigma offset : ℝ) : almaCoreC (α := ℝ) N sigma offset = .ok (almaCore N sigma offset) := by
  unfold almaCoreC
  simp only []
  rw [if_pos]
  · rfl
  · constructor <;> (simp only [almaWeight, transc_exp_real, nat_eq, Nat.cast_zero]; exact Real.exp_pos _)
end SF.C15
