import SF.Lemmas.Sma
import SF.Lemmas.Cum
import SF.Lemmas.MinMax
import SF.Lemmas.Welford
import SF.Lemmas.Rsi
import SF.Lemmas.Hln
import SF.Lemmas.Lagf
import SF.Lemmas.LagRsi
import SF.Lemmas.Flex
import SF.Lemmas.CyberCycle
import SF.Lemmas.Cog
import SF.Lemmas.Bent
import SF.Lemmas.Cti
import SF.Lemmas.Net
import SF.Lemmas.Roc
import SF.Lemmas.MyRsi
import SF.Lemmas.Alma
import SF.Expr
import SF.Lemmas.Pfe
/-
  C18 — Bounded memory: state size does not grow with stream length.
  `size` counts the scalars held in heap buffers (deques / vecs) of a state; it is compared with the live heap bytes
  of the Rust view by `./check C18`.  For every window length and EVERY stream length, the size after the run is
  bounded by a function of the window length only; sizes add up along chains.
-/
namespace SF.C18
open SF SF.Spec
set_option linter.unusedSectionVars false
variable {α : Type} [Field α] [LinearOrder α] [IsStrictOrderedRing α] [FloatLike α] [ExactScalar α]

/-- the bound is independent of the stream: `∀ xs`, reached state has size ≤ bound -/
def Core.SizeBounded (B : Core α) (bound : Nat) : Prop :=
  ∀ xs s, B.run B.init xs = .ok s → B.size s ≤ bound

theorem sma_bounded (N : Nat) (hN : 0 < N) : Core.SizeBounded (smaCore (α := α) N) N :=
  fun xs s h => Sma.size_le N hN xs s h
theorem cum_bounded (N : Nat) (hN : 0 < N) : Core.SizeBounded (cumCore (α := α) N) N :=
  fun xs s h => Cum.size_le N hN xs s h

theorem min_bounded (N : Nat) (hN : 0 < N) : Core.SizeBounded (minCoreU (α := α) N) N := by
  intro xs s h
  obtain ⟨s', hs, hi⟩ := Core.run_invariant_init (minCoreU N) (MinMax.MinInv N) (by simp [MinMax.MinInv, minCoreU, Spec.minL])
      (fun s pre x h => MinMax.min_step_ok N hN s pre x h) xs
  rw [h] at hs; cases hs
  show s.q.length ≤ N
  rw [hi.1]; exact lastN_length_le N xs

theorem max_bounded (N : Nat) (hN : 0 < N) : Core.SizeBounded (maxCoreU (α := α) N) N := by
  intro xs s h
  obtain ⟨s', hs, hi⟩ := Core.run_invariant_init (maxCoreU N) (MinMax.MaxInv N) (by simp [MinMax.MaxInv, maxCoreU, Spec.maxL])
      (fun s pre x h => MinMax.max_step_ok N hN s pre x h) xs
  rw [h] at hs; cases hs
  show s.q.length ≤ N
  rw [hi.1]; exact lastN_length_le N xs

theorem rsi_bounded (N : Nat) (hN : 0 < N) : Core.SizeBounded (rsiCore (α := α) N) N :=
  fun xs s h => Rsi.size_le N hN xs s h
theorem hln_bounded (N : Nat) (hN : 0 < N) : Core.SizeBounded (hlnCore (α := α) N) N :=
  fun xs s h => Hln.size_le N hN xs s h

/-- LaguerreRSI keeps at most three entries in each of its four ladder deques -/
theorem laguerreRsi_bounded (N : Nat) : Core.SizeBounded (lagRsiCore (α := α) N) 12 :=
  fun xs s h => LagRsi.size_le N xs s h

/-- LaguerreFilter never holds more than 9 scalars (2 per stage + the latest output), whatever the stream length -/
theorem laguerre_bounded (g : α) : Core.SizeBounded (lagfCore (α := α) g) 9 :=
  fun xs s h => Lagf.size_le g xs s h

section transc
variable [Transc α]
/-- CyberCycle keeps at most N inputs, N outputs and its N smoothing slots (N ≥ 6) -/
theorem cyberCycle_bounded (N : Nat) (hN : 6 ≤ N) : Core.SizeBounded (ccCoreU (α := α) N) (3 * N) :=
  fun xs s h => CC.size_le N hN xs s h
/-- TrendFlex / ReFlex keep at most N filter values (N ≥ 3) -/
theorem trendFlex_bounded (N : Nat) (hN : 3 ≤ N) : Core.SizeBounded (tflexCore (α := α) N) N :=
  fun xs s h => Flex.size_le N hN xs s h
theorem reFlex_bounded (N : Nat) (hN : 3 ≤ N) : Core.SizeBounded (rflexCore (α := α) N) N :=
  fun xs s h => ReFlex.size_le N hN xs s h

theorem welford_bounded (N : Nat) (hN : 0 < N) : Core.SizeBounded (welfordCoreU (α := α) N) N :=
  fun xs s h => Welford.size_le N hN xs s h

theorem vst_bounded (N : Nat) (hN : 0 < N) : Core.SizeBounded (vstCoreU (α := α) N) N := by
  intro xs s h
  obtain ⟨s', hs, hi⟩ := Core.run_invariant_init (vstCoreU N) (Welford.VInv N) (Welford.vinit N)
    (fun s pre x h => Welford.vst_step_ok N hN s pre x h) xs
  rw [h] at hs; cases hs
  show s.wo.q.length ≤ N
  rw [hi.1.1]; exact lastN_length_le N xs

theorem vsct_bounded (N : Nat) (hN : 0 < N) : Core.SizeBounded (vsctCoreU (α := α) N) N := by
  intro xs s h
  obtain ⟨s', hs, hi⟩ := Core.run_invariant_init (vsctCoreU N) (Welford.VInv N) (Welford.vinit N)
    (fun s pre x h => Welford.vsct_step_ok N hN s pre x h) xs
  rw [h] at hs; cases hs
  show s.wo.q.length ≤ N
  rw [hi.1.1]; exact lastN_length_le N xs

/-- cores that own no buffer at all -/
theorem bufferless (N : Nat) (alpha c : α) :
    (∀ s, (emaCore (α := α) N alpha).size s = 0) ∧ (∀ s, (ssCore (α := α) N).size s = 0) ∧
    (∀ s, (welfordRollingCore (α := α)).size s = 0) ∧ (∀ s, (drawdownCore (α := α)).size s = 0) ∧
    (∀ s, (lnReturnCore (α := α)).size s = 0) ∧ (∀ s, (gteCore c).size s = 0) ∧ (∀ s, (lteCore c).size s = 0) :=
  ⟨fun _ => rfl, fun _ => rfl, fun _ => rfl, fun _ => rfl, fun _ => rfl, fun _ => rfl, fun _ => rfl⟩
end transc

/-- sizes add up along a chain: the chain's bound is the sum of its parts' bounds, whatever the depth -/
theorem wrap_size (A : View α) (B : Core α) (a : A.σ) (b : B.σ) : (wrap A B).size (a, b) = A.size a + B.size b := rfl
theorem binop_size (f : α → α → M α) (A B : View α) (a : A.σ) (b : B.σ) :
    (binop f A B).size (a, b) = A.size a + B.size b := rfl
theorem mapV_size (f : α → α) (A : View α) (a : A.σ) : (mapV f A).size a = A.size a := rfl

/-- a bound for the inner view and one for the core give one for the chain, independent of the stream length -/
theorem chain_bounded (A : View α) (B : Core α) (nA nB : Nat)
    (hA : ∀ xs a, A.run A.init xs = .ok a → A.size a ≤ nA) (hB : Core.SizeBounded B nB)
    (xs : List α) (s : A.σ × B.σ) (h : (wrap A B).run (A.init, B.init) xs = .ok s) :
    (wrap A B).size s ≤ nA + nB := by
  obtain ⟨h1, ys, h2⟩ := wrap_run_components A B A.init B.init xs (allFinite_exact xs) s h
  have := hA xs s.1 h1
  have := hB ys s.2 h2
  show A.size s.1 + B.size s.2 ≤ nA + nB
  omega

/-- example: Sma(M) over Sma(N) over Echo holds at most N + M scalars, however long the stream -/
theorem sma_sma_bounded (N M' : Nat) (hN : 0 < N) (hM : 0 < M') (xs : List α) (s) 
    (h : (wrap (overEcho (smaCore (α := α) N)) (smaCore M')).run ((overEcho (smaCore (α := α) N)).init, (smaCore (α := α) M').init) xs = .ok s) :
    (wrap (overEcho (smaCore (α := α) N)) (smaCore M')).size s ≤ (0 + N) + M' :=
  chain_bounded _ _ (0 + N) M'
    (fun xs a ha => chain_bounded echoV (smaCore N) 0 N (fun _ _ _ => Nat.le_refl 0) (sma_bounded N hN) xs a ha)
    (sma_bounded M' hM) xs s h

section two_inner
variable [Transc α]
/-- EhlersFisherTransform keeps at most N window values and 2 outputs besides what its moving average keeps -/
theorem fisher_bounded (N : Nat) (hN : 0 < N) (ma : View α) (maS : List α → Option α) (hR : Eft.Realises ma maS) (nA : Nat)
    (hA : ∀ fed m, ma.run ma.init fed = .ok m → ma.size m ≤ nA) : Core.SizeBounded (eftCore N ma) (N + 2 + nA) := by
  intro xs s h
  obtain ⟨s', hs, hi⟩ := Eft.run_ok N hN ma maS hR xs
  rw [h] at hs; cases hs
  have h1 := hA _ _ hi.hma
  have h2 := hi.hlen
  have h3 : s.q.length ≤ N := by rw [hi.hq]; exact lastN_length_le N xs
  show s.q.length + s.qOut.length + ma.size s.ma ≤ N + 2 + nA
  omega

/-- PolarizedFractalEfficiency keeps at most N window values besides what its moving average keeps -/
theorem pfe_bounded (N : Nat) (hN : 3 ≤ N) (ma : View α) (maS : List α → Option α) (hR : Eft.Realises ma maS) (nA : Nat)
    (hA : ∀ fed m, ma.run ma.init fed = .ok m → ma.size m ≤ nA) : Core.SizeBounded (pfeCoreU N ma) (N + nA) := by
  intro xs s h
  obtain ⟨s', hs, hi⟩ := Pfe.run_ok N hN ma maS hR xs
  rw [h] at hs; cases hs
  have h1 := hA _ _ hi.hma
  have h3 : s.1.length ≤ N := by rw [hi.hq]; exact lastN_length_le N xs
  show s.1.length + ma.size s.2.1 ≤ N + nA
  omega
end two_inner

end SF.C18

/-! ### the remaining windowed cores: the deque is exactly the last N values, so it never holds more than N -/
namespace SF.C18
open SF SF.Spec
set_option linter.unusedSectionVars false
variable {α : Type} [Field α] [LinearOrder α] [IsStrictOrderedRing α] [FloatLike α] [ExactScalar α]

theorem cog_bounded (N : Nat) (hN : 0 < N) : Core.SizeBounded (cogCore (α := α) N) N := by
  intro xs s h
  obtain ⟨s', hs, hi⟩ := Core.run_invariant_init (cogCore N) (Cog.Inv N) (by simp [Cog.Inv, cogCore, Spec.cog])
    (fun s pre x h => Cog.step_ok N hN s pre x h) xs
  rw [h] at hs; cases hs
  show s.q.length ≤ N
  rw [hi.1]; exact lastN_length_le N xs

theorem net_bounded (N : Nat) (hN : 0 < N) : Core.SizeBounded (netCore (α := α) N) N := by
  intro xs s h
  obtain ⟨s', hs, hi⟩ := Core.run_invariant_init (netCore N) (Net.Inv N) (by simp [Net.Inv, netCore, Spec.net])
    (fun s pre x h => Net.step_ok N hN s pre x h) xs
  rw [h] at hs; cases hs
  show s.q.length ≤ N
  rw [hi.1]; exact lastN_length_le N xs

theorem myrsi_bounded (N : Nat) (hN : 0 < N) : Core.SizeBounded (myRsiCore (α := α) N) N := by
  intro xs s h
  obtain ⟨s', hs, hi⟩ := Core.run_invariant_init (myRsiCore N) (MyRsi.Inv N) (MyRsi.init_inv N)
    (fun s pre x h => MyRsi.step_ok N hN s pre x h) xs
  rw [h] at hs; cases hs
  show s.q.length ≤ N
  rw [hi.hq]; exact lastN_length_le N xs

theorem roc_bounded (N : Nat) (hN : 0 < N) : Core.SizeBounded (rocCore (α := α) N) N := by
  intro xs s h
  obtain ⟨s', hs, hi⟩ := Core.run_invariant_init (rocCore N) (Roc.Inv N)
    ⟨by simp [rocCore], fun _ => ⟨rfl, rfl⟩, fun x0 r h => by simp at h⟩ (fun s pre x h => Roc.step_ok N hN s pre x h) xs
  rw [h] at hs; cases hs
  show s.q.length ≤ N
  rw [hi.hq]; exact lastN_length_le N xs

section transc
variable [Transc α]
theorem entropy_bounded (N : Nat) (hN : 0 < N) : Core.SizeBounded (bentCore (α := α) N) N := by
  intro xs s h
  obtain ⟨s', hs, hi⟩ := Core.run_invariant_init (bentCore N) (Bent.Inv N) (by simp [Bent.Inv, bentCore, Bent.cnt])
    (fun s pre x h => Bent.step_ok N hN s pre x h) xs
  rw [h] at hs; cases hs
  show s.q.length ≤ N
  rw [hi.1, List.length_reverse]; exact lastN_length_le N xs

theorem cti_bounded (N : Nat) (hN : 0 < N) : Core.SizeBounded (ctiCore (α := α) N) N := by
  intro xs s h
  obtain ⟨s', hs, hi⟩ := Core.run_invariant_init (ctiCore N) (Cti.Inv N) (by simp [Cti.Inv, ctiCore])
    (fun s pre x h => Cti.step_ok N hN s pre x h) xs
  rw [h] at hs; cases hs
  show List.length s ≤ N
  rw [hi]; exact lastN_length_le N xs

/-- Alma: its three deques (values, weights, outputs) hold at most N entries each -/
theorem alma_bounded (N : Nat) (hN : 0 < N) (sigma offset : α) : Core.SizeBounded (almaCore (α := α) N sigma offset) (3 * N) :=
  fun xs s h => Alma.size_le N hN sigma offset xs s h

/-- RoofingFilter owns no buffer -/
theorem roofing_bufferless (N M' : Nat) : ∀ s, (roofCoreU (α := α) N M').size s = 0 := fun _ => rfl
end transc

end SF.C18
