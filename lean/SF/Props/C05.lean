import SF.Props.C07
import SF.Lemmas.Rsi
import SF.Lemmas.MyRsi
/-
  C05 — RSI family equals gains/losses over the N most recent changes.
  `Spec.rsi` / `Spec.myRsi` ARE the statement's formulas (d_0 = 0, G / L over the last N changes, 100 when L = 0, hold
  while G + L = 0).  `rsi_eq` / `myrsi_eq`: the incremental state machines (avg_gain / avg_loss resp. cu / cd with the
  `old_ref` / `oldest_val` / `last_val` bookkeeping) report exactly those formulas, for every N ≥ 1 and every history, at
  every step.  The remaining theorems are the consequences the property lists, proved on the definitions: negation
  symmetry, monotone windows, formula, ranges.
-/
namespace SF.C05
open SF SF.Spec
set_option linter.unusedSectionVars false
variable {α : Type} [Field α] [LinearOrder α] [IsStrictOrderedRing α] [FloatLike α] [ExactScalar α]

/-- **Rsi's state machine equals the statement's formula.** For every N ≥ 1 and every history (ties, monotone runs, spikes
entering and leaving the window, flat stretches after volatile ones), at every step: the incrementally maintained
`avg_gain`, `avg_loss` (with `old_ref` / `last_val` bookkeeping) are G/N and L/N over exactly the N most recent changes, and
the reported value is 100·G/(G+L), 100 when L = 0, nothing before the N-th value. -/
theorem rsi_eq (N : Nat) (hN : 0 < N) (xs : List α) :
    (rsiCore (α := α) N).outAfter xs = .ok (Spec.rsi N xs) := Rsi.outAfter_eq N hN xs

/-- **MyRSI's state machine equals the statement's formula**: `cu`, `cd` are G and L over exactly the N most recent
changes; the output is (G−L)/(G+L), the previous output (initially 0) being kept while G+L = 0; from the N-th value on. -/
theorem myrsi_eq (N : Nat) (hN : 0 < N) (xs : List α) :
    (myRsiCore (α := α) N).outAfter xs = .ok (Spec.myRsi N xs) := MyRsi.outAfter_eq N hN xs

/-- the hold rule of the definition, unfolded one step -/
theorem myrsi_hold_step (N : Nat) (xs : List α) (x : α) :
    Spec.myRsiHold N (xs ++ [x]) =
      (if Spec.gains N (xs ++ [x]) + Spec.losses N (xs ++ [x]) = 0 then Spec.myRsiHold N xs
       else (Spec.gains N (xs ++ [x]) - Spec.losses N (xs ++ [x])) / (Spec.gains N (xs ++ [x]) + Spec.losses N (xs ++ [x]))) :=
  MyRsi.myRsiHold_snoc N xs x

/-- changes of the negated stream are the negated changes -/
theorem changes_neg (xs : List α) : changes (xs.map fun x => -x) = (changes xs).map fun d => -d := by
  cases xs with
  | nil => simp [changes]
  | cons x0 r =>
    simp only [changes, List.map_cons, nat_eq, Nat.cast_zero, neg_zero, List.cons.injEq, true_and]
    have e : (-x0 :: List.map (fun x => -x) r) = List.map (fun x => -x) (x0 :: r) := rfl
    rw [e, List.zip_map, List.map_map, List.map_map]
    apply List.map_congr_left
    intro ⟨a, b⟩ _
    simp only [Function.comp, Prod.map]; ring

theorem gains_neg (N : Nat) (xs : List α) : gains N (xs.map fun x => -x) = losses N xs := by
  simp only [gains, losses, changes_neg, lastN_map, List.map_map]
  congr 1
  apply List.map_congr_left
  intro d _
  simp only [Function.comp, nat_eq, Nat.cast_zero, neg_pos]
  rcases lt_trichotomy d 0 with h | h | h
  · simp [h, not_lt.mpr (le_of_lt h)]
  · subst h; simp
  · simp [h, not_lt.mpr (le_of_lt h)]

theorem losses_neg (N : Nat) (xs : List α) : losses N (xs.map fun x => -x) = gains N xs := by
  simp only [gains, losses, changes_neg, lastN_map, List.map_map]
  congr 1
  apply List.map_congr_left
  intro d _
  simp only [Function.comp, nat_eq, Nat.cast_zero, neg_pos, neg_neg]
  rcases lt_trichotomy d 0 with h | h | h
  · simp [h, not_lt.mpr (le_of_lt h)]
  · subst h; simp
  · simp [h, not_lt.mpr (le_of_lt h)]

theorem rsi_of_guard (N : Nat) (xs : List α) (hlen : ¬ (xs.length < N || xs.isEmpty)) :
    Spec.rsi N xs = some (if losses N xs = 0 then 100 else 100 * gains N xs / (gains N xs + losses N xs)) := by
  simp only [Spec.rsi, hlen, if_false, Option.some.injEq]
  by_cases h : losses N xs = 0 <;> simp [h]

/-- negating the input maps Rsi to 100 − Rsi whenever the window is not flat (G + L ≠ 0) -/
theorem rsi_neg (N : Nat) (xs : List α) (hlen : ¬ (xs.length < N || xs.isEmpty))
    (hflat : gains N xs + losses N xs ≠ 0) :
    Spec.rsi N (xs.map fun x => -x) = (Spec.rsi N xs).map fun v => 100 - v := by
  have hlen' : ¬ ((xs.map fun x => -x).length < N || (xs.map fun x => -x).isEmpty) := by
    simpa using hlen
  rw [rsi_of_guard N _ hlen', rsi_of_guard N xs hlen, gains_neg, losses_neg]
  simp only [Option.map_some, Option.some.injEq]
  by_cases hL0 : losses N xs = 0
  · have hG0 : gains N xs ≠ 0 := by intro h0; apply hflat; rw [h0, hL0]; simp
    simp [hL0, hG0]
  · by_cases hG0 : gains N xs = 0
    · simp [hG0, hL0]
    · have hs' : losses N xs + gains N xs ≠ 0 := by rwa [add_comm]
      simp only [hL0, hG0, if_false]
      field_simp; ring

/-- MyRSI's ratio flips sign under negation -/
theorem myrsi_ratio_neg (N : Nat) (xs : List α) :
    (gains N (xs.map fun x => -x) - losses N (xs.map fun x => -x)) / (gains N (xs.map fun x => -x) + losses N (xs.map fun x => -x))
      = -((gains N xs - losses N xs) / (gains N xs + losses N xs)) := by
  rw [gains_neg, losses_neg, add_comm (losses N xs), ← neg_div]; congr 1; ring

/-- a window without declines has L = 0, so Rsi = 100 -/
theorem rsi_no_decline (N : Nat) (xs : List α) (hlen : ¬ (xs.length < N || xs.isEmpty))
    (h : ∀ d ∈ lastN N (changes xs), 0 ≤ d) : Spec.rsi N xs = some 100 := by
  have hL : losses N xs = 0 := by
    simp only [losses]
    generalize lastN N (changes xs) = l at h
    induction l with
    | nil => simp
    | cons d l ih =>
      have hd := h d (by simp)
      simp only [List.map_cons, sumL_cons, ih (fun x hx => h x (by simp [hx]))]
      rcases lt_or_eq_of_le hd with h1 | h1
      · simp [h1]
      · simp [← h1]
  rw [rsi_of_guard N xs hlen]; simp [hL]

/-- a window without advances has G = 0, so Rsi = 0 as soon as it has a decline -/
theorem rsi_no_advance (N : Nat) (xs : List α) (hlen : ¬ (xs.length < N || xs.isEmpty))
    (h : ∀ d ∈ lastN N (changes xs), d ≤ 0) (hL : losses N xs ≠ 0) : Spec.rsi N xs = some 0 := by
  have hG : gains N xs = 0 := by
    simp only [gains]
    generalize lastN N (changes xs) = l at h
    induction l with
    | nil => simp
    | cons d l ih =>
      have hd := h d (by simp)
      simp only [List.map_cons, sumL_cons, ih (fun x hx => h x (by simp [hx]))]
      simp [not_lt.mpr hd]
  rw [rsi_of_guard N xs hlen]; simp [hG, hL]

/-- Rsi's value is 100·G/(G+L), i.e. the statement's formula, whenever L ≠ 0 -/
theorem rsi_formula (N : Nat) (xs : List α) (hlen : ¬ (xs.length < N || xs.isEmpty)) (hL : losses N xs ≠ 0) :
    Spec.rsi N xs = some (100 * gains N xs / (gains N xs + losses N xs)) := by
  rw [rsi_of_guard N xs hlen]; simp [hL]

end SF.C05
