import SF.Props.C04
import SF.Props.C10
import SF.Lemmas.Real
import SF.Lemmas.SsStable
import Mathlib.Analysis.SpecialFunctions.Exp
import SF.Lemmas.DoublePole
import SF.Lemmas.LagfStable
import SF.Lemmas.FlexBound
import SF.Props.C11
import SF.Lemmas.ChainBound
import SF.Lemmas.Eft
/-
  C09 — Recursive filters are stable and have fading memory for every window length.

  Proved so far
  * Ema, every N ≥ 1: BIBO with a bound that does not depend on the stream length (|x_k| ≤ B for all k ⇒ |e_t| ≤ B for all t),
    and fading memory: two streams that coincide from some point on have outputs whose difference is multiplied by
    (1 − w) at every further step, 0 ≤ 1 − w < 1  (`ema_diff_decay`), i.e. converges to 0 geometrically.
  * a generic one-pole lemma (`onePole_*`): v(t+1) = p·v(t) + u(t+1), |p| ≤ ρ < 1 ⇒ bounded by B/(1−ρ) and geometric decay;
    the stages of LaguerreFilter / the EMA are instances.
  * coefficient facts for every admissible N (at ℝ): 0 < a1 = exp(−c/N) < 1 for both smoother constants, so the pole
    radius of SuperSmoother and of the TrendFlex/ReFlex smoother is < 1; 0 < 2/(N+1) ≤ 1 for Ema / CyberCycle / LaguerreRSI.
  * SuperSmoother (and the smoother inside TrendFlex / ReFlex), every N ≥ 1, at ℝ: BIBO with the length-independent bound
    |c1|·B/(1−a1)² and geometric fading memory (contraction factor (1+a1)/2 per step once the streams have merged), via
    the factorisation of the two-pole section through its complex pole a1·e^{iθ} (`twoPole_bibo` is the generic statement
    and also covers the double real pole of the RoofingFilter / CyberCycle high-pass once |1−α| < 1 is known).
  * CyberCycle (any ordered field): |output| ≤ (N+1)²·B for ever, and fading memory with contraction factor N/(N+1) per
    step from five steps after two streams have merged (`cyberCycle_bibo`, `cyberCycle_fading`): a double real pole
    p = 1 − 2/(N+1) is two cascaded one-pole sections.
  * RoofingFilter (ℝ): |1 − α| < 1 for EVERY window length the constructor accepts (N ≥ 2; N = 2 has a negative pole), hence
    the high-pass and the whole filter are BIBO with a length-independent bound (`roofing_pole_inside`, `roofing_bibo`).
  * LaguerreFilter (any ordered field, 0 ≤ γ < 1): |output| ≤ ((1+γ)/(1−γ))³·B for ever (`laguerre_bibo`).
  * TrendFlex / ReFlex (ℝ): |output| ≤ 5 for every N, EVERY input (bounded or not) and every stream length, because the
    mean square dominates 0.04·d² (`trendFlex_bound`, `reFlex_bound`).  LaguerreRSI ∈ [0,1] and |Fisher| ≤ ln 199 are C07.
  * LaguerreFilter also has geometric fading memory: a weighted norm of the four stage differences contracts by (1+γ)/2 per
    step once the inputs coincide (`laguerre_fading`).
  * RoofingFilter (ℝ) has geometric fading memory for every N ≥ 2, M ≥ 1: the smoother's and the high-pass's Lyapunov
    functionals contract jointly (`roofing_fading`, cascade of two contracting sections, `DcGain.roof_joint_decay`).
  Not proved (decided by the common-tail runs of `./check C09`): the geometric convergence of the NORMALISED outputs of
  TrendFlex / ReFlex / LaguerreRSI / EhlersFisherTransform (ratios whose denominators themselves fade).
-/
namespace SF.C09
open SF SF.Spec
set_option linter.unusedSectionVars false
variable {α : Type} [Field α] [LinearOrder α] [IsStrictOrderedRing α] [FloatLike α] [ExactScalar α]

/-- **Ema is BIBO stable with a length-independent bound**: inputs in [−B, B] give outputs in [−B, B], for ever -/
theorem ema_bibo (N : Nat) (hN : 0 < N) (B : α) (xs : List α) (hx : ∀ x ∈ xs, |x| ≤ B) (v : α)
    (h : Spec.ema N 2 xs = some v) : |v| ≤ B := by
  have := C04.ema_interval N hN xs (-B) B (fun x hx' => (abs_le.mp (hx x hx')).1) (fun x hx' => (abs_le.mp (hx x hx')).2) v h
  exact abs_le.mpr this

/-- the recursion applied to two different starting values and the same further inputs: the difference is scaled by
(1 − w) per step -/
theorem foldl_diff (w e e' : α) (t : List α) :
    t.foldl (fun e x => w * x + (nat 1 - w) * e) e - t.foldl (fun e x => w * x + (nat 1 - w) * e) e'
      = (1 - w) ^ t.length * (e - e') := by
  induction t generalizing e e' with
  | nil => simp
  | cons x t ih =>
    simp only [List.foldl_cons, List.length_cons]
    rw [ih]; simp only [nat_eq, Nat.cast_one]; ring

/-- **fading memory of Ema**: histories `p ++ t` and `p' ++ t` (non-empty prefixes, common tail `t`): the outputs
differ by (1 − w)^{|t|} times the difference at the merge point — geometric convergence, no persistence, no growth -/
theorem emaRec_diff_decay (w : α) (p p' t : List α) (e e' : α) (he : emaRec w p = some e) (he' : emaRec w p' = some e') :
    ∃ u v, emaRec w (p ++ t) = some u ∧ emaRec w (p' ++ t) = some v ∧ u - v = (1 - w) ^ t.length * (e - e') := by
  cases p with
  | nil => simp [emaRec] at he
  | cons x0 r =>
    cases p' with
    | nil => simp [emaRec] at he'
    | cons y0 r' =>
      simp only [emaRec, Option.some.injEq] at he he'
      subst he; subst he'
      refine ⟨_, _, rfl, rfl, ?_⟩
      show List.foldl _ x0 (r ++ t) - List.foldl _ y0 (r' ++ t) = _
      rw [List.foldl_append, List.foldl_append]
      exact foldl_diff w _ _ t

/-- with the default weight the contraction factor satisfies 0 ≤ 1 − w < 1 for every N ≥ 1 -/
theorem ema_contraction (N : Nat) (hN : 0 < N) :
    0 ≤ 1 - (2 : α) / ((N : α) + 1) ∧ 1 - (2 : α) / ((N : α) + 1) < 1 := by
  have := C04.default_weight (α := α) N hN
  constructor <;> linarith [this.1, this.2]

/-! ### a generic one-pole section -/
/-- v(0) = u(0), v(t+1) = p·v(t) + u(t+1) -/
def onePole (p : α) (u : Nat → α) : Nat → α
  | 0 => u 0
  | t + 1 => p * onePole p u t + u (t + 1)

/-- bounded input ⇒ output bounded by B/(1−ρ), independently of t -/
theorem onePole_bibo (p ρ B : α) (hρ0 : 0 ≤ ρ) (hρ1 : ρ < 1) (hp : |p| ≤ ρ) (u : Nat → α) (hu : ∀ t, |u t| ≤ B) (t : Nat) :
    |onePole p u t| ≤ B / (1 - ρ) := by
  have hB : 0 ≤ B := le_trans (abs_nonneg _) (hu 0)
  have h1 : 0 < 1 - ρ := by linarith
  induction t with
  | zero =>
    simp only [onePole]
    calc |u 0| ≤ B := hu 0
      _ ≤ B / (1 - ρ) := by rw [le_div_iff₀ h1]; nlinarith
  | succ t ih =>
    simp only [onePole]
    have h2 : |p * onePole p u t| ≤ ρ * (B / (1 - ρ)) := by
      rw [abs_mul]; exact mul_le_mul hp ih (abs_nonneg _) hρ0
    have e : ρ * (B / (1 - ρ)) + B = B / (1 - ρ) := by field_simp; ring
    calc |p * onePole p u t + u (t + 1)| ≤ |p * onePole p u t| + |u (t + 1)| := abs_add_le _ _
      _ ≤ ρ * (B / (1 - ρ)) + B := add_le_add h2 (hu (t + 1))
      _ = B / (1 - ρ) := e

/-- once the inputs agree, the difference of two one-pole responses decays like p^k -/
theorem onePole_decay (p : α) (u u' : Nat → α) (t0 : Nat) (h : ∀ t, t0 < t → u t = u' t) (k : Nat) :
    onePole p u (t0 + k) - onePole p u' (t0 + k) = p ^ k * (onePole p u t0 - onePole p u' t0) := by
  induction k with
  | zero => simp
  | succ k ih =>
    have e : t0 + (k + 1) = (t0 + k) + 1 := by omega
    rw [e]; simp only [onePole]
    rw [h (t0 + k + 1) (by omega)]
    have : p * onePole p u (t0 + k) + u' (t0 + k + 1) - (p * onePole p u' (t0 + k) + u' (t0 + k + 1))
        = p * (onePole p u (t0 + k) - onePole p u' (t0 + k)) := by ring
    rw [this, ih]; ring

/-! ### CyberCycle and LaguerreFilter (any ordered field) -/
variable [Transc α]

/-- **CyberCycle is BIBO stable for every N ≥ 1**: inputs in [−B, B] give |output| ≤ (N+1)²·B, however long the stream -/
theorem cyberCycle_bibo (N : Nat) (hN : 1 ≤ N) (B : α) (xs : List α) (hx : ∀ x ∈ xs, |x| ≤ B) (v : α)
    (h : Spec.cyberCycle N xs = some v) : |v| ≤ ((N : α) + 1) * ((N : α) + 1) * B :=
  DoublePole.cyberCycle_bibo N hN B xs hx v h

/-- … and so is the view itself (state machine), through C11, for every window its constructor accepts -/
theorem cyberCycle_view_bibo (N : Nat) (hN : 6 ≤ N) (B : α) (xs : List α) (hx : ∀ x ∈ xs, |x| ≤ B) (v : α)
    (h : (ccCoreU (α := α) N).outAfter xs = .ok (some v)) : |v| ≤ ((N : α) + 1) * ((N : α) + 1) * B := by
  rw [C11.cyberCycle_eq N hN] at h
  exact DoublePole.cyberCycle_bibo N (by omega) B xs hx v (by simpa using h)

/-- **fading memory of CyberCycle**: histories `xs ++ t`, `ys ++ t`, |xs| = |ys|.  With d(n) the difference of the two
outputs at time n, p = 1 − 2/(N+1) and V(n) = |d(n+1)| + (2p/(1−p))·|d(n+1) − p·d(n)|: from five steps after the merge
V shrinks by (1+p)/2 = N/(N+1) per step and dominates |d| — geometric convergence, no persistence, for every N ≥ 1 -/
theorem cyberCycle_fading (N : Nat) (hN : 1 ≤ N) (xs ys t : List α) (hl : xs.length = ys.length) (m k : Nat)
    (hm1 : xs.length + 5 ≤ m + 2) (hm2 : N ≤ m + 3) :
    let p : α := 1 - 2 / ((N : α) + 1)
    let d := fun n => DoublePole.cAt N (xs ++ t) n - DoublePole.cAt N (ys ++ t) n
    let V := fun n => |d (n + 1)| + 2 * p / (1 - p) * |d (n + 1) - p * d n|
    V (m + k) ≤ ((1 + p) / 2) ^ k * V m ∧ |d (m + k + 1)| ≤ V (m + k) :=
  DoublePole.cc_fading N hN xs ys t hl m k hm1 hm2

/-- `cAt` is the spec's output: the value CyberCycle reports after n+1 values -/
theorem cyberCycle_cAt (N : Nat) (xs : List α) (hx : xs ≠ []) :
    Spec.cyberCycle N xs = (CC.C N xs xs.length).head? := by
  rw [CC.cyberCycle_unfold]; simp [hx]

/-- the contraction factor of CyberCycle is N/(N+1) < 1 -/
theorem cyberCycle_factor (N : Nat) (hN : 1 ≤ N) :
    (1 + (1 - 2 / ((N : α) + 1))) / 2 = (N : α) / ((N : α) + 1) ∧ (N : α) / ((N : α) + 1) < 1 := by
  have hN' : (1 : α) ≤ (N : α) := by exact_mod_cast hN
  have hpos : (0 : α) < (N : α) + 1 := by linarith
  constructor
  · field_simp; ring
  · rw [div_lt_one hpos]; linarith

/-- **LaguerreFilter is BIBO stable for every 0 ≤ γ < 1**: |output| ≤ κ³·B with κ = (1+γ)/(1−γ), however long the stream -/
theorem laguerre_bibo (g B : α) (hg0 : 0 ≤ g) (hg1 : g < 1) (xs : List α) (hx : ∀ x ∈ xs, |x| ≤ B) (v : α)
    (h : Spec.laguerreFilter g xs = some v) :
    |v| ≤ (1 + g) / (1 - g) * ((1 + g) / (1 - g) * ((1 + g) / (1 - g) * B)) :=
  LagfStable.laguerre_bibo g B hg0 hg1 xs hx v h

theorem laguerre_view_bibo (g B : α) (hg0 : 0 ≤ g) (hg1 : g < 1) (xs : List α) (hx : ∀ x ∈ xs, |x| ≤ B) (v : α)
    (h : (lagfCore (α := α) g).outAfter xs = .ok (some v)) :
    |v| ≤ (1 + g) / (1 - g) * ((1 + g) / (1 - g) * ((1 + g) / (1 - g) * B)) := by
  rw [C11.laguerreFilter_eq g] at h
  exact LagfStable.laguerre_bibo g B hg0 hg1 xs hx v (by simpa using h)

/-- **fading memory of LaguerreFilter**, every 0 ≤ γ < 1: two histories `x0 :: r1 ++ t` and `y0 :: r2 ++ t` that end in
the same values `t`.  With ε = (1−γ)/8, ρ = (1+γ)/2 < 1 and V the weighted norm |ΔL0| + ε|ΔL1| + ε²|ΔL2| + ε³|ΔL3| of the stage
differences at the merge point, the outputs differ by at most ρ^|t|·V/ε³: geometric convergence, nothing persists -/
theorem laguerre_fading (g : α) (hg0 : 0 ≤ g) (hg1 : g < 1) (x0 y0 : α) (r1 r2 t : List α) (v w : α)
    (hv : Spec.laguerreFilter g (x0 :: (r1 ++ t)) = some v) (hw : Spec.laguerreFilter g (y0 :: (r2 ++ t)) = some w) :
    |v - w| * (((1 - g) / 8) * ((1 - g) / 8) * ((1 - g) / 8))
      ≤ ((1 + g) / 2) ^ t.length *
        LagfStable.V ((1 - g) / 8) (LagfStable.D (lagLadder g (x0, x0, x0, x0) r1) (lagLadder g (y0, y0, y0, y0) r2)) := by
  simp only [Spec.laguerreFilter, Option.some.injEq] at hv hw
  have e1 : lagLadder g (x0, x0, x0, x0) (r1 ++ t) = lagLadder g (lagLadder g (x0, x0, x0, x0) r1) t := by
    simp only [lagLadder, List.foldl_append]
  have e2 : lagLadder g (y0, y0, y0, y0) (r2 ++ t) = lagLadder g (lagLadder g (y0, y0, y0, y0) r2) t := by
    simp only [lagLadder, List.foldl_append]
  rw [e1] at hv; rw [e2] at hw
  subst hv; subst hw
  simp only [nat_eq, Nat.cast_ofNat]
  exact le_trans (LagfStable.out_diff_le g hg0 hg1 _ _)
    (LagfStable.ladder_fading g hg0 hg1 _ _ t)

/-- the contraction factor and the norm weight of LaguerreFilter: 0 < (1−γ)/8 and (1+γ)/2 < 1 -/
theorem laguerre_factor (g : α) (hg0 : 0 ≤ g) (hg1 : g < 1) : 0 < (1 - g) / 8 ∧ 0 ≤ (1 + g) / 2 ∧ (1 + g) / 2 < 1 := by
  refine ⟨by linarith, by linarith, by linarith⟩


end SF.C09

namespace SF.C09.Real
/-- pole radius of SuperSmoother (c = 1.414·π) and of the TrendFlex/ReFlex smoother (c = 8.88442402435): for every
N ≥ 1, 0 < a1 = exp(−c/N) < 1 -/
theorem pole_radius (c : ℝ) (hc : 0 < c) (N : Nat) (hN : 0 < N) : 0 < Real.exp (-c / N) ∧ Real.exp (-c / N) < 1 := by
  have hNpos : (0 : ℝ) < N := by exact_mod_cast hN
  refine ⟨Real.exp_pos _, ?_⟩
  rw [Real.exp_lt_one_iff]
  exact div_neg_of_neg_of_pos (by linarith) hNpos

/-- the conjugate pole pair of the smoother has modulus a1 < 1: the characteristic polynomial z² − b1·z − c3 with
b1 = 2·a1·cos θ, c3 = −a1² has discriminant 4a1²(cos²θ − 1) ≤ 0 and product of roots a1² < 1 -/
theorem pole_product (a1 θ : ℝ) (h0 : 0 < a1) (h1 : a1 < 1) :
    (2 * a1 * Real.cos θ) ^ 2 + 4 * (-(a1 * a1)) ≤ 0 ∧ a1 * a1 < 1 := by
  have hc : Real.cos θ ^ 2 ≤ 1 := by
    have := Real.cos_sq_le_one θ; linarith
  constructor
  · nlinarith [sq_nonneg a1, mul_pos h0 h0]
  · nlinarith
/-- **SuperSmoother is BIBO stable for EVERY window length N ≥ 1, with a bound independent of the stream length**:
inputs in [−B, B] give |output| ≤ |c1|·B/(1−a1)², a1 = exp(−1.414·π/N) < 1 -/
theorem superSmoother_bibo (N : Nat) (hN : 0 < N) (B : ℝ) (xs : List ℝ) (hx : ∀ x ∈ xs, |x| ≤ B) (v : ℝ)
    (h : Spec.superSmoother N xs = some v) :
    |v| ≤ |(Spec.ssCoef (α := ℝ) N).c1| * B / (1 - SsStable.ssA N) ^ 2 := SsStable.superSmoother_bibo N hN B xs hx v h

/-- … and so does the view itself (state machine), through C11 -/
theorem superSmoother_view_bibo (N : Nat) (hN : 0 < N) (B : ℝ) (xs : List ℝ) (hx : ∀ x ∈ xs, |x| ≤ B) (v : ℝ)
    (h : (ssCore (α := ℝ) N).outAfter xs = .ok (some v)) :
    |v| ≤ |(Spec.ssCoef (α := ℝ) N).c1| * B / (1 - SsStable.ssA N) ^ 2 := by
  rw [SS.outAfter_eq N hN] at h
  exact SsStable.superSmoother_bibo N hN B xs hx v (by simpa using h)

/-- the smoother inside TrendFlex / ReFlex (first-value initial condition) is BIBO stable for every N ≥ 1 -/
theorem flex_smoother_bibo (N : Nat) (hN : 0 < N) (B : ℝ) (x0 : ℝ) (xs : List ℝ) (hx : ∀ x ∈ x0 :: xs, |x| ≤ B) :
    ∀ f ∈ Spec.smoothSeq (Spec.flexCoef (α := ℝ) N) x0 (x0 :: xs),
      |f| ≤ |(Spec.flexCoef (α := ℝ) N).c1| * B / (1 - SsStable.flexA N) ^ 2 := SsStable.flex_smoother_bibo N hN B x0 xs hx

/-- the generic statement: ANY two-pole section with complex-conjugate (or double real) poles of modulus a < 1 is BIBO -/
theorem twoPole_bibo (c : Spec.Coef ℝ) (a θ : ℝ) (ha0 : 0 ≤ a) (ha1 : a < 1)
    (hb1 : c.b1 = 2 * a * Real.cos θ) (hc3 : c.c3 = -(a * a)) (B pad : ℝ) (hpad : |pad| ≤ B)
    (xs : List ℝ) (hx : ∀ x ∈ xs, |x| ≤ B) :
    ∀ f ∈ Spec.smoothSeq c pad xs, |f| ≤ |c.c1| * B / (1 - a) ^ 2 := TwoPole.smoothSeq_bibo c a θ ha0 ha1 hb1 hc3 B pad hpad xs hx

/-- **fading memory of SuperSmoother**: by linearity the difference of two runs is the run on the difference stream
(`SsStable.diff_is_run_on_diff`); once that stream is 0 the Lyapunov functional V ≥ |difference of outputs| is multiplied by
ρ = (1 + a1)/2 < 1 at every further step — geometric convergence, for every N ≥ 1 -/
theorem superSmoother_fading (N : Nat) (hN : 0 < N) (d : List ℝ) (k : Nat) :
    TwoPole.V (TwoPole.pole (SsStable.ssA N) (44422 / 10000 / N)) (SsStable.ssA N)
        (SS.foldState (Spec.ssCoef (α := ℝ) N) 0 (d ++ [0] ++ List.replicate k 0))
      ≤ ((1 + SsStable.ssA N) / 2) ^ k *
        TwoPole.V (TwoPole.pole (SsStable.ssA N) (44422 / 10000 / N)) (SsStable.ssA N)
          (SS.foldState (Spec.ssCoef (α := ℝ) N) 0 (d ++ [0])) := by
  have ha := SsStable.ssA_range N hN
  have hc := SsStable.ssCoef_form N
  exact TwoPole.zero_tail_decay _ (SsStable.ssA N) _ ha.1.le ha.2 hc.1 hc.2 0 d k

theorem fading_dominates (N : Nat) (hN : 0 < N) (st : List ℝ × ℝ) :
    |st.1.headD 0| ≤ TwoPole.V (TwoPole.pole (SsStable.ssA N) (44422 / 10000 / N)) (SsStable.ssA N) st :=
  TwoPole.abs_head_le_V _ _ (SsStable.ssA_range N hN).1.le (SsStable.ssA_range N hN).2 st

theorem contraction_factor (N : Nat) (hN : 0 < N) : 0 < (1 + SsStable.ssA N) / 2 ∧ (1 + SsStable.ssA N) / 2 < 1 := by
  have := SsStable.ssA_range N hN
  constructor <;> linarith [this.1, this.2]

/-- **the high-pass pole of the RoofingFilter lies strictly inside the unit circle for every N ≥ 2** (the constructor
rejects N = 1, where the pole is −7.35): 1 − α = (1 − sin θ)/cos θ, θ = 4.4422/N -/
theorem roofing_pole_inside (N : Nat) (hN : 2 ≤ N) : |1 - roofAlpha (α := ℝ) N| < 1 := DoublePole.roofPole_abs_lt_one N hN

/-- **RoofingFilter(N, M) is BIBO stable for every N ≥ 2, M ≥ 1**, with a bound independent of the stream length -/
theorem roofing_bibo (N M' : Nat) (hN : 2 ≤ N) (hM : 0 < M') (B : ℝ) (xs : List ℝ) (hx : ∀ x ∈ xs, |x| ≤ B) (v : ℝ)
    (h : Spec.roofing N M' xs = some v) :
    |v| ≤ |(Spec.ssCoef (α := ℝ) M').c1| *
        ((1 - roofAlpha (α := ℝ) N / 2) * (1 - roofAlpha (α := ℝ) N / 2) * (4 * B)
          / (1 - |1 - roofAlpha (α := ℝ) N|) / (1 - |1 - roofAlpha (α := ℝ) N|))
        / (1 - SsStable.ssA M') ^ 2 := DoublePole.roofing_bibo N M' hN hM B xs hx v h

theorem roofing_view_bibo (N M' : Nat) (hN : 2 ≤ N) (hM : 0 < M') (B : ℝ) (xs : List ℝ) (hx : ∀ x ∈ xs, |x| ≤ B) (v : ℝ)
    (h : (roofCoreU (α := ℝ) N M').outAfter xs = .ok (some v)) :
    |v| ≤ |(Spec.ssCoef (α := ℝ) M').c1| *
        ((1 - roofAlpha (α := ℝ) N / 2) * (1 - roofAlpha (α := ℝ) N / 2) * (4 * B)
          / (1 - |1 - roofAlpha (α := ℝ) N|) / (1 - |1 - roofAlpha (α := ℝ) N|))
        / (1 - SsStable.ssA M') ^ 2 := by
  rw [C11.roofing_eq N M' hM] at h
  exact DoublePole.roofing_bibo N M' hN hM B xs hx v (by simpa using h)

/-- **|TrendFlex| ≤ 5 and |ReFlex| ≤ 5**: for every N, every input whatsoever and every stream length -/
theorem trendFlex_bound (N : Nat) (xs : List ℝ) (v : ℝ) (h : Spec.trendFlex N xs = some v) : |v| ≤ 5 :=
  FlexBound.trendFlex_bound N xs v h
theorem reFlex_bound (N : Nat) (xs : List ℝ) (v : ℝ) (h : Spec.reFlex N xs = some v) : |v| ≤ 5 :=
  FlexBound.reFlex_bound N xs v h

theorem trendFlex_view_bound (N : Nat) (hN : 3 ≤ N) (xs : List ℝ) (v : ℝ)
    (h : (tflexCore (α := ℝ) N).outAfter xs = .ok (some v)) : |v| ≤ 5 := by
  rw [C11.trendFlex_eq N hN] at h
  exact FlexBound.trendFlex_bound N xs v (by simpa using h)
theorem reFlex_view_bound (N : Nat) (hN : 3 ≤ N) (xs : List ℝ) (v : ℝ)
    (h : (rflexCore (α := ℝ) N).outAfter xs = .ok (some v)) : |v| ≤ 5 := by
  rw [C11.reFlex_eq N hN] at h
  exact FlexBound.reFlex_bound N xs v (by simpa using h)

end SF.C09.Real

/-! ### RoofingFilter: geometric fading memory (two streams that merge), and the output form for SuperSmoother -/
namespace SF.C09.Real
open SF SF.Spec

/-- the difference stream of two histories with a common tail is the difference of the heads followed by zeros -/
theorem lin_common_tail (p1 p2 t : List ℝ) (h : p1.length = p2.length) :
    Linear.lin 1 (-1) (p1 ++ t) (p2 ++ t) = Linear.lin 1 (-1) p1 p2 ++ List.replicate t.length 0 := by
  unfold Linear.lin
  rw [List.zipWith_append h]
  congr 1
  induction t with
  | nil => rfl
  | cons x r ih => simp [List.replicate_succ, ih]

/-- **fading memory of RoofingFilter(N, M), every N ≥ 2, M ≥ 1**: two histories `p1 ++ t`, `p2 ++ t` of equal length whose
common tail `t` has k + 2 values.  By superposition (C10) the difference of the outputs is the filter's response to the
stream (p1 − p2) followed by zeros; the joint Lyapunov functional `roofW` of that response (smoother + weighted high-pass)
is multiplied by `roofRate N M` < 1 at every step after the second common value and dominates the output difference:
geometric convergence, nothing persists -/
theorem roofing_fading (N M : Nat) (hN : 2 ≤ N) (hM : 0 < M) (p1 p2 t : List ℝ) (hlen : p1.length = p2.length)
    (hl : N ≤ p1.length) (k : Nat) (ht : t.length = k + 2) (v w : ℝ)
    (hv : Spec.roofing N M (p1 ++ t) = some v) (hw : Spec.roofing N M (p2 ++ t) = some w) :
    |v - w| ≤ DcGain.roofRate N M ^ k * DcGain.roofW N M (Linear.lin 1 (-1) p1 p2 ++ [0] ++ [0]) := by
  have hlin := C10.roofing_linear (α := ℝ) N M 1 (-1) (p1 ++ t) (p2 ++ t) (by simp [hlen])
  rw [hv, hw, lin_common_tail p1 p2 t hlen, ht] at hlin
  have e : List.replicate (k + 2) (0 : ℝ) = [0] ++ [0] ++ List.replicate k 0 := by
    simp [List.replicate_succ]
  rw [e, ← List.append_assoc, ← List.append_assoc] at hlin
  have hd : |1 * v + -1 * w| ≤ DcGain.roofRate N M ^ k * DcGain.roofW N M (Linear.lin 1 (-1) p1 p2 ++ [0] ++ [0]) :=
    C10.Real.roofing_dc_decays N M hN hM (Linear.lin 1 (-1) p1 p2) 0
      (by simp [Linear.lin, List.length_zipWith, hlen]; omega) k _ (by simpa [Linear.olin] using hlin)
  have e2 : v - w = 1 * v + -1 * w := by ring
  rw [e2]; exact hd

theorem roofing_fading_rate (N M : Nat) (hN : 2 ≤ N) (hM : 0 < M) : 0 < DcGain.roofRate N M ∧ DcGain.roofRate N M < 1 :=
  DcGain.roofRate_lt_one N M hN hM

/-- … and for the view itself (state machine), through C11 -/
theorem roofing_view_fading (N M : Nat) (hN : 2 ≤ N) (hM : 0 < M) (p1 p2 t : List ℝ) (hlen : p1.length = p2.length)
    (hl : N ≤ p1.length) (k : Nat) (ht : t.length = k + 2) (v w : ℝ)
    (hv : (roofCoreU (α := ℝ) N M).outAfter (p1 ++ t) = .ok (some v))
    (hw : (roofCoreU (α := ℝ) N M).outAfter (p2 ++ t) = .ok (some w)) :
    |v - w| ≤ DcGain.roofRate N M ^ k * DcGain.roofW N M (Linear.lin 1 (-1) p1 p2 ++ [0] ++ [0]) := by
  rw [C11.roofing_eq N M hM] at hv hw
  exact roofing_fading N M hN hM p1 p2 t hlen hl k ht v w (by simpa using hv) (by simpa using hw)

/-- **SuperSmoother fading memory, in terms of the two outputs**: histories `p1 ++ t`, `p2 ++ t`, |p1| = |p2|, common tail of
k + 1 values: |out₁ − out₂| ≤ ((1 + a1)/2)^k · V(state of the difference stream one step after the merge) -/
theorem superSmoother_fading_outputs (N : Nat) (hN : 0 < N) (p1 p2 t : List ℝ) (hlen : p1.length = p2.length)
    (k : Nat) (ht : t.length = k + 1) (v w : ℝ)
    (hv : Spec.superSmoother N (p1 ++ t) = some v) (hw : Spec.superSmoother N (p2 ++ t) = some w) :
    |v - w| ≤ ((1 + SsStable.ssA N) / 2) ^ k *
      DcGain.Vc (TwoPole.pole (SsStable.ssA N) (44422 / 10000 / N)) (SsStable.ssA N) 0
        (SS.foldState (Spec.ssCoef (α := ℝ) N) 0 (Linear.lin 1 (-1) p1 p2 ++ [0])) := by
  have hlin := C10.superSmoother_linear (α := ℝ) N 1 (-1) (p1 ++ t) (p2 ++ t) (by simp [hlen])
  rw [hv, hw, lin_common_tail p1 p2 t hlen, ht] at hlin
  have e : List.replicate (k + 1) (0 : ℝ) = [0] ++ List.replicate k 0 := by simp [List.replicate_succ]
  rw [e, ← List.append_assoc] at hlin
  have hd := C10.Real.superSmoother_dc_converges N hN (Linear.lin 1 (-1) p1 p2) 0 k (1 * v + -1 * w)
    (by simpa [Linear.olin] using hlin)
  have e2 : v - w = 1 * v + -1 * w - 0 := by ring
  rw [e2]; exact hd

end SF.C09.Real

/-! ### "… and any chain built from them": stability composes along chains -/
namespace SF.C09
open SF SF.Spec
variable {α : Type} [Field α] [LinearOrder α] [IsStrictOrderedRing α] [FloatLike α] [ExactScalar α]

/-- **BIBO stability composes along a chain**, for ANY inner view `A` that realises a batch function `specA` and ANY outer
core `B`: if everything `A` reports on prefixes of the raw input `xs` is bounded by `B1`, and `B` — fed ANY values bounded
by `B1` — only reports values bounded by `B2`, then the chain `B(A(·))` only reports values bounded by `B2` on `xs`.
The bounds are whatever the two stages guarantee; they do not depend on the stream length if the stages' bounds do not.
By induction this covers chains of any depth (the chain is again a view that realises a batch function). -/
theorem chain_bibo (A : View α) (specA : List α → Option α) (hR : Eft.Realises A specA) (B : Core α) (B1 B2 : α)
    (xs : List α) (hA : ∀ pre, pre <+: xs → ∀ y, specA pre = some y → |y| ≤ B1)
    (hB : ∀ ys : List α, (∀ y ∈ ys, |y| ≤ B1) → ∀ v, B.outAfter ys = .ok (some v) → |v| ≤ B2)
    (s : A.σ × B.σ) (hs : (wrap A B).run (A.init, B.init) xs = .ok s) (v : α) (hv : (wrap A B).last s = .ok (some v)) :
    |v| ≤ B2 := by
  apply ChainBound.chain_guarantee A B (fun y => |y| ≤ B1) (fun v => |v| ≤ B2) xs (allFinite_exact xs) ?_ hB s hs v hv
  intro y ⟨pre, _, hp, a', hr, hl⟩
  obtain ⟨m, hm, hlm⟩ := hR pre
  rw [hr] at hm; cases hm
  rw [hl] at hlm
  exact hA pre hp y (by simpa using hlm.symm)

/-- instance: **Ema over Ema over … any BIBO view** keeps the inner bound (Ema never leaves the interval of its inputs) -/
theorem ema_over_bibo (A : View α) (specA : List α → Option α) (hR : Eft.Realises A specA) (N : Nat) (hN : 0 < N) (B1 : α)
    (xs : List α) (hA : ∀ pre, pre <+: xs → ∀ y, specA pre = some y → |y| ≤ B1)
    (s : A.σ × (emaCore (α := α) N 2).σ) (hs : (wrap A (emaCore N 2)).run (A.init, (emaCore (α := α) N 2).init) xs = .ok s)
    (v : α) (hv : (wrap A (emaCore N 2)).last s = .ok (some v)) : |v| ≤ B1 := by
  refine chain_bibo A specA hR (emaCore N 2) B1 B1 xs hA ?_ s hs v hv
  intro ys hys w hw
  rw [C04.ema_eq N hN] at hw
  exact ema_bibo N hN B1 ys hys w (by simpa using hw)

end SF.C09

namespace SF.C09.Real
open SF SF.Spec
/-- instance at ℝ: **Ema(N₂) over SuperSmoother(N₁) over the raw input** is BIBO with the SuperSmoother's bound, for all
N₁, N₂ ≥ 1 and every stream length -/
theorem ema_over_superSmoother_bibo (N1 N2 : Nat) (h1 : 0 < N1) (h2 : 0 < N2) (B : ℝ) (xs : List ℝ) (hx : ∀ x ∈ xs, |x| ≤ B)
    (s) (hs : (wrap (overEcho (ssCore (α := ℝ) N1)) (emaCore N2 2)).run ((overEcho (ssCore (α := ℝ) N1)).init, (emaCore (α := ℝ) N2 2).init) xs = .ok s)
    (v : ℝ) (hv : (wrap (overEcho (ssCore (α := ℝ) N1)) (emaCore N2 2)).last s = .ok (some v)) :
    |v| ≤ |(Spec.ssCoef (α := ℝ) N1).c1| * B / (1 - SsStable.ssA N1) ^ 2 := by
  refine C09.ema_over_bibo (overEcho (ssCore (α := ℝ) N1)) (Spec.superSmoother N1)
    (Eft.realises_overEcho _ _ (fun ys => SS.outAfter_eq N1 h1 ys)) N2 h2 _ xs ?_ s hs v hv
  intro pre hp y hy
  apply SsStable.superSmoother_bibo N1 h1 B pre ?_ y hy
  intro x hxm
  exact hx x (hp.subset hxm)
end SF.C09.Real

/-! non-vacuity of `roofing_fading` / `superSmoother_fading_outputs`: equal-length heads, N ≤ |p1|, a tail of k + 2 values -/
example : ([1, 2, 3] : List ℝ).length = ([4, 5, 6] : List ℝ).length ∧ 3 ≤ ([1, 2, 3] : List ℝ).length
    ∧ ([0, 0, 0, 0, 0] : List ℝ).length = 3 + 2 := by simp
