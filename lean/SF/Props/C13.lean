import SF.Lemmas.Rolling
/-
  C13 — Rolling statistics equal their batch definition over the whole history.
  For every finite history `xs` of any length (exact arithmetic: any linearly ordered field; `sqrt`/`ln` are the
  scalar's, uninterpreted, so in particular `Real.sqrt` / `Real.log` at `ℝ`).
-/
namespace SF.C13
open SF
variable {α : Type} [Field α] [LinearOrder α] [IsStrictOrderedRing α] [FloatLike α] [ExactScalar α] [Transc α]

/-- `WelfordRolling::mean()` is the arithmetic mean of all values delivered so far -/
theorem welfordRolling_mean (xs : List α) :
    ∃ s, (welfordRollingCore (α := α)).run (welfordRollingCore (α := α)).init xs = .ok s ∧
      s.mean = Spec.welfordRollingMean xs := by
  obtain ⟨s, hs, hi⟩ := Core.run_invariant_init welfordRollingCore Rolling.WInv Rolling.w_init
    (fun s pre x h => Rolling.w_step_ok s pre x h) xs
  exact ⟨s, hs, Rolling.w_mean_eq s xs hi⟩

/-- `variance()` is the population variance Σ(x−mean)²/n of all values so far (0 for n ≤ 1) -/
theorem welfordRolling_variance (xs : List α) :
    ∃ s, (welfordRollingCore (α := α)).run (welfordRollingCore (α := α)).init xs = .ok s ∧
      s.variance = Spec.popVar xs := by
  obtain ⟨s, hs, hi⟩ := Core.run_invariant_init welfordRollingCore Rolling.WInv Rolling.w_init
    (fun s pre x h => Rolling.w_step_ok s pre x h) xs
  exact ⟨s, hs, Rolling.w_var_eq s xs hi⟩

/-- `last()` is the population standard deviation (square root of the above); nothing before the first value -/
theorem welfordRolling_last (xs : List α) :
    (welfordRollingCore (α := α)).outAfter xs = .ok (Spec.welfordRolling xs) := Rolling.w_outAfter_eq xs

/-- Drawdown equals the largest relative decline (peak − x_j)/peak from the running maximum, over all j so far,
for every positive stream in any order (new peaks after drawdowns, repeated peaks, monotone runs).
`minValue < 0` is the only thing used about `T::min_value()`. -/
theorem drawdown_eq (hmin : (FloatLike.minValue : α) < 0) (xs : List α) (hx : ∀ x ∈ xs, 0 < x) :
    (drawdownCore (α := α)).outAfter xs = .ok (some (Spec.drawdown xs)) := Rolling.d_outAfter_eq hmin xs hx

/-- LnReturn equals ln(x_t / x_{t−1}), from the second value on, for every stream without zeros -/
theorem lnReturn_eq (xs : List α) (hx : ∀ x ∈ xs, x ≠ 0) :
    (lnReturnCore (α := α)).outAfter xs = .ok (Spec.lnReturn xs) := Rolling.l_outAfter_eq xs hx

/-- the spec of LnReturn, unfolded on a history with at least two values -/
theorem lnReturn_spec (xs : List α) (p x : α) : Spec.lnReturn (xs ++ [p, x]) = some (Transc.ln (x / p)) := by
  simp [Spec.lnReturn]

end SF.C13
