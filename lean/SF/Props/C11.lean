import SF.Lemmas.SuperSmoother
import SF.Lemmas.Lagf
import SF.Lemmas.Roof
import SF.Lemmas.LagRsi
import SF.Lemmas.Flex
import SF.Lemmas.CyberCycle
import SF.Lemmas.Real
import SF.Lemmas.Eft
import SF.Lemmas.Pfe
import SF.Lemmas.Ema
import SF.Lemmas.Sma
import Mathlib.Analysis.Real.Pi.Bounds
/-
  C11 — Ehlers-style indicators follow their defining difference equations.
  Proved: SuperSmoother, LaguerreFilter and RoofingFilter.  SuperSmoother — at every step the output equals the batch re-evaluation, from the complete history,
  of  f(t) = c1·(x(t)+x(t−1))/2 + b1·f(t−1) + c3·f(t−2)  with zero initial state, reported from the N-th value on,
  where a1 = exp(−1.414·π/N), b1 = 2·a1·cos(4.4422/N), c3 = −a1², c1 = 1 − b1 − c3 (the code's literal 4.4422 for
  1.414·π; `literal_close` bounds the difference).  I.e. the register shuffling `filt_2 = filt_1; filt_1 = filt`
  is proved equal to plain delays.  All nine views of the statement are characterised below (`…_eq`): state machine =
  batch re-evaluation, for every admissible N and every history; `./check C11` ties these models to the code and
  evaluates the same executable specs against the implementation in exact arithmetic.
-/
namespace SF.C11
open SF SF.Spec
set_option linter.unusedSectionVars false
variable {α : Type} [Field α] [LinearOrder α] [IsStrictOrderedRing α] [FloatLike α] [ExactScalar α] [Transc α]

/-- SuperSmoother = its difference equation, every N ≥ 1, every history -/
theorem superSmoother_eq (N : Nat) (hN : 0 < N) (xs : List α) :
    (ssCore (α := α) N).outAfter xs = .ok (Spec.superSmoother N xs) := SS.outAfter_eq N hN xs

/-- **LaguerreFilter = the four-stage Laguerre ladder** L0 = (1−γ)x + γL0[1], Lk = −γL(k−1) + L(k−1)[1] + γLk[1], all stages
started at the first value, output (L0 + 2L1 + 2L2 + L3)/6 — for every γ and every history (the trimmed vectors and
`len − 1` / `len − 2` indexing are proved equal to plain delays) -/
theorem laguerreFilter_eq (g : α) (xs : List α) :
    (lagfCore (α := α) g).outAfter xs = .ok (Spec.laguerreFilter g xs) := Lagf.outAfter_eq g xs

/-- **CyberCycle equals the batch re-evaluation** (N ≥ 6, the least window its constructor accepts): c(t) = 0 for t < N−1;
then c(t) = (1−α/2)²·(s(t) − 2s(t−1) + s(t−2)) + 2(1−α)·c(t−1) − (1−α)²·c(t−2) with s the 4-tap smoothing
(x(t) + 2x(t−1) + 2x(t−2) + x(t−3))/6 and α = 2/(N+1) -/
theorem cyberCycle_eq (N : Nat) (hN : 6 ≤ N) (xs : List α) :
    (ccCoreU (α := α) N).outAfter xs = .ok (Spec.cyberCycle N xs) := CC.cyberCycle_eq N hN xs

/-- **TrendFlex equals the batch re-evaluation** (N ≥ 3, the least window that holds two previous filter values): the
flex smoother a1 = exp(−8.88442402435/N), b1 = 2·a1·cos(4.44221201218/N) started with x(−1) = x(0); the mean over N of the
deviations of the newest filter value from the last min(t+1, N) filter values; divided by the root of its 0.04/0.96
leaky mean square (0 while that is 0) -/
theorem trendFlex_eq (N : Nat) (hN : 3 ≤ N) (xs : List α) :
    (tflexCore (α := α) N).outAfter xs = .ok (Spec.trendFlex N xs) := Flex.trendFlex_eq N hN xs

/-- **ReFlex equals the batch re-evaluation** (N ≥ 3): as TrendFlex with the deviations taken from the line through the
newest and the oldest filter value of the window (slope correction), the previous output being held while the mean square is 0 -/
theorem reFlex_eq (N : Nat) (hN : 3 ≤ N) (xs : List α) :
    (rflexCore (α := α) N).outAfter xs = .ok (Spec.reFlex N xs) := ReFlex.reFlex_eq N hN xs

/-- **LaguerreRSI equals the batch re-evaluation**: gamma = 2/(N+1); the first two values only fill the zero initial
state; then the four-stage ladder from zeros and CU/(CU+CD) over the three adjacent stage pairs, the previous value being
kept while CU+CD = 0.  Every N, every history; no panic. -/
theorem laguerreRsi_eq (N : Nat) (xs : List α) :
    (lagRsiCore (α := α) N).outAfter xs = .ok (Spec.laguerreRsi N xs) := LagRsi.outAfter_eq N xs

/-- one step of the ladder, as the spec evaluates it -/
theorem laguerre_ladder_step (g : α) (init : α × α × α × α) (r : List α) (x : α) :
    lagLadder g init (r ++ [x]) =
      (let s := lagLadder g init r
       let n0 := (1 - g) * x + g * s.1
       let n1 := -g * n0 + s.1 + g * s.2.1
       let n2 := -g * n1 + s.2.1 + g * s.2.2.1
       let n3 := -g * n2 + s.2.2.1 + g * s.2.2.2
       (n0, n1, n2, n3)) := by
  rw [Lagf.ladder_snoc]; simp

/-- **RoofingFilter(N, M) = SuperSmoother(M) fed with the two-pole high-pass values hp(N+1), hp(N+2), …**, where
hp(t) = (1−α/2)²(x(t) − 2x(t−1) + x(t−2)) + 2(1−α)hp(t−1) − (1−α)²hp(t−2), α = (cos θ + sin θ − 1)/cos θ, θ = 4.4422/N, zero initial
state — every N, every M ≥ 1, every history -/
theorem roofing_eq (N M' : Nat) (hM : 0 < M') (xs : List α) :
    (roofCoreU (α := α) N M').outAfter xs = .ok (Spec.roofing N M' xs) := Roof.outAfter_eq N M' hM xs

/-- the high-pass recursion, as the spec evaluates it -/
theorem roofing_hp_step (N : Nat) (xs : List α) (x : α) :
    hpSeq N (xs ++ [x]) = Roof.hpNext N (Roof.hpFold N xs) x :: hpSeq N xs := by
  rw [Roof.hpSeq_eq, Roof.hpFold_snoc]; rfl

/-- the difference equation the spec evaluates: appending x(t) to the history prepends
f(t) = c1·(x(t) + x(t−1))/2 + b1·f(t−1) + c3·f(t−2) to the sequence of filter values (f(−1) = f(−2) = 0, x(−1) = pad) -/
theorem smoothSeq_step (c : Coef α) (pad : α) (xs : List α) (x : α) :
    smoothSeq c pad (xs ++ [x]) =
      (c.c1 * (x + (SS.foldState c pad xs).2) / 2 + c.b1 * (smoothSeq c pad xs).headD 0
        + c.c3 * (smoothSeq c pad xs).tail.headD 0) :: smoothSeq c pad xs := by
  rw [SS.smoothSeq_eq, SS.foldState_snoc]; simp [SS.smoothSeq_eq]

/-- `x(t−1)`: the second component of the fold state is the previous input (the pad before the first) -/
theorem prev_input (c : Coef α) (pad : α) (xs : List α) : (SS.foldState c pad xs).2 = (xs.getLast?).getD pad := by
  rcases List.eq_nil_or_concat xs with rfl | ⟨ys, y, rfl⟩
  · simp [SS.foldState]
  · simp only [List.concat_eq_append]; rw [SS.foldState_snoc]; simp

/-- the coefficients are functions of the window length only, with exactly the stated formulas -/
theorem coefficients (N : Nat) :
    let a1 : α := Transc.exp (-(1414 / 1000) * (3141592653589793 / 1000000000000000) / (N : α))
    (Spec.ssCoef (α := α) N).b1 = 2 * a1 * Transc.cos (44422 / 10000 / (N : α)) ∧
    (Spec.ssCoef (α := α) N).c3 = -(a1 * a1) ∧
    (Spec.ssCoef (α := α) N).c1 = 1 - (Spec.ssCoef (α := α) N).b1 - (Spec.ssCoef (α := α) N).c3 := by
  simp [Spec.ssCoef]

/-- and the model uses the same ones -/
theorem model_coefficients (N : Nat) :
    ((SF.ssCoef (α := α) N).c1, (SF.ssCoef (α := α) N).c2, (SF.ssCoef (α := α) N).c3)
      = ((Spec.ssCoef (α := α) N).c1, (Spec.ssCoef (α := α) N).b1, (Spec.ssCoef (α := α) N).c3) := SS.coef_eq N

/-! ### the two views with an embedded moving average -/

/-- a moving-average view "realises" a batch function when it never panics and, after being fed any list, reports that
function of the list.  Every core characterised in C02/C04, run over Echo, does (`realises_overEcho`). -/
theorem realises_overEcho (B : Core α) (spec : List α → Option α) (h : ∀ xs, B.outAfter xs = .ok (spec xs)) :
    Eft.Realises (overEcho B) spec := Eft.realises_overEcho B spec h

/-- **EhlersFisherTransform equals the batch re-evaluation**, every N ≥ 1, every history, every realising moving average:
window min-max normalisation into [−1, 1] (the cached high / low are proved to be the extrema of exactly the last N values,
rescans and the emptied-window default included), smoothing, clamp to ±0.99, 0.5·ln((1+v)/(1−v)) + 0.5·previous;
0 on a flat window and for the first smoothed value -/
theorem fisher_eq (N : Nat) (hN : 0 < N) (ma : View α) (maS : List α → Option α) (hR : Eft.Realises ma maS) (xs : List α) :
    (eftCore N ma).outAfter xs = .ok (Spec.fisher N maS xs) := Eft.outAfter_eq N hN ma maS hR xs

/-- … in particular with the Ema(M) the crate's examples use, and with an Sma(M) -/
theorem fisher_ema_eq (N M' : Nat) (hN : 0 < N) (hM : 0 < M') (xs : List α) :
    (eftCore N (overEcho (emaCore (α := α) M' (nat 2)))).outAfter xs = .ok (Spec.fisher N (Spec.ema M' (nat 2)) xs) :=
  Eft.outAfter_eq N hN _ _ (Eft.realises_overEcho _ _ (Ema.outAfter_eq M' hM (nat 2))) xs
theorem fisher_sma_eq (N M' : Nat) (hN : 0 < N) (hM : 0 < M') (xs : List α) :
    (eftCore N (overEcho (smaCore (α := α) M'))).outAfter xs = .ok (Spec.fisher N (Spec.sma M') xs) :=
  Eft.outAfter_eq N hN _ _ (Eft.realises_overEcho _ _ (Sma.outAfter_eq M' hM)) xs

/-- **PolarizedFractalEfficiency equals the batch re-evaluation**, every N ≥ 3 (the constructor's minimum), every history,
every realising moving average: from the N-th value on the signed ratio of √((x(t) − x(t−N+1))² + N²) to the summed
√(d² + 1) over the window's N−2 most recent steps (negative when the last step is down) is fed to the average -/
theorem pfe_eq (N : Nat) (hN : 3 ≤ N) (ma : View α) (maS : List α → Option α) (hR : Eft.Realises ma maS) (xs : List α) :
    (pfeCoreU N ma).outAfter xs = .ok (Spec.pfe N maS xs) := Pfe.outAfter_eq N hN ma maS hR xs

theorem pfe_ema_eq (N M' : Nat) (hN : 3 ≤ N) (hM : 0 < M') (xs : List α) :
    (pfeCoreU N (overEcho (emaCore (α := α) M' (nat 2)))).outAfter xs = .ok (Spec.pfe N (Spec.ema M' (nat 2)) xs) :=
  Pfe.outAfter_eq N hN _ _ (Eft.realises_overEcho _ _ (Ema.outAfter_eq M' hM (nat 2))) xs
theorem pfe_sma_eq (N M' : Nat) (hN : 3 ≤ N) (hM : 0 < M') (xs : List α) :
    (pfeCoreU N (overEcho (smaCore (α := α) M'))).outAfter xs = .ok (Spec.pfe N (Spec.sma M') xs) :=
  Pfe.outAfter_eq N hN _ _ (Eft.realises_overEcho _ _ (Sma.outAfter_eq M' hM)) xs

/-- the ratio sequence grows by exactly one entry per value once N values exist (and is empty before) -/
theorem pfe_ratios_step (N : Nat) (hN : 1 ≤ N) (xs : List α) (x : α) :
    pfeRatios N (xs ++ [x]) = pfeRatios N xs ++ (if xs.length + 1 < N then [] else [Pfe.ratioAt N (xs ++ [x]) xs.length]) :=
  Pfe.pfeRatios_snoc N hN xs x

/-- for window lengths below 3 the crate's convention "window of N filter values including the current one" drops the
feedback terms that would reach outside the window; `trendFlexW` / `reFlexW` are the batch definitions for EVERY N (used by
`./check C11` as the oracle for N = 1, 2 as well), and coincide with the ones characterised above from N = 3 on -/
theorem flexCoefW_eq (N : Nat) (hN : 3 ≤ N) : Spec.flexCoefW (α := α) N = Spec.flexCoef N := by
  simp only [Spec.flexCoefW, show 2 ≤ N by omega, hN, if_true]

theorem trendFlexW_eq (N : Nat) (hN : 3 ≤ N) (xs : List α) : Spec.trendFlexW N xs = Spec.trendFlex N xs := by
  simp only [Spec.trendFlexW, Spec.trendFlex, flexCoefW_eq N hN]

theorem reFlexW_eq (N : Nat) (hN : 3 ≤ N) (xs : List α) : Spec.reFlexW N xs = Spec.reFlex N xs := by
  simp only [Spec.reFlexW, Spec.reFlex, flexCoefW_eq N hN]


end SF.C11

namespace SF.C11.Real
/-- the code's literal 4.4422 stands for 1.414·π: they differ by less than 2·10⁻⁵ -/
theorem literal_close : |(44422 / 10000 : ℝ) - 1.414 * Real.pi| < 2 / 100000 := by
  have h1 := Real.pi_gt_d6
  have h2 := Real.pi_lt_d6
  rw [abs_lt]; constructor <;> norm_num at h1 h2 ⊢ <;> linarith
end SF.C11.Real
