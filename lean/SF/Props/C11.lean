import SF.Lemmas.SuperSmoother
import SF.Lemmas.Real
import Mathlib.Analysis.Real.Pi.Bounds
/-
  C11 — Ehlers-style indicators follow their defining difference equations.
  Proved so far: SuperSmoother — at every step the output equals the batch re-evaluation, from the complete history,
  of  f(t) = c1·(x(t)+x(t−1))/2 + b1·f(t−1) + c3·f(t−2)  with zero initial state, reported from the N-th value on,
  where a1 = exp(−1.414·π/N), b1 = 2·a1·cos(4.4422/N), c3 = −a1², c1 = 1 − b1 − c3 (the code's literal 4.4422 for
  1.414·π; `literal_close` bounds the difference).  I.e. the register shuffling `filt_2 = filt_1; filt_1 = filt`
  is proved equal to plain delays.  The other eight views of the statement are decided by `./check C11` against the
  executable specs of SF/Spec.lean in exact arithmetic (see DESIGN.md §4 for what is still unproved).
-/
namespace SF.C11
open SF SF.Spec
set_option linter.unusedSectionVars false
variable {α : Type} [Field α] [LinearOrder α] [IsStrictOrderedRing α] [FloatLike α] [ExactScalar α] [Transc α]

/-- SuperSmoother = its difference equation, every N ≥ 1, every history -/
theorem superSmoother_eq (N : Nat) (hN : 0 < N) (xs : List α) :
    (ssCore (α := α) N).outAfter xs = .ok (Spec.superSmoother N xs) := SS.outAfter_eq N hN xs

/-- the difference equation the spec evaluates: appending x(t) to the history prepends
f(t) = c1·(x(t) + x(t−1))/2 + b1·f(t−1) + c3·f(t−2) to the sequence of filter values (f(−1) = f(−2) = 0, x(−1) = pad) -/
theorem smoothSeq_step (c : Coef α) (pad : α) (xs : List α) (x : α) :
    smoothSeq c pad (xs ++ [x]) =
      (c.c1 * (x + (SS.foldState c pad xs).2) / 2 + c.b1 * (smoothSeq c pad xs).headD 0
        + c.c3 * (smoothSeq c pad xs).tail.headD 0) :: smoothSeq c pad xs := by
  rw [SS.smoothSeq_eq, SS.foldState_snoc]; simp [SS.smoothSeq_eq]

/-- `x(t−1)`: the second component of the fold state is the previous input (the pad before the first) -/
theorem prev_input (c : Coef α) (pad : α) (xs : List α) : (SS.foldState c pad xs).2 = (xs.getLast?).getD pad := by
  rcases List.eq_nil_or_concat xs with rfl | ⟨ys, y, rfl⟩
  · simp [SS.foldState]
  · simp only [List.concat_eq_append]; rw [SS.foldState_snoc]; simp

/-- the coefficients are functions of the window length only, with exactly the stated formulas -/
theorem coefficients (N : Nat) :
    let a1 : α := Transc.exp (-(1414 / 1000) * (3141592653589793 / 1000000000000000) / (N : α))
    (Spec.ssCoef (α := α) N).b1 = 2 * a1 * Transc.cos (44422 / 10000 / (N : α)) ∧
    (Spec.ssCoef (α := α) N).c3 = -(a1 * a1) ∧
    (Spec.ssCoef (α := α) N).c1 = 1 - (Spec.ssCoef (α := α) N).b1 - (Spec.ssCoef (α := α) N).c3 := by
  simp [Spec.ssCoef]

/-- and the model uses the same ones -/
theorem model_coefficients (N : Nat) :
    ((SF.ssCoef (α := α) N).c1, (SF.ssCoef (α := α) N).c2, (SF.ssCoef (α := α) N).c3)
      = ((Spec.ssCoef (α := α) N).c1, (Spec.ssCoef (α := α) N).b1, (Spec.ssCoef (α := α) N).c3) := SS.coef_eq N

end SF.C11

namespace SF.C11.Real
/-- the code's literal 4.4422 stands for 1.414·π: they differ by less than 2·10⁻⁵ -/
theorem literal_close : |(44422 / 10000 : ℝ) - 1.414 * Real.pi| < 2 / 100000 := by
  have h1 := Real.pi_gt_d6
  have h2 := Real.pi_lt_d6
  rw [abs_lt]; constructor <;> norm_num at h1 h2 ⊢ <;> linarith
end SF.C11.Real
