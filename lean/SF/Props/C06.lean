import SF.Lemmas.CtiAffine
import SF.Lemmas.SpecFacts
import SF.Lemmas.Real
import SF.Lemmas.Cog
import SF.Lemmas.Cti
import SF.Lemmas.Net
/-
  C06 — Trend indicators are true correlation measures of the window.
  `Spec.kendall`, `Spec.pearsonIdx`, `Spec.cog` ARE the statement's definitions (all n(n−1)/2 pairs with ties
  contributing 0; Pearson against the time index with 0 when a variance is 0; the centre-of-gravity formula).
  Proved here on those definitions: NET = +1 / −1 on strictly increasing / decreasing windows, sign flip under negation,
  dependence on the order only (invariance under every strictly increasing map), CoG = 0 on a constant non-zero window.
  Known finding K1: "CTI = +1 on ANY strictly increasing window" contradicts "CTI = Pearson"; `cti_monotone_not_one`
  is the machine-checked witness (window 1, 2, 4).  The equality "state machine = Spec" for the three views is decided by
  `./check C06` in exact arithmetic.
-/
namespace SF.C06
open SF SF.Spec
set_option linter.unusedSectionVars false
variable {α : Type} [Field α] [LinearOrder α] [IsStrictOrderedRing α]

/-- **CenterOfGravity's state machine equals the statement's formula** (n+1)/2 − Σ_k k·x_(t−k+1) / Σ_k x_(t−k+1), k = 1 newest,
over exactly the values currently in the window (all values so far before it is full), 0 when the denominator is 0;
every N ≥ 1, every history, every step -/
theorem cog_eq [FloatLike α] [ExactScalar α] (N : Nat) (hN : 0 < N) (xs : List α) :
    (cogCore (α := α) N).outAfter xs = .ok (Spec.cog N xs) := Cog.outAfter_eq N hN xs

/-- **On a full window CorrelationTrendIndicator equals the Pearson correlation between the N windowed values and their
time index 0..N−1 (0 when either variance is 0)**: the enumerate-loop's five running sums are Σx, Σk, Σx², Σxk, Σk² of
exactly the window; every N ≥ 1, every history with at least N values -/
theorem cti_eq_pearson [FloatLike α] [ExactScalar α] [Transc α] (N : Nat) (hN : 0 < N) (xs : List α) (hx : N ≤ xs.length) :
    (ctiCore (α := α) N).outAfter xs = .ok (some (pearsonIdx (lastN N xs))) := Cti.outAfter_eq N hN xs hx

/-- **NoiseEliminationTechnology equals Kendall's tau between values and time over all n(n−1)/2 pairs of the values currently
in its window, ties contributing 0**: the 1-based double loop visits every pair exactly once; every N ≥ 1, every history -/
theorem net_eq_kendall [FloatLike α] [ExactScalar α] (N : Nat) (hN : 0 < N) (xs : List α) :
    (netCore (α := α) N).outAfter xs = .ok (Spec.net N xs) := Net.outAfter_eq N hN xs

/-- the loop itself, for any window content: its numerator is Kendall's numerator Σ_{i<j} sgn0(w_j − w_i) -/
theorem net_loop_eq [FloatLike α] [ExactScalar α] (q : List α) : netNum q = .ok (kendallNum q) := Net.netNum_eq q

theorem sgn0_pos (d : α) (h : 0 < d) : sgn0 d = 1 := by simp [sgn0, h]
theorem sgn0_neg' (d : α) (h : d < 0) : sgn0 d = -1 := by simp [sgn0, h, not_lt.mpr (le_of_lt h)]
theorem sgn0_zero : sgn0 (0 : α) = 0 := by simp [sgn0]

theorem sgn0_neg (d : α) : sgn0 (-d) = -sgn0 d := by
  rcases lt_trichotomy d 0 with h | h | h
  · rw [sgn0_neg' d h, sgn0_pos (-d) (by linarith)]; simp
  · subst h; simp [sgn0_zero]
  · rw [sgn0_pos d h, sgn0_neg' (-d) (by linarith)]

theorem sgn0_mono (f : α → α) (hf : StrictMono f) (x y : α) : sgn0 (f y - f x) = sgn0 (y - x) := by
  rcases lt_trichotomy x y with h | h | h
  · rw [sgn0_pos _ (sub_pos.mpr (hf h)), sgn0_pos _ (sub_pos.mpr h)]
  · subst h; simp [sgn0_zero]
  · rw [sgn0_neg' _ (sub_neg.mpr (hf h)), sgn0_neg' _ (sub_neg.mpr h)]

theorem sum_sgn_neg (x : α) (r : List α) :
    sumL ((r.map fun y => -y).map fun y => sgn0 (y - -x)) = -sumL (r.map fun y => sgn0 (y - x)) := by
  induction r with
  | nil => simp
  | cons y r ihr =>
    simp only [List.map_cons, sumL_cons, ihr]
    rw [show -y - -x = -(y - x) by ring, sgn0_neg]; ring

/-- negating the window negates the Kendall numerator (hence NET flips sign) -/
theorem kendallNum_neg (w : List α) : kendallNum (w.map fun x => -x) = -kendallNum w := by
  induction w with
  | nil => simp [kendallNum]
  | cons x r ih =>
    simp only [List.map_cons, kendallNum, ih, sum_sgn_neg]
    ring

theorem kendall_neg (w : List α) : kendall (w.map fun x => -x) = -kendall w := by
  simp only [kendall, kendallNum_neg, List.length_map, neg_div]

/-- NET depends only on the order of the values: any strictly increasing map leaves the Kendall numerator unchanged -/
theorem kendallNum_order_only (f : α → α) (hf : StrictMono f) (w : List α) : kendallNum (w.map f) = kendallNum w := by
  induction w with
  | nil => simp [kendallNum]
  | cons x r ih =>
    simp only [List.map_cons, kendallNum, ih, List.map_map]
    congr 1
    congr 1
    apply List.map_congr_left
    intro y _
    simp only [Function.comp, sgn0_mono f hf]

theorem kendall_order_only (f : α → α) (hf : StrictMono f) (w : List α) : kendall (w.map f) = kendall w := by
  simp only [kendall, kendallNum_order_only f hf, List.length_map]

/-- on a strictly increasing window every one of the n(n−1)/2 pairs is concordant -/
theorem kendallNum_increasing (w : List α) (h : w.Pairwise (· < ·)) :
    kendallNum w = ((w.length * (w.length - 1) / 2 : Nat) : α) := by
  induction w with
  | nil => simp [kendallNum]
  | cons x r ih =>
    rw [List.pairwise_cons] at h
    simp only [kendallNum, ih h.2, List.length_cons]
    have hs : sumL (r.map fun y => sgn0 (y - x)) = (r.length : α) := by
      have : ∀ y ∈ r, sgn0 (y - x) = 1 := fun y hy => sgn0_pos _ (sub_pos.mpr (h.1 y hy))
      clear ih h
      induction r with
      | nil => simp
      | cons y r ihr =>
        simp only [List.map_cons, sumL_cons, List.length_cons, this y (by simp)]
        rw [ihr (fun z hz => this z (by simp [hz]))]; push_cast; ring
    rw [hs]
    have key : ∀ n : Nat, n + n * (n - 1) / 2 = (n + 1) * (n + 1 - 1) / 2 := by
      intro n
      cases n with
      | zero => simp
      | succ m =>
        simp only [Nat.add_sub_cancel]
        have e : (m + 1 + 1) * (m + 1) = (m + 1) * m + 2 * (m + 1) := by ring
        rw [e, Nat.add_mul_div_left _ _ (by norm_num : 0 < 2)]
        omega
    rw [← Nat.cast_add, key]

/-- NET (Kendall's tau) is +1 on any strictly increasing window of at least two values … -/
theorem kendall_increasing (w : List α) (h : w.Pairwise (· < ·)) (hn : 2 ≤ w.length) : kendall w = 1 := by
  simp only [kendall, kendallNum_increasing w h, nat_eq]
  have hpos : 0 < w.length * (w.length - 1) := Nat.mul_pos (by omega) (by omega)
  have heven : 2 ∣ w.length * (w.length - 1) := by
    have := Nat.even_mul_pred_self w.length
    exact this.two_dvd
  obtain ⟨k, hk⟩ := heven
  have hk0 : 0 < k := by omega
  rw [hk, Nat.mul_div_cancel_left k (by norm_num)]
  push_cast
  have : (k : α) ≠ 0 := by exact_mod_cast hk0.ne'
  field_simp

/-- … and −1 on any strictly decreasing one -/
theorem kendall_decreasing (w : List α) (h : w.Pairwise (· > ·)) (hn : 2 ≤ w.length) : kendall w = -1 := by
  have h' : (w.map fun x => -x).Pairwise (· < ·) := by
    rw [List.pairwise_map]; exact h.imp (fun hab => neg_lt_neg hab)
  have := kendall_increasing _ h' (by simpa using hn)
  rw [kendall_neg] at this
  linarith

/-- CoG is 0 on a constant non-zero window: Σ k·c / Σ c = (n+1)/2 -/
theorem cog_const (N : Nat) (hN : 0 < N) (c : α) (hc : c ≠ 0) (L : Nat) (hL : 0 < L) :
    Spec.cog N (List.replicate L c) = some 0 := by
  have hw : lastN N (List.replicate L c) = List.replicate (min N L) c := by
    simp [lastN]; omega
  set n := min N L with hn
  have hnpos : 0 < n := by omega
  simp only [Spec.cog, hw]
  have hne : ¬ (List.replicate n c).isEmpty := by simp; omega
  simp only [hne, if_false, List.length_replicate, sumL_const, List.reverse_replicate]
  have hnum : ∀ m : Nat, sumL ((List.replicate m c).zipIdx.map fun (x, k) => (nat (k + 1) : α) * x)
      = ((m * (m + 1) / 2 : Nat) : α) * c := by
    intro m
    induction m with
    | zero => simp
    | succ m ih =>
      rw [List.replicate_succ', List.zipIdx_append, List.map_append, sumL_append, ih]
      simp only [List.length_replicate, List.zipIdx_singleton, List.map_cons, List.map_nil, sumL_cons, sumL_nil,
        nat_eq, Nat.zero_add, add_zero]
      have h2 : 2 ∣ m * (m + 1) := (Nat.even_mul_succ_self m).two_dvd
      have h3 : 2 ∣ (m + 1) * (m + 1 + 1) := (Nat.even_mul_succ_self (m + 1)).two_dvd
      obtain ⟨k, hk⟩ := h2
      obtain ⟨k', hk'⟩ := h3
      rw [hk, hk', Nat.mul_div_cancel_left _ (by norm_num), Nat.mul_div_cancel_left _ (by norm_num)]
      have : k' = k + (m + 1) := by nlinarith
      subst this; push_cast; ring
  rw [hnum]
  have hden : ((n : α) * c == nat 0) = false := by
    have : (n : α) ≠ 0 := by exact_mod_cast hnpos.ne'
    simpa using mul_ne_zero this hc
  simp only [hden, nat_eq]
  have h2 : 2 ∣ n * (n + 1) := (Nat.even_mul_succ_self n).two_dvd
  obtain ⟨k, hk⟩ := h2
  rw [hk, Nat.mul_div_cancel_left _ (by norm_num)]
  have hk2 : (k : α) = (n : α) * ((n : α) + 1) / 2 := by
    have := congrArg (fun x : Nat => (x : α)) hk; push_cast at this; linarith
  have hn0 : (n : α) ≠ 0 := by exact_mod_cast hnpos.ne'
  simp only [Bool.false_eq_true, if_false, Option.some.injEq, Nat.cast_one, Nat.cast_ofNat, hk2]
  field_simp
  ring_nf
  simp

end SF.C06

namespace SF.C06.K1
open SF SF.Spec
/-- **K1 (negation witness).** Pearson correlation of the strictly increasing, non-affine window 1, 2, 4 with its time
index: the quantity under the root is N·Sxy − Sx·Sy = 9, (N·Sxx − Sx²)(N·Syy − Sy²) = 14·6 = 84, and 9² = 81 ≠ 84, so the
correlation 9/√84 is not 1.  Hence "CTI = +1 on any strictly increasing window" cannot hold together with
"CTI = Pearson correlation"; it holds on affine windows. -/
theorem cti_monotone_not_one : pearsonIdx ([1, 2, 4] : List ℝ) ≠ 1 := by
  have h : pearsonIdx ([1, 2, 4] : List ℝ) = 9 / Real.sqrt 84 := by
    simp only [pearsonIdx, List.length_cons, List.length_nil, List.range, List.range.loop, List.map_cons, List.map_nil,
      sumL_cons, sumL_nil, List.zip_cons_cons, List.zip_nil_right, nat_eq, sq_eq, transc_sqrt_real]
    norm_num
  rw [h]
  intro h1
  have hpos : (0 : ℝ) < Real.sqrt 84 := Real.sqrt_pos.mpr (by norm_num)
  rw [div_eq_one_iff_eq hpos.ne'] at h1
  have : Real.sqrt 84 ^ 2 = 84 := Real.sq_sqrt (by norm_num)
  rw [← h1] at this
  norm_num at this
end SF.C06.K1

namespace SF.C06.Real
open SF SF.Spec
/-- **CTI is +1 on every increasing AFFINE window and −1 on every decreasing affine one**, for every N ≥ 2 and whatever
preceded — the provable part of the property's last sentence (on a monotone but non-affine window it is not ±1: `K1`) -/
theorem cti_affine_window (N : Nat) (hN : 2 ≤ N) (a b : ℝ) (ha : a ≠ 0) (pre : List ℝ) :
    Spec.cti N (pre ++ (CtiAffine.ks N).map fun x => a * x + b) = some (if 0 < a then 1 else -1) :=
  CtiAffine.cti_affine_window N hN a b ha pre
/-- the time index itself: k = 0, 1, …, n−1 -/
theorem ks_eq (n : Nat) : CtiAffine.ks n = (List.range n).map fun k => ((k : ℕ) : ℝ) := rfl
end SF.C06.Real
