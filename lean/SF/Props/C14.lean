import SF.Lemmas.Generic
import SF.Expr
/-
  C14 — Combinators are pointwise, stateless functions of their children.
  All statements hold for an arbitrary scalar type (in particular for `Float`: "bit-exactly").
-/
namespace SF.C14
open SF
set_option linter.unusedSectionVars false
variable {α : Type} [FloatLike α]

section binops
variable [Add α] [Sub α] [Mul α] [Div α] [NatCast α] [BEq α]

/-- `Add` reports `a + b` of its children's current outputs, and nothing else influences it: the answer is a function
of the two children's current answers only (the node has no state of its own: its state IS the pair of child states). -/
theorem add_last (A B : View α) (a : A.σ) (b : B.σ) (x y : α) (ha : A.last a = .ok (some x))
    (hb : B.last b = .ok (some y)) (hx : FloatLike.isFinite x = true) (hy : FloatLike.isFinite y = true) :
    (binop addF A B).last (a, b) = .ok (some (x + y)) := by
  simp [ha, hb, bind, Except.bind, pure, Except.pure, assertFinite_ok hx, assertFinite_ok hy, addF]

theorem sub_last (A B : View α) (a : A.σ) (b : B.σ) (x y : α) (ha : A.last a = .ok (some x))
    (hb : B.last b = .ok (some y)) (hx : FloatLike.isFinite x = true) (hy : FloatLike.isFinite y = true) :
    (binop subF A B).last (a, b) = .ok (some (x - y)) := by
  simp [ha, hb, bind, Except.bind, pure, Except.pure, assertFinite_ok hx, assertFinite_ok hy, subF]

theorem mul_last (A B : View α) (a : A.σ) (b : B.σ) (x y : α) (ha : A.last a = .ok (some x))
    (hb : B.last b = .ok (some y)) (hx : FloatLike.isFinite x = true) (hy : FloatLike.isFinite y = true) :
    (binop mulF A B).last (a, b) = .ok (some (x * y)) := by
  simp [ha, hb, bind, Except.bind, pure, Except.pure, assertFinite_ok hx, assertFinite_ok hy, mulF]

/-- `Divide` (divisor non-zero, as the property's domain says; a zero divisor is the `debug_assert_ne!`) -/
theorem div_last (A B : View α) (a : A.σ) (b : B.σ) (x y : α) (ha : A.last a = .ok (some x))
    (hb : B.last b = .ok (some y)) (hx : FloatLike.isFinite x = true) (hy : FloatLike.isFinite y = true)
    (hy0 : (y == (nat 0 : α)) = false) :
    (binop divF A B).last (a, b) = .ok (some (x / y)) := by
  simp [ha, hb, bind, Except.bind, pure, Except.pure, assertFinite_ok hx, assertFinite_ok hy, divF, hy0]

theorem div_last_zero (A B : View α) (a : A.σ) (b : B.σ) (x y : α) (ha : A.last a = .ok (some x))
    (hb : B.last b = .ok (some y)) (hx : FloatLike.isFinite x = true) (hy : FloatLike.isFinite y = true)
    (hy0 : (y == (nat 0 : α)) = true) :
    (binop divF A B).last (a, b) = .error .debugAssert := by
  simp [ha, hb, bind, Except.bind, assertFinite_ok hx, assertFinite_ok hy, divF, hy0]
  rfl

/-- a binary node reports nothing as soon as one child reports nothing -/
theorem bin_last_none (f : α → α → M α) (A B : View α) (a : A.σ) (b : B.σ) (oa ob : Option α)
    (ha : A.last a = .ok oa) (hb : B.last b = .ok ob) (h : oa = none ∨ ob = none) :
    (binop f A B).last (a, b) = .ok none := by
  cases oa <;> cases ob <;> simp [ha, hb, bind, Except.bind, pure, Except.pure] at h ⊢

/-- statelessness: two states of a binary node in which the children give the same current answers give the same answer -/
theorem bin_stateless (f : α → α → M α) (A B : View α) (a a' : A.σ) (b b' : B.σ)
    (ha : A.last a = A.last a') (hb : B.last b = B.last b') :
    (binop f A B).last (a, b) = (binop f A B).last (a', b') := by
  simp [binop, ha, hb]
end binops

section tanh
variable [Transc α]
/-- `Tanh` reports `tanh` of its child's current output -/
theorem tanh_last (A : View α) (a : A.σ) (v : α) (h : A.last a = .ok (some v)) (hv : FloatLike.isFinite v = true) :
    (mapV Transc.tanh A).last a = .ok (some (Transc.tanh v)) := by
  simp [h, bind, Except.bind, pure, Except.pure, assertFinite_ok hv]

theorem tanh_last_none (A : View α) (a : A.σ) (h : A.last a = .ok none) :
    (mapV Transc.tanh A).last a = .ok none := by
  simp [h, bind, Except.bind, pure, Except.pure]

theorem tanh_stateless (f : α → α) (A : View α) (a a' : A.σ) (h : A.last a = A.last a') :
    (mapV f A).last a = (mapV f A).last a' := by
  simp [mapV, h]
end tanh

section clip
variable [LE α] [DecidableLE α]

/-- `GTE`: after being delivered `v` (whatever came before) the answer is `max(v, clip)` -/
theorem gte_step (clip : α) (s : Option α) (v : α) :
    (gteCore clip).step s v = .ok (some (if clip ≤ v then v else clip)) := by
  simp only [gteCore]; split <;> rfl

theorem lte_step (clip : α) (s : Option α) (v : α) :
    (lteCore clip).step s v = .ok (some (if v ≤ clip then v else clip)) := by
  simp only [lteCore]; split <;> rfl

theorem gte_out (clip : α) (s : Option α) : (gteCore clip).out s = .ok s := rfl
theorem lte_out (clip : α) (s : Option α) : (lteCore clip).out s = .ok s := rfl

/-- no earlier value can influence `GTE`/`LTE`: the new state does not depend on the old one -/
theorem gte_memoryless (clip : α) (s s' : Option α) (v : α) :
    (gteCore clip).step s v = (gteCore clip).step s' v := by rw [gte_step, gte_step]
theorem lte_memoryless (clip : α) (s s' : Option α) (v : α) :
    (lteCore clip).step s v = (lteCore clip).step s' v := by rw [lte_step, lte_step]
end clip

/-- `Echo` reports the latest input -/
theorem echo_upd (s : Option α) (x : α) (hx : FloatLike.isFinite x = true) :
    (echoV (α := α)).upd s x = .ok (some x) := by
  simp [echoV, assertFinite_ok hx, bind, Except.bind, pure, Except.pure]
theorem echo_last (s : Option α) : (echoV (α := α)).last s = .ok s := rfl

/-- `Constant` always reports its constant, whatever it is fed -/
theorem const_run (c : α) (xs : List α) : (constV c).run () xs = .ok () := by
  induction xs with
  | nil => rfl
  | cons x xs ih => simpa [View.run, constV, bind, Except.bind, pure, Except.pure] using ih
theorem const_last (c : α) : (constV c).last () = .ok (some c) := rfl

end SF.C14

namespace SF.C14.Example
open SF
instance : FloatLike Int := ⟨fun _ => true, fun _ => false, 0, 0⟩
/-- the hypotheses are met by concrete states: Echo children holding 7 and 2 -/
example : (binop (α := Int) divF echoV echoV).last (some 7, some 2) = .ok (some 3) :=
  div_last echoV echoV (some 7) (some 2) 7 2 rfl rfl rfl rfl rfl
end SF.C14.Example
