import SF.Lemmas.Sma
import SF.Lemmas.Cum
import SF.Lemmas.MinMax
import SF.Lemmas.Welford
import SF.Lemmas.Hln
import SF.Lemmas.Roc
import SF.Lemmas.Bent
/-
  C02 — Window statistics equal their definition over exactly the last N values.
  Each theorem: for every window length N ≥ 1 and every finite history `xs` (any length, any values: ties, zeros,
  negatives), running the model's state machine over `xs` does not panic and then reports exactly `Spec.<view> N xs`,
  a function of `lastN N xs` only — no older value contributes, no value of the window is missed.  Before N values the
  window is "all values so far" (`lastN N xs = xs`).  Scalars: any linearly ordered field ("real arithmetic");
  `sqrt` is the scalar's own (uninterpreted), so at `ℝ` it is `Real.sqrt`.
-/
namespace SF.C02
open SF
set_option linter.unusedSectionVars false
variable {α : Type} [Field α] [LinearOrder α] [IsStrictOrderedRing α] [FloatLike α] [ExactScalar α]

/-- Sma is the arithmetic mean of exactly the N most recent values, from the N-th value on (nothing before) -/
theorem sma_eq (N : Nat) (hN : 0 < N) (xs : List α) :
    (smaCore (α := α) N).outAfter xs = .ok (Spec.sma N xs) := Sma.outAfter_eq N hN xs

/-- the spec, unfolded: mean of `lastN N xs` once `N` values exist -/
theorem sma_spec (N : Nat) (xs : List α) (h : N ≤ xs.length) :
    Spec.sma N xs = some (Spec.sumL (Spec.lastN N xs) / (N : α)) := by
  have : ¬ xs.length < N := by omega
  simp [Spec.sma, this, Spec.lastN_length, Nat.min_eq_left h]

theorem sma_spec_none (N : Nat) (xs : List α) (h : xs.length < N) : Spec.sma (α := α) N xs = none := by
  simp [Spec.sma, h]

/-- Cumulative is the sum of exactly the N most recent values (all values so far before that) -/
theorem cumulative_eq (N : Nat) (hN : 0 < N) (xs : List α) :
    (cumCore (α := α) N).outAfter xs = .ok (Spec.cumulative N xs) := Cum.outAfter_eq N hN xs

/-- Min / Max are the extrema of exactly the N most recent values -/
theorem min_eq (N : Nat) (hN : 0 < N) (xs : List α) :
    (minCoreU (α := α) N).outAfter xs = .ok (Spec.wmin N xs) := MinMax.min_outAfter_eq N hN xs
theorem max_eq (N : Nat) (hN : 0 < N) (xs : List α) :
    (maxCoreU (α := α) N).outAfter xs = .ok (Spec.wmax N xs) := MinMax.max_outAfter_eq N hN xs

/-- what "extremum of the window" means: an element of the window below (above) all others -/
theorem wmin_spec (N : Nat) (xs : List α) (m : α) (h : Spec.wmin N xs = some m) :
    m ∈ Spec.lastN N xs ∧ ∀ x ∈ Spec.lastN N xs, m ≤ x := MinMax.minL_least _ m h
theorem wmax_spec (N : Nat) (xs : List α) (m : α) (h : Spec.wmax N xs = some m) :
    m ∈ Spec.lastN N xs ∧ ∀ x ∈ Spec.lastN N xs, x ≤ m := MinMax.maxL_greatest _ m h

/-- HLNormalizer is 2(x − min)/(max − min) − 1 (0 when max = min) with min, max, x taken over exactly the N most recent
values: the cached extrema are refreshed whenever the evicted value was one of them -/
theorem hln_eq (N : Nat) (hN : 0 < N) (xs : List α) :
    (hlnCore (α := α) N).outAfter xs = .ok (Spec.hln N xs) := Hln.outAfter_eq N hN xs

/-- Roc is 100(x_t − x_{t−N})/x_{t−N}; the base is the first value while fewer than N+1 values exist; the previous output
is held when the base is 0 -/
theorem roc_eq (N : Nat) (hN : 0 < N) (xs : List α) :
    (rocCore (α := α) N).outAfter xs = .ok (Spec.roc N xs) := Roc.outAfter_eq N hN xs

/-- one step of the definition, unfolded: appending x to a history `x0 :: r` -/
theorem roc_spec_step (N : Nat) (x0 : α) (r : List α) (x : α) :
    Spec.roc N (x0 :: r ++ [x]) =
      (let hist := x0 :: r ++ [x]
       let t := hist.length - 1
       let base := if N ≤ t then hist[t - N]?.getD x0 else x0
       if base == nat 0 then Spec.roc N (x0 :: r) else some (nat 100 * (x - base) / base)) := by
  have e : x0 :: r ++ [x] = x0 :: (r ++ [x]) := rfl
  rw [e, Roc.roc_eq_fold N x0 (r ++ [x]), Roc.roc_eq_fold N x0 r, ← e, List.foldl_append]
  simp only [List.foldl_cons, List.foldl_nil, Roc.stepR]
  rw [Roc.fold_hist]; simp

section welford
variable [Transc α]

/-- BinaryEntropy is the Shannon entropy in bits of the fraction of non-negative values among the last N -/
theorem entropy_eq (N : Nat) (hN : 0 < N) (xs : List α) :
    (bentCore (α := α) N).outAfter xs = .ok (Spec.entropy N xs) := Bent.outAfter_eq N hN xs

/-- WelfordOnline: after any history the accessors `mean()` and `variance()` are the mean and the sample variance of
exactly the window, and `last()` is the sample standard deviation (nothing before N−1 values) -/
theorem welford_state (N : Nat) (hN : 0 < N) (xs : List α) :
    ∃ s, (welfordCoreU (α := α) N).run (welfordCoreU (α := α) N).init xs = .ok s ∧
      s.mean = Spec.welfordMean N xs ∧ s.variance = Spec.sampleVar (Spec.lastN N xs) := by
  obtain ⟨s, hs, hi⟩ := Welford.run_ok (α := α) N hN xs
  exact ⟨s, hs, Welford.mean_eq N s xs hi, Welford.variance_eq N s xs hi⟩

theorem welford_last_eq (N : Nat) (hN : 0 < N) (xs : List α) :
    (welfordCoreU (α := α) N).outAfter xs = .ok (Spec.welford N xs) := Welford.outAfter_eq N hN xs

/-- Vst = x_t / std and Vsct = (x_t − mean) / std with that same windowed mean and std (x_t resp. 0 when std is 0) -/
theorem vst_eq (N : Nat) (hN : 0 < N) (xs : List α) :
    (vstCoreU (α := α) N).outAfter xs = .ok (Spec.vst N xs) := Welford.vst_outAfter_eq N hN xs
theorem vsct_eq (N : Nat) (hN : 0 < N) (xs : List α) :
    (vsctCoreU (α := α) N).outAfter xs = .ok (Spec.vsct N xs) := Welford.vsct_outAfter_eq N hN xs
end welford

/-- the constructors reject exactly `window_len = 0` for Min / Max / WelfordOnline / Vst / Vsct -/
theorem ctor_reject (α : Type) [Add α] [Sub α] [Mul α] [Div α] [Neg α] [NatCast α] [LT α] [DecidableLT α] [LE α]
    [DecidableLE α] [BEq α] [FloatLike α] [Transc α] :
    (∃ e, minCore (α := α) 0 = .error e) ∧ (∃ e, maxCore (α := α) 0 = .error e) ∧ (∃ e, welfordCore (α := α) 0 = .error e) :=
  ⟨⟨_, rfl⟩, ⟨_, rfl⟩, ⟨_, rfl⟩⟩

end SF.C02
