import SF.Lemmas.Sma
/-
  C02 — Window statistics equal their definition over exactly the last N values.
  Each theorem: for every window length N ≥ 1 and every finite history `xs` (any length, any values), running the
  model's state machine over `xs` does not panic and then reports exactly `Spec.<view> N xs`, a function of
  `lastN N xs` only — no older value contributes, no value of the window is missed.  Scalars: any linearly
  ordered field ("real arithmetic").
-/
namespace SF.C02
open SF
variable {α : Type} [Field α] [LinearOrder α] [IsStrictOrderedRing α] [FloatLike α] [ExactScalar α]

/-- Sma is the arithmetic mean of exactly the N most recent values, from the N-th value on (nothing before) -/
theorem sma_eq (N : Nat) (hN : 0 < N) (xs : List α) :
    (smaCore (α := α) N).outAfter xs = .ok (Spec.sma N xs) := Sma.outAfter_eq N hN xs

/-- the spec, unfolded: mean of `lastN N xs` once `N` values exist -/
theorem sma_spec (N : Nat) (hN : 0 < N) (xs : List α) (h : N ≤ xs.length) :
    Spec.sma N xs = some (Spec.sumL (Spec.lastN N xs) / (N : α)) := by
  have : ¬ xs.length < N := by omega
  simp [Spec.sma, this, Spec.lastN_length, Nat.min_eq_left h]

theorem sma_spec_none (N : Nat) (xs : List α) (h : xs.length < N) : Spec.sma (α := α) N xs = none := by
  simp [Spec.sma, h]

end SF.C02
