#!/usr/bin/env python3
"""tools/mk_audit.py — regenerate lean/SF/Audit/Cnn.lean from the `theorem` declarations of lean/SF/Props/Cnn.lean, so
that every property theorem is axiom-audited (`#print axioms`) by ./check.  Namespace-aware; `example`s and private
declarations are skipped.  Run after adding theorems to a Props file."""
import os, re, sys
V = os.path.dirname(os.path.dirname(os.path.abspath(__file__)))
P = os.path.join(V, "lean", "SF", "Props")
A = os.path.join(V, "lean", "SF", "Audit")

def theorems(path):
    ns, out = [], []
    in_comment = 0
    for line in open(path):
        s = line.strip()
        # crude block-comment tracking
        if in_comment:
            if "-/" in s:
                in_comment = 0
            continue
        if s.startswith("/-") and "-/" not in s:
            in_comment = 1
            continue
        m = re.match(r"namespace\s+(\S+)", s)
        if m:
            ns.append(m.group(1)); continue
        m = re.match(r"end\s+(\S+)", s)
        if m and ns and ns[-1] == m.group(1):
            ns.pop(); continue
        m = re.match(r"(?:@\[[^\]]*\]\s*)?(?:protected\s+)?(?:theorem|lemma)\s+([^\s:({\[]+)", s)
        if m:
            out.append(".".join(ns + [m.group(1)]))
    return out

def main():
    total = 0
    for f in sorted(os.listdir(P)):
        if not re.match(r"C\d\d\.lean$", f):
            continue
        pid = f[:-5]
        ths = theorems(os.path.join(P, f))
        with open(os.path.join(A, f), "w") as o:
            o.write("import SF.Props.%s\n" % pid)
            for t in ths:
                o.write("#print axioms %s\n" % t)
        total += len(ths)
        print(pid, len(ths))
    print("total", total)

if __name__ == "__main__":
    main()
