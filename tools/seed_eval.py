#!/usr/bin/env python3
"""tools/seed_eval.py <id> [--checks C01,C05,...]
Confirm a seeded change produced by a sub-agent in /tmp/mut/<id>/out (patch.diff, demo.rs, README.txt, meta.txt) in a fresh
scratch worktree of /repo's HEAD (tests pass with it; demo fails with it and passes without), store it under
/verif/seeded/<id>/, then apply it to /repo, run the quick checks, record which report a violation, and undo it."""
import sys, os, subprocess, json, shutil, time
V = os.path.dirname(os.path.dirname(os.path.abspath(__file__)))
ENV = dict(os.environ, CARGO_NET_OFFLINE="true")

def sh(cmd, cwd=None, timeout=3600):
    r = subprocess.run(cmd, shell=True, cwd=cwd, env=ENV, capture_output=True, text=True, timeout=timeout)
    return r.returncode, r.stdout + r.stderr

def main():
    sid = sys.argv[1]
    src = "/tmp/mut/%s/out" % sid
    if len(sys.argv) > 2 and sys.argv[2] == "--from":
        src = sys.argv[3]
    checks = None
    meta_only = "--recheck" in sys.argv   # skip the confirmation stage (already recorded), re-run the checks only
    for a in sys.argv[2:]:
        if a.startswith("--checks="):
            checks = a.split("=")[1].split(",")
    dst = os.path.join(V, "seeded", sid)
    os.makedirs(dst, exist_ok=True)
    for f in ("patch.diff", "demo.rs", "README.txt", "meta.txt"):
        if os.path.exists(os.path.join(src, f)):
            shutil.copy(os.path.join(src, f), os.path.join(dst, f))
    meta = {"id": sid, "ran": []}
    if meta_only and os.path.exists(os.path.join(dst, "eval.json")):
        meta = json.load(open(os.path.join(dst, "eval.json")))
    else:
        wt = "/tmp/confirm_%s" % sid
        sh("git -C /repo worktree remove --force %s" % wt)
        rc, out = sh("git -C /repo worktree add --detach %s HEAD" % wt)
        assert rc == 0, out
        try:
            os.makedirs(wt + "/examples", exist_ok=True)
            shutil.copy(os.path.join(dst, "demo.rs"), wt + "/examples/seed_demo.rs")
            rc0, out0 = sh("cargo run --offline --quiet --example seed_demo", cwd=wt)
            meta["demo_without_change"] = "pass" if rc0 == 0 else "FAIL rc=%d" % rc0
            rc, out = sh("git apply %s" % os.path.join(dst, "patch.diff"), cwd=wt)
            meta["patch_applies"] = rc == 0
            if rc != 0:
                meta["apply_error"] = out[-500:]
            rc1, out1 = sh("cargo run --offline --quiet --example seed_demo", cwd=wt)
            meta["demo_with_change"] = "fails (rc=%d)" % rc1 if rc1 != 0 else "PASSES"
            meta["demo_failure_message"] = [l for l in out1.split("\n") if "panicked" in l or "MISMATCH" in l or "assert" in l][:3]
            os.remove(wt + "/examples/seed_demo.rs")
            rc2, out2 = sh("cargo test --workspace --no-fail-fast --offline 2>&1 | grep -E '^test result' | head -1", cwd=wt)
            meta["test_suite_with_change"] = out2.strip()
            meta["ran"] += ["cargo run --example seed_demo (without / with patch)", "cargo test --workspace --no-fail-fast --offline (with patch)"]
        finally:
            sh("git -C /repo worktree remove --force %s" % wt)
            shutil.rmtree(wt, ignore_errors=True)
    # now against the checks
    iso = "--iso" in sys.argv
    caught = dict(meta.get("checks", {})) if meta_only else {}
    if iso:
        # isolated: a scratch worktree with the patch + a scratch copy of the harness built against it (several seeds can be
        # evaluated at the same time and /repo stays untouched); the checks read VERIF_REPO_DIR / VERIF_HARNESS_DIR
        slot = "/tmp/slot_%s" % sid
        shutil.rmtree(slot, ignore_errors=True)
        os.makedirs(slot)
        sh("git -C /repo worktree remove --force %s/repo" % slot)
        rc, out = sh("git -C /repo worktree add --detach %s/repo HEAD" % slot)
        assert rc == 0, out
        rc, out = sh("git apply %s" % os.path.join(dst, "patch.diff"), cwd=slot + "/repo")
        assert rc == 0, out
        shutil.copytree(os.path.join(V, "harness"), slot + "/harness", ignore=shutil.ignore_patterns("target"))
        ct = open(slot + "/harness/Cargo.toml").read().replace('path = "/repo"', 'path = "%s/repo"' % slot)
        open(slot + "/harness/Cargo.toml", "w").write(ct)
        envp = "VERIF_REPO_DIR=%s/repo VERIF_HARNESS_DIR=%s/harness " % (slot, slot)
    else:
        rc, out = sh("git -C /repo status --short -- src")
        assert out.strip() == "", "repo not clean: " + out
        rc, out = sh("git -C /repo apply %s" % os.path.join(dst, "patch.diff"))
        assert rc == 0, out
        envp = ""
    try:
        pids = checks or ["C%02d" % i for i in range(1, 19)]
        for pid in pids:
            t = time.time()
            # first pass without the deeper search (fast); the property the seed was written against gets the search as
            # well when the first pass misses it
            rc, out = sh(envp + ("" if "--search-all" in sys.argv else "VERIF_NO_SEARCH=1 ") + "./check %s --tier quick --no-evidence%s" % (pid, " --no-lean" if iso else ""), cwd=V)
            if not any(l.startswith("VIOLATION") and "no-failing-input-found" not in l for l in out.split("\n")) and pid == sid[:3]:
                rc, out = sh(envp + "./check %s --tier quick --no-evidence%s" % (pid, " --no-lean" if iso else ""), cwd=V)
                searched = True
            else:
                searched = False
            vio = [l for l in out.split("\n") if l.startswith("VIOLATION")]
            caught[pid] = {"exit": rc, "violation": vio[0] if vio else None, "wall_s": round(time.time() - t, 1), "with_search": searched}
            if vio:
                p = vio[0].split("replay=")[1].split(" ")[0]
                try:
                    r = json.load(open(p))
                    caught[pid]["explanation"] = (r.get("explanation") or r.get("what") or "")[:300]
                except Exception:
                    pass
    finally:
        if iso:
            sh("git -C /repo worktree remove --force %s/repo" % slot)
            shutil.rmtree(slot, ignore_errors=True)
        else:
            sh("git -C /repo checkout -- .")
            sh("git -C /repo clean -fdq -- src")   # files a patch added
    meta["checks"] = caught
    meta["caught_by"] = [p for p, c in caught.items() if c["violation"] and "no-failing-input-found" not in c["violation"]]
    meta["caught_by_correspondence_only"] = [p for p, c in caught.items() if c["violation"] and "no-failing-input-found" in c["violation"]]
    json.dump(meta, open(os.path.join(dst, "eval.json"), "w"), indent=1)
    print(sid, "demo without:", meta["demo_without_change"], "| with:", meta["demo_with_change"], "| tests:", meta["test_suite_with_change"])
    print("  caught by:", meta["caught_by"], " corr-only:", meta["caught_by_correspondence_only"])

main()
