#!/usr/bin/env python3
"""(re)generate MANIFEST.json from the table below (run by hand)."""
import json, os
V = os.path.dirname(os.path.dirname(os.path.abspath(__file__)))
TECH = "Lean 4 theorems about a hand-written executable model + differential correspondence (Rust harness vs Lean driver, f64 bit-level and exact rational) + exact relational oracles on the implementation"
P = {
 "C01": ("proof", "wrap_trace (any inner view, any core, any finite input): chain = inner alone then core over Echo fed its outputs; mapV/binop lemmas; denote_* cover every tree of the catalogue syntax. Tie: 216 chain-vs-decomposition runs bitwise at f64 on the implementation, binop relations, tree pattern correspondence.", "4 C01"),
 "C02": ("proof", "incremental state = batch statistic of exactly lastN N, by invariant over the op list, for Sma, Cumulative, Min, Max, WelfordOnline (mean, variance, last), Vst, Vsct; HLNormalizer, Roc, BinaryEntropy are decided by the exact spec-equality runs only (see level_note).", "4 C02"),
 "C03": ("proof", "suffix_determines for Sma, Cumulative, Min, Max, WelfordOnline, Vst, Vsct as corollaries of C02; the other views of the statement by exact two-history runs on the implementation at Q.", "4 C03"),
 "C04": ("proof", "Sma and Ema: interval, constant, monotone, affine; Ema = its recursion for every input; default weight in (0,1]. Alma: exact spec-equality and relational runs only.", "4 C04"),
 "C05": ("proof", "on the statement's definitions (Spec.rsi / myRsi): negation symmetry, monotone-window values, formula, ranges; state machine = definition decided by exact spec-equality runs (Lean proof of that step pending).", "4 C05"),
 "C06": ("proof", "on the statement's definitions: Kendall tau = ±1 on strictly monotone windows, sign flip, order-only, CoG constant window; K1 witness proved (CTI of 1,2,4 ≠ 1). state machine = definition by exact spec-equality runs.", "4 C06"),
 "C07": ("proof", "exact-arithmetic ranges: Min ≤ Sma,newest ≤ Max; GTE/LTE; Drawdown ∈ [0,1) non-decreasing; Tanh, Welford ≥ 0 at ℝ; Rsi, MyRSI, HLN on their definitions; K2 witness. f64 'few ulps' clause measured (known findings K3, K5).", "4 C07"),
 "C08": ("proof", "first-ready index and stability for Sma, Ema, Cumulative, Min, Max, Welford/Vst/Vsct, WelfordRolling, LnReturn from the characterisations; wrap_idle; binop readiness. All 38 views + chains by readiness relations on the implementation and pattern correspondence.", "4 C08"),
 "C09": ("proof", "Ema: BIBO with length-independent bound and geometric fading memory for every N; generic one-pole lemma; pole radius < 1 for both smoothers for every N (ℝ). Two-pole kernel bounds and normalised outputs: long bounded-stream / common-tail runs at f64 (partial).", "4 C09"),
 "C10": ("proof", "superposition for Sma, Cumulative, Ema (all a, b) + DC gain; the other five linear views by exact three-run relations on the implementation at Q.", "4 C10"),
 "C11": ("proof", "SuperSmoother = batch re-evaluation of its difference equation with the stated coefficients (register shuffling = plain delays), |4.4422 − 1.414π| < 2e-5; other eight views by exact spec-equality runs (implementation at Q vs Lean specs) for N from each minimum to 50.", "4 C11"),
 "C12": ("proof", "homogeneity of Sma/Ema/Cumulative, Min/Max under increasing maps and the Min/−Max swap, LnReturn and Drawdown scale invariance; remaining views by exact two-run relations at Q.", "4 C12"),
 "C13": ("proof", "WelfordRolling mean/variance/last, Drawdown (positive streams), LnReturn (non-zero streams) equal their batch definitions for every history.", "4 C13"),
 "C14": ("proof", "the nine pointwise equations and statelessness, for any scalar type (so bit-exact at Float).", "4 C14"),
 "C15": ("proof", "NoPanic for 14 cores for every accepted N and every stream, constructor rejections, closure under wrap/mapV (chains of any depth); all 38 views N=1..64 by no-panic runs on both builds and predicted-panic correspondence.", "4 C15"),
 "C16": ("other", "f64/f32 vs exact Q on the same Rust generic code, thresholds of the statement (measurement); exact half proved: no-drift invariants and flat-window answers. Known findings K3/K4.", "4 C16"),
 "C17": ("proof", "purity of last, clone independence, determinism for arbitrary interleavings (exec_main) for every view; tie: twin runs with repeated last()/clones on the implementation, source audit for interior mutability.", "4 C17"),
 "C18": ("proof", "size ≤ N for the windowed cores proved, 0 for bufferless cores, additivity along chains of any depth; tie: live heap bytes at L and 4L equal and consistent with the model's size.", "4 C18"),
}
checks = []
for pid, (cat, text, ref) in sorted(P.items()):
    checks.append({
        "property_id": pid,
        "quick_cmd": "./check %s --tier quick" % pid,
        "thorough_cmd": "./check %s --tier thorough" % pid,
        "evidence_file": "evidence/%s.json" % pid,
        "replay_cmd_template": "./check replay {path}",
        "engine": "lean-model-correspondence",
        "level_claimed": {"category": cat, "text": text, "design_ref": "DESIGN.md §" + ref},
        "level_note": "Trusted: Lean 4.33 kernel; axioms propext, Classical.choice, Quot.sound only (audited per theorem, no sorry/native_decide); Mathlib; the hand-written model SF/Model tied to /repo by a sampled differential correspondence (Rust harness, exact scalar Q with f64-bridged transcendentals, Lean compiler/runtime, libm); statements/specs as a reading of properties.jsonl. Modelled not verified: VecDeque/Vec as lists, usize as Nat, f64 by Lean Float, derive(Clone) as copy, the allocator. Parts of the statement not yet covered by a theorem are decided by exact runs of the implementation against executable specs and are listed in DESIGN.md.",
        "technique": TECH,
    })
m = {
 "version": 1,
 "setup_cmd": "./setup.sh",
 "hooks": {"guard": "sliding_features_verif", "enable": "none needed: every observation uses the crate's public API (update, last, mean, variance, Clone), catch_unwind and the process allocator", 
           "baseline_off_cmd": "cd /repo && cargo test --workspace --no-fail-fast --offline", "source_commits": [], "add_only": True},
 "engines": [{"name": "lean-model-correspondence", "path": "check", "serves_properties": sorted(P),
              "kind_free_text": "Lean 4 project /verif/lean (model, specs, theorems, driver) + Rust harness /verif/harness over /repo + Python orchestrator"}],
 "checks": checks,
 "notes": "fix: commits in /repo are listed in known_findings.json (status fixed); known findings K1-K5 there with stored witnesses.",
 "not_applicable": [],
}
json.dump(m, open(os.path.join(V, "MANIFEST.json"), "w"), indent=1)
print("ok", len(checks))
