#!/usr/bin/env python3
"""(re)generate MANIFEST.json from the table below (run by hand)."""
import json, os
V = os.path.dirname(os.path.dirname(os.path.abspath(__file__)))
TECH = "Lean 4 theorems about a hand-written executable model; tie to the code: (1) translator tools/rs2lean.py regenerates Lean definitions from the Rust text of 27 of the 38 views on every run and kernel-checked theorems SF.GenEq.<View>.tie prove them equal to the model on every input, (2) differential correspondence for all 38 views (Rust harness vs Lean driver, f64 bit-level and exact rational); + exact relational oracles on the implementation"
P = {
 "C01": ("proof", "wrap_trace (ANY inner view, ANY core, any finite input): the chain's answers = the core over Echo fed exactly what the stand-alone inner view reported; wrap_run_fst (every raw input reaches the inner view once, in order); mapV/binop lemmas (value iff both children); denote_* for every tree of the catalogue. Tie: chain-vs-decomposition runs bitwise at f64 on the implementation (all wrappers x inner views incl. relapsing probes, domain-mapping inner views under LnReturn/Drawdown), binop relations, tree pattern correspondence.", "A4 C01"),
 "C02": ("proof", "state machine = batch statistic over exactly lastN N for EVERY view of the statement (Sma, Cumulative, Min, Max, WelfordOnline mean/variance/last, Vst, Vsct, HLNormalizer, Roc, BinaryEntropy), every N and every history, by invariant over the operation list. Tie: exact spec-equality runs incl. exhaustive small scope (all streams of length 6 over a 3-letter alphabet, N=1,2,3), long histories 10^3..10^5 vs short suffix, outlier-leaves-window (f64), tiny/huge/level units.", "A4 C02"),
 "C03": ("proof", "suffix-determination proved for all seventeen views of the statement (K = N; N+1 Rsi/MyRSI/Roc non-held; 2N Alma; N+M-1 PFE over Sma(M)). Tie: exact two-history runs, long-prefix runs (10^3..10^5 values), outlier prefixes at f64 for the views that recompute from the window.", "A4 C03"),
 "C04": ("proof", "Ema = its recursion for every input, Alma = normalised Gaussian weighted mean (alma_eq), Sma; interval / constant / monotone / affine for Sma, Ema and for any positive-weight mean (Alma, weights positive at R); default weight in (0,1]. Tie: exact relations and spec-equality runs.", "A4 C04"),
 "C05": ("proof", "Rsi and MyRSI state machines = the statement's G/L definitions for every N and history (rsi_eq, myrsi_eq; the D16/D17 clamps are the identity under the invariant); negation symmetry, monotone windows, formula, ranges. Tie: exact spec-equality incl. exhaustive small scope and 10^5-value histories.", "A4 C05"),
 "C06": ("proof", "CTI = Pearson on a full window, NET = Kendall over all n(n-1)/2 pairs (double loop visits each pair once), CoG formula; +-1 on monotone windows (NET) and on every affine window (CTI, all N>=2); sign flip, order-only, CoG constant; K1: the 'CTI=+1 on any increasing window' clause is refuted by a proved witness.", "A4 C06"),
 "C07": ("proof", "exact-arithmetic ranges for every view of the statement: Min<=Sma,Alma,newest<=Max; GTE/LTE; Drawdown; Tanh; Welford>=0; Rsi, MyRSI, HLN, NET, CoG, LaguerreRSI, BinaryEntropy, CTI (Cauchy-Schwarz), Vsct (Samuelson), |Fisher|<=ln199 at view level; K2 witness (PFE). f64 'few ulps' clause measured (K5). Tie: exact range relations stand-alone and chained over inner views.", "A4 C07"),
 "C08": ("proof", "first-ready index + stability for Sma, Ema, Cumulative, Min, Max, Welford/Vst/Vsct, WelfordRolling, LnReturn, Rsi, MyRSI, SuperSmoother, Roofing, Alma, CoG, entropy, LaguerreFilter, NET, CyberCycle, TrendFlex; LaguerreRSI readiness never reverts; one-step ReadyStable from any state for 15 cores and its closure under wrap / Tanh; wrap_idle. Tie: readiness relations at Q, f64 and f32 (zero-heavy streams, negative zeros), pattern correspondence on chains. Finite values at f64/f32 are measured (D18 found here).", "A4 C08"),
 "C09": ("proof", "BIBO with length-independent bounds for Ema, SuperSmoother, flex smoother, CyberCycle, RoofingFilter (pole inside the unit circle for every N>=2), LaguerreFilter; |TrendFlex|,|ReFlex|<=5; geometric fading memory for Ema, SuperSmoother, CyberCycle, LaguerreFilter, RoofingFilter (cascade of two contracting sections); BIBO composes along chains (chain_bibo, any inner view, any core). Normalised outputs: long common-tail runs at f64 (K8: the clause fails for TrendFlex/ReFlex with N>=445 on constant tails).", "A4 C09"),
 "C10": ("proof", "superposition for all eight views of the statement; DC gain 1 of the low-pass ones; constant input: SuperSmoother -> c, RoofingFilter -> 0, CyberCycle -> 0 geometrically for all window lengths. Tie: exact three-run relations (incl. chains of linear views, tiny/huge units).", "A4 C10"),
 "C11": ("proof", "all nine views = batch re-evaluation of their difference equations with the stated coefficients, for every accepted N and every history; EFT and PFE for ANY moving-average view realising a batch function. Tie: exact spec-equality runs (any moving average incl. overshooting ones), outlier runs for PFE.", "A4 C11"),
 "C12": ("proof", "invariance / homogeneity / negation theorems for every view of the statement (linear filters via superposition; HLN, NET, Vsct, CTI, EFT affine; Rsi, MyRSI, LaguerreRSI, Vst, Roc, CoG, entropy, TrendFlex, ReFlex, LnReturn, Drawdown scale; Min/-Max swap). Tie: exact two-run relations in units 2^+-30..60 and large offsets.", "A4 C12"),
 "C13": ("proof", "WelfordRolling mean/variance/last, Drawdown, LnReturn equal their batch definitions for every history. Tie: exact spec-equality (incl. Default-constructed views, tiny/level units), long f64 runs.", "A4 C13"),
 "C14": ("proof", "the nine pointwise equations and statelessness for any scalar type (so bit-exact at Float). Tie: pointwise relations bit for bit against IEEE arithmetic (extreme units, fine tanh grid, Echo on special bit patterns).", "A4 C14"),
 "C15": ("proof", "NoPanic for every core of the catalogue for every accepted N and every stream (EFT/PFE for any realising average), constructor rejections exactly characterised (incl. Alma's kernel check, fix D18), closure under wrap/mapV/Add/Subtract/Multiply; Divide panics iff the divisor is 0. Tie: no-panic runs on both builds at f64 and f32, predicted-panic correspondence.", "A4 C15"),
 "C16": ("other", "f64/f32 vs exact Q on the same Rust generic code, thresholds of the statement (measurement, not proof: IEEE rounding is outside the theorems); exact half proved: no-drift invariants and flat-window answers. Known findings K3/K4/K5/K7.", "A4 C16"),
 "C17": ("proof", "purity of last, clone independence, determinism for arbitrary interleavings for every view tree. Tie: twin runs with repeated last()/clones at systematic moments, clone hops in every other property's jobs, Bracket jobs (same view before/after other scalar types and windows ran in the thread), source audit for interior mutability / globals.", "A4 C17"),
 "C18": ("proof", "size <= N (resp. a constant) for every windowed core incl. EFT/PFE, 0 for bufferless cores, additivity along chains of any depth. Tie: live heap bytes at L and 4L equal for all views and domain-safe random chains.", "A4 C18"),
}
checks = []
for pid, (cat, text, ref) in sorted(P.items()):
    checks.append({
        "property_id": pid,
        "quick_cmd": "./check %s --tier quick" % pid,
        "thorough_cmd": "./check %s --tier thorough" % pid,
        "evidence_file": "evidence/%s.json" % pid,
        "replay_cmd_template": "./check replay {path}",
        "engine": "lean-model-correspondence",
        "level_claimed": {"category": cat, "text": text, "design_ref": "DESIGN.md " + ref},
        "level_note": "Trusted: Lean 4.33 kernel; axioms propext, Classical.choice, Quot.sound only (audited per theorem, no sorry/native_decide); Mathlib; the hand-written model SF/Model tied to /repo (a) for 27 of the 38 views by the translator tools/rs2lean.py (trusted: its reading of the Rust subset -- VecDeque/Vec as lists, usize as checked Nat, the std functions of SF/GenPrelude.lean) plus kernel-checked equality theorems SF.GenEq.*.tie re-checked on every run, (b) for all views by a sampled differential correspondence (Rust harness, exact scalar Q with f64-bridged transcendentals, Lean compiler/runtime, libm); statements/specs as a reading of properties.jsonl. Modelled not verified: VecDeque/Vec as lists, usize as Nat, f64 by Lean Float, derive(Clone) as copy, the allocator. Parts of the statement not yet covered by a theorem are decided by exact runs of the implementation against executable specs and are listed in DESIGN.md.",
        "technique": TECH,
    })
m = {
 "version": 1,
 "setup_cmd": "./setup.sh",
 "hooks": {"guard": "sliding_features_verif", "enable": "none needed: every observation uses the crate's public API (update, last, mean, variance, Clone), catch_unwind and the process allocator", 
           "baseline_off_cmd": "cd /repo && cargo test --workspace --no-fail-fast --offline", "source_commits": [], "add_only": True},
 "engines": [{"name": "lean-model-correspondence", "path": "check", "serves_properties": sorted(P),
              "kind_free_text": "Lean 4 project /verif/lean (model, specs, theorems, driver) + Rust harness /verif/harness over /repo + Python orchestrator"}],
 "checks": checks,
 "notes": "fix: commits in /repo are listed in known_findings.json (status fixed); known findings K1-K8 there with stored witnesses; seeded/ holds 120+ sub-agent changes (seven waves of property-breaking seeds, 14 harmless rewrites) with their evaluations.",
 "not_applicable": [],
}
json.dump(m, open(os.path.join(V, "MANIFEST.json"), "w"), indent=1)
print("ok", len(checks))
