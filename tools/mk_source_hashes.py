#!/usr/bin/env python3
"""tools/mk_source_hashes.py — record the sha256 of every file of /repo/src (working tree) in /verif/source_hashes.json.
Run after every `fix:` commit in /repo.  The checks compare /repo's current sources with this table: a file that differs is
one the model has not been validated against, and the views it implements get a deeper search (pylib/core.source_focus)."""
import sys, os, json
sys.path.insert(0, os.path.dirname(os.path.dirname(os.path.abspath(__file__))))
from pylib import core
h = core.source_hashes()
json.dump(dict(note="sha256 of /repo/src/**.rs at the state the model was last validated against (written by tools/mk_source_hashes.py)",
               files=h), open(os.path.join(core.VERIF, "source_hashes.json"), "w"), indent=1, sort_keys=True)
print(len(h), "files")
