#!/usr/bin/env python3
"""tools/rs2lean.py [--repo DIR] [--out DIR] [View ...]

Translator tie: regenerate Lean definitions from the Rust source of /repo (current working tree).

For each supported view the translator parses the struct, its constructor(s), its helper methods and its
`impl View<T>` (`update`, `last`) out of src/**/*.rs and emits `SF/Gen/<View>.lean`: a shallow embedding of that Rust text
in Lean's `do` notation over the panic monad `M = Except Err` of SF/Basic.lean -- `&mut self` becomes a `let mut self`,
`VecDeque`/`Vec` become `List` (front = head), `usize` becomes `Nat` with checked subtraction, every `unwrap/expect`,
index and `debug_assert!` becomes the corresponding failing operation, child views are abstract `View α` parameters.
Nothing in the output is taken from the hand-written model; `SF/GenEq/<View>.lean` (hand-written, kernel-checked) proves
that the generated view and the model's view produce the same trace on every input for every child view.

The Rust subset is small (what this crate uses).  Anything outside it raises `Unsupported`, and the view is reported as
`untranslatable` (the tie for that view is then the differential correspondence only).
"""
import re, sys, os, json, hashlib

class Unsupported(Exception):
    pass

# ------------------------------------------------------------------------------------------------ lexer
TOK = re.compile(r"""
    (?P<ws>\s+)
  | (?P<num>\d[\d_]*\.\d+(?:[eE][+-]?\d+)?|\d[\d_]*(?:[eE][+-]?\d+)?(?:usize|u32|u64|i32|i64|f64|f32)?)
  | (?P<str>"(?:[^"\\]|\\.)*")
  | (?P<id>[A-Za-z_][A-Za-z0-9_]*!?)
  | (?P<op>::|->|=>|==|!=|<=|>=|&&|\|\||\+=|-=|\*=|/=|\.\.|[-+*/%=<>!&|.,;:(){}\[\]?#])
""", re.X)

def strip_comments(src):
    src = re.sub(r"/\*.*?\*/", " ", src, flags=re.S)
    out = []
    for line in src.split("\n"):
        # no string literal in this crate contains `//`
        i = line.find("//")
        out.append(line if i < 0 else line[:i])
    return "\n".join(out)

def lex(src):
    toks, i = [], 0
    while i < len(src):
        m = TOK.match(src, i)
        if not m:
            raise Unsupported("lexer: %r" % src[i:i + 20])
        i = m.end()
        k = m.lastgroup
        if k == "ws":
            continue
        toks.append((k, m.group(k)))
    return toks

# ------------------------------------------------------------------------------------------------ parser
class P:
    def __init__(self, toks):
        self.t, self.i = toks, 0
    def peek(self, k=0):
        return self.t[self.i + k] if self.i + k < len(self.t) else ("eof", "")
    def at(self, v, k=0):
        return self.peek(k)[1] == v
    def next(self):
        x = self.peek(); self.i += 1; return x
    def eat(self, v):
        if not self.at(v):
            raise Unsupported("expected %r, found %r (token %d)" % (v, self.peek()[1], self.i))
        self.i += 1
    def opt(self, v):
        if self.at(v):
            self.i += 1; return True
        return False

    # ---- types (kept as strings)
    def ty(self):
        s = ""
        depth = 0
        while True:
            k, v = self.peek()
            if depth == 0 and v in (",", ";", "{", ")", "=", "where") or k == "eof":
                break
            if v == ">" and depth == 0:
                break
            if v == "<": depth += 1
            if v == ">": depth -= 1
            if v == "(": depth += 1
            if v == ")": depth -= 1
            s += v
            self.i += 1
        return s

    # ---- patterns
    def pat(self):
        k, v = self.peek()
        if v == "(":
            self.eat("("); ps = []
            while not self.at(")"):
                ps.append(self.pat()); self.opt(",")
            self.eat(")")
            return ("ptuple", ps)
        if v == "_":
            self.next(); return ("pwild",)
        if v == "Some":
            self.next(); self.eat("("); p = self.pat(); self.eat(")")
            return ("psome", p)
        if v == "None":
            self.next(); return ("pnone",)
        if v in ("mut", "ref", "&"):
            self.next(); return self.pat()
        if k == "id":
            self.next(); return ("pvar", v)
        raise Unsupported("pattern %r" % v)

    # ---- expressions
    BIN = {"||": 1, "&&": 2, "==": 3, "!=": 3, "<": 3, ">": 3, "<=": 3, ">=": 3, "+": 5, "-": 5, "*": 6, "/": 6, "%": 6}

    def expr(self, nostruct=False, minp=0):
        lhs = self.unary(nostruct)
        while True:
            k, v = self.peek()
            if v in self.BIN and self.BIN[v] >= minp and k == "op":
                p = self.BIN[v]
                self.next()
                rhs = self.expr(nostruct, p + 1)
                lhs = ("bin", v, lhs, rhs)
            else:
                return lhs

    def unary(self, nostruct):
        k, v = self.peek()
        if v == "-":
            self.next(); return ("neg", self.unary(nostruct))
        if v == "!":
            self.next(); return ("not", self.unary(nostruct))
        if v == "*":
            self.next(); return ("deref", self.unary(nostruct))
        if v == "&":
            self.next(); self.opt("mut"); return self.unary(nostruct)
        return self.postfix(self.primary(nostruct), nostruct)

    def args(self):
        self.eat("("); a = []
        while not self.at(")"):
            a.append(self.expr()); self.opt(",")
        self.eat(")")
        return a

    def postfix(self, e, nostruct):
        while True:
            k, v = self.peek()
            if v == ".":
                self.next()
                k2, name = self.next()
                if k2 == "num":
                    e = ("tupidx", e, int(name)); continue
                if self.at("("):
                    e = ("mcall", e, name, self.args())
                else:
                    e = ("field", e, name)
            elif v == "[":
                self.next(); ix = self.expr(); self.eat("]")
                e = ("index", e, ix)
            elif v == "?":
                self.next(); e = ("try", e)
            elif v == "(" and e[0] == "path":
                e = ("call", e[1], self.args())
            else:
                return e

    def primary(self, nostruct):
        k, v = self.peek()
        if k == "num":
            self.next(); return ("num", v)
        if k == "str":
            self.next(); return ("str", v)
        if v == "(":
            self.next()
            if self.at(")"):
                self.next(); return ("unit",)
            e = self.expr()
            if self.at(","):
                es = [e]
                while self.opt(","):
                    if self.at(")"): break
                    es.append(self.expr())
                self.eat(")")
                return ("tuple", es)
            self.eat(")")
            return ("paren", e)
        if v == "if":
            return self.ifexpr()
        if v == "match":
            return self.matchexpr()
        if v == "{":
            return ("block", self.block())
        if v == "|":
            self.next(); ps = []
            while not self.at("|"):
                ps.append(self.pat())
                if self.opt(":"):
                    while not (self.at(",") or self.at("|")):
                        self.next()
                self.opt(",")
            self.eat("|")
            body = self.expr()
            return ("closure", ps, body)
        if v == "return":
            self.next()
            if self.at(";") or self.at("}"):
                return ("return", None)
            return ("return", self.expr())
        if k == "id":
            if v.endswith("!"):
                self.next()
                return ("macro", v[:-1], self.args())
            path = [v]; self.next()
            while self.at("::"):
                self.next()
                if self.at("<"):   # turbofish: skip
                    d = 0
                    while True:
                        _, w = self.next()
                        if w == "<": d += 1
                        if w == ">":
                            d -= 1
                            if d == 0: break
                    continue
                path.append(self.next()[1])
            if self.at("{") and not nostruct and path[-1][0].isupper():
                self.next(); fs = []
                while not self.at("}"):
                    name = self.next()[1]
                    if self.opt(":"):
                        fs.append((name, self.expr()))
                    else:
                        fs.append((name, ("path", [name])))
                    self.opt(",")
                self.eat("}")
                return ("struct", path, fs)
            return ("path", path)
        raise Unsupported("expression starting with %r" % v)

    def ifexpr(self):
        self.eat("if")
        if self.at("let"):
            self.next(); p = self.pat(); self.eat("="); sc = self.expr(nostruct=True)
            th = self.block()
            el = None
            if self.opt("else"):
                el = [("expr", self.ifexpr())] if self.at("if") else self.block()
            return ("iflet", p, sc, th, el)
        c = self.expr(nostruct=True)
        th = self.block()
        el = None
        if self.opt("else"):
            el = [("expr", self.ifexpr())] if self.at("if") else self.block()
        return ("if", c, th, el)

    def matchexpr(self):
        self.eat("match"); sc = self.expr(nostruct=True); self.eat("{")
        arms = []
        while not self.at("}"):
            pats = [self.pat()]
            while self.opt("|"):
                pats.append(self.pat())
            self.eat("=>")
            body = self.expr()
            self.opt(",")
            arms.append((pats, body))
        self.eat("}")
        return ("match", sc, arms)

    # ---- statements / blocks: a block is a list of statements; a trailing ("expr", e) without `;` is its value
    def block(self):
        self.eat("{"); ss = []
        while not self.at("}"):
            ss.append(self.stmt())
        self.eat("}")
        return ss

    def stmt(self):
        k, v = self.peek()
        if v == "let":
            self.next()
            p = self.pat()
            if self.opt(":"):
                self.ty()
            self.eat("=")
            e = self.expr()
            if self.opt("else"):
                el = self.block(); self.eat(";")
                return ("letelse", p, e, el)
            self.eat(";")
            return ("let", p, e)
        if v == "for":
            self.next(); p = self.pat(); self.eat("in"); it = self.expr(nostruct=True)
            if self.at(".."):
                self.next(); hi = self.expr(nostruct=True); it = ("range", it, hi)
            body = self.block()
            return ("for", p, it, body)
        e = self.expr()
        for op in ("=", "+=", "-=", "*=", "/="):
            if self.at(op):
                self.next(); r = self.expr()
                if not self.at("}"): self.eat(";")
                return ("assign", op, e, r)
        if self.opt(";"):
            return ("semi", e)
        if e[0] in ("if", "iflet", "match", "block") and not self.at("}"):
            return ("semi", e)      # block-like expression statement
        return ("expr", e)          # tail expression

# ------------------------------------------------------------------------------------------------ items
def find_matching(src, i, open_="{", close="}"):
    d = 0
    while i < len(src):
        if src[i] == open_: d += 1
        elif src[i] == close:
            d -= 1
            if d == 0: return i
        i += 1
    raise Unsupported("unbalanced")

def parse_file(path):
    src = open(path).read()
    cut = src.find("#[cfg(test)]")
    if cut >= 0: src = src[:cut]
    src = strip_comments(src)
    src = re.sub(r"#!?\[[^\]]*\]", " ", src)
    items = {"structs": {}, "fns": {}, "view_fns": {}, "consts": {}, "free_fns": {}}
    for m in re.finditer(r"\bstruct\s+(\w+)\s*(<[^>{]*>)?\s*(?:where[^{]*)?\{", src):
        name = m.group(1)
        gens = [g.strip().split(":")[0].strip() for g in (m.group(2) or "<>")[1:-1].split(",") if g.strip()]
        j = find_matching(src, m.end() - 1)
        p = P(lex(src[m.end():j])); fields = []
        while p.peek()[0] != "eof":
            p.opt("pub")
            if p.at("("):  # pub(crate)
                p.args()
            fname = p.next()[1]; p.eat(":"); fty = p.ty(); p.opt(",")
            fields.append((fname, fty))
        items["structs"][name] = {"generics": gens, "fields": fields}
    for m in re.finditer(r"\bimpl\b", src):
        j0 = src.find("{", m.end())
        header = src[m.end():j0]
        j1 = find_matching(src, j0)
        body = src[j0 + 1:j1]
        hm = re.search(r"(?:(\w+)\s*<[^>]*>\s+for\s+)?(\w+)\s*<", re.sub(r"^\s*<[^>]*(?:<[^>]*>[^>]*)*>", "", header))
        if not hm:
            continue
        trait, target = hm.group(1), hm.group(2)
        for fm in re.finditer(r"\bfn\s+(\w+)\s*\(", body):
            k = body.find("{", fm.end())
            sig = body[fm.end() - 1:k]
            k1 = find_matching(body, k)
            p = P(lex(sig)); p.eat("("); params = []
            while not p.at(")"):
                if p.at("&"):
                    p.next()
                if p.at("mut"):
                    p.next()
                nm = p.next()[1]
                if nm == "self":
                    params.append(("self", "Self"))
                else:
                    p.eat(":"); params.append((nm, p.ty()))
                p.opt(",")
            p.eat(")")
            ret = None
            if p.opt("->"):
                ret = p.ty()
            mutself = bool(re.match(r"\(\s*&\s*mut\s+self", sig))
            fn = {"name": fm.group(1), "params": params, "ret": ret, "mutself": mutself,
                  "body": P(lex(body[k:k1 + 1])).block(), "text": body[fm.start():k1 + 1]}
            if trait == "View":
                items["view_fns"].setdefault(target, {})[fn["name"]] = fn
            elif trait in (None,):
                items["fns"].setdefault(target, {})[fn["name"]] = fn
            elif trait == "Default":
                pass
    return items

# ------------------------------------------------------------------------------------------------ translation
FLOAT_CONSTS = {"PI": "piC"}   # std::f64::consts::PI, the model's name for the same double

class Tr:
    """translate one function body to Lean `do` lines"""
    def __init__(self, view, fn, ctx):
        self.view, self.fn, self.ctx = view, fn, ctx
        self.n = 0
        self.env = {}          # local name -> type
        self.alias = {}        # local name -> ("optmut", place)   from `as_mut()`
        self.lines = []
        self.ind = 1
        self.ret_self = fn["mutself"]
        self.ret_ty = fn["ret"]

    # -- output
    def emit(self, s):
        self.lines.append("  " * self.ind + s)
    def tmp(self):
        self.n += 1
        return "t%d" % self.n

    # -- types
    def fty(self, name):
        for f, t in self.ctx["fields"]:
            if f == name: return t
        raise Unsupported("unknown field %s" % name)

    def norm(self, t):
        t = t.replace(" ", "")
        if t in ("T",): return "T"
        if t in ("usize", "u32", "u64"): return "usize"
        if t == "bool": return "bool"
        if t in ("VecDeque<T>", "Vec<T>"): return "deque"
        if t == "Option<T>": return "optT"
        if t in self.ctx["children"]: return "view:" + t
        if t.startswith("std::marker::PhantomData") or t.startswith("PhantomData"): return "phantom"
        m = re.match(r"(\w+)<T,Echo<T>>$", t)
        if m: return "sub:" + m.group(1)
        raise Unsupported("type %s" % t)

    # -- expressions: returns (lean, type); may emit prelude lines
    def lit(self, v, want):
        v = v.replace("_", "")
        for suf in ("usize", "u32", "u64", "i32", "i64", "f64", "f32"):
            if v.endswith(suf): v = v[:-len(suf)]
        if want == "usize":
            if "." in v: raise Unsupported("float literal as usize")
            return v, "usize"
        # scalar literal
        if re.fullmatch(r"\d+", v):
            return "(nat %s : α)" % v, "T"
        m = re.fullmatch(r"(\d+)\.(\d+)", v)
        if not m: raise Unsupported("literal %s" % v)
        ip, fp = m.group(1), m.group(2).rstrip("0")
        if fp == "":
            return "(nat %s : α)" % int(ip), "T"
        return "(dec %d %d : α)" % (int(ip + fp), 10 ** len(fp)), "T"

    def ex(self, e, want=None):
        k = e[0]
        if k == "paren":
            s, t = self.ex(e[1], want); return "(%s)" % s, t
        if k == "num":
            return self.lit(e[1], want or "usize")
        if k == "unit":
            return "()", "unit"
        if k == "deref":
            if e[1][0] == "path" and e[1][1][0] in self.alias:
                kind, place = self.alias[e[1][1][0]]
                t = self.tmp(); self.emit("let %s ← unwrap %s" % (t, place)); return t, "T"
            return self.ex(e[1], want)
        if k == "neg":
            s, t = self.ex(e[1], "T"); return "(-%s)" % s, t
        if k == "not":
            s, t = self.ex(e[1], "bool"); return "(¬ %s)" % s, "bool"
        if k == "path":
            p = e[1]
            if len(p) == 1:
                n = p[0]
                if n in self.env: return n, self.env[n]
                if n == "None": return "none", "optT"
                if n in FLOAT_CONSTS: return "(%s : α)" % FLOAT_CONSTS[n], "T"
                raise Unsupported("unknown name %s" % n)
            if p[-1] in FLOAT_CONSTS: return "(%s : α)" % FLOAT_CONSTS[p[-1]], "T"
            if p[-1] == "PhantomData": return "()", "phantom"
            raise Unsupported("path %s" % "::".join(p))
        if k == "field":
            if e[1] == ("path", ["self"]):
                return "self.%s" % e[2], self.norm(self.fty(e[2]))
            s, t = self.ex(e[1])
            if t.startswith("sub:"):
                sub = self.ctx["subs"][t[4:]]
                for f, ft in sub["fields"]:
                    if f == e[2]:
                        return "%s.%s" % (s, f), Tr.norm(self, ft)
            raise Unsupported("field access .%s on %s" % (e[2], t))
        if k == "tuple":
            parts = [self.ex(x) for x in e[1]]
            return "(%s)" % ", ".join(p[0] for p in parts), "tuple:" + ",".join(p[1] for p in parts)
        if k == "bin":
            return self.binop(e, want)
        if k == "call":
            return self.call(e, want)
        if k == "mcall":
            return self.mcall(e, want)
        if k == "index":
            q, tq = self.ex(e[1]); i, ti = self.ex(e[2], "usize")
            if tq != "deque": raise Unsupported("index into %s" % tq)
            t = self.tmp(); self.emit("let %s ← getIdx %s %s" % (t, q, paren(i))); return t, "T"
        if k == "try":
            s, t = self.ex(e[1])
            if t != "optT": raise Unsupported("? on %s" % t)
            v = self.tmp()
            self.emit("let some %s := %s | return none" % (v, s))
            return v, "T"
        if k == "if":
            return self.ifvalue(e, want)
        if k == "block":
            ss = e[1]
            for s in ss[:-1]:
                self.stmt(s, False)
            if not ss or ss[-1][0] != "expr": raise Unsupported("block without value")
            return self.ex(ss[-1][1], want)
        if k == "macro":
            raise Unsupported("macro %s in expression" % e[1])
        raise Unsupported("expression kind %s" % k)

    def ifvalue(self, e, want):
        # pure conditional expression: both branches must be prelude-free single expressions
        _, c, th, el = e
        if el is None: raise Unsupported("if-expression without else")
        cs = self.cond(c)
        def branch(b):
            if len(b) != 1 or b[0][0] != "expr": raise Unsupported("if-expression with statements")
            n0 = len(self.lines)
            s, t = self.ex(b[0][1], want)
            if len(self.lines) != n0:
                pre = self.lines[n0:]; del self.lines[n0:]
                return ("do\n" + "\n".join("  " + l for l in pre) + "\n" + "  " * (self.ind + 1) + "pure %s" % paren(s)), t, True
            return s, t, False
        a, ta, ma = branch(th); b, tb, mb = branch(el)
        if ma or mb:
            if not ma: a = "pure %s" % paren(a)
            if not mb: b = "pure %s" % paren(b)
            t = self.tmp()
            self.emit("let %s ← (if %s then %s else %s)" % (t, cs, a, b))
            return t, ta
        return "(if %s then %s else %s)" % (cs, a, b), ta

    def cond(self, e):
        """a Rust bool expression as a Lean Prop"""
        k = e[0]
        if k == "paren": return "(%s)" % self.cond(e[1])
        if k == "not": return "(¬ %s)" % self.cond(e[1])
        if k == "bin" and e[1] in ("&&", "||"):
            return "(%s %s %s)" % (self.cond(e[2]), "∧" if e[1] == "&&" else "∨", self.cond(e[3]))
        if k == "bin" and e[1] in ("==", "!=", "<", ">", "<=", ">="):
            a, ta = self.ex(e[2]) if e[2][0] != "num" else (None, None)
            b, tb = self.ex(e[3], ta) if True else (None, None)
            if a is None:
                a, ta = self.ex(e[2], tb)
            op = e[1]
            if ta == "optT" and tb == "optT":
                # Rust's PartialOrd on Option: None < Some(_), Some(a) vs Some(b) by the payloads
                return {"<=": "optLE %s %s", ">=": "optLE %s %s", "<": "optLT %s %s", ">": "optLT %s %s", "==": "(%s == %s) = true", "!=": "(%s == %s) = false"}[op] % ((a, b) if op in ("<=", "<", "==", "!=") else (b, a))
            if ta == "usize" or tb == "usize":
                return {"==": "%s = %s", "!=": "%s ≠ %s", "<": "%s < %s", ">": "%s > %s".replace("%s > %s", "%s < %s") if False else "%s < %s", "<=": "%s ≤ %s", ">=": "%s ≤ %s"}[op] % ((a, b) if op in ("==", "!=", "<", "<=") else (b, a))
            if op == "==": return "(%s == %s) = true" % (a, b)
            if op == "!=": return "(%s == %s) = false" % (a, b)
            if op == "<": return "%s < %s" % (a, b)
            if op == ">": return "%s < %s" % (b, a)
            if op == "<=": return "%s ≤ %s" % (a, b)
            if op == ">=": return "%s ≤ %s" % (b, a)
        s, t = self.ex(e, "bool")
        if t != "bool": raise Unsupported("condition of type %s" % t)
        return s

    def binop(self, e, want):
        _, op, l, r = e
        if op in ("==", "!=", "<", ">", "<=", ">=", "&&", "||"):
            return self.cond(e), "bool"
        if l[0] == "num" and r[0] != "num":
            b, tb = self.ex(r, want); a, ta = self.ex(l, tb)
            # Rust evaluates left first; a literal has no effect, so the order of preludes is unchanged
        else:
            a, ta = self.ex(l, want); b, tb = self.ex(r, ta)
        if ta == "usize" and tb == "usize":
            if op == "-":
                t = self.tmp(); self.emit("let %s ← usub %s %s" % (t, paren(a), paren(b))); return t, "usize"
            if op in ("+", "*"): return "(%s %s %s)" % (a, op, b), "usize"
            raise Unsupported("usize %s" % op)
        if ta == "T" and tb == "T":
            return "(%s %s %s)" % (a, op, b), "T"
        raise Unsupported("binary %s on %s, %s" % (op, ta, tb))

    def call(self, e, want):
        _, path, args = e
        name = "::".join(path)
        if name == "T::zero": return "(nat 0 : α)", "T"
        if name == "T::one": return "(nat 1 : α)", "T"
        if name == "T::min_value": return "(FloatLike.minValue : α)", "T"
        if name == "T::max_value": return "(FloatLike.maxValue : α)", "T"
        if name == "T::from":
            a = args[0]
            if a[0] == "num" and ("." in a[1] or "e" in a[1].lower()):
                return self.lit(a[1], "T")[0], "optT!"
            if a[0] == "path" and a[1][-1] in FLOAT_CONSTS:
                return "(%s : α)" % FLOAT_CONSTS[a[1][-1]], "optT!"
            s, t = self.ex(a, "usize")
            if t != "usize": raise Unsupported("T::from(%s)" % t)
            return "(nat %s : α)" % paren(s), "optT!"
        if name == "Some":
            s, t = self.ex(args[0], "T")
            if t != "T": raise Unsupported("Some(%s)" % t)
            return "(some %s)" % s, "optT"
        if name in ("VecDeque::new", "Vec::new", "VecDeque::with_capacity", "Vec::with_capacity"):
            return "([] : List α)", "deque"
        if name in ("Default::default", "std::marker::PhantomData"):
            return "()", "phantom"
        if len(path) == 1 and self.env.get(name, "").startswith("fn:"):
            a = [self.ex(x, "T")[0] for x in args]
            return "(%s %s)" % (name, " ".join(paren(x) for x in a)), self.env[name][3:]
        if name in self.ctx["free_fns"]:
            raise Unsupported("free function %s" % name)
        raise Unsupported("call %s" % name)

    def mcall(self, e, want):
        _, recv, m, args = e
        # chains recognised as a whole
        if m in ("min_by", "max_by"):
            r = recv
            while r[0] == "mcall" and r[2] in ("copied", "iter", "cloned"):
                r = r[1]
            q, tq = self.ex(r)
            if tq != "deque": raise Unsupported("%s on %s" % (m, tq))
            c = args[0]
            if not (c[0] == "closure" and len(c[1]) == 2 and c[2][0] == "mcall" and c[2][2] in ("expect", "unwrap")
                    and c[2][1][0] == "mcall" and c[2][1][2] == "partial_cmp"
                    and c[2][1][1] == ("path", [c[1][0][1]]) and c[2][1][3] == [("path", [c[1][1][1]])]):
                raise Unsupported("comparison closure of %s" % m)
            return "(%s %s)" % ("minByPC" if m == "min_by" else "maxByPC", q), "optT"
        # child views
        if recv[0] == "field" and recv[1] == ("path", ["self"]):
            ft = self.norm(self.fty(recv[2]))
            if ft.startswith("view:"):
                V = ft[5:]
                if m == "update":
                    a, _ = self.ex(args[0], "T")
                    t = self.tmp()
                    self.emit("let %s ← %s.upd self.%s %s" % (t, V, recv[2], a))
                    self.emit("self := { self with %s := %s }" % (recv[2], t))
                    return "()", "unit"
                if m == "last":
                    t = self.tmp(); self.emit("let %s ← %s.last self.%s" % (t, V, recv[2])); return t, "optT"
                raise Unsupported("child method %s" % m)
            if ft.startswith("sub:"):
                S = ft[4:]
                subfns = self.ctx["subfns"][S]
                a = [self.ex(x, "T")[0] for x in args]
                if m == "update":
                    t = self.tmp()
                    self.emit("let %s ← %s.update echoV self.%s %s" % (t, S, recv[2], " ".join(a)))
                    self.emit("self := { self with %s := %s }" % (recv[2], t))
                    return "()", "unit"
                if m == "last":
                    t = self.tmp(); self.emit("let %s ← %s.last echoV self.%s" % (t, S, recv[2])); return t, "optT"
                if m in subfns:
                    t = self.tmp(); self.emit("let %s ← %s.%s echoV self.%s %s" % (t, S, m, recv[2], " ".join(a))); return t, "T"
                # getset accessor
                for f, fty in self.ctx["subs"][S]["fields"]:
                    if f == m and not args:
                        return "self.%s.%s" % (recv[2], f), Tr.norm(self, fty)
                raise Unsupported("method %s of %s" % (m, S))
        # own methods
        if recv == ("path", ["self"]):
            fns = self.ctx["fns"]
            if m in fns:
                f = fns[m]
                a = [self.ex(x, "T")[0] for x in args]
                cv = " ".join(self.ctx["children"])
                if f["mutself"]:
                    t = self.tmp()
                    self.emit("let %s ← %s %s self %s" % (t, m, cv, " ".join(a)))
                    self.emit("self := %s" % t)
                    return "()", "unit"
                t = self.tmp()
                self.emit("let %s ← %s %s self %s" % (t, m, cv, " ".join(a)))
                return t, Tr.norm(self, f["ret"])
            raise Unsupported("self.%s()" % m)
        # option from T::from(..).expect()
        if m in ("expect", "unwrap") and recv[0] == "call" and "::".join(recv[1]) == "T::from":
            s, t = self.ex(recv)
            return s, "T"
        # as_mut alias handled at `let`
        r, tr = self.ex(recv)
        place = self.place(recv)
        if tr == "optT!":
            if m in ("expect", "unwrap"): return r, "T"
        if tr == "optT":
            if m in ("expect", "unwrap"):
                t = self.tmp(); self.emit("let %s ← unwrap %s" % (t, r)); return t, "T"
            if m == "is_none": return "(%s.isNone = true)" % r, "bool"
            if m == "is_some": return "(%s.isSome = true)" % r, "bool"
            if m in ("copied", "cloned"): return r, "optT"
            if m == "map":
                c = args[0]
                if c[0] != "closure" or len(c[1]) != 1 or c[1][0][0] != "pvar": raise Unsupported("map closure")
                v = c[1][0][1]
                t = self.tmp()
                sub = Tr(self.view, self.fn, self.ctx); sub.env = dict(self.env); sub.env[v] = "T"; sub.ind = self.ind + 3; sub.n = self.n + 100
                body = c[2]
                val, tv = sub.ex(body, "T")
                sub.emit("pure (some %s))" % val)
                self.emit("let %s ← (match %s with" % (t, r))
                self.emit("  | none => pure none")
                self.emit("  | some %s => do" % v)
                self.lines += sub.lines
                return t, "optT"
        if tr == "T":
            a = [self.ex(x, "T")[0] for x in args]
            if m == "abs": return "(absv %s)" % r, "T"
            if m in ("sqrt", "exp", "ln", "log2", "cos", "sin", "tanh"): return "(Transc.%s %s)" % (m, r), "T"
            if m == "powi":
                if args[0] != ("num", "2"): raise Unsupported("powi(%s)" % (args[0],))
                return "(sq %s)" % r, "T"
            if m == "max": return "(maxv %s %s)" % (r, a[0]), "T"
            if m == "is_finite": return "(FloatLike.isFinite %s = true)" % r, "bool"
            if m == "is_nan": return "(FloatLike.isNaN %s = true)" % r, "bool"
            raise Unsupported("scalar method %s" % m)
        if tr == "deque":
            if m == "len": return "%s.length" % r, "usize"
            if m == "is_empty": return "(%s = [])" % r, "bool"
            if m in ("front",): return "%s.head?" % r, "optT"
            if m in ("back", "last"): return "%s.getLast?" % r, "optT"
            if m == "get":
                i, _ = self.ex(args[0], "usize"); return "%s[%s]?" % (r, i), "optT"
            if m in ("push_back", "push"):
                a, _ = self.ex(args[0], "T"); self.setplace(place, "%s ++ [%s]" % (r, a)); return "()", "unit"
            if m == "push_front":
                a, _ = self.ex(args[0], "T"); self.setplace(place, "%s :: %s" % (a, r)); return "()", "unit"
            if m == "pop_front":
                t = self.tmp(); self.emit("let %s := %s.head?" % (t, r)); self.setplace(place, "%s.tail" % r); return t, "optT"
            if m == "pop_back":
                t = self.tmp(); self.emit("let %s := %s.getLast?" % (t, r)); self.setplace(place, "%s.dropLast" % r); return t, "optT"
            if m == "remove":
                if args[0] != ("num", "0"): raise Unsupported("remove(%s)" % (args[0],))
                t = self.tmp(); self.emit("let %s ← popFront %s" % (t, r)); self.setplace(place, "%s.2" % t); return "%s.1" % t, "T"
            if m == "clear":
                self.setplace(place, "[]"); return "()", "unit"
            if m in ("iter", "copied", "cloned"): return r, "deque"
            raise Unsupported("deque method %s" % m)
        raise Unsupported("method %s on %s" % (m, tr))

    def place(self, e):
        if e[0] == "field" and e[1] == ("path", ["self"]): return ("self", e[2])
        if e[0] == "path" and len(e[1]) == 1: return ("local", e[1][0])
        return None

    def setplace(self, place, val):
        if place is None: raise Unsupported("mutation of a non-place")
        if place[0] == "self":
            self.emit("self := { self with %s := %s }" % (place[1], val))
        else:
            self.emit("%s := %s" % (place[1], val))

    # -- statements
    def stmts(self, ss, tail):
        for i, s in enumerate(ss):
            self.stmt(s, tail and i == len(ss) - 1)
        if tail and (not ss or ss[-1][0] not in ("expr",) and not self.ends_in_value(ss[-1])):
            self.ret(None)

    def ends_in_value(self, s):
        return s[0] == "semi" and s[1][0] == "return" or (s[0] == "semi" and s[1][0] in ("if", "match", "iflet") and False)

    def ret(self, e):
        if self.ret_self:
            if e is not None: raise Unsupported("value returned from &mut self fn")
            self.emit("return self")
        elif e is None:
            raise Unsupported("missing return value")
        else:
            s, t = self.ex(e, "T")
            self.emit("return %s" % s)

    def stmt(self, s, tail):
        k = s[0]
        if k == "let":
            _, p, e = s
            if e[0] == "mcall" and e[2] in ("expect", "unwrap") and e[1][0] == "mcall" and e[1][2] == "as_mut" and p[0] == "pvar":
                pl = self.place(e[1][1])
                if pl is None or pl[0] != "self": raise Unsupported("as_mut on non-field")
                self.emit("let _ ← unwrap self.%s" % pl[1])
                self.alias[p[1]] = ("optmut", "self.%s" % pl[1]); self.alias_field = pl[1]
                self.env[p[1]] = "aliasT"
                return
            if e[0] == "closure" and p[0] == "pvar" and all(q[0] == "pvar" for q in e[1]):
                # a local pure helper: |k: T| expr
                sub = Tr(self.view, self.fn, self.ctx); sub.env = dict(self.env)
                for q in e[1]: sub.env[q[1]] = "T"
                body, bt = sub.ex(e[2], "T")
                if sub.lines: raise Unsupported("local closure with effects")
                self.emit("let %s := fun %s => %s" % (p[1], " ".join("(%s : α)" % q[1] for q in e[1]), body))
                self.env[p[1]] = "fn:" + bt
                return
            v, t = self.ex(e, "T")
            if t == "optT!": t = "optT"; v = "(some %s)" % v
            if p[0] == "pvar":
                if p[1] in self.alias: del self.alias[p[1]]
                self.emit("let mut %s := %s" % (p[1], v)); self.env[p[1]] = t
            elif p[0] == "ptuple" and t.startswith("tuple:"):
                names = [q[1] for q in p[1]]
                self.emit("let (%s) := %s" % (", ".join(names), v))
                for n, tt in zip(names, t[6:].split(",")): self.env[n] = tt
            else:
                raise Unsupported("let pattern")
            return
        if k == "letelse":
            _, p, e, el = s
            if p[0] != "psome" or p[1][0] != "pvar": raise Unsupported("let-else pattern")
            v, t = self.ex(e)
            if t != "optT": raise Unsupported("let-else on %s" % t)
            if not (len(el) == 1 and el[0][0] in ("semi", "expr") and el[0][1] == ("return", None)): raise Unsupported("let-else body")
            self.emit("let some %s := %s | return %s" % (p[1][1], v, "self" if self.ret_self else "()"))
            self.env[p[1][1]] = "T"
            return
        if k == "assign":
            _, op, l, r = s
            if l[0] == "deref" and l[1][0] == "path" and l[1][1][0] in self.alias:
                kind, place = self.alias[l[1][1][0]]
                v, t = self.ex(r, "T")
                self.emit("self := { self with %s := some %s }" % (place.split(".", 1)[1], v))
                return
            pl = self.place(l)
            if pl is None: raise Unsupported("assignment target")
            cur, tcur = self.ex(l)
            if op == "=":
                v, t = self.ex(r, tcur if tcur in ("T", "usize") else "T")
                if t == "optT!": v = "(some %s)" % v
            else:
                v, t = self.binop(("bin", op[0], l, r), tcur)
            self.setplace(pl, v)
            return
        if k in ("semi", "expr"):
            e = s[1]
            if e[0] == "return":
                self.ret(e[1]); return
            if e[0] == "macro":
                self.macro(e); return
            if e[0] == "if":
                self.ifstmt(e, tail and k == "expr" or tail); return
            if e[0] == "iflet":
                self.ifletstmt(e, tail); return
            if e[0] == "match":
                self.matchstmt(e, tail); return
            if k == "expr" and tail:
                self.ret(e) if not self.ret_self else self.exprstmt(e, True)
                return
            self.exprstmt(e, False)
            return
        if k == "for":
            raise Unsupported("for loop")
        raise Unsupported("statement %s" % k)

    def exprstmt(self, e, tail):
        v, t = self.ex(e)
        if t not in ("unit",):
            if v not in ("()",) and not re.fullmatch(r"t\d+(\.1)?", v):
                self.emit("let _ := %s" % v)
        if tail: self.ret(None)

    def macro(self, e):
        _, name, args = e
        if name in ("debug_assert", "assert"):
            c = args[0]
            err = "Err.debugAssert" if name == "debug_assert" else "Err.assertFailed"
            if c[0] == "mcall" and c[2] == "is_finite" and not c[3] and name == "debug_assert":
                r = c[1]
                if r[0] == "path" and r[1][0] in self.alias:
                    kind, place = self.alias[r[1][0]]
                    t = self.tmp(); self.emit("let %s ← unwrap %s" % (t, place)); self.emit("assertFinite %s" % t); return
                v, t = self.ex(r, "T")
                self.emit("assertFinite %s" % v); return
            cs = self.cond(c)
            self.emit("if ¬ (%s) then throw %s" % (cs, err)); return
        if name == "debug_assert_ne":
            a, ta = self.ex(args[0], "T"); b, tb = self.ex(args[1], "T")
            self.emit("if (%s == %s) = true then throw Err.debugAssert" % (a, b)); return
        raise Unsupported("macro %s!" % name)

    def sub_block(self, ss, tail):
        self.ind += 1
        n0 = len(self.lines)
        self.stmts(ss, tail)
        if len(self.lines) == n0: self.emit("pure ()")
        self.ind -= 1

    def ifstmt(self, e, tail):
        _, c, th, el = e
        cs = self.cond(c)
        self.emit("if %s then" % cs)
        self.sub_block(th, tail)
        if el is not None:
            self.emit("else")
            self.sub_block(el, tail)
        elif tail:
            self.ret(None)

    def ifletstmt(self, e, tail):
        _, p, sc, th, el = e
        if p[0] != "psome" or p[1][0] != "pvar": raise Unsupported("if-let pattern")
        x = p[1][1]
        if sc[0] == "mcall" and sc[2] == "as_mut":
            pl = self.place(sc[1])
            if pl is None or pl[0] != "self": raise Unsupported("as_mut on non-field")
            self.emit("match self.%s with" % pl[1])
            self.emit("| some _ =>")
            self.alias[x] = ("optmut", "self.%s" % pl[1]); self.env[x] = "aliasT"
            self.sub_block(th, tail)
            del self.alias[x]
        else:
            v, t = self.ex(sc)
            if t != "optT": raise Unsupported("if-let on %s" % t)
            self.emit("match %s with" % v)
            self.emit("| some %s =>" % x)
            self.env[x] = "T"
            self.sub_block(th, tail)
        self.emit("| none =>")
        self.sub_block(el or [], tail)

    def matchstmt(self, e, tail):
        _, sc, arms = e
        if sc[0] == "tuple":
            ds = [self.ex(x)[0] for x in sc[1]]
        else:
            ds = [self.ex(sc)[0]]
        self.emit("match %s with" % ", ".join(ds))
        def pp(p, top):
            if p[0] == "ptuple" and top: return ", ".join(pp(q, False) for q in p[1])
            if p[0] == "psome":
                if p[1][0] == "pvar": self.env[p[1][1]] = "T"
                return "some %s" % pp(p[1], False)
            if p[0] == "pnone": return "none"
            if p[0] == "pwild": return "_"
            if p[0] == "pvar": return p[1]
            raise Unsupported("match pattern")
        for pats, body in arms:
            self.emit("".join("| %s " % pp(p, True) for p in pats) + "=>")
            b = body[1] if body[0] == "block" else [("expr", body)]
            self.sub_block(b, tail)

def paren(s):
    return s if re.fullmatch(r"[\w.]+|\(.*\)", s) and s.count("(") == s.count(")") and not s.startswith("(") or re.fullmatch(r"[\w.]+", s) else "(%s)" % s

HEADER = """import SF.GenPrelude
/-  GENERATED by tools/rs2lean.py from %s  (sha256 %s) -- do not edit.
    A shallow embedding of the Rust text: `&mut self` is a `let mut self`, `VecDeque`/`Vec` are lists (front = head),
    `usize` is `Nat` with checked subtraction, child views are abstract `View α` parameters. -/
set_option linter.unusedVariables false
namespace SF.Gen.%s
open SF
variable {α : Type} [Add α] [Sub α] [Mul α] [Div α] [Neg α] [NatCast α]
  [LT α] [DecidableLT α] [LE α] [DecidableLE α] [BEq α] [FloatLike α] [Transc α]
"""

LEAN_TY = {"T": "α", "usize": "Nat", "bool": "Bool", "deque": "List α", "optT": "Option α", "phantom": "Unit"}

def gen_view(name, relpath, items, all_items, ctor="new"):
    st = items["structs"][name]
    children = [g for g in st["generics"] if g != "T"]
    ctx = {"fields": st["fields"], "children": children, "fns": dict(items["fns"].get(name, {})),
           "free_fns": items["free_fns"], "subs": {}, "subfns": {}}
    tr0 = Tr(name, {"mutself": False, "ret": None}, ctx)
    out = []
    opens = []
    fld = []
    for f, t in st["fields"]:
        nt = tr0.norm(t)
        if nt == "phantom": continue
        if nt.startswith("view:"):
            fld.append((f, "σ%s" % nt[5:]))
        elif nt.startswith("sub:"):
            S = nt[4:]
            if S not in all_items:
                raise Unsupported("embeds %s, whose source does not parse" % S)
            sub_items = all_items[S]
            ctx["subs"][S] = sub_items["structs"][S]
            ctx["subfns"][S] = sub_items["fns"].get(S, {})
            opens.append(S)
            fld.append((f, "SF.Gen.%s.State α (Option α)" % S))
        else:
            fld.append((f, LEAN_TY[nt]))
    sig_types = " ".join("(σ%s : Type)" % c for c in children)
    out.append("structure State (α : Type) %s where" % sig_types)
    for f, t in fld:
        out.append("  %s : %s" % (f, t))
    if not fld:
        out.append("  mk ::")
    out.append("")
    cv = " ".join("(%s : View α)" % c for c in children)
    sty = "State α " + " ".join("%s.σ" % c for c in children)
    sty = sty.strip()
    def gen_fn(fn, kind):
        tr = Tr(name, fn, ctx)
        params = []
        for pn, pt in fn["params"]:
            if pn == "self": continue
            pn2 = pn
            nt = tr.norm(pt) if pt.replace(" ", "") not in children else "view:" + pt.replace(" ", "")
            if nt.startswith("view:"):
                tr.env[pn] = nt; continue
            tr.env[pn2] = nt
            params.append("(%s : %s)" % (pn2, LEAN_TY[nt]))
        if kind == "ctor":
            tr.ret_self = False
            body = fn["body"]
            for s in body[:-1]:
                tr.stmt(s, False)
            last = body[-1]
            if last[0] != "expr": raise Unsupported("constructor without tail expression")
            e = last[1]
            if e[0] == "call" and len(e[1]) == 2 and e[1][0] in ("Self", name) and e[1][1] in items["fns"].get(name, {}):
                # delegating constructor: Self::other(view, args...)
                tgt = items["fns"][name][e[1][1]]
                a = []
                for (pn, pt), x in zip([p for p in tgt["params"]], e[2]):
                    if pt.replace(" ", "") in children: continue
                    a.append(tr.ex(x, "T" if pt.strip() == "T" else "usize")[0])
                a = [x if not x.startswith("(nat") and not x.startswith("(dec") else x for x in a]
                tr.emit("%s %s %s" % (e[1][1], " ".join(children), " ".join(paren(x) for x in a)))
            elif e[0] == "struct":
                fs = []
                for f, x in e[2]:
                    nt = tr.norm(tr.fty(f))
                    if nt == "phantom": continue
                    if nt.startswith("view:"):
                        fs.append("%s := %s.init" % (f, nt[5:])); continue
                    if nt.startswith("sub:"):
                        S = nt[4:]
                        if not (x[0] == "call" and x[1] == [S, "new"]): raise Unsupported("sub-view constructor")
                        a = [tr.ex(y, "usize")[0] for y in x[2][1:]]
                        t = tr.tmp(); tr.emit("let %s ← %s.new echoV %s" % (t, S, " ".join(a)))
                        fs.append("%s := %s" % (f, t)); continue
                    v, t = tr.ex(x, nt if nt in ("T", "usize") else None)
                    if t == "optT!": v = "(some %s)" % v
                    fs.append("%s := %s" % (f, v))
                tr.emit("return { %s }" % ", ".join(fs) if fs else "return State.mk")
            else:
                raise Unsupported("constructor tail")
            rty = "M (%s)" % sty
        else:
            if fn["mutself"]:
                tr.emit("let mut self := self")
            tr.stmts(fn["body"], True)
            rty = "M (%s)" % sty if fn["mutself"] else "M %s" % ({"T": "α", "Option<T>": "(Option α)", "usize": "Nat", "bool": "Bool"}[(fn["ret"] or "").replace(" ", "")])
        selfp = "" if kind == "ctor" else "(self : %s) " % sty
        out.append("def %s %s %s%s : %s := do" % (fn["name"], cv, selfp, " ".join(params), rty))
        out.extend(tr.lines)
        out.append("")
    fns = items["fns"].get(name, {})
    vfns = items["view_fns"].get(name, {})
    # order: helpers that are used by others first (source order), constructors, update, last
    order = []
    ctors = [f for f in fns.values() if not any(p[0] == "self" for p in f["params"])]
    helpers = [f for f in fns.values() if any(p[0] == "self" for p in f["params"])]
    # delegating constructors after their targets
    ctors.sort(key=lambda f: 1 if (f["body"] and f["body"][-1][0] == "expr" and f["body"][-1][1][0] == "call" and len(f["body"]) == 1) else 0)
    skipped = []
    for f in helpers:
        try:
            n0 = len(out); gen_fn(f, "helper")
        except Unsupported as ex:
            del out[n0:]; skipped.append((f["name"], str(ex))); ctx["fns"].pop(f["name"], None)
    for f in ctors:
        gen_fn(f, "ctor")
    gen_fn(vfns["update"], "update")
    gen_fn(vfns["last"], "last")
    return opens, "\n".join(out), skipped

VIEWS = {
    # view: source file
    "Echo": "pure_functions/echo.rs", "Constant": "pure_functions/constant.rs",
    "Add": "pure_functions/add.rs", "Subtract": "pure_functions/subtract.rs", "Multiply": "pure_functions/multiply.rs",
    "Divide": "pure_functions/divide.rs", "Tanh": "pure_functions/tanh.rs", "GTE": "pure_functions/gte.rs", "LTE": "pure_functions/lte.rs",
    "LnReturn": "rolling/ln_return.rs", "Drawdown": "rolling/drawdown.rs", "WelfordRolling": "rolling/welford_rolling.rs",
    "Sma": "sliding_windows/sma.rs", "Ema": "sliding_windows/ema.rs", "Cumulative": "sliding_windows/cumulative.rs",
    "Roc": "sliding_windows/roc.rs", "Min": "sliding_windows/min.rs", "Max": "sliding_windows/max.rs",
    "SuperSmoother": "sliding_windows/super_smoother.rs", "WelfordOnline": "sliding_windows/welford_online.rs",
    "Vst": "sliding_windows/variance_stabilizing_transformation.rs", "Vsct": "sliding_windows/vsct.rs",
    "Rsi": "sliding_windows/rsi.rs", "MyRSI": "sliding_windows/my_rsi.rs", "LaguerreFilter": "sliding_windows/laguerre_filter.rs",
    "LaguerreRSI": "sliding_windows/laguerre_rsi.rs", "BinaryEntropy": "sliding_windows/binary_entropy.rs",
    "RoofingFilter": "sliding_windows/roofing_filter.rs", "Alma": "sliding_windows/alma.rs",
}

def main():
    repo = os.environ.get("VERIF_REPO_DIR", "/repo")
    outdir = os.path.join(os.path.dirname(os.path.dirname(os.path.abspath(__file__))), "lean", "SF", "Gen")
    args = sys.argv[1:]
    while args and args[0].startswith("--"):
        if args[0] == "--repo": repo = args[1]; args = args[2:]
        elif args[0] == "--out": outdir = args[1]; args = args[2:]
        else: raise SystemExit("unknown option " + args[0])
    want = args or list(VIEWS)
    os.makedirs(outdir, exist_ok=True)
    all_items = {}
    report = {}
    for v, rel in VIEWS.items():
        try:
            all_items[v] = parse_file(os.path.join(repo, "src", rel))
        except Unsupported as ex:
            report[v] = {"status": "untranslatable", "reason": "parse: " + str(ex), "source": rel}
        except (IndexError, KeyError, ValueError, TypeError, AttributeError) as ex:
            report[v] = {"status": "untranslatable", "reason": "parse: %s: %s" % (type(ex).__name__, ex), "source": rel}
        except FileNotFoundError:
            report[v] = {"status": "untranslatable", "reason": "source file missing", "source": rel}
    for v in want:
        rel = VIEWS[v]
        path = os.path.join(outdir, v + ".lean")
        if v in report:
            if os.path.exists(path): os.remove(path)
            continue
        try:
            opens, body, skipped = gen_view(v, rel, all_items[v], all_items)
            sha = hashlib.sha256(open(os.path.join(repo, "src", rel), "rb").read()).hexdigest()[:16]
            text = HEADER % ("src/" + rel, sha, v)
            imports = "".join("import SF.Gen.%s\n" % o for o in opens)
            text = imports + text + "".join("open SF.Gen (%s)\n" % "" for o in []) + body + "\nend SF.Gen.%s\n" % v
            old = open(path).read() if os.path.exists(path) else None
            # the sha line is informational: compare modulo it so that a comment-only change of the source does not rebuild
            strip = lambda s: re.sub(r"\(sha256 \w+\)", "", s) if s else s
            if strip(old) != strip(text):
                open(path, "w").write(text)
            report[v] = {"status": "generated", "source": rel, "changed": strip(old) != strip(text), "skipped_helpers": skipped}
        except (Unsupported, IndexError, KeyError, ValueError, TypeError, AttributeError) as ex:
            if os.path.exists(path): os.remove(path)
            report[v] = {"status": "untranslatable", "reason": ("%s: " % type(ex).__name__ if not isinstance(ex, Unsupported) else "") + str(ex), "source": rel}
    json.dump(report, sys.stdout, indent=1)
    print()

if __name__ == "__main__":
    main()
