#!/usr/bin/env python3
"""One-off helper (run by hand, never by a check): assemble known_findings.json — the `fixed` entries from the
fix: commits of /repo and the `known` entries with a stored concrete witness found by the generators."""
import sys, os, json, subprocess
sys.path.insert(0, os.path.dirname(os.path.dirname(os.path.abspath(__file__))))
from fractions import Fraction as F
from pylib import core, jobs, props, gen
from pylib.gen import ECHO, mk

def wit(pid, view, mode=None, fam=None, kind=None, rel=None):
    import random
    for seed in range(1, 60):
        rng = random.Random(seed * 1009 + int(pid[1:]))
        js = [j for j in props.GENERATORS[pid](rng, "quick") if getattr(j, "e", ("",))[0] == view]
        if mode: js = [j for j in js if getattr(j, "mode", getattr(j, "fmode", None)) == mode]
        if fam: js = [j for j in js if (getattr(j, "fam", None) or (getattr(j, "params", {}) or {}).get("fam")) in fam]
        if kind: js = [j for j in js if j.kind == kind]
        if rel: js = [j for j in js if getattr(j, "rel", None) == rel]
        for j, f in jobs.run_jobs(js):
            if f is not None and not f.get("corr_only"):
                j2, f2 = jobs.shrink(j)
                if f2 is None: j2, f2 = j, f
                return j2.to_json(), f2
    raise SystemExit("no witness for %s %s" % (pid, view))

core.build_harness(); core.build_driver()
findings = []
# ---- fixed
log = subprocess.run(["git", "-C", "/repo", "log", "--format=%h %s", "--reverse"], capture_output=True, text=True).stdout.strip().split("\n")
FIXED_PROPS = {"Sma": "C02,C03,C04,C07", "Ema": "C04,C10", "Cumulative": "C02,C03", "WelfordOnline": "C02,C03,C07", "HLNormalizer": "C02,C03",
               "NoiseEliminationTechnology": "C06,C12", "ReFlex": "C09,C11", "LaguerreFilter": "C18", "EhlersFisherTransform kept": "C18",
               "LaguerreRSI": "C11", "CyberCycle smoothed": "C11,C10", "CyberCycle panicked": "C15,C10,C11", "PolarizedFractalEfficiency": "C15,C08",
               "EhlersFisherTransform with": "C15", "RoofingFilter": "C09,C15,C08", "CorrelationTrendIndicator": "C12"}
for l in log:
    h, msg = l.split(" ", 1)
    if msg.startswith("fix:"):
        p = next((v for k, v in FIXED_PROPS.items() if k in msg), "?")
        for pid in p.split(","):
            findings.append(dict(status="fixed", property=pid, commit=h, what=msg[5:], line="fixed: property=%s %s %s" % (pid, h, msg[5:])))
# ---- known
def known(id_, pid, what, witness, match):
    findings.append(dict(status="known", id=id_, property=pid, what=what, witness=witness, match=match))

w = jobs.Relation("value", mk("cti", ECHO, [3]), [[F(1), F(2), F(4), F(7), F(11), F(16)]], dict(value=F(1), tol=1e-9, **{"from": 3})).to_json()
known("K1", "C06", "CorrelationTrendIndicator is not +1 on a strictly increasing window that is not affine (e.g. 1,2,4 gives 0.98198): the clause contradicts 'CTI equals the Pearson correlation', which the code implements", w,
      dict(kind="relation", rel="value", view="cti", never_in_sweep=True))
w = jobs.Relation("range", ("pfe", ECHO, mk("ema", ECHO, [2]), 5), [[F(3)] * 12], dict(lo=F(-1), hi=F(1))).to_json()
known("K2", "C07", "PolarizedFractalEfficiency leaves [-1,1]: on a constant window it reports N/(N-2) (5/3 for N=5), as the formula fixed by C11 implies (numerator over N-1 steps, denominator over N-2)", w,
      dict(kind="relation", rel="range", view="pfe", never_in_sweep=True))
w = jobs.Relation("same", mk("cti", ECHO, [4]), [[F(1), F(3), F(2), F(5), F(4)], [F(11), F(13), F(12), F(15), F(14)]], dict(map="id", tol=1e-9)).to_json()
known("K6", "C12", "CorrelationTrendIndicator is not offset-invariant while its window is still filling (it correlates the values so far against the nominal window length N, i.e. a zero-padded window); from the N-th value on it is. Using the actual count instead makes 2-point warm-up windows exactly +-1, which f64 rounding pushes past the crate's own test assertion last >= -1.0, so this is recorded rather than repaired", w,
      dict(kind="relation", rel="same", view="cti", never_in_sweep=True))
for v, nm in (("rsi", "Rsi"), ("myrsi", "MyRSI")):
    wj, f = wit("C07", v, mode="f", rel="range")
    known("K3-C07-" + v, "C07", "%s in f64 leaves its range after a volatile stretch (stale rounding residue in its incrementally maintained sums), e.g. %s" % (nm, f["actual"]), wj,
          dict(kind="relation", rel="range", view=v, mode="f", top_only=True))
wj, f = wit("C07", "cti", mode="f", rel="range")
known("K5-C07-cti", "C07", "CorrelationTrendIndicator in f64 exceeds 1 by more than a few ulps on ill-conditioned windows (cancellation in N*sxx - sx^2), e.g. %s" % f["actual"], wj,
      dict(kind="relation", rel="range", view="cti", mode="f", top_only=True))
for v, nm in (("rsi", "Rsi"), ("myrsi", "MyRSI"), ("vst", "Vst")):
    wj, f = wit("C16", v, mode="f", fam=["flat_after_volatile"])
    known("K3-C16-" + v, "C16", "%s in f64 reports amplified rounding residue instead of the flat-window answer after a volatile stretch: %s" % (nm, f["explanation"][:160]), wj,
          dict(kind="fptrack", view=v, fam=["flat_after_volatile"], top_only=True))
for v, nm in (("vsct", "Vsct"), ("vst", "Vst")):
    try:
        wj, f = wit("C16", v, mode="s", fam=["three_decades_f32"])
        known("K4-C16-%s-f32" % v, "C16", "%s in f32 drifts beyond 1e-2 of its scale within 10^3 steps when the window's spread is small against the value magnitude (WelfordOnline's incrementally updated m2 is never refreshed): %s" % (nm, f["explanation"][:140]), wj,
              dict(kind="fptrack", view=v, fam=["three_decades_f32", "three_decades_f32_long"], mode="s", top_only=True))
    except SystemExit as ex:
        print(ex)
try:
    wj, f = wit("C16", "vsct", mode="f", fam=["flat_after_volatile"])
    known("K3-C16-vsct", "C16", "Vsct in f64 reports amplified rounding residue instead of 0 on a flat window after a volatile stretch: %s" % f["explanation"][:160], wj,
          dict(kind="fptrack", view="vsct", fam=["flat_after_volatile"], top_only=True))
except SystemExit as ex:
    print(ex)
json.dump(dict(comment="Known findings and fixed defects. `known` entries are replayed on every run (KNOWN-FINDING line while the witness still fails); a sweep failure is attributed to an entry only if judge kind, view, mode and scenario family all match. Never written at run time.",
               findings=findings), open(os.path.join(core.VERIF, "known_findings.json"), "w"), indent=1)
print(len(findings), "entries")
