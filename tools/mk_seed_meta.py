#!/usr/bin/env python3
"""tools/mk_seed_meta.py — write seeded/<id>/meta.json (which property, what it needs to manifest, what was run, which
checks report it) from the evaluation record eval.json written by tools/seed_eval.py and the table below."""
import json, os, glob
V = os.path.dirname(os.path.dirname(os.path.abspath(__file__)))
T = {
 "C01b": ("Multiply returns early (does not forward the raw input to child b) when child a reports exactly 0 and b is already ready", "a zero factor from child a while child b has memory"),
 "C02b": ("Sma returns early when the incoming value equals the value about to leave; the queue is not rotated", "a full window, an input equal to the value N steps earlier, then further values"),
 "C03b": ("Max keeps a count of copies of the maximum and rescans only when the last copy leaves; the count is not reset on a new maximum", "a new strict maximum after ties, then the old copies leaving"),
 "C04b": ("Alma leaves wtd_sum / cum_wt untouched when the leaving value equals the entering one (their weights differ)", "in == out tie on a full window"),
 "C05b": ("Rsi: first-value seeding of old_ref / last_val moved below the eviction", "window_len 1 (the first eviction happens on the second value)"),
 "C06b": ("CenterOfGravity holds its previous output instead of 0 on a zero denominator", "a window summing to exactly 0 after a non-zero one"),
 "C07b": ("WelfordOnline skips the downdate (but not the update) when old == new", "in == out tie on a full window"),
 "C08b": ("Ema counts update() calls instead of delivered values", "an inner view with a warm-up"),
 "C09b": ("LaguerreFilter pre-allocates and prunes its ladder vectors in chunks of 1024, reading a stale index after a prune", "more than 1024 updates"),
 "C10b": ("Sma flushes |sum| < epsilon to zero after a removal", "data in tiny units"),
 "C11b": ("RoofingFilter's step counter is incremented before the early return for a silent inner view", "an inner view with a warm-up"),
 "C12b": ("TrendFlex tests ms0 > epsilon instead of ms0 > 0", "data in tiny units"),
 "C13b": ("LnReturn returns early when the incoming value equals current_val", "an exact repeat followed by a change"),
 "C14b": ("GTE skips the store when the value equals the clip", "value == clip after a larger value"),
 "C15b": ("BinaryEntropy counts only strictly positive values on entry but non-negative ones on exit (usize underflow)", "exact zeros sliding out of the window"),
 "C16b": ("CenterOfGravity maintains sum and weighted sum incrementally (drift)", "long f32 streams / large ratios, flat after volatile"),
 "C17b": ("Max: hand-written Clone that drops the sample about to be evicted", "a clone taken on a full window, then both fed the same inputs"),
 "C18b": ("LaguerreRSI trims its four deques after the push and only when longer than 3 at entry", "any long stream (memory grows)"),
 "C01c": ("SuperSmoother's warm-up counter saturates and counts raw updates instead of delivered values", "an inner view with a warm-up"),
 "C02c": ("WelfordOnline returns early when the incoming value equals the outgoing one; the queue is not rotated", "x_t == x_(t-N) on a full window, then a different value"),
 "C03c": ("BinaryEntropy adjusts its positive count only when old*new < 0", "an exact zero leaving as a negative enters (or the reverse)"),
 "C04c": ("Sma returns early when the incoming value equals the outgoing one; the queue is not rotated", "x_t == x_(t-N) on a full window, then more values"),
 "C05c": ("Rsi asks VecDeque::capacity() instead of window_len whether the window is full / ready", "a clone taken during warm-up (a clone's capacity is its length), then updates on the clone"),
 "C06c": ("CorrelationTrendIndicator evicts at len == capacity() instead of len >= window_len", "a clone taken before the window is full"),
 "C07c": ("BinaryEntropy: eviction tests old > 0 while insertion tests val >= 0; the NaN guard is replaced by p == 0 || p == len", "exact zeros sliding out, then a window of non-negative values"),
 "C08c": ("Vst feeds its variance window the stale last value while the inner view is silent", "an inner view with a warm-up"),
 "C09c": ("ReFlex tests ms0 > epsilon instead of ms0 > 0: the output freezes", "ordinary head, then a tail below ~1e-8 for > 900 values"),
 "C10c": ("RoofingFilter flushes |hp| < epsilon to zero", "amplitudes or scalars around 1e-13 and below"),
 "C11c": ("ReFlex pops at len >= capacity() instead of len >= window_len", "a clone taken during warm-up"),
 "C12c": ("CenterOfGravity guards |denom| > epsilon instead of denom != 0", "a window whose sum is non-zero but below 2.2e-16"),
 "C13c": ("Drawdown tracks the raw sample while the inner view has no output yet", "an inner view with a warm-up and a decline among the raw warm-up samples"),
 "C14c": ("Subtract caches a-b and skips the refresh when the new input equals the previous one", "two equal consecutive inputs and a child with memory"),
 "C15c": ("CorrelationTrendIndicator computes sqrt(var_x*var_y) once and guards denom != 0: a negative rounding residue gives NaN and a failed debug_assert", "a window full of one inexact constant (0.3 with N=6, 100.1, 12.34, ...)"),
 "C16c": ("WelfordOnline clamps m2 at zero after a removal; Vsct then amplifies the residue of the mean on a flat window", "flat window after a volatile stretch, f64, negative residue in m2"),
 "C17c": ("CenterOfGravity sums the two slices of its ring buffer separately (rounding depends on the layout)", "a clone (layout reset), a wrapped ring and inexact values"),
 "C18c": ("Alma: a tie fast path returns before q_out.pop_front()", "in == out ties, e.g. a constant stream"),
 "H01": ("HARMLESS: Sma on a hand-rolled ring buffer with running sum", "nothing: behaviour-preserving"),
 "H02": ("HARMLESS: Min / Max as monotonic queues", "nothing: behaviour-preserving"),
 "H03": ("HARMLESS: WelfordOnline restructured (f64 values differ in the last bits)", "nothing: behaviour-preserving up to rounding"),
 "H04": ("HARMLESS: Rsi / MyRSI on a ring of changes", "nothing: behaviour-preserving"),
 "H05": ("HARMLESS: SuperSmoother / RoofingFilter / LaguerreFilter cores refactored", "nothing: behaviour-preserving"),
 "H06": ("HARMLESS: HLNormalizer / CenterOfGravity with monotonic queues", "nothing: behaviour-preserving"),
 "H07": ("HARMLESS: combinators and rolling views through shared helpers", "nothing: behaviour-preserving"),
 "H08": ("HARMLESS: Ema / Roc / Alma / BinaryEntropy / CTI on a private ring", "nothing: behaviour-preserving"),
}
for d in sorted(glob.glob(os.path.join(V, "seeded", "*"))):
    sid = os.path.basename(d)
    if sid not in T or not os.path.exists(os.path.join(d, "eval.json")):
        continue
    e = json.load(open(os.path.join(d, "eval.json")))
    change, needs = T[sid]
    harmless = sid.startswith("H")
    m = {
        "id": "seed-" + sid,
        "breaks_property": None if harmless else sid[:3],
        "kind": "harmless rewrite (the checks must stay silent)" if harmless else "property-breaking change",
        "change": change,
        "needs_in_order_to_manifest": needs,
        "files": {"patch": "patch.diff", "demonstration": "demo.rs", "how_to_run_demo": "README.txt", "authoring_agent_notes": "meta.txt",
                  "raw_results_of_all_checks": "eval.json"},
        "origin": "written by a fresh sub-agent given only the property text and its own scratch worktree of /repo (nothing from /verif)",
        "confirmed_by_me": {
            "scratch_worktree": "git worktree of /repo HEAD under /tmp/confirm_%s, removed afterwards" % sid,
            "demo_without_change": e.get("demo_without_change"), "demo_with_change": e.get("demo_with_change"),
            "demo_message": e.get("demo_failure_message"), "crate_test_suite_with_change": e.get("test_suite_with_change"),
            "commands": ["git -C /repo worktree add --detach /tmp/confirm_%s HEAD" % sid,
                         "cp demo.rs examples/seed_demo.rs && cargo run --offline --example seed_demo   (before and after `git apply patch.diff`)",
                         "cargo test --workspace --no-fail-fast --offline   (with the patch)",
                         "git -C /repo apply seeded/%s/patch.diff && ./check <each of C01..C18> --tier quick && git -C /repo checkout -- ." % sid]},
        "checks_reporting_a_counterexample": e.get("caught_by"),
        "checks_reporting_correspondence_only": e.get("caught_by_correspondence_only"),
        "details": {p: {"violation": c.get("violation"), "explanation": c.get("explanation")} for p, c in e.get("checks", {}).items() if c.get("violation")},
    }
    json.dump(m, open(os.path.join(d, "meta.json"), "w"), indent=1)
    print(sid, m["checks_reporting_a_counterexample"])
