#!/usr/bin/env python3
"""tools/coverage.py [--tier quick|thorough] [--props C01,C02,...] [--out coverage_report.json]

How much of /repo/src do the inputs of the checks actually execute?  (The model/implementation tie is differential, so
"generator quality bounds what it sees": this measures it.)

1. runs the chosen checks with VERIF_DUMP_CASES set, which keeps every case file fed to the implementation;
2. builds the harness against /repo with `-C instrument-coverage` (nightly toolchain, which ships llvm-cov / llvm-profdata),
   in harness/target/cov;
3. replays all case files through the instrumented binary, merges the profiles, exports line and region coverage;
4. reports, per non-test source file of /repo/src, lines / regions executed and the uncovered lines (test modules,
   `#[cfg(test)]` items and plotting helpers are excluded), and writes the report as JSON.
Exit 0 always (a measurement, not a check); the thorough tier of the checks calls `measure()` and stores the summary."""
import sys, os, subprocess, json, shutil, glob, re, tempfile, time
V = os.path.dirname(os.path.dirname(os.path.abspath(__file__)))
sys.path.insert(0, V)
HARNESS = os.path.join(V, "harness")
COVDIR = os.path.join(HARNESS, "target", "cov")
ENV = dict(os.environ, CARGO_NET_OFFLINE="true")


def tool(name):
    c = glob.glob(os.path.expanduser("~/.rustup/toolchains/nightly-x86_64-unknown-linux-gnu/lib/rustlib/*/bin/" + name))
    return c[0] if c else None


def available():
    return tool("llvm-cov") is not None and tool("llvm-profdata") is not None


def build():
    # proc-macros / build scripts are instrumented too and write a profile where they run: keep that out of /repo
    env = dict(ENV, RUSTFLAGS="-C instrument-coverage", LLVM_PROFILE_FILE=os.path.join(COVDIR, "build-%p.profraw"))
    r = subprocess.run(["cargo", "+nightly", "build", "--offline", "--quiet", "--release", "--target-dir", COVDIR],
                       cwd=HARNESS, env=env, capture_output=True, text=True)
    if r.returncode != 0:
        raise RuntimeError("coverage build failed: " + r.stderr[-2000:])
    return os.path.join(COVDIR, "release", "sf_harness")


def test_ranges(path):
    """line ranges of `#[cfg(test)] mod … { … }` blocks (brace matching) — excluded from the denominators"""
    src = open(path).read().split("\n")
    out, i = [], 0
    while i < len(src):
        if src[i].strip().startswith("#[cfg(test)]"):
            j, depth, seen = i, 0, False
            while j < len(src):
                depth += src[j].count("{") - src[j].count("}")
                if "{" in src[j]:
                    seen = True
                if seen and depth <= 0:
                    break
                j += 1
            out.append((i + 1, j + 1))
            i = j + 1
        else:
            i += 1
    return out


def measure(case_dir, keep_profiles=False):
    """replay every case file in case_dir through the instrumented harness; return the report dict"""
    binary = build()
    prof = tempfile.mkdtemp(prefix="sfcov_", dir=os.path.join(V, "work") if os.path.isdir(os.path.join(V, "work")) else None)
    try:
        files = sorted(glob.glob(os.path.join(case_dir, "*.txt")))
        for k, f in enumerate(files):
            env = dict(ENV, LLVM_PROFILE_FILE=os.path.join(prof, "p%d.profraw" % k))
            with open(f) as fh:
                subprocess.run([binary], stdin=fh, stdout=subprocess.DEVNULL, stderr=subprocess.DEVNULL, env=env)
        raws = glob.glob(os.path.join(prof, "*.profraw"))
        merged = os.path.join(prof, "all.profdata")
        r = subprocess.run([tool("llvm-profdata"), "merge", "-sparse", "-o", merged] + raws, capture_output=True, text=True)
        if r.returncode != 0:
            raise RuntimeError("llvm-profdata: " + r.stderr[-1000:])
        r = subprocess.run([tool("llvm-cov"), "export", "--format=text", "--instr-profile", merged, binary,
                            "--ignore-filename-regex", r"(\.cargo|rustc|/verif/)"], capture_output=True, text=True)
        if r.returncode != 0:
            raise RuntimeError("llvm-cov: " + r.stderr[-1000:])
        data = json.loads(r.stdout)
        per = {}
        for fobj in data["data"][0]["files"]:
            name = fobj["filename"]
            if not name.startswith("/repo/src/"):
                continue
            excl = test_ranges(name)
            def excluded(line):
                return any(a <= line <= b for a, b in excl)
            # segments: [line, col, count, hasCount, isRegionEntry, isGap]
            line_hits = {}
            segs = fobj["segments"]
            for idx, s in enumerate(segs):
                line, col, count, has, entry, gap = s[:6]
                if not has or gap:
                    continue
                end_line = segs[idx + 1][0] if idx + 1 < len(segs) else line
                for L in range(line, max(line, end_line) + 1):
                    if L == end_line and idx + 1 < len(segs) and segs[idx + 1][1] <= 1 and L != line:
                        continue
                    line_hits[L] = max(line_hits.get(L, 0), count) if L == line or L not in line_hits else line_hits[L]
            src = open(name).read().split("\n")
            code = {}
            for L, c in line_hits.items():
                if excluded(L) or L > len(src):
                    continue
                t = src[L - 1].strip()
                if not t or t.startswith("//") or t in ("}", "{", "};", "})", "});"):
                    continue
                code[L] = c
            unc = sorted(L for L, c in code.items() if c == 0)
            per[name[len("/repo/"):]] = dict(lines=len(code), covered=len(code) - len(unc),
                                            uncovered=[{"line": L, "text": src[L - 1].strip()[:100]} for L in unc])
        # function-level view from llvm-cov's own summary (instantiations merged by name)
        fn_total = fn_cov = 0
        for fn in data["data"][0].get("functions", []):
            fns = [x for x in fn.get("filenames", []) if x.startswith("/repo/src/")]
            if not fns:
                continue
            regs = fn["regions"]
            first = regs[0][0] if regs else 0
            if any(a <= first <= b for a, b in test_ranges(fns[0])):
                continue
            fn_total += 1
            fn_cov += 1 if fn.get("count", 0) > 0 else 0
        tot = sum(p["lines"] for p in per.values())
        cov = sum(p["covered"] for p in per.values())
        return dict(case_files=len(files), files=len(per), lines=tot, lines_covered=cov,
                    line_coverage=round(cov / tot, 4) if tot else None,
                    function_instantiations=fn_total, function_instantiations_covered=fn_cov, per_file=per)
    finally:
        if not keep_profiles:
            shutil.rmtree(prof, ignore_errors=True)


def main():
    tier, props, out = "quick", ["C%02d" % i for i in range(1, 19)], os.path.join(V, "coverage_report.json")
    a = sys.argv[1:]
    while a:
        k = a.pop(0)
        if k == "--tier":
            tier = a.pop(0)
        elif k == "--props":
            props = a.pop(0).split(",")
        elif k == "--out":
            out = a.pop(0)
    if not available():
        print("llvm-cov / llvm-profdata of the nightly toolchain not found: coverage cannot be measured here")
        return 0
    t0 = time.time()
    os.makedirs(os.path.join(V, "work"), exist_ok=True)
    dump = tempfile.mkdtemp(prefix="sfcases_", dir=os.path.join(V, "work"))
    try:
        for p in props:
            env = dict(ENV, VERIF_DUMP_CASES=dump)
            r = subprocess.run([os.path.join(V, "check"), p, "--tier", tier, "--no-lean", "--no-evidence"], cwd=V, env=env,
                               capture_output=True, text=True)
            print(p, "rc", r.returncode, (r.stderr.strip().split("\n") or [""])[-1][:160], flush=True)
        rep = measure(dump)
        rep["tier"], rep["properties"], rep["wall_s"] = tier, props, round(time.time() - t0, 1)
        rep["repo_head"] = subprocess.run(["git", "-C", "/repo", "rev-parse", "HEAD"], capture_output=True, text=True).stdout.strip()
        json.dump(rep, open(out, "w"), indent=1)
        print("line coverage of /repo/src (non-test code) by the checks' inputs: %d/%d = %.1f%%   functions %d/%d"
              % (rep["lines_covered"], rep["lines"], 100.0 * rep["line_coverage"], rep["function_instantiations_covered"],
                 rep["function_instantiations"]))
        for f, p in sorted(rep["per_file"].items()):
            if p["uncovered"]:
                print("  %-58s %3d/%3d  uncovered: %s" % (f, p["covered"], p["lines"],
                      "; ".join("%d: %s" % (u["line"], u["text"][:50]) for u in p["uncovered"][:6])))
    finally:
        shutil.rmtree(dump, ignore_errors=True)
    return 0


if __name__ == "__main__":
    sys.exit(main())
