#!/usr/bin/env python3
"""find a failing job of a property matching view/kind/mode/family; print its JSON (used to populate known_findings.json by hand)"""
import sys, os, json, random
sys.path.insert(0, os.path.dirname(os.path.dirname(os.path.abspath(__file__))))
from pylib import core, jobs, props
pid, view = sys.argv[1], sys.argv[2]
mode = sys.argv[3] if len(sys.argv) > 3 else None
fam = sys.argv[4] if len(sys.argv) > 4 else None
for seed in range(1, 40):
    rng = random.Random(seed * 1009 + int(pid[1:]))
    js = [j for j in props.GENERATORS[pid](rng, "quick") if getattr(j, "e", ("",))[0] == view]
    if mode:
        js = [j for j in js if getattr(j, "mode", getattr(j, "fmode", None)) == mode]
    if fam:
        js = [j for j in js if (getattr(j, "fam", None) or (getattr(j, "params", {}) or {}).get("fam")) == fam]
    for j, f in jobs.run_jobs(js):
        if f is not None and not f.get("corr_only"):
            j2, f2 = jobs.shrink(j)
            if f2 is None:
                j2, f2 = j, f
            print(json.dumps(dict(witness=j2.to_json(), explanation=f2["explanation"], expected=str(f2.get("expected")), actual=str(f2.get("actual")))))
            sys.exit(0)
print("none found")
