#!/usr/bin/env python3
"""tools/mk_geneq.py [View ...] -- write the per-view tie files lean/SF/GenEq/<View>.lean from the table below.

The table is the hand-written part of each tie: which model view the generated view is compared with, the abstraction
function from the generated state (field names of the Rust struct) to the model state, and which fields are immutable
parameters.  The proofs are one generic tactic (`gen_tie`, SF/GenEq/Tactic.lean); a view whose obligations the tactic
does not close gets hand-written proof text in `extra`.  The emitted files are committed; this script only regenerates them.
"""
import os, sys
V = os.path.dirname(os.path.dirname(os.path.abspath(__file__)))

HEAD = """import SF.Gen.{view}
import {imports}
import SF.GenEq.Basic
import SF.GenEq.Tactic
set_option linter.unusedSimpArgs false
set_option linter.unusedSectionVars false
set_option linter.unusedVariables false
set_option maxHeartbeats {heartbeats}
/-! Translator tie for `{view}` ({src}): the view generated from the Rust text = the model's `{model_doc}`,
for every child view: same answers and same panics on every input.  (Table-driven: tools/mk_geneq.py.) -/
namespace SF.GenEq.{view}
open SF SF.Gen.{view}
variable {{α : Type}} [Add α] [Sub α] [Mul α] [Div α] [Neg α] [NatCast α]
  [LT α] [DecidableLT α] [LE α] [DecidableLE α] [BEq α] [FloatLike α] [Transc α]
"""

def emit(sp):
    view = sp["view"]
    ch = sp.get("children", ["A"])
    chb = " ".join("(%s : View α)" % c for c in ch)
    cha = " ".join(ch)
    sty = ("State α " + " ".join("%s.σ" % c for c in ch)).strip()
    params = sp.get("params", "")
    pnames = " ".join(p.split(":")[0].strip("( ") for p in params.split(")") if ":" in p)
    hyps = sp.get("hyps", "")          # e.g. "(hN : 0 < N)"
    hnames = " ".join(h.split(":")[0].strip("( ") for h in hyps.split(")") if ":" in h)
    cfg = sp.get("cfg", [])            # [(field, param)]
    derived = sp.get("derived", [])    # [(field, expression in {params})]  immutable fields computed by the constructor
    def model(subst):
        m = sp["model"]
        for f, p in cfg:
            m = m.replace("{%s}" % p, subst(f, p))
        return m
    model_s = model(lambda f, p: "s.%s" % f)
    model_p = model(lambda f, p: p)
    unfold = sp.get("unfold", "")
    o = HEAD.format(view=view, imports="\nimport ".join(sp.get("imports", ["SF.Model.Window"])), src=sp["src"], model_doc=model_p, heartbeats=sp.get("heartbeats", 400000))
    o += "\n" + sp.get("pre", "")
    o += "def s0 %s %s : %s := %s\n" % (chb, params, sty, sp["s0"])
    s0app = ("(s0 %s %s)" % (cha, pnames)) if (cha or pnames) else "(s0 : %s)" % sty
    ctor = sp.get("ctor", "new %s %s" % (cha, pnames))
    if not cha and not pnames:
        ctor = "(new : M (%s))" % sty
    if sp.get("new_stmt"):
        o += "theorem new_ok %s %s : %s := by\n  %s\n\n" % (chb, params, sp["new_stmt"], sp.get("new_proof", "rfl"))
    else:
        o += "theorem new_ok %s %s %s : %s = .ok %s := by\n  %s\n\n" % (chb, params, sp.get("ctor_hyps", ""), ctor, s0app, sp.get("new_proof", "rfl"))
    for extra_name, extra_ctor in sp.get("other_ctors", []):
        o += "theorem %s %s %s : %s := by\n  rfl\n\n" % (extra_name, chb, params, extra_ctor)
    mst = sp["mstate"]
    o += "@[simp] def abs %s (s : %s) : %s := %s\n\n" % (chb, sty, mst, sp["abs"])
    def dexpr(e, subst):
        for f, p in cfg:
            e = e.replace("{%s}" % p, subst(f, p))
        return e
    invs = sp.get("inv", [])           # extra conjuncts of Cfg: predicates on the state `s`, preserved by update
    import re as _re
    prime = lambda t: _re.sub(r"\bs\.", "s'.", t)
    shyps = sp.get("state_hyps", "") + " ".join("(hi%d : %s)" % (i, t) for i, t in enumerate(invs)) + " " + " ".join("(hd%d : s.%s = %s)" % (i, f, dexpr(e, lambda f_, p_: "s.%s" % f_)) for i, (f, e) in enumerate(derived))
    shn = " ".join(h.split(":")[0].strip("( ") for h in shyps.split(")") if ":" in h)
    limp = sp.get("lemma_implicit", "")
    o += ("theorem upd_eq %s " + limp + " (s : %s) (x : α) %s :\n    (update %s s x).map (abs %s) = (%s).upd (abs %s s) x := by\n  %s\n") % ((
        chb, sty, shyps, cha, cha, model_s, cha, sp.get("upd_proof", "simp only [update, wrap, mapV, binop, %s, abs]; gen_tie" % unfold)))
    cfgprop = " ∧ ".join(["s'.%s = s.%s" % (f, f) for f, p in cfg + derived] + [prime(t) for t in invs]) or "True"
    ihyps = " ".join("(hi%d : %s)" % (i, t) for i, t in enumerate(invs))
    o += "theorem upd_cfg %s (s s' : %s) (x : α) %s : update %s s x = .ok s' → %s := by\n  %s\n" % (
        chb, sty, ihyps, cha, cfgprop, sp.get("cfg_proof", "simp only [update, %s]; gen_tie" % unfold))
    o += ("theorem last_eq %s " + limp + " (s : %s) %s : last %s s = (%s).last (abs %s s) := by\n  %s\n\n") % ((
        chb, sty, shyps, cha, model_s, cha, sp.get("last_proof", "simp only [last, wrap, mapV, binop, %s, abs]; gen_tie" % unfold)))
    cfgP = " ∧ ".join(["s.%s = %s" % (f, p) for f, p in cfg] + ["s.%s = %s" % (f, dexpr(e, lambda f_, p_: p_)) for f, e in derived] + list(invs)) or "True"
    n = len(cfg) + len(derived)
    nplain = len(cfg)
    ninv = len(invs)
    def destr(h):
        if n == 0: return ""
        if n == 1: return "obtain rfl := %s; " % h if False else ""
        return ""
    o += "def sim %s %s %s : Sim (mkView %s (update %s) (last %s)) (%s) where\n" % (chb, params, hyps, s0app, cha, cha, model_p)
    o += "  Cfg s := %s\n  abs := abs %s\n" % (cfgP, cha)
    o += "  init_cfg := by simp [mkView, s0]\n  init_abs := by %s\n" % sp.get("init_proof", "rfl")
    # rewrite the parameters by the state's fields, then apply the lemmas
    n = len(cfg) + len(derived)
    nt = n + ninv
    pat = "⟨" + ", ".join("h%d" % i for i in range(nt)) + "⟩" if nt > 1 else ("h0" if nt == 1 else "_")
    ob = ("obtain %s := hs" % pat) if nt > 1 else (("have h0 : %s := hs" % cfgP) if nt == 1 else "skip")
    tryrw = "; ".join("(try rw [h%d])" % i for i in range(nplain))
    conv = " ".join("(by %s; exact h%d)" % (tryrw, i) for i in range(nplain, n)) if nplain else " ".join("h%d" % i for i in range(nplain, n))
    iargs = " ".join("h%d" % i for i in range(n, nt))
    sh0 = sp.get("state_hyps_from0", "")     # hypotheses of the lemmas that are parameters of `sim` (e.g. htot hrefl)
    fin = ("; ".join("(try rw [h%d] at this)" % i for i in range(nplain)) + "; exact this") if nplain else "exact this"
    o += "  upd := fun (s : %s) x hs => by\n    %s\n    have := upd_eq %s s x %s %s %s\n    %s\n" % (sty, ob, cha, sh0, iargs, conv, fin)
    o += "  upd_cfg := fun (s : %s) x s' hs h => by\n    %s\n    have := upd_cfg %s s s' x %s h\n    simp_all\n" % (sty, ob, cha, iargs)
    o += "  last := fun (s : %s) hs => by\n    %s\n    have := last_eq %s s %s %s %s\n    %s\n\n" % (sty, ob, cha, sh0, iargs, conv, fin)
    o += "/-- the Rust text of `%s`, as translated, and the model agree on every input: same answers, same panics -/\n" % view
    o += "theorem tie %s %s %s (xs : List α) :\n    (mkView %s (update %s) (last %s)).trace %s xs = (%s).trace (%s).init xs :=\n  (%s).trace_eq xs\n" % (
        chb, params, hyps, s0app, cha, cha, s0app, model_p, model_p, ("sim %s %s %s" % (cha, pnames, hnames)) if (cha or pnames or hnames) else "sim (α := α)")
    o += sp.get("post", "")
    o += "end SF.GenEq.%s\n" % view
    return o

W = "SF.Model.Window"
SPECS = [
 dict(view="Sma", src="src/sliding_windows/sma.rs", params="(N : Nat)", cfg=[("window_len", "N")],
      s0="{ view := A.init, window_len := N, q_vals := [], sum := nat 0 }", model="wrap A (smaCore {N})", unfold="smaCore",
      mstate="A.σ × SmaState α", abs="(s.view, { q := s.q_vals, sum := s.sum })"),
 dict(view="Ema", src="src/sliding_windows/ema.rs", params="(N : Nat) (al : α)", cfg=[("window_len", "N"), ("alpha", "al")],
      ctor="with_alpha A N al",
      other_ctors=[("new_default", "new A N = with_alpha A N (nat 2 : α)")],
      s0="{ view := A.init, window_len := N, alpha := al, last_ema := nat 0, out := nat 0, n_observed_values := 0 }",
      model="wrap A (emaCore {N} {al})", unfold="emaCore", mstate="A.σ × EmaState α",
      abs="(s.view, { lastEma := s.last_ema, out := s.out, n := s.n_observed_values })"),
 dict(view="Cumulative", src="src/sliding_windows/cumulative.rs", params="(N : Nat)", cfg=[("window_len", "N")],
      s0="{ view := A.init, window_len := N, q_vals := [], out := none }", model="wrap A (cumCore {N})", unfold="cumCore",
      mstate="A.σ × CumState α", abs="(s.view, { q := s.q_vals, out := s.out })"),
 dict(view="Roc", src="src/sliding_windows/roc.rs", params="(N : Nat)", cfg=[("window_len", "N")],
      s0="{ view := A.init, window_len := N, oldest := none, q_vals := [], out := none }", model="wrap A (rocCore {N})", unfold="rocCore",
      mstate="A.σ × RocState α", abs="(s.view, { oldest := s.oldest, q := s.q_vals, out := s.out })"),
 dict(view="GTE", src="src/pure_functions/gte.rs", params="(c : α)", cfg=[("clipping_point", "c")], imports=["SF.Model.Pure"],
      ctor_hyps="(hc : FloatLike.isFinite c = true)", new_proof="simp [new, assertFinite, hc, s0, bind, Except.bind, pure, Except.pure]",
      s0="{ view := A.init, clipping_point := c, out := none }", model="wrap A (gteCore {c})", unfold="gteCore",
      mstate="A.σ × Option α", abs="(s.view, s.out)"),
 dict(view="LTE", src="src/pure_functions/lte.rs", params="(c : α)", cfg=[("clipping_value", "c")], imports=["SF.Model.Pure"],
      ctor_hyps="(hc : FloatLike.isFinite c = true)", new_proof="simp [new, assertFinite, hc, s0, bind, Except.bind, pure, Except.pure]",
      s0="{ view := A.init, clipping_value := c, out := none }", model="wrap A (lteCore {c})", unfold="lteCore",
      mstate="A.σ × Option α", abs="(s.view, s.out)"),
 dict(view="LnReturn", src="src/rolling/ln_return.rs", imports=["SF.Model.Pure"],
      s0="{ view := A.init, last_val := nat 0, current_val := nat 0 }", model="wrap A lnReturnCore", unfold="lnReturnCore",
      mstate="A.σ × LnReturnState α", abs="(s.view, { lastVal := s.last_val, currentVal := s.current_val })"),
 dict(view="Drawdown", src="src/rolling/drawdown.rs", imports=["SF.Model.Pure"],
      s0="{ view := A.init, max_drawdown := nat 0, peak := FloatLike.minValue, min_after_peak := FloatLike.maxValue }",
      model="wrap A drawdownCore", unfold="drawdownCore",
      mstate="A.σ × DrawdownState α", abs="(s.view, { maxDD := s.max_drawdown, peak := s.peak, minAfterPeak := s.min_after_peak })"),
 dict(view="WelfordRolling", src="src/rolling/welford_rolling.rs", imports=["SF.Model.Pure"],
      s0="{ view := A.init, mean := nat 0, s := nat 0, n := 0 }", model="wrap A welfordRollingCore",
      unfold="welfordRollingCore, variance, WelfordRollingState.variance",
      mstate="A.σ × WelfordRollingState α", abs="(s.view, { mean := s.mean, s := s.s, n := s.n })"),
 dict(view="Echo", src="src/pure_functions/echo.rs", children=[], imports=["SF.Model.Pure"],
      s0="{ out := none }", model="echoV", unfold="echoV", mstate="Option α", abs="s.out"),
 dict(view="Constant", src="src/pure_functions/constant.rs", children=[], imports=["SF.Model.Pure"], params="(c : α)", cfg=[("val", "c")],
      s0="{ val := c }", model="constV {c}", unfold="constV", mstate="Unit", abs="()"),
 dict(view="Tanh", src="src/pure_functions/tanh.rs", imports=["SF.Model.Pure"],
      s0="{ view := A.init }", model="mapV Transc.tanh A", unfold="mapV", mstate="A.σ", abs="s.view"),

 dict(view="Min", src="src/sliding_windows/min.rs", params="(N : Nat)", cfg=[("window_len", "N")],
      ctor_hyps="(hN : 0 < N)", new_proof="simp [new, s0, hN, bind, Except.bind, pure, Except.pure]",
      s0="{ view := A.init, opt_min := none, q_vals := [], window_len := N }", model="wrap A (minCoreU {N})", unfold="minCoreU, minByPC, listMin",
      mstate="A.σ × ExtState α", abs="(s.view, { opt := s.opt_min, q := s.q_vals })",
      post="/-- the constructor's `assert!(window_len > 0)` and the model's -/\ntheorem new_zero (A : View α) : new A 0 = .error .assertFailed ∧ (minCore (α := α) 0).toOption.isNone := by\n  constructor <;> rfl\n"),
 dict(view="Max", src="src/sliding_windows/max.rs", params="(N : Nat)", cfg=[("window_len", "N")],
      ctor_hyps="(hN : 0 < N)", new_proof="simp [new, s0, hN, bind, Except.bind, pure, Except.pure]",
      s0="{ view := A.init, opt_max := none, q_vals := [], window_len := N }", model="wrap A (maxCoreU {N})", unfold="maxCoreU, maxByPC, listMax",
      mstate="A.σ × ExtState α", abs="(s.view, { opt := s.opt_max, q := s.q_vals })",
      post="/-- the constructor's `assert!(window_len > 0)` and the model's -/\ntheorem new_zero (A : View α) : new A 0 = .error .assertFailed ∧ (maxCore (α := α) 0).toOption.isNone := by\n  constructor <;> rfl\n"),
 dict(view="SuperSmoother", src="src/sliding_windows/super_smoother.rs", imports=["SF.Model.Ehlers"], params="(N : Nat)", cfg=[("window_len", "N")],
      derived=[("c1", "(ssCoef {N}).c1"), ("c2", "(ssCoef {N}).c2"), ("c3", "(ssCoef {N}).c3")],
      s0="{ view := A.init, window_len := N, i := 0, c1 := (ssCoef N).c1, c2 := (ssCoef N).c2, c3 := (ssCoef N).c3, filt := nat 0, filt_1 := nat 0, filt_2 := nat 0, last_val := nat 0 }",
      model="wrap A (ssCore {N})", unfold="ssCore, ssStep, ssOut, ssInit", mstate="A.σ × SsState α",
      abs="(s.view, { i := s.i, filt := s.filt, filt1 := s.filt_1, filt2 := s.filt_2, lastVal := s.last_val })"),
 dict(view="WelfordOnline", src="src/sliding_windows/welford_online.rs", params="(N : Nat)", cfg=[("window_len", "N")],
      ctor_hyps="(hN : 0 < N)", new_proof="simp [new, s0, hN, bind, Except.bind, pure, Except.pure]",
      s0="{ view := A.init, window_len := N, q_vals := [], mean := nat 0, m2 := nat 0, count := 0 }",
      model="wrap A (welfordCoreU {N})",
      unfold="welfordCoreU, welfordStep, welfordOut, welfordInit, WelfordState.add, WelfordState.remove, WelfordState.variance, update_stats_add, update_stats_remove, variance",
      hyps="(htot : ∀ a b : α, ¬ a ≤ b → b ≤ a) (hrefl : ∀ a : α, a ≤ a)", state_hyps="(htot : ∀ a b : α, ¬ a ≤ b → b ≤ a) (hrefl : ∀ a : α, a ≤ a)", state_hyps_from0="htot hrefl",
      mstate="A.σ × WelfordState α", abs="(s.view, { q := s.q_vals, mean := s.mean, m2 := s.m2, count := s.count })"),
 dict(view="Rsi", src="src/sliding_windows/rsi.rs", params="(N : Nat)", cfg=[("window_len", "N")],
      s0="{ view := A.init, window_len := N, avg_gain := nat 0, avg_loss := nat 0, old_ref := nat 0, last_val := nat 0, q_vals := [], out := none }",
      model="wrap A (rsiCore {N})", unfold="rsiCore", heartbeats=8000000, mstate="A.σ × RsiState α",
      abs="(s.view, { avgGain := s.avg_gain, avgLoss := s.avg_loss, oldRef := s.old_ref, lastVal := s.last_val, q := s.q_vals, out := s.out })"),
 dict(view="MyRSI", src="src/sliding_windows/my_rsi.rs", params="(N : Nat)", cfg=[("window_len", "N")],
      s0="{ view := A.init, window_len := N, cu := nat 0, cd := nat 0, out := nat 0, q_vals := [], last_val := nat 0, oldest_val := nat 0 }",
      model="wrap A (myRsiCore {N})", unfold="myRsiCore", heartbeats=8000000, mstate="A.σ × MyRsiState α",
      abs="(s.view, { cu := s.cu, cd := s.cd, out := s.out, q := s.q_vals, lastVal := s.last_val, oldestVal := s.oldest_val })"),
 dict(view="BinaryEntropy", src="src/sliding_windows/binary_entropy.rs", params="(N : Nat)", cfg=[("window_len", "N")],
      s0="{ view := A.init, window_len := N, q_vals := [], p := 0 }",
      model="wrap A (bentCore {N})", unfold="bentCore", mstate="A.σ × BentState α", abs="(s.view, { q := s.q_vals, p := s.p })"),
 dict(view="Vst", src="src/sliding_windows/variance_stabilizing_transformation.rs", params="(N : Nat)", cfg=[("welford_online.window_len", "N")],
      ctor_hyps="(hN : 0 < N)", new_proof="simp [new, SF.Gen.WelfordOnline.new, s0, hN, bind, Except.bind, pure, Except.pure, echoV]",
      s0="{ view := A.init, last := nat 0, welford_online := { view := none, window_len := N, q_vals := [], mean := nat 0, m2 := nat 0, count := 0 } }",
      model="wrap A (vstCoreU {N})", unfold="vstCoreU, welfordCoreU, welfordStep, welfordOut, welfordInit, WelfordState.add, WelfordState.remove, WelfordState.variance, SF.Gen.WelfordOnline.update, SF.Gen.WelfordOnline.last, SF.Gen.WelfordOnline.update_stats_add, SF.Gen.WelfordOnline.update_stats_remove, SF.Gen.WelfordOnline.variance, echoV", heartbeats=4000000,
      hyps="(htot : ∀ a b : α, ¬ a ≤ b → b ≤ a) (hrefl : ∀ a : α, a ≤ a)", state_hyps="(htot : ∀ a b : α, ¬ a ≤ b → b ≤ a) (hrefl : ∀ a : α, a ≤ a)", state_hyps_from0="htot hrefl",
      mstate="A.σ × VstState α",
      abs="(s.view, { last := s.last, wo := { q := s.welford_online.q_vals, mean := s.welford_online.mean, m2 := s.welford_online.m2, count := s.welford_online.count } })"),
 dict(view="Vsct", src="src/sliding_windows/vsct.rs", params="(N : Nat)", cfg=[("welford_online.window_len", "N")],
      ctor_hyps="(hN : 0 < N)", new_proof="simp [new, SF.Gen.WelfordOnline.new, s0, hN, bind, Except.bind, pure, Except.pure, echoV]",
      s0="{ view := A.init, last := nat 0, welford_online := { view := none, window_len := N, q_vals := [], mean := nat 0, m2 := nat 0, count := 0 } }",
      model="wrap A (vsctCoreU {N})", unfold="vsctCoreU, welfordCoreU, welfordStep, welfordOut, welfordInit, WelfordState.add, WelfordState.remove, WelfordState.variance, SF.Gen.WelfordOnline.update, SF.Gen.WelfordOnline.last, SF.Gen.WelfordOnline.update_stats_add, SF.Gen.WelfordOnline.update_stats_remove, SF.Gen.WelfordOnline.variance, echoV", heartbeats=4000000,
      hyps="(htot : ∀ a b : α, ¬ a ≤ b → b ≤ a) (hrefl : ∀ a : α, a ≤ a)", state_hyps="(htot : ∀ a b : α, ¬ a ≤ b → b ≤ a) (hrefl : ∀ a : α, a ≤ a)", state_hyps_from0="htot hrefl",
      mstate="A.σ × VstState α",
      abs="(s.view, { last := s.last, wo := { q := s.welford_online.q_vals, mean := s.welford_online.mean, m2 := s.welford_online.m2, count := s.welford_online.count } })"),
 dict(view="RoofingFilter", src="src/sliding_windows/roofing_filter.rs", imports=["SF.Model.Ehlers"], params="(N : Nat) (Mss : Nat)",
      cfg=[("window_len", "N"), ("super_smoother.window_len", "Mss")],
      derived=[("alpha_1", "roofAlpha {N}"), ("super_smoother.c1", "(ssCoef {Mss}).c1"), ("super_smoother.c2", "(ssCoef {Mss}).c2"), ("super_smoother.c3", "(ssCoef {Mss}).c3")],
      ctor_hyps="(hN : 2 ≤ N)", new_proof="simp [new, SF.Gen.SuperSmoother.new, s0, hN, bind, Except.bind, pure, Except.pure, echoV, roofAlpha, ssCoef, piC, piLit]",
      s0="{ view := A.init, super_smoother := { view := none, window_len := Mss, i := 0, c1 := (ssCoef Mss).c1, c2 := (ssCoef Mss).c2, c3 := (ssCoef Mss).c3, filt := nat 0, filt_1 := nat 0, filt_2 := nat 0, last_val := nat 0 }, window_len := N, i := 0, alpha_1 := roofAlpha N, val_1 := nat 0, val_2 := nat 0, hp_1 := nat 0, hp_2 := nat 0 }",
      model="wrap A (roofCoreU {N} {Mss})", unfold="roofCoreU, ssStep, ssOut, ssInit, SF.Gen.SuperSmoother.update, SF.Gen.SuperSmoother.last, echoV", heartbeats=4000000,
      mstate="A.σ × RoofState α",
      abs="(s.view, { ss := { i := s.super_smoother.i, filt := s.super_smoother.filt, filt1 := s.super_smoother.filt_1, filt2 := s.super_smoother.filt_2, lastVal := s.super_smoother.last_val }, i := s.i, val1 := s.val_1, val2 := s.val_2, hp1 := s.hp_1, hp2 := s.hp_2 })"),
 dict(view="Alma", src="src/sliding_windows/alma.rs", params="(N : Nat) (sigma offset : α)", cfg=[("window_len", "N")],
      derived=[("m", "offset * (nat {N} + nat 1)"), ("s", "nat {N} / sigma")], lemma_implicit="{sigma offset : α}",
      new_stmt="new_custom A N sigma offset = .ok (s0 A N sigma offset) ∨ new_custom A N sigma offset = .error .assertFailed",
      new_proof="simp only [new_custom, s0]; munfold; split <;> simp",
      other_ctors=[("new_default", "new A N = new_custom A N (nat 6 : α) (dec 85 100 : α)")],
      s0="{ view := A.init, window_len := N, m := offset * (nat N + nat 1), s := nat N / sigma, wtd_sum := nat 0, cum_wt := nat 0, q_vals := [], q_wtd := [], q_out := [] }",
      model="wrap A (almaCore {N} sigma offset)", unfold="almaCore, almaWeight", mstate="A.σ × AlmaState α",
      abs="(s.view, { wtdSum := s.wtd_sum, cumWt := s.cum_wt, qVals := s.q_vals, qWtd := s.q_wtd, qOut := s.q_out })"),
 dict(view="LaguerreFilter", src="src/sliding_windows/laguerre_filter.rs", imports=["SF.Model.Ehlers"], params="(g : α)", cfg=[("gamma", "g")],
      inv=["s.l1s.length = s.l0s.length", "s.l2s.length = s.l0s.length", "s.l3s.length = s.l0s.length"],
      s0="{ view := A.init, gamma := g, l0s := [], l1s := [], l2s := [], l3s := [], filts := [] }",
      model="wrap A (lagfCore {g})", unfold="lagfCore, fromEnd", heartbeats=16000000, mstate="A.σ × LagfState α",
      abs="(s.view, { l0s := s.l0s, l1s := s.l1s, l2s := s.l2s, l3s := s.l3s, filts := s.filts })"),
] + [
 dict(view=v, src="src/pure_functions/%s.rs" % v.lower(), children=["A", "B"], imports=["SF.Model.Pure"],
      s0="{ a := A.init, b := B.init }", model="binop %s A B" % f, unfold=f, mstate="A.σ × B.σ", abs="(s.a, s.b)")
 for v, f in [("Add", "addF"), ("Subtract", "subF"), ("Multiply", "mulF"), ("Divide", "divF")]
]

def main():
    want = sys.argv[1:]
    for sp in SPECS:
        if want and sp["view"] not in want: continue
        open(os.path.join(V, "lean", "SF", "GenEq", sp["view"] + ".lean"), "w").write(emit(sp))
        print("wrote", sp["view"])

if __name__ == "__main__":
    main()
