"""Judges: each job = some runs of the implementation (and possibly of the Lean model / spec driver) plus a
decision.  Jobs are JSON-serialisable (`to_json` / `from_json`) so a failing one can be replayed exactly."""
from fractions import Fraction as F
import math
from .core import *
from . import gen


def jexpr(e):
    """expression tuple -> JSON"""
    out = []
    for a in e:
        if isinstance(a, tuple):
            out.append({"e": jexpr(a)})
        elif isinstance(a, F):
            out.append({"q": str(a)})
        elif isinstance(a, list):
            out.append({"l": [None if v is None else str(v) for v in a]})
        else:
            out.append(a)
    return out


def uexpr(j):
    out = []
    for a in j:
        if isinstance(a, dict):
            if "e" in a:
                out.append(uexpr(a["e"]))
            elif "q" in a:
                out.append(F(a["q"]))
            else:
                out.append([None if v is None else F(v) for v in a["l"]])
        else:
            out.append(a)
    return tuple(out)


def jvals(xs):
    # a Python float in a value list is a raw f64 (used for -0.0, which no Fraction can express)
    return [("f:" + enc_f(x)) if isinstance(x, float) else str(x) for x in xs]


def uvals(xs):
    return [dec_f(x[2:]) if isinstance(x, str) and x.startswith("f:") else F(x) for x in xs]


def spec_text(e, mode):
    """(name inner params...) -> spec sexpr (name params...)"""
    name = e[0]
    if name in ("pfe", "eft"):
        return "(%s %d %s)" % (name, e[3], spec_text(e[2], mode))
    if name == "echo":
        return "(echo)"
    return gen.render((name,) + tuple(e[2:]), mode)


class Job:
    kind = "job"
    # which runs are needed
    def impl_cases(self):      # run on the implementation (relassert build)
        return []
    def impl_rel_cases(self):  # run on the implementation (plain release build)
        return []
    def model_cases(self):     # run on the Lean driver
        return []
    def decide(self, impl, rel, model):
        """-> None if fine, else dict(explanation=..., expected=..., actual=..., corr_only=bool)"""
        raise NotImplementedError
    def to_json(self):
        raise NotImplementedError
    def nontrivial_key(self, impl):
        """a hashable key if the case was non-trivial (stream outlived the window and output not constant)"""
        return None
    def shrink_candidates(self):
        return []


def _nontriv(key, outs, n):
    vals = [o for o in outs if o is not None and not isinstance(o, tuple)]
    if len(vals) > n and len(set(vals)) > 1:
        return key
    return None


class Corr(Job):
    """implementation vs Lean model on the same operation sequence"""
    kind = "corr"

    def __init__(self, e, mode, ops, projection, scale=1.0, both_builds=False, n=1, info=False, risky=False):
        self.e, self.mode, self.ops, self.projection, self.scale, self.both, self.n = e, mode, ops, projection, scale, both_builds, n
        # info: inputs outside every property's domain (extreme magnitudes): a difference is recorded in the evidence, never reported.
        # risky: a chain in which an inner view's rounding residue can push the outer view out of its domain (ln / division of a
        # value that is 0 only up to rounding): whether the finiteness `debug_assert!` fires there is not comparable with the model
        self.info = info
        # any tree in which a Divide / LnReturn / Drawdown sits over a sub-view that can report 0 (or a non-positive value) up to
        # rounding is risky in this sense, whoever generated it (harmless rewrite H03: an exact 0 std on a flat window where the
        # original leaves 1e-13 of residue makes `Divide`'s assertion fire)
        self.risky = risky or not gen.domain_safe(e)

    def case(self):
        return Case(self.mode, gen.render(self.e, self.mode), self.ops)

    def impl_cases(self):
        return [self.case()]

    def impl_rel_cases(self):
        return [self.case()] if self.both else []

    def model_cases(self):
        return [self.case()]

    def decide(self, impl, rel, model):
        self.bit = 0
        a = [l for l in impl[0] if not l.startswith("Z")]
        b = [l for l in model[0] if not l.startswith("Z")]
        ok, i, bit = compare_lines(self.mode, a, b, self.projection, self.scale)
        self.bit, self.lines = bit, len(a)
        if not ok and self.risky and i < len(a) and i < len(b) and {a[i][:1], b[i][:1]} == {"P", "S"} and "debug" in (a[i] + b[i]):
            return None
        if not ok:
            # a difference of VALUES only (same None/Some/panic pattern throughout) at f64 may be mere rounding: see run_jobs
            value_only = self.mode != "q" and compare_lines(self.mode, a, b, "pattern", self.scale)[0]
            if value_only and self.projection == "rel" and not compare_lines(self.mode, a, b, "rel", self.scale, 1e-6)[0]:
                value_only = False   # a gross difference (overflow, flush to zero, a lost bit pattern) is not rounding
            return dict(explanation="implementation and Lean model disagree (projection %s) at output line %d" % (self.projection, i),
                        expected=b[i] if i < len(b) else None, actual=a[i] if i < len(a) else None, corr_only=True,
                        value_only=value_only,
                        small=bool(value_only and compare_lines(self.mode, a, b, "f64" if self.projection != "rel" else "rel", self.scale, 1e-6)[0]))
        if self.both:
            r = [l for l in rel[0] if not l.startswith("Z")]
            # with debug assertions compiled out, behaviour is only specified up to the first `debug_assert!` the model predicts
            k = next((i for i, l in enumerate(b) if l == "P debug"), None)
            if k is not None:
                r, b = r[:k], b[:k]
            ok, i, _ = compare_lines(self.mode, r, b, self.projection, self.scale)
            if not ok and self.risky:
                return None
            if not ok:
                value_only = self.mode != "q" and compare_lines(self.mode, r, b, "pattern", self.scale)[0]
                return dict(explanation="release build (debug assertions off) and Lean model disagree at output line %d" % i,
                            expected=b[i] if i < len(b) else None, actual=r[i] if i < len(r) else None, corr_only=True,
                            value_only=value_only)
        return None

    def nontrivial_key(self, impl):
        return _nontriv((gen.render(self.e, "q"), self.mode, tuple(self.ops)), outputs(self.mode, impl[0]), self.n)

    def to_json(self):
        return dict(kind=self.kind, e=jexpr(self.e), mode=self.mode, ops=self.ops, projection=self.projection,
                    scale=self.scale, both=self.both, n=self.n, info=self.info, risky=self.risky)

    @staticmethod
    def from_json(d):
        return Corr(uexpr(d["e"]), d["mode"], d["ops"], d["projection"], d.get("scale", 1.0), d.get("both", False), d.get("n", 1),
                    d.get("info", False), d.get("risky", False))

    def shrink_candidates(self):
        ops = self.ops
        out = []
        if len(ops) > 2:
            out.append(Corr(self.e, self.mode, ops[: len(ops) // 2], self.projection, self.scale, self.both, self.n, self.info, self.risky))
            out.append(Corr(self.e, self.mode, ops[:-1], self.projection, self.scale, self.both, self.n, self.info, self.risky))
            out.append(Corr(self.e, self.mode, ops[1:], self.projection, self.scale, self.both, self.n, self.info, self.risky))
        return out


class SpecEq(Job):
    """implementation (exact arithmetic, Q) vs the batch spec evaluated by the Lean driver on the same history.
    `from_step`: compare only from that 1-based step on; `only_some`: compare only where the spec is defined."""
    kind = "spec_eq"

    def __init__(self, e, xs, acc=False, only_some=False, mode="q", rel=None, hop=None, scale=1):
        self.e, self.xs, self.acc, self.only_some, self.mode, self.rel = e, xs, acc, only_some, mode, rel
        self.scale = scale   # what `rel` is relative to besides the two values themselves (1 for unit-scale streams)
        self.hop = hop   # implementation side only: clone the view after `hop` values and continue on the clone

    def ops(self):
        o = []
        for x in self.xs:
            o.append("X " + enc(self.mode, x))
            if self.acc:
                o.append("A")
        return o

    def impl_cases(self):
        ops = self.ops() if self.hop is None else hop_ops(self.ops(), self.hop)
        return [Case(self.mode, gen.render(self.e, self.mode), ops)]

    def model_cases(self):
        return [Case(self.mode, spec_text(self.e, self.mode), self.ops(), target="spec")]

    def decide(self, impl, rel, model):
        a, b = [l for l in impl[0] if not l.startswith("K")], model[0]
        hopnote = "" if self.hop is None else " (the view was cloned after %d values and the clone continued)" % self.hop
        if any(l.startswith("bad") for l in b):
            return dict(explanation="spec driver rejected the case", expected=None, actual=b[:1], corr_only=True)
        for i in range(max(len(a), len(b))):
            la = a[i] if i < len(a) else None
            lb = b[i] if i < len(b) else None
            if lb is None or la is None:
                return dict(explanation="output streams have different lengths (a panic?)", expected=lb, actual=la)
            if self.only_some and lb == "N":
                continue
            if la == lb:
                continue
            okv = False
            if self.rel is not None and la[0] == lb[0] and la[0] in "SA":
                va, vb = la.split(" ")[1:], lb.split(" ")[1:]
                okv = len(va) == len(vb) and all(close(dec(self.mode, x), dec(self.mode, y), self.scale, self.rel) for x, y in zip(va, vb))
            if not okv:
                step = (i // 2 if self.acc else i) + 1
                return dict(explanation="after %d values the implementation does not report what the definition gives for history %s%s"
                            % (step, [str(x) for x in self.xs[:step]], hopnote), expected=lb, actual=la)
        return None

    def nontrivial_key(self, impl):
        return _nontriv((gen.render(self.e, "q"), tuple(self.xs)), outputs(self.mode, impl[0]), gen.window_of(self.e))

    def to_json(self):
        return dict(kind=self.kind, e=jexpr(self.e), xs=jvals(self.xs), acc=self.acc, only_some=self.only_some, mode=self.mode,
                    rel=self.rel, hop=self.hop, scale=self.scale)

    @staticmethod
    def from_json(d):
        return SpecEq(uexpr(d["e"]), uvals(d["xs"]), d["acc"], d["only_some"], d.get("mode", "q"), d.get("rel"), d.get("hop"), d.get("scale", 1))

    def shrink_candidates(self):
        xs = self.xs
        out = []
        if len(xs) > 1:
            for cand in (xs[: len(xs) // 2], xs[:-1], xs[1:], [F(round(x)) for x in xs]):
                if cand != xs:
                    hop = self.hop if (self.hop is None or (cand is not xs[1:] and self.hop <= len(cand))) else None
                    if cand == xs[1:] and self.hop:
                        hop = self.hop - 1
                    out.append(SpecEq(self.e, cand, self.acc, self.only_some, self.mode, self.rel, hop, self.scale))
        return out


class Relation(Job):
    """several exact runs of the implementation on related inputs; `rel` names the relation to verify"""
    kind = "relation"

    def __init__(self, rel, e, streams, params=None, mode="q", es=None):
        # streams: list of value lists; es: optional list of expressions (one per stream), default all `e`
        self.rel, self.e, self.streams, self.params, self.mode, self.es = rel, e, streams, params or {}, mode, es

    def exprs(self):
        return self.es if self.es else [self.e] * len(self.streams)

    def impl_cases(self):
        hop = self.params.get("hop")   # clone each view after `hop` values and continue on the clone (C17: nothing may change)
        mk = (lambda o: o) if hop is None else (lambda o: hop_ops(o, hop))
        return [Case(self.mode, gen.render(e, self.mode), mk(xs_ops(self.mode, xs))) for e, xs in zip(self.exprs(), self.streams)]

    def decide(self, impl, rel, model):
        if any(l[:1] == ["P assert"] for l in impl) and (self.mode == "s" or self.params.get("ctor_may_reject")):
            return None   # the constructor rejects these parameters (Alma: kernel weights underflow in this scalar type): no view, nothing to check
        outs = [outputs(self.mode, l) for l in impl]
        for o, xs in zip(outs, self.streams):
            if len(o) != len(xs) or any(isinstance(v, tuple) for v in o):
                p = [v for v in o if isinstance(v, tuple)]
                if self.params.get("domain_ok") and p and all(v[1] == "debug" for v in p):
                    return None   # an inner output left the outer view's domain (finiteness / non-zero assertion): not this relation's business
                return dict(explanation="implementation panicked (%s) during relation %s" % (p[:1], self.rel), expected="no panic", actual=str(p[:1]))
        f = RELATIONS[self.rel]
        r = f(self, outs)
        if r is None:
            return None
        return dict(explanation="relation %s violated: %s" % (self.rel, r[0]), expected=str(r[1]), actual=str(r[2]))

    def nontrivial_key(self, impl):
        return _nontriv((self.rel, gen.render(self.e, "q"), tuple(map(tuple, self.streams))), outputs(self.mode, impl[0]), gen.window_of(self.e))

    def to_json(self):
        return dict(kind=self.kind, rel=self.rel, e=jexpr(self.e), streams=[jvals(s) for s in self.streams],
                    params={k: (str(v) if isinstance(v, F) else v) for k, v in self.params.items()}, mode=self.mode,
                    es=[jexpr(x) for x in self.es] if self.es else None)

    @staticmethod
    def from_json(d):
        ps = {}
        for k, v in d["params"].items():
            try:
                ps[k] = F(v) if isinstance(v, str) else v
            except ValueError:
                ps[k] = v
        return Relation(d["rel"], uexpr(d["e"]), [uvals(s) for s in d["streams"]], ps, d.get("mode", "q"),
                        [uexpr(x) for x in d["es"]] if d.get("es") else None)


def tol_eq(job, a, b, scale=1):
    if a is None or b is None:
        return a is None and b is None
    if job.mode == "q" and not job.params.get("tol"):
        return a == b
    rel = job.params.get("tol") or 1e-9
    if job.mode == "q":
        return close(F(a), F(b), F(scale), F(rel))
    return close(a, b, float(scale), rel)


# ---- relations: each returns None or (message, expected, actual)

def rel_suffix(job, outs):
    # two histories sharing a suffix: final outputs must agree
    a, b = outs[0][-1], outs[1][-1]
    if not tol_eq(job, a, b, job.params.get("scale", 1)):
        def show(xs):
            xs = [str(x) for x in xs]
            return xs if len(xs) <= 60 else "[%d values ending in %s]" % (len(xs), xs[-12:])
        return ("histories %s and %s share their last %s values but yield different outputs"
                % (show(job.streams[0]), show(job.streams[1]), job.params.get("K")), a, b)


def rel_same(job, outs):
    # outputs of stream 0 and stream 1 must agree at every step (optionally from `from` on, optionally mapped)
    mp = job.params.get("map", "id")
    a_, b_ = job.params.get("a", F(1)), job.params.get("b", F(0))
    skip = set(job.params.get("skip", []))
    for t, (u, v) in enumerate(zip(outs[0], outs[1])):
        if t in skip:
            continue
        if u is None or v is None:
            if (u is None) != (v is None):
                return ("readiness differs at step %d" % (t + 1), u, v)
            continue
        if mp == "id":
            w = u
        elif mp == "scale":
            w = a_ * u
        elif mp == "affine":
            w = a_ * u + b_
        elif mp == "neg":
            w = -u
        elif mp == "hundred_minus":
            w = 100 - u
        if not tol_eq(job, w, v, max(abs(w), 1)):
            return ("step %d: transformed input should give %s(out) " % (t + 1, mp), w, v)


def rel_linear(job, outs):
    a_, b_ = job.params["a"], job.params["b"]
    for t, (u, v, w) in enumerate(zip(outs[0], outs[1], outs[2])):
        if u is None or v is None or w is None:
            if not (u is None and v is None and w is None):
                return ("readiness differs at step %d" % (t + 1), (u, v), w)
            continue
        exp = a_ * u + b_ * v
        if not tol_eq(job, exp, w, max(abs(exp), abs(u), abs(v), 1)):
            return ("step %d: view(a*x+b*y) != a*view(x)+b*view(y) for a=%s b=%s" % (t + 1, a_, b_), exp, w)


def rel_interval(job, outs):
    # output within [min,max] of the last N inputs (N=0: all so far)
    n = job.params.get("N", 0)
    xs = job.streams[0]
    for t, u in enumerate(outs[0]):
        if u is None:
            continue
        w = xs[: t + 1] if n == 0 else xs[max(0, t + 1 - n): t + 1]
        lo, hi = min(w), max(w)
        slack = job.params.get("slack", 0)
        if not (lo - slack <= u <= hi + slack):
            return ("step %d: output outside the span of the values it averages" % (t + 1), "[%s, %s]" % (lo, hi), u)


def rel_const(job, outs):
    c = job.streams[0][0]
    for t, u in enumerate(outs[0]):
        if u is None:
            continue
        if not tol_eq(job, u, c, max(abs(c), 1)):
            return ("step %d: constant input %s not reproduced" % (t + 1, c), c, u)


def rel_mono(job, outs):
    for t, (u, v) in enumerate(zip(outs[0], outs[1])):
        if u is None or v is None:
            continue
        if u > v + (job.params.get("slack", 0)):
            return ("step %d: raising inputs lowered the output" % (t + 1), "<= %s" % v, u)


def rel_range(job, outs):
    lo, hi = job.params.get("lo"), job.params.get("hi")
    slack = job.params.get("slack", 0)
    for t, u in enumerate(outs[0]):
        if u is None:
            continue
        if job.mode != "q" and (u != u or u in (float("inf"), float("-inf"))):
            return ("step %d: non-finite output" % (t + 1), "finite", u)
        if (lo is not None and u < lo - slack) or (hi is not None and u > hi + slack):
            return ("step %d: output outside its documented range" % (t + 1), "[%s, %s]" % (lo, hi), u)
        if job.params.get("strict_hi") and u >= hi:
            return ("step %d: output reaches the excluded bound" % (t + 1), "< %s" % hi, u)
    if job.params.get("nondecreasing"):
        vals = [u for u in outs[0] if u is not None]
        for i in range(1, len(vals)):
            if vals[i] < vals[i - 1]:
                return ("output decreased", ">= %s" % vals[i - 1], vals[i])


def rel_sandwich(job, outs):
    # outs: [min, mid, max] over the same window: min <= mid <= max wherever all defined
    slack = job.params.get("slack", 0)
    for t, (a, m, b) in enumerate(zip(outs[0], outs[1], outs[2])):
        if a is None or m is None or b is None:
            continue
        if not (a - slack <= m <= b + slack):
            return ("step %d: not Min <= value <= Max over the same window" % (t + 1), "[%s, %s]" % (a, b), m)


def rel_value(job, outs):
    # from step `from` (1-based) on, every output equals params['value'] (None = must be None)
    v = job.params.get("value")
    for t, u in enumerate(outs[0]):
        if t + 1 < job.params.get("from", 1):
            continue
        if v == "none":
            if u is not None:
                return ("step %d: expected no output yet" % (t + 1), None, u)
        elif u is None or not tol_eq(job, u, v, max(abs(v), 1)):
            return ("step %d: expected %s" % (t + 1, v), v, u)


def rel_ready(job, outs):
    # readiness never reverts; first output exactly at step `first` (if given), or within [first_lo, first_hi]
    o = outs[0]
    seen = False
    first = None
    for t, u in enumerate(o):
        if u is not None and first is None:
            first = t + 1
        if u is None and seen:
            return ("step %d: last() reverted to None after having reported a value" % (t + 1), "Some", None)
        if u is not None:
            seen = True
            if job.mode != "q" and (u != u or abs(u) == float("inf")):
                return ("step %d: non-finite output" % (t + 1), "finite", u)
    want = job.params.get("first")
    if want is not None and len(o) >= want:
        if first != want:
            return ("first output at value %s instead of value %s" % (first, want), want, first)
    lo, hi = job.params.get("first_lo"), job.params.get("first_hi")
    if hi is not None and len(o) >= hi:
        if first is None or first > hi or (lo is not None and first < lo):
            return ("first output at value %s, documented between %s and %s" % (first, lo, hi), (lo, hi), first)


def rel_idle(job, outs):
    # the inner view (probe) delivers nothing at the steps listed in params['idle']: answer must not change there
    o = outs[0]
    for t in job.params["idle"]:
        prev = o[t - 1] if t > 0 else job.params.get("initial")
        if t > 0 and o[t] != prev:
            return ("step %d: the inner view delivered nothing but the answer changed" % (t + 1), prev, o[t])


RELATIONS = dict(suffix=rel_suffix, same=rel_same, linear=rel_linear, interval=rel_interval, const=rel_const,
                 mono=rel_mono, range=rel_range, sandwich=rel_sandwich, value=rel_value, ready=rel_ready, idle=rel_idle)


class NoPanic(Job):
    """operation sequence must complete without a panic on both builds"""
    kind = "nopanic"

    def __init__(self, e, mode, ops):
        self.e, self.mode, self.ops = e, mode, ops

    def case(self):
        return Case(self.mode, gen.render(self.e, self.mode), self.ops)

    def impl_cases(self):
        return [self.case()]

    def impl_rel_cases(self):
        return [self.case()]

    def decide(self, impl, rel, model):
        if self.mode == "s" and impl[0][:1] == ["P assert"] and rel[0][:1] == ["P assert"]:
            return None   # rejected by the constructor for this scalar type: the property speaks of constructed views
        for name, lines in (("debug assertions on", impl[0]), ("debug assertions off", rel[0])):
            for l in lines:
                if l.startswith("P"):
                    return dict(explanation="panic (%s, %s) on %s" % (l[2:], name, gen.render(self.e, self.mode)), expected="no panic", actual=l)
                if l.startswith("S") and self.mode in ("f", "s"):
                    v = dec_f(l[2:])
                    if v != v or abs(v) == float("inf"):
                        return dict(explanation="non-finite output (%s)" % name, expected="finite", actual=l)
        if impl[0] != rel[0]:
            return dict(explanation="the two builds behave differently", expected=rel[0][:3], actual=impl[0][:3])
        return None

    def nontrivial_key(self, impl):
        return _nontriv((gen.render(self.e, "q"), tuple(self.ops)), outputs(self.mode, impl[0]), gen.window_of(self.e))

    def to_json(self):
        return dict(kind=self.kind, e=jexpr(self.e), mode=self.mode, ops=self.ops)

    @staticmethod
    def from_json(d):
        return NoPanic(uexpr(d["e"]), d["mode"], d["ops"])

    def shrink_candidates(self):
        ops = self.ops
        if len(ops) > 2:
            return [NoPanic(self.e, self.mode, ops[: len(ops) // 2]), NoPanic(self.e, self.mode, ops[:-1]), NoPanic(self.e, self.mode, ops[1:])]
        return []


class Decomp(Job):
    """C01: chain B(A) vs stand-alone A, then B over Echo fed A's outputs when A has one (bitwise at f64)"""
    kind = "decomp"

    def __init__(self, outer, inner, xs, stage2=None):
        # outer: expression whose first inner slot is ECHO (B over Echo); inner: expression A
        self.outer, self.inner, self.xs, self.stage2 = outer, inner, xs, stage2

    def chain(self):
        return (self.outer[0], self.inner) + tuple(self.outer[2:])

    def impl_cases(self):
        cs = [Case("f", gen.render(self.chain(), "f"), xs_ops("f", self.xs)),
              Case("f", gen.render(self.inner, "f"), xs_ops("f", self.xs))]
        if self.stage2 is not None:
            cs.append(Case("f", gen.render(self.outer, "f"), self.stage2))
        return cs

    def needs_stage2(self):
        return self.stage2 is None

    def make_stage2(self, inner_lines):
        # B over echo: update with A's output when it has one, then read; when A has none, only read
        ops = []
        for l in inner_lines:
            if l.startswith("S"):
                ops.append("X " + l[2:])
            elif l == "N":
                ops.append("L")
            else:
                ops.append("L")
        self.stage2 = ops

    def decide(self, impl, rel, model):
        chain, b = impl[0], impl[2]
        if any(l.startswith("P") for l in impl[1]):
            return None  # the inner view itself left its domain; nothing to compare
        if chain != b:
            i = next((k for k in range(min(len(chain), len(b))) if chain[k] != b[k]), min(len(chain), len(b)))
            return dict(explanation="chain %s differs from its decomposition at step %d" % (gen.render(self.chain(), "f"), i + 1),
                        expected=b[i] if i < len(b) else None, actual=chain[i] if i < len(chain) else None)
        return None

    def nontrivial_key(self, impl):
        return _nontriv((gen.render(self.chain(), "q"), tuple(self.xs)), outputs("f", impl[0]), 1)

    def to_json(self):
        return dict(kind=self.kind, outer=jexpr(self.outer), inner=jexpr(self.inner), xs=jvals(self.xs))

    @staticmethod
    def from_json(d):
        return Decomp(uexpr(d["outer"]), uexpr(d["inner"]), uvals(d["xs"]))


JOB_KINDS = {c.kind: c for c in (Corr, SpecEq, Relation, NoPanic, Decomp)}


def job_from_json(d):
    return JOB_KINDS[d["kind"]].from_json(d)


def ops_f_to_q(ops):
    """the same operation sequence with every f64 operand replaced by its exact rational value (None if not finite)"""
    out = []
    for op in ops:
        parts = op.split(" ")
        new = [parts[0]]
        for tok in parts[1:]:
            if len(tok) == 16 and all(ch in "0123456789abcdef" for ch in tok):
                v = dec_f(tok)
                if v != v or v in (float("inf"), float("-inf")):
                    return None
                new.append(enc_q(F(v)))
            else:
                new.append(tok)
        out.append(" ".join(new))
    return out


ROUNDING_ONLY = [0]


def run_jobs(jobs):
    """run all jobs in three batched process invocations; returns list of (job, failure-or-None)"""
    res = _run_jobs(jobs)
    # A Corr job that fails at f64 on VALUES only is re-run in exact arithmetic (the same Rust generic code at Q against the
    # model at Rat).  If model and implementation agree exactly there, the f64 difference is a difference in rounding, which
    # no property except C16 speaks about (and C16 measures it itself): it is recorded, not reported.
    redo = []
    for k, (j, f) in enumerate(res):
        if isinstance(j, Corr) and f is not None and f.get("value_only") and j.mode == "f" and j.projection != "pattern":
            # exact rationals of a recursive filter grow with every step (a 76 000-step SuperSmoother run never finishes at Q): a
            # long run is re-checked exactly on its first steps only when the f64 difference is small (within 1e-6 of the scale
            # everywhere); a gross difference on a long run is reported as it stands
            steps = sum(1 for o in j.ops if o[:1] in "XU")
            limit = 300 if gen.has_transc(j.e) or any(n in ("ema", "emaa", "lagf", "lagrsi", "cc") for n in gen.tree_names(j.e)) else 20000
            ops = j.ops
            if steps > limit:
                if not f.get("small"):
                    continue
                cut, seen = len(ops), 0
                for idx, o in enumerate(ops):
                    if o[:1] in "XU":
                        seen += 1
                        if seen > limit:
                            cut = idx
                            break
                ops = ops[:cut]
            q = ops_f_to_q(ops)
            if q is not None:
                redo.append((k, Corr(j.e, "q", q, "exact", j.scale, j.both, j.n)))
    if redo:
        rr = _run_jobs([c for _, c in redo])
        for (k, _), (cj, cf) in zip(redo, rr):
            if cf is None:
                j = res[k][0]
                j.rounding_only = True
                ROUNDING_ONLY[0] += 1
                res[k] = (j, None)
    return res


def _run_jobs(jobs):
    # stage 1 for Decomp jobs needing the inner outputs
    pre = [j for j in jobs if isinstance(j, Decomp) and j.needs_stage2()]
    if pre:
        cs = [Case("f", gen.render(j.inner, "f"), xs_ops("f", j.xs)) for j in pre]
        outs = run_impl(cs, "relassert")
        for j, o in zip(pre, outs):
            j.make_stage2(o)
    ic, rc, mc = [], [], []
    spans = []
    for j in jobs:
        a, b, c = j.impl_cases(), j.impl_rel_cases(), j.model_cases()
        spans.append((len(ic), len(a), len(rc), len(b), len(mc), len(c)))
        ic += a; rc += b; mc += c
    io = run_impl(ic, "relassert") if ic else []
    ro = run_impl(rc, "release") if rc else []
    mo = run_model(mc) if mc else []
    res = []
    for j, (i0, il, r0, rl, m0, ml) in zip(jobs, spans):
        impl, rel, model = io[i0:i0 + il], ro[r0:r0 + rl], mo[m0:m0 + ml]
        j._impl = impl
        try:
            f = j.decide(impl, rel, model)
        except Exception as ex:  # a malformed output line is a failure of the correspondence, not a crash
            f = dict(explanation="could not evaluate: %r" % (ex,), expected=None, actual=None, corr_only=True)
        res.append((j, f))
    return res


def shrink(job, budget=40):
    """greedy shrinking of a failing job; returns (job, failure)"""
    cur = job
    f = run_jobs([cur])[0][1]
    if f is None:
        return job, None
    while budget > 0:
        cands = cur.shrink_candidates()
        if not cands:
            break
        budget -= len(cands)
        rs = run_jobs(cands)
        nxt = next(((j, ff) for j, ff in rs if ff is not None and bool(ff.get("corr_only")) == bool(f.get("corr_only"))), None)
        if nxt is None:
            break
        cur, f = nxt
    return cur, f
